(* C01: call graphs with recursion guards.  An edge (caller, callee, guarded) is one call site; a
   guarded call increments the parser's depth counter and fails once it exceeds the limit. *)
From MJ Require Import Common.Base.
Local Open Scope nat_scope.

Definition edge := (nat * nat * bool)%type.

(* a chain of nested calls starting in function [a] *)
Inductive chain (g : list edge) : nat -> list edge -> Prop :=
| chain_nil a : chain g a []
| chain_cons a b gd p : In (a, b, gd) g -> chain g b p -> chain g a ((a, b, gd) :: p).

Definition guarded_count (p : list edge) : nat := length (filter (fun e => snd e) p).

(* the checker: every unguarded call goes to a function of strictly smaller rank, ranks are bounded *)
Definition check_edge (rank : nat -> nat) (maxrank : nat) (e : edge) : bool :=
  let '(a, b, gd) := e in
  Nat.leb (rank a) maxrank && Nat.leb (rank b) maxrank && (gd || Nat.ltb (rank b) (rank a)).
Definition check_graph (g : list edge) (rank : nat -> nat) (maxrank : nat) : bool :=
  forallb (check_edge rank maxrank) g.

(* Nesting loops: loops of the parser that put what they parsed so far one level deeper per
   iteration without recursing, as (function, charged): charged = the loop body calls nest(),
   which counts the iteration against the nesting limit. *)
Definition check_loops (l : list (nat * bool)) : bool := forallb snd l.
