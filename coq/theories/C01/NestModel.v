(* C01: model of the parser's nesting accounting (compiler/parser.rs: `depth`, `deepest`,
   with_recursion_guard!, with_nesting_chain!, Parser::nest).  No proofs in this file.

   The parser builds expression and statement nodes in three ways:
   - under a recursion guard ([RNode]): primaries (leaf or list/map/tuple over items), unary
     operators, statements over their parts; [RPass] is a guard that hands its result
     through (parse_expr, a parenthesised expression, the guard around the postfix and filter
     loops);
   - by an iteration of a loop that puts what was parsed so far under a new node together with
     further operands ([RChain]): binary operator chains, attribute / subscript / call chains,
     filter and test chains, conditional expressions, comparisons, dotted assignment targets;
     every iteration calls nest();
   - a leaf without either ([RLeaf0]): the variable of an assignment target.
   A [run] is the shape of one run of the parser (which constructs it went through; the token
   stream decides that); [exec] replays the accounting on it and returns the tree that run
   builds, or None when a limit refuses it. *)
From MJ Require Import Common.Base.
Local Open Scope nat_scope.

Inductive ast := Node (children : list ast).

Definition max_list (l : list nat) : nat := fold_right Nat.max 0 l.
Fixpoint height (a : ast) : nat :=
  match a with Node cs => S (max_list (map height cs)) end.

Inductive run :=
| RLeaf0
| RNode (parts : list run)
| RPass (inner : run)
| RChain (first : run) (wraps : list (list run)).

(* runs [rs] one after the other at the same depth, threading [deepest] *)
Definition seq_exec (f : run -> nat -> option (ast * nat)) : list run -> nat -> option (list ast * nat) :=
  fix go rs dp :=
    match rs with
    | [] => Some ([], dp)
    | r :: rs' =>
        match f r dp with
        | None => None
        | Some (e, dp1) =>
            match go rs' dp1 with
            | None => None
            | Some (es, dp2) => Some (e :: es, dp2)
            end
        end
    end.

(* the iterations of a chain: parse the further operands, nest(), build the new node *)
Definition chain_exec (f : run -> nat -> option (ast * nat)) (maxn : nat)
  : list (list run) -> ast -> nat -> option (ast * nat) :=
  fix loop ws acc dp :=
    match ws with
    | [] => Some (acc, dp)
    | ops :: ws' =>
        match seq_exec f ops dp with
        | None => None
        | Some (es, dp1) =>
            if maxn <? S dp1 then None else loop ws' (Node (acc :: es)) (S dp1)
        end
    end.

(* [exec maxr maxn r depth deepest] = Some (tree, deepest') *)
Fixpoint exec (maxr maxn : nat) (r : run) (depth deepest : nat) {struct r} : option (ast * nat) :=
  match r with
  | RLeaf0 => Some (Node [], deepest)
  | RNode parts =>
      let d := S depth in
      if maxr <? d then None else
      match seq_exec (fun r dp => exec maxr maxn r d dp) parts (Nat.max deepest d) with
      | None => None
      | Some (es, dp) => Some (Node es, dp)
      end
  | RPass inner =>
      let d := S depth in
      if maxr <? d then None else exec maxr maxn inner d (Nat.max deepest d)
  | RChain first wraps =>
      match exec maxr maxn first depth depth with
      | None => None
      | Some (e0, dp0) =>
          match chain_exec (fun r dp => exec maxr maxn r depth dp) maxn wraps e0 dp0 with
          | None => None
          | Some (e, dp) => Some (e, Nat.max deepest dp)
          end
      end
  end.

(* the limits of compiler/parser.rs *)
Definition MAX_RECURSION := 150.
Definition MAX_NESTING := 500.
Definition parse (r : run) : option ast :=
  match exec MAX_RECURSION MAX_NESTING r 0 0 with Some (e, _) => Some e | None => None end.

(* `a.b.c + d` : chain (binop) over [chain (postfix) over a primary] and a primary *)
Definition ex_run : run :=
  RPass (RChain (RChain (RNode []) [[]; []]) [[RChain (RNode []) []]]).
(* a chain of [n] attribute lookups on a variable, as the expression of `{{ .. }}` *)
Definition attr_chain (n : nat) : run := RPass (RChain (RNode []) (repeat [] n)).
