From MJ Require Import Common.Base.
From MJ Require Import C01.NestModel.
Local Open Scope nat_scope.

(* induction principle for the nested lists of [run] *)
Fixpoint run_ind' (P : run -> Prop)
  (H0 : P RLeaf0)
  (HN : forall rs, Forall P rs -> P (RNode rs))
  (HP : forall r, P r -> P (RPass r))
  (HC : forall f ws, P f -> Forall (Forall P) ws -> P (RChain f ws))
  (r : run) {struct r} : P r :=
  match r with
  | RLeaf0 => H0
  | RNode rs => HN rs ((fix go (l : list run) : Forall P l :=
                          match l with [] => Forall_nil P | x :: l' => Forall_cons x (run_ind' P H0 HN HP HC x) (go l') end) rs)
  | RPass r' => HP r' (run_ind' P H0 HN HP HC r')
  | RChain f ws => HC f ws (run_ind' P H0 HN HP HC f)
                     ((fix gow (l : list (list run)) : Forall (Forall P) l :=
                         match l with
                         | [] => Forall_nil _
                         | x :: l' => Forall_cons x ((fix go (l : list run) : Forall P l :=
                                        match l with [] => Forall_nil P | y :: l'' => Forall_cons y (run_ind' P H0 HN HP HC y) (go l'') end) x) (gow l')
                         end) ws)
  end.

Lemma max_list_le l b : Forall (fun x => x <= b) l -> max_list l <= b.
Proof. unfold max_list. induction 1; cbn [fold_right]; lia. Qed.

Lemma seq_exec_nil f dp : seq_exec f [] dp = Some ([], dp).
Proof. reflexivity. Qed.
Lemma seq_exec_cons f r rs dp : seq_exec f (r :: rs) dp =
  match f r dp with
  | None => None
  | Some (e, dp1) => match seq_exec f rs dp1 with None => None | Some (es, dp2) => Some (e :: es, dp2) end
  end.
Proof. reflexivity. Qed.
Lemma chain_exec_nil f maxn acc dp : chain_exec f maxn [] acc dp = Some (acc, dp).
Proof. reflexivity. Qed.
Lemma chain_exec_cons f maxn ops ws acc dp : chain_exec f maxn (ops :: ws) acc dp =
  match seq_exec f ops dp with
  | None => None
  | Some (es, dp1) => if maxn <? S dp1 then None else chain_exec f maxn ws (Node (acc :: es)) (S dp1)
  end.
Proof. reflexivity. Qed.

(* what one run of the accounting guarantees *)
Definition good (maxr maxn : nat) (r : run) : Prop :=
  forall depth deepest e dp', depth <= maxr -> depth <= deepest ->
    exec maxr maxn r depth deepest = Some (e, dp') ->
    deepest <= dp' /\ depth + height e <= S dp' /\ dp' <= Nat.max deepest (Nat.max maxr maxn).

Lemma seq_exec_good maxr maxn d rs : Forall (good maxr maxn) rs -> d <= maxr ->
  forall dp es dp', d <= dp -> seq_exec (fun r dp => exec maxr maxn r d dp) rs dp = Some (es, dp') ->
    dp <= dp' /\ Forall (fun e => d + height e <= S dp') es /\ dp' <= Nat.max dp (Nat.max maxr maxn).
Proof.
  intros HF Hd. induction HF as [|r rs Hr HF IH]; intros dp es dp' Hdp H.
  - rewrite seq_exec_nil in H. inversion H; subst. split; [lia|split; [constructor|lia]].
  - rewrite seq_exec_cons in H. destruct (exec maxr maxn r d dp) as [[e dp1]|] eqn:E1; [|discriminate].
    destruct (seq_exec _ rs dp1) as [[es' dp2]|] eqn:E2; [|discriminate].
    inversion H; subst. destruct (Hr _ _ _ _ Hd Hdp E1) as (A1 & A2 & A3).
    destruct (IH dp1 _ _ ltac:(lia) E2) as (B1 & B2 & B3).
    split; [lia|split; [|lia]]. constructor; [lia|exact B2].
Qed.

Lemma height_node es b : Forall (fun e => height e <= b) es -> height (Node es) <= S b.
Proof.
  intros H. cbn [height]. apply le_n_S. apply max_list_le. rewrite Forall_map. exact H.
Qed.

Lemma chain_exec_good maxr maxn d ws : Forall (Forall (good maxr maxn)) ws -> d <= maxr ->
  forall acc dp e dp', d <= dp -> d + height acc <= S dp ->
    chain_exec (fun r dp => exec maxr maxn r d dp) maxn ws acc dp = Some (e, dp') ->
    dp <= dp' /\ d + height e <= S dp' /\ dp' <= Nat.max dp (Nat.max maxr maxn).
Proof.
  intros HF Hd. induction HF as [|ops ws Hops HF IH]; intros acc dp e dp' Hdp Hacc H.
  - rewrite chain_exec_nil in H. inversion H; subst. lia.
  - rewrite chain_exec_cons in H. destruct (seq_exec _ ops dp) as [[es dp1]|] eqn:E1; [|discriminate].
    destruct (maxn <? S dp1) eqn:En; [discriminate|]. apply Nat.ltb_ge in En.
    destruct (seq_exec_good _ _ _ _ Hops Hd _ _ _ Hdp E1) as (A1 & A2 & A3).
    assert (Hh : d + height (Node (acc :: es)) <= S (S dp1)).
    { assert (height (Node (acc :: es)) <= S (S dp1 - d)); [|lia].
      apply height_node. constructor; [lia|]. eapply Forall_impl; [|exact A2]. intros a Ha; cbv beta in *; lia. }
    destruct (IH (Node (acc :: es)) (S dp1) _ _ ltac:(lia) Hh H) as (B1 & B2 & B3). lia.
Qed.

Lemma exec_good maxr maxn r : good maxr maxn r.
Proof.
  induction r as [|rs HF|r IHr|f ws IHf HF] using run_ind'; unfold good; intros depth deepest e dp' Hd Hdp H; cbn [exec] in H.
  - inversion H; subst. cbn. lia.
  - destruct (maxr <? S depth) eqn:Em; [discriminate|]. apply Nat.ltb_ge in Em.
    destruct (seq_exec _ rs _) as [[es dp]|] eqn:E1; [|discriminate]. inversion H; subst.
    destruct (seq_exec_good _ _ _ _ HF Em (Nat.max deepest (S depth)) _ _ ltac:(lia) E1) as (A1 & A2 & A3).
    split; [lia|split; [|lia]].
    assert (height (Node es) <= S (S dp' - S depth)); [|lia].
    apply height_node. eapply Forall_impl; [|exact A2]. intros a Ha; cbv beta in *; lia.
  - destruct (maxr <? S depth) eqn:Em; [discriminate|]. apply Nat.ltb_ge in Em.
    destruct (IHr (S depth) (Nat.max deepest (S depth)) _ _ Em ltac:(lia) H) as (A1 & A2 & A3). lia.
  - destruct (exec maxr maxn f depth depth) as [[e0 dp0]|] eqn:E0; [|discriminate].
    destruct (chain_exec _ maxn ws e0 dp0) as [[e1 dp1]|] eqn:E1; [|discriminate]. inversion H; subst.
    destruct (IHf depth depth _ _ Hd ltac:(lia) E0) as (A1 & A2 & A3).
    destruct (chain_exec_good _ _ _ _ HF Hd e0 dp0 _ _ ltac:(lia) A2 E1) as (B1 & B2 & B3). lia.
Qed.

Theorem accepted_height_bounded_proof maxr maxn r e dp :
  exec maxr maxn r 0 0 = Some (e, dp) -> height e <= S (Nat.max maxr maxn).
Proof.
  intros H. destruct (exec_good maxr maxn r 0 0 e dp (Nat.le_0_l _) (le_n 0) H) as (_ & A & B). lia.
Qed.

Theorem parse_height_bounded_proof r e : parse r = Some e -> height e <= 501.
Proof.
  unfold parse. destruct (exec _ _ r 0 0) as [[e' dp]|] eqn:E; [|discriminate].
  intros H; inversion H; subst. apply accepted_height_bounded_proof in E. cbn in E. exact E.
Qed.

(* non-vacuity / tightness: 498 lookups are accepted and give a tree of height 500, 499 are refused *)
Example attr_chain_498 : option_map height (parse (attr_chain 498)) = Some 499.
Proof. vm_compute. reflexivity. Qed.
Example attr_chain_499 : parse (attr_chain 499) = None.
Proof. vm_compute. reflexivity. Qed.
