From MJ Require Import Common.Base C01.CallGraph.
Local Open Scope nat_scope.

(* a chain with [k] guarded calls has at most k * (maxrank + 1) + rank(start) calls *)
Lemma chain_length g rank maxrank : check_graph g rank maxrank = true ->
  forall a p, chain g a p -> rank a <= maxrank ->
  length p <= guarded_count p * (maxrank + 1) + rank a.
Proof.
  intros Hc a p Hp. induction Hp as [a|a b gd p Hin Hp IH]; intros Ha.
  - cbn. lia.
  - unfold check_graph in Hc. rewrite forallb_forall in Hc. specialize (Hc _ Hin).
    cbn [check_edge] in Hc. apply andb_prop in Hc as [Hc H3]. apply andb_prop in Hc as [H1 H2].
    apply Nat.leb_le in H1, H2. specialize (IH H2).
    unfold guarded_count in *. cbn [filter snd length]. destruct gd; cbn [length].
    + lia.
    + cbn in H3. apply Nat.ltb_lt in H3. lia.
Qed.

Theorem nesting_bounded_proof g rank maxrank limit : check_graph g rank maxrank = true ->
  forall a p, chain g a p -> rank a <= maxrank -> guarded_count p <= limit ->
  length p <= limit * (maxrank + 1) + maxrank.
Proof.
  intros Hc a p Hp Ha Hg. pose proof (chain_length g rank maxrank Hc a p Hp Ha). nia.
Qed.
