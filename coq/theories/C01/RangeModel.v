(* C01: model of functions.rs::range (the length arithmetic and the element computation), as
   it is after the fix, and of the negative-step branch as it was ([neg_len_old]).  No proofs
   in this file.  isize = i64 (64-bit targets).  Arithmetic of the repository's own code is
   checked ([chk64] / [chk128] = the overflow trap of a debug build, `as isize` wraps); the
   std adaptors of the positive-step branch (Range<isize>::len, StepBy) are modelled by what
   they compute. *)
From MJ Require Import Common.Base.

Definition chk64 (z : Z) : outcome Z := if in_i64 z then Ok z else Panic.
Definition chk128 (z : Z) : outcome Z := if in_i128 z then Ok z else Panic.
Definition as_isize (z : Z) : Z := (z + 2 ^ 63) mod 2 ^ 64 - 2 ^ 63.
Definition RANGE_LIMIT := 100000.

(* a lazily evaluated range: first element, step, number of elements *)
Record rng := mk_rng { r_start : Z; r_step : Z; r_len : Z }.

(* ((start - end + (-step) - 1) / (-step)) in i128, start > end, step < 0 *)
Definition neg_len (start end_ step : Z) : outcome Z :=
  if start <=? end_ then Ok 0 else
  bind (chk128 (start - end_)) (fun a =>
  bind (chk128 (- step)) (fun ns =>
  bind (chk128 (a + ns)) (fun b =>
  bind (chk128 (b - 1)) (fun c =>
  if ns =? 0 then Panic else chk128 (Z.quot c ns))))).

(* the same expression in isize, as it was before the fix *)
Definition neg_len_old (start end_ step : Z) : outcome Z :=
  if start <=? end_ then Ok 0 else
  bind (chk64 (start - end_)) (fun a =>
  bind (chk64 (- step)) (fun ns =>
  bind (chk64 (a + ns)) (fun b =>
  bind (chk64 (b - 1)) (fun c =>
  if ns =? 0 then Panic else chk64 (Z.quot c ns))))).

(* Range<isize>::len and StepBy<Range<isize>>::len *)
Definition pos_len (start end_ step : Z) : Z :=
  if start <? end_ then 1 + (end_ - start - 1) / step else 0.

Definition too_many : outcome rng := Err E_InvalidOperation.

Definition model_range (lower : Z) (upper step : option Z) : outcome rng :=
  let '(start, end_) := match upper with Some u => (lower, u) | None => (0, lower) end in
  match step with
  | None => let n := pos_len start end_ 1 in
            if RANGE_LIMIT <? n then too_many else Ok (mk_rng start 1 n)
  | Some st =>
      if st =? 0 then Err E_InvalidOperation
      else if 0 <? st then
        let n := pos_len start end_ st in
        if RANGE_LIMIT <? n then too_many else Ok (mk_rng start st n)
      else
        bind (neg_len start end_ st) (fun n =>
        if RANGE_LIMIT <? n then too_many else Ok (mk_rng start st n))
  end.

(* element [i] of a range: the closure `(start + (i as i128) * step) as isize` of the negative
   branch; the std iterators of the other branches step without overflow by construction *)
Definition model_elem (r : rng) (i : Z) : outcome Z :=
  if r_step r <? 0 then
    bind (chk128 (i * r_step r)) (fun p => bind (chk128 (r_start r + p)) (fun s => Ok (as_isize s)))
  else Ok (r_start r + i * r_step r).
