From MJ Require Import Common.Base.
From MJ Require Import C01.RangeModel C01.RangeSpec.

Lemma i64_bounds z : in_i64 z = true <-> (- 2 ^ 63 <= z <= 2 ^ 63 - 1).
Proof. unfold in_i64, i64_min, i64_max. lia. Qed.

Lemma chk128_ok z : - 2 ^ 127 <= z <= 2 ^ 127 - 1 -> chk128 z = Ok z.
Proof. intros H. unfold chk128, in_i128, i128_min, i128_max. destruct (_ && _) eqn:E; [reflexivity|lia]. Qed.

(* the negative-step length: no trap, and it is Python's *)
Lemma neg_len_python start end_ step :
  in_i64 start = true -> in_i64 end_ = true -> in_i64 step = true -> step < 0 ->
  neg_len start end_ step = Ok (py_range_len start end_ step).
Proof.
  rewrite !i64_bounds. intros Hs He Ht Hneg. unfold neg_len, py_range_len.
  destruct (0 <? step) eqn:E0; [lia|]. destruct (step <? 0) eqn:E1; [|lia].
  destruct (start <=? end_) eqn:E2.
  - destruct (end_ <? start) eqn:E3; [lia|reflexivity].
  - destruct (end_ <? start) eqn:E3; [|lia].
    assert (P63 : 2 ^ 63 = 9223372036854775808) by reflexivity.
    assert (P127 : 2 ^ 127 = 170141183460469231731687303715884105728) by reflexivity.
    rewrite (chk128_ok (start - end_)) by lia. cbn [bind].
    rewrite (chk128_ok (- step)) by lia. cbn [bind].
    rewrite (chk128_ok (start - end_ + - step)) by lia. cbn [bind].
    rewrite (chk128_ok (start - end_ + - step - 1)) by lia. cbn [bind].
    destruct (- step =? 0) eqn:E4; [lia|].
    rewrite Z.quot_div_nonneg by lia.
    replace (start - end_ + - step - 1) with ((start - end_ - 1) + 1 * (- step)) by lia.
    rewrite Z.div_add by lia.
    assert (0 <= (start - end_ - 1) / - step <= start - end_ - 1).
    { split; [apply Z.div_pos; lia|]. apply Z.div_le_upper_bound; [lia|]. nia. }
    rewrite chk128_ok by lia. reflexivity.
Qed.

Lemma pos_len_python start end_ step : 0 < step -> pos_len start end_ step = py_range_len start end_ step.
Proof.
  intros H. unfold pos_len, py_range_len. destruct (0 <? step) eqn:E; [|lia].
  destruct (start <? end_); lia.
Qed.

Definition isize_opt (o : option Z) : Prop := match o with Some z => in_i64 z = true | None => True end.

Theorem range_python_proof lower upper step :
  in_i64 lower = true -> isize_opt upper -> isize_opt step ->
  model_range lower upper step =
    match spec_range lower upper step with
    | RangeErr => Err E_InvalidOperation
    | RangeOk s st n => Ok (mk_rng s st n)
    end.
Proof.
  intros Hl Hu Hs. unfold model_range, spec_range, too_many, RANGE_LIMIT.
  assert (H0 : in_i64 0 = true) by reflexivity.
  destruct upper as [u|]; destruct step as [st|]; cbn [isize_opt] in *.
  all: try (destruct (st =? 0) eqn:E0; [reflexivity|]; destruct (0 <? st) eqn:E1;
            [rewrite pos_len_python by lia; destruct (100000 <? _); reflexivity
            |rewrite neg_len_python by (assumption || lia); cbn [bind]; destruct (100000 <? _); reflexivity]).
  all: cbn [Z.eqb]; rewrite pos_len_python by lia; destruct (100000 <? _); reflexivity.
Qed.

Theorem range_no_panic_proof lower upper step :
  in_i64 lower = true -> isize_opt upper -> isize_opt step -> model_range lower upper step <> Panic.
Proof.
  intros Hl Hu Hs. rewrite range_python_proof by assumption. destruct (spec_range _ _ _); discriminate.
Qed.

(* every element of an accepted range is computed without a trap, is the Python element and an isize *)
Theorem range_elems_proof lower upper step r :
  in_i64 lower = true -> isize_opt upper -> isize_opt step ->
  model_range lower upper step = Ok r ->
  forall i, 0 <= i < r_len r ->
    model_elem r i = Ok (r_start r + i * r_step r) /\ in_i64 (r_start r + i * r_step r) = true.
Proof.
  intros Hl Hu Hs. rewrite range_python_proof by assumption. unfold spec_range.
  set (se := match upper with Some u => (lower, u) | None => (0, lower) end).
  assert (Hse : in_i64 (fst se) = true /\ in_i64 (snd se) = true).
  { subst se. destruct upper; cbn [fst snd isize_opt] in *; auto. }
  destruct se as [start stop]. cbn [fst snd] in Hse. destruct Hse as [Hst Hsp].
  set (st := match step with Some s => s | None => 1 end).
  assert (Hstep : in_i64 st = true). { subst st. destruct step; cbn [isize_opt] in *; auto. }
  clearbody st. rewrite i64_bounds in *.
  destruct (st =? 0) eqn:E0; [discriminate|].
  destruct (100000 <? _) eqn:En; [discriminate|]. intros H; inversion H; subst r; clear H.
  cbn [r_len r_start r_step]. intros i Hi. unfold model_elem. cbn [r_start r_step].
  assert (P63 : 2 ^ 63 = 9223372036854775808) by reflexivity.
  assert (P64 : 2 ^ 64 = 18446744073709551616) by reflexivity.
  assert (P127 : 2 ^ 127 = 170141183460469231731687303715884105728) by reflexivity.
  unfold py_range_len in *. destruct (0 <? st) eqn:E1.
  - (* positive step *)
    destruct (st <? 0) eqn:E2; [lia|]. split; [reflexivity|].
    destruct (start <? stop) eqn:E3; [|lia].
    assert (i * st <= stop - start - 1).
    { assert (i <= (stop - start - 1) / st) by lia.
      assert (st * ((stop - start - 1) / st) <= stop - start - 1) by (apply Z.mul_div_le; lia). nia. }
    rewrite i64_bounds. nia.
  - destruct (st <? 0) eqn:E2; [|lia].
    destruct (stop <? start) eqn:E3; [|lia].
    assert (Hb : i * (- st) <= start - stop - 1).
    { assert (i <= (start - stop - 1) / (- st)) by lia.
      assert ((- st) * ((start - stop - 1) / (- st)) <= start - stop - 1) by (apply Z.mul_div_le; lia). nia. }
    assert (Hr : - 2 ^ 63 <= start + i * st <= 2 ^ 63 - 1) by nia.
    rewrite (chk128_ok (i * st)) by nia. cbn [bind].
    rewrite (chk128_ok (start + i * st)) by lia. cbn [bind].
    split; [|rewrite i64_bounds; exact Hr].
    unfold as_isize. rewrite Z.mod_small by lia. f_equal. lia.
Qed.

(* the code as it was: range(isize::MAX, -1, -1) trapped in `start - end` *)
Example range_old_refuted : neg_len_old i64_max (-1) (-1) = Panic.
Proof. vm_compute. reflexivity. Qed.
Example range_fixed_example : model_range i64_max (Some (-1)) (Some (-1)) = Err E_InvalidOperation
  /\ model_range 5 (Some i64_min) (Some (- 2 ^ 62)) = Ok (mk_rng 5 (- 2 ^ 62) 3).
Proof. split; vm_compute; reflexivity. Qed.
