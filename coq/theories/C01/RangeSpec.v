(* C01: what range() is documented to be - Python's range, refused above 100000 elements
   or with a step of 0.  Written from the documentation of the function; no proofs here. *)
From MJ Require Import Common.Base.

Definition py_range_len (start stop step : Z) : Z :=
  if 0 <? step then (if start <? stop then (stop - start - 1) / step + 1 else 0)
  else if step <? 0 then (if stop <? start then (start - stop - 1) / (- step) + 1 else 0)
  else 0.

Inductive range_result :=
| RangeErr
| RangeOk (start step len : Z).   (* element i is start + i * step, 0 <= i < len *)

Definition spec_range (lower : Z) (upper step : option Z) : range_result :=
  let '(start, stop) := match upper with Some u => (lower, u) | None => (0, lower) end in
  let st := match step with Some s => s | None => 1 end in
  if st =? 0 then RangeErr
  else let n := py_range_len start stop st in
       if 100000 <? n then RangeErr else RangeOk start st n.
