(* Executable entry points of the C01 range model, in the integer-list protocol shared with
   harness/src/bin/c01_range.rs.  Encoders/decoders here are unverified glue of the
   correspondence check.
   input:  lower has_upper upper has_step step
   output: 0 len first last (first = last = 0 when len = 0) | 1 errcode | 2 (panic) *)
From Coq Require Import String.
From MJ Require Import Common.Base.
From MJ Require Import C01.RangeModel C01.RangeSpec.

Definition dec_opt (tag v : Z) : option Z := if tag =? 0 then None else Some v.

Definition enc_range (o : outcome rng) : list Z :=
  match o with
  | Ok r =>
      let n := r_len r in
      if n =? 0 then [0; 0; 0; 0]
      else match model_elem r 0, model_elem r (n - 1) with
           | Ok a, Ok b => [0; n; a; b]
           | _, _ => [2]
           end
  | Err c => [1; c]
  | Panic => [2]
  | OutOfGas => [8]
  end.

Definition run (inp : list Z) : list Z :=
  match inp with
  | [lo; hu; u; hs; s] => enc_range (model_range lo (dec_opt hu u) (dec_opt hs s))
  | _ => [9]
  end.

(* the negative-step branch as it was before the fix (isize arithmetic), for the record *)
Definition run_old (inp : list Z) : list Z :=
  match inp with
  | [lo; hu; u; hs; s] =>
      let '(start, end_) := match dec_opt hu u with Some u => (lo, u) | None => (0, lo) end in
      if (hs =? 0) || (0 <=? s) then run inp
      else match neg_len_old start end_ s with
           | Ok _ => run inp
           | _ => [2]
           end
  | _ => [9]
  end.

Definition spec (inp : list Z) : list Z :=
  match inp with
  | [lo; hu; u; hs; s] =>
      match spec_range lo (dec_opt hu u) (dec_opt hs s) with
      | RangeErr => [1; E_InvalidOperation]
      | RangeOk st sp n => if n =? 0 then [0; 0; 0; 0] else [0; n; st; st + (n - 1) * sp]
      end
  | _ => [9]
  end.

Open Scope string_scope.
Definition runners : list (string * (list Z -> list Z)) :=
  [ ("range", run); ("range-old", run_old); ("range-spec", spec) ].
