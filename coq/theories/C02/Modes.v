(* C02: the auto-escape MODE as a three-valued part of the model (none / html / json) and the constructs
   that set, scope and consume it.  Lang/Interp.v carries a boolean (html or not), which is exact for the
   spellings true / false / "html" / "none" in templates whose initial mode is none or html; this file
   adds the rest - the "json" mode, `autoescape true` meaning the template's OWN initial format
   (vm/mod.rs derive_auto_escape: initial format, html if that is none - NOT the format currently
   active), included templates running under the mode their name gives them (C02/Names.v), macro / call
   block / caller() bodies running under the mode active where they are invoked, captures becoming
   safe iff the mode is not none when they end - on a small language of exactly those constructs, with
   real output text, so that it can be compared with the engine byte for byte.

   The mode is a PARAMETER of the interpreter, not part of its state: whatever a statement does - leave
   an autoescape block normally, by `break` or by `continue`, abandon a capture - the statements after
   it run under the mode of their own static context.  That is the specification the engine's
   PushAutoEscape / PopAutoEscape stack discipline (and the cleanup emitted before loop-control jumps)
   has to implement.  No proofs here. *)
From MJ Require Import Common.Base Lang.Syntax Lang.Interp C02.Names.

Inductive aearg := AETrue | AEFalse | AEHtml | AENone | AEJson.

Inductive mstmt :=
| MPrint (id : Z)                                 (* [id:{{ x }}]  - x is the metacharacter datum *)
| MAuto (a : aearg) (body : list mstmt)           (* {% autoescape a %} body {% endautoescape %} *)
| MLoop (n : nat) (body : list mstmt)             (* {% for i in range(n) %} body {% endfor %} *)
| MContinueAt (k : Z)                             (* {% if loop.index0 == k %}{% continue %}{% endif %} *)
| MBreakAt (k : Z)
| MWith (body : list mstmt)                       (* {% with w = 1 %} body {% endwith %} *)
| MCapture (v : Z) (body : list mstmt)            (* {% set v %} body {% endset %} *)
| MPrintVar (v : Z)                               (* {{ v }} *)
| MMacro (name : Z) (body : list mstmt)           (* {% macro name() %} body {% endmacro %} *)
| MCallMacro (name : Z)                           (* {{ name() }} *)
| MCallBlock (name : Z) (body : list mstmt)       (* {% call name() %} body {% endcall %} *)
| MCaller                                         (* {{ caller() }} inside a macro *)
| MInclude (t : Z)                                (* {% include "<name of template t>" %} *)
| MFail                                           (* {{ 1 // 0 }}: a statement that fails at run time *)
| MAttempt (name : Z)                             (* {{ attempt(name) }}: a host function that calls the macro value and returns "n/a" when the call fails *)
| MAttemptCaller                                  (* {{ attempt(caller) }} inside a macro *)
| MBlock (name : Z) (body : list mstmt).          (* {% block name %} body {% endblock %} *)

Inductive msig := SNormal | SBreak | SContinue.

Record menv := mkEnv { e_vars : list (Z * (bool * list Z)); e_macros : list (Z * list mstmt) }.
Definition empty_env := mkEnv [] [].

(* vm/mod.rs::derive_auto_escape(value, initial_auto_escape) *)
Definition derive (initial : emode) (a : aearg) : emode :=
  match a with
  | AEHtml => MHtml
  | AEJson => MJson
  | AENone | AEFalse => MNone
  | AETrue => match initial with MNone => MHtml | _ => initial end
  end.

(* the datum every print prints: less-than, apostrophe, double quote, greater-than, ampersand, slash *)
Definition datum : list Z := [60; 39; 34; 62; 38; 47].

(* serde_json string syntax on printable ASCII: only the double quote and the backslash are escaped *)
Definition json_str (s : list Z) : list Z :=
  34 :: flat_map (fun ch => if ch =? 34 then [92; 34] else if ch =? 92 then [92; 92] else [ch]) s ++ [34].

(* utils.rs::write_escaped for a string *)
Definition render_str (m : emode) (safe : bool) (s : list Z) : list Z :=
  if safe then s else match m with MNone => s | MHtml => html_escape s | MJson => json_str s end.

Definition marker (id : Z) (m : emode) : list Z := [91] ++ show_int id ++ [58] ++ render_str m false datum ++ [93].

(* what the host function `attempt` returns for a failed call: the plain (unsafe) string n/a *)
Definition fallback : list Z := [110; 47; 97].

Definition is_none (m : emode) : bool := match m with MNone => true | _ => false end.

Definition mexec_list_with (ex : emode -> menv -> mstmt -> outcome (menv * list Z * msig))
    : emode -> menv -> list mstmt -> outcome (menv * list Z * msig) :=
  fix go (m : emode) (env : menv) (l : list mstmt) : outcome (menv * list Z * msig) :=
    match l with
    | [] => Ok (env, [], SNormal)
    | s :: r =>
        bind (ex m env s) (fun '(env1, o1, sg) =>
        match sg with
        | SNormal => bind (go m env1 r) (fun '(env2, o2, sg2) => Ok (env2, o1 ++ o2, sg2))   (* the SAME mode m for what follows *)
        | _ => Ok (env1, o1, sg)
        end)
    end.

Section Modes.
(* the templates of the environment: initial mode (from the name, C02/Names.v) and body *)
Variable tpls : list (emode * list mstmt).

Fixpoint mexec (fuel : nat) (initial m : emode) (caller : option (list mstmt)) (li : option Z) (env : menv) (s : mstmt)
    {struct fuel} : outcome (menv * list Z * msig) :=
  match fuel with
  | O => OutOfGas
  | S fuel =>
    let block (m' : emode) (li' : option Z) (body : list mstmt) :=
        mexec_list_with (fun mm e st => mexec fuel initial mm caller li' e st) m' env body in
    (* a macro / caller() / call block body: fresh scope, `initial` is the mode active at the invocation *)
    let invoke (cal : option (list mstmt)) (body : list mstmt) :=
        mexec_list_with (fun mm e st => mexec fuel m mm cal None e st) m empty_env body in
    match s with
    | MPrint id => Ok (env, marker id m, SNormal)
    | MAuto a body => block (derive initial a) li body          (* no scope of its own: assignments made inside stay visible *)
    | MLoop n body =>
        bind ((fix go (cnt : nat) (i : Z) : outcome (list Z) :=
                 match cnt with
                 | O => Ok []
                 | S cnt' =>
                     bind (block m (Some i) body) (fun '(_, o, sg) =>
                     match sg with
                     | SBreak => Ok o
                     | _ => bind (go cnt' (i + 1)) (fun o2 => Ok (o ++ o2))
                     end)
                 end) n 0) (fun o => Ok (env, o, SNormal))
    | MContinueAt k => match li with
                       | Some i => Ok (env, [], if i =? k then SContinue else SNormal)
                       | None => Err E_SyntaxError
                       end
    | MBreakAt k => match li with
                    | Some i => Ok (env, [], if i =? k then SBreak else SNormal)
                    | None => Err E_SyntaxError
                    end
    | MWith body => bind (block m li body) (fun '(_, o, sg) => Ok (env, o, sg))
    | MCapture v body =>
        bind (block m li body) (fun '(env1, o, sg) =>          (* a set-block is no scope either *)
        match sg with
        | SNormal => Ok (mkEnv ((v, (negb (is_none m), o)) :: e_vars env1) (e_macros env1), [], SNormal)   (* output.rs::end_capture *)
        | _ => Ok (env1, [], sg)                   (* a loop control left the block: the capture is dropped *)
        end)
    | MPrintVar v =>
        match assoc v (e_vars env) with
        | Some (safe, t) => Ok (env, render_str m safe t, SNormal)
        | None => Ok (env, match m with MJson => [110; 117; 108; 108] | _ => [] end, SNormal)   (* undefined: nothing; JSON: null *)
        end
    | MMacro name body => Ok (mkEnv (e_vars env) ((name, body) :: e_macros env), [], SNormal)
    | MCallMacro name =>
        match assoc name (e_macros env) with
        | Some body => bind (invoke None body) (fun '(_, o, _) => Ok (env, o, SNormal))
        | None => Err E_UnknownFunction
        end
    | MCallBlock name cb =>
        match assoc name (e_macros env) with
        | Some body => bind (invoke (Some cb) body) (fun '(_, o, _) => Ok (env, o, SNormal))
        | None => Err E_UnknownFunction
        end
    | MCaller =>
        match caller with
        | Some cb => bind (invoke None cb) (fun '(_, o, _) => Ok (env, o, SNormal))
        | None => Err E_UnknownFunction
        end
    | MInclude t =>
        match nth_error tpls (Z.to_nat t) with
        | Some (mt, body) =>
            match mexec_list_with (fun mm e st => mexec fuel mt mm None None e st) mt empty_env body with
            | Ok (_, o, _) => Ok (env, o, SNormal)
            | Err _ => Err E_BadInclude               (* perform_include wraps every error of the included template *)
            | Panic => Panic
            | OutOfGas => OutOfGas
            end
        | None => Err E_TemplateNotFound
        end
    | MFail => Err E_InvalidOperation
    (* an error swallowed by the host: the macro's partial output is gone with its buffer, the fallback is printed like
       any unsafe string - and the mode is what it was: it is not part of any state the failed call could have left behind *)
    | MAttempt name =>
        match assoc name (e_macros env) with
        | Some body =>
            match invoke None body with
            | Ok (_, o, _) => Ok (env, o, SNormal)
            | Err _ => Ok (env, render_str m false fallback, SNormal)
            | Panic => Panic
            | OutOfGas => OutOfGas
            end
        | None => Ok (env, render_str m false fallback, SNormal)      (* calling an undefined value fails too *)
        end
    | MAttemptCaller =>
        match caller with
        | Some cb =>
            match invoke None cb with
            | Ok (_, o, _) => Ok (env, o, SNormal)
            | Err _ => Ok (env, render_str m false fallback, SNormal)
            | Panic => Panic
            | OutOfGas => OutOfGas
            end
        | None => Ok (env, render_str m false fallback, SNormal)
        end
    (* a block renders in place, in a scope of its own, under the mode active where it stands *)
    | MBlock _ body => bind (invoke None body) (fun '(_, o, _) => Ok (env, o, SNormal))
    end
  end.

Definition mexec_list (fuel : nat) (initial : emode) (caller : option (list mstmt)) (li : option Z) : emode -> menv -> list mstmt -> outcome (menv * list Z * msig) :=
  mexec_list_with (fun mm e st => mexec fuel initial mm caller li e st).

(* rendering template 0 *)
Definition run_modes (fuel : nat) : outcome (list Z) :=
  match tpls with
  | (m0, body) :: _ => bind (mexec_list fuel m0 None None m0 empty_env body) (fun '(_, o, _) => Ok o)
  | [] => Err E_TemplateNotFound
  end.

(* ---- calls on the State a finished render leaves behind (State::call_macro / State::render_block) ---- *)
Fixpoint find_block (name : Z) (s : mstmt) {struct s} : option (list mstmt) :=
  let in_list := fix go (l : list mstmt) : option (list mstmt) :=
      match l with
      | [] => None
      | x :: r => match find_block name x with Some b => Some b | None => go r end
      end in
  match s with
  | MBlock n body => if n =? name then Some body else in_list body
  | MAuto _ body | MLoop _ body | MWith body | MCapture _ body | MMacro _ body | MCallBlock _ body => in_list body
  | _ => None
  end.

Inductive mquery := QMacro (name : Z) | QBlock (name : Z).

(* every call is a function of the finished render alone: the top-level macros it defined, the blocks of the template and
   the template's initial mode - NOT of earlier calls on that State, failed or not *)
Definition run_query (fuel : nat) (q : mquery) : outcome (list Z) :=
  match tpls with
  | (m0, body) :: _ =>
      bind (mexec_list fuel m0 None None m0 empty_env body) (fun '(env, _, _) =>
      match q with
      | QMacro name =>
          match assoc name (e_macros env) with
          | Some mb => bind (mexec_list fuel m0 None None m0 empty_env mb) (fun '(_, o, _) => Ok o)
          | None => Err E_UnknownFunction
          end
      | QBlock name =>
          match (fix go (l : list mstmt) := match l with [] => None | x :: r => match find_block name x with Some b => Some b | None => go r end end) body with
          | Some bb => bind (mexec_list fuel m0 None None m0 empty_env bb) (fun '(_, o, _) => Ok o)
          | None => Err E_UnknownBlock
          end
      end)
  | [] => Err E_TemplateNotFound
  end.
End Modes.
