(* decoder of the integer encoding of C02/Modes.v programs (tools/props/C02.py part E); unverified glue *)
From MJ Require Import Common.Base Lang.Syntax Lang.Interp Lang.Codec C02.Names C02.Modes.

Definition aearg_of (z : Z) : aearg := match z with 0 => AETrue | 1 => AEFalse | 2 => AEHtml | 3 => AENone | _ => AEJson end.

Fixpoint dm (fuel : nat) (l : list Z) {struct fuel} : option (mstmt * list Z) :=
  match fuel with
  | O => None
  | S fuel =>
    let dbody := fix go (n : nat) (l : list Z) : option (list mstmt * list Z) :=
      match n with
      | O => Some ([], l)
      | S n => obind (dm fuel l) (fun '(s, l1) => obind (go n l1) (fun '(ss, l2) => Some (s :: ss, l2)))
      end in
    let dbodyn (l : list Z) := match l with n :: r => dbody (Z.to_nat n) r | [] => None end in
    match l with
    | 0 :: id :: r => Some (MPrint id, r)
    | 1 :: a :: r => obind (dbodyn r) (fun '(b, r1) => Some (MAuto (aearg_of a) b, r1))
    | 2 :: cnt :: r => obind (dbodyn r) (fun '(b, r1) => Some (MLoop (Z.to_nat cnt) b, r1))
    | 3 :: k :: r => Some (MContinueAt k, r)
    | 4 :: k :: r => Some (MBreakAt k, r)
    | 5 :: r => obind (dbodyn r) (fun '(b, r1) => Some (MWith b, r1))
    | 6 :: v :: r => obind (dbodyn r) (fun '(b, r1) => Some (MCapture v b, r1))
    | 7 :: v :: r => Some (MPrintVar v, r)
    | 8 :: nm :: r => obind (dbodyn r) (fun '(b, r1) => Some (MMacro nm b, r1))
    | 9 :: nm :: r => Some (MCallMacro nm, r)
    | 10 :: nm :: r => obind (dbodyn r) (fun '(b, r1) => Some (MCallBlock nm b, r1))
    | 11 :: r => Some (MCaller, r)
    | 12 :: t :: r => Some (MInclude t, r)
    | 13 :: r => Some (MFail, r)
    | 14 :: nm :: r => Some (MAttempt nm, r)
    | 15 :: r => Some (MAttemptCaller, r)
    | 16 :: nm :: r => obind (dbodyn r) (fun '(b, r1) => Some (MBlock nm b, r1))
    | _ => None
    end
  end.

Fixpoint dm_list (n : nat) (l : list Z) : option (list mstmt * list Z) :=
  match n with
  | O => Some ([], l)
  | S n => obind (dm 40 l) (fun '(s, l1) => obind (dm_list n l1) (fun '(ss, l2) => Some (s :: ss, l2)))
  end.

(* ntemplates [namelen c.. nstmts stmts..].. : the mode of each template comes from its NAME (C02/Names.v) *)
Fixpoint dtpls (n : nat) (l : list Z) : option (list (emode * list mstmt) * list Z) :=
  match n with
  | O => Some ([], l)
  | S n =>
      match l with
      | nl :: r =>
          obind (take_n (Z.to_nat nl) r) (fun '(name, r1) =>
          match r1 with
          | ns :: r2 => obind (dm_list (Z.to_nat ns) r2) (fun '(body, r3) =>
                        obind (dtpls n r3) (fun '(rest, r4) => Some ((default_mode name, body) :: rest, r4)))
          | [] => None
          end)
      | [] => None
      end
  end.

Definition enc_out (o : outcome (list Z)) : list Z :=
  match o with
  | Ok t => 0 :: lenZ t :: t
  | Err c => [1; c]
  | Panic => [2]
  | OutOfGas => [8]
  end.

(* after the templates: nq queries, each 1 name (call_macro) | 2 name (render_block) *)
Fixpoint dqueries (n : nat) (l : list Z) : list mquery :=
  match n, l with
  | S n, 1 :: nm :: r => QMacro nm :: dqueries n r
  | S n, 2 :: nm :: r => QBlock nm :: dqueries n r
  | _, _ => []
  end.

(* output: the render, then every query, each as 0 n c.. | 1 code | 2 | 8 *)
Definition run_modes_enc (inp : list Z) : list Z :=
  match inp with
  | nt :: r =>
      match dtpls (Z.to_nat nt) r with
      | Some (tpls, rest) =>
          enc_out (run_modes tpls 60) ++
          match rest with
          | nq :: r2 => flat_map (fun q => enc_out (run_query tpls 60 q)) (dqueries (Z.to_nat nq) r2)
          | [] => []
          end
      | None => [9]
      end
  | [] => [9]
  end.
