(* C02: facts about the three-valued mode model (C02/Modes.v). *)
From MJ Require Import Common.Base Lang.Syntax Lang.Interp C02.Spec C02.Out C02.Proofs C02.Names C02.Modes.

(* `autoescape true` selects the template's own initial format (html if that is none) *)
Lemma derive_true initial : derive initial AETrue = match initial with MNone => MHtml | _ => initial end.
Proof. reflexivity. Qed.

(* ... and no spelling looks at the mode that is active where the block stands *)
Lemma auto_ignores_current tpls fuel initial m m' caller li env a body :
  mexec tpls fuel initial m caller li env (MAuto a body) = mexec tpls fuel initial m' caller li env (MAuto a body).
Proof. destruct fuel; reflexivity. Qed.

(* the mode is lexical: whatever the statements [a] did - autoescape blocks entered and left normally, by
   break or by continue, captures dropped - the statements [b] after them run under the same mode m *)
Lemma exec_list_app ex : forall a b m env,
  mexec_list_with ex m env (a ++ b) =
  bind (mexec_list_with ex m env a) (fun '(env1, o1, sg) =>
    match sg with
    | SNormal => bind (mexec_list_with ex m env1 b) (fun '(env2, o2, sg2) => Ok (env2, o1 ++ o2, sg2))
    | _ => Ok (env1, o1, sg)
    end).
Proof.
  induction a as [|s a IH]; intros b m env.
  - cbn. destruct (mexec_list_with ex m env b) as [[[e o] sg]| | |]; reflexivity.
  - change (mexec_list_with ex m env ((s :: a) ++ b)) with
      (bind (ex m env s) (fun '(env1, o1, sg) =>
         match sg with
         | SNormal => bind (mexec_list_with ex m env1 (a ++ b)) (fun '(env2, o2, sg2) => Ok (env2, o1 ++ o2, sg2))
         | _ => Ok (env1, o1, sg)
         end)).
    change (mexec_list_with ex m env (s :: a)) with
      (bind (ex m env s) (fun '(env1, o1, sg) =>
         match sg with
         | SNormal => bind (mexec_list_with ex m env1 a) (fun '(env2, o2, sg2) => Ok (env2, o1 ++ o2, sg2))
         | _ => Ok (env1, o1, sg)
         end)).
    destruct (ex m env s) as [[[e1 o1] sg1]| | |]; cbn [bind]; try reflexivity.
    destruct sg1; try reflexivity. rewrite IH.
    destruct (mexec_list_with ex m e1 a) as [[[e2 o2] sg2]| | |]; cbn [bind]; try reflexivity.
    destruct sg2; try reflexivity.
    destruct (mexec_list_with ex m e2 b) as [[[e3 o3] sg3]| | |]; cbn [bind]; try reflexivity.
    now rewrite app_assoc.
Qed.

(* ---- in an HTML context nothing raw comes out ---- *)
Fixpoint html_only (s : mstmt) : bool :=
  match s with
  | MAuto a body => match a with AETrue | AEHtml => forallb html_only body | _ => false end
  | MLoop _ body | MWith body | MCapture _ body | MMacro _ body | MCallBlock _ body | MBlock _ body => forallb html_only body
  | _ => true
  end.

Definition env_ok (env : menv) : Prop :=
  forallb (fun p => fst (snd p) && clean (snd (snd p))) (e_vars env) = true /\
  forallb (fun p => forallb html_only (snd p)) (e_macros env) = true.

Lemma clean_marker id : clean (marker id MHtml) = true.
Proof.
  unfold marker. rewrite !clean_app. cbn [render_str]. rewrite clean_show_int, clean_html_escape. reflexivity.
Qed.

Lemma assoc_in {A} (l : list (Z * A)) k v : assoc k l = Some v -> In (k, v) l.
Proof.
  induction l as [|[k' v'] r IH]; cbn; [discriminate|]. destruct (k =? k') eqn:E; intros H.
  - inversion H; subst. left. f_equal. lia.
  - right. auto.
Qed.

Section HtmlOnly.
Variable tpls : list (emode * list mstmt).
Hypothesis Htpls : forallb (fun t => match fst t with MHtml => forallb html_only (snd t) | _ => false end) tpls = true.

Definition ex_ok (ex : emode -> menv -> mstmt -> outcome (menv * list Z * msig)) : Prop :=
  forall env s env' o sg, env_ok env -> html_only s = true -> ex MHtml env s = Ok (env', o, sg) -> env_ok env' /\ clean o = true.

Lemma exec_list_ok ex : ex_ok ex -> forall l env env' o sg, env_ok env -> forallb html_only l = true ->
  mexec_list_with ex MHtml env l = Ok (env', o, sg) -> env_ok env' /\ clean o = true.
Proof.
  intros Hex. induction l as [|s r IH]; intros env env' o sg He Hl H.
  - cbn in H. inversion H; subst. auto.
  - change (mexec_list_with ex MHtml env (s :: r)) with
      (bind (ex MHtml env s) (fun '(env1, o1, sg) =>
         match sg with
         | SNormal => bind (mexec_list_with ex MHtml env1 r) (fun '(env2, o2, sg2) => Ok (env2, o1 ++ o2, sg2))
         | _ => Ok (env1, o1, sg)
         end)) in H.
    cbn [forallb] in Hl. apply andb_true_iff in Hl as [Hs Hr].
    apply bind_ok in H as ([[e1 o1] sg1] & E1 & H). destruct (Hex _ _ _ _ _ He Hs E1) as [He1 Ho1].
    destruct sg1; try (inversion H; subst; auto; fail).
    apply bind_ok in H as ([[e2 o2] sg2] & E2 & H). inversion H; subst.
    destruct (IH _ _ _ _ He1 Hr E2) as [He2 Ho2]. split; auto. now rewrite clean_app, Ho1, Ho2.
Qed.

Lemma empty_env_ok : env_ok empty_env.
Proof. split; reflexivity. Qed.

Lemma exec_ok : forall fuel caller li,
  match caller with Some cb => forallb html_only cb = true | None => True end ->
  ex_ok (fun mm e st => mexec tpls fuel MHtml mm caller li e st).
Proof.
  induction fuel as [|fuel IH]; intros caller li Hc env s env' o sg He Hs H; [discriminate|].
  assert (Hblock : forall li' body e1 o1 sg1, forallb html_only body = true ->
            mexec_list_with (fun mm e st => mexec tpls fuel MHtml mm caller li' e st) MHtml env body = Ok (e1, o1, sg1) ->
            env_ok e1 /\ clean o1 = true).
  { intros li' body e1 o1 sg1 Hb E. eapply exec_list_ok; [apply (IH caller li' Hc)|exact He|exact Hb|exact E]. }
  assert (Hinv : forall cal body e1 o1 sg1, match cal with Some cb => forallb html_only cb = true | None => True end ->
            forallb html_only body = true ->
            mexec_list_with (fun mm e st => mexec tpls fuel MHtml mm cal None e st) MHtml empty_env body = Ok (e1, o1, sg1) ->
            clean o1 = true).
  { intros cal body e1 o1 sg1 Hcal Hb E. eapply exec_list_ok; [apply (IH cal None Hcal)|apply empty_env_ok|exact Hb|exact E]. }
  destruct s as [id|a body|n body|k|k|body|v body|v|nm body|nm|nm cb| |t| |nm| |nm body]; simpl in H.
  - inversion H; subst. split; auto. apply clean_marker.
  - cbn [html_only] in Hs. destruct a; try discriminate; cbn [derive] in H; eapply Hblock; eauto.
  - cbn [html_only] in Hs. apply bind_ok in H as (o1 & E & H). inversion H; subst. split; auto.
    clear H. revert o E. generalize 0. induction n as [|n IHn]; intros i o E.
    + inversion E; reflexivity.
    + apply bind_ok in E as ([[e1 o1] sg1] & E1 & E). destruct (Hblock _ _ _ _ _ Hs E1) as [_ Ho1].
      destruct sg1; try (apply bind_ok in E as (o2 & E2 & E); inversion E; subst; rewrite clean_app, Ho1; cbn [andb]; eapply IHn; eauto).
      inversion E; subst; auto.
  - destruct li; [|discriminate]. inversion H; subst. auto.
  - destruct li; [|discriminate]. inversion H; subst. auto.
  - cbn [html_only] in Hs. apply bind_ok in H as ([[e1 o1] sg1] & E1 & H). inversion H; subst. destruct (Hblock _ _ _ _ _ Hs E1). auto.
  - cbn [html_only] in Hs. apply bind_ok in H as ([[e1 o1] sg1] & E1 & H). destruct (Hblock _ _ _ _ _ Hs E1) as [[Hv Hm] Ho1].
    destruct sg1; inversion H; subst; split; try split; auto; try reflexivity.
    cbn [e_vars forallb fst snd is_none negb]. now rewrite Ho1, Hv.
  - destruct (assoc v (e_vars env)) as [[safe t]|] eqn:E; inversion H; subst; split; auto.
    destruct He as [Hv _]. pose proof (forallb_In _ _ _ Hv (assoc_in _ _ _ E)) as Hx. cbn in Hx.
    apply andb_true_iff in Hx as [-> Hx]. exact Hx.
  - cbn [html_only] in Hs. inversion H; subst. destruct He as [Hv Hm]. split; auto. split; auto. cbn [e_macros forallb snd]. now rewrite Hs, Hm.
  - destruct (assoc nm (e_macros env)) as [body|] eqn:E; [|discriminate].
    apply bind_ok in H as ([[e1 o1] sg1] & E1 & H). inversion H; subst. split; auto.
    destruct He as [_ Hm]. pose proof (forallb_In _ _ _ Hm (assoc_in _ _ _ E)) as Hb. cbn in Hb. eapply (Hinv None); eauto; exact I.
  - cbn [html_only] in Hs. destruct (assoc nm (e_macros env)) as [body|] eqn:E; [|discriminate].
    apply bind_ok in H as ([[e1 o1] sg1] & E1 & H). inversion H; subst. split; auto.
    destruct He as [_ Hm]. pose proof (forallb_In _ _ _ Hm (assoc_in _ _ _ E)) as Hb. cbn in Hb. eapply (Hinv (Some cb)); eauto.
  - destruct caller as [cb|]; [|discriminate]. apply bind_ok in H as ([[e1 o1] sg1] & E1 & H). inversion H; subst. split; auto.
    eapply (Hinv None); eauto; exact I.
  - destruct (nth_error tpls (Z.to_nat t)) as [[mt body]|] eqn:E; [|discriminate].
    pose proof (forallb_In _ _ _ Htpls (nth_error_In _ _ E)) as Ht. cbn [fst snd] in Ht. destruct mt; try discriminate.
    destruct (mexec_list_with _ MHtml empty_env body) as [[[e1 o1] sg1]|c| |] eqn:E1; try discriminate.
    inversion H; subst. split; auto. eapply (Hinv None); eauto; exact I.
  - discriminate.
  - destruct (assoc nm (e_macros env)) as [body|] eqn:E; [|inversion H; subst; split; [exact He|reflexivity]].
    destruct He as [Hv Hm]. pose proof (forallb_In _ _ _ Hm (assoc_in _ _ _ E)) as Hb. cbn in Hb.
    destruct (mexec_list_with _ MHtml empty_env body) as [[[e1 o1] sg1]|c| |] eqn:E1; try discriminate; inversion H; subst; (split; [split; auto|]).
    + eapply (Hinv None); eauto; exact I.
    + reflexivity.
  - destruct caller as [cb|]; [|inversion H; subst; split; [exact He|reflexivity]].
    destruct (mexec_list_with _ MHtml empty_env cb) as [[[e1 o1] sg1]|c| |] eqn:E1; try discriminate; inversion H; subst; (split; [exact He|]).
    + eapply (Hinv None); eauto; exact I.
    + reflexivity.
  - cbn [html_only] in Hs. apply bind_ok in H as ([[e1 o1] sg1] & E1 & H). inversion H; subst. split; auto.
    eapply (Hinv None); eauto; exact I.
Qed.

End HtmlOnly.

Lemma html_context_sound_proof tpls fuel o :
  forallb (fun t => match fst t with MHtml => forallb html_only (snd t) | _ => false end) tpls = true ->
  run_modes tpls fuel = Ok o -> clean o = true.
Proof.
  intros Htpls. unfold run_modes. destruct tpls as [|[m0 body] rest] eqn:Et; [discriminate|]. intros H.
  assert (Ht : m0 = MHtml /\ forallb html_only body = true).
  { pose proof Htpls as H0. cbn [forallb fst snd] in H0. apply andb_true_iff in H0 as [H0 _]. destruct m0; try discriminate. auto. }
  destruct Ht as [-> Hb]. apply bind_ok in H as ([[e1 o1] sg1] & E1 & H). inversion H; subst.
  unfold mexec_list in E1. eapply exec_list_ok; [apply (exec_ok _ Htpls fuel None None I)|apply empty_env_ok|exact Hb|exact E1].
Qed.

(* the error outcome: a macro call that fails and is swallowed by the host leaves nothing behind - the
   fallback is printed and what follows runs under the mode m it would have run under anyway *)
Lemma attempt_failure_keeps_mode_proof tpls fuel initial m caller li env nm body c rest :
  assoc nm (e_macros env) = Some body ->
  mexec_list_with (fun mm e st => mexec tpls fuel m mm None None e st) m empty_env body = Err c ->
  mexec_list_with (fun mm e st => mexec tpls (S fuel) initial mm caller li e st) m env (MAttempt nm :: rest) =
  bind (mexec_list_with (fun mm e st => mexec tpls (S fuel) initial mm caller li e st) m env rest)
       (fun '(env2, o2, sg2) => Ok (env2, render_str m false fallback ++ o2, sg2)).
Proof.
  intros Ha Hf.
  change (mexec_list_with (fun mm e st => mexec tpls (S fuel) initial mm caller li e st) m env (MAttempt nm :: rest)) with
    (bind (mexec tpls (S fuel) initial m caller li env (MAttempt nm)) (fun '(env1, o1, sg) =>
       match sg with
       | SNormal => bind (mexec_list_with (fun mm e st => mexec tpls (S fuel) initial mm caller li e st) m env1 rest) (fun '(env2, o2, sg2) => Ok (env2, o1 ++ o2, sg2))
       | _ => Ok (env1, o1, sg)
       end)).
  simpl mexec. rewrite Ha, Hf. reflexivity.
Qed.
