(* C02: the default auto-escape callback (minijinja/src/defaults.rs::default_auto_escape_callback): which
   escaping mode a template gets from its NAME.  The mode is fixed when the template is compiled
   (CompiledTemplate::initial_auto_escape); an included template runs under its own mode, an extends
   chain under the mode of the template being rendered, imported macros under the caller's mode.

   Model of the code as it is (no proofs here):
     for ext in [".j2", ".jinja2", ".jinja"] { if let Some(s) = name.strip_suffix(ext) { name = s; break } }
     match name.rsplit('.').next() { html|htm|xml => Html, json|json5|js|yaml|yml => Json, _ => None }
   Names are lists of code points ('.' is ASCII, so str::strip_suffix / rsplit work on them alike). *)
From MJ Require Import Common.Base Lang.Meta.

Inductive emode := MNone | MHtml | MJson.

Definition dot : Z := 46.
Definition s_j2 : list Z := [46; 106; 50].
Definition s_jinja2 : list Z := [46; 106; 105; 110; 106; 97; 50].
Definition s_jinja : list Z := [46; 106; 105; 110; 106; 97].
Definition IGNORED : list (list Z) := [s_j2; s_jinja2; s_jinja].          (* in the order the code tries them *)

Definition e_html := [104; 116; 109; 108].  Definition e_htm := [104; 116; 109].  Definition e_xml := [120; 109; 108].
Definition e_json := [106; 115; 111; 110].  Definition e_json5 := [106; 115; 111; 110; 53].  Definition e_js := [106; 115].
Definition e_yaml := [121; 97; 109; 108].   Definition e_yml := [121; 109; 108].
Definition html_exts : list (list Z) := [e_html; e_htm; e_xml].
Definition json_exts : list (list Z) := [e_json; e_json5; e_js; e_yaml; e_yml].

(* str::strip_suffix *)
Fixpoint strip_suffix (suf s : list Z) : option (list Z) :=
  if list_eqb_Z s suf then Some []
  else match s with
       | [] => None
       | ch :: r => option_map (cons ch) (strip_suffix suf r)
       end.

Definition strip_ignored (name : list Z) : list Z :=
  match strip_suffix s_j2 name with
  | Some n => n
  | None => match strip_suffix s_jinja2 name with
            | Some n => n
            | None => match strip_suffix s_jinja name with
                      | Some n => n
                      | None => name
                      end
            end
  end.

(* name.rsplit('.').next(): what follows the last '.', the whole name if there is none *)
Fixpoint before_dot (s : list Z) : list Z :=
  match s with
  | [] => []
  | ch :: r => if ch =? dot then [] else ch :: before_dot r
  end.
Definition last_seg (s : list Z) : list Z := rev (before_dot (rev s)).

Definition table (seg : list Z) : emode :=
  if existsb (list_eqb_Z seg) html_exts then MHtml
  else if existsb (list_eqb_Z seg) json_exts then MJson     (* cargo feature "json" *)
  else MNone.

Definition default_mode (name : list Z) : emode := table (last_seg (strip_ignored name)).

(* ---- the specification, from the doc comment: "Html: .html, .htm, .xml; Json: .json, .json5, .js, .yaml, .yml;
   None: all others; additionally .j2, .jinja and .jinja2 as final extension is ignored" ---- *)
(* [n] has extension [e]: it ends in '.' e - or it is e itself (a name without any dot is its own last
   segment for rsplit; kept because that is how the callback has always behaved) *)
Definition has_ext (n e : list Z) : Prop := n = e \/ exists stem, n = stem ++ dot :: e.
