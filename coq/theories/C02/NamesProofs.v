From MJ Require Import Common.Base Lang.Meta C02.Names.

Lemma list_eqb_Z_eq a : forall b, list_eqb_Z a b = true <-> a = b.
Proof.
  induction a as [|x a IH]; intros [|y b]; cbn; split; intros H; try discriminate; auto.
  - apply andb_true_iff in H as [H1 H2]. apply IH in H2. f_equal; [lia|auto].
  - inversion H; subst. rewrite Z.eqb_refl. cbn. now apply IH.
Qed.

Lemma strip_suffix_some suf : forall s stem, strip_suffix suf s = Some stem <-> s = stem ++ suf.
Proof.
  induction s as [|ch r IH]; intros stem.
  - cbn [strip_suffix]. destruct (list_eqb_Z [] suf) eqn:E.
    + apply list_eqb_Z_eq in E. subst suf. split; intros H.
      * inversion H; reflexivity.
      * destruct stem; [reflexivity|discriminate].
    + split; intros H; [discriminate|]. symmetry in H. apply app_eq_nil in H as [-> ->]. cbn in E. discriminate.
  - cbn [strip_suffix]. destruct (list_eqb_Z (ch :: r) suf) eqn:E.
    + apply list_eqb_Z_eq in E. subst suf. split; intros H.
      * inversion H; reflexivity.
      * destruct stem as [|x stem]; [reflexivity|]. exfalso. apply (f_equal (@length Z)) in H. rewrite app_length in H. cbn in H. lia.
    + split; intros H.
      * destruct (strip_suffix suf r) as [st|] eqn:E2; [|discriminate]. cbn in H. inversion H; subst. rewrite (proj1 (IH st) eq_refl). reflexivity.
      * destruct stem as [|x stem].
        -- cbn in H. subst suf. rewrite (proj2 (list_eqb_Z_eq _ _) eq_refl) in E. discriminate.
        -- cbn in H. inversion H; subst. rewrite (proj2 (IH stem) eq_refl). reflexivity.
Qed.

Lemma strip_suffix_none suf s : strip_suffix suf s = None <-> forall stem, s <> stem ++ suf.
Proof.
  split.
  - intros H stem E. apply strip_suffix_some in E. congruence.
  - intros H. destruct (strip_suffix suf s) as [st|] eqn:E; [|reflexivity]. apply strip_suffix_some in E. exfalso. eapply H; eauto.
Qed.

(* comparing the ends of two strings: reverse and look at the first characters *)
Lemma ends_differ (a b x y : list Z) : rev x <> [] -> rev y <> [] ->
  (forall p q, rev x = p :: q -> forall p' q', rev y = p' :: q' -> p <> p') -> a ++ x <> b ++ y.
Proof.
  intros Hx Hy Hd E. apply (f_equal (@rev Z)) in E. rewrite !rev_app_distr in E.
  destruct (rev x) as [|p q] eqn:Ex; [congruence|]. destruct (rev y) as [|p' q'] eqn:Ey; [congruence|].
  cbn in E. inversion E. eapply Hd; eauto.
Qed.

(* exactly one ignored suffix is removed, whichever it is *)
Lemma strip_ignored_suffix stem suf : In suf IGNORED -> strip_ignored (stem ++ suf) = stem.
Proof.
  intros [<-|[<-|[<-|[]]]]; unfold strip_ignored.
  - now rewrite (proj2 (strip_suffix_some s_j2 _ stem) eq_refl).
  - assert (H1 : strip_suffix s_j2 (stem ++ s_jinja2) = None).
    { apply strip_suffix_none. intros st E.
      apply (f_equal (@rev Z)) in E. rewrite !rev_app_distr in E. cbn in E. inversion E. }
    rewrite H1. now rewrite (proj2 (strip_suffix_some s_jinja2 _ stem) eq_refl).
  - assert (H1 : strip_suffix s_j2 (stem ++ s_jinja) = None).
    { apply strip_suffix_none. intros st E. apply (f_equal (@rev Z)) in E. rewrite !rev_app_distr in E. cbn in E. inversion E. }
    assert (H2 : strip_suffix s_jinja2 (stem ++ s_jinja) = None).
    { apply strip_suffix_none. intros st E. apply (f_equal (@rev Z)) in E. rewrite !rev_app_distr in E. cbn in E. inversion E. }
    rewrite H1, H2. now rewrite (proj2 (strip_suffix_some s_jinja _ stem) eq_refl).
Qed.

Lemma strip_ignored_none name : (forall suf stem, In suf IGNORED -> name <> stem ++ suf) -> strip_ignored name = name.
Proof.
  intros H. unfold strip_ignored.
  rewrite (proj2 (strip_suffix_none s_j2 name)) by (intros st; apply H; cbn; auto).
  rewrite (proj2 (strip_suffix_none s_jinja2 name)) by (intros st; apply H; cbn; auto).
  rewrite (proj2 (strip_suffix_none s_jinja name)) by (intros st; apply H; cbn; auto).
  reflexivity.
Qed.

(* ---- last segment ---- *)
Definition nodot (s : list Z) : Prop := ~ In dot s.

Lemma before_dot_nodot s : nodot s -> forall r, before_dot (s ++ dot :: r) = s /\ before_dot s = s.
Proof.
  induction s as [|ch s IH]; intros Hn r; cbn [before_dot app].
  - rewrite Z.eqb_refl. auto.
  - destruct (ch =? dot) eqn:E; [exfalso; apply Hn; left; lia|].
    assert (Hn' : nodot s) by (intros Hi; apply Hn; now right).
    destruct (IH Hn' r) as [H1 H2]. now rewrite H1, H2.
Qed.

Lemma before_dot_split s : nodot (before_dot s) /\ (s = before_dot s \/ exists r, s = before_dot s ++ dot :: r).
Proof.
  induction s as [|ch s [IH1 IH2]]; cbn [before_dot].
  - split; [intros []|now left].
  - destruct (ch =? dot) eqn:E.
    + assert (ch = dot) by lia. subst. split; [intros []|right; now exists s].
    + split.
      * intros [H|H]; [lia|auto].
      * destruct IH2 as [H|[r H]]; [left; now rewrite <- H|right; exists r; cbn; now rewrite <- H].
Qed.

Lemma nodot_rev s : nodot s -> nodot (rev s).
Proof. intros H Hi. apply H. now apply in_rev. Qed.

Lemma last_seg_ext n e : nodot e -> has_ext n e -> last_seg n = e.
Proof.
  intros He [->|[stem ->]]; unfold last_seg.
  - rewrite (proj2 (before_dot_nodot _ (nodot_rev _ He) [])). apply rev_involutive.
  - rewrite rev_app_distr. cbn [rev]. rewrite <- app_assoc. cbn [app].
    rewrite (proj1 (before_dot_nodot _ (nodot_rev _ He) (rev stem))). apply rev_involutive.
Qed.

Lemma last_seg_inv n : nodot (last_seg n) /\ has_ext n (last_seg n).
Proof.
  unfold last_seg. destruct (before_dot_split (rev n)) as [Hn Hs]. split; [now apply nodot_rev|].
  destruct Hs as [H|[r H]].
  - left. rewrite <- H. symmetry. apply rev_involutive.
  - right. exists (rev r). apply (f_equal (@rev Z)) in H. rewrite rev_involutive, rev_app_distr in H. cbn [rev] in H.
    rewrite <- app_assoc in H. exact H.
Qed.

Lemma table_html seg : table seg = MHtml <-> In seg html_exts.
Proof.
  unfold table. split.
  - destruct (existsb (list_eqb_Z seg) html_exts) eqn:E.
    + intros _. apply existsb_exists in E as (x & Hx & Ex). apply list_eqb_Z_eq in Ex. now subst.
    + destruct (existsb (list_eqb_Z seg) json_exts); discriminate.
  - intros H. assert (E : existsb (list_eqb_Z seg) html_exts = true) by (apply existsb_exists; exists seg; split; auto; now apply list_eqb_Z_eq).
    now rewrite E.
Qed.

Lemma table_json seg : table seg = MJson <-> In seg json_exts.
Proof.
  unfold table. split.
  - destruct (existsb (list_eqb_Z seg) html_exts) eqn:E; [discriminate|].
    destruct (existsb (list_eqb_Z seg) json_exts) eqn:E2; [|discriminate].
    intros _. apply existsb_exists in E2 as (x & Hx & Ex). apply list_eqb_Z_eq in Ex. now subst.
  - intros H. destruct (existsb (list_eqb_Z seg) html_exts) eqn:E.
    + exfalso. apply existsb_exists in E as (x & Hx & Ex). apply list_eqb_Z_eq in Ex. subst x.
      cbn in H, Hx. repeat (destruct H as [H|H]; [subst seg; repeat (destruct Hx as [Hx|Hx]; try discriminate); contradiction|]). contradiction.
    + assert (E2 : existsb (list_eqb_Z seg) json_exts = true) by (apply existsb_exists; exists seg; split; auto; now apply list_eqb_Z_eq).
      now rewrite E2.
Qed.

Lemma exts_nodot e : In e (html_exts ++ json_exts) -> nodot e.
Proof.
  cbn. intros H. repeat (destruct H as [H|H]; [subst e; intros Hi; cbn in Hi; unfold dot in Hi; repeat (destruct Hi as [Hi|Hi]; try discriminate); contradiction|]). contradiction.
Qed.

(* the callback = the documented table applied to the extension of the name without ONE ignored suffix *)
Lemma default_mode_spec_proof name :
  (default_mode name = MHtml <-> exists e, In e html_exts /\ has_ext (strip_ignored name) e) /\
  (default_mode name = MJson <-> exists e, In e json_exts /\ has_ext (strip_ignored name) e).
Proof.
  unfold default_mode. set (n := strip_ignored name). destruct (last_seg_inv n) as [Hnd Hext]. split; split.
  - intros H. apply table_html in H. eauto.
  - intros (e & He & Hx). apply table_html. rewrite (last_seg_ext n e); auto. apply exts_nodot. apply in_or_app. now left.
  - intros H. apply table_json in H. eauto.
  - intros (e & He & Hx). apply table_json. rewrite (last_seg_ext n e); auto. apply exts_nodot. apply in_or_app. now right.
Qed.

(* every name that ends in .html / .htm / .xml is HTML-escaped - whatever precedes the dot, nothing included
   (".html", "partials/.html", "v1.2/x.html", "a..xml"), with or without one ignored suffix after it *)
Lemma dot_ext_is_html_proof pre e : In e html_exts ->
  default_mode (pre ++ dot :: e) = MHtml /\ forall suf, In suf IGNORED -> default_mode (pre ++ dot :: e ++ suf) = MHtml.
Proof.
  intros He. split.
  - apply default_mode_spec_proof. exists e. split; auto. right. exists pre.
    apply strip_ignored_none. intros suf stem Hs E.
    change (pre ++ dot :: e) with (pre ++ (dot :: e)) in E.
    revert E. apply ends_differ.
    + cbn in He. destruct He as [<-|[<-|[<-|[]]]]; cbn; discriminate.
    + cbn in Hs. destruct Hs as [<-|[<-|[<-|[]]]]; cbn; discriminate.
    + intros p q Hp p' q' Hp'. cbn in He, Hs.
      destruct He as [<-|[<-|[<-|[]]]]; destruct Hs as [<-|[<-|[<-|[]]]]; cbn in Hp, Hp'; inversion Hp; inversion Hp'; subst; discriminate.
  - intros suf Hs. apply default_mode_spec_proof. exists e. split; auto. right. exists pre.
    replace (pre ++ dot :: e ++ suf) with ((pre ++ dot :: e) ++ suf) by (rewrite <- app_assoc; reflexivity).
    now apply strip_ignored_suffix.
Qed.
