(* Facts about Lang/Interp.v shared by C02 and C19: evaluating an expression - macro calls included -
   never writes to the current output buffer; statements only ever add chunks to it. *)
From MJ Require Import Common.Base Lang.Syntax Lang.Meta Lang.Interp Lang.Facts.

Lemma bind_ok {A B} (o : outcome A) (f : A -> outcome B) r : bind o f = Ok r -> exists a, o = Ok a /\ f a = Ok r.
Proof. destruct o; cbn; intros H; try discriminate. eauto. Qed.


(* ---- evaluating an expression never writes to the current output buffer ---- *)
Definition ev_out (ev : st -> expr -> outcome (value * st)) : Prop :=
  forall s e v s', ev s e = Ok (v, s') -> s_out s' = s_out s.

Lemma store_out s x v : s_out (store s x v) = s_out s.
Proof. unfold store. destruct (s_env s); reflexivity. Qed.

Lemma lookup_out c s x v s' : lookup c s x = (v, s') -> s_out s' = s_out s.
Proof. unfold lookup. destruct (load c (s_clos s) (s_env s) x) as [w asked]. intros H; inversion H; subst. destruct asked; reflexivity. Qed.

Lemma map_eval_out ev : ev_out ev -> forall l s vs s', map_eval ev s l = Ok (vs, s') -> s_out s' = s_out s.
Proof.
  intros Hev. induction l as [|x r IH]; intros s vs s' H.
  - cbn in H. inversion H; subst. auto.
  - change (map_eval ev s (x :: r)) with (bind (ev s x) (fun '(v, s1) => bind (map_eval ev s1 r) (fun '(vs, s2) => Ok (v :: vs, s2)))) in H.
    apply bind_ok in H as ([v s1] & E1 & H). apply bind_ok in H as ([vs1 s2] & E2 & H). inversion H; subst.
    rewrite (IH _ _ _ E2). eapply Hev; eauto.
Qed.

Lemma map_eval_pairs_out ev : ev_out ev -> forall l s kvs s', map_eval_pairs ev s l = Ok (kvs, s') -> s_out s' = s_out s.
Proof.
  intros Hev. induction l as [|[ke ve] r IH]; intros s kvs s' H.
  - cbn in H. inversion H; subst. auto.
  - change (map_eval_pairs ev s ((ke, ve) :: r)) with
      (bind (ev s ke) (fun '(k, s1) => bind (ev s1 ve) (fun '(v, s2) =>
       bind (map_eval_pairs ev s2 r) (fun '(kvs, s3) => Ok ((k, v) :: kvs, s3))))) in H.
    apply bind_ok in H as ([k s1] & E1 & H). apply bind_ok in H as ([v s2] & E2 & H).
    apply bind_ok in H as ([kvs1 s3] & E3 & H). inversion H; subst.
    rewrite (IH _ _ _ E3), (Hev _ _ _ _ E2). eapply Hev; eauto.
Qed.

Lemma map_eval_kw_out ev : ev_out ev -> forall l s kvs s', map_eval_kw ev s l = Ok (kvs, s') -> s_out s' = s_out s.
Proof.
  intros Hev. induction l as [|[k x] r IH]; intros s kvs s' H.
  - cbn in H. inversion H; subst. auto.
  - change (map_eval_kw ev s ((k, x) :: r)) with (bind (ev s x) (fun '(v, s1) => bind (map_eval_kw ev s1 r) (fun '(kv, s2) => Ok ((k, v) :: kv, s2)))) in H.
    apply bind_ok in H as ([v s1] & E1 & H). apply bind_ok in H as ([vs1 s2] & E2 & H). inversion H; subst.
    rewrite (IH _ _ _ E2). eapply Hev; eauto.
Qed.

Lemma cmp_chain_out m ev : ev_out ev -> forall l left s v s', cmp_chain m ev left s l = Ok (v, s') -> s_out s' = s_out s.
Proof.
  intros Hev. induction l as [|[op x] r IH]; intros left s v s' H.
  - cbn in H. inversion H; subst. auto.
  - change (cmp_chain m ev left s ((op, x) :: r)) with
      (bind (ev s x) (fun '(y, s2) => bind (do_cmp m op left y) (fun b =>
         match r with [] => Ok (VBool b, s2) | _ => if b then cmp_chain m ev y s2 r else Ok (VBool false, s2) end))) in H.
    apply bind_ok in H as ([y s2] & E1 & H). apply bind_ok in H as (b & E2 & H). pose proof (Hev _ _ _ _ E1) as Ho.
    destruct r as [|p r']; [inversion H; subst; auto|]. destruct b; [rewrite (IH _ _ _ _ H); auto|inversion H; subst; auto].
Qed.

Lemma store_args_out ev defaults : ev_out ev -> forall l s s', store_args ev defaults s l = Ok s' -> s_out s' = s_out s.
Proof.
  intros Hev. induction l as [|[p v] r IH]; intros s s' H.
  - cbn in H. inversion H; subst; auto.
  - change (store_args ev defaults s ((p, v) :: r)) with
      (match is_undef v, assoc p defaults with
       | true, Some d => bind (ev s d) (fun '(dv, s1) => store_args ev defaults (store s1 p dv) r)
       | _, _ => store_args ev defaults (store s p v) r
       end) in H.
    destruct (is_undef v); [destruct (assoc p defaults) as [d|]|].
    + apply bind_ok in H as ([dv s1] & E1 & H). rewrite (IH _ _ H), store_out. eapply Hev; eauto.
    + rewrite (IH _ _ H). apply store_out.
    + rewrite (IH _ _ H). apply store_out.
Qed.

Lemma call_macro_out c fuel esc s mc cl args kw v s' : call_macro c fuel esc s mc cl args kw = Ok (v, s') -> s_out s' = s_out s.
Proof.
  destruct fuel as [|fuel]; simpl; [discriminate|]. intros H.
  destruct (Nat.ltb _ _); [discriminate|]. apply bind_ok in H as (bound & E1 & H).
  match type of H with (if ?b then _ else _) = _ => destruct b end; [discriminate|].
  apply bind_ok in H as (s1 & E2 & H). apply bind_ok in H as ([sg s2] & E3 & H). inversion H; subst. reflexivity.
Qed.

Lemma eval_out c esc : forall fuel, ev_out (eval c fuel esc).
Proof.
  induction fuel as [|fuel Hev]; intros s e v s' H; [simpl in H; discriminate|].
  destruct e as [l|x|items|pairs|a|a|op a b|a rest|a b|a b|cnd t f|a i|a attr|f a args|t a args neg|f args kwargs]; simpl in H.
  - destruct l; inversion H; subst; auto.
  - destruct (lookup c s x) as [w s1] eqn:El. inversion H; subst. eapply lookup_out; eauto.
  - apply bind_ok in H as ([vs s1] & E1 & H). inversion H; subst. eapply map_eval_out; eauto.
  - apply bind_ok in H as ([kvs s1] & E1 & H). inversion H; subst. eapply map_eval_pairs_out; eauto.
  - apply bind_ok in H as ([w s1] & E1 & H). destruct w; try discriminate. inversion H; subst. eapply Hev; eauto.
  - apply bind_ok in H as ([w s1] & E1 & H). apply bind_ok in H as (b & _ & H). inversion H; subst. eapply Hev; eauto.
  - apply bind_ok in H as ([x s1] & E1 & H). apply bind_ok in H as ([y s2] & E2 & H). apply bind_ok in H as (u & _ & H).
    apply bind_ok in H as (r & E3 & H). inversion H; subst. rewrite (Hev _ _ _ _ E2). eapply Hev; eauto.
  - apply bind_ok in H as ([x s1] & E1 & H). rewrite (cmp_chain_out _ _ Hev _ _ _ _ _ H). eapply Hev; eauto.
  - apply bind_ok in H as ([x s1] & E1 & H). apply bind_ok in H as (t & _ & H).
    destruct t; [rewrite (Hev _ _ _ _ H)|inversion H; subst]; eapply Hev; eauto.
  - apply bind_ok in H as ([x s1] & E1 & H). apply bind_ok in H as (t & _ & H).
    destruct t; [inversion H; subst|rewrite (Hev _ _ _ _ H)]; eapply Hev; eauto.
  - apply bind_ok in H as ([x s1] & E1 & H). apply bind_ok in H as (b & _ & H). pose proof (Hev _ _ _ _ E1) as Ho.
    destruct b; [rewrite (Hev _ _ _ _ H); auto|]. destruct f as [f|]; [rewrite (Hev _ _ _ _ H); auto|inversion H; subst; auto].
  - apply bind_ok in H as ([x s1] & E1 & H). apply bind_ok in H as ([k s2] & E2 & H).
    assert (s' = s2) as ->.
    { destruct (get_item_opt x k); [inversion H; auto|].
      apply bind_ok in H as (w & _ & H). inversion H; auto. }
    rewrite (Hev _ _ _ _ E2). eapply Hev; eauto.
  - apply bind_ok in H as ([x s1] & E1 & H).
    assert (s' = s1) as ->.
    { destruct (get_attr_opt x attr); [inversion H; auto|].
      apply bind_ok in H as (w & _ & H). inversion H; auto. }
    eapply Hev; eauto.
  - apply bind_ok in H as ([x s1] & E1 & H). apply bind_ok in H as ([vs s2] & E2 & H). apply bind_ok in H as (r & E3 & H). inversion H; subst.
    rewrite (map_eval_out _ Hev _ _ _ _ E2). eapply Hev; eauto.
  - apply bind_ok in H as ([x s1] & E1 & H). apply bind_ok in H as ([vs s2] & E2 & H). apply bind_ok in H as (r & E3 & H). inversion H; subst.
    rewrite (map_eval_out _ Hev _ _ _ _ E2). eapply Hev; eauto.
  - apply bind_ok in H as ([vs s1] & E1 & H). apply bind_ok in H as ([kvs s2] & E2 & H).
    destruct (lookup c s2 f) as [fv s3] eqn:El.
    assert (Ho : s_out s3 = s_out s).
    { rewrite (lookup_out _ _ _ _ _ El), (map_eval_kw_out _ Hev _ _ _ _ E2). eapply map_eval_out; eauto. }
    destruct fv as [fv|]; [|discriminate]. destruct fv as [| | |b|z|sf t|l|kvs0|mc cl|i n|g]; try discriminate.
    + rewrite (call_macro_out _ _ _ _ _ _ _ _ _ _ H). exact Ho.
    + destruct (g =? N_range); [|discriminate]. destruct vs as [|[| | |b|z|sf t|l|kvs0|mc cl|i n|g'] [|? ?]]; try discriminate.
      destruct kvs; [|discriminate]. inversion H; subst. exact Ho.
Qed.


Lemma enclose_out c s names s' cl : enclose c s names = (s', cl) -> s_out s' = s_out s.
Proof.
  unfold enclose. destruct names as [|n0 names0]; [intros H; inversion H; subst; reflexivity|].
  remember (n0 :: names0) as names eqn:En. clear En n0 names0.
  destruct (s_env s) as [|f r] eqn:Eenv; [intros H; inversion H; subst; reflexivity|].
  assert (Hfold : forall id names s1,
            s_out (fold_left (fun s x =>
                      match nth_error (s_clos s) id with
                      | Some cl0 =>
                          match assoc x cl0 with
                          | Some _ => s
                          | None => let '(v, s') := lookup c s x in
                                    mkSt (s_env s') (set_nth_clos id (assoc_set x (match v with Some v => v | None => VUndef end)) (s_clos s'))
                                         (s_out s') (s_asks s')
                          end
                      | None => s
                      end) names s1) = s_out s1).
  { intros id nms. induction nms as [|x nms IH]; intros s1; cbn [fold_left]; [reflexivity|]. rewrite IH.
    destruct (nth_error (s_clos s1) id) as [cl0|]; [|reflexivity]. destruct (assoc x cl0); [reflexivity|].
    destruct (lookup c s1 x) as [v s2] eqn:El. cbn [s_out]. eapply lookup_out; eauto. }
  destruct (f_closure f) as [id|]; intros H; inversion H; subst; rewrite Hfold; reflexivity.
Qed.


Lemma bind_target_out tgt s item s' : bind_target tgt s item = Ok s' -> s_out s' = s_out s.
Proof.
  destruct tgt as [x|x y].
  - cbn [bind_target]. intros H; inversion H; subst. apply store_out.
  - intros H. apply bind_target_pair_inv in H as (a & b & _ & ->). now rewrite !store_out.
Qed.

Lemma with_binds_out ev : ev_out ev -> forall l s s', with_binds ev s l = Ok s' -> s_out s' = s_out s.
Proof.
  intros Hev. induction l as [|[t e] r IH]; intros s s' H.
  - cbn in H. inversion H; subst; auto.
  - change (with_binds ev s ((t, e) :: r)) with
      (bind (ev s e) (fun '(v, s1) => bind (bind_target t s1 v) (fun s2 => with_binds ev s2 r))) in H.
    apply bind_ok in H as ([v s1] & E1 & H). apply bind_ok in H as (s2 & E2 & H).
    rewrite (IH _ _ H), (bind_target_out _ _ _ _ E2). eapply Hev; eauto.
Qed.

Lemma filter_items_out m ev tgt fe : ev_out ev -> forall l s items s', filter_items m ev tgt fe s l = Ok (items, s') -> s_out s' = s_out s.
Proof.
  intros Hev. induction l as [|item r IH]; intros s items s' H.
  - cbn in H. inversion H; subst; auto.
  - change (filter_items m ev tgt fe s (item :: r)) with
      (let sf := push_frame s (mkFrame [] (Some (0, 0, false)) None None false) in
       bind (bind_target tgt sf item) (fun sf1 =>
       bind (ev sf1 fe) (fun '(v, sf2) => bind (u_is_true m v) (fun keep =>
       bind (filter_items m ev tgt fe (pop_frame sf2) r) (fun '(rest, s3) =>
       Ok (if keep then item :: rest else rest, s3)))))) in H.
    cbn zeta in H. apply bind_ok in H as (sf1 & E1 & H). apply bind_ok in H as ([v sf2] & E2 & H). apply bind_ok in H as (keep & E3 & H).
    apply bind_ok in H as ([rest s3] & E4 & H). inversion H; subst.
    rewrite (IH _ _ _ E4). cbn [pop_frame s_out]. rewrite (Hev _ _ _ _ E2), (bind_target_out _ _ _ _ E1). reflexivity.
Qed.
