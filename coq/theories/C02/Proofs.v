(* C02 proofs: the auto-escaping invariant of the reference interpreter run with esc = true. *)
From MJ Require Import Common.Base Lang.Syntax Lang.Meta Lang.Interp Lang.Facts C02.Spec C02.Out.

(* ---- clean ---- *)
Lemma clean_app a b : clean (a ++ b) = clean a && clean b.
Proof. apply forallb_app. Qed.

Lemma clean_concat l : forallb clean l = true -> clean (concat l) = true.
Proof.
  induction l as [|x r IH]; cbn [forallb concat]; intros H; [reflexivity|].
  apply andb_true_iff in H as [H1 H2]. rewrite clean_app, H1, IH; auto.
Qed.

Lemma forallb_rev {A} (f : A -> bool) l : forallb f (rev l) = forallb f l.
Proof.
  induction l as [|x r IH]; cbn [rev forallb]; [reflexivity|].
  rewrite forallb_app, IH. cbn [forallb]. rewrite andb_true_r. apply andb_comm.
Qed.

Lemma clean_escape_char c : clean (escape_char c) = true.
Proof.
  unfold escape_char. destruct c as [|p|p]; try reflexivity.
  do 7 (try (destruct p as [p|p|])); reflexivity.
Qed.

Lemma clean_html_escape s : clean (html_escape s) = true.
Proof.
  unfold html_escape. induction s as [|c r IH]; cbn [flat_map]; [reflexivity|].
  now rewrite clean_app, clean_escape_char, IH.
Qed.

Lemma meta_upper c : is_meta c = false -> is_meta (upper_c c) = false.
Proof. unfold is_meta, upper_c. destruct ((97 <=? c) && (c <=? 122)) eqn:E; lia. Qed.
Lemma meta_lower c : is_meta c = false -> is_meta (lower_c c) = false.
Proof. unfold is_meta, lower_c. destruct ((65 <=? c) && (c <=? 90)) eqn:E; lia. Qed.

Lemma clean_map f s : (forall c, is_meta c = false -> is_meta (f c) = false) -> clean s = true -> clean (map f s) = true.
Proof.
  intros Hf. unfold clean. induction s as [|c r IH]; cbn [map forallb]; [reflexivity|].
  intros H. apply andb_true_iff in H as [H1 H2]. apply negb_true_iff in H1. rewrite (Hf _ H1), IH; auto.
Qed.

Lemma clean_drop_ws s : clean s = true -> clean (drop_ws s) = true.
Proof.
  induction s as [|c r IH]; cbn [drop_ws]; [reflexivity|]. intros H. destruct (is_ws c); auto.
  apply IH. unfold clean in *. cbn [forallb] in H. apply andb_true_iff in H as [_ H]. exact H.
Qed.

Lemma clean_rev s : clean (rev s) = clean s.
Proof. apply forallb_rev. Qed.

Lemma clean_trim s : clean s = true -> clean (trim_s s) = true.
Proof.
  intros H. unfold trim_s. rewrite clean_rev. apply clean_drop_ws. rewrite clean_rev. now apply clean_drop_ws.
Qed.

Lemma clean_capitalize s : clean s = true ->
  clean (match s with [] => [] | c :: r => upper_c c :: map lower_c r end) = true.
Proof.
  destruct s as [|c r]; [reflexivity|]. unfold clean. cbn [forallb]. intros H. apply andb_true_iff in H as [H1 H2].
  apply negb_true_iff in H1. rewrite (meta_upper _ H1). cbn [negb andb]. apply (clean_map lower_c r meta_lower H2).
Qed.

(* ---- values ---- *)
Lemma good_render v : good_value v = true -> clean (render_value true v) = true.
Proof.
  destruct v as [| | |b|z|sf s|l|kvs|mc cl|i n|g]; cbn [render_value]; try (intros _; apply clean_html_escape).
  destruct sf; [cbn [good_value]; auto|intros _; apply clean_html_escape].
Qed.

Lemma forallb_In {A} (f : A -> bool) l x : forallb f l = true -> In x l -> f x = true.
Proof. intros H. rewrite forallb_forall in H. auto. Qed.

(* ---- the boolean invariant as a predicate, to use the shared lemmas of Lang/Facts.v ---- *)
Definition gv (v : value) : Prop := good_value v = true.

Lemma good_list_Forall l : forallb good_value l = true <-> Forall gv l.
Proof. rewrite forallb_forall, Forall_forall. reflexivity. Qed.

Lemma good_map_unfold m :
  good_value (VMap m) = forallb (fun p => good_value (fst p) && good_value (snd p)) m.
Proof. reflexivity. Qed.

Lemma good_map_entries m : good_value (VMap m) = true <-> entries_all gv m.
Proof.
  rewrite good_map_unfold. unfold entries_all, gv. rewrite forallb_forall, Forall_forall.
  split; intros H p Hp; specialize (H p Hp); apply andb_true_iff; exact H.
Qed.

Lemma good_map_keys m : good_value (VMap m) = true -> forallb good_value (map fst m) = true.
Proof. intros H. apply good_list_Forall. apply map_keys_all. now apply good_map_entries. Qed.

Lemma good_map_items m : good_value (VMap m) = true ->
  forallb good_value (map (fun '(k, x) => VList [k; x]) m) = true.
Proof.
  rewrite good_map_unfold. induction m as [|[k x] r IH]; cbn [map forallb fst snd]; [reflexivity|].
  intros H. apply andb_true_iff in H as [H1 H2]. apply andb_true_iff in H1 as [Hk Hx].
  change (good_value (VList [k; x])) with (good_value k && (good_value x && true)).
  rewrite Hk, Hx. cbn [andb]. auto.
Qed.

Lemma map_of_pairs_good ps : entries_all gv ps -> good_value (VMap (map_of_pairs ps)) = true.
Proof. intros H. apply good_map_entries. now apply map_of_pairs_all. Qed.

Lemma loop_attr_good i n a v : loop_attr i n a = Some v -> good_value v = true.
Proof.
  unfold loop_attr. repeat match goal with |- context [if ?c then _ else _] => destruct c end; intros H; inversion H; reflexivity.
Qed.

Lemma get_item_opt_good x k v : good_value x = true -> get_item_opt x k = Some v -> good_value v = true.
Proof.
  intros Hx. apply (get_item_opt_all gv).
  - intros l ->. now apply good_list_Forall.
  - intros m ->. now apply good_map_entries.
Qed.

Lemma get_attr_opt_good x a v : good_value x = true -> get_attr_opt x a = Some v -> good_value v = true.
Proof.
  intros Hx. apply (get_attr_opt_all gv).
  - intros i n w _. apply loop_attr_good.
  - intros m ->. now apply good_map_entries.
Qed.

Lemma unpack_items_good x l : good_value x = true -> unpack_items x = Some l -> forallb good_value l = true.
Proof.
  intros Hx H. apply good_list_Forall. revert H. apply (unpack_items_all gv).
  - intros l' ->. now apply good_list_Forall.
  - intros m ->. now apply good_map_entries.
Qed.

Lemma do_bin_good op a b r : do_bin op a b = Ok r -> good_value r = true.
Proof.
  unfold do_bin. destruct op; destruct a; try discriminate; destruct b; try discriminate;
    repeat match goal with |- context [if ?c then _ else _] => destruct c end;
    intros H; inversion H; reflexivity.
Qed.

Lemma idx_list_good l z v : forallb good_value l = true -> idx_list l z = Some v -> good_value v = true.
Proof.
  unfold idx_list. intros Hl. destruct (_ && _); [|discriminate]. intros H. apply nth_error_In in H. eapply forallb_In; eauto.
Qed.

Lemma range_list_good f : forall i n, forallb good_value (range_list f i n) = true.
Proof. induction f as [|f IH]; intros i n; cbn [range_list]; [reflexivity|]. destruct (i <? n); cbn [forallb good_value andb]; auto. Qed.


(* ---- the safety-aware filters ---- *)
Lemma clean_cons c s : clean (c :: s) = negb (is_meta c) && clean s.
Proof. reflexivity. Qed.

Lemma digits_clean fuel : forall z acc, 0 <= z -> clean acc = true -> clean (digits fuel z acc) = true.
Proof.
  induction fuel as [|fuel IH]; intros z acc Hz Ha; cbn [digits]; [exact Ha|].
  destruct (z <? 10) eqn:E.
  - rewrite clean_cons, Ha. unfold is_meta. lia.
  - apply IH; [apply Z.div_pos; lia|]. rewrite clean_cons, Ha.
    pose proof (Z.mod_pos_bound z 10 ltac:(lia)). unfold is_meta. lia.
Qed.

Lemma clean_show_int z : clean (show_int z) = true.
Proof.
  unfold show_int. destruct (z <? 0) eqn:E.
  - rewrite clean_cons. rewrite digits_clean; [reflexivity|lia|reflexivity].
  - apply digits_clean; [lia|reflexivity].
Qed.

Lemma clean_replace_go needle rep : clean rep = true -> forall h skip, clean h = true -> clean (replace_go needle rep skip h) = true.
Proof.
  intros Hr. induction h as [|ch r IH]; intros skip Hh; cbn [replace_go]; [reflexivity|].
  rewrite clean_cons in Hh. apply andb_true_iff in Hh as [Hc Hh].
  destruct skip; [|auto]. destruct (prefix_b needle (ch :: r)).
  - rewrite clean_app, Hr. cbn [andb]. auto.
  - rewrite clean_cons, Hc. cbn [andb]. auto.
Qed.

Lemma clean_replace_s h needle rep : clean h = true -> clean rep = true -> clean (replace_s h needle rep) = true.
Proof.
  intros Hh Hr. unfold replace_s. destruct needle as [|n0 nd]; [|now apply clean_replace_go].
  rewrite clean_app, Hr. cbn [andb]. induction h as [|ch r IH]; cbn [flat_map]; [reflexivity|].
  rewrite clean_cons in Hh. apply andb_true_iff in Hh as [Hc Hh]. change (ch :: rep ++ flat_map (fun ch0 => ch0 :: rep) r) with ((ch :: rep) ++ flat_map (fun ch0 => ch0 :: rep) r).
  rewrite clean_app, clean_cons, Hc, Hr. cbn [andb]. auto.
Qed.

Lemma clean_join_with sep l : clean sep = true -> forallb clean l = true -> clean (join_with sep l) = true.
Proof.
  intros Hs. induction l as [|x r IH]; cbn [join_with forallb]; [reflexivity|]. intros H. apply andb_true_iff in H as [Hx Hr].
  destruct r as [|y r']; [exact Hx|]. rewrite !clean_app, Hx, Hs. cbn [andb]. apply IH. exact Hr.
Qed.

Lemma clean_printf conv : forall fmt args r, clean fmt = true -> (forall a, In a args -> clean (conv a) = true) ->
  printf_s conv fmt args = Some r -> clean r = true.
Proof.
  assert (Hmap : forall (o : option (list Z)) (pre : list Z) r, clean pre = true ->
            (forall x, o = Some x -> clean x = true) -> option_map (app pre) o = Some r -> clean r = true).
  { intros o pre r Hp Ho H. destruct o as [x|]; [|discriminate]. cbn in H. inversion H; subst. rewrite clean_app, Hp. cbn [andb]. now apply Ho. }
  fix IH 1. intros fmt args r Hf Ha H. destruct fmt as [|c1 fmt1]; [cbn in H; inversion H; reflexivity|].
  rewrite clean_cons in Hf. apply andb_true_iff in Hf as [Hc1 Hf1].
  assert (Hlit : option_map (cons c1) (printf_s conv fmt1 args) = Some r -> clean r = true).
  { intros H'. apply (Hmap (printf_s conv fmt1 args) [c1] r); [rewrite clean_cons, Hc1; reflexivity| |exact H'].
    intros x Hx. exact (IH fmt1 args x Hf1 Ha Hx). }
  destruct (c1 =? 37) eqn:E37.
  - assert (c1 = 37) by lia. subst c1. destruct fmt1 as [|c2 fmt2]; [cbn in H; discriminate|].
    rewrite clean_cons in Hf1. apply andb_true_iff in Hf1 as [Hc2 Hf2].
    destruct (c2 =? 37) eqn:E2; [|destruct (c2 =? 115) eqn:E3].
    + assert (c2 = 37) by lia. subst c2. cbn [printf_s] in H.
      apply (Hmap (printf_s conv fmt2 args) [37] r); [reflexivity| |exact H]. intros x Hx. exact (IH fmt2 args x Hf2 Ha Hx).
    + assert (c2 = 115) by lia. subst c2. cbn [printf_s] in H. destruct args as [|a args']; [discriminate|].
      apply (Hmap (printf_s conv fmt2 args') (conv a) r); [apply Ha; now left| |exact H].
      intros x Hx. apply (IH fmt2 args' x Hf2); [|exact Hx]. intros a' Hin. apply Ha. now right.
    + exfalso. revert H. cbn [printf_s].
      destruct c2 as [|p|p]; try discriminate.
      do 7 (try (destruct p as [p|p|])); try discriminate; cbn in E2, E3; discriminate.
  - apply Hlit. revert H. cbn [printf_s].
    destruct c1 as [|p|p]; try (intros H; exact H).
    do 7 (try (destruct p as [p|p|])); try (intros H; exact H); cbn in E37; discriminate.
Qed.

Lemma str_input_good m v i : str_input m v = Ok i -> good_value v = true -> clean (fmt_in i) = true /\ (fst i = true -> clean (snd i) = true).
Proof.
  unfold str_input. destruct (u_strictish m && is_strict_undef v); [discriminate|]. intros H Hv. inversion H; subst. clear H.
  unfold fmt_in. destruct v as [| | |b|z|sf t|l|kvs|mc cl|j n|g]; cbn [fst snd]; try (split; [apply clean_html_escape|discriminate]).
  destruct sf; cbn [good_value] in Hv; split; auto; [apply clean_html_escape|discriminate].
Qed.

Lemma do_filter_good m f v args r :
  (f =? F_safe) = false -> good_value v = true -> forallb good_value args = true ->
  do_filter m true f v args = Ok r -> good_value r = true.
Proof.
  intros Hf Hv Ha. unfold do_filter. rewrite Hf.
  destruct (f =? F_length). { destruct v; intros H; inversion H; reflexivity. }
  destruct (f =? F_default). { destruct v; intros H; inversion H; subst; auto. destruct args as [|a ?]; [reflexivity|]. cbn [forallb] in Ha. apply andb_true_iff in Ha as [Ha _]. exact Ha.
                               destruct args as [|a ?]; [reflexivity|]. cbn [forallb] in Ha. apply andb_true_iff in Ha as [Ha _]. exact Ha. }
  destruct (f =? F_abs). { destruct v; intros H; inversion H; reflexivity. }
  destruct (f =? F_string). { destruct v; try (intros H; inversion H; subst; auto; fail). destruct (u_strictish m); intros H; inversion H; reflexivity. }
  destruct (f =? F_escape). { destruct v as [| | |b|z|sf s|l|kvs|mc cl|i n|g]; try (intros H; injection H as <-; cbn [good_value]; first [apply clean_html_escape | reflexivity]).
                              destruct sf; intros H; injection H as <-; auto. cbn [good_value]. apply clean_html_escape. }
  destruct ((f =? F_upper) || (f =? F_lower) || (f =? F_trim) || (f =? F_capitalize)).
  { intros H. apply bind_ok in H as (u & _ & H). inversion H; subst. clear H.
    destruct v as [| | |b|z|sf s|l|kvs|mc cl|i n|g]; try reflexivity. destruct sf; [|reflexivity].
    cbn [good_value show] in *. destruct (f =? F_upper); [apply clean_map; auto using meta_upper|].
    destruct (f =? F_lower); [apply clean_map; auto using meta_lower|].
    destruct (f =? F_trim); [now apply clean_trim|]. now apply clean_capitalize. }
  destruct (f =? F_first).
  { destruct v as [| | |b|z|sf s|l|kvs|mc cl|i n|g]; try discriminate.
    - destruct l as [|x l]; intros H; inversion H; subst; [reflexivity|].
      cbn [good_value forallb] in Hv. apply andb_true_iff in Hv as [Hv _]. exact Hv.
    - (* the first key of a map *)
      destruct kvs as [|[k x] kvs]; intros H; inversion H; subst; [reflexivity|].
      apply good_map_keys in Hv. cbn [map fst forallb] in Hv. apply andb_true_iff in Hv as [Hv _]. exact Hv. }
  destruct (f =? F_last).
  { destruct v as [| | |b|z|sf s|l|kvs|mc cl|i n|g]; try discriminate. intros H; inversion H; subst. cbn [good_value] in Hv.
    destruct (rev l) as [|x r'] eqn:E; [reflexivity|]. apply (forallb_In good_value l x Hv). apply in_rev. rewrite E. now left. }
  destruct (f =? F_replace).
  { intros H. apply bind_ok in H as (vi & Ev & H). destruct args as [|a1 rest]; [discriminate|].
    cbn [forallb] in Ha. apply andb_true_iff in Ha as [Ha1 Ha].
    apply bind_ok in H as (fi & Ef & H). destruct rest as [|a2 rest2]; [discriminate|].
    cbn [forallb] in Ha. apply andb_true_iff in Ha as [Ha2 Ha].
    apply bind_ok in H as (ti & Et & H). destruct rest2; [|discriminate].
    destruct (true && (fst vi || fst fi || fst ti)); inversion H; subst; [|reflexivity].
    cbn [good_value]. apply clean_replace_s; [exact (proj1 (str_input_good _ _ _ Ev Hv))|exact (proj1 (str_input_good _ _ _ Et Ha2))]. }
  destruct (f =? F_join).
  { assert (Hitems : forall items, match v with
              | VList l => Ok l
              | VStr _ s => Ok (map (fun ch => VStr false [ch]) s)
              | VMap kvs => Ok (map fst kvs)
              | VUndef | VSilent | VNone => Ok []
              | _ => Err E_InvalidOperation
              end = Ok items -> forallb good_value items = true).
    { intros items. destruct v as [| | |b|z|sf t|l|kvs|mc cl|j n|g]; intros E; inversion E; subst; auto.
      - clear. induction t; cbn; auto.
      - now apply good_map_keys. }
    assert (Hrend : forall items, forallb good_value items = true -> forallb clean (map (render_value true) items) = true).
    { induction items as [|x r' IH]; cbn [map forallb]; auto. intros E. apply andb_true_iff in E as [E1 E2]. now rewrite good_render, IH. }
    assert (Hj : forall a, good_value a = true ->
              forall j, match a with
                        | VUndef | VSilent | VNone => None
                        | VStr b s => Some (b, s)
                        | _ => Some (false, show a)
                        end = Some j -> clean (fmt_in j) = true /\ (fst j = true -> clean (snd j) = true)).
    { intros a Hga j. unfold fmt_in. destruct a as [| | |b|z|sf t|l|kvs|mc cl|i n|g]; intros E; inversion E; subst; cbn [fst snd];
        try (split; [apply clean_html_escape|discriminate]).
      destruct sf; cbn [good_value] in Hga; split; auto; [apply clean_html_escape|discriminate]. }
    destruct args as [|a [|a' rest]]; try discriminate.
    - intros H. apply bind_ok in H as (items & Ei & H). cbn [negb] in H. pose proof (Hitems _ Ei) as Hgi.
      destruct (existsb is_safe_v items); inversion H; subst; [|reflexivity].
      cbn [good_value]. apply clean_join_with; [reflexivity|auto].
    - cbn [forallb] in Ha. apply andb_true_iff in Ha as [Hga _].
      intros H. apply bind_ok in H as (items & Ei & H). cbn [negb] in H. pose proof (Hitems _ Ei) as Hgi.
      destruct (match a with
                | VUndef | VSilent | VNone => None
                | VStr b s => Some (b, s)
                | _ => Some (false, show a)
                end) as [j|] eqn:Ej.
      + destruct (Hj _ Hga _ Ej) as [Hj1 Hj2]. destruct (fst j) eqn:Efj.
        * inversion H; subst. cbn [good_value]. apply clean_join_with; auto.
        * destruct (existsb is_safe_v items); inversion H; subst; [|reflexivity]. cbn [good_value]. apply clean_join_with; auto.
      + destruct (existsb is_safe_v items); inversion H; subst; [|reflexivity]. cbn [good_value]. apply clean_join_with; [reflexivity|auto]. }
  destruct (f =? F_format).
  { destruct v as [| | |b|z|sf t|l|kvs|mc cl|j n|g]; try discriminate.
    destruct (printf_s _ t args) as [r0|] eqn:Ep; [|discriminate]. intros H; inversion H; subst.
    destruct sf; [|reflexivity]. cbn [good_value] in *. eapply clean_printf; [exact Hv| |exact Ep].
    intros a Hin. pose proof (forallb_In _ _ _ Ha Hin) as Hga.
    destruct a as [| | |b|z|sf t'|l|kvs|mc cl|j n|g]; try apply clean_html_escape.
    - destruct b; reflexivity.
    - apply clean_show_int.
    - destruct sf; [exact Hga|apply clean_html_escape]. }
  destruct (f =? F_list).
  { destruct v as [| | |b|z|sf t|l|kvs|mc cl|j n|g]; try discriminate; try (intros H; inversion H; subst; auto; fail).
    - destruct (u_strictish m); intros H; inversion H; reflexivity.
    - intros H; inversion H; subst. cbn [good_value]. clear. induction t; cbn; auto.
    - intros H; inversion H; subst. change (forallb good_value (map fst kvs) = true). now apply good_map_keys. }
  destruct (f =? F_items).
  { destruct v as [| | |b|z|sf t|l|kvs|mc cl|j n|g]; try discriminate. intros H; inversion H; subst.
    change (forallb good_value (map (fun '(k, x) => VList [k; x]) kvs) = true). now apply good_map_items. }
  discriminate.
Qed.
(* ---- the invariant on states ---- *)
Definition good_frame (f : frame) : bool := good_binds (f_locals f).

Definition good_st (s : st) : Prop :=
  forallb good_frame (s_env s) = true /\ forallb good_binds (s_clos s) = true /\ forallb clean (s_out s) = true.

Lemma assoc_good (l : list (name * value)) x v : good_binds l = true -> assoc x l = Some v -> good_value v = true.
Proof.
  unfold good_binds. induction l as [|[k w] r IH]; cbn [assoc forallb]; [discriminate|].
  intros H. apply andb_true_iff in H as [H1 H2]. destruct (x =? k); [intros E; inversion E; subst; exact H1|auto].
Qed.

Lemma assoc_set_good (l : list (name * value)) x v : good_binds l = true -> good_value v = true -> good_binds (assoc_set x v l) = true.
Proof.
  unfold good_binds. induction l as [|[k w] r IH]; cbn [assoc_set forallb]; intros H Hv.
  - cbn. now rewrite Hv.
  - apply andb_true_iff in H as [H1 H2]. destruct (x =? k); cbn [forallb snd]; [now rewrite Hv, H2|]. cbn in H1. rewrite H1. cbn. auto.
Qed.

Lemma set_nth_clos_good f : (forall cl, good_binds cl = true -> good_binds (f cl) = true) ->
  forall n l, forallb good_binds l = true -> forallb good_binds (set_nth_clos n f l) = true.
Proof.
  intros Hf n l. revert n. induction l as [|cl r IH]; intros n H; cbn [set_nth_clos]; [destruct n; reflexivity|].
  cbn [forallb] in H. apply andb_true_iff in H as [H1 H2]. destruct n; cbn [set_nth_clos forallb].
  - rewrite (Hf _ H1), H2. reflexivity.
  - rewrite H1, (IH n H2). reflexivity.
Qed.

Lemma nth_error_good {A} (f : A -> bool) l n x : forallb f l = true -> nth_error l n = Some x -> f x = true.
Proof. intros H E. apply nth_error_In in E. eapply forallb_In; eauto. Qed.

Lemma load_good c clos : good_binds (c_root c) = true -> forallb good_binds clos = true ->
  forall env x v b, forallb good_frame env = true -> load c clos env x = (Some v, b) -> good_value v = true.
Proof.
  intros Hroot Hclos env. induction env as [|f r IH]; intros x v b Henv; cbn [load].
  - destruct (x =? N_range); intros H; inversion H; reflexivity.
  - cbn [forallb] in Henv. apply andb_true_iff in Henv as [Hf Hr].
    destruct (assoc x (f_locals f)) as [w|] eqn:E1.
    { intros H; inversion H; subst. exact (assoc_good _ _ _ Hf E1). }
    destruct (match f_loop f with Some (i, n, true) => if x =? N_loop then Some (VLoop i n) else None | _ => None end) as [w|] eqn:E2.
    { intros H; inversion H; subst. destruct (f_loop f) as [[[i n] [|]]|]; try discriminate. destruct (x =? N_loop); inversion E2; reflexivity. }
    destruct (match f_closure_ctx f with Some id => match nth_error clos id with Some cl => assoc x cl | None => None end | None => None end) as [w|] eqn:E3.
    { intros H; inversion H; subst. destruct (f_closure_ctx f) as [id|]; [|discriminate].
      destruct (nth_error clos id) as [cl|] eqn:E4; [|discriminate]. eapply assoc_good; [|eauto]. eapply nth_error_good; eauto. }
    destruct (f_base f).
    + destruct (assoc x (c_root c)) as [w|] eqn:E4.
      * intros H; inversion H; subst. exact (assoc_good _ _ _ Hroot E4).
      * destruct (load c clos r x) as [w b'] eqn:E5. intros H; inversion H; subst. eapply IH; eauto.
    + intros H. eapply IH; eauto.
Qed.

Lemma lookup_good c s x v s' : good_binds (c_root c) = true -> good_st s -> lookup c s x = (v, s') ->
  good_st s' /\ forall w, v = Some w -> good_value w = true.
Proof.
  intros Hroot (He & Hc & Ho). unfold lookup. destruct (load c (s_clos s) (s_env s) x) as [w asked] eqn:E.
  intros H; inversion H; subst. split.
  - destruct asked; repeat split; auto.
  - intros w' ->. eapply load_good; eauto.
Qed.

Lemma store_good s x v : good_st s -> good_value v = true -> good_st (store s x v).
Proof.
  intros (He & Hc & Ho) Hv. unfold store. destruct (s_env s) as [|f r] eqn:E; [repeat split; auto; now rewrite E|].
  cbn [forallb] in He. apply andb_true_iff in He as [Hf Hr]. repeat split; cbn [s_env s_clos s_out]; auto.
  - cbn [forallb]. rewrite Hr. unfold good_frame. cbn [f_locals]. rewrite assoc_set_good; auto.
  - destruct (f_closure f); auto. apply set_nth_clos_good; auto. intros cl Hcl. now apply assoc_set_good.
Qed.

Lemma push_frame_good s f : good_st s -> good_frame f = true -> good_st (push_frame s f).
Proof. intros (He & Hc & Ho) Hf. repeat split; cbn; auto. now rewrite Hf. Qed.

Lemma pop_frame_good s : good_st s -> good_st (pop_frame s).
Proof.
  intros (He & Hc & Ho). repeat split; cbn; auto. destruct (s_env s); cbn [tl]; auto.
  cbn [forallb] in He. apply andb_true_iff in He as [_ He]. exact He.
Qed.

Lemma emit_good s ch : good_st s -> clean ch = true -> good_st (emit s ch).
Proof. intros (He & Hc & Ho) Hch. repeat split; cbn; auto. now rewrite Hch. Qed.

Lemma with_out_nil_good s : good_st s -> good_st (with_out s []).
Proof. intros (He & Hc & Ho). repeat split; auto. Qed.

Lemma with_out_good s o : good_st s -> forallb clean o = true -> good_st (with_out s o).
Proof. intros (He & Hc & Ho) H. repeat split; auto. Qed.

Lemma output_clean s : good_st s -> clean (output_of s) = true.
Proof. intros (_ & _ & Ho). unfold output_of. apply clean_concat. now rewrite forallb_rev. Qed.

Lemma enclose_good c s names s' cl : good_binds (c_root c) = true -> good_st s -> enclose c s names = (s', cl) -> good_st s'.
Proof.
  intros Hroot Hs. unfold enclose. destruct names as [|n0 names0]; [intros H; inversion H; subst; exact Hs|].
  remember (n0 :: names0) as names eqn:En. clear En n0 names0.
  destruct (s_env s) as [|f r] eqn:Eenv; [intros H; inversion H; subst; exact Hs|].
  assert (Hfold : forall id names s1, good_st s1 ->
            good_st (fold_left (fun s x =>
                      match nth_error (s_clos s) id with
                      | Some cl0 =>
                          match assoc x cl0 with
                          | Some _ => s
                          | None => let '(v, s') := lookup c s x in
                                    mkSt (s_env s') (set_nth_clos id (assoc_set x (match v with Some v => v | None => VUndef end)) (s_clos s'))
                                         (s_out s') (s_asks s')
                          end
                      | None => s
                      end) names s1)).
  { intros id nms. induction nms as [|x nms IH]; intros s1 H1; cbn [fold_left]; [exact H1|]. apply IH.
    destruct (nth_error (s_clos s1) id) as [cl0|]; [|exact H1]. destruct (assoc x cl0); [exact H1|].
    destruct (lookup c s1 x) as [v s2] eqn:El. destruct (lookup_good _ _ _ _ _ Hroot H1 El) as ((He & Hc & Ho) & Hv).
    repeat split; cbn [s_env s_clos s_out]; auto. apply set_nth_clos_good; auto. intros cl1 Hcl1. apply assoc_set_good; auto.
    destruct v as [w|]; [now apply Hv|reflexivity]. }
  destruct (f_closure f) as [id|].
  - intros H. inversion H; subst. apply Hfold. exact Hs.
  - intros H. inversion H; subst. apply Hfold. destruct Hs as (He & Hc & Ho). rewrite Eenv in He.
    repeat split; cbn [s_env s_clos s_out]; auto. rewrite forallb_app, Hc. reflexivity.
Qed.
(* ---- the list-walking combinators, for any evaluator that keeps the invariant ---- *)
Definition ev_good (ev : st -> expr -> outcome (value * st)) : Prop :=
  forall s e v s', good_st s -> expr_ok e = true -> ev s e = Ok (v, s') -> good_value v = true /\ good_st s'.
Definition ex_good (ex : st -> list stmt -> outcome (signal * st)) : Prop :=
  forall s l sg s', good_st s -> forallb stmt_ok l = true -> ex s l = Ok (sg, s') -> good_st s'.

Lemma map_eval_good ev : ev_good ev -> forall l s vs s', good_st s -> forallb expr_ok l = true ->
  map_eval ev s l = Ok (vs, s') -> forallb good_value vs = true /\ good_st s'.
Proof.
  intros Hev. induction l as [|x r IH]; intros s vs s' Hs Hl H.
  - cbn in H. inversion H; subst. auto.
  - change (map_eval ev s (x :: r)) with (bind (ev s x) (fun '(v, s1) => bind (map_eval ev s1 r) (fun '(vs, s2) => Ok (v :: vs, s2)))) in H.
    cbn [forallb] in Hl. apply andb_true_iff in Hl as [Hx Hr].
    apply bind_ok in H as ([v s1] & E1 & H). apply bind_ok in H as ([vs1 s2] & E2 & H). inversion H; subst.
    destruct (Hev _ _ _ _ Hs Hx E1) as [Hv Hs1]. destruct (IH _ _ _ Hs1 Hr E2) as [Hvs Hs2].
    cbn [forallb]. now rewrite Hv, Hvs.
Qed.

Lemma map_eval_kw_good ev : ev_good ev -> forall l s kvs s', good_st s -> forallb (fun p => expr_ok (snd p)) l = true ->
  map_eval_kw ev s l = Ok (kvs, s') -> good_binds kvs = true /\ good_st s'.
Proof.
  intros Hev. induction l as [|[k x] r IH]; intros s kvs s' Hs Hl H.
  - cbn in H. inversion H; subst. auto.
  - change (map_eval_kw ev s ((k, x) :: r)) with (bind (ev s x) (fun '(v, s1) => bind (map_eval_kw ev s1 r) (fun '(kv, s2) => Ok ((k, v) :: kv, s2)))) in H.
    cbn [forallb snd] in Hl. apply andb_true_iff in Hl as [Hx Hr].
    apply bind_ok in H as ([v s1] & E1 & H). apply bind_ok in H as ([vs1 s2] & E2 & H). inversion H; subst.
    destruct (Hev _ _ _ _ Hs Hx E1) as [Hv Hs1]. destruct (IH _ _ _ Hs1 Hr E2) as [Hvs Hs2].
    unfold good_binds in *. cbn [forallb snd]. now rewrite Hv, Hvs.
Qed.

Lemma map_eval_pairs_good ev : ev_good ev -> forall l s kvs s', good_st s ->
  forallb (fun p => expr_ok (fst p) && expr_ok (snd p)) l = true ->
  map_eval_pairs ev s l = Ok (kvs, s') -> entries_all gv kvs /\ good_st s'.
Proof.
  intros Hev. induction l as [|[ke ve] r IH]; intros s kvs s' Hs Hl H.
  - cbn in H. inversion H; subst. split; [constructor|assumption].
  - change (map_eval_pairs ev s ((ke, ve) :: r)) with
      (bind (ev s ke) (fun '(k, s1) => bind (ev s1 ve) (fun '(v, s2) =>
       bind (map_eval_pairs ev s2 r) (fun '(kvs, s3) => Ok ((k, v) :: kvs, s3))))) in H.
    cbn [forallb fst snd] in Hl. apply andb_true_iff in Hl as [Hkv Hr]. apply andb_true_iff in Hkv as [Hke Hve].
    apply bind_ok in H as ([k s1] & E1 & H). apply bind_ok in H as ([v s2] & E2 & H).
    apply bind_ok in H as ([kvs1 s3] & E3 & H). inversion H; subst.
    destruct (Hev _ _ _ _ Hs Hke E1) as [Hk Hs1]. destruct (Hev _ _ _ _ Hs1 Hve E2) as [Hv Hs2].
    destruct (IH _ _ _ Hs2 Hr E3) as [Hkvs Hs3]. split; [|assumption].
    apply entries_all_cons; assumption.
Qed.

Lemma cmp_chain_good m ev : ev_good ev -> forall l left s v s', good_st s -> forallb (fun p => expr_ok (snd p)) l = true ->
  cmp_chain m ev left s l = Ok (v, s') -> good_value v = true /\ good_st s'.
Proof.
  intros Hev. induction l as [|[op x] r IH]; intros left s v s' Hs Hl H.
  - cbn in H. inversion H; subst. auto.
  - change (cmp_chain m ev left s ((op, x) :: r)) with
      (bind (ev s x) (fun '(y, s2) => bind (do_cmp m op left y) (fun b =>
         match r with [] => Ok (VBool b, s2) | _ => if b then cmp_chain m ev y s2 r else Ok (VBool false, s2) end))) in H.
    cbn [forallb snd] in Hl. apply andb_true_iff in Hl as [Hx Hr].
    apply bind_ok in H as ([y s2] & E1 & H). apply bind_ok in H as (b & E2 & H).
    destruct (Hev _ _ _ _ Hs Hx E1) as [Hv Hs2].
    destruct r as [|p r']; [inversion H; subst; auto|]. destruct b; [eapply IH; eauto|inversion H; subst; auto].
Qed.

Lemma bind_params_good kwargs : good_binds kwargs = true -> forall ps pos r, forallb good_value pos = true ->
  bind_params kwargs ps pos = Ok r -> good_binds r = true.
Proof.
  intros Hk. induction ps as [|p ps IH]; intros pos r Hpos H.
  - cbn in H. inversion H; reflexivity.
  - change (bind_params kwargs (p :: ps) pos) with
      (match pos, assoc p kwargs with
       | v :: pos', None => bind (bind_params kwargs ps pos') (fun r => Ok ((p, v) :: r))
       | v :: _, Some _ => Err E_TooManyArguments
       | [], Some v => bind (bind_params kwargs ps []) (fun r => Ok ((p, v) :: r))
       | [], None => bind (bind_params kwargs ps []) (fun r => Ok ((p, VUndef) :: r))
       end) in H.
    destruct pos as [|v pos']; destruct (assoc p kwargs) as [w|] eqn:E; try discriminate.
    + apply bind_ok in H as (r0 & E1 & H). inversion H; subst. unfold good_binds. cbn [forallb snd].
      rewrite (assoc_good _ _ _ Hk E). exact (IH _ _ Hpos E1).
    + apply bind_ok in H as (r0 & E1 & H). inversion H; subst. unfold good_binds. cbn [forallb snd good_value]. exact (IH _ _ Hpos E1).
    + cbn [forallb] in Hpos. apply andb_true_iff in Hpos as [Hv Hp]. apply bind_ok in H as (r0 & E1 & H). inversion H; subst.
      unfold good_binds. cbn [forallb snd]. rewrite Hv. exact (IH _ _ Hp E1).
Qed.

Lemma assoc_forallb {A} (f : A -> bool) (l : list (name * A)) x v :
  forallb (fun p => f (snd p)) l = true -> assoc x l = Some v -> f v = true.
Proof.
  induction l as [|[k w] r IH]; cbn [assoc forallb snd]; [discriminate|]. intros H. apply andb_true_iff in H as [H1 H2].
  destruct (x =? k); [intros E; inversion E; subst; exact H1|auto].
Qed.

Lemma store_args_good ev defaults : ev_good ev -> forallb (fun p => expr_ok (snd p)) defaults = true ->
  forall l s s', good_st s -> good_binds l = true -> store_args ev defaults s l = Ok s' -> good_st s'.
Proof.
  intros Hev Hd. induction l as [|[p v] r IH]; intros s s' Hs Hl H.
  - cbn in H. inversion H; subst; auto.
  - change (store_args ev defaults s ((p, v) :: r)) with
      (match is_undef v, assoc p defaults with
       | true, Some d => bind (ev s d) (fun '(dv, s1) => store_args ev defaults (store s1 p dv) r)
       | _, _ => store_args ev defaults (store s p v) r
       end) in H.
    unfold good_binds in Hl. cbn [forallb snd] in Hl. apply andb_true_iff in Hl as [Hv Hr].
    destruct (is_undef v); [destruct (assoc p defaults) as [d|] eqn:E|].
    + apply bind_ok in H as ([dv s1] & E1 & H). destruct (Hev _ _ _ _ Hs (assoc_forallb _ _ _ _ Hd E) E1) as [Hdv Hs1].
      eapply IH; [|exact Hr|exact H]. now apply store_good.
    + eapply IH; [|exact Hr|exact H]. now apply store_good.
    + eapply IH; [|exact Hr|exact H]. now apply store_good.
Qed.

Lemma if_arms_good m ev ex els : ev_good ev -> ex_good ex ->
  match els with Some b => forallb stmt_ok b = true | None => True end ->
  forall arms s sg s', good_st s -> forallb (fun p => expr_ok (fst p) && forallb stmt_ok (snd p)) arms = true ->
  if_arms m ev ex els s arms = Ok (sg, s') -> good_st s'.
Proof.
  intros Hev Hex Hels. induction arms as [|[cnd body] r IH]; intros s sg s' Hs Ha H.
  - cbn in H. destruct els as [b|]; [eapply Hex; eauto|inversion H; subst; auto].
  - change (if_arms m ev ex els s ((cnd, body) :: r)) with
      (bind (ev s cnd) (fun '(v, s1) => bind (u_is_true m v) (fun b => if b then ex s1 body else if_arms m ev ex els s1 r))) in H.
    cbn [forallb fst snd] in Ha. apply andb_true_iff in Ha as [Hc Hr]. apply andb_true_iff in Hc as [Hc Hb].
    apply bind_ok in H as ([v s1] & E1 & H). apply bind_ok in H as (b & E2 & H).
    destruct (Hev _ _ _ _ Hs Hc E1) as [_ Hs1]. destruct b; [eapply Hex; eauto|eapply IH; eauto].
Qed.

Lemma bind_target_good tgt s item s' : good_st s -> good_value item = true -> bind_target tgt s item = Ok s' -> good_st s'.
Proof.
  intros Hs Hi. destruct tgt as [x|x y].
  - cbn [bind_target]. intros H; inversion H; subst. now apply store_good.
  - intros H. apply bind_target_pair_inv in H as (a & b & Hu & ->).
    pose proof (unpack_items_good _ _ Hi Hu) as Hab.
    cbn [forallb] in Hab. apply andb_true_iff in Hab as [Ha Hb]. apply andb_true_iff in Hb as [Hb _].
    apply store_good; auto. apply store_good; auto.
Qed.

Lemma filter_items_good m ev tgt fe : ev_good ev -> expr_ok fe = true ->
  forall l s items s', good_st s -> forallb good_value l = true ->
  filter_items m ev tgt fe s l = Ok (items, s') -> forallb good_value items = true /\ good_st s'.
Proof.
  intros Hev Hfe. induction l as [|item r IH]; intros s items s' Hs Hl H.
  - cbn in H. inversion H; subst; auto.
  - change (filter_items m ev tgt fe s (item :: r)) with
      (let sf := push_frame s (mkFrame [] (Some (0, 0, false)) None None false) in
       bind (bind_target tgt sf item) (fun sf1 =>
       bind (ev sf1 fe) (fun '(v, sf2) => bind (u_is_true m v) (fun keep =>
       bind (filter_items m ev tgt fe (pop_frame sf2) r) (fun '(rest, s3) =>
       Ok (if keep then item :: rest else rest, s3)))))) in H.
    cbn zeta in H. cbn [forallb] in Hl. apply andb_true_iff in Hl as [Hi Hr].
    apply bind_ok in H as (sf1 & E1 & H). apply bind_ok in H as ([v sf2] & E2 & H). apply bind_ok in H as (keep & E3 & H).
    apply bind_ok in H as ([rest s3] & E4 & H). inversion H; subst.
    assert (Hsf1 : good_st sf1) by (eapply bind_target_good; [|exact Hi|exact E1]; apply push_frame_good; auto).
    destruct (Hev _ _ _ _ Hsf1 Hfe E2) as [_ Hsf2].
    destruct (IH _ _ _ (pop_frame_good _ Hsf2) Hr E4) as [Hrest Hs3]. split; auto.
    destruct keep; auto. cbn [forallb]. now rewrite Hi, Hrest.
Qed.

Lemma loop_items_good ex tgt body n : ex_good ex -> forallb stmt_ok body = true ->
  forall l s i s', good_st s -> forallb good_value l = true -> loop_items ex tgt body n s i l = Ok s' -> good_st s'.
Proof.
  intros Hex Hb. induction l as [|item r IH]; intros s i s' Hs Hl H.
  - cbn in H. inversion H; subst; auto.
  - change (loop_items ex tgt body n s i (item :: r)) with
      (let s0 := match s_env s with
                 | f :: e => with_env s (mkFrame [] (Some (i, n, true)) (f_closure f) (f_closure_ctx f) false :: e)
                 | [] => s end in
       bind (bind_target tgt s0 item) (fun s3 =>
       bind (ex s3 body) (fun '(sg, s4) =>
       match sg with SigBreak => Ok s4 | _ => loop_items ex tgt body n s4 (i + 1) r end))) in H.
    cbn zeta in H. cbn [forallb] in Hl. apply andb_true_iff in Hl as [Hi Hr].
    apply bind_ok in H as (s3 & E1 & H). apply bind_ok in H as ([sg s4] & E2 & H).
    assert (Hs0 : good_st (match s_env s with
                 | f :: e => with_env s (mkFrame [] (Some (i, n, true)) (f_closure f) (f_closure_ctx f) false :: e)
                 | [] => s end)).
    { destruct Hs as (He & Hc & Ho). destruct (s_env s) as [|f e] eqn:Ee; [repeat split; auto; now rewrite Ee|].
      cbn [forallb] in He. apply andb_true_iff in He as [_ He]. repeat split; cbn; auto. }
    pose proof (bind_target_good _ _ _ _ Hs0 Hi E1) as Hs3. pose proof (Hex _ _ _ _ Hs3 Hb E2) as Hs4.
    destruct sg; [eapply IH; eauto|inversion H; subst; auto|eapply IH; eauto].
Qed.

Lemma with_binds_good ev : ev_good ev -> forall l s s', good_st s -> forallb (fun p => expr_ok (snd p)) l = true ->
  with_binds ev s l = Ok s' -> good_st s'.
Proof.
  intros Hev. induction l as [|[t e] r IH]; intros s s' Hs Hl H.
  - cbn in H. inversion H; subst; auto.
  - change (with_binds ev s ((t, e) :: r)) with
      (bind (ev s e) (fun '(v, s1) => bind (bind_target t s1 v) (fun s2 => with_binds ev s2 r))) in H.
    cbn [forallb snd] in Hl. apply andb_true_iff in Hl as [He Hr].
    apply bind_ok in H as ([v s1] & E1 & H). destruct (Hev _ _ _ _ Hs He E1) as [Hv Hs1].
    apply bind_ok in H as (s2 & E2 & H).
    eapply IH; [|exact Hr|exact H]. eapply bind_target_good; eauto.
Qed.
(* ---- the interpreter keeps the invariant (esc = true throughout: no SAutoEscape in the fragment) ---- *)
Section Main.
Variable c : cfg.
Hypothesis Hroot : good_binds (c_root c) = true.

Definition call_good (fuel : nat) : Prop :=
  forall s mc cl args kw v s', good_st s -> macro_ok mc = true -> forallb good_value args = true -> good_binds kw = true ->
  call_macro c fuel true s mc cl args kw = Ok (v, s') -> good_value v = true /\ good_st s'.
Definition exec_good (fuel : nat) : Prop :=
  forall s t sg s', good_st s -> stmt_ok t = true -> exec c fuel true s t = Ok (sg, s') -> good_st s'.

Lemma handle_undefined_good m b v : u_handle_undefined m b = Ok v -> good_value v = true.
Proof. destruct m, b; cbn; intros H; inversion H; reflexivity. Qed.

Lemma eval_step fuel : ev_good (eval c fuel true) -> call_good fuel -> ev_good (eval c (S fuel) true).
Proof.
  intros Hev Hcall s e v s' Hs He H. destruct e as [l|x|items|pairs|a|a|op a b|a rest|a b|a b|cnd t f|a i|a attr|f a args|t a args neg|f args kwargs]; simpl in H.
  - destruct l; inversion H; subst; auto.
  - destruct (lookup c s x) as [w s1] eqn:El. inversion H; subst. destruct (lookup_good _ _ _ _ _ Hroot Hs El) as [Hs1 Hw].
    split; auto. destruct w; [now apply Hw|reflexivity].
  - cbn [expr_ok] in He. apply bind_ok in H as ([vs s1] & E1 & H). inversion H; subst.
    destruct (map_eval_good _ Hev _ _ _ _ Hs He E1). auto.
  - cbn [expr_ok] in He. apply bind_ok in H as ([kvs s1] & E1 & H). inversion H; subst.
    destruct (map_eval_pairs_good _ Hev _ _ _ _ Hs He E1) as [Hkvs Hs1]. split; [|assumption].
    now apply map_of_pairs_good.
  - cbn [expr_ok] in He. apply bind_ok in H as ([w s1] & E1 & H). destruct (Hev _ _ _ _ Hs He E1) as [_ Hs1].
    destruct w; try discriminate. inversion H; subst. auto.
  - cbn [expr_ok] in He. apply bind_ok in H as ([w s1] & E1 & H). destruct (Hev _ _ _ _ Hs He E1) as [_ Hs1].
    apply bind_ok in H as (b & _ & H). inversion H; subst. auto.
  - cbn [expr_ok] in He. apply andb_true_iff in He as [Ha Hb].
    apply bind_ok in H as ([x s1] & E1 & H). apply bind_ok in H as ([y s2] & E2 & H). apply bind_ok in H as (u & _ & H).
    apply bind_ok in H as (r & E3 & H). inversion H; subst.
    destruct (Hev _ _ _ _ Hs Ha E1) as [_ Hs1]. destruct (Hev _ _ _ _ Hs1 Hb E2) as [_ Hs2]. split; auto. eapply do_bin_good; eauto.
  - cbn [expr_ok] in He. apply andb_true_iff in He as [Ha Hr]. apply bind_ok in H as ([x s1] & E1 & H).
    destruct (Hev _ _ _ _ Hs Ha E1) as [_ Hs1]. eapply cmp_chain_good; eauto.
  - cbn [expr_ok] in He. apply andb_true_iff in He as [Ha Hb]. apply bind_ok in H as ([x s1] & E1 & H). apply bind_ok in H as (t & _ & H).
    destruct (Hev _ _ _ _ Hs Ha E1) as [Hx Hs1]. destruct t; [eapply Hev; eauto|inversion H; subst; auto].
  - cbn [expr_ok] in He. apply andb_true_iff in He as [Ha Hb]. apply bind_ok in H as ([x s1] & E1 & H). apply bind_ok in H as (t & _ & H).
    destruct (Hev _ _ _ _ Hs Ha E1) as [Hx Hs1]. destruct t; [inversion H; subst; auto|eapply Hev; eauto].
  - cbn [expr_ok] in He. apply andb_true_iff in He as [He Hf]. apply andb_true_iff in He as [Hc Ht].
    apply bind_ok in H as ([x s1] & E1 & H). apply bind_ok in H as (b & _ & H).
    destruct (Hev _ _ _ _ Hs Hc E1) as [_ Hs1]. destruct b; [eapply Hev; eauto|].
    destruct f as [f|]; [eapply Hev; eauto|inversion H; subst; auto].
  - cbn [expr_ok] in He. apply andb_true_iff in He as [Ha Hi].
    apply bind_ok in H as ([x s1] & E1 & H). apply bind_ok in H as ([k s2] & E2 & H).
    destruct (Hev _ _ _ _ Hs Ha E1) as [Hx Hs1]. destruct (Hev _ _ _ _ Hs1 Hi E2) as [Hk Hs2].
    destruct (get_item_opt x k) as [w|] eqn:E3.
    + inversion H; subst. split; [exact (get_item_opt_good _ _ _ Hx E3)|assumption].
    + apply bind_ok in H as (w & E4 & H). inversion H; subst. split; auto. eapply handle_undefined_good; eauto.
  - cbn [expr_ok] in He. apply bind_ok in H as ([x s1] & E1 & H). destruct (Hev _ _ _ _ Hs He E1) as [Hx Hs1].
    destruct (get_attr_opt x attr) as [w|] eqn:E3.
    + inversion H; subst. split; [exact (get_attr_opt_good _ _ _ Hx E3)|assumption].
    + apply bind_ok in H as (w & E4 & H). inversion H; subst. split; auto. eapply handle_undefined_good; eauto.
  - cbn [expr_ok] in He. apply andb_true_iff in He as [He Hargs]. apply andb_true_iff in He as [Hf Ha]. apply negb_true_iff in Hf.
    apply bind_ok in H as ([x s1] & E1 & H). apply bind_ok in H as ([vs s2] & E2 & H). apply bind_ok in H as (r & E3 & H). inversion H; subst.
    destruct (Hev _ _ _ _ Hs Ha E1) as [Hx Hs1]. destruct (map_eval_good _ Hev _ _ _ _ Hs1 Hargs E2) as [Hvs Hs2].
    split; auto. eapply do_filter_good; eauto.
  - cbn [expr_ok] in He. apply andb_true_iff in He as [Ha Hargs].
    apply bind_ok in H as ([x s1] & E1 & H). apply bind_ok in H as ([vs s2] & E2 & H). apply bind_ok in H as (r & E3 & H). inversion H; subst.
    destruct (Hev _ _ _ _ Hs Ha E1) as [Hx Hs1]. destruct (map_eval_good _ Hev _ _ _ _ Hs1 Hargs E2) as [Hvs Hs2]. auto.
  - cbn [expr_ok] in He. apply andb_true_iff in He as [Hargs Hkw].
    apply bind_ok in H as ([vs s1] & E1 & H). apply bind_ok in H as ([kvs s2] & E2 & H).
    destruct (map_eval_good _ Hev _ _ _ _ Hs Hargs E1) as [Hvs Hs1]. destruct (map_eval_kw_good _ Hev _ _ _ _ Hs1 Hkw E2) as [Hkvs Hs2].
    destruct (lookup c s2 f) as [fv s3] eqn:El. destruct (lookup_good _ _ _ _ _ Hroot Hs2 El) as [Hs3 Hfv].
    destruct fv as [fv|]; [|discriminate]. specialize (Hfv _ eq_refl).
    destruct fv as [| | |b|z|sf t|l|kvs0|mc cl|i n|g]; try discriminate.
    + eapply Hcall; eauto.
    + destruct (g =? N_range); [|discriminate]. destruct vs as [|[| | |b|z|sf t|l|kvs0|mc cl|i n|g'] [|? ?]]; try discriminate.
      destruct kvs; [|discriminate]. inversion H; subst. split; auto. cbn [good_value]. apply range_list_good.
Qed.

Lemma call_step fuel : ev_good (eval c fuel true) -> ex_good (exec_list c fuel true) -> call_good (S fuel).
Proof.
  intros Hev Hex s mc cl args kw v s' Hs Hmc Hargs Hkw H. simpl in H.
  unfold macro_ok in Hmc. apply andb_true_iff in Hmc as [Hd Hb].
  destruct (Nat.ltb _ _); [discriminate|]. apply bind_ok in H as (bound & E1 & H).
  match type of H with (if ?b then _ else _) = _ => destruct b end; [discriminate|]. apply bind_ok in H as (s1 & E2 & H). apply bind_ok in H as ([sg s2] & E3 & H).
  inversion H; subst. clear H.
  pose proof (bind_params_good _ Hkw _ _ _ Hargs E1) as Hbound.
  destruct Hs as (He & Hc & Ho).
  assert (Hs0 : good_st {| s_env := [{| f_locals := if m_caller mc then [(N_caller, match assoc N_caller kw with Some v => v | None => VUndef end)] else [];
                                          f_loop := None; f_closure := None; f_closure_ctx := cl; f_base := false |}; base_frame];
                            s_clos := s_clos s; s_out := []; s_asks := s_asks s |}).
  { repeat split; cbn [s_env s_clos s_out forallb]; auto. unfold good_frame, good_binds. cbn [f_locals base_frame forallb].
    destruct (m_caller mc); cbn [forallb snd]; auto. destruct (assoc N_caller kw) as [w|] eqn:E; [|reflexivity].
    rewrite (assoc_good _ _ _ Hkw E). reflexivity. }
  assert (Hrb : good_binds (rev bound) = true) by (unfold good_binds in *; now rewrite forallb_rev).
  pose proof (store_args_good _ _ Hev Hd _ _ _ Hs0 Hrb E2) as Hs1.
  pose proof (Hex _ _ _ _ Hs1 Hb E3) as Hs2.
  split; [cbn [good_value]; now apply output_clean|].
  destruct Hs2 as (He2 & Hc2 & Ho2). repeat split; auto.
Qed.

Lemma exec_step fuel : ev_good (eval c fuel true) -> call_good fuel -> ex_good (exec_list c fuel true) -> exec_good (S fuel).
Proof.
  intros Hev Hcall Hex s t sg s' Hs Ht H.
  destruct t as [text|e|arms els|tgt iter flt body els rc|x e|x body flt|binds body|nm params defaults body|mn args body|f body|ve body| |]; simpl in H; cbn [stmt_ok] in Ht.
  - inversion H; subst. now apply emit_good.
  - apply bind_ok in H as ([v s1] & E1 & H). destruct (Hev _ _ _ _ Hs Ht E1) as [Hv Hs1].
    destruct (u_strictish (c_mode c) && is_strict_undef v); [discriminate|]. inversion H; subst. apply emit_good; auto. now apply good_render.
  - apply andb_true_iff in Ht as [Ha Hels]. eapply if_arms_good; eauto. destruct els; auto.
  - apply andb_true_iff in Ht as [Ht Hels]. apply andb_true_iff in Ht as [Ht Hbody]. apply andb_true_iff in Ht as [Hiter Hflt].
    apply bind_ok in H as ([iv s1] & E1 & H). destruct (Hev _ _ _ _ Hs Hiter E1) as [Hiv Hs1].
    apply bind_ok in H as (items & E2 & H).
    assert (Hitems : forallb good_value items = true).
    { destruct iv as [| | |b|z|sf t|l|kvs|mc cl|i n|g]; try discriminate; try (inversion E2; subst; auto; fail).
      - destruct (u_strictish (c_mode c)); inversion E2; reflexivity.
      - (* the characters of a string are unsafe one-character strings *)
        inversion E2; subst. clear. induction t; cbn; auto.
      - (* the keys of a map *)
        inversion E2; subst. now apply good_map_keys. }
    apply bind_ok in H as ([items2 s2] & E3 & H).
    assert (Hi2 : forallb good_value items2 = true /\ good_st s2).
    { destruct flt as [fe|]; [eapply filter_items_good; eauto|inversion E3; subst; auto]. }
    destruct Hi2 as [Hi2 Hs2]. apply bind_ok in H as (s5 & E4 & H).
    assert (Hs5 : good_st s5).
    { eapply loop_items_good; [exact Hex|exact Hbody| |exact Hi2|exact E4]. apply push_frame_good; auto. }
    pose proof (pop_frame_good _ Hs5) as Hs6.
    destruct items2; [destruct els as [eb|]; [eapply Hex; eauto|inversion H; subst; auto]|inversion H; subst; auto].
  - apply bind_ok in H as ([v s1] & E1 & H). destruct (Hev _ _ _ _ Hs Ht E1) as [Hv Hs1].
    apply bind_ok in H as (s2 & E2 & H). inversion H; subst. eapply bind_target_good; eauto.
  - apply andb_true_iff in Ht as [Hbody Hflt]. apply bind_ok in H as ([[sg0 txt] s1] & E1 & H).
    apply bind_ok in E1 as ([sg1 s1'] & E1 & E1'). inversion E1'; subst. clear E1'.
    pose proof (Hex _ _ _ _ (with_out_nil_good _ Hs) Hbody E1) as Hs1.
    assert (Hs1' : good_st (with_out s1' (s_out s))) by (apply with_out_good; [auto|apply Hs]).
    destruct sg0; [|inversion H; subst; auto|inversion H; subst; auto].
    apply bind_ok in H as (v & E2 & H). inversion H; subst. apply store_good; auto.
    destruct flt as [f|]; [|inversion E2; subst; cbn [good_value]; now apply output_clean].
    apply negb_true_iff in Hflt. refine (do_filter_good _ _ _ [] _ Hflt _ eq_refl E2). cbn [good_value]. now apply output_clean.
  - apply andb_true_iff in Ht as [Hb Hbody]. apply bind_ok in H as (s1 & E1 & H). apply bind_ok in H as ([sg1 s2] & E2 & H). inversion H; subst.
    apply pop_frame_good. eapply Hex; [|exact Hbody|exact E2]. eapply with_binds_good; [exact Hev| |exact Hb|exact E1].
    apply push_frame_good; auto.
  - destruct (enclose c s (macro_closure params defaults body)) as [s1 cl] eqn:Ee. inversion H; subst.
    apply store_good; [eapply enclose_good; eauto|]. cbn [good_value]. unfold macro_ok. cbn [m_defaults m_body]. exact Ht.
  - apply andb_true_iff in Ht as [Hargs Hbody]. apply bind_ok in H as ([vs s1] & E1 & H).
    destruct (map_eval_good _ Hev _ _ _ _ Hs Hargs E1) as [Hvs Hs1].
    destruct (enclose c s1 (macro_closure [] [] body)) as [s2 cl] eqn:Ee. pose proof (enclose_good _ _ _ _ _ Hroot Hs1 Ee) as Hs2.
    destruct (lookup c s2 mn) as [fv s3] eqn:El. destruct (lookup_good _ _ _ _ _ Hroot Hs2 El) as [Hs3 Hfv].
    destruct fv as [fv|]; [|discriminate]. specialize (Hfv _ eq_refl).
    destruct fv as [| | |b|z|sf t|l|kvs|mc mcl|i n|g]; try discriminate.
    apply bind_ok in H as ([v s4] & E2 & H). inversion H; subst.
    assert (Hkw : good_binds [(N_caller, VMacro (mkMacro N_caller [] [] body (uses_caller [] [] body)) cl)] = true).
    { unfold good_binds. cbn [forallb snd good_value]. unfold macro_ok. cbn [m_defaults m_body forallb]. now rewrite Hbody. }
    destruct (Hcall _ _ _ _ _ _ _ Hs3 Hfv Hvs Hkw E2) as [Hv Hs4]. apply emit_good; auto. now apply good_render.
  - apply andb_true_iff in Ht as [Hf Hbody]. apply negb_true_iff in Hf. apply bind_ok in H as ([[sg0 txt] s1] & E1 & H).
    apply bind_ok in E1 as ([sg1 s1'] & E1 & E1'). inversion E1'; subst. clear E1'.
    pose proof (Hex _ _ _ _ (with_out_nil_good _ Hs) Hbody E1) as Hs1.
    assert (Hs1' : good_st (with_out s1' (s_out s))) by (apply with_out_good; [auto|apply Hs]).
    destruct sg0; [|inversion H; subst; auto|inversion H; subst; auto].
    apply bind_ok in H as (v & E2 & H). inversion H; subst. apply emit_good; auto. apply good_render.
    refine (do_filter_good _ _ _ [] _ Hf _ eq_refl E2). cbn [good_value]. now apply output_clean.
  - discriminate.
  - inversion H; subst; auto.
  - inversion H; subst; auto.
Qed.

Lemma exec_list_step fuel : exec_good fuel -> ex_good (exec_list c fuel true) -> ex_good (exec_list c (S fuel) true).
Proof.
  intros Hx Hex s l sg s' Hs Hl H. destruct l as [|t r]; simpl in H; [inversion H; subst; auto|].
  cbn [forallb] in Hl. apply andb_true_iff in Hl as [Ht Hr]. apply bind_ok in H as ([sg1 s1] & E1 & H).
  pose proof (Hx _ _ _ _ Hs Ht E1) as Hs1. destruct sg1; [eapply Hex; eauto|inversion H; subst; auto|inversion H; subst; auto].
Qed.

Lemma interp_good : forall fuel,
  ev_good (eval c fuel true) /\ call_good fuel /\ exec_good fuel /\ ex_good (exec_list c fuel true).
Proof.
  induction fuel as [|fuel (IHe & IHc & IHx & IHl)].
  - unfold ev_good, call_good, exec_good, ex_good. split; [|split; [|split]]; intros; simpl in *; discriminate.
  - split; [|split; [|split]].
    + now apply eval_step.
    + now apply call_step.
    + now apply exec_step.
    + now apply exec_list_step.
Qed.
End Main.

Lemma init_good : good_st init_state.
Proof. repeat split. Qed.

Lemma escape_sound_proof c fuel body s :
  c_escape c = true -> good_binds (c_root c) = true -> safe_free body = true ->
  run c fuel body = Ok s -> clean (output_of s) = true.
Proof.
  intros Hesc Hroot Hbody H. unfold run in H. rewrite Hesc in H. apply bind_ok in H as ([sg s1] & E & H). inversion H; subst.
  apply output_clean. destruct (interp_good c Hroot fuel) as (_ & _ & _ & Hex). eapply Hex; eauto. apply init_good.
Qed.
(* plain data is a good context *)
Lemma data_good : forall v, data_value v = true -> good_value v = true.
Proof.
  apply (value_ind_nested (fun v => data_value v = true -> good_value v = true)); try (intros; reflexivity); try discriminate.
  - intros sf t. destruct sf; [discriminate|reflexivity].
  - intros l Hl. change (forallb data_value l = true -> forallb good_value l = true).
    induction Hl as [|a r Ha Hr IHl]; cbn [forallb]; auto. intros H. apply andb_true_iff in H as [H1 H2].
    rewrite (Ha H1). cbn [andb]. auto.
  - intros m Hm.
    change (forallb (fun p => data_value (fst p) && data_value (snd p)) m = true ->
            forallb (fun p => good_value (fst p) && good_value (snd p)) m = true).
    induction Hm as [|p r [Hk Hx] Hr IHm]; cbn [forallb]; auto. intros H. apply andb_true_iff in H as [H1 H2].
    apply andb_true_iff in H1 as [H1k H1x]. rewrite (Hk H1k), (Hx H1x). cbn [andb]. auto.
Qed.

Lemma data_binds_good (l : list (name * value)) : forallb (fun p => data_value (snd p)) l = true -> good_binds l = true.
Proof.
  unfold good_binds. induction l as [|[k v] r IHl]; cbn [forallb snd]; auto. intros H. apply andb_true_iff in H as [H1 H2].
  now rewrite (data_good _ H1), IHl.
Qed.

Lemma clean_spec s : clean s = true <-> forall ch, In ch s -> ch <> 60 /\ ch <> 62 /\ ch <> 34 /\ ch <> 39.
Proof.
  unfold clean. rewrite forallb_forall. split; intros H ch Hin; specialize (H ch Hin); unfold is_meta in *; lia.
Qed.

(* ---- exactly once ---- *)
Lemma print_captured esc txt : render_value esc (VStr esc txt) = txt.
Proof. destruct esc; reflexivity. Qed.

Lemma print_safe s : render_value true (VStr true s) = s.
Proof. reflexivity. Qed.

Lemma print_unsafe s : render_value true (VStr false s) = html_escape s.
Proof. reflexivity. Qed.

Lemma escape_on_safe m esc s args : do_filter m esc F_escape (VStr true s) args = Ok (VStr true s).
Proof. reflexivity. Qed.

Lemma escape_then_print m esc s args : exists v, do_filter m esc F_escape (VStr false s) args = Ok v /\ render_value true v = html_escape s.
Proof. eexists. split; reflexivity. Qed.

(* a macro call yields exactly what its body wrote, marked so that printing reproduces it *)
Lemma macro_call_value c fuel esc s mc cl args kw v s' :
  call_macro c (S fuel) esc s mc cl args kw = Ok (v, s') ->
  exists s1 sg s2, s_out s1 = [] /\ exec_list c fuel esc s1 (m_body mc) = Ok (sg, s2) /\ v = VStr esc (output_of s2) /\ render_value esc v = output_of s2 /\ s_out s' = s_out s.
Proof.
  intros H. simpl in H. destruct (Nat.ltb _ _); [discriminate|]. apply bind_ok in H as (bound & E1 & H).
  match type of H with (if ?b then _ else _) = _ => destruct b end; [discriminate|].
  apply bind_ok in H as (s1 & E2 & H). apply bind_ok in H as ([sg s2] & E3 & H). inversion H; subst.
  exists s1, sg, s2. split; [|repeat split; auto; apply print_captured].
  rewrite (store_args_out _ _ (eval_out c esc fuel) _ _ _ E2). reflexivity.
Qed.

Lemma set_block_value c fuel esc s x body sg s' :
  exec c (S fuel) esc s (SSetBlock x body None) = Ok (sg, s') -> sg = SigNormal ->
  exists s1, exec_list c fuel esc (with_out s []) body = Ok (SigNormal, s1) /\ s' = store (with_out s1 (s_out s)) x (VStr esc (output_of s1)) /\ render_value esc (VStr esc (output_of s1)) = output_of s1.
Proof.
  intros H ->. simpl in H. apply bind_ok in H as ([[sg0 txt] s1] & E1 & H).
  apply bind_ok in E1 as ([sg1 s1'] & E1 & E1'). inversion E1'; subst. clear E1'.
  destruct sg0; try (inversion H; fail). cbn [bind] in H. inversion H; subst.
  exists s1'. repeat split; auto. apply print_captured.
Qed.

Lemma filter_block_operand c fuel esc s f body sg s' :
  exec c (S fuel) esc s (SFilterBlock f body) = Ok (sg, s') -> sg = SigNormal ->
  exists s1 v, exec_list c fuel esc (with_out s []) body = Ok (SigNormal, s1) /\ do_filter (c_mode c) esc f (VStr esc (output_of s1)) [] = Ok v /\ render_value esc (VStr esc (output_of s1)) = output_of s1 /\ s' = emit (with_out s1 (s_out s)) (render_value esc v).
Proof.
  intros H ->. simpl in H. apply bind_ok in H as ([[sg0 txt] s1] & E1 & H).
  apply bind_ok in E1 as ([sg1 s1'] & E1 & E1'). inversion E1'; subst. clear E1'.
  destruct sg0; try (inversion H; fail). apply bind_ok in H as (v & E2 & H). inversion H; subst.
  exists s1', v. repeat split; auto. apply print_captured.
Qed.

Lemma call_block_emits c fuel esc s mn args body sg s' :
  exec c (S fuel) esc s (SCallBlock mn args body) = Ok (sg, s') ->
  exists s3 mc mcl vs kw v s4, call_macro c fuel esc s3 mc mcl vs kw = Ok (v, s4) /\
    s' = emit s4 (render_value esc v) /\ s_out s4 = s_out s.
Proof.
  intros H. simpl in H. apply bind_ok in H as ([vs s1] & E1 & H).
  destruct (enclose c s1 (macro_closure [] [] body)) as [s2 cl] eqn:Ee.
  destruct (lookup c s2 mn) as [fv s3] eqn:El. destruct fv as [fv|]; [|discriminate].
  destruct fv as [| | |b|z|sf t|l|kvs|mc mcl|i n|g]; try discriminate.
  apply bind_ok in H as ([v s4] & E2 & H). inversion H; subst.
  exists s3, mc, mcl, vs, [(N_caller, VMacro (mkMacro N_caller [] [] body (uses_caller [] [] body)) cl)], v, s4.
  repeat split; auto.
  rewrite (call_macro_out _ _ _ _ _ _ _ _ _ _ E2), (lookup_out _ _ _ _ _ El), (enclose_out _ _ _ _ _ Ee).
  eapply map_eval_out; [apply eval_out|exact E1].
Qed.
