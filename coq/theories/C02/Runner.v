(* C02 runners.
   c02     : an encoded request (Lang/Codec.v) -> the reference interpreter's rendering:
             [0; n; c1..cn] rendered text | [1; code] error | [2] panic | [8] out of gas | [9] undecodable
   c02-mode: n c1..cn (a template name) -> [m]: the default auto-escape mode of that name, 0 none | 1 html | 2 json
   c02-modes: an encoded C02/Modes.v program (ModesCodec.v) -> its rendering, same output format as c02
   c02-ok  : same input -> [b; d]: b = the program is in the theorem's fragment (safe_free), d = the context is plain data *)
From Coq Require Import String.
From MJ Require Import Common.Base Lang.Syntax Lang.Meta Lang.Interp Lang.Codec C02.Spec C02.Names C02.Modes C02.ModesCodec.

Definition FUEL := 400%nat.

Definition run (inp : list Z) : list Z :=
  match drequest inp with
  | None => [9]
  | Some (md, esc, ctx, body) =>
      match Interp.run (mkCfg md ctx esc) FUEL body with
      | Ok s => let o := output_of s in 0 :: lenZ o :: o
      | Err c => [1; c]
      | Panic => [2]
      | OutOfGas => [8]
      end
  end.

Definition run_ok (inp : list Z) : list Z :=
  match drequest inp with
  | None => [9]
  | Some (md, esc, ctx, body) =>
      [if safe_free body then 1 else 0; if forallb (fun p => data_value (snd p)) ctx then 1 else 0]
  end.

Definition run_mode (inp : list Z) : list Z :=
  match inp with
  | n :: r => match take_n (Z.to_nat n) r with
              | Some (name, _) => [match default_mode name with MNone => 0 | MHtml => 1 | MJson => 2 end]
              | None => [9]
              end
  | [] => [9]
  end.

Open Scope string_scope.
Definition runners : list (string * (list Z -> list Z)) := [ ("c02", run); ("c02-ok", run_ok); ("c02-mode", run_mode); ("c02-modes", run_modes_enc) ].
