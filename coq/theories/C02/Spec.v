(* C02: what "uses no safe-marking construct", "contains no HTML metacharacter" and "carries only
   harmless safe strings" mean, as booleans on the AST / on values (no proofs here).

   The model is the reference interpreter Lang/Interp.v run with esc = true:
     utils.rs::write_escaped / HtmlEscape            = render_value / html_escape
     output.rs::end_capture (captures become safe)    = VStr esc txt in SSetBlock / SFilterBlock
     vm/macro_object.rs (macro result marking)        = VStr esc (output_of s2) in call_macro
     filters.rs safe / escape / StringInput::preserve_safety (upper lower trim capitalize string)
                                                      = do_filter
     `~` and `+` on strings drop the safe bit         = do_bin *)
From MJ Require Import Common.Base Lang.Syntax Lang.Meta Lang.Interp.

(* the characters the property speaks about: less-than, greater-than, double quote, single quote *)
Definition is_meta (c : Z) : bool := (c =? 60) || (c =? 62) || (c =? 34) || (c =? 39).
Definition clean (s : list Z) : bool := forallb (fun c => negb (is_meta c)) s.

(* an expression / statement of the safe-marking-free fragment whose raw template text is clean.
   String literals are data: they may contain anything.  `escape` is allowed (it is sound);
   `safe` and {% autoescape %} are the safe-marking constructs of the fragment. *)
Fixpoint expr_ok (e : expr) : bool :=
  match e with
  | EConst _ | EVar _ => true
  | EList items => forallb expr_ok items
  | EMap pairs => forallb (fun p => expr_ok (fst p) && expr_ok (snd p)) pairs
  | ENeg a | ENot a => expr_ok a
  | EBin _ a b | EAnd a b | EOr a b | EItem a b => expr_ok a && expr_ok b
  | ECmp a rest => expr_ok a && forallb (fun p => expr_ok (snd p)) rest
  | EIf c t f => expr_ok c && expr_ok t && match f with Some f => expr_ok f | None => true end
  | EAttr a _ => expr_ok a
  | EFilter f a args => negb (f =? F_safe) && expr_ok a && forallb expr_ok args
  | ETest _ a args _ => expr_ok a && forallb expr_ok args
  | ECall _ args kwargs => forallb expr_ok args && forallb (fun p => expr_ok (snd p)) kwargs
  end.

Fixpoint stmt_ok (t : stmt) : bool :=
  match t with
  | SRaw text => clean text
  | SEmit e => expr_ok e
  | SIf arms els =>
      forallb (fun p => expr_ok (fst p) && forallb stmt_ok (snd p)) arms &&
      match els with Some b => forallb stmt_ok b | None => true end
  | SFor _ iter flt body els _ =>
      expr_ok iter && match flt with Some f => expr_ok f | None => true end && forallb stmt_ok body &&
      match els with Some b => forallb stmt_ok b | None => true end
  | SSet _ e => expr_ok e
  | SSetBlock _ body flt => forallb stmt_ok body && match flt with Some f => negb (f =? F_safe) | None => true end
  | SWith binds body => forallb (fun p => expr_ok (snd p)) binds && forallb stmt_ok body
  | SMacro _ _ defaults body => forallb (fun p => expr_ok (snd p)) defaults && forallb stmt_ok body
  | SCallBlock _ args body => forallb expr_ok args && forallb stmt_ok body
  | SFilterBlock f body => negb (f =? F_safe) && forallb stmt_ok body
  | SAutoEscape _ _ => false
  | SBreak | SContinue => true
  end.

(* [safe_free]: the program uses no safe-marking construct and its raw text has no metacharacter *)
Definition safe_free (body : list stmt) : bool := forallb stmt_ok body.

Definition macro_ok (mc : macro) : bool :=
  forallb (fun p => expr_ok (snd p)) (m_defaults mc) && forallb stmt_ok (m_body mc).

(* the invariant on values: a string that bypasses escaping has no metacharacter; macros that can be
   called come from the fragment.  A map is never itself a safe string (printing it escapes its whole
   printed text), but its keys and values keep their safe flags when they are looked up or iterated
   over - so every key and every value of a map has to be good, at any nesting depth. *)
Fixpoint good_value (v : value) : bool :=
  match v with
  | VStr true s => clean s
  | VList l => forallb good_value l
  | VMap kvs => forallb (fun p => good_value (fst p) && good_value (snd p)) kvs
  | VMacro mc _ => macro_ok mc
  | _ => true
  end.

Definition good_binds (l : list (name * value)) : bool := forallb (fun p => good_value (snd p)) l.

(* plain data, as a render context built from JSON has it: no safe strings, no macros; lists and
   maps of plain data, nested at will *)
Fixpoint data_value (v : value) : bool :=
  match v with
  | VUndef | VNone | VBool _ | VInt _ | VStr false _ => true
  | VList l => forallb data_value l
  | VMap kvs => forallb (fun p => data_value (fst p) && data_value (snd p)) kvs
  | _ => false
  end.
