(* C03, bytecode level: a folded constant is what evaluation yields (any fuel); code placement; steps. *)
From MJ Require Import Common.Base Lang.Syntax Lang.Meta Lang.Interp.
From MJ Require Import C04.Model.
From MJ Require Import C04.Spec.
From MJ Require Import C04.Proofs.
From MJ Require Import C03.Proofs.
From MJ Require Import L2.Instr.
From MJ Require Import L2.Compile.
From MJ Require Import L2.Vm.
From MJ Require Import L2.Simulation.
Local Open Scope nat_scope.

Section FoldEval.
Variable c : cfg.
Variable esc : bool.
Let m := c_mode c.

Lemma u_is_true_ok md v b : u_is_true md v = Ok b -> b = truthy v.
Proof. destruct md, v; cbn; intros H; inversion H; reflexivity. Qed.

Definition fold_inv (fuel : nat) (e : expr) : Prop :=
  forall v0, as_const e = Some v0 ->
  forall s v s', eval c fuel esc s e = Ok (v, s') -> v = v0 /\ s' = s.

Lemma const_values_inv fuel items vs :
  const_values items = Some vs ->
  forall s ws s', map_eval (eval c fuel esc) s items = Ok (ws, s') -> ws = vs /\ s' = s.
Proof.
  revert vs. induction items as [|x r IH]; intros vs H s ws s' He.
  - inversion H. cbn in He. inversion He. auto.
  - destruct x; try discriminate. cbn [const_values] in H.
    destruct (const_values r) as [vr|] eqn:E; try discriminate. inversion H; subst.
    cbn [map_eval] in He. destruct fuel as [|fuel']; [discriminate|].
    rewrite eval_const in He. cbn [bind] in He.
    fold (map_eval (eval c (S fuel') esc)) in He.
    destruct (map_eval (eval c (S fuel') esc) s r) as [[ws1 s1]| | |] eqn:Er; try discriminate.
    cbn [bind] in He. inversion He; subst.
    destruct (IH vr eq_refl _ _ _ Er) as [-> ->]. auto.
Qed.

Lemma const_pairs_inv fuel pairs kvs :
  const_pairs pairs = Some kvs ->
  forall s ws s', map_eval_pairs (eval c fuel esc) s pairs = Ok (ws, s') -> ws = kvs /\ s' = s.
Proof.
  revert kvs. induction pairs as [|[k x] r IH]; intros kvs H s ws s' He.
  - inversion H. cbn in He. inversion He. auto.
  - cbn [const_pairs] in H. destruct k; try discriminate. destruct x; try discriminate.
    destruct (const_pairs r) as [vr|] eqn:E; cbn [omap] in H; try discriminate. inversion H; subst.
    cbn [map_eval_pairs] in He. destruct fuel as [|fuel']; [discriminate|].
    rewrite !eval_const in He. cbn [bind] in He. rewrite eval_const in He. cbn [bind] in He.
    fold (map_eval_pairs (eval c (S fuel') esc)) in He.
    destruct (map_eval_pairs (eval c (S fuel') esc) s r) as [[ws1 s1]| | |] eqn:Er; try discriminate.
    cbn [bind] in He. inversion He; subst.
    destruct (IH vr eq_refl _ _ _ Er) as [-> ->]. auto.
Qed.

Lemma fold_chain_inv fuel rest :
  (forall p, In p rest -> fold_inv fuel (snd p)) ->
  forall left v0, is_undef left = false -> fold_chain as_const left rest = Some v0 ->
  forall s v s', cmp_chain m (eval c fuel esc) left s rest = Ok (v, s') -> v = v0 /\ s' = s.
Proof.
  induction rest as [|[op r] l' IH]; intros Hop left v0 Hl H s v s' He.
  - inversion H. cbn in He. inversion He. auto.
  - cbn [fold_chain] in H.
    destruct (as_const r) as [right|] eqn:Er; cbn [obind] in H; try discriminate.
    destruct (eval_compare op left right) as [res|] eqn:Ec; cbn [obind] in H; try discriminate.
    pose proof (fold_defined_proof r right Er) as Hr.
    destruct (eval_compare_do_cmp m op left right res Hl Hr Ec) as [b [-> Hd]].
    cbn [cmp_chain] in He.
    destruct (eval c fuel esc s r) as [[y s2]| | |] eqn:Ey; try discriminate. cbn [bind] in He.
    destruct (Hop (op, r) (or_introl eq_refl) right Er _ _ _ Ey) as [-> ->].
    rewrite Hd in He. cbn [bind] in He. cbn [truthy] in H.
    destruct l' as [|p2 l''].
    + inversion He; subst. destruct b; cbn in H; inversion H; auto.
    + destruct b.
      * apply (IH (fun p Hp => Hop p (or_intror Hp)) right v0 Hr H _ _ _ He).
      * inversion H; inversion He; subst; auto.
Qed.

Lemma fold_inv_all : forall fuel e, fold_inv fuel e.
Proof.
  induction fuel as [|fuel IH]; intros e v0 H s v s' He; [discriminate|].
  destruct e; unfold as_const in H; cbn [as_const_gen] in H; fold as_const in H; try discriminate.
  - (* EConst *) rewrite eval_const in He. inversion H; inversion He; subst; auto.
  - (* EList *)
    destruct (const_values items) as [vs|] eqn:E; cbn [omap] in H; try discriminate. inversion H; subst.
    cbn [eval] in He.
    destruct (map_eval (eval c fuel esc) s items) as [[ws s1]| | |] eqn:Em; try discriminate.
    cbn [bind] in He. inversion He; subst.
    destruct (const_values_inv fuel items vs E _ _ _ Em) as [-> ->]. auto.
  - (* EMap *)
    destruct (const_pairs pairs) as [kvs|] eqn:E; cbn [omap] in H; try discriminate. inversion H; subst.
    cbn [eval] in He.
    destruct (map_eval_pairs (eval c fuel esc) s pairs) as [[ws s1]| | |] eqn:Em; try discriminate.
    cbn [bind] in He. inversion He; subst.
    destruct (const_pairs_inv fuel pairs kvs E _ _ _ Em) as [-> ->]. auto.
  - (* ENeg *)
    destruct (as_const e) as [x|] eqn:E; cbn [obind] in H; try discriminate.
    cbn [eval] in He. destruct (eval c fuel esc s e) as [[x' s1]| | |] eqn:Ee; try discriminate.
    cbn [bind] in He. destruct (IH e x E _ _ _ Ee) as [-> ->].
    destruct x; cbn in H; try discriminate. inversion H; inversion He; subst; auto.
  - (* ENot *)
    destruct (as_const e) as [x|] eqn:E; cbn [omap] in H; try discriminate. inversion H; subst.
    cbn [eval] in He. destruct (eval c fuel esc s e) as [[x' s1]| | |] eqn:Ee; try discriminate.
    cbn [bind] in He. destruct (IH e x E _ _ _ Ee) as [-> ->].
    destruct (u_is_true (c_mode c) x) as [b| | |] eqn:Eb; try discriminate. cbn [bind] in He.
    apply u_is_true_ok in Eb. subst. inversion He; auto.
  - (* EBin *)
    destruct (as_const e1) as [x|] eqn:E1; try discriminate.
    destruct (as_const e2) as [y|] eqn:E2; try discriminate.
    apply ok_of_some in H.
    cbn [eval] in He. destruct (eval c fuel esc s e1) as [[x' s1]| | |] eqn:Ee1; try discriminate.
    cbn [bind] in He. destruct (IH e1 x E1 _ _ _ Ee1) as [-> ->].
    destruct (eval c fuel esc s e2) as [[y' s2]| | |] eqn:Ee2; try discriminate.
    cbn [bind] in He. destruct (IH e2 y E2 _ _ _ Ee2) as [-> ->].
    match type of He with bind ?g _ = _ => destruct g as [[]| | |]; try discriminate end.
    cbn [bind] in He. rewrite H in He. cbn [bind] in He. inversion He; auto.
  - (* ECmp *)
    cbn [eval] in He. destruct (eval c fuel esc s e) as [[x' s1]| | |] eqn:Ee; try discriminate.
    cbn [bind] in He.
    destruct rest as [|[op b] rest'].
    + destruct (as_const e) as [x|] eqn:E; cbn [obind fold_chain] in H; try discriminate.
      destruct (IH e x E _ _ _ Ee) as [-> ->]. cbn in He. inversion H; inversion He; subst; auto.
    + destruct rest' as [|p2 rest''].
      * assert (Hshape : exists x y, as_const e = Some x /\ as_const b = Some y /\
                  (match op with
                   | CNotIn => omap (fun v => VBool (negb (truthy v))) (eval_compare CIn x y)
                   | _ => eval_compare op x y end) = Some v0).
        { destruct op; destruct (as_const e) as [x|]; try discriminate;
            destruct (as_const b) as [y|]; try discriminate; exists x, y; repeat split; exact H. }
        destruct Hshape as [x [y [E1 [E2 Hv]]]].
        destruct (IH e x E1 _ _ _ Ee) as [-> ->].
        cbn [cmp_chain] in He.
        destruct (eval c fuel esc s b) as [[y' s2]| | |] eqn:Eb; try discriminate. cbn [bind] in He.
        destruct (IH b y E2 _ _ _ Eb) as [-> ->].
        pose proof (fold_defined_proof e x E1) as Hx. pose proof (fold_defined_proof b y E2) as Hy.
        assert (Hr : exists r, v0 = VBool r /\ do_cmp m op x y = Ok r).
        { destruct op; try solve [eapply eval_compare_do_cmp; eassumption].
          destruct (eval_compare CIn x y) as [w|] eqn:Ew; cbn [omap] in Hv; try discriminate.
          destruct (eval_compare_do_cmp m CIn x y w Hx Hy Ew) as [r [-> Hd']].
          inversion Hv. exists (negb r). split; [reflexivity|].
          unfold do_cmp in *. rewrite (u_not_undef_defined m y Hy), (u_not_undef_defined m x Hx) in *.
          cbn [bind] in *. destruct (contains y x); cbn [bind] in *; try discriminate. inversion Hd'. reflexivity. }
        destruct Hr as [r [-> Hd']]. fold m in He. rewrite Hd' in He. cbn [bind] in He. inversion He; auto.
      * assert (Hshape : exists x, as_const e = Some x /\ fold_chain as_const x ((op, b) :: p2 :: rest'') = Some v0).
        { destruct op; destruct (as_const e) as [x|]; try discriminate; exists x; (split; [reflexivity|exact H]). }
        destruct Hshape as [x [E1 Hc]].
        destruct (IH e x E1 _ _ _ Ee) as [-> ->].
        pose proof (fold_defined_proof e x E1) as Hx.
        eapply fold_chain_inv; [| exact Hx | exact Hc | exact He].
        intros p _. apply IH.
  - (* EAnd *)
    destruct (as_const e1) as [x|] eqn:E1; try discriminate.
    destruct (as_const e2) as [y|] eqn:E2; try discriminate. inversion H; subst.
    cbn [eval] in He. destruct (eval c fuel esc s e1) as [[x' s1]| | |] eqn:Ee1; try discriminate.
    cbn [bind] in He. destruct (IH e1 x E1 _ _ _ Ee1) as [-> ->].
    destruct (u_is_true (c_mode c) x) as [t| | |] eqn:Et; try discriminate. cbn [bind] in He.
    apply u_is_true_ok in Et. subst. unfold fold_and.
    destruct (truthy x).
    + apply (IH e2 y E2 _ _ _ He).
    + inversion He; auto.
  - (* EOr *)
    destruct (as_const e1) as [x|] eqn:E1; try discriminate.
    destruct (as_const e2) as [y|] eqn:E2; try discriminate. inversion H; subst.
    cbn [eval] in He. destruct (eval c fuel esc s e1) as [[x' s1]| | |] eqn:Ee1; try discriminate.
    cbn [bind] in He. destruct (IH e1 x E1 _ _ _ Ee1) as [-> ->].
    destruct (u_is_true (c_mode c) x) as [t| | |] eqn:Et; try discriminate. cbn [bind] in He.
    apply u_is_true_ok in Et. subst. unfold fold_or.
    destruct (truthy x).
    + inversion He; auto.
    + apply (IH e2 y E2 _ _ _ He).
Qed.
End FoldEval.

Lemma code_at_app_l C pc a b : code_at C pc (a ++ b) -> code_at C pc a.
Proof. intros (pre & post & -> & <-). exists pre, (b ++ post). now rewrite <- app_assoc. Qed.
Lemma code_at_app_r C pc a b : code_at C pc (a ++ b) -> code_at C (pc + length a) b.
Proof. intros (pre & post & -> & <-). exists (pre ++ a), post. rewrite app_length. split; auto. now rewrite <- !app_assoc. Qed.
Lemma code_at_head C pc i r : code_at C pc (i :: r) -> nth_error C pc = Some i.
Proof. intros (pre & post & -> & <-). rewrite nth_error_app2 by lia. now rewrite Nat.sub_diag. Qed.
Lemma code_at_tail C pc i r : code_at C pc (i :: r) -> code_at C (S pc) r.
Proof. intros H. change (i :: r) with ([i] ++ r) in H. apply code_at_app_r in H. cbn in H. now rewrite Nat.add_1_r in H. Qed.
Lemma code_at_pc C pc pc' code : code_at C pc code -> pc = pc' -> code_at C pc' code.
Proof. intros H <-. exact H. Qed.

Lemma pop_n_rev vs : forall stk acc, pop_n (length vs) (rev vs ++ stk) acc = Some (vs ++ acc, stk).
Proof.
  induction vs as [|v vs IH] using rev_ind; intros stk acc.
  - reflexivity.
  - rewrite rev_app_distr, app_length. cbn [rev length app]. rewrite Nat.add_1_r. cbn [pop_n].
    rewrite IH. now rewrite <- app_assoc.
Qed.


Section StarO.
Variable c : cfg.
Variable C : list instr.
Notation star := (starO c C).

Lemma star_trans a b d : star a b -> star b d -> star a d.
Proof. induction 1; auto; intros; [econstructor; eauto|apply starO_ovf; assumption]. Qed.
Lemma star_one a b : step c C a = Ok b -> star a b.
Proof. intros; econstructor; eauto; constructor. Qed.
Lemma star_eq a b b' : star a b -> b = b' -> star a b'.
Proof. intros H <-. exact H. Qed.

Lemma step_at pc stk s esc escs caps its calls i :
  nth_error C pc = Some i ->
  step c C (mkVm pc stk s esc escs caps its calls) = exec_instr c C i (mkVm pc stk s esc escs caps its calls).
Proof. intros H. unfold step. cbn [v_pc]. now rewrite H. Qed.

(* what [starO] means in terms of plain steps *)
Lemma starO_inv a b : star a b -> L2.Simulation.star c C a b \/ (exists o, L2.Simulation.star c C a o /\ overflow C o).
Proof.
  induction 1 as [σ|σ1 σ2 σ3 Hs _ IH|σ σ' Ho].
  - left. constructor.
  - destruct IH as [IH|(o & S & O)]; [left; econstructor; eauto|right; exists o; split; [econstructor; eauto|exact O]].
  - right. exists σ. split; [constructor|exact Ho].
Qed.

Lemma overflow_step σ : overflow C σ -> step c C σ = Err E_InvalidOperation.
Proof.
  intros [Hn (k & r & Hs & Hk)]. unfold step. rewrite Hn. cbn [exec_instr]. rewrite Hs. cbn [bind do_bin].
  assert (Hf : in_i128b (k + 1) = false).
  { unfold in_i128b, in_i128. apply andb_false_intro2. apply Z.leb_gt. lia. }
  rewrite Hf. reflexivity.
Qed.
End StarO.
