(* C03, bytecode level, the failing direction (1): an evaluation error of the interpreter is the same error of
   the VM - expressions and macro calls, one fuel level up, given the statements of the level below
   (L2ErrStmt.v closes the induction).  A folded constant never fails at run time. *)
From MJ Require Import Common.Base Lang.Syntax Lang.Meta Lang.Interp.
From MJ Require Import C04.Model C04.Spec C04.Proofs C03.Proofs.
From MJ Require Import L2.Instr L2.Compile L2.Vm L2.Simulation.
From MJ Require Import C03.L2Pos C03.L2Base C03.L2Inv C03.L2Hdl C03.L2Expr C03.L2Stmt C03.L2Wf C03.L2Proofs.
Local Open Scope nat_scope.

(* ---- a folded constant never fails at run time, whatever the fuel ---- *)
Section FoldNoErr.
Variable c : cfg.
Variable esc : bool.
Let m := c_mode c.

Definition fold_noerr (fuel : nat) (e : expr) : Prop :=
  forall v0, as_const e = Some v0 -> forall s k, eval c fuel esc s e = Err k -> False.

Lemma const_values_noerr fuel items vs : const_values items = Some vs ->
  forall s k, map_eval (eval c fuel esc) s items = Err k -> False.
Proof.
  revert vs. induction items as [|x r IH]; intros vs H s k He; cbn [map_eval] in He; [discriminate|].
  fold (map_eval (eval c fuel esc)) in He.
  destruct x; try discriminate. cbn [const_values] in H.
  destruct (const_values r) as [vr|] eqn:E; try discriminate.
  destruct fuel as [|fuel']; [discriminate|]. rewrite eval_const in He. cbn [bind] in He.
  destruct (map_eval (eval c (S fuel') esc) s r) as [[ws s1]| | |] eqn:Er; try discriminate.
  inversion He; subst. eapply IH; eauto.
Qed.

Lemma const_pairs_noerr fuel pairs kvs : const_pairs pairs = Some kvs ->
  forall s k, map_eval_pairs (eval c fuel esc) s pairs = Err k -> False.
Proof.
  revert kvs. induction pairs as [|[k0 x] r IH]; intros kvs H s k He; cbn [map_eval_pairs] in He; [discriminate|].
  fold (map_eval_pairs (eval c fuel esc)) in He.
  cbn [const_pairs] in H. destruct k0; try discriminate. destruct x; try discriminate.
  destruct (const_pairs r) as [vr|] eqn:E; try discriminate.
  destruct fuel as [|fuel']; [discriminate|]. rewrite !eval_const in He. cbn [bind] in He. rewrite eval_const in He. cbn [bind] in He.
  destruct (map_eval_pairs (eval c (S fuel') esc) s r) as [[ws s1]| | |] eqn:Er; try discriminate.
  inversion He; subst. eapply IH; eauto.
Qed.

Lemma fold_chain_noerr fuel rest :
  (forall p, In p rest -> fold_noerr fuel (snd p)) ->
  forall left v0, is_undef left = false -> fold_chain as_const left rest = Some v0 ->
  forall s k, cmp_chain m (eval c fuel esc) left s rest = Err k -> False.
Proof.
  induction rest as [|[op r] l' IH]; intros Hop left v0 Hl H s k He; [discriminate|].
  cbn [fold_chain] in H.
  destruct (as_const r) as [right|] eqn:Er; cbn [obind] in H; try discriminate.
  destruct (eval_compare op left right) as [res|] eqn:Ec; cbn [obind] in H; try discriminate.
  pose proof (fold_defined_proof r right Er) as Hr.
  destruct (eval_compare_do_cmp m op left right res Hl Hr Ec) as [b [-> Hd]].
  cbn [cmp_chain] in He.
  destruct (eval c fuel esc s r) as [[y s2]| | |] eqn:Ey; cbn [bind] in He; try discriminate.
  - destruct (fold_inv_all c esc fuel r right Er _ _ _ Ey) as [-> ->].
    rewrite Hd in He. cbn [bind] in He. cbn [truthy] in H.
    destruct l' as [|p2 l'']; [discriminate|]. destruct b; [|discriminate].
    eapply (IH (fun p Hp => Hop p (or_intror Hp)) right v0 Hr H); eauto.
  - inversion He; subst. eapply (Hop (op, r) (or_introl eq_refl)); eauto.
Qed.

Lemma fold_noerr_all : forall fuel e, fold_noerr fuel e.
Proof.
  induction fuel as [|fuel IH]; intros e v0 H s k He; [discriminate|].
  assert (INV : forall a x, as_const a = Some x -> forall s0 v1 s1, eval c fuel esc s0 a = Ok (v1, s1) -> v1 = x /\ s1 = s0)
    by (intros; eapply fold_inv_all; eauto).
  destruct e; unfold as_const in H; cbn [as_const_gen] in H; fold as_const in H; try discriminate.
  - rewrite eval_const in He. discriminate.
  - destruct (const_values items) as [vs|] eqn:E; cbn [omap] in H; try discriminate.
    cbn [eval] in He. destruct (map_eval (eval c fuel esc) s items) as [[ws s1]| | |] eqn:Em; try discriminate.
    inversion He; subst. eapply const_values_noerr; eauto.
  - destruct (const_pairs pairs) as [kvs|] eqn:E; cbn [omap] in H; try discriminate.
    cbn [eval] in He. destruct (map_eval_pairs (eval c fuel esc) s pairs) as [[ws s1]| | |] eqn:Em; try discriminate.
    inversion He; subst. eapply const_pairs_noerr; eauto.
  - destruct (as_const e) as [x|] eqn:E; cbn [obind] in H; try discriminate.
    cbn [eval] in He. destruct (eval c fuel esc s e) as [[x' s1]| | |] eqn:Ee; cbn [bind] in He; try discriminate.
    + destruct (INV e x E _ _ _ Ee) as [-> ->]. destruct x; cbn in H; try discriminate.
    + inversion He; subst. eapply IH; eauto.
  - destruct (as_const e) as [x|] eqn:E; cbn [omap] in H; try discriminate.
    cbn [eval] in He. destruct (eval c fuel esc s e) as [[x' s1]| | |] eqn:Ee; cbn [bind] in He; try discriminate.
    + destruct (INV e x E _ _ _ Ee) as [-> ->].
      rewrite (u_is_true_defined (c_mode c) x (fold_defined_proof e x E)) in He. discriminate.
    + inversion He; subst. eapply IH; eauto.
  - destruct (as_const e1) as [x|] eqn:E1; try discriminate.
    destruct (as_const e2) as [y|] eqn:E2; try discriminate.
    apply ok_of_some in H.
    cbn [eval] in He. destruct (eval c fuel esc s e1) as [[x' s1]| | |] eqn:Ee1; cbn [bind] in He; try discriminate;
      [|inversion He; subst; exact (IH e1 x E1 _ _ Ee1)].
    destruct (INV e1 x E1 _ _ _ Ee1) as [-> ->].
    destruct (eval c fuel esc s e2) as [[y' s2]| | |] eqn:Ee2; cbn [bind] in He; try discriminate;
      [|inversion He; subst; exact (IH e2 y E2 _ _ Ee2)].
    destruct (INV e2 y E2 _ _ _ Ee2) as [-> ->].
    rewrite (u_not_undef_defined (c_mode c) x (fold_defined_proof e1 x E1)), (u_not_undef_defined (c_mode c) y (fold_defined_proof e2 y E2)) in He.
    assert (Hg : match op with OConcat => bind (Ok tt) (fun _ : unit => Ok tt) | _ => Ok tt end = (Ok tt : outcome unit)) by (destruct op; reflexivity).
    rewrite Hg in He. cbn [bind] in He. rewrite H in He. cbn [bind] in He. discriminate.
  - (* ECmp *)
    cbn [eval] in He. destruct (eval c fuel esc s e) as [[x' s1]| | |] eqn:Ee; cbn [bind] in He; try discriminate.
    + destruct rest as [|[op b] rest'].
      * cbn in He. discriminate.
      * destruct rest' as [|p2 rest''].
        -- assert (Hshape : exists x y, as_const e = Some x /\ as_const b = Some y /\
                    (match op with
                     | CNotIn => omap (fun v => VBool (negb (truthy v))) (eval_compare CIn x y)
                     | _ => eval_compare op x y end) = Some v0).
           { destruct op; destruct (as_const e) as [x|]; try discriminate;
               destruct (as_const b) as [y|]; try discriminate; exists x, y; repeat split; exact H. }
           destruct Hshape as [x [y [E1 [E2 Hv]]]].
           destruct (INV e x E1 _ _ _ Ee) as [-> ->].
           cbn [cmp_chain] in He.
           destruct (eval c fuel esc s b) as [[y' s2]| | |] eqn:Eb; cbn [bind] in He; try discriminate;
             [|inversion He; subst; exact (IH b y E2 _ _ Eb)].
           destruct (INV b y E2 _ _ _ Eb) as [-> ->].
           pose proof (fold_defined_proof e x E1) as Hx. pose proof (fold_defined_proof b y E2) as Hy.
           assert (Hr : exists r, do_cmp (c_mode c) op x y = Ok r).
           { destruct op; try solve [edestruct (eval_compare_do_cmp (c_mode c)) as [r [_ Hd]]; [exact Hx|exact Hy|eassumption|]; eauto].
             destruct (eval_compare CIn x y) as [w|] eqn:Ew; cbn [omap] in Hv; try discriminate.
             destruct (eval_compare_do_cmp (c_mode c) CIn x y w Hx Hy Ew) as [r [-> Hd']].
             exists (negb r). unfold do_cmp in *. rewrite (u_not_undef_defined _ y Hy), (u_not_undef_defined _ x Hx) in *.
             cbn [bind] in *. destruct (contains y x); cbn [bind] in *; try discriminate; try congruence; try reflexivity. }
           destruct Hr as [r Hd']. rewrite Hd' in He. discriminate.
        -- assert (Hshape : exists x, as_const e = Some x /\ fold_chain as_const x ((op, b) :: p2 :: rest'') = Some v0).
           { destruct op; destruct (as_const e) as [x|]; try discriminate; exists x; (split; [reflexivity|exact H]). }
           destruct Hshape as [x [E1 Hc]].
           destruct (INV e x E1 _ _ _ Ee) as [-> ->].
           eapply (fold_chain_noerr fuel _ (fun p _ => IH (snd p)) x v0 (fold_defined_proof e x E1) Hc); eauto.
    + inversion He; subst.
      assert (Hx : exists x, as_const e = Some x).
      { destruct rest as [|[op b] [|p2 r2]]; try (destruct op); destruct (as_const e); try discriminate; eauto. }
      destruct Hx as [x Ex]. eapply (IH e); eauto.
  - destruct (as_const e1) as [x|] eqn:E1; try discriminate.
    destruct (as_const e2) as [y|] eqn:E2; try discriminate.
    cbn [eval] in He. destruct (eval c fuel esc s e1) as [[x' s1]| | |] eqn:Ee1; cbn [bind] in He; try discriminate;
      [|inversion He; subst; exact (IH e1 x E1 _ _ Ee1)].
    destruct (INV e1 x E1 _ _ _ Ee1) as [-> ->].
    rewrite (u_is_true_defined (c_mode c) x (fold_defined_proof e1 x E1)) in He. cbn [bind] in He.
    destruct (truthy x); [eapply (IH e2); eauto|discriminate].
  - destruct (as_const e1) as [x|] eqn:E1; try discriminate.
    destruct (as_const e2) as [y|] eqn:E2; try discriminate.
    cbn [eval] in He. destruct (eval c fuel esc s e1) as [[x' s1]| | |] eqn:Ee1; cbn [bind] in He; try discriminate;
      [|inversion He; subst; exact (IH e1 x E1 _ _ Ee1)].
    destruct (INV e1 x E1 _ _ _ Ee1) as [-> ->].
    rewrite (u_is_true_defined (c_mode c) x (fold_defined_proof e1 x E1)) in He. cbn [bind] in He.
    destruct (truthy x); [discriminate|eapply (IH e2); eauto].
Qed.
End FoldNoErr.

Section ErrAll.
Variable c : cfg.
Variable C : list instr.
Hypothesis Hcfg : cfg_ok C c.
Hypothesis Hwf : wf_code C.

Notation star := (starO c C).
Notation star_step := (starO_step c C).
Notation star_trans := (C03.L2Base.star_trans c C).
Notation star_one := (C03.L2Base.star_one c C).
Notation star_eq := (C03.L2Base.star_eq c C).
Notation step_at := (C03.L2Base.step_at c C).
Notation Inv := (L2.Simulation.Inv C).
Notation vok := (L2.Simulation.vok C).
Notation kvok := (L2.Simulation.kvok C).
Notation errs := (L2.Simulation.errs c C).

Notation seq_sim := (C03.L2Expr.seq_sim c C).
Notation kw_dyn_sim := (C03.L2Expr.kw_dyn_sim c C).
Notation static_kw_eval := (C03.L2Expr.static_kw_eval c).
Notation split_kwargs_plain := (C03.L2Expr.split_kwargs_plain C).
Notation chain_sim := (C03.L2Expr.chain_sim c C).
Notation emit_compare_sim := (C03.L2Expr.emit_compare_sim c C).
Notation args_sim := (C03.L2Expr.args_sim c C).

Lemma errs_trans a b k : star a b -> errs b k -> errs a k.
Proof. intros S (σ' & S' & H). exists σ'. split; [eapply star_trans; eauto|exact H]. Qed.
Lemma errs_here σ k : step c C σ = Err k -> errs σ k.
Proof. intros H. exists σ. split; [constructor|left; exact H]. Qed.

Ltac at_instr H := rewrite (step_at _ _ _ _ _ _ _ _ _ (code_at_head _ _ _ _ H)); cbn [exec_instr v_stk v_st v_esc].
Ltac vmsimp := cbn [bind next goto v_pc v_stk v_st v_esc v_escs v_caps v_iters v_calls].

(* an evaluation error is a VM error of the same kind: all expressions *)
Definition err_expr (fuel : nat) : Prop :=
  forall esc e, l2_expr e = true -> forall s k, eval c fuel esc s e = Err k -> Inv s ->
  forall base stk escs caps its calls, code_at C base (compile_expr e base) ->
  errs (mkVm base stk s esc escs caps its calls) k.

(* a failing macro call: either the call instruction itself fails (argument binding), or the macro's code does *)
Definition err_call (fuel : nat) : Prop :=
  forall esc s mc cl args kw k, call_macro c fuel esc s mc cl args kw = Err k ->
  Inv s -> mok C mc -> Forall vok args -> kvok kw ->
  forall pc X s0 r escs caps its calls,
    call_macro_vm C (mkVm pc X s0 esc escs caps its calls) s r mc cl args kw = Err k \/
    (exists σ1, call_macro_vm C (mkVm pc X s0 esc escs caps its calls) s r mc cl args kw = Ok σ1 /\ errs σ1 k).

Definition err_list (fuel : nat) : Prop :=
  forall inl l, forallb (l2_stmt inl) l = true ->
  forall esc s k, exec_list c fuel esc s l = Err k -> Inv s ->
  forall base lc stk escs caps its calls, code_at C base (compile_stmts l base lc) ->
  (inl = true -> lc <> None) -> lc_fits lc (length (s_env s)) (length escs) (length caps) ->
  errs (mkVm base stk s esc escs caps its calls) k.

Definition err_stmt (fuel : nat) : Prop :=
  forall inl t, l2_stmt inl t = true ->
  forall esc s k, exec c fuel esc s t = Err k -> Inv s ->
  forall base lc stk escs caps its calls, code_at C base (compile_stmt t base lc) ->
  (inl = true -> lc <> None) -> lc_fits lc (length (s_env s)) (length escs) (length caps) ->
  errs (mkVm base stk s esc escs caps its calls) k.

(* a list of expressions: the first failing one fails the VM *)
Lemma seq_err fuel esc items : eval_inv c C fuel ->
  (forall e, l2_expr e = true -> sim_expr c C fuel esc e) -> err_expr fuel ->
  forallb l2_expr items = true ->
  forall s k, map_eval (eval c fuel esc) s items = Err k -> Inv s ->
  forall base stk escs caps its calls, code_at C base (seq_code compile_expr items base) ->
  errs (mkVm base stk s esc escs caps its calls) k.
Proof.
  intros EV SE IH. induction items as [|x r IHr]; intros Hw s k He Hi base stk escs caps its calls Hc; [discriminate|].
  cbn [forallb] in Hw. apply andb_prop in Hw as [Hx Hr].
  cbn [map_eval] in He. fold (map_eval (eval c fuel esc)) in He.
  cbn [seq_code] in Hc. fold (@seq_code expr compile_expr) in Hc.
  destruct (eval c fuel esc s x) as [[v s1]| | |] eqn:Ex; cbn [bind] in He; try discriminate.
  - destruct (map_eval (eval c fuel esc) s1 r) as [[vr s2]| | |] eqn:Er; cbn [bind] in He; try discriminate.
    inversion He; subst. destruct (EV esc x Hx _ _ _ Hi Ex) as [_ I1].
    eapply errs_trans. { eapply (SE x Hx _ _ _ Ex Hi). eapply code_at_app_l; eauto. }
    eapply (IHr Hr _ _ Er I1). eapply code_at_app_r; eauto.
  - inversion He; subst. eapply (IH esc x Hx _ _ Ex Hi). eapply code_at_app_l; eauto.
Qed.

(* the pairs of a map literal: the first failing key or value fails the VM *)
Lemma pairs_err fuel esc pairs : eval_inv c C fuel ->
  (forall e, l2_expr e = true -> sim_expr c C fuel esc e) -> err_expr fuel ->
  forallb (fun p => l2_expr (fst p) && l2_expr (snd p)) pairs = true ->
  forall s k, map_eval_pairs (eval c fuel esc) s pairs = Err k -> Inv s ->
  forall base stk escs caps its calls, code_at C base (pairs_code compile_expr pairs base) ->
  errs (mkVm base stk s esc escs caps its calls) k.
Proof.
  intros EV SE IH. induction pairs as [|[k0 x] r IHr]; intros Hw s k He Hi base stk escs caps its calls Hc; [discriminate|].
  cbn [forallb fst snd] in Hw. apply andb_prop in Hw as [Hkx Hr]. apply andb_prop in Hkx as [Hk Hx].
  cbn [map_eval_pairs] in He. fold (map_eval_pairs (eval c fuel esc)) in He.
  cbn [pairs_code] in Hc. fold (pairs_code compile_expr) in Hc.
  destruct (eval c fuel esc s k0) as [[kv s1]| | |] eqn:Ek; cbn [bind] in He; try discriminate.
  2: { inversion He; subst. eapply (IH esc k0 Hk _ _ Ek Hi). eapply code_at_app_l; eauto. }
  destruct (EV esc k0 Hk _ _ _ Hi Ek) as [_ I1].
  eapply errs_trans. { eapply (SE k0 Hk _ _ _ Ek Hi). eapply code_at_app_l; eauto. }
  apply code_at_app_r in Hc.
  destruct (eval c fuel esc s1 x) as [[xv s2]| | |] eqn:Ex; cbn [bind] in He; try discriminate.
  2: { inversion He; subst. eapply (IH esc x Hx _ _ Ex I1). eapply code_at_app_l; eauto. }
  destruct (EV esc x Hx _ _ _ I1 Ex) as [_ I2].
  eapply errs_trans. { eapply (SE x Hx _ _ _ Ex I1). eapply code_at_app_l; eauto. }
  apply code_at_app_r in Hc.
  destruct (map_eval_pairs (eval c fuel esc) s2 r) as [[vr s3]| | |] eqn:Er; cbn [bind] in He; try discriminate.
  inversion He; subst. eapply (IHr Hr _ _ Er I2).
  eapply code_at_pc; [exact Hc|]. lia.
Qed.

Lemma chain_err fuel esc rest : eval_inv c C fuel ->
  (forall e, l2_expr e = true -> sim_expr c C fuel esc e) -> err_expr fuel ->
  forallb (fun p => l2_expr (snd p)) rest = true -> rest <> [] ->
  forall left s k, cmp_chain (c_mode c) (eval c fuel esc) left s rest = Err k -> Inv s ->
  forall pc cleanup stk escs caps its calls,
    code_at C pc (chain_code compile_expr rest pc cleanup) ->
    errs (mkVm pc (left :: stk) s esc escs caps its calls) k.
Proof.
  intros EV SE IH. induction rest as [|[op r] l' IHr]; intros Hw Hne left s k He Hi pc cleanup stk escs caps its calls Hc; [congruence|].
  cbn [forallb snd] in Hw. apply andb_prop in Hw as [Hr Hl'].
  cbn [cmp_chain] in He. fold (cmp_chain (c_mode c) (eval c fuel esc)) in He.
  cbn [chain_code] in Hc. fold (chain_code compile_expr) in Hc.
  destruct (eval c fuel esc s r) as [[y s2]| | |] eqn:Ey; cbn [bind] in He; try discriminate.
  - destruct (EV esc r Hr _ _ _ Hi Ey) as [_ I2].
    assert (S1 : forall X, code_at C pc (compile_expr r pc ++ X) ->
              star (mkVm pc (left :: stk) s esc escs caps its calls) (mkVm (pc + length (compile_expr r pc)) (y :: left :: stk) s2 esc escs caps its calls)).
    { intros X HX. eapply (SE r Hr _ _ _ Ey Hi). eapply code_at_app_l; eauto. }
    destruct (do_cmp (c_mode c) op left y) as [b| | |] eqn:Ed; cbn [bind] in He; try discriminate.
    + destruct l' as [|p2 l'']; [discriminate|]. destruct b; [|discriminate].
      pose proof (S1 _ Hc) as S1'. apply code_at_app_r in Hc. cbn [app] in Hc.
      eapply errs_trans; [exact S1'|].
      eapply errs_trans. { apply star_one. at_instr Hc. rewrite Ed. reflexivity. }
      cbn [bind next v_pc v_stk v_st v_esc v_escs v_caps v_iters v_calls]. apply code_at_tail in Hc.
      eapply errs_trans. { apply star_one. at_instr Hc. rewrite u_is_true_bool. reflexivity. }
      cbn [bind next v_pc v_stk v_st v_esc v_escs v_caps v_iters v_calls]. apply code_at_tail in Hc.
      replace (S (S (pc + length (compile_expr r pc)))) with (pc + length (compile_expr r pc) + 2) in * by lia.
      eapply (IHr Hl' ltac:(discriminate) _ _ _ He I2). exact Hc.
    + (* the comparison itself fails *)
      inversion He; subst.
      destruct l' as [|p2 l''].
      * pose proof (S1 _ Hc) as S1'. apply code_at_app_r in Hc. eapply errs_trans; [exact S1'|].
        destruct op; cbn [emit_compare] in Hc; try (apply errs_here; at_instr Hc; rewrite Ed; reflexivity).
        rewrite do_cmp_notin in Ed. destruct (do_cmp (c_mode c) CIn left y) as [r0| | |] eqn:E; cbn [bind] in Ed; try discriminate.
        inversion Ed; subst. apply errs_here. at_instr Hc. rewrite E. reflexivity.
      * pose proof (S1 _ Hc) as S1'. apply code_at_app_r in Hc. cbn [app] in Hc. eapply errs_trans; [exact S1'|].
        apply errs_here. at_instr Hc. rewrite Ed. reflexivity.
  - inversion He; subst.
    assert (Hcr : code_at C pc (compile_expr r pc)) by (destruct l'; eapply code_at_app_l; eauto).
    eapply (IH esc r Hr _ _ Ey Hi). exact Hcr.
Qed.


(* keyword arguments: literal ones never fail; the others fail like a list of expressions *)
Lemma static_kw_noerr fuel esc kw : forall kv, static_kwargs kw = Some kv ->
  forall s k, map_eval_kw (eval c fuel esc) s kw = Err k -> False.
Proof.
  induction kw as [|[k0 x] r IH]; intros kv Hs s k He; cbn [static_kwargs map_eval_kw] in *; [discriminate|].
  fold (map_eval_kw (eval c fuel esc)) in He. destruct x; try discriminate.
  destruct (static_kwargs r) as [kr|] eqn:Er; try discriminate.
  destruct fuel as [|fuel']; [discriminate|]. rewrite eval_const in He. cbn [bind] in He.
  destruct (map_eval_kw (eval c (S fuel') esc) s r) as [[vr s2]| | |] eqn:E2; cbn [bind] in He; try discriminate.
  inversion He; subst. eapply IH; eauto.
Qed.

Lemma kw_dyn_err fuel esc kw : eval_inv c C fuel ->
  (forall e, l2_expr e = true -> sim_expr c C fuel esc e) -> err_expr fuel ->
  forallb (fun p => l2_expr (snd p)) kw = true ->
  forall s k, map_eval_kw (eval c fuel esc) s kw = Err k -> Inv s ->
  forall base stk escs caps its calls, code_at C base (kwargs_code compile_expr kw base) ->
  errs (mkVm base stk s esc escs caps its calls) k.
Proof.
  intros EV SE IH. induction kw as [|[k0 x] r IHr]; intros Hw s k He Hi base stk escs caps its calls Hc; [discriminate|].
  cbn [forallb snd] in Hw. apply andb_prop in Hw as [Hx Hr].
  cbn [map_eval_kw] in He. fold (map_eval_kw (eval c fuel esc)) in He.
  cbn [kwargs_code] in Hc. fold (kwargs_code compile_expr) in Hc.
  eapply errs_trans. { apply star_one. at_instr Hc. reflexivity. } vmsimp.
  apply code_at_tail in Hc. replace (S base) with (base + 1) in * by lia.
  destruct (eval c fuel esc s x) as [[v s1]| | |] eqn:Ex; cbn [bind] in He; try discriminate.
  - destruct (map_eval_kw (eval c fuel esc) s1 r) as [[vr s2]| | |] eqn:Er; cbn [bind] in He; try discriminate.
    inversion He; subst. destruct (EV esc x Hx _ _ _ Hi Ex) as [_ I1].
    eapply errs_trans. { eapply (SE x Hx _ _ _ Ex Hi). eapply code_at_app_l; eauto. }
    eapply (IHr Hr _ _ Er I1). eapply code_at_app_r; eauto.
  - inversion He; subst. eapply (IH esc x Hx _ _ Ex Hi). eapply code_at_app_l; eauto.
Qed.

(* the code of a call, and the run up to its CallFunction instruction when all arguments evaluate *)
Definition call_code (f : name) (args : list expr) (kwargs : list (name * expr)) (base : nat) : list instr :=
  let cargs := seq_code compile_expr args base in
  match kwargs with
  | [] => cargs ++ [ICallFunction f (length args)]
  | _ :: _ => match static_kwargs kwargs with
              | Some kv => cargs ++ [ILoadKwargs kv; ICallFunction f (length args + 1)]
              | None => cargs ++ kwargs_code compile_expr kwargs (base + length cargs)
                          ++ [IBuildKwargs (length kwargs); ICallFunction f (length args + 1)]
              end
  end.

Lemma call_prefix fuel esc f args kwargs : eval_inv c C fuel ->
  (forall e, l2_expr e = true -> sim_expr c C fuel esc e) ->
  forallb l2_expr args = true -> forallb (fun p => l2_expr (snd p)) kwargs = true -> nodup_keys (map fst kwargs) = true ->
  forall s vs s1 kvs s2, map_eval (eval c fuel esc) s args = Ok (vs, s1) -> map_eval_kw (eval c fuel esc) s1 kwargs = Ok (kvs, s2) -> Inv s ->
  forall base stk escs caps its calls, code_at C base (call_code f args kwargs base) ->
  exists pcall argc args0,
    nth_error C pcall = Some (ICallFunction f argc) /\ pop_n argc (rev args0 ++ stk) [] = Some (args0, stk) /\
    split_kwargs args0 = (vs, kvs) /\ S pcall = base + length (call_code f args kwargs base) /\
    star (mkVm base stk s esc escs caps its calls) (mkVm pcall (rev args0 ++ stk) s2 esc escs caps its calls).
Proof.
  intros EV IH Hw1 Hw2 Hnd s vs s1 kvs s2 Em Ek Hi base stk escs caps its calls Hc.
  destruct (map_eval_Inv C (eval c fuel esc) (fun e => l2_expr e = true) (EV esc) args (forallb_F _ _ Hw1) _ _ _ Hi Em) as [V1 I1].
  pose proof (map_eval_length _ _ _ _ _ Em) as Hlen.
  unfold call_code in Hc |- *.
  set (cargs := seq_code compile_expr args base) in *.
  set (whole := match kwargs with
                | [] => cargs ++ [ICallFunction f (length args)]
                | _ :: _ => match static_kwargs kwargs with
                            | Some kv => cargs ++ [ILoadKwargs kv; ICallFunction f (length args + 1)]
                            | None => cargs ++ kwargs_code compile_expr kwargs (base + length cargs)
                                        ++ [IBuildKwargs (length kwargs); ICallFunction f (length args + 1)]
                            end
                end) in *.
    { assert (S1 : forall X, code_at C base (cargs ++ X) ->
                star (mkVm base stk s esc escs caps its calls) (mkVm (base + length cargs) (rev vs ++ stk) s1 esc escs caps its calls)).
      { intros X HX. eapply (seq_sim fuel esc args EV IH Hw1 _ _ _ Em Hi). eapply code_at_app_l; eauto. }
      subst whole. destruct kwargs as [|kw0 kwr].
      - cbn in Ek. inversion Ek; subst kvs s2.
        exists (base + length cargs), (length args), vs. repeat split.
        + apply code_at_app_r in Hc. eapply code_at_head; eauto.
        + rewrite <- Hlen. rewrite (pop_n_rev vs stk []). now rewrite app_nil_r.
        + apply split_kwargs_plain, V1.
        + rewrite app_length. cbn [length]. lia.
        + eapply S1; eauto.
      - pose proof (map_eval_kw_keys _ _ _ _ _ Ek) as Hkeys.
        assert (Hnd' : nodup_keys (map fst kvs) = true) by (rewrite Hkeys; exact Hnd).
        assert (Hpop : pop_n (length args + 1) (rev (vs ++ [kwargs_val kvs]) ++ stk) [] = Some (vs ++ [kwargs_val kvs], stk)).
        { rewrite <- Hlen. replace (length vs + 1) with (length (vs ++ [kwargs_val kvs])) by (rewrite app_length; cbn [length]; lia).
          rewrite (pop_n_rev (vs ++ [kwargs_val kvs]) stk []). now rewrite app_nil_r. }
        destruct (static_kwargs (kw0 :: kwr)) as [kv|] eqn:Es.
        + destruct (static_kw_eval fuel esc _ _ Es _ _ _ Ek) as [-> ->].
          pose proof (S1 _ Hc) as S1'. apply code_at_app_r in Hc.
          exists (S (base + length cargs)), (length args + 1), (vs ++ [kwargs_val kv]). repeat split.
          * apply code_at_tail in Hc. eapply code_at_head; eauto.
          * exact Hpop.
          * apply split_kwargs_kw.
          * rewrite app_length. cbn [length]. lia.
          * eapply star_trans; [exact S1'|]. apply star_one.
            rewrite (step_at _ _ _ _ _ _ _ _ _ (code_at_head _ _ _ _ Hc)). cbn [exec_instr v_stk v_st next v_pc v_esc v_escs v_caps v_iters v_calls].
            rewrite (fold_assoc_nil kv Hnd'). rewrite rev_app_distr. cbn [rev app]. reflexivity.
        + pose proof (S1 _ Hc) as S1'. apply code_at_app_r in Hc.
          pose proof (kw_dyn_sim fuel esc (kw0 :: kwr) EV IH Hw2 _ _ _ Ek I1 (base + length cargs) (rev vs ++ stk) escs caps its calls
                        ltac:(eapply code_at_app_l; eauto)) as S2.
          apply code_at_app_r in Hc.
          exists (S (base + length cargs + length (kwargs_code compile_expr (kw0 :: kwr) (base + length cargs)))), (length args + 1), (vs ++ [kwargs_val kvs]).
          repeat split.
          * apply code_at_tail in Hc. eapply code_at_head; eauto.
          * exact Hpop.
          * apply split_kwargs_kw.
          * rewrite !app_length. cbn [length]. lia.
          * eapply star_trans; [exact S1'|]. eapply star_trans; [exact S2|]. apply star_one.
            rewrite (step_at _ _ _ _ _ _ _ _ _ (code_at_head _ _ _ _ Hc)). cbn [exec_instr v_stk v_st].
            assert (Hl2 : 2 * length (kw0 :: kwr) = length (kw_flat kvs)).
            { rewrite kw_flat_length. f_equal. rewrite <- (map_length fst kvs), Hkeys, map_length. reflexivity. }
            rewrite Hl2, (pop_n_rev (kw_flat kvs) (rev vs ++ stk) []), app_nil_r, kw_of_vals_flat, (fold_assoc_nil kvs Hnd').
            cbn [next v_pc v_esc v_escs v_caps v_iters v_calls]. rewrite rev_app_distr. cbn [rev app]. reflexivity. }
Qed.


Lemma call_code_eq f args kwargs base : as_const (ECall f args kwargs) = None ->
  compile_expr (ECall f args kwargs) base = call_code f args kwargs base.
Proof. intros H. cbn [compile_expr]. rewrite H. reflexivity. Qed.

Lemma call_code_args f args kwargs base : exists X, call_code f args kwargs base = seq_code compile_expr args base ++ X.
Proof. unfold call_code. destruct kwargs; [eexists; reflexivity|]. destruct (static_kwargs _); eexists; reflexivity. Qed.

(* ---- expressions, one level up ---- *)
Lemma expr_err_step fuel : err_expr fuel -> err_call fuel -> err_expr (S fuel).
Proof.
  intros IH IHcall esc e Hw s k He Hi base stk escs caps its calls Hc.
  destruct (inv_all c C Hcfg Hwf fuel) as (EV & _).
  destruct (sim_levels c C Hcfg Hwf fuel) as (SE & _).
  destruct (as_const e) as [v0|] eqn:Hf.
  { exfalso. eapply (fold_noerr_all c esc (S fuel) e v0 Hf); eauto. }
  assert (SUB : forall e0 s0 v0 s1 X pc st0, l2_expr e0 = true -> eval c fuel esc s0 e0 = Ok (v0, s1) -> Inv s0 ->
            code_at C pc (compile_expr e0 pc ++ X) ->
            star (mkVm pc st0 s0 esc escs caps its calls) (mkVm (pc + length (compile_expr e0 pc)) (v0 :: st0) s1 esc escs caps its calls)).
  { intros e0 s0 v1 s1 X pc st0 H0 E0 I0 HX. eapply (SE esc e0 H0 _ _ _ E0 I0). eapply code_at_app_l; eauto. }
  destruct e; cbn [compile_expr] in Hc; rewrite Hf in Hc; cbn [eval] in He; cbn [l2_expr] in Hw.
  - destruct l; discriminate.
  - destruct (lookup c s x); discriminate.
  - (* EList *)
    destruct (map_eval (eval c fuel esc) s items) as [[vs s1]| | |] eqn:Em; cbn [bind] in He; try discriminate.
    inversion He; subst. eapply (seq_err fuel esc items EV (SE esc) IH Hw _ _ Em Hi). eapply code_at_app_l; eauto.
  - (* EMap *)
    destruct (map_eval_pairs (eval c fuel esc) s pairs) as [[kvs s1]| | |] eqn:Em; cbn [bind] in He; try discriminate.
    inversion He; subst. eapply (pairs_err fuel esc pairs EV (SE esc) IH Hw _ _ Em Hi). eapply code_at_app_l; eauto.
  - (* ENeg *)
    destruct (eval c fuel esc s e) as [[x s1]| | |] eqn:Ea; cbn [bind] in He; try discriminate.
    + eapply errs_trans; [exact (SUB e _ _ _ _ _ _ Hw Ea Hi Hc)|]. apply code_at_app_r in Hc.
      apply errs_here. at_instr Hc. destruct x; try discriminate; inversion He; reflexivity.
    + inversion He; subst. eapply (IH esc e Hw _ _ Ea Hi). eapply code_at_app_l; eauto.
  - (* ENot *)
    destruct (eval c fuel esc s e) as [[x s1]| | |] eqn:Ea; cbn [bind] in He; try discriminate.
    + eapply errs_trans; [exact (SUB e _ _ _ _ _ _ Hw Ea Hi Hc)|]. apply code_at_app_r in Hc.
      destruct (u_is_true (c_mode c) x) as [b| | |] eqn:Eb; cbn [bind] in He; try discriminate. inversion He; subst.
      apply errs_here. at_instr Hc. rewrite Eb. reflexivity.
    + inversion He; subst. eapply (IH esc e Hw _ _ Ea Hi). eapply code_at_app_l; eauto.
  - (* EBin *)
    apply andb_prop in Hw as [Hw1 Hw2]. 
    destruct (eval c fuel esc s e1) as [[x s1]| | |] eqn:Ea; cbn [bind] in He; try discriminate;
      [|inversion He; subst; eapply (IH esc e1 Hw1 _ _ Ea Hi); eapply code_at_app_l; eauto].
    destruct (EV esc e1 Hw1 _ _ _ Hi Ea) as [_ I1].
    eapply errs_trans; [exact (SUB e1 _ _ _ _ _ _ Hw1 Ea Hi Hc)|]. apply code_at_app_r in Hc.
    destruct (eval c fuel esc s1 e2) as [[y s2]| | |] eqn:Eb; cbn [bind] in He; try discriminate;
      [|inversion He; subst; eapply (IH esc e2 Hw2 _ _ Eb I1); eapply code_at_app_l; eauto].
    eapply errs_trans; [exact (SUB e2 _ _ _ _ _ _ Hw2 Eb I1 Hc)|]. apply code_at_app_r in Hc.
    apply errs_here. at_instr Hc.
    match type of He with bind ?g _ = _ => destruct g as [[]| | |] eqn:G; cbn [bind] in He |- *; try discriminate end.
    + destruct (do_bin op x y) as [r| | |] eqn:Ed; cbn [bind] in He; try discriminate. inversion He; reflexivity.
    + inversion He; reflexivity.
  - (* ECmp *)
    apply andb_prop in Hw as [Hw Hw3]. apply andb_prop in Hw as [Hw1 Hw2]. 
    destruct (eval c fuel esc s e) as [[x s1]| | |] eqn:Ea; cbn [bind] in He; try discriminate;
      [|inversion He; subst; eapply (IH esc e Hw1 _ _ Ea Hi);
        destruct rest as [|[op b] [|p2 r2]]; [exact Hc|eapply code_at_app_l; eauto|eapply code_at_app_l; eauto]].
    destruct (EV esc e Hw1 _ _ _ Hi Ea) as [_ I1].
    destruct rest as [|[op b] rest']; [discriminate|].
    destruct rest' as [|p2 rest''].
    + eapply errs_trans; [exact (SUB e _ _ _ _ _ _ Hw1 Ea Hi Hc)|]. apply code_at_app_r in Hc.
      eapply (chain_err fuel esc [(op, b)] EV (SE esc) IH Hw3 ltac:(discriminate) _ _ _ He I1 _ 0).
      cbn [chain_code]. exact Hc.
    + eapply errs_trans; [exact (SUB e _ _ _ _ _ _ Hw1 Ea Hi Hc)|]. apply code_at_app_r in Hc.
      eapply (chain_err fuel esc _ EV (SE esc) IH Hw3 ltac:(discriminate) _ _ _ He I1).
      eapply code_at_app_l; eauto.
  - (* EAnd *)
    apply andb_prop in Hw as [Hw1 Hw2]. 
    destruct (eval c fuel esc s e1) as [[x s1]| | |] eqn:Ea; cbn [bind] in He; try discriminate;
      [|inversion He; subst; eapply (IH esc e1 Hw1 _ _ Ea Hi); eapply code_at_app_l; eauto].
    destruct (EV esc e1 Hw1 _ _ _ Hi Ea) as [_ I1].
    eapply errs_trans; [exact (SUB e1 _ _ _ _ _ _ Hw1 Ea Hi Hc)|]. apply code_at_app_r in Hc.
    destruct (u_is_true (c_mode c) x) as [t| | |] eqn:Et; cbn [bind] in He; try discriminate.
    + destruct t; [|discriminate].
      eapply errs_trans. { apply star_one. at_instr Hc. rewrite Et. reflexivity. }
      cbn [bind next v_pc v_stk v_st v_esc v_escs v_caps v_iters v_calls]. apply code_at_tail in Hc.
      replace (S (base + length (compile_expr e1 base))) with (base + length (compile_expr e1 base) + 1) in * by lia.
      eapply (IH esc e2 Hw2 _ _ He I1). exact Hc.
    + inversion He; subst. apply errs_here. at_instr Hc. rewrite Et. reflexivity.
  - (* EOr *)
    apply andb_prop in Hw as [Hw1 Hw2]. 
    destruct (eval c fuel esc s e1) as [[x s1]| | |] eqn:Ea; cbn [bind] in He; try discriminate;
      [|inversion He; subst; eapply (IH esc e1 Hw1 _ _ Ea Hi); eapply code_at_app_l; eauto].
    destruct (EV esc e1 Hw1 _ _ _ Hi Ea) as [_ I1].
    eapply errs_trans; [exact (SUB e1 _ _ _ _ _ _ Hw1 Ea Hi Hc)|]. apply code_at_app_r in Hc.
    destruct (u_is_true (c_mode c) x) as [t| | |] eqn:Et; cbn [bind] in He; try discriminate.
    + destruct t; [discriminate|].
      eapply errs_trans. { apply star_one. at_instr Hc. rewrite Et. reflexivity. }
      cbn [bind next v_pc v_stk v_st v_esc v_escs v_caps v_iters v_calls]. apply code_at_tail in Hc.
      replace (S (base + length (compile_expr e1 base))) with (base + length (compile_expr e1 base) + 1) in * by lia.
      eapply (IH esc e2 Hw2 _ _ He I1). exact Hc.
    + inversion He; subst. apply errs_here. at_instr Hc. rewrite Et. reflexivity.
  - (* EIf *)
    apply andb_prop in Hw as [Hw Hw3]. apply andb_prop in Hw as [Hw1 Hw2].
    
    destruct (eval c fuel esc s e1) as [[x s1]| | |] eqn:Ea; cbn [bind] in He; try discriminate;
      [|inversion He; subst; eapply (IH esc e1 Hw1 _ _ Ea Hi); eapply code_at_app_l; eauto].
    destruct (EV esc e1 Hw1 _ _ _ Hi Ea) as [_ I1].
    eapply errs_trans; [exact (SUB e1 _ _ _ _ _ _ Hw1 Ea Hi Hc)|]. apply code_at_app_r in Hc.
    destruct (u_is_true (c_mode c) x) as [t| | |] eqn:Et; cbn [bind] in He; try discriminate;
      [|inversion He; subst; apply errs_here; at_instr Hc; rewrite Et; reflexivity].
    pose proof (code_at_head _ _ _ _ Hc) as Hj. apply code_at_tail in Hc.
    replace (S (base + length (compile_expr e1 base))) with (base + length (compile_expr e1 base) + 1) in * by lia.
    destruct t.
    + eapply errs_trans. { apply star_one. rewrite (step_at _ _ _ _ _ _ _ _ _ Hj). cbn [exec_instr v_stk v_st]. rewrite Et. reflexivity. }
      cbn [bind next v_pc v_stk v_st v_esc v_escs v_caps v_iters v_calls].
      replace (S (base + length (compile_expr e1 base))) with (base + length (compile_expr e1 base) + 1) by lia.
      eapply (IH esc e2 Hw2 _ _ He I1). eapply code_at_app_l. exact Hc.
    + eapply errs_trans. { apply star_one. rewrite (step_at _ _ _ _ _ _ _ _ _ Hj). cbn [exec_instr v_stk v_st]. rewrite Et. reflexivity. }
      cbn [bind goto v_pc v_stk v_st v_esc v_escs v_caps v_iters v_calls].
      destruct f as [f|]; [|discriminate].
      eapply (IH esc f Hw3 _ _ He I1). apply code_at_app_r in Hc. apply code_at_tail in Hc.
      eapply code_at_pc; [exact Hc|lia].
  - (* EItem *)
    apply andb_prop in Hw as [Hw1 Hw2]. 
    destruct (eval c fuel esc s e1) as [[x s1]| | |] eqn:Ea; cbn [bind] in He; try discriminate;
      [|inversion He; subst; eapply (IH esc e1 Hw1 _ _ Ea Hi); eapply code_at_app_l; eauto].
    destruct (EV esc e1 Hw1 _ _ _ Hi Ea) as [_ I1].
    eapply errs_trans; [exact (SUB e1 _ _ _ _ _ _ Hw1 Ea Hi Hc)|]. apply code_at_app_r in Hc.
    destruct (eval c fuel esc s1 e2) as [[y s2]| | |] eqn:Eb; cbn [bind] in He; try discriminate;
      [|inversion He; subst; eapply (IH esc e2 Hw2 _ _ Eb I1); eapply code_at_app_l; eauto].
    eapply errs_trans; [exact (SUB e2 _ _ _ _ _ _ Hw2 Eb I1 Hc)|]. apply code_at_app_r in Hc.
    apply errs_here. at_instr Hc. unfold get_item.
    destruct (get_item_opt x y); [discriminate|].
    destruct (u_handle_undefined (c_mode c) (is_undef x)); cbn [bind] in He |- *; try discriminate. inversion He; reflexivity.
  - (* EAttr *)
    destruct (eval c fuel esc s e) as [[x s1]| | |] eqn:Ea; cbn [bind] in He; try discriminate;
      [|inversion He; subst; eapply (IH esc e Hw _ _ Ea Hi); eapply code_at_app_l; eauto].
    eapply errs_trans; [exact (SUB e _ _ _ _ _ _ Hw Ea Hi Hc)|]. apply code_at_app_r in Hc.
    apply errs_here. at_instr Hc. unfold get_attr.
    destruct (get_attr_opt x a); [discriminate|].
    destruct (u_handle_undefined (c_mode c) (is_undef x)); cbn [bind] in He |- *; try discriminate. inversion He; reflexivity.
  - (* EFilter *)
    apply andb_prop in Hw as [Hw1 Hw2]. 
    destruct (eval c fuel esc s e) as [[x s1]| | |] eqn:Ea; cbn [bind] in He; try discriminate;
      [|inversion He; subst; eapply (IH esc e Hw1 _ _ Ea Hi); eapply code_at_app_l; eauto].
    destruct (EV esc e Hw1 _ _ _ Hi Ea) as [_ I1].
    eapply errs_trans; [exact (SUB e _ _ _ _ _ _ Hw1 Ea Hi Hc)|]. apply code_at_app_r in Hc.
    destruct (map_eval (eval c fuel esc) s1 args) as [[vs s2]| | |] eqn:Em; cbn [bind] in He; try discriminate;
      [|inversion He; subst; eapply (seq_err fuel esc args EV (SE esc) IH Hw2 _ _ Em I1); eapply code_at_app_l; eauto].
    eapply errs_trans. { eapply (seq_sim fuel esc args EV (SE esc) Hw2 _ _ _ Em I1). eapply code_at_app_l; eauto. }
    apply code_at_app_r in Hc. apply errs_here. at_instr Hc.
    rewrite <- (map_eval_length _ _ _ _ _ Em), pop_args.
    destruct (do_filter (c_mode c) esc f x vs); cbn [bind] in He |- *; try discriminate. inversion He; reflexivity.
  - (* ETest *)
    apply andb_prop in Hw as [Hw1 Hw2]. 
    destruct (eval c fuel esc s e) as [[x s1]| | |] eqn:Ea; cbn [bind] in He; try discriminate;
      [|inversion He; subst; eapply (IH esc e Hw1 _ _ Ea Hi); eapply code_at_app_l; eauto].
    destruct (EV esc e Hw1 _ _ _ Hi Ea) as [_ I1].
    eapply errs_trans; [exact (SUB e _ _ _ _ _ _ Hw1 Ea Hi Hc)|]. apply code_at_app_r in Hc.
    destruct (map_eval (eval c fuel esc) s1 args) as [[vs s2]| | |] eqn:Em; cbn [bind] in He; try discriminate;
      [|inversion He; subst; eapply (seq_err fuel esc args EV (SE esc) IH Hw2 _ _ Em I1); eapply code_at_app_l; eauto].
    eapply errs_trans. { eapply (seq_sim fuel esc args EV (SE esc) Hw2 _ _ _ Em I1). eapply code_at_app_l; eauto. }
    apply code_at_app_r in Hc. apply errs_here. at_instr Hc.
    rewrite <- (map_eval_length _ _ _ _ _ Em), pop_args.
    destruct (do_test t x); cbn [bind] in He |- *; try discriminate. inversion He; reflexivity.
  - (* ECall *)
    apply andb_prop in Hw as [Hw Hnd]. apply andb_prop in Hw as [Hw1 Hw2].
    change (code_at C base (call_code f args kwargs base)) in Hc.
    destruct (call_code_args f args kwargs base) as [X HX].
    assert (Hca : code_at C base (seq_code compile_expr args base)) by (rewrite HX in Hc; eapply code_at_app_l; eauto).
    destruct (map_eval (eval c fuel esc) s args) as [[vs s1]| | |] eqn:Em; cbn [bind] in He; try discriminate;
      [|inversion He; subst; exact (seq_err fuel esc args EV (SE esc) IH Hw1 _ _ Em Hi _ _ _ _ _ _ Hca)].
    destruct (map_eval_Inv C (eval c fuel esc) (fun e => l2_expr e = true) (EV esc) args (forallb_F _ _ Hw1) _ _ _ Hi Em) as [V1 I1].
    destruct (map_eval_kw (eval c fuel esc) s1 kwargs) as [[kvs s2]| | |] eqn:Ek; cbn [bind] in He; try discriminate.
    2: { inversion He; subst. destruct kwargs as [|kw0 kwr]; [discriminate|].
         unfold call_code in Hc. destruct (static_kwargs (kw0 :: kwr)) as [kv|] eqn:Es.
         - exfalso. eapply static_kw_noerr; eauto.
         - eapply errs_trans. { eapply (seq_sim fuel esc args EV (SE esc) Hw1 _ _ _ Em Hi). exact Hca. }
           apply code_at_app_r in Hc.
           eapply (kw_dyn_err fuel esc (kw0 :: kwr) EV (SE esc) IH Hw2 _ _ Ek I1). eapply code_at_app_l; eauto. }
    destruct (map_eval_kw_Inv C (eval c fuel esc) (fun e => l2_expr e = true) (EV esc) kwargs (forallb_F _ _ Hw2) _ _ _ I1 Ek) as [V2 I2].
    destruct (lookup c s2 f) as [fv s3] eqn:El.
    destruct (lookup_ok c C Hcfg _ _ _ _ I2 El) as [Vf I3].
    destruct (call_prefix fuel esc f args kwargs EV (SE esc) Hw1 Hw2 Hnd _ _ _ _ _ Em Ek Hi base stk escs caps its calls Hc)
      as (pcall & argc & args0 & Hn & Hpop & Hsp & Hend & S12).
    eapply errs_trans; [exact S12|].
    destruct fv as [[| | | | | | | |mc cl| |g]|];
      try (apply errs_here; rewrite (step_at _ _ _ _ _ _ _ _ _ Hn); cbn [exec_instr v_stk v_st]; rewrite Hpop, Hsp, El; inversion He; reflexivity).
    2: { apply errs_here. rewrite (step_at _ _ _ _ _ _ _ _ _ Hn). cbn [exec_instr v_stk v_st]. rewrite Hpop, Hsp, El.
         destruct (g =? N_range)%Z; [|inversion He; reflexivity].
         destruct vs as [|[| | | |n| | | | | |] [|? ?]]; try (inversion He; reflexivity).
         destruct kvs; [discriminate|inversion He; reflexivity]. }
    destruct (IHcall esc s3 mc cl vs kvs k He I3 Vf V1 V2 pcall (rev args0 ++ stk) s2 stk escs caps its calls) as [Hvm|(σ1 & Hvm & Herr)].
    + apply errs_here. rewrite (step_at _ _ _ _ _ _ _ _ _ Hn). cbn [exec_instr v_stk v_st]. rewrite Hpop, Hsp, El. exact Hvm.
    + eapply errs_trans; [|exact Herr]. apply star_one.
      rewrite (step_at _ _ _ _ _ _ _ _ _ Hn). cbn [exec_instr v_stk v_st]. rewrite Hpop, Hsp, El. exact Hvm.
Qed.


(* ---- macro calls ---- *)
Lemma args_err fuel esc defaults : eval_inv c C fuel ->
  (forall e, l2_expr e = true -> sim_expr c C fuel esc e) -> err_expr fuel ->
  forallb (fun p => l2_expr (snd p)) defaults = true ->
  forall bl s k, store_args (eval c fuel esc) defaults s bl = Err k -> Inv s -> kvok bl ->
  forall pc stk escs caps its calls, code_at C pc (params_code defaults (map fst bl) pc) ->
  errs (mkVm pc (map snd bl ++ stk) s esc escs caps its calls) k.
Proof.
  intros EV SE IH Hd. induction bl as [|[p v] r IHr]; intros s k He Hi Hb pc stk escs caps its calls Hc; [discriminate|].
  cbn [store_args] in He. fold (store_args (eval c fuel esc) defaults) in He.
  inversion Hb as [|? ? Hv Hbr]; subst. cbn [snd] in Hv.
  cbn [map fst snd params_code app] in Hc |- *. fold (params_code defaults) in Hc |- *.
  rewrite default_of_assoc in Hc.
  destruct (assoc p defaults) as [d|] eqn:Ea.
  - assert (Hld : l2_expr d = true).
    { clear -Hd Ea. induction defaults as [|[k0 x] l IHd]; cbn [assoc forallb snd] in *; [discriminate|].
      apply andb_prop in Hd as [H1 H2]. destruct (p =? k0)%Z; [inversion Ea; subst; exact H1|auto]. }
    set (cd := compile_expr d (pc + 4)) in *.
    pose proof (code_at_head _ _ _ _ Hc) as H0. pose proof (code_at_tail _ _ _ _ Hc) as Hc1.
    pose proof (code_at_head _ _ _ _ Hc1) as H1. pose proof (code_at_tail _ _ _ _ Hc1) as Hc2.
    pose proof (code_at_head _ _ _ _ Hc2) as H2. pose proof (code_at_tail _ _ _ _ Hc2) as Hc3.
    pose proof (code_at_head _ _ _ _ Hc3) as H3. pose proof (code_at_tail _ _ _ _ Hc3) as Hc4.
    replace (S (S (S (S pc)))) with (pc + 4) in Hc4 by lia.
    pose proof (code_at_app_l _ _ _ _ Hc4) as Hcd. apply code_at_app_r in Hc4. fold cd in Hc4.
    pose proof (code_at_head _ _ _ _ Hc4) as Hst. apply code_at_tail in Hc4.
    replace (S (pc + 4 + length cd)) with (pc + 4 + length cd + 1) in Hc4 by lia.
    eapply errs_trans. { apply star_one. rewrite (step_at _ _ _ _ _ _ _ _ _ H0). reflexivity. } vmsimp.
    eapply errs_trans. { apply star_one. rewrite (step_at _ _ _ _ _ _ _ _ _ H1). reflexivity. } vmsimp.
    destruct (is_undef v) eqn:Eu.
    + eapply errs_trans. { apply star_one. rewrite (step_at _ _ _ _ _ _ _ _ _ H2). cbn [exec_instr v_stk v_st]. rewrite u_is_true_bool. reflexivity. }
      vmsimp.
      eapply errs_trans. { apply star_one. rewrite (step_at _ _ _ _ _ _ _ _ _ H3). reflexivity. } vmsimp.
      replace (S (S (S (S pc)))) with (pc + 4) by lia.
      destruct (eval c fuel esc s d) as [[dv s1]| | |] eqn:E1; cbn [bind] in He; try discriminate.
      * destruct (EV esc d Hld _ _ _ Hi E1) as [Vd I1].
        eapply errs_trans. { eapply (SE d Hld _ _ _ E1 Hi). exact Hcd. }
        fold cd.
        eapply errs_trans. { apply star_one. rewrite (step_at _ _ _ _ _ _ _ _ _ Hst). reflexivity. } vmsimp.
        replace (S (pc + 4 + length cd)) with (pc + 4 + length cd + 1) by lia.
        eapply (IHr _ _ He); [apply store_Inv; auto|exact Hbr|exact Hc4].
      * inversion He; subst. eapply (IH esc d Hld _ _ E1 Hi). exact Hcd.
    + eapply errs_trans. { apply star_one. rewrite (step_at _ _ _ _ _ _ _ _ _ H2). cbn [exec_instr v_stk v_st]. rewrite u_is_true_bool. reflexivity. }
      vmsimp.
      eapply errs_trans. { apply star_one. rewrite (step_at _ _ _ _ _ _ _ _ _ Hst). reflexivity. } vmsimp.
      replace (S (pc + 4 + length cd)) with (pc + 4 + length cd + 1) by lia.
      eapply (IHr _ _ He); [apply store_Inv; auto|exact Hbr|exact Hc4].
  - assert (He' : store_args (eval c fuel esc) defaults (store s p v) r = Err k) by (destruct (is_undef v); exact He).
    eapply errs_trans. { apply star_one. rewrite (step_at _ _ _ _ _ _ _ _ _ (code_at_head _ _ _ _ Hc)). reflexivity. } vmsimp.
    apply code_at_tail in Hc. replace (S pc) with (pc + 1) in * by lia.
    eapply (IHr _ _ He'); [apply store_Inv; auto|exact Hbr|exact Hc].
Qed.

Lemma call_err_step fuel : err_expr fuel -> err_list fuel -> err_call (S fuel).
Proof.
  intros IHe IHl esc s mc cl args kw k He Hi Hm Ha Hk pc X s0 r escs caps its calls.
  destruct (inv_all c C Hcfg Hwf fuel) as (EV & _ & _ & LV).
  destruct (sim_levels c C Hcfg Hwf fuel) as (SE & _ & _ & SL).
  cbn [call_macro] in He. unfold call_macro_vm. cbn [v_pc v_esc v_escs v_caps v_iters v_calls].
  destruct (Nat.ltb (length (m_params mc)) (length args)); [left; inversion He; reflexivity|].
  destruct (bind_params kw (m_params mc) args) as [bnd| | |] eqn:Eb; cbn [bind] in He |- *; try discriminate;
    [|left; inversion He; reflexivity].
  match type of He with (if ?b then _ else _) = _ => destruct b; [left; inversion He; reflexivity|] end.
  destruct (macro_offset_ok C Hwf mc Hm) as (off & Ho & Hcode). rewrite Ho.
  right. eexists. split; [reflexivity|].
  destruct Hm as (Md & Mb & Mc).
  pose proof (bind_params_ok C kw Hk _ _ _ Ha Eb) as Hbound.
  pose proof (bind_params_fst _ _ _ _ Eb) as Hfst.
  set (caller_v := match assoc N_caller kw with Some v => v | None => VUndef end) in *.
  assert (Vc : vok caller_v) by (unfold caller_v; destruct (assoc N_caller kw) eqn:Ea; [exact (assoc_ok C _ _ _ Hk Ea)|exact I]).
  set (sm0 := mkSt [mkFrame (if m_caller mc then [(N_caller, caller_v)] else []) None None cl false; base_frame] (s_clos s) [] (s_asks s)) in *.
  assert (I0 : Inv sm0).
  { destruct Hi as [_ Hic]. split; cbn [s_env s_clos]; [|exact Hic]. constructor; [|constructor; [constructor|constructor]].
    cbn [f_locals]. destruct (m_caller mc); repeat constructor; exact Vc. }
  assert (Hbr : kvok (rev bnd)) by (apply Forall_rev; exact Hbound).
  unfold mcode in Hcode. set (cp := params_code (m_defaults mc) (rev (m_params mc)) off) in *.
  assert (Hcp : code_at C off (params_code (m_defaults mc) (map fst (rev bnd)) off)).
  { rewrite map_rev, Hfst. eapply code_at_app_l; eauto. }
  match type of He with bind ?x _ = _ => destruct x as [s1|k1| |] eqn:E1; cbn [bind] in He; try discriminate end.
  - change (store_args (eval c fuel esc) (m_defaults mc) sm0 (rev bnd) = Ok s1) in E1.
    assert (I1 : Inv s1).
    { eapply (store_args_Inv C (eval c fuel esc) (fun e => l2_expr e = true) (EV esc) (m_defaults mc)); [apply forallb_F; exact Md|exact Hbr|exact I0|exact E1]. }
    pose proof (args_sim fuel esc (m_defaults mc) EV (SE esc) Md _ _ _ E1 I0 Hbr off [] [] [] [] (mkCall (S pc) r (s_env s) (s_out s) esc escs caps its :: calls) Hcp) as S1.
    rewrite !map_rev, Hfst in S1. fold cp in S1. rewrite app_nil_r in S1.
    apply code_at_app_r in Hcode. fold cp in Hcode.
    match type of He with bind ?x _ = _ => destruct x as [[sg s2]|k2| |] eqn:E2; cbn [bind] in He; try discriminate end.
    change (exec_list c fuel esc s1 (m_body mc) = Err k2) in E2.
    inversion He; subst.
    eapply errs_trans; [exact S1|].
    eapply (IHl false (m_body mc) Mb _ _ _ E2 I1 (off + length cp) None [] [] [] [] _
              ltac:(eapply code_at_app_l; eauto) ltac:(discriminate) I).
  - change (store_args (eval c fuel esc) (m_defaults mc) sm0 (rev bnd) = Err k1) in E1.
    inversion He; subst.
    pose proof (args_err fuel esc (m_defaults mc) EV (SE esc) IHe Md _ _ _ E1 I0 Hbr off [] [] [] [] (mkCall (S pc) r (s_env s) (s_out s) esc escs caps its :: calls) Hcp) as S1.
    rewrite !map_rev, app_nil_r in S1. exact S1.
Qed.

End ErrAll.
