(* C03, bytecode level, the failing direction: an evaluation error of the interpreter is the same error of
   the VM - for expressions without calls.  A folded constant never fails at run time. *)
From MJ Require Import Common.Base Lang.Syntax Lang.Meta Lang.Interp.
From MJ Require Import C04.Model C04.Spec C04.Proofs C03.Proofs.
From MJ Require Import L2.Instr L2.Compile L2.Vm L2.Simulation.
From MJ Require Import C03.L2Pos C03.L2Base C03.L2Inv C03.L2Expr C03.L2Stmt C03.L2Wf C03.L2Proofs.
Local Open Scope nat_scope.

(* ---- a folded constant never fails at run time, whatever the fuel ---- *)
Section FoldNoErr.
Variable c : cfg.
Variable esc : bool.
Let m := c_mode c.

Definition fold_noerr (fuel : nat) (e : expr) : Prop :=
  forall v0, as_const e = Some v0 -> forall s k, eval c fuel esc s e = Err k -> False.

Lemma const_values_noerr fuel items vs : const_values items = Some vs ->
  forall s k, map_eval (eval c fuel esc) s items = Err k -> False.
Proof.
  revert vs. induction items as [|x r IH]; intros vs H s k He; cbn [map_eval] in He; [discriminate|].
  fold (map_eval (eval c fuel esc)) in He.
  destruct x; try discriminate. cbn [const_values] in H.
  destruct (const_values r) as [vr|] eqn:E; try discriminate.
  destruct fuel as [|fuel']; [discriminate|]. rewrite eval_const in He. cbn [bind] in He.
  destruct (map_eval (eval c (S fuel') esc) s r) as [[ws s1]| | |] eqn:Er; try discriminate.
  inversion He; subst. eapply IH; eauto.
Qed.

Lemma fold_chain_noerr fuel rest :
  (forall p, In p rest -> fold_noerr fuel (snd p)) ->
  forall left v0, is_undef left = false -> fold_chain as_const left rest = Some v0 ->
  forall s k, cmp_chain m (eval c fuel esc) left s rest = Err k -> False.
Proof.
  induction rest as [|[op r] l' IH]; intros Hop left v0 Hl H s k He; [discriminate|].
  cbn [fold_chain] in H.
  destruct (as_const r) as [right|] eqn:Er; cbn [obind] in H; try discriminate.
  destruct (eval_compare op left right) as [res|] eqn:Ec; cbn [obind] in H; try discriminate.
  pose proof (fold_defined_proof r right Er) as Hr.
  destruct (eval_compare_do_cmp m op left right res Hl Hr Ec) as [b [-> Hd]].
  cbn [cmp_chain] in He.
  destruct (eval c fuel esc s r) as [[y s2]| | |] eqn:Ey; cbn [bind] in He; try discriminate.
  - destruct (fold_inv_all c esc fuel r right Er _ _ _ Ey) as [-> ->].
    rewrite Hd in He. cbn [bind] in He. cbn [truthy] in H.
    destruct l' as [|p2 l'']; [discriminate|]. destruct b; [|discriminate].
    eapply (IH (fun p Hp => Hop p (or_intror Hp)) right v0 Hr H); eauto.
  - inversion He; subst. eapply (Hop (op, r) (or_introl eq_refl)); eauto.
Qed.

Lemma fold_noerr_all : forall fuel e, fold_noerr fuel e.
Proof.
  induction fuel as [|fuel IH]; intros e v0 H s k He; [discriminate|].
  assert (INV : forall a x, as_const a = Some x -> forall s0 v1 s1, eval c fuel esc s0 a = Ok (v1, s1) -> v1 = x /\ s1 = s0)
    by (intros; eapply fold_inv_all; eauto).
  destruct e; unfold as_const in H; cbn [as_const_gen] in H; fold as_const in H; try discriminate.
  - rewrite eval_const in He. discriminate.
  - destruct (const_values items) as [vs|] eqn:E; cbn [omap] in H; try discriminate.
    cbn [eval] in He. destruct (map_eval (eval c fuel esc) s items) as [[ws s1]| | |] eqn:Em; try discriminate.
    inversion He; subst. eapply const_values_noerr; eauto.
  - destruct (as_const e) as [x|] eqn:E; cbn [obind] in H; try discriminate.
    cbn [eval] in He. destruct (eval c fuel esc s e) as [[x' s1]| | |] eqn:Ee; cbn [bind] in He; try discriminate.
    + destruct (INV e x E _ _ _ Ee) as [-> ->]. destruct x; cbn in H; try discriminate.
    + inversion He; subst. eapply IH; eauto.
  - destruct (as_const e) as [x|] eqn:E; cbn [omap] in H; try discriminate.
    cbn [eval] in He. destruct (eval c fuel esc s e) as [[x' s1]| | |] eqn:Ee; cbn [bind] in He; try discriminate.
    + destruct (INV e x E _ _ _ Ee) as [-> ->].
      rewrite (u_is_true_defined (c_mode c) x (fold_defined_proof e x E)) in He. discriminate.
    + inversion He; subst. eapply IH; eauto.
  - destruct (as_const e1) as [x|] eqn:E1; try discriminate.
    destruct (as_const e2) as [y|] eqn:E2; try discriminate.
    apply ok_of_some in H.
    cbn [eval] in He. destruct (eval c fuel esc s e1) as [[x' s1]| | |] eqn:Ee1; cbn [bind] in He; try discriminate;
      [|inversion He; subst; exact (IH e1 x E1 _ _ Ee1)].
    destruct (INV e1 x E1 _ _ _ Ee1) as [-> ->].
    destruct (eval c fuel esc s e2) as [[y' s2]| | |] eqn:Ee2; cbn [bind] in He; try discriminate;
      [|inversion He; subst; exact (IH e2 y E2 _ _ Ee2)].
    destruct (INV e2 y E2 _ _ _ Ee2) as [-> ->].
    rewrite (u_not_undef_defined (c_mode c) x (fold_defined_proof e1 x E1)), (u_not_undef_defined (c_mode c) y (fold_defined_proof e2 y E2)) in He.
    assert (Hg : match op with OConcat => bind (Ok tt) (fun _ : unit => Ok tt) | _ => Ok tt end = (Ok tt : outcome unit)) by (destruct op; reflexivity).
    rewrite Hg in He. cbn [bind] in He. rewrite H in He. cbn [bind] in He. discriminate.
  - (* ECmp *)
    cbn [eval] in He. destruct (eval c fuel esc s e) as [[x' s1]| | |] eqn:Ee; cbn [bind] in He; try discriminate.
    + destruct rest as [|[op b] rest'].
      * cbn in He. discriminate.
      * destruct rest' as [|p2 rest''].
        -- assert (Hshape : exists x y, as_const e = Some x /\ as_const b = Some y /\
                    (match op with
                     | CNotIn => omap (fun v => VBool (negb (truthy v))) (eval_compare CIn x y)
                     | _ => eval_compare op x y end) = Some v0).
           { destruct op; destruct (as_const e) as [x|]; try discriminate;
               destruct (as_const b) as [y|]; try discriminate; exists x, y; repeat split; exact H. }
           destruct Hshape as [x [y [E1 [E2 Hv]]]].
           destruct (INV e x E1 _ _ _ Ee) as [-> ->].
           cbn [cmp_chain] in He.
           destruct (eval c fuel esc s b) as [[y' s2]| | |] eqn:Eb; cbn [bind] in He; try discriminate;
             [|inversion He; subst; exact (IH b y E2 _ _ Eb)].
           destruct (INV b y E2 _ _ _ Eb) as [-> ->].
           pose proof (fold_defined_proof e x E1) as Hx. pose proof (fold_defined_proof b y E2) as Hy.
           assert (Hr : exists r, do_cmp (c_mode c) op x y = Ok r).
           { destruct op; try solve [edestruct (eval_compare_do_cmp (c_mode c)) as [r [_ Hd]]; [exact Hx|exact Hy|eassumption|]; eauto].
             destruct (eval_compare CIn x y) as [w|] eqn:Ew; cbn [omap] in Hv; try discriminate.
             destruct (eval_compare_do_cmp (c_mode c) CIn x y w Hx Hy Ew) as [r [-> Hd']].
             exists (negb r). unfold do_cmp in *. rewrite (u_not_undef_defined _ y Hy), (u_not_undef_defined _ x Hx) in *.
             cbn [bind] in *. destruct (contains y x); cbn [bind] in *; try discriminate; try congruence; try reflexivity. }
           destruct Hr as [r Hd']. rewrite Hd' in He. discriminate.
        -- assert (Hshape : exists x, as_const e = Some x /\ fold_chain as_const x ((op, b) :: p2 :: rest'') = Some v0).
           { destruct op; destruct (as_const e) as [x|]; try discriminate; exists x; (split; [reflexivity|exact H]). }
           destruct Hshape as [x [E1 Hc]].
           destruct (INV e x E1 _ _ _ Ee) as [-> ->].
           eapply (fold_chain_noerr fuel _ (fun p _ => IH (snd p)) x v0 (fold_defined_proof e x E1) Hc); eauto.
    + inversion He; subst.
      assert (Hx : exists x, as_const e = Some x).
      { destruct rest as [|[op b] [|p2 r2]]; try (destruct op); destruct (as_const e); try discriminate; eauto. }
      destruct Hx as [x Ex]. eapply (IH e); eauto.
  - destruct (as_const e1) as [x|] eqn:E1; try discriminate.
    destruct (as_const e2) as [y|] eqn:E2; try discriminate.
    cbn [eval] in He. destruct (eval c fuel esc s e1) as [[x' s1]| | |] eqn:Ee1; cbn [bind] in He; try discriminate;
      [|inversion He; subst; exact (IH e1 x E1 _ _ Ee1)].
    destruct (INV e1 x E1 _ _ _ Ee1) as [-> ->].
    rewrite (u_is_true_defined (c_mode c) x (fold_defined_proof e1 x E1)) in He. cbn [bind] in He.
    destruct (truthy x); [eapply (IH e2); eauto|discriminate].
  - destruct (as_const e1) as [x|] eqn:E1; try discriminate.
    destruct (as_const e2) as [y|] eqn:E2; try discriminate.
    cbn [eval] in He. destruct (eval c fuel esc s e1) as [[x' s1]| | |] eqn:Ee1; cbn [bind] in He; try discriminate;
      [|inversion He; subst; exact (IH e1 x E1 _ _ Ee1)].
    destruct (INV e1 x E1 _ _ _ Ee1) as [-> ->].
    rewrite (u_is_true_defined (c_mode c) x (fold_defined_proof e1 x E1)) in He. cbn [bind] in He.
    destruct (truthy x); [discriminate|eapply (IH e2); eauto].
Qed.
End FoldNoErr.

Section Err.
Variable c : cfg.
Variable C : list instr.
Hypothesis Hcfg : cfg_ok C c.
Hypothesis Hwf : wf_code C.

Notation star := (starO c C).
Notation star_step := (starO_step c C).
Notation star_trans := (C03.L2Base.star_trans c C).
Notation star_one := (C03.L2Base.star_one c C).
Notation step_at := (C03.L2Base.step_at c C).
Notation Inv := (L2.Simulation.Inv C).
Notation errs := (L2.Simulation.errs c C).

Lemma errs_trans a b k : star a b -> errs b k -> errs a k.
Proof. intros S (σ' & S' & H). exists σ'. split; [eapply star_trans; eauto|exact H]. Qed.
Lemma errs_here σ k : step c C σ = Err k -> errs σ k.
Proof. intros H. exists σ. split; [constructor|left; exact H]. Qed.

Definition err_expr (fuel : nat) : Prop :=
  forall esc e, l2_expr e = true -> pure e = true -> forall s k, eval c fuel esc s e = Err k -> Inv s ->
  forall base stk escs caps its calls, code_at C base (compile_expr e base) ->
  errs (mkVm base stk s esc escs caps its calls) k.

Ltac at_instr H := rewrite (step_at _ _ _ _ _ _ _ _ _ (code_at_head _ _ _ _ H)); cbn [exec_instr v_stk v_st v_esc].

(* a list of expressions: the first failing one fails the VM *)
Lemma seq_err fuel esc items : eval_inv c C fuel ->
  (forall e, l2_expr e = true -> sim_expr c C fuel esc e) -> err_expr fuel ->
  forallb l2_expr items = true -> forallb pure items = true ->
  forall s k, map_eval (eval c fuel esc) s items = Err k -> Inv s ->
  forall base stk escs caps its calls, code_at C base (seq_code compile_expr items base) ->
  errs (mkVm base stk s esc escs caps its calls) k.
Proof.
  intros EV SE IH. induction items as [|x r IHr]; intros Hw Hp s k He Hi base stk escs caps its calls Hc; [discriminate|].
  cbn [forallb] in Hw, Hp. apply andb_prop in Hw as [Hx Hr]. apply andb_prop in Hp as [Px Pr].
  cbn [map_eval] in He. fold (map_eval (eval c fuel esc)) in He.
  cbn [seq_code] in Hc. fold (@seq_code expr compile_expr) in Hc.
  destruct (eval c fuel esc s x) as [[v s1]| | |] eqn:Ex; cbn [bind] in He; try discriminate.
  - destruct (map_eval (eval c fuel esc) s1 r) as [[vr s2]| | |] eqn:Er; cbn [bind] in He; try discriminate.
    inversion He; subst. destruct (EV esc x Hx _ _ _ Hi Ex) as [_ I1].
    eapply errs_trans. { eapply (SE x Hx _ _ _ Ex Hi). eapply code_at_app_l; eauto. }
    eapply (IHr Hr Pr _ _ Er I1). eapply code_at_app_r; eauto.
  - inversion He; subst. eapply (IH esc x Hx Px _ _ Ex Hi). eapply code_at_app_l; eauto.
Qed.

Lemma chain_err fuel esc rest : eval_inv c C fuel ->
  (forall e, l2_expr e = true -> sim_expr c C fuel esc e) -> err_expr fuel ->
  forallb (fun p => l2_expr (snd p)) rest = true -> forallb (fun p => pure (snd p)) rest = true -> rest <> [] ->
  forall left s k, cmp_chain (c_mode c) (eval c fuel esc) left s rest = Err k -> Inv s ->
  forall pc cleanup stk escs caps its calls,
    code_at C pc (chain_code compile_expr rest pc cleanup) ->
    errs (mkVm pc (left :: stk) s esc escs caps its calls) k.
Proof.
  intros EV SE IH. induction rest as [|[op r] l' IHr]; intros Hw Hp Hne left s k He Hi pc cleanup stk escs caps its calls Hc; [congruence|].
  cbn [forallb snd] in Hw, Hp. apply andb_prop in Hw as [Hr Hl']. apply andb_prop in Hp as [Pr Pl'].
  cbn [cmp_chain] in He. fold (cmp_chain (c_mode c) (eval c fuel esc)) in He.
  cbn [chain_code] in Hc. fold (chain_code compile_expr) in Hc.
  destruct (eval c fuel esc s r) as [[y s2]| | |] eqn:Ey; cbn [bind] in He; try discriminate.
  - destruct (EV esc r Hr _ _ _ Hi Ey) as [_ I2].
    assert (S1 : forall X, code_at C pc (compile_expr r pc ++ X) ->
              star (mkVm pc (left :: stk) s esc escs caps its calls) (mkVm (pc + length (compile_expr r pc)) (y :: left :: stk) s2 esc escs caps its calls)).
    { intros X HX. eapply (SE r Hr _ _ _ Ey Hi). eapply code_at_app_l; eauto. }
    destruct (do_cmp (c_mode c) op left y) as [b| | |] eqn:Ed; cbn [bind] in He; try discriminate.
    + destruct l' as [|p2 l'']; [discriminate|]. destruct b; [|discriminate].
      pose proof (S1 _ Hc) as S1'. apply code_at_app_r in Hc. cbn [app] in Hc.
      eapply errs_trans; [exact S1'|].
      eapply errs_trans. { apply star_one. at_instr Hc. rewrite Ed. reflexivity. }
      cbn [bind next v_pc v_stk v_st v_esc v_escs v_caps v_iters v_calls]. apply code_at_tail in Hc.
      eapply errs_trans. { apply star_one. at_instr Hc. rewrite u_is_true_bool. reflexivity. }
      cbn [bind next v_pc v_stk v_st v_esc v_escs v_caps v_iters v_calls]. apply code_at_tail in Hc.
      replace (S (S (pc + length (compile_expr r pc)))) with (pc + length (compile_expr r pc) + 2) in * by lia.
      eapply (IHr Hl' Pl' ltac:(discriminate) _ _ _ He I2). exact Hc.
    + (* the comparison itself fails *)
      inversion He; subst.
      destruct l' as [|p2 l''].
      * pose proof (S1 _ Hc) as S1'. apply code_at_app_r in Hc. eapply errs_trans; [exact S1'|].
        destruct op; cbn [emit_compare] in Hc; try (apply errs_here; at_instr Hc; rewrite Ed; reflexivity).
        rewrite do_cmp_notin in Ed. destruct (do_cmp (c_mode c) CIn left y) as [r0| | |] eqn:E; cbn [bind] in Ed; try discriminate.
        inversion Ed; subst. apply errs_here. at_instr Hc. rewrite E. reflexivity.
      * pose proof (S1 _ Hc) as S1'. apply code_at_app_r in Hc. cbn [app] in Hc. eapply errs_trans; [exact S1'|].
        apply errs_here. at_instr Hc. rewrite Ed. reflexivity.
  - inversion He; subst.
    assert (Hcr : code_at C pc (compile_expr r pc)) by (destruct l'; eapply code_at_app_l; eauto).
    eapply (IH esc r Hr Pr _ _ Ey Hi). exact Hcr.
Qed.

Lemma err_expr_all : forall fuel, err_expr fuel.
Proof.
  induction fuel as [|fuel IH]; intros esc e Hw Hp s k He Hi base stk escs caps its calls Hc; [discriminate|].
  destruct (inv_all c C Hcfg Hwf fuel) as (EV & _).
  destruct (sim_levels c C Hcfg Hwf fuel) as (SE & _).
  destruct (as_const e) as [v0|] eqn:Hf.
  { exfalso. eapply (fold_noerr_all c esc (S fuel) e v0 Hf); eauto. }
  assert (SUB : forall e0 s0 v0 s1 X pc st0, l2_expr e0 = true -> eval c fuel esc s0 e0 = Ok (v0, s1) -> Inv s0 ->
            code_at C pc (compile_expr e0 pc ++ X) ->
            star (mkVm pc st0 s0 esc escs caps its calls) (mkVm (pc + length (compile_expr e0 pc)) (v0 :: st0) s1 esc escs caps its calls)).
  { intros e0 s0 v1 s1 X pc st0 H0 E0 I0 HX. eapply (SE esc e0 H0 _ _ _ E0 I0). eapply code_at_app_l; eauto. }
  destruct e; cbn [compile_expr] in Hc; rewrite Hf in Hc; cbn [eval] in He; cbn [l2_expr] in Hw; cbn [pure] in Hp.
  - destruct l; discriminate.
  - destruct (lookup c s x); discriminate.
  - (* EList *)
    destruct (map_eval (eval c fuel esc) s items) as [[vs s1]| | |] eqn:Em; cbn [bind] in He; try discriminate.
    inversion He; subst. eapply (seq_err fuel esc items EV (SE esc) IH Hw Hp _ _ Em Hi). eapply code_at_app_l; eauto.
  - (* ENeg *)
    destruct (eval c fuel esc s e) as [[x s1]| | |] eqn:Ea; cbn [bind] in He; try discriminate.
    + eapply errs_trans; [exact (SUB e _ _ _ _ _ _ Hw Ea Hi Hc)|]. apply code_at_app_r in Hc.
      apply errs_here. at_instr Hc. destruct x; try discriminate; inversion He; reflexivity.
    + inversion He; subst. eapply (IH esc e Hw Hp _ _ Ea Hi). eapply code_at_app_l; eauto.
  - (* ENot *)
    destruct (eval c fuel esc s e) as [[x s1]| | |] eqn:Ea; cbn [bind] in He; try discriminate.
    + eapply errs_trans; [exact (SUB e _ _ _ _ _ _ Hw Ea Hi Hc)|]. apply code_at_app_r in Hc.
      destruct (u_is_true (c_mode c) x) as [b| | |] eqn:Eb; cbn [bind] in He; try discriminate. inversion He; subst.
      apply errs_here. at_instr Hc. rewrite Eb. reflexivity.
    + inversion He; subst. eapply (IH esc e Hw Hp _ _ Ea Hi). eapply code_at_app_l; eauto.
  - (* EBin *)
    apply andb_prop in Hw as [Hw1 Hw2]. apply andb_prop in Hp as [Hp1 Hp2].
    destruct (eval c fuel esc s e1) as [[x s1]| | |] eqn:Ea; cbn [bind] in He; try discriminate;
      [|inversion He; subst; eapply (IH esc e1 Hw1 Hp1 _ _ Ea Hi); eapply code_at_app_l; eauto].
    destruct (EV esc e1 Hw1 _ _ _ Hi Ea) as [_ I1].
    eapply errs_trans; [exact (SUB e1 _ _ _ _ _ _ Hw1 Ea Hi Hc)|]. apply code_at_app_r in Hc.
    destruct (eval c fuel esc s1 e2) as [[y s2]| | |] eqn:Eb; cbn [bind] in He; try discriminate;
      [|inversion He; subst; eapply (IH esc e2 Hw2 Hp2 _ _ Eb I1); eapply code_at_app_l; eauto].
    eapply errs_trans; [exact (SUB e2 _ _ _ _ _ _ Hw2 Eb I1 Hc)|]. apply code_at_app_r in Hc.
    apply errs_here. at_instr Hc.
    match type of He with bind ?g _ = _ => destruct g as [[]| | |] eqn:G; cbn [bind] in He |- *; try discriminate end.
    + destruct (do_bin op x y) as [r| | |] eqn:Ed; cbn [bind] in He; try discriminate. inversion He; reflexivity.
    + inversion He; reflexivity.
  - (* ECmp *)
    apply andb_prop in Hw as [Hw Hw3]. apply andb_prop in Hw as [Hw1 Hw2]. apply andb_prop in Hp as [Hp1 Hp3].
    destruct (eval c fuel esc s e) as [[x s1]| | |] eqn:Ea; cbn [bind] in He; try discriminate;
      [|inversion He; subst; eapply (IH esc e Hw1 Hp1 _ _ Ea Hi);
        destruct rest as [|[op b] [|p2 r2]]; [exact Hc|eapply code_at_app_l; eauto|eapply code_at_app_l; eauto]].
    destruct (EV esc e Hw1 _ _ _ Hi Ea) as [_ I1].
    destruct rest as [|[op b] rest']; [discriminate|].
    destruct rest' as [|p2 rest''].
    + eapply errs_trans; [exact (SUB e _ _ _ _ _ _ Hw1 Ea Hi Hc)|]. apply code_at_app_r in Hc.
      eapply (chain_err fuel esc [(op, b)] EV (SE esc) IH Hw3 Hp3 ltac:(discriminate) _ _ _ He I1 _ 0).
      cbn [chain_code]. exact Hc.
    + eapply errs_trans; [exact (SUB e _ _ _ _ _ _ Hw1 Ea Hi Hc)|]. apply code_at_app_r in Hc.
      eapply (chain_err fuel esc _ EV (SE esc) IH Hw3 Hp3 ltac:(discriminate) _ _ _ He I1).
      eapply code_at_app_l; eauto.
  - (* EAnd *)
    apply andb_prop in Hw as [Hw1 Hw2]. apply andb_prop in Hp as [Hp1 Hp2].
    destruct (eval c fuel esc s e1) as [[x s1]| | |] eqn:Ea; cbn [bind] in He; try discriminate;
      [|inversion He; subst; eapply (IH esc e1 Hw1 Hp1 _ _ Ea Hi); eapply code_at_app_l; eauto].
    destruct (EV esc e1 Hw1 _ _ _ Hi Ea) as [_ I1].
    eapply errs_trans; [exact (SUB e1 _ _ _ _ _ _ Hw1 Ea Hi Hc)|]. apply code_at_app_r in Hc.
    destruct (u_is_true (c_mode c) x) as [t| | |] eqn:Et; cbn [bind] in He; try discriminate.
    + destruct t; [|discriminate].
      eapply errs_trans. { apply star_one. at_instr Hc. rewrite Et. reflexivity. }
      cbn [bind next v_pc v_stk v_st v_esc v_escs v_caps v_iters v_calls]. apply code_at_tail in Hc.
      replace (S (base + length (compile_expr e1 base))) with (base + length (compile_expr e1 base) + 1) in * by lia.
      eapply (IH esc e2 Hw2 Hp2 _ _ He I1). exact Hc.
    + inversion He; subst. apply errs_here. at_instr Hc. rewrite Et. reflexivity.
  - (* EOr *)
    apply andb_prop in Hw as [Hw1 Hw2]. apply andb_prop in Hp as [Hp1 Hp2].
    destruct (eval c fuel esc s e1) as [[x s1]| | |] eqn:Ea; cbn [bind] in He; try discriminate;
      [|inversion He; subst; eapply (IH esc e1 Hw1 Hp1 _ _ Ea Hi); eapply code_at_app_l; eauto].
    destruct (EV esc e1 Hw1 _ _ _ Hi Ea) as [_ I1].
    eapply errs_trans; [exact (SUB e1 _ _ _ _ _ _ Hw1 Ea Hi Hc)|]. apply code_at_app_r in Hc.
    destruct (u_is_true (c_mode c) x) as [t| | |] eqn:Et; cbn [bind] in He; try discriminate.
    + destruct t; [discriminate|].
      eapply errs_trans. { apply star_one. at_instr Hc. rewrite Et. reflexivity. }
      cbn [bind next v_pc v_stk v_st v_esc v_escs v_caps v_iters v_calls]. apply code_at_tail in Hc.
      replace (S (base + length (compile_expr e1 base))) with (base + length (compile_expr e1 base) + 1) in * by lia.
      eapply (IH esc e2 Hw2 Hp2 _ _ He I1). exact Hc.
    + inversion He; subst. apply errs_here. at_instr Hc. rewrite Et. reflexivity.
  - (* EIf *)
    apply andb_prop in Hw as [Hw Hw3]. apply andb_prop in Hw as [Hw1 Hw2].
    apply andb_prop in Hp as [Hp Hp3]. apply andb_prop in Hp as [Hp1 Hp2].
    destruct (eval c fuel esc s e1) as [[x s1]| | |] eqn:Ea; cbn [bind] in He; try discriminate;
      [|inversion He; subst; eapply (IH esc e1 Hw1 Hp1 _ _ Ea Hi); eapply code_at_app_l; eauto].
    destruct (EV esc e1 Hw1 _ _ _ Hi Ea) as [_ I1].
    eapply errs_trans; [exact (SUB e1 _ _ _ _ _ _ Hw1 Ea Hi Hc)|]. apply code_at_app_r in Hc.
    destruct (u_is_true (c_mode c) x) as [t| | |] eqn:Et; cbn [bind] in He; try discriminate;
      [|inversion He; subst; apply errs_here; at_instr Hc; rewrite Et; reflexivity].
    pose proof (code_at_head _ _ _ _ Hc) as Hj. apply code_at_tail in Hc.
    replace (S (base + length (compile_expr e1 base))) with (base + length (compile_expr e1 base) + 1) in * by lia.
    destruct t.
    + eapply errs_trans. { apply star_one. rewrite (step_at _ _ _ _ _ _ _ _ _ Hj). cbn [exec_instr v_stk v_st]. rewrite Et. reflexivity. }
      cbn [bind next v_pc v_stk v_st v_esc v_escs v_caps v_iters v_calls].
      replace (S (base + length (compile_expr e1 base))) with (base + length (compile_expr e1 base) + 1) by lia.
      eapply (IH esc e2 Hw2 Hp2 _ _ He I1). eapply code_at_app_l. exact Hc.
    + eapply errs_trans. { apply star_one. rewrite (step_at _ _ _ _ _ _ _ _ _ Hj). cbn [exec_instr v_stk v_st]. rewrite Et. reflexivity. }
      cbn [bind goto v_pc v_stk v_st v_esc v_escs v_caps v_iters v_calls].
      destruct f as [f|]; [|discriminate].
      eapply (IH esc f Hw3 Hp3 _ _ He I1). apply code_at_app_r in Hc. apply code_at_tail in Hc.
      eapply code_at_pc; [exact Hc|lia].
  - (* EItem *)
    apply andb_prop in Hw as [Hw1 Hw2]. apply andb_prop in Hp as [Hp1 Hp2].
    destruct (eval c fuel esc s e1) as [[x s1]| | |] eqn:Ea; cbn [bind] in He; try discriminate;
      [|inversion He; subst; eapply (IH esc e1 Hw1 Hp1 _ _ Ea Hi); eapply code_at_app_l; eauto].
    destruct (EV esc e1 Hw1 _ _ _ Hi Ea) as [_ I1].
    eapply errs_trans; [exact (SUB e1 _ _ _ _ _ _ Hw1 Ea Hi Hc)|]. apply code_at_app_r in Hc.
    destruct (eval c fuel esc s1 e2) as [[y s2]| | |] eqn:Eb; cbn [bind] in He; try discriminate;
      [|inversion He; subst; eapply (IH esc e2 Hw2 Hp2 _ _ Eb I1); eapply code_at_app_l; eauto].
    eapply errs_trans; [exact (SUB e2 _ _ _ _ _ _ Hw2 Eb I1 Hc)|]. apply code_at_app_r in Hc.
    apply errs_here. at_instr Hc. unfold get_item.
    destruct (match x, y with VList l, VInt z => idx_list l z | _, _ => None end); [discriminate|].
    destruct (u_handle_undefined (c_mode c) (is_undef x)); cbn [bind] in He |- *; try discriminate. inversion He; reflexivity.
  - (* EAttr *)
    destruct (eval c fuel esc s e) as [[x s1]| | |] eqn:Ea; cbn [bind] in He; try discriminate;
      [|inversion He; subst; eapply (IH esc e Hw Hp _ _ Ea Hi); eapply code_at_app_l; eauto].
    eapply errs_trans; [exact (SUB e _ _ _ _ _ _ Hw Ea Hi Hc)|]. apply code_at_app_r in Hc.
    apply errs_here. at_instr Hc. unfold get_attr.
    destruct (match x with VLoop i n => loop_attr i n a | _ => None end); [discriminate|].
    destruct (u_handle_undefined (c_mode c) (is_undef x)); cbn [bind] in He |- *; try discriminate. inversion He; reflexivity.
  - (* EFilter *)
    apply andb_prop in Hw as [Hw1 Hw2]. apply andb_prop in Hp as [Hp1 Hp2].
    destruct (eval c fuel esc s e) as [[x s1]| | |] eqn:Ea; cbn [bind] in He; try discriminate;
      [|inversion He; subst; eapply (IH esc e Hw1 Hp1 _ _ Ea Hi); eapply code_at_app_l; eauto].
    destruct (EV esc e Hw1 _ _ _ Hi Ea) as [_ I1].
    eapply errs_trans; [exact (SUB e _ _ _ _ _ _ Hw1 Ea Hi Hc)|]. apply code_at_app_r in Hc.
    destruct (map_eval (eval c fuel esc) s1 args) as [[vs s2]| | |] eqn:Em; cbn [bind] in He; try discriminate;
      [|inversion He; subst; eapply (seq_err fuel esc args EV (SE esc) IH Hw2 Hp2 _ _ Em I1); eapply code_at_app_l; eauto].
    eapply errs_trans. { eapply (seq_sim c C fuel esc args EV (SE esc) Hw2 _ _ _ Em I1). eapply code_at_app_l; eauto. }
    apply code_at_app_r in Hc. apply errs_here. at_instr Hc.
    rewrite <- (map_eval_length _ _ _ _ _ Em), pop_args.
    destruct (do_filter (c_mode c) esc f x vs); cbn [bind] in He |- *; try discriminate. inversion He; reflexivity.
  - (* ETest *)
    apply andb_prop in Hw as [Hw1 Hw2]. apply andb_prop in Hp as [Hp1 Hp2].
    destruct (eval c fuel esc s e) as [[x s1]| | |] eqn:Ea; cbn [bind] in He; try discriminate;
      [|inversion He; subst; eapply (IH esc e Hw1 Hp1 _ _ Ea Hi); eapply code_at_app_l; eauto].
    destruct (EV esc e Hw1 _ _ _ Hi Ea) as [_ I1].
    eapply errs_trans; [exact (SUB e _ _ _ _ _ _ Hw1 Ea Hi Hc)|]. apply code_at_app_r in Hc.
    destruct (map_eval (eval c fuel esc) s1 args) as [[vs s2]| | |] eqn:Em; cbn [bind] in He; try discriminate;
      [|inversion He; subst; eapply (seq_err fuel esc args EV (SE esc) IH Hw2 Hp2 _ _ Em I1); eapply code_at_app_l; eauto].
    eapply errs_trans. { eapply (seq_sim c C fuel esc args EV (SE esc) Hw2 _ _ _ Em I1). eapply code_at_app_l; eauto. }
    apply code_at_app_r in Hc. apply errs_here. at_instr Hc.
    rewrite <- (map_eval_length _ _ _ _ _ Em), pop_args.
    destruct (do_test t x); cbn [bind] in He |- *; try discriminate. inversion He; reflexivity.
  - discriminate.
Qed.

End Err.
