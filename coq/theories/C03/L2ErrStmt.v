(* C03, bytecode level, the failing direction (2): statements, and the induction on fuel; whole templates. *)
From MJ Require Import Common.Base Lang.Syntax Lang.Meta Lang.Interp.
From MJ Require Import C04.Model C04.Spec C04.Proofs C03.Proofs.
From MJ Require Import L2.Instr L2.Compile L2.Vm L2.Simulation.
From MJ Require Import C03.L2Pos C03.L2Base C03.L2Relab C03.L2RelabErr C03.L2Inv C03.L2Hdl C03.L2Expr C03.L2Stmt C03.L2Wf C03.L2Proofs C03.L2Err.
Local Open Scope nat_scope.

Section ErrStmt.
Variable c : cfg.
Variable C : list instr.
Hypothesis Hcfg : cfg_ok C c.
Hypothesis Hwf : wf_code C.

Notation star := (starO c C).
Notation star_step := (starO_step c C).
Notation star_trans := (C03.L2Base.star_trans c C).
Notation star_one := (C03.L2Base.star_one c C).
Notation star_eq := (C03.L2Base.star_eq c C).
Notation step_at := (C03.L2Base.step_at c C).
Notation Inv := (L2.Simulation.Inv C).
Notation vok := (L2.Simulation.vok C).
Notation kvok := (L2.Simulation.kvok C).
Notation errs := (L2.Simulation.errs c C).
Notation errs_trans := (C03.L2Err.errs_trans c C).
Notation errs_here := (C03.L2Err.errs_here c C).
Notation err_expr := (C03.L2Err.err_expr c C).
Notation err_call := (C03.L2Err.err_call c C).
Notation err_list := (C03.L2Err.err_list c C).
Notation err_stmt := (C03.L2Err.err_stmt c C).
Notation sim_expr := (C03.L2Expr.sim_expr c C).
Notation sim_list := (C03.L2Expr.sim_list c C).
Notation sim_stmt := (C03.L2Expr.sim_stmt c C).

Ltac at_instr H := rewrite (step_at _ _ _ _ _ _ _ _ _ (code_at_head _ _ _ _ H)); cbn [exec_instr v_stk v_st v_esc].
Ltac vmsimp := cbn [bind next goto v_pc v_stk v_st v_esc v_escs v_caps v_iters v_calls].
Ltac estep H tac :=
  eapply errs_trans;
  [ apply star_one; rewrite (step_at _ _ _ _ _ _ _ _ _ (code_at_head _ _ _ _ H)); cbn [exec_instr v_stk v_st v_esc v_escs v_caps v_iters]; tac; reflexivity
  | vmsimp ].
Ltac estepn H tac :=
  eapply errs_trans;
  [ apply star_one; rewrite (step_at _ _ _ _ _ _ _ _ _ H); cbn [exec_instr v_stk v_st v_esc v_escs v_caps v_iters]; tac; reflexivity
  | vmsimp ].

Tactic Notation "ebind" hyp(H) "as" simple_intropattern(p) "named" ident(E) :=
  match type of H with bind ?x _ = _ => destruct x as p eqn:E; cbn [bind] in H; try discriminate end.

Lemma exec_list_nil_err fuel esc s k : exec_list c fuel esc s [] = Err k -> False.
Proof. destruct fuel; cbn; discriminate. Qed.

Lemma assign_err tgt s item k pc stk esc escs caps its calls :
  bind_target tgt s item = Err k -> code_at C pc (assign_code tgt) ->
  errs (mkVm pc (item :: stk) s esc escs caps its calls) k.
Proof.
  intros Hb Hc. destruct tgt as [x|x y]; cbn [assign_code bind_target] in *; [discriminate|].
  apply errs_here. at_instr Hc.
  destruct (unpack_items item) as [l|]; [|inversion Hb; reflexivity].
  destruct l as [|a [|b [|? ?]]]; inversion Hb; reflexivity.
Qed.

Lemma bind_target_err_any tgt s s' item k : bind_target tgt s item = Err k -> bind_target tgt s' item = Err k.
Proof.
  destruct tgt as [x|x y]; cbn [bind_target]; [discriminate|].
  destruct (unpack_items item) as [[|a [|b [|? ?]]]|]; auto. discriminate.
Qed.

Lemma binds_err fuel esc binds : eval_inv c C fuel -> (forall esc e, l2_expr e = true -> sim_expr fuel esc e) -> err_expr fuel ->
  forallb (fun p => l2_expr (snd p)) binds = true ->
  forall s k, with_binds (eval c fuel esc) s binds = Err k -> Inv s ->
  forall base stk escs caps its calls, code_at C base (binds_code binds base) ->
  errs (mkVm base stk s esc escs caps its calls) k.
Proof.
  intros EV SE IH. induction binds as [|[x e] r IHr]; intros Hw s k He Hi base stk escs caps its calls Hc; [discriminate|].
  cbn [forallb snd] in Hw. apply andb_prop in Hw as [Hx Hr].
  cbn [with_binds] in He. fold (with_binds (eval c fuel esc)) in He.
  cbn [binds_code] in Hc. fold binds_code in Hc.
  destruct (eval c fuel esc s e) as [[v s1]| | |] eqn:E1; cbn [bind] in He; try discriminate.
  - destruct (EV esc e Hx _ _ _ Hi E1) as [V1 I1].
    eapply errs_trans. { eapply (SE esc e Hx _ _ _ E1 Hi). eapply code_at_app_l; eauto. }
    apply code_at_app_r in Hc.
    destruct (bind_target x s1 v) as [s2| | |] eqn:E2; cbn [bind] in He; try discriminate.
    + eapply errs_trans. { eapply (assign_sim c C x _ _ _ _ _ _ _ _ _ _ E2). eapply code_at_app_l; eauto. }
      apply code_at_app_r in Hc.
      eapply (IHr Hr _ _ He); [eapply bind_target_Inv; eauto|exact Hc].
    + inversion He; subst. eapply assign_err; [exact E2|]. eapply code_at_app_l; eauto.
  - inversion He; subst. eapply (IH esc e Hx _ _ E1 Hi). eapply code_at_app_l; eauto.
Qed.

Lemma if_err fuel esc els lc inl : eval_inv c C fuel -> (forall esc e, l2_expr e = true -> sim_expr fuel esc e) ->
  err_expr fuel -> err_list fuel ->
  match els with Some b => forallb (l2_stmt inl) b | None => true end = true ->
  (inl = true -> lc <> None) ->
  forall arms, forallb (fun p => l2_expr (fst p) && forallb (l2_stmt inl) (snd p)) arms = true ->
  forall s k, if_arms (c_mode c) (eval c fuel esc) (exec_list c fuel esc) els s arms = Err k -> Inv s ->
  forall base stk escs caps its calls,
    code_at C base (if_code (fun b pc => compile_stmts b pc lc) els arms base) ->
    lc_fits lc (length (s_env s)) (length escs) (length caps) ->
    errs (mkVm base stk s esc escs caps its calls) k.
Proof.
  intros EV SE IHe IHl Hels Hin. induction arms as [|[cnd body] r IHr]; intros Hw s k He Hi base stk escs caps its calls Hc Hf.
  - cbn [if_arms if_code] in *. destruct els as [b|]; [|discriminate].
    apply (IHl inl b Hels _ _ _ He Hi _ _ _ _ _ _ _ Hc Hin Hf).
  - cbn [forallb fst snd] in Hw. apply andb_prop in Hw as [Hw Hr]. apply andb_prop in Hw as [Hcnd Hbody].
    cbn [if_arms] in He. fold (if_arms (c_mode c) (eval c fuel esc) (exec_list c fuel esc) els) in He.
    cbn [if_code] in Hc. fold (if_code (fun b pc => compile_stmts b pc lc) els) in Hc.
    set (cc := compile_expr cnd base) in *.
    set (ct := compile_stmts body (base + length cc + 1) lc) in *.
    set (cf := if_code (fun b pc => compile_stmts b pc lc) els r (base + length cc + 1 + length ct + 1)) in *.
    (* the common shape: condition; JumpIfFalse T; then-part; REST, with the else part at T when there is one *)
    assert (Hshape : exists T REST, code_at C base (cc ++ [IJumpIfFalse T] ++ ct ++ REST) /\
              ((r = [] /\ nonempty_body els = None) \/
               (T = base + length cc + 1 + length ct + 1 /\ exists J, REST = [IJump J] ++ cf))).
    { destruct r as [|a r'].
      - destruct (nonempty_body els) eqn:En.
        + eexists _, _. split; [exact Hc|]. right. split; [reflexivity|]. eexists; reflexivity.
        + eexists _, []. split; [rewrite app_nil_r; exact Hc|]. left. auto.
      - eexists _, _. split; [exact Hc|]. right. split; [reflexivity|]. eexists; reflexivity. }
    destruct Hshape as (T & REST & Hc' & Hsh). clear Hc. rename Hc' into Hc.
    destruct (eval c fuel esc s cnd) as [[v s1]| | |] eqn:E1; cbn [bind] in He; try discriminate;
      [|inversion He; subst; eapply (IHe esc cnd Hcnd _ _ E1 Hi); eapply code_at_app_l; eauto].
    destruct (EV esc cnd Hcnd _ _ _ Hi E1) as [_ Hi1].
    assert (Henv1 : s_env s1 = s_env s) by (eapply eval_env_proof; eauto).
    assert (Hf1 : lc_fits lc (length (s_env s1)) (length escs) (length caps)) by (rewrite Henv1; exact Hf).
    eapply errs_trans. { eapply (SE esc cnd Hcnd _ _ _ E1 Hi). eapply code_at_app_l; eauto. }
    apply code_at_app_r in Hc. fold cc in Hc |- *.
    pose proof (code_at_head _ _ _ _ Hc) as Hj. apply code_at_tail in Hc.
    replace (S (base + length cc)) with (base + length cc + 1) in * by lia.
    destruct (u_is_true (c_mode c) v) as [t| | |] eqn:Et; cbn [bind] in He; try discriminate;
      [|inversion He; subst; apply errs_here; rewrite (step_at _ _ _ _ _ _ _ _ _ Hj); cbn [exec_instr v_stk v_st]; rewrite Et; reflexivity].
    destruct t; (estepn Hj ltac:(rewrite Et)).
    + replace (S (base + length cc)) with (base + length cc + 1) in * by lia.
      eapply (IHl inl body Hbody _ _ _ He Hi1 (base + length cc + 1) lc stk escs caps its calls ltac:(eapply code_at_app_l; eauto) Hin Hf1).
    + destruct Hsh as [[-> Hne]|[-> [J ->]]].
      * cbn [if_arms] in He. exfalso. destruct els as [[|x b]|]; try discriminate.
        eapply exec_list_nil_err; eauto.
      * apply code_at_app_r in Hc. apply code_at_tail in Hc.
        eapply code_at_pc in Hc; [|instantiate (1 := base + length cc + 1 + length ct + 1); lia].
        eapply (IHr Hr _ _ He Hi1 _ stk escs caps its calls Hc Hf1).
Qed.


Lemma loop_err fuel esc tgt body n it loop_end body_at its0 : list_inv c C fuel ->
  sim_list fuel -> err_list fuel -> forallb (l2_stmt true) body = true ->
  code_at C it ([IIterate loop_end] ++ assign_code tgt ++ compile_stmts body body_at (Some (mkL it loop_end [])) ++ [IJump it]) ->
  body_at = it + 1 + length (assign_code tgt) ->
  loop_end = body_at + length (compile_stmts body body_at (Some (mkL it loop_end []))) + 1 ->
  forall items s i k, loop_items (exec_list c fuel esc) tgt body n s i items = Err k -> Inv s -> Forall vok items ->
  forall sv stk escs caps calls, head_rel i n s sv ->
    errs (mkVm it stk sv esc escs caps (items :: its0) calls) k.
Proof.
  intros LV IHb IHl Hbody Hc Hba Hle.
  pose proof (code_at_head _ _ _ _ Hc) as Hit.
  pose proof (code_at_tail _ _ _ _ Hc) as Hc1.
  pose proof (code_at_app_l _ _ _ _ Hc1) as Hca.
  pose proof (code_at_app_r _ _ _ _ Hc1) as Hc2.
  replace (S it + length (assign_code tgt)) with body_at in Hc2 by lia.
  pose proof (code_at_app_l _ _ _ _ Hc2) as Hcb.
  pose proof (code_at_head _ _ _ _ (code_at_app_r _ _ _ _ Hc2)) as Hj.
  induction items as [|item r IH]; intros s i k He Hi Hvi sv stk escs caps calls Hh; [discriminate|].
  destruct Hh as (A & Bq & D & f & fv & e & E1 & E2 & E3 & E4 & E5).
  cbn [loop_items] in He. fold (loop_items (exec_list c fuel esc) tgt body n) in He. rewrite E1 in He.
  set (s' := with_env s (mkFrame [] (Some (i, n, true)) (f_closure f) (f_closure_ctx f) false :: e)) in *.
  pose proof (Forall_inv Hvi) as Hvitem. pose proof (Forall_inv_tail Hvi) as Hvr.
  (* Iterate *)
  assert (S1 : star (mkVm it stk sv esc escs caps ((item :: r) :: its0) calls)
                    (mkVm (S it) (item :: stk) s' esc escs caps (r :: its0) calls)).
  { apply star_one. rewrite (step_at _ _ _ _ _ _ _ _ _ Hit). cbn [exec_instr v_iters v_st v_stk v_pc v_esc v_escs v_caps v_calls].
    rewrite E2. cbn [advance_loop]. rewrite E5. unfold s', with_env. rewrite A, Bq, D, E3, E4.
    replace (i - 1 + 1)%Z with i by lia. reflexivity. }
  eapply errs_trans; [exact S1|].
  destruct (bind_target tgt s' item) as [s3|k3| |] eqn:Eb; cbn [bind] in He; try discriminate;
    [|injection He as ->; eapply assign_err; eauto].
  assert (Hi3 : Inv s3).
  { eapply bind_target_Inv; [|exact Hvitem|exact Eb]. unfold s'. eapply reset_Inv; eauto. }
  pose proof (assign_sim c C tgt s' item s3 (S it) stk esc escs caps (r :: its0) calls Eb Hca) as S2.
  replace (S it + length (assign_code tgt)) with body_at in S2 by lia.
  eapply errs_trans; [exact S2|].
  destruct (exec_list c fuel esc s3 body) as [[sg s4]|k4| |] eqn:Ex; cbn [bind] in He; try discriminate.
  2: { injection He as ->.
       exact (IHl true body Hbody _ _ _ Ex Hi3 body_at (Some (mkL it loop_end [])) stk escs caps (r :: its0) calls Hcb ltac:(discriminate) I). }
  assert (Hi4 : Inv s4).
  { refine (LV true body Hbody _ _ _ _ _ Hi3 Ex). eexists _, _. exact Hcb. }
  assert (Hl3 : hdl s3 = Some (Some (i, n, true))).
  { rewrite (bind_target_hdl _ _ _ _ Eb). reflexivity. }
  assert (Hl4 : hdl s4 = Some (Some (i, n, true))).
  { rewrite <- Hl3. eapply (proj2 (frag_hdl c fuel)); eauto. }
  destruct (IHb true body Hbody _ _ _ _ Ex Hi3 body_at (Some (mkL it loop_end [])) stk escs caps (r :: its0) calls Hcb ltac:(discriminate) I) as [σ1 [S3 P3]].
  destruct (hdl_some _ _ Hl4) as (f4 & e4 & Ee4 & Ef4).
  assert (Hh4 : head_rel (i + 1) n s4 s4).
  { repeat split; auto. exists f4, f4, e4. repeat split; auto. rewrite Ef4. f_equal. f_equal. f_equal. lia. }
  eapply errs_trans; [exact S3|].
  destruct sg.
  - cbn [post] in P3. subst σ1.
    eapply errs_trans. { apply star_one. rewrite (step_at _ _ _ _ _ _ _ _ _ Hj). reflexivity. }
    exact (IH _ _ _ He Hi4 Hvr s4 stk escs caps calls Hh4).
  - discriminate.
  - cbn [post] in P3. destruct P3 as [l [Hl ->]]. inversion Hl; subst l. cbn [unwound lc_iter lc_pending] in *.
    exact (IH _ _ _ He Hi4 Hvr s4 stk escs caps calls Hh4).
Qed.


Lemma filter_err fuel esc tgt fe it1 jf its0 n : eval_inv c C fuel -> (forall esc e, l2_expr e = true -> sim_expr fuel esc e) ->
  err_expr fuel -> l2_expr fe = true ->
  code_at C it1 ([IIterate (jf + 7)] ++ [IDupTop] ++ assign_code tgt ++ compile_expr fe (it1 + 1 + 1 + length (assign_code tgt))
      ++ [IJumpIfFalse (jf + 5); ISwap; ILoadConst (VInt 1); IBinOp OAdd; IJump (jf + 6); IDiscardTop; IJump it1]) ->
  jf = it1 + 1 + 1 + length (assign_code tgt) + length (compile_expr fe (it1 + 1 + 1 + length (assign_code tgt))) ->
  forall items s k, filter_items (c_mode c) (eval c fuel esc) tgt fe s items = Err k -> Inv s -> Forall vok items ->
  forall sv acc i stk escs caps calls,
    frel i n s sv ->
    errs (mkVm it1 (VInt (lenZ acc) :: acc ++ stk) sv esc escs caps (items :: its0) calls) k.
Proof.
  intros EV IHe IHerr Hw Hc Hjf.
  pose proof (code_at_head _ _ _ _ Hc) as Hit.
  pose proof (code_at_tail _ _ _ _ Hc) as Hc1. cbn [app] in Hc1.
  pose proof (code_at_head _ _ _ _ Hc1) as Hdup.
  pose proof (code_at_tail _ _ _ _ Hc1) as Hc2.
  pose proof (code_at_app_l _ _ _ _ Hc2) as Hca.
  pose proof (code_at_app_r _ _ _ _ Hc2) as Hc3.
  replace (S (S it1) + length (assign_code tgt)) with (it1 + 1 + 1 + length (assign_code tgt)) in Hc3 by lia.
  pose proof (code_at_app_l _ _ _ _ Hc3) as Hcf.
  pose proof (code_at_app_r _ _ _ _ Hc3) as Hc4. rewrite <- Hjf in Hc4.
  pose proof (code_at_head _ _ _ _ Hc4) as H0.
  pose proof (code_at_head _ _ _ _ (code_at_tail _ _ _ _ Hc4)) as H1.
  pose proof (code_at_head _ _ _ _ (code_at_tail _ _ _ _ (code_at_tail _ _ _ _ Hc4))) as H2.
  pose proof (code_at_head _ _ _ _ (code_at_tail _ _ _ _ (code_at_tail _ _ _ _ (code_at_tail _ _ _ _ Hc4)))) as H3.
  pose proof (code_at_head _ _ _ _ (code_at_tail _ _ _ _ (code_at_tail _ _ _ _ (code_at_tail _ _ _ _ (code_at_tail _ _ _ _ Hc4))))) as H4.
  pose proof (code_at_head _ _ _ _ (code_at_tail _ _ _ _ (code_at_tail _ _ _ _ (code_at_tail _ _ _ _ (code_at_tail _ _ _ _ (code_at_tail _ _ _ _ Hc4)))))) as H5.
  pose proof (code_at_head _ _ _ _ (code_at_tail _ _ _ _ (code_at_tail _ _ _ _ (code_at_tail _ _ _ _ (code_at_tail _ _ _ _ (code_at_tail _ _ _ _ (code_at_tail _ _ _ _ Hc4))))))) as H6.
  induction items as [|item r IH]; intros s k He Hi Hvi sv acc i stk escs caps calls Hh; [discriminate|].
  destruct Hh as (A & Bq & D & fv & E1 & E2 & E3 & E4).
  cbn [filter_items] in He. fold (filter_items (c_mode c) (eval c fuel esc) tgt fe) in He.
  set (sf := push_frame s (mkFrame [] (Some (0%Z, 0%Z, false)) None None false)) in *.
  pose proof (Forall_inv Hvi) as Hvitem. pose proof (Forall_inv_tail Hvi) as Hvr.
  set (L := Some (i, n, false)).
  (* Iterate *)
  assert (S1 : star (mkVm it1 (VInt (lenZ acc) :: acc ++ stk) sv esc escs caps ((item :: r) :: its0) calls)
                    (mkVm (S (S it1)) (item :: item :: VInt (lenZ acc) :: acc ++ stk) (relab L sf) esc escs caps (r :: its0) calls)).
  { eapply star_step.
    { rewrite (step_at _ _ _ _ _ _ _ _ _ Hit). cbn [exec_instr v_iters v_st v_stk v_pc v_esc v_escs v_caps v_calls].
      rewrite E1. cbn [advance_loop]. rewrite E2. reflexivity. }
    eapply star_eq. { apply star_one. rewrite (step_at _ _ _ _ _ _ _ _ _ Hdup). reflexivity. }
    cbn [next v_pc v_stk v_st v_esc v_escs v_caps v_iters v_calls]. f_equal.
    unfold relab, sf, push_frame, with_env, L. cbn [s_env s_clos s_out s_asks f_locals f_closure f_closure_ctx f_base].
    rewrite A, Bq, D, E3, E4. replace (i - 1 + 1)%Z with i by lia. reflexivity. }
  eapply errs_trans; [exact S1|].
  assert (Hsf : s_env sf <> []) by (unfold sf, push_frame; cbn [s_env]; discriminate).
  destruct (bind_target tgt sf item) as [sf1|k1| |] eqn:Eb; cbn [bind] in He; try discriminate.
  2: { injection He as ->. eapply assign_err; [eapply bind_target_err_any; exact Eb|exact Hca]. }
  assert (Isf1 : Inv sf1).
  { eapply bind_target_Inv; [|exact Hvitem|exact Eb]. apply push_Inv; [exact Hi|constructor]. }
  pose proof (bind_target_relab L tgt sf item sf1 Hsf Eb) as Eb'.
  pose proof (assign_sim c C tgt _ item _ (S (S it1)) (item :: VInt (lenZ acc) :: acc ++ stk) esc escs caps (r :: its0) calls Eb' Hca) as S2.
  replace (S (S it1) + length (assign_code tgt)) with (it1 + 1 + 1 + length (assign_code tgt)) in S2 by lia.
  eapply errs_trans; [exact S2|].
  assert (Hl1 : hdl sf1 = Some (Some (0%Z, 0%Z, false))) by (rewrite (bind_target_hdl _ _ _ _ Eb); reflexivity).
  assert (Hth : top_hidden sf1).
  { unfold top_hidden. destruct (hdl_some _ _ Hl1) as (f1 & e1 & Ee1 & Ef1). rewrite Ee1, Ef1. reflexivity. }
  assert (Irl : Inv (relab L sf1)).
  { destruct (relab_fields L sf1) as (R1 & _ & _). destruct Isf1 as [Ie Ic]. split; [|rewrite R1; exact Ic].
    rewrite relab_env. destruct (s_env sf1) as [|f1 e1]; [constructor|]. inversion Ie; subst. constructor; auto. }
  destruct (eval c fuel esc sf1 fe) as [[v sf2]|k2| |] eqn:Ee; cbn [bind] in He; try discriminate.
  2: { injection He as ->.
       pose proof (eval_relab_err c L eq_refl fuel esc fe Hw sf1 _ Hth Ee) as Ee'.
       exact (IHerr esc fe Hw _ _ Ee' Irl _ (item :: VInt (lenZ acc) :: acc ++ stk) escs caps (r :: its0) calls Hcf). }
  destruct (EV esc fe Hw _ _ _ Isf1 Ee) as [_ Isf2].
  pose proof (pop_Inv C _ Isf2) as Ipop.
  destruct (eval_relab c L eq_refl fuel esc fe Hw sf1 v sf2 Hth Ee) as [Ee' Henv2].
  pose proof (IHe esc fe Hw _ _ _ Ee' Irl _ (item :: VInt (lenZ acc) :: acc ++ stk) escs caps (r :: its0) calls Hcf) as S3.
  rewrite <- Hjf in S3.
  eapply errs_trans; [exact S3|].
  destruct (u_is_true (c_mode c) v) as [keep|k3| |] eqn:Ek; cbn [bind] in He; try discriminate.
  2: { injection He as ->. apply errs_here. rewrite (step_at _ _ _ _ _ _ _ _ _ H0). cbn [exec_instr v_stk v_st]. rewrite Ek. reflexivity. }
  destruct (filter_items (c_mode c) (eval c fuel esc) tgt fe (pop_frame sf2) r) as [[rest s4]|k4| |] eqn:Er; cbn [bind] in He; try discriminate.
  injection He as ->.
  (* the relation for the next item *)
  assert (Hc1' : topc sf1 = Some (None, None)) by (rewrite (bind_target_topc _ _ _ _ Eb); reflexivity).
  assert (Hh' : frel (i + 1) n (pop_frame sf2) (relab L sf2)).
  { destruct (relab_fields L sf2) as (R1 & R2 & R3).
    unfold frel. cbn [pop_frame s_clos s_out s_asks s_env]. repeat split; auto.
    rewrite relab_env. unfold topc in Hc1'. rewrite <- Henv2 in Hc1'.
    destruct (s_env sf2) as [|f2 e2]; [discriminate|]. inversion Hc1' as [[Q1 Q2]].
    eexists. split; [reflexivity|]. cbn [tl f_loop f_closure f_closure_ctx]. repeat split; auto.
    unfold L. f_equal. f_equal. f_equal. lia. }
  pose proof (lenZ_nonneg acc) as Hn0.
  destruct keep.
  - eapply errs_trans. { apply star_one. rewrite (step_at _ _ _ _ _ _ _ _ _ H0). cbn [exec_instr v_stk v_st]. rewrite Ek. reflexivity. }
    vmsimp.
    eapply errs_trans. { apply star_one. rewrite (step_at _ _ _ _ _ _ _ _ _ H1). reflexivity. } vmsimp.
    eapply errs_trans. { apply star_one. rewrite (step_at _ _ _ _ _ _ _ _ _ H2). reflexivity. } vmsimp.
    destruct (counter_step (lenZ acc) Hn0) as [Hr|Hr].
    + eapply errs_trans. { apply star_one. rewrite (step_at _ _ _ _ _ _ _ _ _ H3). cbn [exec_instr v_stk v_st bind do_bin]. rewrite Hr. reflexivity. }
      vmsimp.
      eapply errs_trans. { apply star_one. rewrite (step_at _ _ _ _ _ _ _ _ _ H4). reflexivity. } vmsimp.
      replace (S (S (S (S (S (S jf)))))) with (jf + 6) in H6 by lia.
      eapply errs_trans. { apply star_one. rewrite (step_at _ _ _ _ _ _ _ _ _ H6). reflexivity. } vmsimp.
      pose proof (IH _ _ Er Ipop Hvr (relab L sf2) (item :: acc) (i + 1)%Z stk escs caps calls Hh') as S4.
      rewrite lenZ_cons in S4. cbn [app] in S4. exact S4.
    + (* the counter would overflow *)
      eexists. split; [constructor|]. right. split; [exact H3|]. cbn [v_stk]. eauto.
  - eapply errs_trans. { apply star_one. rewrite (step_at _ _ _ _ _ _ _ _ _ H0). cbn [exec_instr v_stk v_st]. rewrite Ek. reflexivity. }
    vmsimp.
    replace (S (S (S (S (S jf))))) with (jf + 5) in H5 by lia.
    eapply errs_trans. { apply star_one. rewrite (step_at _ _ _ _ _ _ _ _ _ H5). reflexivity. } vmsimp.
    replace (S (jf + 5)) with (jf + 6) by lia.
    replace (S (S (S (S (S (S jf)))))) with (jf + 6) in H6 by lia.
    eapply errs_trans. { apply star_one. rewrite (step_at _ _ _ _ _ _ _ _ _ H6). reflexivity. } vmsimp.
    exact (IH _ _ Er Ipop Hvr (relab L sf2) acc (i + 1)%Z stk escs caps calls Hh').
Qed.


Lemma pre_err fuel esc tgt iter flt rc base s k stk escs caps its calls :
  eval_inv c C fuel -> (forall esc e, l2_expr e = true -> sim_expr fuel esc e) -> err_expr fuel ->
  l2_expr iter = true -> match flt with Some fe => l2_expr fe | None => true end = true ->
  (eval c fuel esc s iter = Err k \/
   exists iv s1, eval c fuel esc s iter = Ok (iv, s1) /\
     (loop_items_of (c_mode c) iv = Err k \/
      exists items0 fe, loop_items_of (c_mode c) iv = Ok items0 /\ flt = Some fe /\
        filter_items (c_mode c) (eval c fuel esc) tgt fe s1 items0 = Err k)) ->
  code_at C base (f_pre tgt iter flt rc base) ->
  Inv s ->
  errs (mkVm base stk s esc escs caps its calls) k.
Proof.
  intros EV IHe IHerr Hiter Hflt Hcase Hc Hi.
  destruct flt as [fe|]; cbn [f_pre] in Hc.
  - (* with filter *)
    set (ci := compile_expr iter (base + 1)) in *.
    set (it1 := base + 1 + length ci + 1) in *.
    set (ca := assign_code tgt) in *.
    set (cf := compile_expr fe (it1 + 1 + 1 + length ca)) in *.
    set (jf := it1 + 1 + 1 + length ca + length cf) in *.
    pose proof (code_at_head _ _ _ _ Hc) as H0. apply code_at_tail in Hc.
    replace (S base) with (base + 1) in Hc by lia.
    eapply errs_trans. { apply star_one. rewrite (step_at _ _ _ _ _ _ _ _ _ H0). reflexivity. }
    vmsimp. replace (S base) with (base + 1) by lia.
    destruct Hcase as [E1|(iv & s1 & E1 & Hcase)].
    { eapply (IHerr esc iter Hiter _ _ E1 Hi). eapply code_at_app_l; eauto. }
    destruct (EV esc iter Hiter _ _ _ Hi E1) as [V1 I1].
    pose proof (IHe esc iter Hiter _ _ _ E1 Hi (base + 1) (VInt 0 :: stk) escs caps its calls ltac:(eapply code_at_app_l; eauto)) as S1.
    apply code_at_app_r in Hc. fold ci in Hc, S1.
    eapply errs_trans; [exact S1|].
    pose proof (code_at_head _ _ _ _ Hc) as Hpl. apply code_at_tail in Hc.
    replace (S (base + 1 + length ci)) with it1 in Hc by (unfold it1; lia).
    destruct Hcase as [E2|(items0 & fe' & E2 & Hfe & E3)].
    { apply errs_here. rewrite (step_at _ _ _ _ _ _ _ _ _ Hpl). cbn [exec_instr v_stk v_st]. rewrite E2. reflexivity. }
    injection Hfe as <-.
    pose proof (items_ok C _ _ _ V1 E2) as V0.
    assert (Hblk : code_at C it1 (([IIterate (jf + 7)] ++ [IDupTop] ++ ca ++ cf
               ++ [IJumpIfFalse (jf + 5); ISwap; ILoadConst (VInt 1); IBinOp OAdd; IJump (jf + 6); IDiscardTop; IJump it1])
               ++ [IPopLoopFrame; IBuildList None; IPushLoop (f_flags rc)])).
    { rewrite <- !app_assoc. cbn [app] in Hc |- *. exact Hc. }
    pose proof (code_at_app_l _ _ _ _ Hblk) as Hloop.
    set (n0 := lenZ items0).
    set (svl := push_frame s1 (mkFrame [] (Some ((-1)%Z, n0, false)) None None false)).
    eapply errs_trans.
    { apply star_one. rewrite (step_at _ _ _ _ _ _ _ _ _ Hpl). cbn [exec_instr v_stk v_st]. rewrite E2. cbn [bind]. reflexivity. }
    cbn [v_pc v_esc v_escs v_caps v_iters v_calls Nat.odd]. fold n0. fold svl.
    replace (S (base + 1 + length ci)) with it1 by (unfold it1; lia).
    assert (Hfr : frel 0 n0 s1 svl).
    { unfold svl, frel, push_frame. cbn [s_clos s_out s_asks s_env]. repeat split; auto.
      eexists. split; [reflexivity|]. repeat split; reflexivity. }
    exact (filter_err fuel esc tgt fe it1 jf its n0 EV IHe IHerr Hflt Hloop eq_refl _ _ _ E3 I1 V0 svl [] 0%Z stk escs caps calls Hfr).
  - (* without filter *)
    destruct Hcase as [E1|(iv & s1 & E1 & Hcase)].
    { eapply (IHerr esc iter Hiter _ _ E1 Hi). eapply code_at_app_l; eauto. }
    eapply errs_trans. { eapply (IHe esc iter Hiter _ _ _ E1 Hi). eapply code_at_app_l; eauto. }
    apply code_at_app_r in Hc.
    destruct Hcase as [E2|(items0 & fe' & _ & Hfe & _)]; [|discriminate].
    apply errs_here. at_instr Hc. rewrite E2. reflexivity.
Qed.


Lemma stmt_err_step fuel : err_expr fuel -> err_call fuel -> err_stmt fuel -> err_list fuel ->
  err_stmt (S fuel) /\ err_list (S fuel).
Proof.
  intros IHerr IHcall IHs IHl.
  destruct (inv_all c C Hcfg Hwf fuel) as (EV & CV & SV & LV).
  destruct (sim_levels c C Hcfg Hwf fuel) as (IHe & SC & SS & SL).
  split.
  - intros inl t Hw esc s k He Hi base lc stk escs caps its calls Hc Hin Hf.
    destruct t; cbn [l2_stmt] in Hw; cbn [exec] in He.
    + (* SRaw *) discriminate.
    + (* SEmit *) cbn [compile_stmt] in Hc.
      ebind He as [[v s1]|k1| |] named E1.
      * eapply errs_trans. { eapply (IHe esc e Hw _ _ _ E1 Hi). eapply code_at_app_l; eauto. }
        apply code_at_app_r in Hc.
        destruct (u_strictish (c_mode c) && is_strict_undef v) eqn:Eu; cbv iota in He; [|discriminate]. injection He as <-.
        apply errs_here. at_instr Hc. rewrite Eu. reflexivity.
      * injection He as ->. eapply (IHerr esc e Hw _ _ E1 Hi). eapply code_at_app_l; eauto.
    + (* SIf *) cbn [compile_stmt] in Hc.
      apply andb_prop in Hw as [Harms Hels].
      eapply (if_err fuel esc els lc inl EV IHe IHerr IHl Hels Hin arms Harms _ _ He Hi); eauto.
    + (* SFor *)
      apply andb_prop in Hw as [Hw Hels]. apply andb_prop in Hw as [Hw Hbody]. apply andb_prop in Hw as [Hiter Hflt].
      rewrite compile_for_eq in Hc.
      set (pre := f_pre t iter filter recursive base) in *.
      set (it := f_it t iter filter recursive base) in *. set (body_at := f_body_at t iter filter recursive base) in *.
      set (loop_end := f_end t iter filter recursive body base) in *.
      assert (Hit : it = base + length pre) by reflexivity.
      assert (Hba : body_at = it + 1 + length (assign_code t)) by reflexivity.
      pose proof (f_end_eq t iter filter recursive body base) as Hlen. fold loop_end body_at it in Hlen.
      pose proof (code_at_app_l _ _ _ _ Hc) as Hpre.
      ebind He as [[iv s1]|k1| |] named E1.
      2: { injection He as ->. eapply (pre_err fuel esc t iter filter recursive base s _ stk escs caps its calls EV IHe IHerr Hiter Hflt); [|exact Hpre|exact Hi].
           left. exact E1. }
      ebind He as [items0|k2| |] named E2. change (loop_items_of (c_mode c) iv = Ok items0) in E2.
      2: { injection He as ->. eapply (pre_err fuel esc t iter filter recursive base s _ stk escs caps its calls EV IHe IHerr Hiter Hflt); [|exact Hpre|exact Hi].
           right. exists iv, s1. split; [exact E1|]. left. exact E2. }
      match type of He with bind ?x _ = _ => destruct x as [[items s2]|k3| |] eqn:E3; cbn [bind] in He; try discriminate end.
      2: { injection He as ->. eapply (pre_err fuel esc t iter filter recursive base s _ stk escs caps its calls EV IHe IHerr Hiter Hflt); [|exact Hpre|exact Hi].
           right. exists iv, s1. split; [exact E1|]. right. destruct filter as [fe|]; [|discriminate].
           exists items0, fe. auto. }
      cbv zeta in He.
      destruct (EV esc iter Hiter _ _ _ Hi E1) as [V1 I1].
      pose proof (items_ok C _ _ _ V1 E2) as V0.
      assert (H2 : Forall vok items /\ Inv s2).
      { destruct filter as [fe|].
        - eapply (filter_items_Inv C (eval c fuel esc) (fun e => l2_expr e = true) (EV esc)); eauto.
        - inversion E3; subst. auto. }
      destruct H2 as [V2 I2].
      set (n := lenZ items) in *.
      set (sv0 := push_frame s2 (mkFrame [] (Some ((-1)%Z, n, true)) None None false)).
      pose proof (pre_sim c C fuel esc t iter filter recursive base s iv s1 items0 items s2 stk escs caps its calls
                  EV IHe Hiter Hflt E1 E2 E3 Hpre Hi) as S12.
      fold it n sv0 in S12.
      apply code_at_app_r in Hc. rewrite <- Hit in Hc.
      set (TAIL := match els with
                   | None | Some [] => [IJump it; IPopLoopFrame]
                   | Some eb => [IJump it; IPushDidNotIterate; IPopLoopFrame;
                                 IJumpIfFalse (loop_end + 3 + length (compile_stmts eb (loop_end + 3) lc))]
                                ++ compile_stmts eb (loop_end + 3) lc
                   end) in *.
      assert (HT : exists T', TAIL = IJump it :: T') by (unfold TAIL; destruct els as [[|x b]|]; eexists; reflexivity).
      destruct HT as [T' HT].
      assert (Hc3 : code_at C it (([IIterate loop_end] ++ assign_code t ++ compile_stmts body body_at (Some (mkL it loop_end [])) ++ [IJump it]) ++ T')).
      { rewrite HT in Hc. rewrite <- !app_assoc. exact Hc. }
      pose proof (code_at_app_r _ _ _ _ Hc3) as Hct. apply code_at_app_l in Hc3.
      replace (it + length ([IIterate loop_end] ++ assign_code t ++ compile_stmts body body_at (Some (mkL it loop_end [])) ++ [IJump it]))
        with loop_end in Hct by (rewrite !app_length; cbn [length]; lia).
      assert (Ipush : Inv (push_frame s2 (mkFrame [] (Some (0%Z, n, true)) None None false))) by (apply push_Inv; [auto|constructor]).
      assert (Hh0 : head_rel 0 n (push_frame s2 (mkFrame [] (Some (0%Z, n, true)) None None false)) sv0).
      { unfold sv0, push_frame. repeat split; cbn [s_clos s_out s_asks s_env]; auto.
        eexists _, _, _. repeat split; reflexivity. }
      eapply errs_trans; [exact S12|].
      match type of He with bind ?x _ = _ => destruct x as [s5|k4| |] eqn:E4; cbn [bind] in He; try discriminate end.
      2: { injection He as ->.
           exact (loop_err fuel esc t body n it loop_end body_at its LV SL IHl Hbody Hc3 ltac:(reflexivity) Hlen items _ _ _ E4 Ipush V2 sv0 stk escs caps calls Hh0). }
      cbv zeta in He.
      destruct items as [|it0 items']; [|discriminate].
      destruct els as [eb|]; [|discriminate].
      destruct eb as [|x b]; [exfalso; eapply exec_list_nil_err; eauto|].
      destruct (loop_sim c C fuel esc t body n it loop_end body_at its LV SL Hbody Hc3
                  ltac:(reflexivity) Hlen [] _ _ _ E4 Ipush V2 sv0 stk escs caps calls Hh0) as (sv5 & rest & S3 & T5).
      destruct T5 as (A5 & B5 & D5 & E5 & fv5 & e5 & k5 & Ee5 & Ef5).
      assert (I5 : Inv s5).
      { eapply (loop_items_Inv C (exec_list c fuel esc) body); [|exact V2|exact Ipush|exact E4].
        intros s0 sg0 s0' Hi0 He0. refine (LV true body Hbody _ _ _ _ _ Hi0 He0).
        exists body_at, (Some (mkL it loop_end [])). pose proof (code_at_tail _ _ _ _ Hc3) as Q. apply code_at_app_r in Q. apply code_at_app_l in Q.
        eapply code_at_pc; [exact Q|lia]. }
      pose proof (pop_Inv C _ I5) as I6.
      assert (Hpop : pop_frame sv5 = pop_frame s5).
      { unfold pop_frame. rewrite A5, B5, D5, E5. reflexivity. }
      assert (H6 : s_env (pop_frame s5) = s_env s).
      { cbn [loop_items] in E4. injection E4 as <-. unfold pop_frame, push_frame. cbn [s_env tl].
        destruct filter as [fe|].
        - transitivity (s_env s1); [|eapply eval_env_proof; eauto].
          eapply filter_items_env; [apply eval_env_proof|exact E3].
        - inversion E3; subst. eapply eval_env_proof; eauto. }
      assert (Hf6 : lc_fits lc (length (s_env (pop_frame s5))) (length escs) (length caps)) by (rewrite H6; exact Hf).
      eapply errs_trans; [exact S3|].
      subst TAIL. cbn [app] in HT; injection HT as HT'; subst T'. cbn [app] in Hct.
      assert (Hcl : current_loop (s_env sv5) = Some (k5, n, true)) by (rewrite Ee5; cbn [current_loop]; rewrite Ef5; reflexivity).
      pose proof (code_at_tail _ _ _ _ Hct) as Hct1. pose proof (code_at_tail _ _ _ _ Hct1) as Hct2.
      pose proof (code_at_tail _ _ _ _ Hct2) as Hct3.
      replace (S (S (S loop_end))) with (loop_end + 3) in Hct3 by lia.
      estep Hct ltac:(rewrite Hcl). estep Hct1 ltac:(rewrite Ee5, Ef5). rewrite Hpop.
      eapply errs_trans.
      { apply star_one. rewrite (step_at _ _ _ _ _ _ _ _ _ (code_at_head _ _ _ _ Hct2)). cbn [exec_instr v_stk v_st]. rewrite u_is_true_bool. cbn [bind].
        unfold n. cbn [lenZ length Z.of_nat Z.eqb]. reflexivity. }
      vmsimp. replace (S (S (S loop_end))) with (loop_end + 3) by lia.
      exact (IHl inl (x :: b) Hels _ _ _ He I6 (loop_end + 3) lc stk escs caps its calls Hct3 Hin Hf6).
    + (* SSet *) cbn [compile_stmt] in Hc.
      ebind He as [[v s1]|k1| |] named E1.
      * (* the right-hand side evaluates; the unpacking fails *)
        ebind He as [s2|k2| |] named E2. injection He as ->.
        eapply errs_trans. { eapply (IHe esc e Hw _ _ _ E1 Hi). eapply code_at_app_l; eauto. }
        apply code_at_app_r in Hc. eapply assign_err; [exact E2|exact Hc].
      * injection He as ->. eapply (IHerr esc e Hw _ _ E1 Hi). eapply code_at_app_l; eauto.
    + (* SSetBlock *) cbn [compile_stmt] in Hc.
      pose proof (code_at_head _ _ _ _ Hc) as Hb. apply code_at_tail in Hc.
      assert (Hi0 : Inv (with_out s [])) by (eapply Inv_same; [| |exact Hi]; reflexivity).
      estepn Hb idtac. replace (S base) with (base + 1) in * by lia.
      assert (Hcb : code_at C (base + 1) (compile_stmts body (base + 1) (enter_scope ClCapture lc)))
        by (eapply code_at_app_l; eapply code_at_pc; [exact Hc|lia]).
      assert (Hin' : inl = true -> enter_scope ClCapture lc <> None) by (intros Hq; apply enter_some, Hin, Hq).
      pose proof (fits_enter ClCapture lc _ _ _ Hf) as Hf'.
      ebind He as [[[sg1 txt] s1]|k1| |] named E1.
      * ebind E1 as [[sg2 s2]|k2| |] named E2. inversion E1; subst sg1 txt s1. clear E1.
        destruct (SL inl body Hw _ _ _ _ E2 Hi0 (base + 1) (enter_scope ClCapture lc) stk escs (s_out s :: caps) its calls Hcb Hin' Hf') as [σ1 [S2 P2]].
        eapply errs_trans; [exact S2|].
        destruct sg2; try discriminate.
        cbn [post] in P2. subst σ1.
        ebind He as [fv|k3| |] named Ef. injection He as ->.
        apply code_at_app_r in Hc. estep Hc idtac. apply code_at_tail in Hc.
        destruct filter as [f|]; [|discriminate]. cbn [app] in Hc.
        apply errs_here. at_instr Hc. cbn [pop_n]. rewrite Ef. reflexivity.
      * injection He as ->. ebind E1 as [[sg2 s2]|k2| |] named E2. injection E1 as ->.
        exact (IHl inl body Hw _ _ _ E2 Hi0 (base + 1) (enter_scope ClCapture lc) stk escs (s_out s :: caps) its calls Hcb Hin' Hf').
    + (* SWith *) cbn [compile_stmt] in Hc.
      apply andb_prop in Hw as [Hb Hbody].
      assert (Hi0 : Inv (push_frame s empty_frame)) by (apply push_Inv; [auto|constructor]).
      pose proof (code_at_head _ _ _ _ Hc) as Hp. apply code_at_tail in Hc.
      estepn Hp idtac. replace (S base) with (base + 1) in * by lia.
      ebind He as [s1|k1| |] named E1.
      2: { injection He as ->.
           exact (binds_err fuel esc binds EV IHe IHerr Hb _ _ E1 Hi0 (base + 1) stk escs caps its calls ltac:(eapply code_at_app_l; eauto)). }
      assert (Hi1 : Inv s1).
      { refine (with_binds_Inv C (eval c fuel esc) (fun e => l2_expr e = true) (EV esc) binds (forallb_F _ _ Hb) _ _ Hi0 E1). }
      pose proof (binds_sim c C fuel esc binds EV IHe Hb _ _ E1 Hi0 (base + 1) stk escs caps its calls ltac:(eapply code_at_app_l; eauto)) as S1.
      eapply errs_trans; [exact S1|].
      apply code_at_app_r in Hc.
      pose proof E1 as R1. apply with_binds_R in R1; [|apply eval_env_proof]. destruct R1 as [_ L1]. cbn [push_frame s_env length] in L1.
      ebind He as [[sg2 s2]|k2| |] named E2. injection He as ->.
      exact (IHl inl body Hbody _ _ _ E2 Hi1 _ (enter_scope ClFrame lc) stk escs caps its calls ltac:(eapply code_at_app_l; eauto)
                  ltac:(intros Hq; apply enter_some, Hin, Hq)
                  ltac:(rewrite L1; exact (fits_enter ClFrame lc _ _ _ Hf))).
    + (* SMacro *) destruct (enclose c s (macro_closure params defaults body)); discriminate.
    + (* SCallBlock *) cbn [compile_stmt] in Hc.
      apply andb_prop in Hw as [Ha Hbody].
      ebind He as [[vs s1]|k1| |] named E1.
      2: { injection He as ->.
           exact (seq_err c C fuel esc args EV (IHe esc) IHerr Ha _ _ E1 Hi _ _ _ _ _ _ ltac:(eapply code_at_app_l; eauto)). }
      destruct (map_eval_Inv C (eval c fuel esc) (fun e => l2_expr e = true) (EV esc) args (forallb_F _ _ Ha) _ _ _ Hi E1) as [V1 I1].
      destruct (enclose c s1 (macro_closure [] [] body)) as [s2 cl] eqn:Ee.
      pose proof (enclose_Inv c C Hcfg _ _ _ _ I1 Ee) as I2.
      destruct (lookup c s2 m) as [fv s3] eqn:El. destruct (lookup_ok c C Hcfg _ _ _ _ I2 El) as [Vf I3].
      set (cm := mkMacro N_caller [] [] body (uses_caller [] [] body)) in *.
      assert (Vcm : vok (VMacro cm cl)).
      { cbn [L2.Simulation.vok]. repeat split; cbn [m_defaults m_body cm]; auto.
        eapply (placed_callblock C m args body). exists base, lc. cbn [compile_stmt]. exact Hc. }
      pose proof (map_eval_length _ _ _ _ _ E1) as Hlen.
      set (cargs := seq_code compile_expr args base) in *.
      pose proof (seq_sim c C fuel esc args EV (IHe esc) Ha _ _ _ E1 Hi base stk escs caps its calls ltac:(eapply code_at_app_l; eauto)) as S1.
      fold cargs in S1.
      apply code_at_app_r in Hc. pose proof (code_at_head _ _ _ _ Hc) as Hk. apply code_at_tail in Hc.
      replace (S (base + length cargs)) with (base + length cargs + 1) in Hc by lia.
      pose proof (macro_decl_sim c C N_caller [] [] body (base + length cargs + 1) s1 s2 cl (VInt N_caller :: rev vs ++ stk) esc escs caps its calls
                    ltac:(eapply code_at_app_l; exact Hc) Ee) as S2.
      fold cm in S2. apply code_at_app_r in Hc.
      set (mcd := macro_code (fun b pc => compile_stmts b pc None) N_caller [] [] body (base + length cargs + 1)) in *.
      pose proof (code_at_head _ _ _ _ Hc) as Hbk. apply code_at_tail in Hc.
      pose proof (code_at_head _ _ _ _ Hc) as Hcf. apply code_at_tail in Hc.
      eapply errs_trans; [exact S1|].
      eapply errs_trans. { apply star_one. rewrite (step_at _ _ _ _ _ _ _ _ _ Hk). reflexivity. } vmsimp.
      replace (S (base + length cargs)) with (base + length cargs + 1) by lia.
      eapply errs_trans; [exact S2|].
      eapply (errs_trans _ (mkVm (S (base + length cargs + 1 + length mcd)) (rev (vs ++ [kwargs_val [(N_caller, VMacro cm cl)]]) ++ stk) s2 esc escs caps its calls)).
      { apply star_one. rewrite (step_at _ _ _ _ _ _ _ _ _ Hbk). rewrite rev_app_distr. reflexivity. }
      assert (Hpop : pop_n (length args + 1) (rev (vs ++ [kwargs_val [(N_caller, VMacro cm cl)]]) ++ stk) [] = Some (vs ++ [kwargs_val [(N_caller, VMacro cm cl)]], stk)).
      { replace (length args + 1) with (length (vs ++ [kwargs_val [(N_caller, VMacro cm cl)]])) by (rewrite app_length; cbn [length]; lia).
        rewrite (pop_n_rev (vs ++ [kwargs_val [(N_caller, VMacro cm cl)]]) stk []), app_nil_r. reflexivity. }
      destruct fv as [[| | | | | | | |mc mcl| |g]|];
        try (apply errs_here; rewrite (step_at _ _ _ _ _ _ _ _ _ Hcf); cbn [exec_instr v_stk v_st]; rewrite Hpop, split_kwargs_kw, El; inversion He; reflexivity).
      * ebind He as [[v s4]|k4| |] named E4. injection He as ->.
        destruct (IHcall esc s3 mc mcl vs [(N_caller, VMacro cm cl)] _ E4 I3 Vf V1 ltac:(constructor; [exact Vcm|constructor])
                    (S (base + length cargs + 1 + length mcd)) (rev (vs ++ [kwargs_val [(N_caller, VMacro cm cl)]]) ++ stk) s2 stk escs caps its calls)
          as [Hvm|(σ1 & Hvm & Herr)].
        -- apply errs_here. rewrite (step_at _ _ _ _ _ _ _ _ _ Hcf). cbn [exec_instr v_stk v_st]. rewrite Hpop, split_kwargs_kw, El. exact Hvm.
        -- eapply errs_trans; [|exact Herr]. apply star_one.
           rewrite (step_at _ _ _ _ _ _ _ _ _ Hcf). cbn [exec_instr v_stk v_st]. rewrite Hpop, split_kwargs_kw, El. exact Hvm.
      * (* a function: range does not take keyword arguments *)
        cbn [L2.Simulation.vok] in Vf. subst g.
        apply errs_here. rewrite (step_at _ _ _ _ _ _ _ _ _ Hcf). cbn [exec_instr v_stk v_st]. rewrite Hpop, split_kwargs_kw, El, Z.eqb_refl.
        inversion He. destruct vs as [|[| | | |n0| | | | | |] [|? ?]]; reflexivity.
    + (* SFilterBlock *) cbn [compile_stmt] in Hc.
      pose proof (code_at_head _ _ _ _ Hc) as Hb. apply code_at_tail in Hc.
      assert (Hi0 : Inv (with_out s [])) by (eapply Inv_same; [| |exact Hi]; reflexivity).
      estepn Hb idtac. replace (S base) with (base + 1) in * by lia.
      assert (Hcb : code_at C (base + 1) (compile_stmts body (base + 1) (enter_scope ClCapture lc)))
        by (eapply code_at_app_l; eapply code_at_pc; [exact Hc|lia]).
      assert (Hin' : inl = true -> enter_scope ClCapture lc <> None) by (intros Hq; apply enter_some, Hin, Hq).
      pose proof (fits_enter ClCapture lc _ _ _ Hf) as Hf'.
      ebind He as [[[sg1 txt] s1]|k1| |] named E1.
      * ebind E1 as [[sg2 s2]|k2| |] named E2. inversion E1; subst sg1 txt s1. clear E1.
        destruct (SL inl body Hw _ _ _ _ E2 Hi0 (base + 1) (enter_scope ClCapture lc) stk escs (s_out s :: caps) its calls Hcb Hin' Hf') as [σ1 [S2 P2]].
        eapply errs_trans; [exact S2|].
        destruct sg2; try discriminate.
        cbn [post] in P2. subst σ1.
        ebind He as [fv|k3| |] named Ef. injection He as ->.
        apply code_at_app_r in Hc. estep Hc idtac. apply code_at_tail in Hc.
        apply errs_here. at_instr Hc. cbn [pop_n]. rewrite Ef. reflexivity.
      * injection He as ->. ebind E1 as [[sg2 s2]|k2| |] named E2. injection E1 as ->.
        exact (IHl inl body Hw _ _ _ E2 Hi0 (base + 1) (enter_scope ClCapture lc) stk escs (s_out s :: caps) its calls Hcb Hin' Hf').
    + (* SAutoEscape *) cbn [compile_stmt] in Hc.
      apply andb_prop in Hw as [Hv Hbody].
      ebind He as [[x s1]|k1| |] named E1.
      2: { injection He as ->. eapply (IHerr esc v Hv _ _ E1 Hi). eapply code_at_app_l; eauto. }
      destruct (EV esc v Hv _ _ _ Hi E1) as [_ Hi1].
      pose proof (IHe esc v Hv _ _ _ E1 Hi base stk escs caps its calls ltac:(eapply code_at_app_l; eauto)) as S1.
      eapply errs_trans; [exact S1|].
      apply code_at_app_r in Hc. pose proof (code_at_head _ _ _ _ Hc) as Hp. apply code_at_tail in Hc.
      replace (S (base + length (compile_expr v base))) with (base + length (compile_expr v base) + 1) in * by lia.
      assert (Henv1 : s_env s1 = s_env s) by (eapply eval_env_proof; eauto).
      ebind He as [esc'|k2| |] named Ee.
      2: { injection He as ->. change (derive_auto_escape x = Err k) in Ee.
           apply errs_here. rewrite (step_at _ _ _ _ _ _ _ _ _ Hp). cbn [exec_instr v_stk v_st]. rewrite Ee. reflexivity. }
      change (derive_auto_escape x = Ok esc') in Ee.
      estepn Hp ltac:(rewrite Ee).
      replace (S (base + length (compile_expr v base))) with (base + length (compile_expr v base) + 1) in * by lia.
      exact (IHl inl body Hbody _ _ _ He Hi1 _ (enter_scope ClAutoEscape lc) stk (esc :: escs) caps its calls ltac:(eapply code_at_app_l; eauto)
                  ltac:(intros Hq; apply enter_some, Hin, Hq)
                  ltac:(rewrite Henv1; exact (fits_enter ClAutoEscape lc _ _ _ Hf))).
    + discriminate.
    + discriminate.
  - intros inl l Hw esc s k He Hi base lc stk escs caps its calls Hc Hin Hf.
    destruct l as [|t r]; cbn [exec_list] in He; [discriminate|].
    cbn [forallb] in Hw. apply andb_prop in Hw as [Ht Hr].
    unfold compile_stmts in Hc. cbn [seq_code] in Hc.
    fold (compile_stmts r (base + length (compile_stmt t base lc)) lc) in Hc.
    ebind He as [[sg1 s1]|k1| |] named E1.
    2: { injection He as ->. exact (IHs inl t Ht _ _ _ E1 Hi base lc stk escs caps its calls ltac:(eapply code_at_app_l; eauto) Hin Hf). }
    assert (Hi1 : Inv s1).
    { refine (SV inl t Ht _ _ _ _ _ Hi E1). exists base, lc. eapply code_at_app_l; exact Hc. }
    destruct (SS inl t Ht _ _ _ _ E1 Hi base lc stk escs caps its calls ltac:(eapply code_at_app_l; eauto) Hin Hf) as [σ1 [S1 P1]].
    apply code_at_app_r in Hc.
    destruct sg1; try discriminate.
    cbn [post] in P1. subst σ1.
    assert (Hf1 : lc_fits lc (length (s_env s1)) (length escs) (length caps)).
    { apply exec_R_proof in E1. destruct E1 as [_ L]. rewrite L. exact Hf. }
    eapply errs_trans; [exact S1|].
    exact (IHl inl r Hr _ _ _ He Hi1 _ lc stk escs caps its calls Hc Hin Hf1).
Qed.


(* ---- all levels ---- *)
Lemma err_levels : forall fuel, err_expr fuel /\ err_call fuel /\ err_stmt fuel /\ err_list fuel.
Proof.
  induction fuel as [|fuel (IHe & IHc & IHs & IHl)].
  - split; [|split; [|split]].
    + intros esc e _ s k He. discriminate.
    + intros esc s mc cl args kw k He. discriminate.
    + intros inl t _ esc s k He. discriminate.
    + intros inl l _ esc s k He. discriminate.
  - destruct (stmt_err_step fuel IHe IHc IHs IHl) as [Ss Sl].
    split; [|split; [|split]]; auto.
    + exact (expr_err_step c C Hcfg Hwf fuel IHe IHc).
    + exact (call_err_step c C Hcfg Hwf fuel IHe IHl).
Qed.

(* what a failing run means for the VM proper *)
Lemma errs_run σ k : errs σ k ->
  (exists σ', L2.Simulation.star c C σ σ' /\ step c C σ' = Err k) \/
  (exists σo, L2.Simulation.star c C σ σo /\ overflow C σo).
Proof.
  intros (σ' & S & H). destruct (starO_inv c C _ _ S) as [S'|(o & S' & O)]; [|right; eauto].
  destruct H as [H|H]; [left|right]; eauto.
Qed.

End ErrStmt.

(* whole templates: a run the interpreter ends with an error is a run the VM ends with that error *)
Lemma template_err_sim c fuel body k :
  cfg_ok (compile_template body) c -> wf_code (compile_template body) ->
  forallb (l2_stmt false) body = true -> Interp.run c fuel body = Err k ->
  (exists n, run_template c n (compile_template body) = Err k) \/
  (exists σo, L2.Simulation.star c (compile_template body) (init_vm c) σo /\ overflow (compile_template body) σo).
Proof.
  intros Hcfg Hwf Hw Hr. unfold Interp.run in Hr.
  destruct (exec_list c fuel (c_escape c) init_state body) as [[sg s1]|k1| |] eqn:E; cbn [bind] in Hr; try discriminate.
  injection Hr as ->.
  destruct (err_levels c _ Hcfg Hwf fuel) as (_ & _ & _ & El).
  pose proof (El false body Hw _ _ _ E (init_Inv _) 0 None [] [] [] [] [] (code_at_whole _) ltac:(discriminate) I) as Herr.
  destruct (errs_run c _ _ _ Herr) as [(σ' & S & H)|R]; [left|right; exact R].
  destruct (star_run_err c _ _ _ _ S H) as [n Hn].
  exists n. unfold run_template, init_vm. rewrite Hn. reflexivity.
Qed.

Theorem template_err c fuel body k :
  forallb (fun p => data_value (snd p)) (c_root c) = true ->
  forallb (l2_stmt false) body = true -> Interp.run c fuel body = Err k ->
  (exists n, run_template c n (compile_template body) = Err k) \/
  (exists σo, L2.Simulation.star c (compile_template body) (init_vm c) σo /\ overflow (compile_template body) σo).
Proof.
  intros Hd Hw Hr. eapply template_err_sim; eauto using wf_compile_template.
  unfold cfg_ok, kvok. apply Forall_forall. intros p Hp. apply data_vok.
  rewrite forallb_forall in Hd. apply Hd, Hp.
Qed.
