(* C03, bytecode level: simulation of expressions (one fuel level from the previous one), calls included. *)
From MJ Require Import Common.Base Lang.Syntax Lang.Meta Lang.Interp.
From MJ Require Import C04.Model.
From MJ Require Import C04.Spec.
From MJ Require Import C04.Proofs.
From MJ Require Import C03.Proofs.
From MJ Require Import L2.Instr.
From MJ Require Import L2.Compile.
From MJ Require Import L2.Vm.
From MJ Require Import L2.Simulation C03.L2Pos C03.L2Base C03.L2Inv.
Local Open Scope nat_scope.

Section Sim.
Variable c : cfg.
Variable C : list instr.
Hypothesis Hcfg : cfg_ok C c.
Hypothesis Hwf : wf_code C.

Notation star := (starO c C).
Notation star_step := (starO_step c C).
Notation star_trans := (C03.L2Base.star_trans c C).
Notation star_one := (C03.L2Base.star_one c C).
Notation star_eq := (C03.L2Base.star_eq c C).
Notation step_at := (C03.L2Base.step_at c C).
Notation Inv := (L2.Simulation.Inv C).
Notation vok := (L2.Simulation.vok C).
Notation kvok := (L2.Simulation.kvok C).

Definition sim_expr (fuel : nat) (esc : bool) (e : expr) : Prop :=
  forall s v s', eval c fuel esc s e = Ok (v, s') -> Inv s ->
  forall base stk escs caps its calls, code_at C base (compile_expr e base) ->
  star (mkVm base stk s esc escs caps its calls)
       (mkVm (base + length (compile_expr e base)) (v :: stk) s' esc escs caps its calls).

(* the VM side of Macro::call for a call the interpreter completes *)
Definition sim_call (fuel : nat) : Prop :=
  forall esc s mc cl args kw v s', call_macro c fuel esc s mc cl args kw = Ok (v, s') ->
  Inv s -> mok C mc -> Forall vok args -> kvok kw ->
  forall pc X s0 r escs caps its calls,
  exists σ1, call_macro_vm C (mkVm pc X s0 esc escs caps its calls) s r mc cl args kw = Ok σ1 /\
             star σ1 (mkVm (S pc) (v :: r) s' esc escs caps its calls).

Lemma compile_expr_const e base v : as_const e = Some v -> compile_expr e base = [ILoadConst v].
Proof. intros H. destruct e; cbn [compile_expr]; rewrite H; reflexivity. Qed.

(* saturate the context with the invariant of every intermediate state *)
Ltac sat :=
  repeat match goal with
  | EV : eval_inv c C ?fuel, E : eval c ?fuel ?esc ?s ?e = Ok (?v, ?s'), Hi : L2.Simulation.Inv C ?s, Hw : l2_expr ?e = true |- _ =>
      lazymatch goal with
      | _ : L2.Simulation.Inv C s' |- _ => fail
      | _ => destruct (EV esc e Hw _ _ _ Hi E) as [? ?]
      end
  end.

Lemma forallb_F {X} (p : X -> bool) l : forallb p l = true -> Forall (fun x => p x = true) l.
Proof. induction l; cbn; intros H; constructor; apply andb_prop in H as [? ?]; auto. Qed.

(* a list of expressions evaluated left to right ends up on the stack, last on top *)
Lemma seq_sim fuel esc items : eval_inv c C fuel ->
  (forall e, l2_expr e = true -> sim_expr fuel esc e) ->
  forallb l2_expr items = true ->
  forall s vs s', map_eval (eval c fuel esc) s items = Ok (vs, s') -> Inv s ->
  forall base stk escs caps its calls, code_at C base (seq_code compile_expr items base) ->
  star (mkVm base stk s esc escs caps its calls)
       (mkVm (base + length (seq_code compile_expr items base)) (rev vs ++ stk) s' esc escs caps its calls).
Proof.
  intros EV IH. induction items as [|x r IHr]; intros Hw s vs s' He Hi base stk escs caps its calls Hc.
  - cbn in He. inversion He; subst. cbn. rewrite Nat.add_0_r. constructor.
  - cbn [forallb] in Hw. apply andb_prop in Hw as [Hx Hr].
    cbn [map_eval] in He. fold (map_eval (eval c fuel esc)) in He.
    destruct (eval c fuel esc s x) as [[v s1]| | |] eqn:Ex; try discriminate. cbn [bind] in He.
    destruct (map_eval (eval c fuel esc) s1 r) as [[vr s2]| | |] eqn:Er; try discriminate. cbn [bind] in He.
    inversion He; subst. cbn [seq_code] in Hc |- *. fold (@seq_code expr compile_expr) in Hc |- *.
    destruct (EV esc x Hx _ _ _ Hi Ex) as [_ I1].
    eapply star_trans. { eapply (IH x Hx _ _ _ Ex Hi). eapply code_at_app_l; eauto. }
    apply code_at_app_r in Hc.
    eapply star_eq. { eapply (IHr Hr _ _ _ Er I1). exact Hc. }
    f_equal. { rewrite app_length. lia. } { cbn [rev]. now rewrite <- app_assoc. }
Qed.

(* the keys and values of a map literal end up on the stack pairwise, the last value on top *)
Definition pairs_flat (kvs : list (value * value)) : list value := flat_map (fun p => [fst p; snd p]) kvs.

Lemma pairs_flat_length kvs : length (pairs_flat kvs) = 2 * length kvs.
Proof. induction kvs as [|p r IH]; cbn [pairs_flat flat_map app length]; [reflexivity|]. fold (pairs_flat r). rewrite IH. lia. Qed.

Lemma pairs_of_vals_flat kvs : pairs_of_vals (pairs_flat kvs) = Some kvs.
Proof.
  induction kvs as [|[k v] r IH]; cbn [pairs_flat flat_map app pairs_of_vals fst snd]; [reflexivity|].
  fold (pairs_flat r). rewrite IH. reflexivity.
Qed.

Lemma map_eval_pairs_length (ev : st -> expr -> outcome (value * st)) pairs : forall s kvs s',
  map_eval_pairs ev s pairs = Ok (kvs, s') -> length kvs = length pairs.
Proof.
  induction pairs as [|[k x] r IH]; intros s kvs s' H; cbn [map_eval_pairs] in H.
  - inversion H. reflexivity.
  - fold (map_eval_pairs ev) in H. destruct (ev s k) as [[kv s1]| | |]; try discriminate. cbn [bind] in H.
    destruct (ev s1 x) as [[xv s2]| | |]; try discriminate. cbn [bind] in H.
    destruct (map_eval_pairs ev s2 r) as [[vr s3]| | |] eqn:E; try discriminate. cbn [bind] in H.
    inversion H; subst. cbn [length]. f_equal. eapply IH; eauto.
Qed.

Lemma pairs_sim fuel esc pairs : eval_inv c C fuel ->
  (forall e, l2_expr e = true -> sim_expr fuel esc e) ->
  forallb (fun p => l2_expr (fst p) && l2_expr (snd p)) pairs = true ->
  forall s kvs s', map_eval_pairs (eval c fuel esc) s pairs = Ok (kvs, s') -> Inv s ->
  forall base stk escs caps its calls, code_at C base (pairs_code compile_expr pairs base) ->
  star (mkVm base stk s esc escs caps its calls)
       (mkVm (base + length (pairs_code compile_expr pairs base)) (rev (pairs_flat kvs) ++ stk) s' esc escs caps its calls).
Proof.
  intros EV IH. induction pairs as [|[k x] r IHr]; intros Hw s kvs s' He Hi base stk escs caps its calls Hc.
  - cbn in He. inversion He; subst. cbn. rewrite Nat.add_0_r. constructor.
  - cbn [forallb fst snd] in Hw. apply andb_prop in Hw as [Hkx Hr]. apply andb_prop in Hkx as [Hk Hx].
    cbn [map_eval_pairs] in He. fold (map_eval_pairs (eval c fuel esc)) in He.
    destruct (eval c fuel esc s k) as [[kv s1]| | |] eqn:Ek; try discriminate. cbn [bind] in He.
    destruct (eval c fuel esc s1 x) as [[xv s2]| | |] eqn:Ex; try discriminate. cbn [bind] in He.
    destruct (map_eval_pairs (eval c fuel esc) s2 r) as [[vr s3]| | |] eqn:Er; try discriminate. cbn [bind] in He.
    inversion He; subst. cbn [pairs_code] in Hc |- *. fold (pairs_code compile_expr) in Hc |- *.
    destruct (EV esc k Hk _ _ _ Hi Ek) as [_ I1]. destruct (EV esc x Hx _ _ _ I1 Ex) as [_ I2].
    eapply star_trans. { eapply (IH k Hk _ _ _ Ek Hi). eapply code_at_app_l; eauto. }
    apply code_at_app_r in Hc.
    eapply star_trans. { eapply (IH x Hx _ _ _ Ex I1). eapply code_at_app_l; eauto. }
    apply code_at_app_r in Hc.
    eapply star_eq. { eapply (IHr Hr _ _ _ Er I2). exact Hc. }
    f_equal. { rewrite !app_length. lia. }
    { cbn [pairs_flat flat_map fst snd app rev]. fold (pairs_flat vr). rewrite <- !app_assoc. reflexivity. }
Qed.

Lemma u_is_true_bool md b : u_is_true md (VBool b) = Ok b.
Proof. destruct md; reflexivity. Qed.

Lemma do_cmp_notin md a b : do_cmp md CNotIn a b = bind (do_cmp md CIn a b) (fun r => Ok (negb r)).
Proof.
  unfold do_cmp. destruct (u_not_undef md b); cbn [bind]; try reflexivity.
  destruct (u_not_undef md a); cbn [bind]; try reflexivity.
  destruct (contains b a); reflexivity.
Qed.

Lemma emit_compare_sim op a b r pc stk s esc escs caps its calls :
  do_cmp (c_mode c) op a b = Ok r -> code_at C pc (emit_compare op) ->
  star (mkVm pc (b :: a :: stk) s esc escs caps its calls)
       (mkVm (pc + length (emit_compare op)) (VBool r :: stk) s esc escs caps its calls).
Proof.
  intros Hd Hc.
  destruct op; cbn [emit_compare length] in *;
    try (rewrite Nat.add_1_r; apply star_one; rewrite (step_at _ _ _ _ _ _ _ _ _ (code_at_head _ _ _ _ Hc));
         cbn [exec_instr v_stk]; rewrite Hd; reflexivity).
  rewrite do_cmp_notin in Hd. destruct (do_cmp (c_mode c) CIn a b) as [r0| | |] eqn:E; try discriminate.
  cbn [bind] in Hd. inversion Hd; subst.
  eapply star_step. { rewrite (step_at _ _ _ _ _ _ _ _ _ (code_at_head _ _ _ _ Hc)). cbn [exec_instr v_stk]. rewrite E. reflexivity. }
  apply code_at_tail in Hc. cbn [v_pc].
  eapply star_step. { rewrite (step_at _ _ _ _ _ _ _ _ _ (code_at_head _ _ _ _ Hc)). cbn [exec_instr v_stk]. rewrite u_is_true_bool. reflexivity. }
  cbn [bind next v_pc v_esc v_escs v_caps v_iters v_calls]. eapply star_eq; [constructor|]. f_equal. lia.
Qed.

Lemma chain_code_length ce rest : forall pc cl cl', length (chain_code ce rest pc cl) = length (chain_code ce rest pc cl').
Proof.
  induction rest as [|[op r] l' IH]; intros pc cl cl'; [reflexivity|].
  cbn [chain_code]. destruct l' as [|p2 l'']; [reflexivity|].
  fold (chain_code ce). rewrite !app_length. cbn [length]. rewrite (IH _ cl cl'). reflexivity.
Qed.

Lemma chain_sim fuel esc rest : eval_inv c C fuel ->
  (forall e, l2_expr e = true -> sim_expr fuel esc e) ->
  forallb (fun p => l2_expr (snd p)) rest = true -> rest <> [] ->
  forall left s v s', cmp_chain (c_mode c) (eval c fuel esc) left s rest = Ok (v, s') -> Inv s ->
  forall pc cleanup stk escs caps its calls,
    code_at C pc (chain_code compile_expr rest pc cleanup ++ [IJump (cleanup + 2); ISwap; IDiscardTop]) ->
    cleanup = pc + length (chain_code compile_expr rest pc cleanup) + 1 ->
    star (mkVm pc (left :: stk) s esc escs caps its calls)
         (mkVm (cleanup + 2) (v :: stk) s' esc escs caps its calls).
Proof.
  intros EV IH. induction rest as [|[op r] l' IHr]; intros Hw Hne left s v s' He Hi pc cleanup stk escs caps its calls Hc Hcl; [congruence|].
  cbn [forallb snd] in Hw. apply andb_prop in Hw as [Hr Hl'].
  cbn [cmp_chain] in He. fold (cmp_chain (c_mode c) (eval c fuel esc)) in He.
  destruct (eval c fuel esc s r) as [[y s2]| | |] eqn:Ey; try discriminate. cbn [bind] in He.
  destruct (do_cmp (c_mode c) op left y) as [b| | |] eqn:Ed; try discriminate. cbn [bind] in He.
  destruct (EV esc r Hr _ _ _ Hi Ey) as [_ I2].
  cbn [chain_code] in Hc, Hcl. fold (chain_code compile_expr) in Hc, Hcl.
  destruct l' as [|p2 l''].
  - inversion He; subst v s'. clear He.
    rewrite <- app_assoc in Hc.
    eapply star_trans. { eapply (IH r Hr _ _ _ Ey Hi). eapply code_at_app_l; eauto. }
    apply code_at_app_r in Hc.
    eapply star_trans. { eapply emit_compare_sim; eauto. eapply code_at_app_l; eauto. }
    apply code_at_app_r in Hc.
    apply star_one. rewrite (step_at _ _ _ _ _ _ _ _ _ (code_at_head _ _ _ _ Hc)). reflexivity.
  - rewrite <- !app_assoc in Hc.
    eapply star_trans. { eapply (IH r Hr _ _ _ Ey Hi). eapply code_at_app_l; eauto. }
    pose proof (code_at_app_r _ _ _ _ Hc) as Hc2. cbn [app] in Hc2.
    eapply star_step. { rewrite (step_at _ _ _ _ _ _ _ _ _ (code_at_head _ _ _ _ Hc2)). cbn [exec_instr v_stk]. rewrite Ed. reflexivity. }
    cbn [bind next v_pc v_stk v_st v_esc v_escs v_caps v_iters v_calls].
    apply code_at_tail in Hc2.
    pose proof (code_at_head _ _ _ _ Hc2) as Hj. apply code_at_tail in Hc2.
    rewrite !app_length in Hcl. cbn [length] in Hcl.
    destruct b.
    + eapply star_step. { rewrite (step_at _ _ _ _ _ _ _ _ _ Hj). cbn [exec_instr v_stk]. rewrite u_is_true_bool. reflexivity. }
      cbn [bind next v_pc v_stk v_st v_esc v_escs v_caps v_iters v_calls].
      replace (S (S (pc + length (compile_expr r pc)))) with (pc + length (compile_expr r pc) + 2) in * by lia.
      eapply (IHr Hl' ltac:(discriminate) _ _ _ _ He I2).
      * exact Hc2.
      * lia.
    + inversion He; subst v s'.
      eapply star_step. { rewrite (step_at _ _ _ _ _ _ _ _ _ Hj). cbn [exec_instr v_stk]. rewrite u_is_true_bool. reflexivity. }
      cbn [bind goto v_pc v_stk v_st v_esc v_escs v_caps v_iters v_calls].
      assert (Hk : code_at C cleanup [ISwap; IDiscardTop]).
      { pose proof (code_at_app_r _ _ _ _ Hc2) as H3. apply code_at_tail in H3. eapply code_at_pc; [exact H3|]. lia. }
      eapply star_step. { rewrite (step_at _ _ _ _ _ _ _ _ _ (code_at_head _ _ _ _ Hk)). reflexivity. }
      cbn [next v_pc v_stk v_esc v_escs v_caps v_iters v_calls v_st]. apply code_at_tail in Hk.
      eapply star_step. { rewrite (step_at _ _ _ _ _ _ _ _ _ (code_at_head _ _ _ _ Hk)). reflexivity. }
      cbn [next v_pc v_stk v_esc v_escs v_caps v_iters v_calls v_st].
      eapply star_eq; [constructor|]. f_equal. lia.
Qed.

Lemma map_eval_length {X} (ev : st -> X -> outcome (value * st)) items : forall s vs s',
  map_eval ev s items = Ok (vs, s') -> length vs = length items.
Proof.
  induction items as [|x r IH]; intros s vs s' H; cbn [map_eval] in H.
  - inversion H. reflexivity.
  - fold (map_eval ev) in H. destruct (ev s x) as [[v s1]| | |]; try discriminate. cbn [bind] in H.
    destruct (map_eval ev s1 r) as [[vr s2]| | |] eqn:E; try discriminate. cbn [bind] in H.
    inversion H; subst. cbn [length]. f_equal. eapply IH; eauto.
Qed.

Lemma pop_args x vs stk : pop_n (1 + length vs) (rev vs ++ x :: stk) [] = Some (x :: vs, stk).
Proof.
  pose proof (pop_n_rev (x :: vs) stk []) as H. cbn [length rev] in H. rewrite <- app_assoc in H. cbn [app] in H.
  rewrite app_nil_r in H. exact H.
Qed.

Ltac vmsimp := cbn [bind next goto v_pc v_stk v_st v_esc v_escs v_caps v_iters v_calls].
Ltac step_by H tac :=
  eapply star_step;
  [ rewrite (step_at _ _ _ _ _ _ _ _ _ (code_at_head _ _ _ _ H)); cbn [exec_instr v_stk v_st v_esc]; tac; reflexivity
  | vmsimp ].
Ltac finish := eapply star_eq; [constructor|]; f_equal; rewrite ?app_length; cbn [length]; lia.

(* ---- keyword arguments ---- *)
Lemma vok_not_kwargs v : vok v -> as_kwargs v = None.
Proof.
  destruct v as [| | | | | |l| | | |]; try reflexivity. destruct l as [|x l]; [reflexivity|].
  destruct x as [| | | | | | | | | |g]; try reflexivity. intros H. apply vok_list in H. inversion H as [|? ? Hg _]; subst.
  cbn in Hg. subst g. reflexivity.
Qed.

Lemma split_kwargs_plain vs : Forall vok vs -> split_kwargs vs = (vs, []).
Proof.
  intros H. unfold split_kwargs. destruct (rev vs) as [|last front] eqn:Er; [reflexivity|].
  assert (Hl : vok last).
  { eapply Forall_forall; [exact H|]. apply in_rev. rewrite Er. left; reflexivity. }
  now rewrite (vok_not_kwargs _ Hl).
Qed.

Lemma kw_pairs_val kvs : kw_pairs (map (fun p => VList [VInt (fst p); snd p]) kvs) = Some kvs.
Proof. induction kvs as [|[k v] r IH]; cbn [map kw_pairs fst snd]; [reflexivity|]. rewrite IH. reflexivity. Qed.

Lemma split_kwargs_kw vs kvs : split_kwargs (vs ++ [kwargs_val kvs]) = (vs, kvs).
Proof.
  unfold split_kwargs. rewrite rev_app_distr. cbn [rev app]. unfold kwargs_val at 1. cbn [as_kwargs].
  rewrite kw_pairs_val, rev_involutive. reflexivity.
Qed.

Lemma assoc_set_new {A} k (v : A) acc : existsb (Z.eqb k) (map fst acc) = false -> assoc_set k v acc = acc ++ [(k, v)].
Proof.
  induction acc as [|[k' v'] r IH]; cbn [assoc_set map fst existsb app]; [reflexivity|].
  intros H. apply orb_false_iff in H as [H1 H2]. rewrite H1. rewrite IH by exact H2. reflexivity.
Qed.

Lemma existsb_app_false k (l1 l2 : list name) : existsb (Z.eqb k) l1 = false -> existsb (Z.eqb k) l2 = false -> existsb (Z.eqb k) (l1 ++ l2) = false.
Proof. intros H1 H2. rewrite existsb_app. apply orb_false_iff. split; assumption. Qed.

Lemma fold_assoc_nodup (kv : list (name * value)) : forall acc, nodup_keys (map fst kv) = true ->
  (forall p, In p kv -> existsb (Z.eqb (fst p)) (map fst acc) = false) ->
  fold_left (fun acc p => assoc_set (fst p) (snd p) acc) kv acc = acc ++ kv.
Proof.
  induction kv as [|[k v] r IH]; intros acc Hn Hd; cbn [fold_left]; [now rewrite app_nil_r|].
  cbn [map fst nodup_keys] in Hn. apply andb_prop in Hn as [Hk Hn]. apply negb_true_iff in Hk.
  cbn [fst snd]. rewrite (assoc_set_new k v acc (Hd (k, v) (or_introl eq_refl))).
  rewrite IH; [now rewrite <- app_assoc|exact Hn|].
  intros p Hp. rewrite map_app. apply existsb_app_false; [apply Hd; right; exact Hp|].
  cbn [map fst existsb]. rewrite orb_false_r.
  destruct (fst p =? k)%Z eqn:E; [|reflexivity]. apply Z.eqb_eq in E.
  exfalso. assert (Hin : existsb (Z.eqb k) (map fst r) = true).
  { apply existsb_exists. exists (fst p). split; [apply in_map; exact Hp|apply Z.eqb_eq; auto]. }
  congruence.
Qed.

Definition kw_flat (kv : list (name * value)) : list value := flat_map (fun p => [VInt (fst p); snd p]) kv.

Lemma kw_of_vals_flat kv : forall acc, kw_of_vals (kw_flat kv) acc = Some (fold_left (fun acc p => assoc_set (fst p) (snd p) acc) kv acc).
Proof. induction kv as [|[k v] r IH]; intros acc; cbn [kw_flat flat_map app kw_of_vals fold_left fst snd]; [reflexivity|]. apply IH. Qed.

Lemma map_eval_kw_keys ev kw : forall s kvs s', map_eval_kw ev s kw = Ok (kvs, s') -> map fst kvs = map fst kw.
Proof.
  induction kw as [|[k x] r IH]; intros s kvs s' H; cbn [map_eval_kw] in H.
  - inversion H. reflexivity.
  - fold (map_eval_kw ev) in H. bstep H p1 E1. destruct p1 as [v s1]. bstep H p2 E2. destruct p2 as [vr s2].
    inversion H; subst. cbn [map fst]. f_equal. eapply IH; eauto.
Qed.

Lemma static_kw_eval fuel esc kw : forall kv, static_kwargs kw = Some kv ->
  forall s kvs s', map_eval_kw (eval c fuel esc) s kw = Ok (kvs, s') -> kvs = kv /\ s' = s.
Proof.
  induction kw as [|[k x] r IH]; intros kv Hs s kvs s' He; cbn [static_kwargs map_eval_kw] in *.
  - inversion Hs; inversion He; subst; auto.
  - fold (map_eval_kw (eval c fuel esc)) in He. destruct x; try discriminate.
    destruct (static_kwargs r) as [kr|] eqn:Er; try discriminate. inversion Hs; subst.
    bstep He p1 E1. destruct p1 as [v s1]. bstep He p2 E2. destruct p2 as [vr s2]. inversion He; subst.
    destruct fuel as [|fuel']; [discriminate|]. rewrite eval_const in E1. inversion E1; subst.
    destruct (IH _ eq_refl _ _ _ E2) as [-> ->]. auto.
Qed.

Lemma nodup_keys_false_in k (l : list name) : existsb (Z.eqb k) l = false -> ~ In k l.
Proof. intros H Hin. assert (existsb (Z.eqb k) l = true) by (apply existsb_exists; exists k; split; [auto|apply Z.eqb_refl]). congruence. Qed.

Lemma fold_assoc_nil (kv : list (name * value)) : nodup_keys (map fst kv) = true ->
  fold_left (fun acc p => assoc_set (fst p) (snd p) acc) kv [] = kv.
Proof. intros H. rewrite fold_assoc_nodup; [reflexivity|exact H|intros; reflexivity]. Qed.

Lemma kw_dyn_sim fuel esc kw : eval_inv c C fuel ->
  (forall e, l2_expr e = true -> sim_expr fuel esc e) ->
  forallb (fun p => l2_expr (snd p)) kw = true ->
  forall s kvs s', map_eval_kw (eval c fuel esc) s kw = Ok (kvs, s') -> Inv s ->
  forall base stk escs caps its calls, code_at C base (kwargs_code compile_expr kw base) ->
  star (mkVm base stk s esc escs caps its calls)
       (mkVm (base + length (kwargs_code compile_expr kw base)) (rev (kw_flat kvs) ++ stk) s' esc escs caps its calls).
Proof.
  intros EV IH. induction kw as [|[k x] r IHr]; intros Hw s kvs s' He Hi base stk escs caps its calls Hc.
  - cbn in He. inversion He; subst. cbn. rewrite Nat.add_0_r. constructor.
  - cbn [forallb snd] in Hw. apply andb_prop in Hw as [Hx Hr].
    cbn [map_eval_kw] in He. fold (map_eval_kw (eval c fuel esc)) in He.
    bstep He p1 E1. destruct p1 as [v s1]. bstep He p2 E2. destruct p2 as [vr s2]. inversion He; subst.
    cbn [kwargs_code] in Hc |- *. fold (kwargs_code compile_expr) in Hc |- *.
    destruct (EV esc x Hx _ _ _ Hi E1) as [_ I1].
    eapply star_step. { rewrite (step_at _ _ _ _ _ _ _ _ _ (code_at_head _ _ _ _ Hc)). reflexivity. }
    cbn [next v_pc v_stk v_st v_esc v_escs v_caps v_iters v_calls].
    apply code_at_tail in Hc. replace (S base) with (base + 1) in * by lia.
    eapply star_trans. { eapply (IH x Hx _ _ _ E1 Hi). eapply code_at_app_l; eauto. }
    apply code_at_app_r in Hc.
    eapply star_eq. { eapply (IHr Hr _ _ _ E2 I1). exact Hc. }
    f_equal. { cbn [length]. rewrite app_length. lia. }
    { cbn [kw_flat flat_map fst snd app rev]. fold (kw_flat vr). rewrite <- !app_assoc. reflexivity. }
Qed.

Lemma kw_flat_length kv : length (kw_flat kv) = 2 * length kv.
Proof. induction kv as [|p r IH]; cbn [kw_flat flat_map app length]; [reflexivity|]. fold (kw_flat r). rewrite IH. lia. Qed.

(* ---- finding a macro's code ---- *)
Lemma macro_offset_find mc : forall L, (exists pc off fl, nth_error L pc = Some (IBuildMacro mc off fl)) ->
  exists off pc fl, macro_offset L mc = Some off /\ nth_error L pc = Some (IBuildMacro mc off fl).
Proof.
  induction L as [|i L IH]; intros (pc & off & fl & H); [destruct pc; discriminate|].
  assert (Hrec : (exists pc off fl, nth_error L pc = Some (IBuildMacro mc off fl)) ->
                 exists off' pc' fl', macro_offset L mc = Some off' /\ nth_error (i :: L) pc' = Some (IBuildMacro mc off' fl')).
  { intros Hx. destruct (IH Hx) as (o & p & f & A & B0). exists o, (S p), f. split; auto. }
  destruct i; cbn [macro_offset]; try (destruct pc; [discriminate|]; apply Hrec; eauto).
  destruct (macro_eq_dec mc mc0) as [->|Hne].
  - exists off0, 0, flags. split; reflexivity.
  - destruct pc; [cbn in H; inversion H; congruence|]. apply Hrec; eauto.
Qed.

Lemma macro_offset_ok mc : mok C mc -> exists off, macro_offset C mc = Some off /\ code_at C off (mcode mc off).
Proof.
  intros (_ & _ & Hb). destruct (macro_offset_find mc C Hb) as (off & pc & fl & Ho & Hn).
  exists off. split; [exact Ho|exact (Hwf _ _ _ _ Hn)].
Qed.

Lemma expr_step fuel : eval_inv c C fuel ->
  (forall esc e, l2_expr e = true -> sim_expr fuel esc e) -> sim_call fuel ->
  forall esc e, l2_expr e = true -> sim_expr (S fuel) esc e.
Proof.
  intros EV IH IHcall esc e Hw s v s' He Hi.
  intros base stk escs caps its calls Hc.
  destruct (as_const e) as [v0|] eqn:Hf.
  { rewrite (compile_expr_const e base v0 Hf) in *.
    destruct (fold_inv_all c esc (S fuel) e v0 Hf _ _ _ He) as [-> ->].
    step_by Hc idtac. finish. }
  destruct e; cbn [compile_expr] in Hc |- *; rewrite Hf in Hc |- *; cbn [eval] in He; cbn [l2_expr] in Hw.
  - (* EConst *) unfold as_const in Hf. cbn in Hf. discriminate.
  - (* EVar *)
    destruct (lookup c s x) as [ov s1] eqn:El. inversion He; subst.
    step_by Hc ltac:(rewrite El). finish.
  - (* EList *)
    destruct (map_eval (eval c fuel esc) s items) as [[vs s1]| | |] eqn:Em; try discriminate.
    cbn [bind] in He. inversion He; subst.
    eapply star_trans. { eapply (seq_sim fuel esc items EV (IH esc) Hw _ _ _ Em ltac:(sat; assumption)). eapply code_at_app_l; eauto. }
    apply code_at_app_r in Hc.
    step_by Hc ltac:(rewrite <- (map_eval_length _ _ _ _ _ Em), (pop_n_rev vs stk []), app_nil_r). finish.
  - (* EMap *)
    destruct (map_eval_pairs (eval c fuel esc) s pairs) as [[kvs s1]| | |] eqn:Em; try discriminate.
    cbn [bind] in He. inversion He; subst.
    eapply star_trans. { eapply (pairs_sim fuel esc pairs EV (IH esc) Hw _ _ _ Em ltac:(sat; assumption)). eapply code_at_app_l; eauto. }
    apply code_at_app_r in Hc.
    step_by Hc ltac:(rewrite <- (map_eval_pairs_length _ _ _ _ _ Em), <- (pairs_flat_length kvs), (pop_n_rev (pairs_flat kvs) stk []), app_nil_r, pairs_of_vals_flat). finish.
  - (* ENeg *)
    destruct (eval c fuel esc s e) as [[x s1]| | |] eqn:Ea; try discriminate. cbn [bind] in He.
    eapply star_trans. { eapply (IH esc e Hw _ _ _ Ea ltac:(sat; assumption)). eapply code_at_app_l; eauto. }
    apply code_at_app_r in Hc.
    destruct x; try discriminate. inversion He; subst.
    step_by Hc idtac. finish.
  - (* ENot *)
    destruct (eval c fuel esc s e) as [[x s1]| | |] eqn:Ea; try discriminate. cbn [bind] in He.
    eapply star_trans. { eapply (IH esc e Hw _ _ _ Ea ltac:(sat; assumption)). eapply code_at_app_l; eauto. }
    apply code_at_app_r in Hc.
    destruct (u_is_true (c_mode c) x) as [b| | |] eqn:Eb; try discriminate. cbn [bind] in He. inversion He; subst.
    step_by Hc ltac:(rewrite Eb). finish.
  - (* EBin *)
    apply andb_prop in Hw as [Hw1 Hw2].
    destruct (eval c fuel esc s e1) as [[x s1]| | |] eqn:Ea; try discriminate. cbn [bind] in He.
    destruct (eval c fuel esc s1 e2) as [[y s2]| | |] eqn:Eb; try discriminate. cbn [bind] in He.
    eapply star_trans. { eapply (IH esc e1 Hw1 _ _ _ Ea ltac:(sat; assumption)). eapply code_at_app_l; eauto. }
    apply code_at_app_r in Hc.
    eapply star_trans. { eapply (IH esc e2 Hw2 _ _ _ Eb ltac:(sat; assumption)). eapply code_at_app_l; eauto. }
    apply code_at_app_r in Hc.
    match type of He with bind ?g _ = _ => destruct g as [[]| | |] eqn:G; try discriminate end. cbn [bind] in He.
    destruct (do_bin op x y) as [r| | |] eqn:Ed; try discriminate. cbn [bind] in He. inversion He; subst.
    step_by Hc ltac:(rewrite G; cbn [bind]; rewrite Ed). finish.
  - (* ECmp *)
    apply andb_prop in Hw as [Hw Hw3]. apply andb_prop in Hw as [Hw1 Hw2].
    destruct (eval c fuel esc s e) as [[x s1]| | |] eqn:Ea; try discriminate. cbn [bind] in He.
    destruct rest as [|[op b] rest']; [discriminate|].
    destruct rest' as [|p2 rest''].
    + cbn [forallb snd] in Hw3. apply andb_prop in Hw3 as [Hb _].
      cbn [cmp_chain] in He.
      destruct (eval c fuel esc s1 b) as [[y s2]| | |] eqn:Eb; try discriminate. cbn [bind] in He.
      destruct (do_cmp (c_mode c) op x y) as [r| | |] eqn:Ed; try discriminate. cbn [bind] in He. inversion He; subst.
      eapply star_trans. { eapply (IH esc e Hw1 _ _ _ Ea ltac:(sat; assumption)). eapply code_at_app_l; eauto. }
      apply code_at_app_r in Hc.
      eapply star_trans. { eapply (IH esc b Hb _ _ _ Eb ltac:(sat; assumption)). eapply code_at_app_l; eauto. }
      apply code_at_app_r in Hc.
      eapply star_eq. { eapply emit_compare_sim; eauto. }
      f_equal. rewrite !app_length. lia.
    + eapply star_trans. { eapply (IH esc e Hw1 _ _ _ Ea ltac:(sat; assumption)). eapply code_at_app_l; eauto. }
      apply code_at_app_r in Hc.
      set (start := base + length (compile_expr e base)) in *.
      set (rest := (op, b) :: p2 :: rest'') in *.
      set (cleanup := start + length (chain_code compile_expr rest start 0) + 1) in *.
      eapply star_eq.
      { eapply (chain_sim fuel esc rest EV (IH esc) Hw3 ltac:(discriminate) _ _ _ _ He ltac:(sat; assumption) start cleanup).
        - exact Hc.
        - rewrite (chain_code_length compile_expr rest start cleanup 0). reflexivity. }
      f_equal. rewrite !app_length. cbn [length].
      rewrite (chain_code_length compile_expr rest start cleanup 0). unfold cleanup. lia.
  - (* EAnd *)
    apply andb_prop in Hw as [Hw1 Hw2].
    destruct (eval c fuel esc s e1) as [[x s1]| | |] eqn:Ea; try discriminate. cbn [bind] in He.
    destruct (u_is_true (c_mode c) x) as [t| | |] eqn:Et; try discriminate. cbn [bind] in He.
    eapply star_trans. { eapply (IH esc e1 Hw1 _ _ _ Ea ltac:(sat; assumption)). eapply code_at_app_l; eauto. }
    apply code_at_app_r in Hc. pose proof (code_at_head _ _ _ _ Hc) as Hj. apply code_at_tail in Hc.
    destruct t.
    + eapply star_step. { rewrite (step_at _ _ _ _ _ _ _ _ _ Hj). cbn [exec_instr v_stk v_st]. rewrite Et. reflexivity. }
      vmsimp.
      replace (S (base + length (compile_expr e1 base))) with (base + length (compile_expr e1 base) + 1) in * by lia.
      eapply star_eq. { eapply (IH esc e2 Hw2 _ _ _ He ltac:(sat; assumption)). exact Hc. }
      f_equal. rewrite !app_length. cbn [length]. lia.
    + inversion He; subst.
      eapply star_step. { rewrite (step_at _ _ _ _ _ _ _ _ _ Hj). cbn [exec_instr v_stk v_st]. rewrite Et. reflexivity. }
      vmsimp. finish.
  - (* EOr *)
    apply andb_prop in Hw as [Hw1 Hw2].
    destruct (eval c fuel esc s e1) as [[x s1]| | |] eqn:Ea; try discriminate. cbn [bind] in He.
    destruct (u_is_true (c_mode c) x) as [t| | |] eqn:Et; try discriminate. cbn [bind] in He.
    eapply star_trans. { eapply (IH esc e1 Hw1 _ _ _ Ea ltac:(sat; assumption)). eapply code_at_app_l; eauto. }
    apply code_at_app_r in Hc. pose proof (code_at_head _ _ _ _ Hc) as Hj. apply code_at_tail in Hc.
    destruct t.
    + inversion He; subst.
      eapply star_step. { rewrite (step_at _ _ _ _ _ _ _ _ _ Hj). cbn [exec_instr v_stk v_st]. rewrite Et. reflexivity. }
      vmsimp. finish.
    + eapply star_step. { rewrite (step_at _ _ _ _ _ _ _ _ _ Hj). cbn [exec_instr v_stk v_st]. rewrite Et. reflexivity. }
      vmsimp.
      replace (S (base + length (compile_expr e1 base))) with (base + length (compile_expr e1 base) + 1) in * by lia.
      eapply star_eq. { eapply (IH esc e2 Hw2 _ _ _ He ltac:(sat; assumption)). exact Hc. }
      f_equal. rewrite !app_length. cbn [length]. lia.
  - (* EIf *)
    apply andb_prop in Hw as [Hw Hw3]. apply andb_prop in Hw as [Hw1 Hw2].
    destruct (eval c fuel esc s e1) as [[x s1]| | |] eqn:Ea; try discriminate. cbn [bind] in He.
    destruct (u_is_true (c_mode c) x) as [t| | |] eqn:Et; try discriminate. cbn [bind] in He.
    eapply star_trans. { eapply (IH esc e1 Hw1 _ _ _ Ea ltac:(sat; assumption)). eapply code_at_app_l; eauto. }
    apply code_at_app_r in Hc. pose proof (code_at_head _ _ _ _ Hc) as Hj. apply code_at_tail in Hc.
    replace (S (base + length (compile_expr e1 base))) with (base + length (compile_expr e1 base) + 1) in * by lia.
    destruct t.
    + eapply star_step. { rewrite (step_at _ _ _ _ _ _ _ _ _ Hj). cbn [exec_instr v_stk v_st]. rewrite Et. reflexivity. }
      vmsimp.
      replace (S (base + length (compile_expr e1 base))) with (base + length (compile_expr e1 base) + 1) in * by lia.
      eapply star_trans. { eapply (IH esc e2 Hw2 _ _ _ He ltac:(sat; assumption)). eapply code_at_app_l; eauto. }
      apply code_at_app_r in Hc.
      step_by Hc idtac. finish.
    + eapply star_step. { rewrite (step_at _ _ _ _ _ _ _ _ _ Hj). cbn [exec_instr v_stk v_st]. rewrite Et. reflexivity. }
      vmsimp.
      apply code_at_app_r in Hc. apply code_at_tail in Hc.
      eapply code_at_pc in Hc; [|instantiate (1 := base + length (compile_expr e1 base) + 1 + length (compile_expr e2 (base + length (compile_expr e1 base) + 1)) + 1); lia].
      destruct f as [f|].
      * eapply star_eq. { eapply (IH esc f Hw3 _ _ _ He ltac:(sat; assumption)). exact Hc. }
        f_equal. rewrite !app_length. cbn [length]. lia.
      * inversion He; subst. step_by Hc idtac. finish.
  - (* EItem *)
    apply andb_prop in Hw as [Hw1 Hw2].
    destruct (eval c fuel esc s e1) as [[x s1]| | |] eqn:Ea; try discriminate. cbn [bind] in He.
    destruct (eval c fuel esc s1 e2) as [[k s2]| | |] eqn:Eb; try discriminate. cbn [bind] in He.
    eapply star_trans. { eapply (IH esc e1 Hw1 _ _ _ Ea ltac:(sat; assumption)). eapply code_at_app_l; eauto. }
    apply code_at_app_r in Hc.
    eapply star_trans. { eapply (IH esc e2 Hw2 _ _ _ Eb ltac:(sat; assumption)). eapply code_at_app_l; eauto. }
    apply code_at_app_r in Hc.
    assert (Hg : get_item (c_mode c) x k = Ok v /\ s' = s2).
    { unfold get_item. destruct (get_item_opt x k) as [w|].
      - inversion He; auto.
      - destruct (u_handle_undefined (c_mode c) (is_undef x)) as [w| | |]; try discriminate. inversion He; auto. }
    destruct Hg as [Hg ->].
    step_by Hc ltac:(rewrite Hg). finish.
  - (* EAttr *)
    destruct (eval c fuel esc s e) as [[x s1]| | |] eqn:Ea; try discriminate. cbn [bind] in He.
    eapply star_trans. { eapply (IH esc e Hw _ _ _ Ea ltac:(sat; assumption)). eapply code_at_app_l; eauto. }
    apply code_at_app_r in Hc.
    assert (Hg : get_attr (c_mode c) x a = Ok v /\ s' = s1).
    { unfold get_attr. destruct (get_attr_opt x a) as [w|].
      - inversion He; auto.
      - destruct (u_handle_undefined (c_mode c) (is_undef x)) as [w| | |]; try discriminate. inversion He; auto. }
    destruct Hg as [Hg ->].
    step_by Hc ltac:(rewrite Hg). finish.
  - (* EFilter *)
    apply andb_prop in Hw as [Hw1 Hw2].
    destruct (eval c fuel esc s e) as [[x s1]| | |] eqn:Ea; try discriminate. cbn [bind] in He.
    destruct (map_eval (eval c fuel esc) s1 args) as [[vs s2]| | |] eqn:Em; try discriminate. cbn [bind] in He.
    destruct (do_filter (c_mode c) esc f x vs) as [r| | |] eqn:Ed; try discriminate. cbn [bind] in He. inversion He; subst.
    eapply star_trans. { eapply (IH esc e Hw1 _ _ _ Ea ltac:(sat; assumption)). eapply code_at_app_l; eauto. }
    apply code_at_app_r in Hc.
    eapply star_trans. { eapply (seq_sim fuel esc args EV (IH esc) Hw2 _ _ _ Em ltac:(sat; assumption)). eapply code_at_app_l; eauto. }
    apply code_at_app_r in Hc.
    step_by Hc ltac:(rewrite <- (map_eval_length _ _ _ _ _ Em), pop_args, Ed). finish.
  - (* ETest *)
    apply andb_prop in Hw as [Hw1 Hw2].
    destruct (eval c fuel esc s e) as [[x s1]| | |] eqn:Ea; try discriminate. cbn [bind] in He.
    destruct (map_eval (eval c fuel esc) s1 args) as [[vs s2]| | |] eqn:Em; try discriminate. cbn [bind] in He.
    destruct (do_test t x) as [r| | |] eqn:Ed; try discriminate. cbn [bind] in He. inversion He; subst.
    eapply star_trans. { eapply (IH esc e Hw1 _ _ _ Ea ltac:(sat; assumption)). eapply code_at_app_l; eauto. }
    apply code_at_app_r in Hc.
    eapply star_trans. { eapply (seq_sim fuel esc args EV (IH esc) Hw2 _ _ _ Em ltac:(sat; assumption)). eapply code_at_app_l; eauto. }
    apply code_at_app_r in Hc.
    step_by Hc ltac:(rewrite <- (map_eval_length _ _ _ _ _ Em), pop_args, Ed).
    apply code_at_tail in Hc.
    destruct negated.
    + step_by Hc ltac:(rewrite u_is_true_bool). finish.
    + finish.
    - (* ECall *)
    apply andb_prop in Hw as [Hw Hnd]. apply andb_prop in Hw as [Hw1 Hw2].
    destruct (map_eval (eval c fuel esc) s args) as [[vs s1]| | |] eqn:Em; try discriminate. cbn [bind] in He.
    destruct (map_eval_kw (eval c fuel esc) s1 kwargs) as [[kvs s2]| | |] eqn:Ek; try discriminate. cbn [bind] in He.
    destruct (lookup c s2 f) as [fv s3] eqn:El.
    destruct (map_eval_Inv C (eval c fuel esc) (fun e => l2_expr e = true) (EV esc) args (forallb_F _ _ Hw1) _ _ _ Hi Em) as [V1 I1].
    destruct (map_eval_kw_Inv C (eval c fuel esc) (fun e => l2_expr e = true) (EV esc) kwargs (forallb_F _ _ Hw2) _ _ _ I1 Ek) as [V2 I2].
    destruct (lookup_ok c C Hcfg _ _ _ _ I2 El) as [Vf I3].
    pose proof (map_eval_length _ _ _ _ _ Em) as Hlen.
    set (cargs := seq_code compile_expr args base) in *.
    set (whole := match kwargs with
                  | [] => cargs ++ [ICallFunction f (length args)]
                  | _ :: _ => match static_kwargs kwargs with
                              | Some kv => cargs ++ [ILoadKwargs kv; ICallFunction f (length args + 1)]
                              | None => cargs ++ kwargs_code compile_expr kwargs (base + length cargs)
                                          ++ [IBuildKwargs (length kwargs); ICallFunction f (length args + 1)]
                              end
                  end) in *.
    (* up to the CallFunction instruction *)
    assert (Hk : exists pcall argc args0,
              nth_error C pcall = Some (ICallFunction f argc) /\ pop_n argc (rev args0 ++ stk) [] = Some (args0, stk) /\
              split_kwargs args0 = (vs, kvs) /\ S pcall = base + length whole /\
              star (mkVm base stk s esc escs caps its calls) (mkVm pcall (rev args0 ++ stk) s2 esc escs caps its calls)).
    { assert (S1 : forall X, code_at C base (cargs ++ X) ->
                star (mkVm base stk s esc escs caps its calls) (mkVm (base + length cargs) (rev vs ++ stk) s1 esc escs caps its calls)).
      { intros X HX. eapply (seq_sim fuel esc args EV (IH esc) Hw1 _ _ _ Em Hi). eapply code_at_app_l; eauto. }
      subst whole. destruct kwargs as [|kw0 kwr].
      - cbn in Ek. inversion Ek; subst kvs s2.
        exists (base + length cargs), (length args), vs. repeat split.
        + apply code_at_app_r in Hc. eapply code_at_head; eauto.
        + rewrite <- Hlen. rewrite (pop_n_rev vs stk []). now rewrite app_nil_r.
        + apply split_kwargs_plain, V1.
        + rewrite app_length. cbn [length]. lia.
        + eapply S1; eauto.
      - pose proof (map_eval_kw_keys _ _ _ _ _ Ek) as Hkeys.
        assert (Hnd' : nodup_keys (map fst kvs) = true) by (rewrite Hkeys; exact Hnd).
        assert (Hpop : pop_n (length args + 1) (rev (vs ++ [kwargs_val kvs]) ++ stk) [] = Some (vs ++ [kwargs_val kvs], stk)).
        { rewrite <- Hlen. replace (length vs + 1) with (length (vs ++ [kwargs_val kvs])) by (rewrite app_length; cbn [length]; lia).
          rewrite (pop_n_rev (vs ++ [kwargs_val kvs]) stk []). now rewrite app_nil_r. }
        destruct (static_kwargs (kw0 :: kwr)) as [kv|] eqn:Es.
        + destruct (static_kw_eval fuel esc _ _ Es _ _ _ Ek) as [-> ->].
          pose proof (S1 _ Hc) as S1'. apply code_at_app_r in Hc.
          exists (S (base + length cargs)), (length args + 1), (vs ++ [kwargs_val kv]). repeat split.
          * apply code_at_tail in Hc. eapply code_at_head; eauto.
          * exact Hpop.
          * apply split_kwargs_kw.
          * rewrite app_length. cbn [length]. lia.
          * eapply star_trans; [exact S1'|]. apply star_one.
            rewrite (step_at _ _ _ _ _ _ _ _ _ (code_at_head _ _ _ _ Hc)). cbn [exec_instr v_stk v_st next v_pc v_esc v_escs v_caps v_iters v_calls].
            rewrite (fold_assoc_nil kv Hnd'). rewrite rev_app_distr. cbn [rev app]. reflexivity.
        + pose proof (S1 _ Hc) as S1'. apply code_at_app_r in Hc.
          pose proof (kw_dyn_sim fuel esc (kw0 :: kwr) EV (IH esc) Hw2 _ _ _ Ek I1 (base + length cargs) (rev vs ++ stk) escs caps its calls
                        ltac:(eapply code_at_app_l; eauto)) as S2.
          apply code_at_app_r in Hc.
          exists (S (base + length cargs + length (kwargs_code compile_expr (kw0 :: kwr) (base + length cargs)))), (length args + 1), (vs ++ [kwargs_val kvs]).
          repeat split.
          * apply code_at_tail in Hc. eapply code_at_head; eauto.
          * exact Hpop.
          * apply split_kwargs_kw.
          * rewrite !app_length. cbn [length]. lia.
          * eapply star_trans; [exact S1'|]. eapply star_trans; [exact S2|]. apply star_one.
            rewrite (step_at _ _ _ _ _ _ _ _ _ (code_at_head _ _ _ _ Hc)). cbn [exec_instr v_stk v_st].
            assert (Hl2 : 2 * length (kw0 :: kwr) = length (kw_flat kvs)).
            { rewrite kw_flat_length. f_equal. rewrite <- (map_length fst kvs), Hkeys, map_length. reflexivity. }
            rewrite Hl2, (pop_n_rev (kw_flat kvs) (rev vs ++ stk) []), app_nil_r, kw_of_vals_flat, (fold_assoc_nil kvs Hnd').
            cbn [next v_pc v_esc v_escs v_caps v_iters v_calls]. rewrite rev_app_distr. cbn [rev app]. reflexivity. }
    destruct Hk as (pcall & argc & args0 & Hn & Hpop & Hsp & Hend & S12).
    rewrite <- Hend.
    eapply star_trans; [exact S12|].
    destruct fv as [[| | | | | | | |mc cl| |g]|]; try discriminate.
    + (* a macro *)
      destruct (IHcall esc s3 mc cl vs kvs v s' He I3 Vf V1 V2 pcall (rev args0 ++ stk) s2 stk escs caps its calls) as [σ1 [Hvm S3]].
      eapply star_step; [|exact S3].
      rewrite (step_at _ _ _ _ _ _ _ _ _ Hn). cbn [exec_instr v_stk v_st]. rewrite Hpop, Hsp, El. exact Hvm.
    + (* range *)
      destruct (g =? N_range)%Z eqn:Eg; [|discriminate].
      destruct vs as [|[| | | |k| | | | | |] [|? ?]]; try discriminate. destruct kvs; [|discriminate].
      inversion He; subst.
      apply star_one. rewrite (step_at _ _ _ _ _ _ _ _ _ Hn). cbn [exec_instr v_stk v_st]. rewrite Hpop, Hsp, El, Eg. reflexivity.
Qed.

(* ---- statements: what is to be shown (proofs in the next file) ---- *)
Definition sim_list (fuel : nat) : Prop :=
  forall inl l, forallb (l2_stmt inl) l = true ->
  forall esc s sg s', exec_list c fuel esc s l = Ok (sg, s') -> Inv s ->
  forall base lc stk escs caps its calls, code_at C base (compile_stmts l base lc) ->
  (inl = true -> lc <> None) -> lc_fits lc (length (s_env s)) (length escs) (length caps) ->
  exists σ', star (mkVm base stk s esc escs caps its calls) σ' /\
             post sg lc (base + length (compile_stmts l base lc)) stk s' esc escs caps its calls σ'.

Definition sim_stmt (fuel : nat) : Prop :=
  forall inl t, l2_stmt inl t = true ->
  forall esc s sg s', exec c fuel esc s t = Ok (sg, s') -> Inv s ->
  forall base lc stk escs caps its calls, code_at C base (compile_stmt t base lc) ->
  (inl = true -> lc <> None) -> lc_fits lc (length (s_env s)) (length escs) (length caps) ->
  exists σ', star (mkVm base stk s esc escs caps its calls) σ' /\
             post sg lc (base + length (compile_stmt t base lc)) stk s' esc escs caps its calls σ'.

(* ---- Macro::call ---- *)
Lemma default_of_assoc p defaults : default_of p defaults = assoc p defaults.
Proof. induction defaults as [|[k d] r IH]; cbn [default_of assoc]; [reflexivity|]. destruct (p =? k)%Z; auto. Qed.

(* the arguments on the stack are stored one by one, a missing one takes its default *)
Lemma args_sim fuel esc defaults : eval_inv c C fuel ->
  (forall e, l2_expr e = true -> sim_expr fuel esc e) ->
  forallb (fun p => l2_expr (snd p)) defaults = true ->
  forall bl s s', store_args (eval c fuel esc) defaults s bl = Ok s' -> Inv s -> kvok bl ->
  forall pc stk escs caps its calls, code_at C pc (params_code defaults (map fst bl) pc) ->
  star (mkVm pc (map snd bl ++ stk) s esc escs caps its calls)
       (mkVm (pc + length (params_code defaults (map fst bl) pc)) stk s' esc escs caps its calls).
Proof.
  intros EV IH Hd. induction bl as [|[p v] r IHr]; intros s s' He Hi Hb pc stk escs caps its calls Hc.
  - cbn in He. inversion He; subst. cbn. rewrite Nat.add_0_r. constructor.
  - cbn [store_args] in He. fold (store_args (eval c fuel esc) defaults) in He.
    inversion Hb as [|? ? Hv Hbr]; subst. cbn [snd] in Hv.
    cbn [map fst snd params_code app] in Hc |- *. fold (params_code defaults) in Hc |- *.
    rewrite default_of_assoc in Hc |- *.
    destruct (assoc p defaults) as [d|] eqn:Ea.
    + assert (Hld : l2_expr d = true).
      { clear -Hd Ea. induction defaults as [|[k x] l IHd]; cbn [assoc forallb snd] in *; [discriminate|].
        apply andb_prop in Hd as [H1 H2]. destruct (p =? k)%Z; [inversion Ea; subst; exact H1|auto]. }
      set (cd := compile_expr d (pc + 4)) in *.
      pose proof (code_at_head _ _ _ _ Hc) as H0. pose proof (code_at_tail _ _ _ _ Hc) as Hc1.
      pose proof (code_at_head _ _ _ _ Hc1) as H1. pose proof (code_at_tail _ _ _ _ Hc1) as Hc2.
      pose proof (code_at_head _ _ _ _ Hc2) as H2. pose proof (code_at_tail _ _ _ _ Hc2) as Hc3.
      pose proof (code_at_head _ _ _ _ Hc3) as H3. pose proof (code_at_tail _ _ _ _ Hc3) as Hc4.
      replace (S (S (S (S pc)))) with (pc + 4) in Hc4 by lia.
      pose proof (code_at_app_l _ _ _ _ Hc4) as Hcd. apply code_at_app_r in Hc4. fold cd in Hc4.
      pose proof (code_at_head _ _ _ _ Hc4) as Hst. apply code_at_tail in Hc4.
      replace (S (pc + 4 + length cd)) with (pc + 4 + length cd + 1) in Hc4 by lia.
      eapply star_step. { rewrite (step_at _ _ _ _ _ _ _ _ _ H0). reflexivity. } vmsimp.
      eapply star_step. { rewrite (step_at _ _ _ _ _ _ _ _ _ H1). reflexivity. } vmsimp.
      destruct (is_undef v) eqn:Eu.
      * bstep He p1 E1. destruct p1 as [dv s1].
        destruct (EV esc d Hld _ _ _ Hi E1) as [Vd I1].
        eapply star_step. { rewrite (step_at _ _ _ _ _ _ _ _ _ H2). cbn [exec_instr v_stk v_st]. rewrite u_is_true_bool. reflexivity. }
        vmsimp.
        eapply star_step. { rewrite (step_at _ _ _ _ _ _ _ _ _ H3). reflexivity. } vmsimp.
        replace (S (S (S (S pc)))) with (pc + 4) by lia.
        eapply star_trans. { eapply (IH d Hld _ _ _ E1 Hi). exact Hcd. }
        fold cd.
        eapply star_step. { rewrite (step_at _ _ _ _ _ _ _ _ _ Hst). reflexivity. } vmsimp.
        replace (S (pc + 4 + length cd)) with (pc + 4 + length cd + 1) by lia.
        eapply star_eq. { eapply (IHr _ _ He); [apply store_Inv; auto|exact Hbr|exact Hc4]. }
        f_equal. cbn [length]. rewrite app_length. cbn [length]. lia.
      * eapply star_step. { rewrite (step_at _ _ _ _ _ _ _ _ _ H2). cbn [exec_instr v_stk v_st]. rewrite u_is_true_bool. reflexivity. }
        vmsimp.
        eapply star_step. { rewrite (step_at _ _ _ _ _ _ _ _ _ Hst). reflexivity. } vmsimp.
        replace (S (pc + 4 + length cd)) with (pc + 4 + length cd + 1) by lia.
        eapply star_eq. { eapply (IHr _ _ He); [apply store_Inv; auto|exact Hbr|exact Hc4]. }
        f_equal. cbn [length]. rewrite app_length. cbn [length]. lia.
    + assert (He' : store_args (eval c fuel esc) defaults (store s p v) r = Ok s') by (destruct (is_undef v); exact He).
      eapply star_step. { rewrite (step_at _ _ _ _ _ _ _ _ _ (code_at_head _ _ _ _ Hc)). reflexivity. } vmsimp.
      apply code_at_tail in Hc. replace (S pc) with (pc + 1) in * by lia.
      eapply star_eq. { eapply (IHr _ _ He'); [apply store_Inv; auto|exact Hbr|exact Hc]. }
      f_equal. cbn [length]. lia.
Qed.

Lemma bind_params_fst kw : forall ps args bound, bind_params kw ps args = Ok bound -> map fst bound = ps.
Proof.
  induction ps as [|p ps IH]; intros args bound H; cbn [bind_params] in H.
  - inversion H. reflexivity.
  - fold (bind_params kw) in H. destruct args as [|v args']; destruct (assoc p kw); try discriminate;
      bstep H r Er; inversion H; subst; cbn [map fst]; f_equal; eapply IH; eauto.
Qed.

Lemma call_step fuel : eval_inv c C fuel -> list_inv c C fuel ->
  (forall esc e, l2_expr e = true -> sim_expr fuel esc e) -> sim_list fuel -> sim_call (S fuel).
Proof.
  intros EV LV IHe IHl esc s mc cl args kw v s' He Hi Hm Ha Hk pc X s0 r escs caps its calls.
  cbn [call_macro] in He. unfold call_macro_vm. cbn [v_pc v_esc v_escs v_caps v_iters v_calls].
  destruct (Nat.ltb (length (m_params mc)) (length args)); [discriminate|].
  bstep He bnd Eb. rewrite Eb. cbn [bind].
  match type of He with (if ?b then _ else _) = _ => destruct b; [discriminate|] end.
  destruct (macro_offset_ok mc Hm) as (off & Ho & Hcode). rewrite Ho.
  bstep He s1 E1. bstep He p2 E2. destruct p2 as [sg s2]. inversion He; subst v s'. clear He.
  eexists. split; [reflexivity|].
  destruct Hm as (Md & Mb & Mc).
  pose proof (bind_params_ok C kw Hk _ _ _ Ha Eb) as Hbound.
  pose proof (bind_params_fst _ _ _ _ Eb) as Hfst.
  set (caller_v := match assoc N_caller kw with Some v => v | None => VUndef end) in *.
  assert (Vc : vok caller_v) by (unfold caller_v; destruct (assoc N_caller kw) eqn:Ea; [exact (assoc_ok C _ _ _ Hk Ea)|exact I]).
  set (sm0 := mkSt [mkFrame (if m_caller mc then [(N_caller, caller_v)] else []) None None cl false; base_frame] (s_clos s) [] (s_asks s)) in *.
  assert (I0 : Inv sm0).
  { destruct Hi as [_ Hic]. split; cbn [s_env s_clos]; [|exact Hic]. constructor; [|constructor; [constructor|constructor]].
    cbn [f_locals]. destruct (m_caller mc); repeat constructor; exact Vc. }
  assert (Hbr : kvok (rev bnd)) by (apply Forall_rev; exact Hbound).
  assert (I1 : Inv s1).
  { eapply (store_args_Inv C (eval c fuel esc) (fun e => l2_expr e = true) (EV esc) (m_defaults mc)); [apply forallb_F; exact Md|exact Hbr|exact I0|exact E1]. }
  (* the code of the macro *)
  unfold mcode in Hcode. set (cp := params_code (m_defaults mc) (rev (m_params mc)) off) in *.
  assert (Hcp : code_at C off (params_code (m_defaults mc) (map fst (rev bnd)) off)).
  { rewrite map_rev, Hfst. eapply code_at_app_l; eauto. }
  pose proof (args_sim fuel esc (m_defaults mc) EV (IHe esc) Md _ _ _ E1 I0 Hbr off [] [] [] [] (mkCall (S pc) r (s_env s) (s_out s) esc escs caps its :: calls) Hcp) as S1.
  rewrite !map_rev, Hfst in S1. fold cp in S1. rewrite app_nil_r in S1.
  apply code_at_app_r in Hcode. fold cp in Hcode.
  destruct (IHl false (m_body mc) Mb _ _ _ _ E2 I1 (off + length cp) None [] [] [] [] (mkCall (S pc) r (s_env s) (s_out s) esc escs caps its :: calls)
              ltac:(eapply code_at_app_l; eauto) ltac:(discriminate) I) as [σ2 [S2 P2]].
  destruct sg; cbn [post] in P2; [|destruct P2 as [l [Hl _]]; discriminate|destruct P2 as [l [Hl _]]; discriminate].
  subst σ2. apply code_at_app_r in Hcode.
  eapply star_trans; [exact S1|]. eapply star_trans; [exact S2|].
  apply star_one. rewrite (step_at _ _ _ _ _ _ _ _ _ (code_at_head _ _ _ _ Hcode)). reflexivity.
Qed.

End Sim.
