(* C03, bytecode level: statements of the fragment leave the loop bookkeeping of the innermost frame alone. *)
From MJ Require Import Common.Base Lang.Syntax Lang.Meta Lang.Interp.
From MJ Require Import C03.Proofs.
From MJ Require Import L2.Instr.
From MJ Require Import L2.Compile.
From MJ Require Import L2.Vm.
From MJ Require Import L2.Simulation C03.L2Inv.
Local Open Scope nat_scope.

(* the loop bookkeeping of the innermost frame *)
Definition hdl (s : st) : option (option (Z * Z * bool)) :=
  match s_env s with f :: _ => Some (f_loop f) | [] => None end.

Lemma hdl_env a b : s_env a = s_env b -> hdl a = hdl b.
Proof. unfold hdl. intros ->. reflexivity. Qed.

Lemma store_hdl s x v : hdl (store s x v) = hdl s.
Proof. unfold hdl, store. destruct (s_env s) as [|f r] eqn:E; cbn [s_env f_loop]; rewrite ?E; reflexivity. Qed.

Lemma bind_target_hdl tgt s item s' : bind_target tgt s item = Ok s' -> hdl s' = hdl s.
Proof.
  destruct tgt as [x|x y]; cbn [bind_target].
  - intros H; inversion H; subst. apply store_hdl.
  - destruct (unpack_items item) as [[|a [|b [|? ?]]]|]; try discriminate.
    intros H; inversion H; subst. rewrite !store_hdl. reflexivity.
Qed.

Section Hdl.
Variable c : cfg.

Lemma if_arms_hdl fuel esc els inl :
  (forall l, forallb (l2_stmt inl) l = true -> forall s sg s', exec_list c fuel esc s l = Ok (sg, s') -> hdl s' = hdl s) ->
  match els with Some b => forallb (l2_stmt inl) b | None => true end = true ->
  forall arms, forallb (fun p => l2_expr (fst p) && forallb (l2_stmt inl) (snd p)) arms = true ->
  forall s sg s', if_arms (c_mode c) (eval c fuel esc) (exec_list c fuel esc) els s arms = Ok (sg, s') -> hdl s' = hdl s.
Proof.
  intros IHl Hels. induction arms as [|[cnd body] r IH]; intros Hw s sg s' He; cbn [if_arms] in He.
  - destruct els as [b|]; [eapply IHl; eauto|inversion He; reflexivity].
  - cbn [forallb fst snd] in Hw. apply andb_prop in Hw as [Hw Hr]. apply andb_prop in Hw as [_ Hb].
    bstep He p1 E1. destruct p1 as [v s1]. bstep He t Et.
    rewrite <- (hdl_env s1 s (eval_env_proof _ _ _ _ _ _ _ E1)).
    destruct t; [eapply IHl; eauto|eapply IH; eauto].
Qed.

Lemma enc_step_env id s x : s_env (enc_step c id s x) = s_env s.
Proof.
  unfold enc_step. destruct (nth_error (s_clos s) id); [|reflexivity]. destruct (assoc x l); [reflexivity|].
  destruct (lookup c s x) as [v s2] eqn:El. cbn [s_env]. eapply lookup_env; eauto.
Qed.

Lemma enc_fold_env id names : forall s, s_env (fold_left (enc_step c id) names s) = s_env s.
Proof. induction names as [|x r IH]; intros s; cbn [fold_left]; [reflexivity|]. rewrite IH. apply enc_step_env. Qed.

Lemma enclose_hdl s names s1 cl : enclose c s names = (s1, cl) -> hdl s1 = hdl s.
Proof.
  unfold enclose. destruct names as [|n0 names']; [intros H; inversion H; reflexivity|].
  destruct (s_env s) as [|f r] eqn:Ee; [intros H; inversion H; reflexivity|].
  match goal with |- (let '(id, s1) := ?X in _) = _ -> _ => destruct X as [id s0] eqn:E1 end.
  intros H. assert (Hs : s1 = fold_left (enc_step c id) (n0 :: names') s0) by (inversion H; reflexivity).
  rewrite Hs. unfold hdl. rewrite enc_fold_env.
  destruct (f_closure f); inversion E1; subst; cbn [s_env f_loop]; rewrite ?Ee; reflexivity.
Qed.

Lemma frag_hdl : forall fuel,
  (forall inl t, l2_stmt inl t = true -> forall esc s sg s', exec c fuel esc s t = Ok (sg, s') -> hdl s' = hdl s) /\
  (forall inl l, forallb (l2_stmt inl) l = true -> forall esc s sg s', exec_list c fuel esc s l = Ok (sg, s') -> hdl s' = hdl s).
Proof.
  induction fuel as [|fuel [IHs IHl]].
  { split; intros; discriminate. }
  split.
  - intros inl t Hw esc s sg s' He.
    destruct t; cbn [l2_stmt] in Hw; try discriminate.
    + cbn [exec] in He. inversion He; reflexivity.
    + cbn [exec] in He. bstep He p1 E1. destruct p1 as [v s1].
      destruct (u_strictish (c_mode c) && is_strict_undef v); try discriminate. inversion He; subst.
      apply hdl_env. cbn [emit s_env]. eapply eval_env_proof; eauto.
    + cbn [exec] in He. apply andb_prop in Hw as [Ha Hels].
      eapply (if_arms_hdl fuel esc els inl); eauto.
    + apply andb_prop in Hw as [Hw Hels]. apply andb_prop in Hw as [Hw Hbody]. apply andb_prop in Hw as [Hi Hflt].
      cbn [exec] in He.
      bstep He p1 E1. destruct p1 as [iv s1]. bstep He items0 E2. bstep He p3 E3. destruct p3 as [items s2].
      bstep He s5 E4.
      assert (H6 : s_env (pop_frame s5) = s_env s).
      { apply (for_scoped_proof c (S fuel) esc s t iter filter body recursive SigNormal).
        cbn [exec]. rewrite E1. cbn [bind]. rewrite E2. cbn [bind]. rewrite E3. cbn [bind]. rewrite E4. cbn [bind]. destruct items; reflexivity. }
      destruct items as [|it0 items]; [destruct els as [eb|]|].
      * rewrite <- (hdl_env _ _ H6). eapply IHl; eauto.
      * inversion He; subst. apply hdl_env, H6.
      * inversion He; subst. apply hdl_env, H6.
    + cbn [exec] in He. bstep He p1 E1. destruct p1 as [v s1]. bstep He s2 E2. inversion He; subst.
      rewrite (bind_target_hdl _ _ _ _ E2). apply hdl_env. eapply eval_env_proof; eauto.
    + cbn [exec] in He.
      bstep He p1 E1. destruct p1 as [[sg1 txt] s1]. bstep E1 p2 E2. destruct p2 as [sg2 s2]. inversion E1; subst. clear E1.
      assert (H2 : hdl (with_out s2 (s_out s)) = hdl s).
      { transitivity (hdl s2); [apply hdl_env; reflexivity|].
        transitivity (hdl (with_out s [])); [eapply IHl; eauto|apply hdl_env; reflexivity]. }
      destruct sg1.
      * bstep He fv Ef. inversion He; subst. rewrite store_hdl. exact H2.
      * inversion He; subst. exact H2.
      * inversion He; subst. exact H2.
    + apply hdl_env. eapply with_scoped_proof; eauto.
    + (* SMacro *)
      cbn [exec] in He. destruct (enclose c s (macro_closure params defaults body)) as [s1 cl] eqn:Ee. inversion He; subst.
      rewrite store_hdl. eapply enclose_hdl; eauto.
    + (* SCallBlock *)
      cbn [exec] in He. bstep He p1 E1. destruct p1 as [vs s1].
      destruct (enclose c s1 (macro_closure [] [] body)) as [s2 cl] eqn:Ee.
      destruct (lookup c s2 m) as [fv s3] eqn:El.
      destruct fv as [[| | | | | | | |mc mcl| |g]|]; try discriminate.
      bstep He p4 E4. destruct p4 as [v s4]. inversion He; subst.
      transitivity (hdl s4); [apply hdl_env; reflexivity|].
      transitivity (hdl s3); [apply hdl_env; eapply call_macro_env_proof; eauto|].
      transitivity (hdl s2); [apply hdl_env; eapply lookup_env; eauto|].
      transitivity (hdl s1); [eapply enclose_hdl; eauto|].
      apply hdl_env. eapply map_eval_env; [|exact E1]. intros; eapply eval_env_proof; eauto.
    + cbn [exec] in He.
      bstep He p1 E1. destruct p1 as [[sg1 txt] s1]. bstep E1 p2 E2. destruct p2 as [sg2 s2]. inversion E1; subst. clear E1.
      assert (H2 : hdl (with_out s2 (s_out s)) = hdl s).
      { transitivity (hdl s2); [apply hdl_env; reflexivity|].
        transitivity (hdl (with_out s [])); [eapply IHl; eauto|apply hdl_env; reflexivity]. }
      destruct sg1.
      * bstep He fv Ef. inversion He; subst. exact H2.
      * inversion He; subst. exact H2.
      * inversion He; subst. exact H2.
    + cbn [exec] in He. apply andb_prop in Hw as [_ Hb].
      bstep He p1 E1. destruct p1 as [x s1]. bstep He esc' Ee.
      rewrite <- (hdl_env s1 s (eval_env_proof _ _ _ _ _ _ _ E1)). eapply IHl; eauto.
    + cbn [exec] in He. inversion He; reflexivity.
    + cbn [exec] in He. inversion He; reflexivity.
  - intros inl l Hw esc s sg s' He.
    destruct l as [|t r]; cbn [exec_list] in He.
    + inversion He; reflexivity.
    + cbn [forallb] in Hw. apply andb_prop in Hw as [Ht Hr].
      bstep He p1 E1. destruct p1 as [sg1 s1].
      transitivity (hdl s1); [|eapply IHs; eauto].
      destruct sg1; [eapply IHl; eauto|inversion He; reflexivity|inversion He; reflexivity].
Qed.

End Hdl.

