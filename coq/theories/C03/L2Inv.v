(* C03, bytecode level: what is known of the values of a reachable state (macro values are built by the
   program and in the fragment; no value looks like the VM's keyword-argument bundle), and that
   evaluation / execution preserve it. *)
From MJ Require Import Common.Base Lang.Syntax Lang.Meta Lang.Interp Lang.Facts.
From MJ Require Import C03.Proofs.
From MJ Require Import C04.Model.
From MJ Require Import L2.Instr.
From MJ Require Import L2.Compile.
From MJ Require Import L2.Vm.
From MJ Require Import L2.Simulation C03.L2Pos.
Local Open Scope Z_scope.

Section InvBasics.
Variable C : list instr.
Notation vok := (vok C).
Notation kvok := (kvok C).
Notation Inv := (Inv C).

Lemma vok_list l : vok (VList l) <-> Forall vok l.
Proof.
  cbn [L2.Simulation.vok]. split; intros H.
  - induction l as [|x r IH]; constructor; destruct H; auto.
  - induction H; cbn; auto.
Qed.

Lemma vok_map m : vok (VMap m) <-> entries_all vok m.
Proof.
  cbn [L2.Simulation.vok]. unfold entries_all. split; intros H.
  - induction m as [|[k x] r IH]; constructor; destruct H; cbn [fst snd]; auto.
  - induction H as [|[k x] r [Hk Hx] Hr IH]; cbn; auto.
Qed.

Lemma assoc_ok x kv v : kvok kv -> assoc x kv = Some v -> vok v.
Proof.
  induction 1 as [|[k w] r Hw Hr IH]; cbn [assoc]; [discriminate|].
  destruct (x =? k); [intros H; inversion H; subst; exact Hw|exact IH].
Qed.

Lemma assoc_set_ok x v kv : kvok kv -> vok v -> kvok (assoc_set x v kv).
Proof.
  intros H Hv. induction H as [|[k w] r Hw Hr IH]; cbn [assoc_set].
  - repeat constructor. exact Hv.
  - destruct (x =? k); constructor; auto.
Qed.

Lemma set_nth_clos_ok n f cl : Forall kvok cl -> (forall kv, kvok kv -> kvok (f kv)) -> Forall kvok (set_nth_clos n f cl).
Proof.
  intros H Hf. revert n. induction H as [|k r Hk Hr IH]; intros n; cbn [set_nth_clos]; [destruct n; constructor|].
  destruct n; constructor; auto.
Qed.

Lemma store_Inv s x v : Inv s -> vok v -> Inv (store s x v).
Proof.
  intros [He Hc] Hv. unfold store. destruct (s_env s) as [|f r] eqn:E; [split; [rewrite E; constructor|exact Hc]|].
  inversion He; subst. split; cbn [s_env s_clos].
  - constructor; [cbn [f_locals]; apply assoc_set_ok; auto|auto].
  - destruct (f_closure f); [apply set_nth_clos_ok; auto; intros; apply assoc_set_ok; auto|exact Hc].
Qed.

Lemma Inv_same s s' : s_env s' = s_env s -> s_clos s' = s_clos s -> Inv s -> Inv s'.
Proof. unfold L2.Simulation.Inv. intros -> ->. auto. Qed.

Lemma push_Inv s f : Inv s -> kvok (f_locals f) -> Inv (push_frame s f).
Proof. intros [He Hc] Hf. split; cbn [push_frame s_env s_clos]; auto. Qed.

Lemma pop_Inv s : Inv s -> Inv (pop_frame s).
Proof. intros [He Hc]. split; cbn [pop_frame s_env s_clos]; auto. destruct He; cbn; auto. Qed.

Definition scalar (v : value) : Prop := match v with VList _ | VMap _ | VMacro _ _ | VFunc _ => False | _ => True end.
Lemma scalar_ok v : scalar v -> vok v.
Proof. destruct v; cbn; tauto. Qed.

Lemma do_bin_ok op a b v : do_bin op a b = Ok v -> vok v.
Proof.
  intros H. apply scalar_ok. destruct op, a, b; cbn in H; try discriminate;
    repeat match type of H with
           | (if ?b then _ else _) = _ => destruct b
           | (let q := _ in _) = _ => cbv zeta in H
           end; try discriminate; inversion H; exact I.
Qed.

Lemma idx_list_ok l z v : Forall vok l -> idx_list l z = Some v -> vok v.
Proof.
  unfold idx_list. intros Hl. destruct ((0 <=? _) && _); [|discriminate].
  intros H. apply nth_error_In in H. eapply Forall_forall in Hl; eauto.
Qed.

Lemma loop_attr_ok i n a v : loop_attr i n a = Some v -> vok v.
Proof.
  unfold loop_attr. repeat match goal with |- context [if ?x then _ else _] => destruct x end; intros H; inversion H; exact I.
Qed.

Lemma u_handle_undefined_ok md p v : u_handle_undefined md p = Ok v -> vok v.
Proof. destruct md, p; cbn; intros H; inversion H; exact I. Qed.

Lemma map_str_ok s : Forall vok (map (fun ch => VStr false [ch]) s).
Proof. induction s; constructor; auto. exact I. Qed.

Lemma do_filter_ok md esc f x args v : vok x -> Forall vok args -> do_filter md esc f x args = Ok v -> vok v.
Proof.
  intros Hx Ha. unfold do_filter, str_input.
  repeat match goal with |- context [if ?x then _ else _] => destruct x end;
    try (intros H; discriminate H);
    try (destruct (u_not_undef md x); cbn [bind]; intros H; inversion H; exact I).
  all: try solve [destruct x as [| | | | |[] ?| | | | |]; intros H; inversion H; subst; try exact I; try exact Hx;
               try (destruct Ha; [exact I|assumption])].
  all: try solve [cbn [bind];
                  repeat (match goal with
                          | |- context [if ?y then _ else _] => destruct y
                          | |- context [match ?y with _ => _ end] => destruct y
                          end; cbn [bind]);
                  intros H; inversion H; subst; try exact I; try exact Hx; try (apply vok_list; apply map_str_ok); try (apply vok_list; constructor)].
  - (* first *)
    destruct x as [| | | | | |l|mm| | |]; try (intros H; inversion H; fail).
    + apply vok_list in Hx. destruct l; intros H; inversion H; subst; [exact I|]. inversion Hx; auto.
    + apply vok_map in Hx. destruct mm as [|[k0 x0] r]; intros H; inversion H; subst; [exact I|].
      inversion Hx as [|? ? [Hk _] _]; subst. exact Hk.
  - (* last *)
    destruct x as [| | | | | |l|mm| | |]; try (intros H; inversion H; fail).
    apply vok_list in Hx. intros H; inversion H; subst.
    destruct (rev l) as [|y r] eqn:Er; [exact I|].
    eapply Forall_forall in Hx; [exact Hx|]. apply in_rev. rewrite Er. left; reflexivity.
  - (* list, strict modes *)
    destruct x as [| | | | | |l|mm| | |]; intros H; inversion H; subst; try exact Hx; try (apply vok_list; constructor); try (apply vok_list; apply map_str_ok).
    apply vok_list. apply map_keys_all. apply vok_map. exact Hx.
  - (* list *)
    destruct x as [| | | | | |l|mm| | |]; intros H; inversion H; subst; try exact Hx; try (apply vok_list; constructor); try (apply vok_list; apply map_str_ok).
    apply vok_list. apply map_keys_all. apply vok_map. exact Hx.
  - (* items *)
    destruct x as [| | | | | |l|mm| | |]; intros H; inversion H; subst.
    apply vok_map in Hx. apply vok_list. clear H. induction Hx as [|[k0 x0] r [Hk Hv] Hr IH]; cbn [map]; constructor; [|exact IH].
    apply vok_list. repeat constructor; assumption.
Qed.
End InvBasics.

Local Open Scope nat_scope.

(* ---- code placement (copied vocabulary lemmas; the simulation file has them too) ---- *)
Lemma cat_app_l C pc a b : code_at C pc (a ++ b) -> code_at C pc a.
Proof. intros (pre & post & -> & <-). exists pre, (b ++ post). now rewrite <- app_assoc. Qed.
Lemma cat_app_r C pc a b : code_at C pc (a ++ b) -> code_at C (pc + length a) b.
Proof. intros (pre & post & -> & <-). exists (pre ++ a), post. rewrite app_length. split; auto. now rewrite <- !app_assoc. Qed.
Lemma cat_head C pc i r : code_at C pc (i :: r) -> nth_error C pc = Some i.
Proof. intros (pre & post & -> & <-). rewrite nth_error_app2 by lia. now rewrite Nat.sub_diag. Qed.
Lemma cat_tail C pc i r : code_at C pc (i :: r) -> code_at C (S pc) r.
Proof. intros H. change (i :: r) with ([i] ++ r) in H. apply cat_app_r in H. cbn in H. now rewrite Nat.add_1_r in H. Qed.

Lemma cat_pc C pc pc' code : code_at C pc code -> pc = pc' -> code_at C pc' code.
Proof. intros H <-. exact H. Qed.

Section Placed.
Variable C : list instr.

Definition placed (t : stmt) : Prop := exists base lc, code_at C base (compile_stmt t base lc).
Definition placed_l (l : list stmt) : Prop := exists base lc, code_at C base (compile_stmts l base lc).

Lemma placed_l_cons t r : placed_l (t :: r) -> placed t /\ placed_l r.
Proof.
  intros (base & lc & H). unfold compile_stmts in H. cbn [seq_code] in H. split.
  - exists base, lc. eapply cat_app_l; eauto.
  - exists (base + length (compile_stmt t base lc)), lc. eapply cat_app_r; eauto.
Qed.

Lemma placed_if_code els lc arms : forall base,
  code_at C base (if_code (fun b pc => compile_stmts b pc lc) els arms base) ->
  Forall (fun p => placed_l (snd p)) arms /\ match els with Some b => placed_l b | None => True end.
Proof.
  induction arms as [|[cnd body] r IH]; intros base H; cbn [if_code] in H.
  - split; [constructor|]. destruct els as [b|]; [exists base, lc; exact H|exact I].
  - fold (if_code (fun b pc => compile_stmts b pc lc) els) in H.
    set (cc := compile_expr cnd base) in *. set (ct := compile_stmts body (base + length cc + 1) lc) in *.
    assert (Hb : placed_l body).
    { exists (base + length cc + 1), lc. fold ct.
      destruct r as [|a2 r']; [destruct (nonempty_body els)|];
        apply cat_app_r in H; apply cat_tail in H;
        rewrite <- Nat.add_1_r in H;
        first [exact H | eapply cat_app_l; exact H]. }
    destruct r as [|a2 r'].
    + destruct (nonempty_body els) as [eb|] eqn:Ene.
      * apply cat_app_r in H. apply cat_tail in H. apply cat_app_r in H. apply cat_tail in H.
        eapply cat_pc in H; [|instantiate (1 := base + length cc + 1 + length ct + 1); lia].
        destruct (IH _ H) as [_ He].
        split; [constructor; [exact Hb|constructor]|exact He].
      * split; [constructor; [exact Hb|constructor]|].
        destruct els as [[|x b]|]; try discriminate Ene; [|exact I].
        exists 0, lc. unfold compile_stmts. cbn [seq_code]. exists [], C. split; reflexivity.
    + apply cat_app_r in H. apply cat_tail in H. apply cat_app_r in H. apply cat_tail in H.
      eapply cat_pc in H; [|instantiate (1 := base + length cc + 1 + length ct + 1); lia].
      destruct (IH _ H) as [Hr He].
      split; [constructor; [exact Hb|exact Hr]|exact He].
Qed.

Lemma placed_if arms els : placed (SIf arms els) ->
  Forall (fun p => placed_l (snd p)) arms /\ match els with Some b => placed_l b | None => True end.
Proof. intros (base & lc & H). cbn [compile_stmt] in H. eapply placed_if_code; eauto. Qed.

Lemma placed_for tgt iter flt body els rc : placed (SFor tgt iter flt body els rc) ->
  placed_l body /\ match els with Some b => placed_l b | None => True end.
Proof.
  intros (base & lc & H). rewrite compile_for_eq in H.
  apply cat_app_r in H. apply cat_tail in H. apply cat_app_r in H. split.
  - eexists (f_body_at tgt iter flt rc base), _. eapply cat_app_l. eapply cat_pc; [exact H|].
    unfold f_body_at, f_it. cbn [length]. lia.
  - apply cat_app_r in H. destruct els as [[|x b]|]; [|cbn [app] in H|exact I].
    + exists 0, lc. exists [], C. split; reflexivity.
    + do 4 apply cat_tail in H. exists (f_end tgt iter flt rc body base + 3), lc.
      eapply cat_pc; [exact H|]. rewrite (f_end_eq tgt iter flt rc body base) at 2. unfold f_body_at, f_it. cbn [length]. lia.
Qed.

Lemma placed_setblock x body f : placed (SSetBlock x body f) -> placed_l body.
Proof. intros (base & lc & H). cbn [compile_stmt] in H. apply cat_tail in H. exists (base + 1), (enter_scope ClCapture lc). eapply cat_app_l. eapply cat_pc; [exact H|lia]. Qed.
Lemma placed_filterblock f body : placed (SFilterBlock f body) -> placed_l body.
Proof. intros (base & lc & H). cbn [compile_stmt] in H. apply cat_tail in H. exists (base + 1), (enter_scope ClCapture lc). eapply cat_app_l. eapply cat_pc; [exact H|lia]. Qed.
Lemma placed_with binds body : placed (SWith binds body) -> placed_l body.
Proof.
  intros (base & lc & H). cbn [compile_stmt] in H. apply cat_tail in H. apply cat_app_r in H.
  exists (base + 1 + length (binds_code binds (base + 1))), (enter_scope ClFrame lc). eapply cat_app_l. eapply cat_pc; [exact H|lia].
Qed.
Lemma placed_autoescape v body : placed (SAutoEscape v body) -> placed_l body.
Proof.
  intros (base & lc & H). cbn [compile_stmt] in H. apply cat_app_r in H. apply cat_tail in H.
  exists (base + length (compile_expr v base) + 1), (enter_scope ClAutoEscape lc). eapply cat_app_l. eapply cat_pc; [exact H|lia].
Qed.

Lemma macro_code_builds cb nm ps ds body base X : code_at C base (macro_code cb nm ps ds body base ++ X) ->
  exists pc off fl, nth_error C pc = Some (IBuildMacro (mkMacro nm ps ds body (uses_caller ps ds body)) off fl).
Proof.
  unfold macro_code. intros H. rewrite <- !app_assoc in H.
  apply cat_app_r in H. apply cat_app_r in H. apply cat_app_r in H. apply cat_app_r in H. apply cat_app_r in H.
  cbn [app] in H. do 2 apply cat_tail in H. apply cat_head in H. eauto.
Qed.

Lemma placed_macro nm ps ds body : placed (SMacro nm ps ds body) ->
  exists pc off fl, nth_error C pc = Some (IBuildMacro (mkMacro nm ps ds body (uses_caller ps ds body)) off fl).
Proof. intros (base & lc & H). cbn [compile_stmt] in H. eapply macro_code_builds; eauto. Qed.

Lemma placed_callblock mn args body : placed (SCallBlock mn args body) ->
  exists pc off fl, nth_error C pc = Some (IBuildMacro (mkMacro N_caller [] [] body (uses_caller [] [] body)) off fl).
Proof.
  intros (base & lc & H). cbn [compile_stmt] in H. apply cat_app_r in H. apply cat_tail in H.
  eapply macro_code_builds. eapply cat_pc; [exact H|]. lia.
Qed.

(* a well-formed program has the body of every macro it builds *)
Lemma mok_placed mc : wf_code C -> mok C mc -> placed_l (m_body mc).
Proof.
  intros Hwf (_ & _ & pc & off & fl & Hn). specialize (Hwf _ _ _ _ Hn). unfold mcode in Hwf.
  apply cat_app_r in Hwf. eexists _, None. eapply cat_app_l; eauto.
Qed.
End Placed.

Section InvAll.
Variable c : cfg.
Variable C : list instr.
Hypothesis Hcfg : cfg_ok C c.
Hypothesis Hwf : wf_code C.
Notation vok := (vok C).
Notation kvok := (kvok C).
Notation Inv := (Inv C).

Lemma load_ok clos env x v a : Forall (fun f => kvok (f_locals f)) env -> Forall kvok clos ->
  load c clos env x = (Some v, a) -> vok v.
Proof.
  intros He Hc. revert a. induction He as [|f r Hf Hr IH]; intros a; cbn [load].
  - destruct (x =? N_range)%Z; intros H; inversion H; subst. reflexivity.
  - destruct (assoc x (f_locals f)) as [w|] eqn:Ea.
    { intros H; inversion H; subst. eapply assoc_ok; eauto. }
    match goal with |- context [match ?X with Some v0 => (Some v0, false) | None => _ end] => destruct X as [w|] eqn:E1 end.
    { intros H0; inversion H0; subst. destruct (f_loop f) as [[[i n] []]|]; try discriminate.
      destruct (x =? N_loop)%Z; inversion E1; subst. exact I. }
    match goal with |- context [match ?X with Some v0 => (Some v0, false) | None => _ end] => destruct X as [w|] eqn:E2 end.
    { intros H0; inversion H0; subst. destruct (f_closure_ctx f) as [id|]; try discriminate.
      destruct (nth_error clos id) as [cl|] eqn:En; try discriminate.
      eapply assoc_ok; [|eauto]. eapply Forall_forall in Hc; [exact Hc|]. eapply nth_error_In; eauto. }
    destruct (f_base f); [|apply IH].
    destruct (assoc x (c_root c)) as [w|] eqn:Er; [intros H9; inversion H9; subst; exact (assoc_ok C x (c_root c) _ Hcfg Er)|].
    destruct (load c clos r x) as [w b] eqn:El. intros H9; inversion H9; subst. eapply IH; eauto.
Qed.

Lemma lookup_ok s x v s1 : Inv s -> lookup c s x = (v, s1) ->
  vok (match v with Some v => v | None => VUndef end) /\ Inv s1.
Proof.
  intros [He Hc]. unfold lookup. destruct (load c (s_clos s) (s_env s) x) as [w a] eqn:El.
  intros H; inversion H; subst. split.
  - destruct v as [v|]; [eapply load_ok; eauto|exact I].
  - destruct a; split; auto.
Qed.

Lemma range_ok fuel i n : Forall vok (range_list fuel i n).
Proof. revert i. induction fuel; intros i; cbn [range_list]; [constructor|]. destruct (i <? n)%Z; constructor; auto. exact I. Qed.

Lemma bind_target_Inv tgt s item s3 : Inv s -> vok item -> bind_target tgt s item = Ok s3 -> Inv s3.
Proof.
  intros Hi Hv. destruct tgt as [x|x y]; cbn [bind_target]; intros H.
  - inversion H; subst. apply store_Inv; auto.
  - destruct (unpack_items item) as [l|] eqn:Eu; [|discriminate].
    assert (Hl : Forall vok l).
    { eapply (unpack_items_all vok item l); [| |exact Eu].
      - intros l0 ->. apply vok_list; exact Hv.
      - intros m0 ->. apply vok_map; exact Hv. }
    destruct l as [|a [|b [|? ?]]]; try discriminate.
    inversion H; subst. inversion Hl as [|? ? Ha Hl2]; subst. inversion Hl2; subst.
    apply store_Inv; [apply store_Inv|]; auto.
Qed.

Lemma reset_Inv s f e L cl cc : Inv s -> s_env s = f :: e -> Inv (with_env s (mkFrame [] L cl cc false :: e)).
Proof.
  intros [He Hc] E. rewrite E in He. inversion He; subst. split; cbn [with_env s_env s_clos]; auto.
  constructor; [constructor|auto].
Qed.

Definition enc_step (id : nat) (s : st) (x : name) : st :=
  match nth_error (s_clos s) id with
  | Some cl =>
      match assoc x cl with
      | Some _ => s
      | None => let '(v, s') := lookup c s x in
                mkSt (s_env s') (set_nth_clos id (assoc_set x (match v with Some v => v | None => VUndef end)) (s_clos s'))
                     (s_out s') (s_asks s')
      end
  | None => s
  end.

Lemma enc_step_Inv id s x : Inv s -> Inv (enc_step id s x).
Proof.
  intros I1. unfold enc_step. destruct (nth_error (s_clos s) id) as [cl|] eqn:En; [|exact I1].
  destruct (assoc x cl); [exact I1|].
  destruct (lookup c s x) as [v s2] eqn:El. destruct (lookup_ok _ _ _ _ I1 El) as [Hv [He2 Hc2]].
  split; cbn [s_env s_clos]; [exact He2|]. apply set_nth_clos_ok; [exact Hc2|]. intros kv Hk. apply assoc_set_ok; auto.
Qed.

Lemma enc_fold_Inv id names : forall s, Inv s -> Inv (fold_left (enc_step id) names s).
Proof. induction names as [|x r IH]; intros s Hi; cbn [fold_left]; [exact Hi|]. apply IH, enc_step_Inv, Hi. Qed.

Lemma enclose_Inv s names s' cl : Inv s -> enclose c s names = (s', cl) -> Inv s'.
Proof.
  intros Hi. unfold enclose. destruct names as [|n0 names']; [intros H; inversion H; subst; exact Hi|].
  destruct (s_env s) as [|f r] eqn:Ee; [intros H; inversion H; subst; exact Hi|].
  match goal with |- (let '(id, s1) := ?X in _) = _ -> _ => destruct X as [id s1] eqn:E1 end.
  intros H.
  assert (I1 : Inv s1).
  { destruct (f_closure f); inversion E1; subst; [exact Hi|].
    destruct Hi as [He Hc]. rewrite Ee in He. inversion He; subst. split; cbn [s_env s_clos].
    - constructor; auto.
    - apply Forall_app. split; [exact Hc|repeat constructor]. }
  change (fold_left (enc_step id) (n0 :: names') s1, Some id) with (fold_left (enc_step id) (n0 :: names') s1, Some id) in H.
  assert (Hs : s' = fold_left (enc_step id) (n0 :: names') s1) by (inversion H; reflexivity).
  rewrite Hs. apply enc_fold_Inv, I1.
Qed.

Lemma bind_params_ok kw : kvok kw -> forall ps args bound, Forall vok args ->
  bind_params kw ps args = Ok bound -> kvok bound.
Proof.
  intros Hk. induction ps as [|p ps IH]; intros args bound Ha H; cbn [bind_params] in H.
  - inversion H. constructor.
  - fold (bind_params kw) in H. destruct args as [|v args'].
    + destruct (assoc p kw) as [w|] eqn:Ea; bstep H r Er; inversion H; subst; constructor; cbn [snd];
        try (eapply IH; [constructor|exact Er]); [eapply assoc_ok; eauto|exact I].
    + inversion Ha; subst. destruct (assoc p kw); [discriminate|]. bstep H r Er. inversion H; subst.
      constructor; [auto|eapply IH; eauto].
Qed.

(* ---- combinators, given what evaluation / execution preserve ---- *)
Section Comb.
Variable ev : st -> expr -> outcome (value * st).
Variable P : expr -> Prop.
Hypothesis Hev : forall e, P e -> forall s v s', Inv s -> ev s e = Ok (v, s') -> vok v /\ Inv s'.

Lemma map_eval_Inv items : Forall P items -> forall s vs s', Inv s ->
  map_eval ev s items = Ok (vs, s') -> Forall vok vs /\ Inv s'.
Proof.
  induction 1 as [|x r Hx Hr IH]; intros s vs s' Hi He; cbn [map_eval] in He.
  - inversion He; subst; auto.
  - fold (map_eval ev) in He. bstep He p1 E1. destruct p1 as [v s1]. bstep He p2 E2. destruct p2 as [vr s2]. inversion He; subst.
    destruct (Hev x Hx _ _ _ Hi E1) as [V1 I1]. destruct (IH _ _ _ I1 E2) as [V2 I2]. split; [constructor; auto|auto].
Qed.

Lemma map_eval_kw_Inv kw : Forall (fun p => P (snd p)) kw -> forall s kvs s', Inv s ->
  map_eval_kw ev s kw = Ok (kvs, s') -> kvok kvs /\ Inv s'.
Proof.
  induction 1 as [|[k x] r Hx Hr IH]; intros s vs s' Hi He; cbn [map_eval_kw] in He.
  - inversion He; subst. split; [constructor|auto].
  - fold (map_eval_kw ev) in He. cbn [snd] in Hx. bstep He p1 E1. destruct p1 as [v s1]. bstep He p2 E2. destruct p2 as [vr s2]. inversion He; subst.
    destruct (Hev x Hx _ _ _ Hi E1) as [V1 I1]. destruct (IH _ _ _ I1 E2) as [V2 I2]. split; [constructor; auto|auto].
Qed.

Lemma map_eval_pairs_Inv pairs : Forall (fun p => P (fst p) /\ P (snd p)) pairs -> forall s kvs s', Inv s ->
  map_eval_pairs ev s pairs = Ok (kvs, s') -> entries_all vok kvs /\ Inv s'.
Proof.
  induction 1 as [|[k x] r [Hk Hx] Hr IH]; intros s vs s' Hi He; cbn [map_eval_pairs] in He.
  - inversion He; subst. split; [constructor|auto].
  - fold (map_eval_pairs ev) in He. cbn [fst snd] in Hk, Hx.
    bstep He p1 E1. destruct p1 as [kv s1]. bstep He p2 E2. destruct p2 as [xv s2]. bstep He p3 E3. destruct p3 as [vr s3].
    inversion He; subst.
    destruct (Hev k Hk _ _ _ Hi E1) as [V1 I1]. destruct (Hev x Hx _ _ _ I1 E2) as [V2 I2]. destruct (IH _ _ _ I2 E3) as [V3 I3].
    split; [apply entries_all_cons; auto|auto].
Qed.

Lemma cmp_chain_Inv m rest : Forall (fun p => P (snd p)) rest -> forall left s v s', Inv s ->
  cmp_chain m ev left s rest = Ok (v, s') -> vok v /\ Inv s'.
Proof.
  induction 1 as [|[op r] l' Hr Hl IH]; intros left s v s' Hi He; cbn [cmp_chain] in He.
  - inversion He; subst. split; [exact I|auto].
  - fold (cmp_chain m ev) in He. cbn [snd] in Hr.
    bstep He p1 E1. destruct p1 as [y s2]. bstep He b Eb.
    destruct (Hev r Hr _ _ _ Hi E1) as [V1 I1].
    destruct l' as [|p2 l''].
    + inversion He; subst. split; [exact I|auto].
    + destruct b; [eapply IH; eauto|inversion He; subst; split; [exact I|auto]].
Qed.

Lemma with_binds_Inv binds : Forall (fun p => P (snd p)) binds -> forall s s', Inv s ->
  with_binds ev s binds = Ok s' -> Inv s'.
Proof.
  induction 1 as [|[x e] r Hx Hr IH]; intros s s' Hi He; cbn [with_binds] in He.
  - inversion He; subst; auto.
  - fold (with_binds ev) in He. cbn [snd] in Hx. bstep He p1 E1. destruct p1 as [v s1]. bstep He s2 E2.
    destruct (Hev e Hx _ _ _ Hi E1) as [V1 I1]. eapply IH; [|exact He]. eapply bind_target_Inv; eauto.
Qed.

Lemma filter_items_Inv m tgt fe : P fe -> forall items s kept s3, Forall vok items -> Inv s ->
  filter_items m ev tgt fe s items = Ok (kept, s3) -> Forall vok kept /\ Inv s3.
Proof.
  intros Hf. induction items as [|item r IH]; intros s kept s3 Hit Hi He; cbn [filter_items] in He.
  - inversion He; subst. auto.
  - fold (filter_items m ev tgt fe) in He. inversion Hit; subst.
    bstep He sf1 E1. bstep He p2 E2. destruct p2 as [v sf2]. bstep He keep Ek. bstep He p3 E3. destruct p3 as [rest s4].
    inversion He; subst.
    assert (I1 : Inv sf1). { eapply bind_target_Inv; [|eauto|eauto]. apply push_Inv; [auto|constructor]. }
    destruct (Hev fe Hf _ _ _ I1 E2) as [_ I2].
    destruct (IH _ _ _ H2 (pop_Inv C _ I2) E3) as [V I3].
    split; [destruct keep; auto|auto].
Qed.

Lemma store_args_Inv defaults : Forall (fun p => P (snd p)) defaults -> forall bound s s', kvok bound -> Inv s ->
  store_args ev defaults s bound = Ok s' -> Inv s'.
Proof.
  intros Hd. induction bound as [|[p v] r IH]; intros s s' Hb Hi He; cbn [store_args] in He.
  - inversion He; subst; auto.
  - fold (store_args ev defaults) in He. inversion Hb; subst. cbn [snd] in *.
    destruct (is_undef v); [destruct (assoc p defaults) as [d|] eqn:Ea|].
    + bstep He p1 E1. destruct p1 as [dv s1].
      assert (Pd : P d).
      { clear -Hd Ea. induction Hd as [|[k x] l Hx Hl IHd]; cbn [assoc] in Ea; [discriminate|].
        destruct (p =? k)%Z; [inversion Ea; subst; exact Hx|auto]. }
      destruct (Hev d Pd _ _ _ Hi E1) as [V1 I1]. eapply IH; [auto| |exact He]. apply store_Inv; auto.
    + eapply IH; [auto| |exact He]. apply store_Inv; auto.
    + eapply IH; [auto| |exact He]. apply store_Inv; auto.
Qed.
End Comb.

Section CombStmt.
Variable ex : st -> list stmt -> outcome (signal * st).
Variable body : list stmt.
Hypothesis Hex : forall s sg s', Inv s -> ex s body = Ok (sg, s') -> Inv s'.

Lemma loop_items_Inv tgt n : forall items s i s5, Forall vok items -> Inv s ->
  loop_items ex tgt body n s i items = Ok s5 -> Inv s5.
Proof.
  induction items as [|item r IH]; intros s i s5 Hit Hi He; cbn [loop_items] in He.
  - inversion He; subst; auto.
  - fold (loop_items ex tgt body n) in He. inversion Hit; subst.
    bstep He s3 E1. bstep He p2 E2. destruct p2 as [sg s4].
    assert (I3 : Inv s3).
    { eapply bind_target_Inv; [|eauto|eauto]. destruct (s_env s) as [|f e] eqn:Ee; [auto|eapply reset_Inv; eauto]. }
    pose proof (Hex _ _ _ I3 E2) as I4.
    destruct sg; try (inversion He; subst; exact I4); eapply IH; eauto.
Qed.
End CombStmt.

Lemma items_ok m iv items : vok iv -> loop_items_of m iv = Ok items -> Forall vok items.
Proof.
  intros Hv. destruct iv as [| | | | |sf t| | | | |]; cbn [loop_items_of]; try discriminate.
  - destruct (u_strictish m); intros H; inversion H; subst. constructor.
  - intros H; inversion H; subst. constructor.
  - intros H; inversion H; subst. clear. induction t; constructor; [exact I|assumption].
  - intros H; inversion H; subst. apply vok_list in Hv. exact Hv.
  - intros H; inversion H; subst. apply vok_map in Hv. apply map_keys_all. exact Hv.
Qed.

End InvAll.

Section InvMain.
Variable c : cfg.
Variable C : list instr.
Hypothesis Hcfg : cfg_ok C c.
Hypothesis Hwf : wf_code C.
Notation vok := (vok C).
Notation kvok := (kvok C).
Notation Inv := (Inv C).
Notation placed := (placed C).
Notation placed_l := (placed_l C).

Definition eval_inv (fuel : nat) : Prop :=
  forall esc e, l2_expr e = true -> forall s v s', Inv s -> eval c fuel esc s e = Ok (v, s') -> vok v /\ Inv s'.
Definition call_inv (fuel : nat) : Prop :=
  forall esc s mc cl args kw v s', Inv s -> mok C mc -> Forall vok args -> kvok kw ->
  call_macro c fuel esc s mc cl args kw = Ok (v, s') -> vok v /\ Inv s'.
Definition stmt_inv (fuel : nat) : Prop :=
  forall inl t, l2_stmt inl t = true -> placed t -> forall esc s sg s', Inv s -> exec c fuel esc s t = Ok (sg, s') -> Inv s'.
Definition list_inv (fuel : nat) : Prop :=
  forall inl l, forallb (l2_stmt inl) l = true -> placed_l l -> forall esc s sg s', Inv s -> exec_list c fuel esc s l = Ok (sg, s') -> Inv s'.

Lemma forallb_F {X} (p : X -> bool) l : forallb p l = true -> Forall (fun x => p x = true) l.
Proof. induction l; cbn; intros H; constructor; apply andb_prop in H as [? ?]; auto. Qed.

Lemma if_arms_Inv fuel esc els inl :
  eval_inv fuel -> list_inv fuel ->
  match els with Some b => forallb (l2_stmt inl) b | None => true end = true ->
  match els with Some b => placed_l b | None => True end ->
  forall arms, forallb (fun p => l2_expr (fst p) && forallb (l2_stmt inl) (snd p)) arms = true ->
  Forall (fun p => placed_l (snd p)) arms ->
  forall s sg s', Inv s -> if_arms (c_mode c) (eval c fuel esc) (exec_list c fuel esc) els s arms = Ok (sg, s') -> Inv s'.
Proof.
  intros IHe IHl He1 He2. induction arms as [|[cnd body] r IH]; intros Hw Hp s sg s' Hi He; cbn [if_arms] in He.
  - destruct els as [b|]; [eapply IHl; eauto|inversion He; subst; auto].
  - fold (if_arms (c_mode c) (eval c fuel esc) (exec_list c fuel esc) els) in He.
    cbn [forallb fst snd] in Hw. apply andb_prop in Hw as [Hw Hr]. apply andb_prop in Hw as [H1 H2].
    inversion Hp; subst. cbn [snd] in *.
    bstep He p1 E1. destruct p1 as [v s1]. bstep He t Et.
    destruct (IHe esc cnd H1 _ _ _ Hi E1) as [_ I1].
    destruct t; [exact (IHl inl body H2 H3 _ _ _ _ I1 He)|exact (IH Hr H4 _ _ _ I1 He)].
Qed.

Lemma inv_all : forall fuel, eval_inv fuel /\ call_inv fuel /\ stmt_inv fuel /\ list_inv fuel.
Proof.
  induction fuel as [|fuel (IHe & IHc & IHs & IHl)].
  { unfold eval_inv, call_inv, stmt_inv, list_inv. split; [|split; [|split]]; intros; discriminate. }
  unfold eval_inv, call_inv, stmt_inv, list_inv in *.
  assert (EV : forall esc e, l2_expr e = true -> forall s v s', Inv s -> eval c fuel esc s e = Ok (v, s') -> vok v /\ Inv s') by exact IHe.
  split; [|split; [|split]].
  - (* eval *)
    intros esc e Hw s v s' Hi He.
    destruct e; cbn [l2_expr] in Hw; cbn [eval] in He.
    + destruct l; inversion He; subst; split; auto; exact I.
    + destruct (lookup c s x) as [ov s1] eqn:El. inversion He; subst. eapply lookup_ok; eauto.
    + bstep He p1 E1. destruct p1 as [vs s1]. inversion He; subst.
      destruct (map_eval_Inv C (eval c fuel esc) (fun e => l2_expr e = true) (EV esc) items (forallb_F _ _ Hw) _ _ _ Hi E1) as [V I1].
      split; [apply vok_list; auto|auto].
    + bstep He p1 E1. destruct p1 as [kvs s1]. inversion He; subst.
      assert (Hpairs : Forall (fun p => l2_expr (fst p) = true /\ l2_expr (snd p) = true) pairs).
      { apply forallb_F in Hw. eapply Forall_impl; [|exact Hw]. intros p Hp. apply andb_prop in Hp. exact Hp. }
      destruct (map_eval_pairs_Inv C (eval c fuel esc) (fun e => l2_expr e = true) (EV esc) pairs Hpairs _ _ _ Hi E1) as [V I1].
      split; [apply vok_map; apply map_of_pairs_all; exact V|auto].
    + bstep He p1 E1. destruct p1 as [x s1]. destruct (EV esc e Hw _ _ _ Hi E1) as [V I1].
      destruct x; try discriminate. inversion He; subst. split; [exact I|auto].
    + bstep He p1 E1. destruct p1 as [x s1]. destruct (EV esc e Hw _ _ _ Hi E1) as [V I1].
      bstep He b Eb. inversion He; subst. split; [exact I|auto].
    + apply andb_prop in Hw as [H1 H2].
      bstep He p1 E1. destruct p1 as [x s1]. bstep He p2 E2. destruct p2 as [y s2].
      destruct (EV esc e1 H1 _ _ _ Hi E1) as [V1 I1]. destruct (EV esc e2 H2 _ _ _ I1 E2) as [V2 I2].
      bstep He u Eu. bstep He r Er. inversion He; subst. split; [eapply do_bin_ok; eauto|auto].
    + apply andb_prop in Hw as [Hw H3]. apply andb_prop in Hw as [H1 _].
      bstep He p1 E1. destruct p1 as [x s1]. destruct (EV esc e H1 _ _ _ Hi E1) as [V1 I1].
      eapply (cmp_chain_Inv C (eval c fuel esc) (fun e => l2_expr e = true) (EV esc)); [apply forallb_F; exact H3|exact I1|exact He].
    + apply andb_prop in Hw as [H1 H2].
      bstep He p1 E1. destruct p1 as [x s1]. destruct (EV esc e1 H1 _ _ _ Hi E1) as [V1 I1].
      bstep He t Et. destruct t; [eapply EV; eauto|inversion He; subst; auto].
    + apply andb_prop in Hw as [H1 H2].
      bstep He p1 E1. destruct p1 as [x s1]. destruct (EV esc e1 H1 _ _ _ Hi E1) as [V1 I1].
      bstep He t Et. destruct t; [inversion He; subst; auto|eapply EV; eauto].
    + apply andb_prop in Hw as [Hw H3]. apply andb_prop in Hw as [H1 H2].
      bstep He p1 E1. destruct p1 as [x s1]. destruct (EV esc e1 H1 _ _ _ Hi E1) as [V1 I1].
      bstep He t Et. destruct t; [eapply EV; eauto|].
      destruct f as [f|]; [eapply EV; eauto|inversion He; subst; split; [exact I|auto]].
    + apply andb_prop in Hw as [H1 H2].
      bstep He p1 E1. destruct p1 as [x s1]. bstep He p2 E2. destruct p2 as [k s2].
      destruct (EV esc e1 H1 _ _ _ Hi E1) as [V1 I1]. destruct (EV esc e2 H2 _ _ _ I1 E2) as [V2 I2].
      destruct (get_item_opt x k) as [w|] eqn:Ew.
      * inversion He; subst. split; [|auto].
        eapply (get_item_opt_all vok x k); [| |exact Ew].
        -- intros l0 ->. apply vok_list; exact V1.
        -- intros m0 ->. apply vok_map; exact V1.
      * bstep He w Eu. inversion He; subst. split; [eapply u_handle_undefined_ok; eauto|auto].
    + bstep He p1 E1. destruct p1 as [x s1]. destruct (EV esc e Hw _ _ _ Hi E1) as [V1 I1].
      destruct (get_attr_opt x a) as [w|] eqn:Ew.
      * inversion He; subst. split; [|auto].
        eapply (get_attr_opt_all vok x a); [| |exact Ew].
        -- intros i0 n0 w0 _ Hl. eapply loop_attr_ok; eauto.
        -- intros m0 ->. apply vok_map; exact V1.
      * bstep He w Eu. inversion He; subst. split; [eapply u_handle_undefined_ok; eauto|auto].
    + apply andb_prop in Hw as [H1 H2].
      bstep He p1 E1. destruct p1 as [x s1]. bstep He p2 E2. destruct p2 as [vs s2].
      destruct (EV esc e H1 _ _ _ Hi E1) as [V1 I1].
      destruct (map_eval_Inv C (eval c fuel esc) (fun e => l2_expr e = true) (EV esc) args (forallb_F _ _ H2) _ _ _ I1 E2) as [V2 I2].
      bstep He r Er. inversion He; subst. split; [eapply do_filter_ok; eauto|auto].
    + apply andb_prop in Hw as [H1 H2].
      bstep He p1 E1. destruct p1 as [x s1]. bstep He p2 E2. destruct p2 as [vs s2].
      destruct (EV esc e H1 _ _ _ Hi E1) as [V1 I1].
      destruct (map_eval_Inv C (eval c fuel esc) (fun e => l2_expr e = true) (EV esc) args (forallb_F _ _ H2) _ _ _ I1 E2) as [V2 I2].
      bstep He r Er. inversion He; subst. split; [exact I|auto].
    + (* ECall *)
      apply andb_prop in Hw as [Hw _]. apply andb_prop in Hw as [H1 H2].
      bstep He p1 E1. destruct p1 as [vs s1]. bstep He p2 E2. destruct p2 as [kvs s2].
      destruct (map_eval_Inv C (eval c fuel esc) (fun e => l2_expr e = true) (EV esc) args (forallb_F _ _ H1) _ _ _ Hi E1) as [V1 I1].
      destruct (map_eval_kw_Inv C (eval c fuel esc) (fun e => l2_expr e = true) (EV esc) kwargs (forallb_F _ _ H2) _ _ _ I1 E2) as [V2 I2].
      destruct (lookup c s2 f) as [fv s3] eqn:El. destruct (lookup_ok c C Hcfg _ _ _ _ I2 El) as [Vf I3].
      destruct fv as [[| | | | | | | |mc cl| |g]|]; try discriminate.
      * eapply IHc; eauto.
      * destruct (g =? N_range)%Z; [|discriminate].
        destruct vs as [|[| | | |k| | | | | |] [|? ?]]; try discriminate. destruct kvs; [|discriminate].
        inversion He; subst. split; [apply vok_list, range_ok|auto].
  - (* call_macro *)
    intros esc s mc cl args kw v s' Hi Hm Ha Hk He.
    cbn [call_macro] in He.
    destruct (Nat.ltb (length (m_params mc)) (length args)); [discriminate|].
    bstep He bound Eb.
    match type of He with (if ?b then _ else _) = _ => destruct b; [discriminate|] end.
    bstep He s1 E1. bstep He p2 E2. destruct p2 as [sg s2]. inversion He; subst.
    pose proof (bind_params_ok C kw Hk _ _ _ Ha Eb) as Hbound.
    destruct Hm as (Md & Mb & Mc). destruct Hi as [Hie Hic].
    set (caller_v := match assoc N_caller kw with Some v => v | None => VUndef end) in *.
    assert (Vc : vok caller_v) by (unfold caller_v; destruct (assoc N_caller kw) eqn:Ea; [exact (assoc_ok C _ _ _ Hk Ea)|exact I]).
    assert (I0 : Inv (mkSt [mkFrame (if m_caller mc then [(N_caller, caller_v)] else []) None None cl false; base_frame] (s_clos s) [] (s_asks s))).
    { split; cbn [s_env s_clos]; [|exact Hic]. constructor; [|constructor; [constructor|constructor]].
      cbn [f_locals]. destruct (m_caller mc); repeat constructor; exact Vc. }
    assert (I1 : Inv s1).
    { eapply (store_args_Inv C (eval c fuel esc) (fun e => l2_expr e = true) (EV esc) (m_defaults mc)); [apply forallb_F; exact Md| |exact I0|exact E1].
      unfold L2.Simulation.kvok. apply Forall_rev. exact Hbound. }
    assert (I2 : Inv s2).
    { eapply (IHl false (m_body mc) Mb); [|exact I1|exact E2]. eapply mok_placed; eauto. repeat split; auto. }
    split; [exact I|]. destruct I2 as [_ I2c]. split; cbn [s_env s_clos]; auto.
  - (* exec *)
    intros inl t Hw Hp esc s sg s' Hi He.
    destruct t; cbn [l2_stmt] in Hw; cbn [exec] in He.
    + inversion He; subst. eapply Inv_same; [| |exact Hi]; reflexivity.
    + bstep He p1 E1. destruct p1 as [v s1].
      destruct (u_strictish (c_mode c) && is_strict_undef v); try discriminate. inversion He; subst.
      destruct (EV esc e Hw _ _ _ Hi E1) as [_ I1]. eapply Inv_same; [| |exact I1]; reflexivity.
    + apply andb_prop in Hw as [Ha Hels]. destruct (placed_if C _ _ Hp) as [Pa Pe].
      eapply (if_arms_Inv fuel esc els inl IHe IHl Hels Pe arms Ha Pa); eauto.
    + apply andb_prop in Hw as [Hw Hels]. apply andb_prop in Hw as [Hw Hbody]. apply andb_prop in Hw as [Hiter Hflt].
      destruct (placed_for C _ _ _ _ _ _ Hp) as [Pb Pe].
      bstep He p1 E1. destruct p1 as [iv s1]. bstep He items0 E2. bstep He p3 E3. destruct p3 as [items s2]. bstep He s5 E4.
      destruct (EV esc iter Hiter _ _ _ Hi E1) as [V1 I1].
      change (loop_items_of (c_mode c) iv = Ok items0) in E2.
      pose proof (items_ok C _ _ _ V1 E2) as V0.
      assert (H2 : Forall vok items /\ Inv s2).
      { destruct filter as [fe|].
        - eapply (filter_items_Inv C (eval c fuel esc) (fun e => l2_expr e = true) (EV esc)); eauto.
        - inversion E3; subst. auto. }
      destruct H2 as [V2 I2].
      assert (I5 : Inv s5).
      { eapply (loop_items_Inv C (exec_list c fuel esc) body); [|exact V2| |exact E4].
        - intros s0 sg0 s0' Hi0 He0. exact (IHl true body Hbody Pb _ _ _ _ Hi0 He0).
        - apply push_Inv; [auto|constructor]. }
      pose proof (pop_Inv C _ I5) as I6.
      destruct items as [|it0 items']; [destruct els as [eb|]|]; try (inversion He; subst; exact I6).
      exact (IHl inl eb Hels Pe _ _ _ _ I6 He).
    + bstep He p1 E1. destruct p1 as [v s1]. bstep He s2 E2. inversion He; subst.
      destruct (EV esc e Hw _ _ _ Hi E1) as [V1 I1]. eapply bind_target_Inv; eauto.
    + pose proof (placed_setblock C _ _ _ Hp) as Pb.
      bstep He p1 E1. destruct p1 as [[sg1 txt] s1]. bstep E1 p2 E2. destruct p2 as [sg2 s2]. inversion E1; subst. clear E1.
      assert (I2 : Inv (with_out s2 (s_out s))).
      { assert (I0 : Inv (with_out s [])) by (eapply Inv_same; [| |exact Hi]; reflexivity).
        pose proof (IHl inl body Hw Pb _ _ _ _ I0 E2) as I2'. eapply Inv_same; [| |exact I2']; reflexivity. }
      destruct sg1; try (inversion He; subst; exact I2).
      bstep He fv Ef. inversion He; subst. apply store_Inv; auto.
      destruct filter as [f|]; [|inversion Ef; exact I].
      eapply do_filter_ok; [| |exact Ef]; [exact I|constructor].
    + apply andb_prop in Hw as [Hb Hbody]. pose proof (placed_with C _ _ Hp) as Pb.
      bstep He s1 E1. bstep He p2 E2. destruct p2 as [sg2 s2]. inversion He; subst.
      apply pop_Inv. refine (IHl inl body Hbody Pb _ _ _ _ _ E2).
      refine (with_binds_Inv C (eval c fuel esc) (fun e => l2_expr e = true) (EV esc) binds (forallb_F _ _ Hb) _ _ _ E1).
      apply push_Inv; [auto|constructor].
    + (* SMacro *)
      apply andb_prop in Hw as [Hd Hbody].
      destruct (enclose c s (macro_closure params defaults body)) as [s1 cl] eqn:Ee. inversion He; subst.
      apply store_Inv; [eapply enclose_Inv; eauto|].
      cbn [L2.Simulation.vok]. repeat split; cbn [m_defaults m_body]; auto. eapply placed_macro; eauto.
    + (* SCallBlock *)
      apply andb_prop in Hw as [Ha Hbody].
      bstep He p1 E1. destruct p1 as [vs s1].
      destruct (map_eval_Inv C (eval c fuel esc) (fun e => l2_expr e = true) (EV esc) args (forallb_F _ _ Ha) _ _ _ Hi E1) as [V1 I1].
      destruct (enclose c s1 (macro_closure [] [] body)) as [s2 cl] eqn:Ee.
      pose proof (enclose_Inv c C Hcfg _ _ _ _ I1 Ee) as I2.
      destruct (lookup c s2 m) as [fv s3] eqn:El. destruct (lookup_ok c C Hcfg _ _ _ _ I2 El) as [Vf I3].
      destruct fv as [[| | | | | | | |mc mcl| |g]|]; try discriminate.
      bstep He p4 E4. destruct p4 as [v s4]. inversion He; subst.
      assert (Vcm : vok (VMacro (mkMacro N_caller [] [] body (uses_caller [] [] body)) cl)).
      { cbn [L2.Simulation.vok]. repeat split; cbn [m_defaults m_body]; auto. eapply placed_callblock; eauto. }
      destruct (IHc esc s3 mc mcl vs [(N_caller, VMacro (mkMacro N_caller [] [] body (uses_caller [] [] body)) cl)] v s4 I3 Vf V1
                  ltac:(constructor; [exact Vcm|constructor]) E4) as [_ I4].
      eapply Inv_same; [| |exact I4]; reflexivity.
    + pose proof (placed_filterblock C _ _ Hp) as Pb.
      bstep He p1 E1. destruct p1 as [[sg1 txt] s1]. bstep E1 p2 E2. destruct p2 as [sg2 s2]. inversion E1; subst. clear E1.
      assert (I2 : Inv (with_out s2 (s_out s))).
      { assert (I0 : Inv (with_out s [])) by (eapply Inv_same; [| |exact Hi]; reflexivity).
        pose proof (IHl inl body Hw Pb _ _ _ _ I0 E2) as I2'. eapply Inv_same; [| |exact I2']; reflexivity. }
      destruct sg1; try (inversion He; subst; exact I2).
      bstep He fv Ef. inversion He; subst. eapply Inv_same; [| |exact I2]; reflexivity.
    + apply andb_prop in Hw as [Hv Hbody]. pose proof (placed_autoescape C _ _ Hp) as Pb.
      bstep He p1 E1. destruct p1 as [x s1]. bstep He esc' Ee.
      destruct (EV esc v Hv _ _ _ Hi E1) as [_ I1]. exact (IHl inl body Hbody Pb _ _ _ _ I1 He).
    + inversion He; subst; auto.
    + inversion He; subst; auto.
  - (* exec_list *)
    intros inl l Hw Hp esc s sg s' Hi He.
    destruct l as [|t r]; cbn [exec_list] in He.
    + inversion He; subst; auto.
    + cbn [forallb] in Hw. apply andb_prop in Hw as [Ht Hr]. destruct (placed_l_cons C _ _ Hp) as [Pt Pr].
      bstep He p1 E1. destruct p1 as [sg1 s1].
      pose proof (IHs inl t Ht Pt _ _ _ _ Hi E1) as I1.
      destruct sg1; [exact (IHl inl r Hr Pr _ _ _ _ I1 He)|inversion He; subst; auto|inversion He; subst; auto].
Qed.

End InvMain.
