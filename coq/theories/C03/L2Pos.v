(* C03, bytecode level: named positions of compile_for_loop, induction principle for statements, and the
   fact that code lengths do not depend on break targets. *)
From MJ Require Import Common.Base Lang.Syntax Lang.Meta Lang.Interp.
From MJ Require Import C04.Model.
From MJ Require Import L2.Instr.
From MJ Require Import L2.Compile.
From MJ Require Import L2.Vm.
Local Open Scope nat_scope.

(* compile_for_loop with named positions; [f_pre]: everything up to and including PushLoop(flags) *)
Definition f_flags (rc : bool) : nat := LOOP_FLAG_WITH_LOOP_VAR + (if rc then LOOP_FLAG_RECURSIVE else 0).
Definition f_pre (tgt : target) (iter : expr) (flt : option expr) (rc : bool) (base : nat) : list instr :=
  match flt with
  | None => compile_expr iter base ++ [IPushLoop (f_flags rc)]
  | Some fe =>
      let ci := compile_expr iter (base + 1) in
      let it1 := base + 1 + length ci + 1 in
      let ca := assign_code tgt in
      let cf := compile_expr fe (it1 + 1 + 1 + length ca) in
      let jf := it1 + 1 + 1 + length ca + length cf in
      [ILoadConst (VInt 0)] ++ ci ++ [IPushLoop 0; IIterate (jf + 7)] ++ [IDupTop] ++ ca ++ cf
        ++ [IJumpIfFalse (jf + 5); ISwap; ILoadConst (VInt 1); IBinOp OAdd; IJump (jf + 6); IDiscardTop;
            IJump it1; IPopLoopFrame; IBuildList None; IPushLoop (f_flags rc)]
  end.
Definition f_it tgt iter flt rc (base : nat) : nat := base + length (f_pre tgt iter flt rc base).
Definition f_body_at tgt iter flt rc (base : nat) : nat := f_it tgt iter flt rc base + 1 + length (assign_code tgt).
Definition f_end tgt iter flt rc (body : list stmt) (base : nat) : nat :=
  f_body_at tgt iter flt rc base
  + length (compile_stmts body (f_body_at tgt iter flt rc base) (Some (mkL (f_it tgt iter flt rc base) 0 []))) + 1.

Lemma compile_for_eq tgt iter flt body els rc base lc :
  compile_stmt (SFor tgt iter flt body els rc) base lc =
  f_pre tgt iter flt rc base ++ [IIterate (f_end tgt iter flt rc body base)] ++ assign_code tgt
    ++ compile_stmts body (f_body_at tgt iter flt rc base) (Some (mkL (f_it tgt iter flt rc base) (f_end tgt iter flt rc body base) []))
    ++ match els with
       | None | Some [] => [IJump (f_it tgt iter flt rc base); IPopLoopFrame]
       | Some eb => [IJump (f_it tgt iter flt rc base); IPushDidNotIterate; IPopLoopFrame;
                     IJumpIfFalse (f_end tgt iter flt rc body base + 3 + length (compile_stmts eb (f_end tgt iter flt rc body base + 3) lc))]
                    ++ compile_stmts eb (f_end tgt iter flt rc body base + 3) lc
       end.
Proof.
  cbn [compile_stmt]. unfold f_end, f_body_at, f_it, f_pre, f_flags, compile_stmts.
  destruct flt; destruct els as [[|x b]|]; reflexivity.
Qed.


(* induction principle for statements with their nested bodies *)
Section StmtInd.
Variable P : stmt -> Prop.
Hypothesis Hraw : forall t, P (SRaw t).
Hypothesis Hemit : forall e, P (SEmit e).
Hypothesis Hif : forall arms els, Forall (fun p => Forall P (snd p)) arms ->
  match els with Some b => Forall P b | None => True end -> P (SIf arms els).
Hypothesis Hfor : forall t i f body els r, Forall P body ->
  match els with Some b => Forall P b | None => True end -> P (SFor t i f body els r).
Hypothesis Hset : forall x e, P (SSet x e).
Hypothesis Hsetblock : forall x body f, Forall P body -> P (SSetBlock x body f).
Hypothesis Hwith : forall binds body, Forall P body -> P (SWith binds body).
Hypothesis Hmacro : forall m ps ds body, Forall P body -> P (SMacro m ps ds body).
Hypothesis Hcall : forall m args body, Forall P body -> P (SCallBlock m args body).
Hypothesis Hfb : forall f body, Forall P body -> P (SFilterBlock f body).
Hypothesis Hae : forall v body, Forall P body -> P (SAutoEscape v body).
Hypothesis Hbreak : P SBreak.
Hypothesis Hcont : P SContinue.

Fixpoint stmt_ind' (t : stmt) : P t :=
  let go := fix go (l : list stmt) : Forall P l :=
    match l with [] => Forall_nil P | x :: r => Forall_cons x (stmt_ind' x) (go r) end in
  let goo (o : option (list stmt)) : match o with Some b => Forall P b | None => True end :=
    match o with Some b => go b | None => I end in
  match t with
  | SRaw x => Hraw x
  | SEmit e => Hemit e
  | SIf arms els =>
      Hif arms els
        ((fix ga (a : list (expr * list stmt)) : Forall (fun p => Forall P (snd p)) a :=
            match a with
            | [] => Forall_nil _
            | p :: r => Forall_cons p (match p as p0 return Forall P (snd p0) with (_, b) => go b end) (ga r)
            end) arms)
        (goo els)
  | SFor tg i f body els r => Hfor tg i f body els r (go body) (goo els)
  | SSet x e => Hset x e
  | SSetBlock x body f => Hsetblock x body f (go body)
  | SWith binds body => Hwith binds body (go body)
  | SMacro m ps ds body => Hmacro m ps ds body (go body)
  | SCallBlock m args body => Hcall m args body (go body)
  | SFilterBlock f body => Hfb f body (go body)
  | SAutoEscape v body => Hae v body (go body)
  | SBreak => Hbreak
  | SContinue => Hcont
  end.
End StmtInd.

(* the length of a statement's code does not depend on where `break` jumps to *)
Definition len_indep (t : stmt) : Prop :=
  forall base i e e' p, length (compile_stmt t base (Some (mkL i e p))) = length (compile_stmt t base (Some (mkL i e' p))).

Lemma seq_len_indep l : Forall len_indep l ->
  forall base i e e' p, length (compile_stmts l base (Some (mkL i e p))) = length (compile_stmts l base (Some (mkL i e' p))).
Proof.
  induction 1 as [|x r Hx Hr IH]; intros base i e e' p; [reflexivity|].
  unfold compile_stmts. cbn [seq_code].
  fold (compile_stmts r (base + length (compile_stmt x base (Some (mkL i e p)))) (Some (mkL i e p))).
  fold (compile_stmts r (base + length (compile_stmt x base (Some (mkL i e' p)))) (Some (mkL i e' p))).
  rewrite !app_length. rewrite (Hx base i e e' p). f_equal. apply IH.
Qed.

Lemma if_len_indep els arms : Forall (fun p => Forall len_indep (snd p)) arms ->
  match els with Some b => Forall len_indep b | None => True end ->
  forall base i e e' p,
    length (if_code (fun b pc => compile_stmts b pc (Some (mkL i e p))) els arms base) =
    length (if_code (fun b pc => compile_stmts b pc (Some (mkL i e' p))) els arms base).
Proof.
  intros Ha Hels. induction Ha as [|[cnd body] r Hb Hr IH]; intros base i e e' p.
  - cbn [if_code]. destruct els as [b|]; [apply seq_len_indep; exact Hels|reflexivity].
  - cbn [if_code snd] in *.
    fold (if_code (fun b pc => compile_stmts b pc (Some (mkL i e p))) els).
    fold (if_code (fun b pc => compile_stmts b pc (Some (mkL i e' p))) els).
    pose proof (seq_len_indep body Hb (base + length (compile_expr cnd base) + 1) i e e' p) as Hct.
    destruct r as [|a2 r']; [destruct (nonempty_body els)|]; rewrite ?app_length; cbn [length]; rewrite ?app_length; cbn [length];
      rewrite Hct; try reflexivity; rewrite (IH _ i e e' p); reflexivity.
Qed.

Lemma compile_len_indep : forall t, len_indep t.
Proof.
  apply stmt_ind'; unfold len_indep; intros; cbn [compile_stmt]; try reflexivity.
  - (* SIf *) apply if_len_indep; assumption.
  - (* SFor *)
    destruct els as [[|x b]|]; try reflexivity.
    rewrite ?app_length. cbn [length]. rewrite ?app_length. cbn [length].
    match goal with |- context [seq_code _ (x :: b) ?pos] => pose proof (seq_len_indep (x :: b) H0 pos i0 e e' p) as HL end.
    unfold compile_stmts in HL. lia.
  - (* SSetBlock *) cbn [enter_scope lc_iter lc_end lc_pending]. rewrite ?app_length. cbn [length]. rewrite ?app_length.
    pose proof (seq_len_indep body H (base + 1) i e e' (ClCapture :: p)) as HL. unfold compile_stmts in HL. lia.
  - (* SWith *) cbn [enter_scope lc_iter lc_end lc_pending]. rewrite ?app_length. cbn [length]. rewrite ?app_length.
    match goal with |- context [seq_code _ body ?pos] => pose proof (seq_len_indep body H pos i e e' (ClFrame :: p)) as HL end.
    unfold compile_stmts in HL. lia.
  - (* SFilterBlock *) cbn [enter_scope lc_iter lc_end lc_pending]. rewrite ?app_length. cbn [length]. rewrite ?app_length.
    pose proof (seq_len_indep body H (base + 1) i e e' (ClCapture :: p)) as HL. unfold compile_stmts in HL. lia.
  - (* SAutoEscape *) cbn [enter_scope lc_iter lc_end lc_pending]. rewrite ?app_length. cbn [length]. rewrite ?app_length.
    match goal with |- context [seq_code _ body ?pos] => pose proof (seq_len_indep body H pos i e e' (ClAutoEscape :: p)) as HL end.
    unfold compile_stmts in HL. lia.
  - (* SBreak *) cbn [lc_pending lc_end]. rewrite !app_length. reflexivity.
Qed.


Lemma body_len_indep body base i e e' : length (compile_stmts body base (Some (mkL i e []))) = length (compile_stmts body base (Some (mkL i e' []))).
Proof. apply seq_len_indep. induction body; constructor; auto using compile_len_indep. Qed.

Lemma f_end_eq tgt iter flt rc body base :
  f_end tgt iter flt rc body base =
  f_body_at tgt iter flt rc base
  + length (compile_stmts body (f_body_at tgt iter flt rc base) (Some (mkL (f_it tgt iter flt rc base) (f_end tgt iter flt rc body base) []))) + 1.
Proof. unfold f_end at 1. f_equal. f_equal. apply body_len_indep. Qed.
