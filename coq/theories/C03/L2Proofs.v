(* C03, bytecode level: the compiler model L2/Compile.v and the VM model L2/Vm.v simulate the
   reference interpreter Lang/Interp.v (forward simulation, Ok runs).
   Part 1: a folded constant is what evaluation yields, for ANY fuel (inversion form of C04's
   fold_agrees, which needs fuel >= depth).  Part 2: expressions.  Part 3: statements. *)
From MJ Require Import Common.Base Lang.Syntax Lang.Meta Lang.Interp.
From MJ Require Import C04.Model.
From MJ Require Import C04.Spec.
From MJ Require Import C04.Proofs.
From MJ Require Import C03.Proofs.
From MJ Require Import L2.Instr.
From MJ Require Import L2.Compile.
From MJ Require Import L2.Vm.
From MJ Require Import L2.Simulation.
From MJ Require Import C03.L2Relab.
Local Open Scope nat_scope.

(* ------------------------------------------------------------------------------------------ *)
(* Part 1: as_const e = Some v0 and eval .. e = Ok (v, s') imply v = v0, s' = s                 *)
(* ------------------------------------------------------------------------------------------ *)
Section FoldEval.
Variable c : cfg.
Variable esc : bool.
Let m := c_mode c.

Lemma u_is_true_ok md v b : u_is_true md v = Ok b -> b = truthy v.
Proof. destruct md, v; cbn; intros H; inversion H; reflexivity. Qed.

Definition fold_inv (fuel : nat) (e : expr) : Prop :=
  forall v0, as_const e = Some v0 ->
  forall s v s', eval c fuel esc s e = Ok (v, s') -> v = v0 /\ s' = s.

Lemma const_values_inv fuel items vs :
  const_values items = Some vs ->
  forall s ws s', map_eval (eval c fuel esc) s items = Ok (ws, s') -> ws = vs /\ s' = s.
Proof.
  revert vs. induction items as [|x r IH]; intros vs H s ws s' He.
  - inversion H. cbn in He. inversion He. auto.
  - destruct x; try discriminate. cbn [const_values] in H.
    destruct (const_values r) as [vr|] eqn:E; try discriminate. inversion H; subst.
    cbn [map_eval] in He. destruct fuel as [|fuel']; [discriminate|].
    rewrite eval_const in He. cbn [bind] in He.
    fold (map_eval (eval c (S fuel') esc)) in He.
    destruct (map_eval (eval c (S fuel') esc) s r) as [[ws1 s1]| | |] eqn:Er; try discriminate.
    cbn [bind] in He. inversion He; subst.
    destruct (IH vr eq_refl _ _ _ Er) as [-> ->]. auto.
Qed.

Lemma fold_chain_inv fuel rest :
  (forall p, In p rest -> fold_inv fuel (snd p)) ->
  forall left v0, is_undef left = false -> fold_chain as_const left rest = Some v0 ->
  forall s v s', cmp_chain m (eval c fuel esc) left s rest = Ok (v, s') -> v = v0 /\ s' = s.
Proof.
  induction rest as [|[op r] l' IH]; intros Hop left v0 Hl H s v s' He.
  - inversion H. cbn in He. inversion He. auto.
  - cbn [fold_chain] in H.
    destruct (as_const r) as [right|] eqn:Er; cbn [obind] in H; try discriminate.
    destruct (eval_compare op left right) as [res|] eqn:Ec; cbn [obind] in H; try discriminate.
    pose proof (fold_defined_proof r right Er) as Hr.
    destruct (eval_compare_do_cmp m op left right res Hl Hr Ec) as [b [-> Hd]].
    cbn [cmp_chain] in He.
    destruct (eval c fuel esc s r) as [[y s2]| | |] eqn:Ey; try discriminate. cbn [bind] in He.
    destruct (Hop (op, r) (or_introl eq_refl) right Er _ _ _ Ey) as [-> ->].
    rewrite Hd in He. cbn [bind] in He. cbn [truthy] in H.
    destruct l' as [|p2 l''].
    + inversion He; subst. destruct b; cbn in H; inversion H; auto.
    + destruct b.
      * apply (IH (fun p Hp => Hop p (or_intror Hp)) right v0 Hr H _ _ _ He).
      * inversion H; inversion He; subst; auto.
Qed.

Lemma fold_inv_all : forall fuel e, fold_inv fuel e.
Proof.
  induction fuel as [|fuel IH]; intros e v0 H s v s' He; [discriminate|].
  destruct e; unfold as_const in H; cbn [as_const_gen] in H; fold as_const in H; try discriminate.
  - (* EConst *) rewrite eval_const in He. inversion H; inversion He; subst; auto.
  - (* EList *)
    destruct (const_values items) as [vs|] eqn:E; cbn [omap] in H; try discriminate. inversion H; subst.
    cbn [eval] in He.
    destruct (map_eval (eval c fuel esc) s items) as [[ws s1]| | |] eqn:Em; try discriminate.
    cbn [bind] in He. inversion He; subst.
    destruct (const_values_inv fuel items vs E _ _ _ Em) as [-> ->]. auto.
  - (* ENeg *)
    destruct (as_const e) as [x|] eqn:E; cbn [obind] in H; try discriminate.
    cbn [eval] in He. destruct (eval c fuel esc s e) as [[x' s1]| | |] eqn:Ee; try discriminate.
    cbn [bind] in He. destruct (IH e x E _ _ _ Ee) as [-> ->].
    destruct x; cbn in H; try discriminate. inversion H; inversion He; subst; auto.
  - (* ENot *)
    destruct (as_const e) as [x|] eqn:E; cbn [omap] in H; try discriminate. inversion H; subst.
    cbn [eval] in He. destruct (eval c fuel esc s e) as [[x' s1]| | |] eqn:Ee; try discriminate.
    cbn [bind] in He. destruct (IH e x E _ _ _ Ee) as [-> ->].
    destruct (u_is_true (c_mode c) x) as [b| | |] eqn:Eb; try discriminate. cbn [bind] in He.
    apply u_is_true_ok in Eb. subst. inversion He; auto.
  - (* EBin *)
    destruct (as_const e1) as [x|] eqn:E1; try discriminate.
    destruct (as_const e2) as [y|] eqn:E2; try discriminate.
    apply ok_of_some in H.
    cbn [eval] in He. destruct (eval c fuel esc s e1) as [[x' s1]| | |] eqn:Ee1; try discriminate.
    cbn [bind] in He. destruct (IH e1 x E1 _ _ _ Ee1) as [-> ->].
    destruct (eval c fuel esc s e2) as [[y' s2]| | |] eqn:Ee2; try discriminate.
    cbn [bind] in He. destruct (IH e2 y E2 _ _ _ Ee2) as [-> ->].
    match type of He with bind ?g _ = _ => destruct g as [[]| | |]; try discriminate end.
    cbn [bind] in He. rewrite H in He. cbn [bind] in He. inversion He; auto.
  - (* ECmp *)
    cbn [eval] in He. destruct (eval c fuel esc s e) as [[x' s1]| | |] eqn:Ee; try discriminate.
    cbn [bind] in He.
    destruct rest as [|[op b] rest'].
    + destruct (as_const e) as [x|] eqn:E; cbn [obind fold_chain] in H; try discriminate.
      destruct (IH e x E _ _ _ Ee) as [-> ->]. cbn in He. inversion H; inversion He; subst; auto.
    + destruct rest' as [|p2 rest''].
      * assert (Hshape : exists x y, as_const e = Some x /\ as_const b = Some y /\
                  (match op with
                   | CNotIn => omap (fun v => VBool (negb (truthy v))) (eval_compare CIn x y)
                   | _ => eval_compare op x y end) = Some v0).
        { destruct op; destruct (as_const e) as [x|]; try discriminate;
            destruct (as_const b) as [y|]; try discriminate; exists x, y; repeat split; exact H. }
        destruct Hshape as [x [y [E1 [E2 Hv]]]].
        destruct (IH e x E1 _ _ _ Ee) as [-> ->].
        cbn [cmp_chain] in He.
        destruct (eval c fuel esc s b) as [[y' s2]| | |] eqn:Eb; try discriminate. cbn [bind] in He.
        destruct (IH b y E2 _ _ _ Eb) as [-> ->].
        pose proof (fold_defined_proof e x E1) as Hx. pose proof (fold_defined_proof b y E2) as Hy.
        assert (Hr : exists r, v0 = VBool r /\ do_cmp m op x y = Ok r).
        { destruct op; try solve [eapply eval_compare_do_cmp; eassumption].
          destruct (eval_compare CIn x y) as [w|] eqn:Ew; cbn [omap] in Hv; try discriminate.
          destruct (eval_compare_do_cmp m CIn x y w Hx Hy Ew) as [r [-> Hd']].
          inversion Hv. exists (negb r). split; [reflexivity|].
          unfold do_cmp in *. rewrite (u_not_undef_defined m y Hy), (u_not_undef_defined m x Hx) in *.
          cbn [bind] in *. destruct (contains y x); cbn [bind] in *; try discriminate. inversion Hd'. reflexivity. }
        destruct Hr as [r [-> Hd']]. fold m in He. rewrite Hd' in He. cbn [bind] in He. inversion He; auto.
      * assert (Hshape : exists x, as_const e = Some x /\ fold_chain as_const x ((op, b) :: p2 :: rest'') = Some v0).
        { destruct op; destruct (as_const e) as [x|]; try discriminate; exists x; (split; [reflexivity|exact H]). }
        destruct Hshape as [x [E1 Hc]].
        destruct (IH e x E1 _ _ _ Ee) as [-> ->].
        pose proof (fold_defined_proof e x E1) as Hx.
        eapply fold_chain_inv; [| exact Hx | exact Hc | exact He].
        intros p _. apply IH.
  - (* EAnd *)
    destruct (as_const e1) as [x|] eqn:E1; try discriminate.
    destruct (as_const e2) as [y|] eqn:E2; try discriminate. inversion H; subst.
    cbn [eval] in He. destruct (eval c fuel esc s e1) as [[x' s1]| | |] eqn:Ee1; try discriminate.
    cbn [bind] in He. destruct (IH e1 x E1 _ _ _ Ee1) as [-> ->].
    destruct (u_is_true (c_mode c) x) as [t| | |] eqn:Et; try discriminate. cbn [bind] in He.
    apply u_is_true_ok in Et. subst. unfold fold_and.
    destruct (truthy x).
    + apply (IH e2 y E2 _ _ _ He).
    + inversion He; auto.
  - (* EOr *)
    destruct (as_const e1) as [x|] eqn:E1; try discriminate.
    destruct (as_const e2) as [y|] eqn:E2; try discriminate. inversion H; subst.
    cbn [eval] in He. destruct (eval c fuel esc s e1) as [[x' s1]| | |] eqn:Ee1; try discriminate.
    cbn [bind] in He. destruct (IH e1 x E1 _ _ _ Ee1) as [-> ->].
    destruct (u_is_true (c_mode c) x) as [t| | |] eqn:Et; try discriminate. cbn [bind] in He.
    apply u_is_true_ok in Et. subst. unfold fold_or.
    destruct (truthy x).
    + inversion He; auto.
    + apply (IH e2 y E2 _ _ _ He).
Qed.
End FoldEval.

(* ------------------------------------------------------------------------------------------ *)
(* Part 2 and 3: simulation                                                                     *)
(* ------------------------------------------------------------------------------------------ *)
(* ---- code placement ---- *)

Lemma code_at_app_l C pc a b : code_at C pc (a ++ b) -> code_at C pc a.
Proof. intros (pre & post & -> & <-). exists pre, (b ++ post). now rewrite <- app_assoc. Qed.
Lemma code_at_app_r C pc a b : code_at C pc (a ++ b) -> code_at C (pc + length a) b.
Proof. intros (pre & post & -> & <-). exists (pre ++ a), post. rewrite app_length. split; auto. now rewrite <- !app_assoc. Qed.
Lemma code_at_head C pc i r : code_at C pc (i :: r) -> nth_error C pc = Some i.
Proof. intros (pre & post & -> & <-). rewrite nth_error_app2 by lia. now rewrite Nat.sub_diag. Qed.
Lemma code_at_tail C pc i r : code_at C pc (i :: r) -> code_at C (S pc) r.
Proof. intros H. change (i :: r) with ([i] ++ r) in H. apply code_at_app_r in H. cbn in H. now rewrite Nat.add_1_r in H. Qed.
Lemma code_at_pc C pc pc' code : code_at C pc code -> pc = pc' -> code_at C pc' code.
Proof. intros H <-. exact H. Qed.

Lemma pop_n_rev vs : forall stk acc, pop_n (length vs) (rev vs ++ stk) acc = Some (vs ++ acc, stk).
Proof.
  induction vs as [|v vs IH] using rev_ind; intros stk acc.
  - reflexivity.
  - rewrite rev_app_distr, app_length. cbn [rev length app]. rewrite Nat.add_1_r. cbn [pop_n].
    rewrite IH. now rewrite <- app_assoc.
Qed.

Section Sim.
Variable c : cfg.
Variable C : list instr.

Notation star := (star c C).

Lemma star_trans a b d : star a b -> star b d -> star a d.
Proof. induction 1; auto. intros. econstructor; eauto. Qed.
Lemma star_one a b : step c C a = Ok b -> star a b.
Proof. intros; econstructor; eauto; constructor. Qed.
Lemma star_eq a b b' : star a b -> b = b' -> star a b'.
Proof. intros H <-. exact H. Qed.

Lemma step_at pc stk s esc escs caps its calls i :
  nth_error C pc = Some i ->
  step c C (mkVm pc stk s esc escs caps its calls) = exec_instr c C i (mkVm pc stk s esc escs caps its calls).
Proof. intros H. unfold step. cbn [v_pc]. now rewrite H. Qed.

Definition sim_expr (fuel : nat) (esc : bool) (e : expr) : Prop :=
  forall s v s', eval c fuel esc s e = Ok (v, s') ->
  forall base stk escs caps its calls, code_at C base (compile_expr e base) ->
  star (mkVm base stk s esc escs caps its calls)
       (mkVm (base + length (compile_expr e base)) (v :: stk) s' esc escs caps its calls).

Lemma compile_expr_const e base v : as_const e = Some v -> compile_expr e base = [ILoadConst v].
Proof. intros H. destruct e; cbn [compile_expr]; rewrite H; reflexivity. Qed.

Ltac one_step H :=
  eapply star_step; [rewrite (step_at _ _ _ _ _ _ _ _ _ (code_at_head _ _ _ _ H)); cbn [exec_instr v_pc v_stk v_st v_esc v_escs v_caps v_iters v_calls next goto bind] | ].

(* a list of expressions evaluated left to right ends up on the stack, last on top *)
Lemma seq_sim fuel esc items :
  (forall e, l2_expr e = true -> sim_expr fuel esc e) ->
  forallb l2_expr items = true ->
  forall s vs s', map_eval (eval c fuel esc) s items = Ok (vs, s') ->
  forall base stk escs caps its calls, code_at C base (seq_code compile_expr items base) ->
  star (mkVm base stk s esc escs caps its calls)
       (mkVm (base + length (seq_code compile_expr items base)) (rev vs ++ stk) s' esc escs caps its calls).
Proof.
  intros IH. induction items as [|x r IHr]; intros Hw s vs s' He base stk escs caps its calls Hc.
  - cbn in He. inversion He; subst. cbn. rewrite Nat.add_0_r. constructor.
  - cbn [forallb] in Hw. apply andb_prop in Hw as [Hx Hr].
    cbn [map_eval] in He. fold (map_eval (eval c fuel esc)) in He.
    destruct (eval c fuel esc s x) as [[v s1]| | |] eqn:Ex; try discriminate. cbn [bind] in He.
    destruct (map_eval (eval c fuel esc) s1 r) as [[vr s2]| | |] eqn:Er; try discriminate. cbn [bind] in He.
    inversion He; subst. cbn [seq_code] in Hc |- *. fold (@seq_code expr compile_expr) in Hc |- *.
    eapply star_trans. { eapply (IH x Hx _ _ _ Ex). eapply code_at_app_l; eauto. }
    apply code_at_app_r in Hc.
    eapply star_eq. { eapply (IHr Hr _ _ _ Er). exact Hc. }
    f_equal. { rewrite app_length. lia. } { cbn [rev]. now rewrite <- app_assoc. }
Qed.


Lemma u_is_true_bool md b : u_is_true md (VBool b) = Ok b.
Proof. destruct md; reflexivity. Qed.

Lemma do_cmp_notin md a b : do_cmp md CNotIn a b = bind (do_cmp md CIn a b) (fun r => Ok (negb r)).
Proof.
  unfold do_cmp. destruct (u_not_undef md b); cbn [bind]; try reflexivity.
  destruct (u_not_undef md a); cbn [bind]; try reflexivity.
  destruct (contains b a); reflexivity.
Qed.

Lemma emit_compare_sim op a b r pc stk s esc escs caps its calls :
  do_cmp (c_mode c) op a b = Ok r -> code_at C pc (emit_compare op) ->
  star (mkVm pc (b :: a :: stk) s esc escs caps its calls)
       (mkVm (pc + length (emit_compare op)) (VBool r :: stk) s esc escs caps its calls).
Proof.
  intros Hd Hc.
  destruct op; cbn [emit_compare length] in *;
    try (rewrite Nat.add_1_r; apply star_one; rewrite (step_at _ _ _ _ _ _ _ _ _ (code_at_head _ _ _ _ Hc));
         cbn [exec_instr v_stk]; rewrite Hd; reflexivity).
  rewrite do_cmp_notin in Hd. destruct (do_cmp (c_mode c) CIn a b) as [r0| | |] eqn:E; try discriminate.
  cbn [bind] in Hd. inversion Hd; subst.
  eapply star_step. { rewrite (step_at _ _ _ _ _ _ _ _ _ (code_at_head _ _ _ _ Hc)). cbn [exec_instr v_stk]. rewrite E. reflexivity. }
  apply code_at_tail in Hc. cbn [v_pc].
  eapply star_step. { rewrite (step_at _ _ _ _ _ _ _ _ _ (code_at_head _ _ _ _ Hc)). cbn [exec_instr v_stk]. rewrite u_is_true_bool. reflexivity. }
  cbn [bind next v_pc v_esc v_escs v_caps v_iters v_calls]. eapply star_eq; [constructor|]. f_equal. lia.
Qed.

Lemma chain_code_length ce rest : forall pc cl cl', length (chain_code ce rest pc cl) = length (chain_code ce rest pc cl').
Proof.
  induction rest as [|[op r] l' IH]; intros pc cl cl'; [reflexivity|].
  cbn [chain_code]. destruct l' as [|p2 l'']; [reflexivity|].
  fold (chain_code ce). rewrite !app_length. cbn [length]. rewrite (IH _ cl cl'). reflexivity.
Qed.

Lemma chain_sim fuel esc rest :
  (forall e, l2_expr e = true -> sim_expr fuel esc e) ->
  forallb (fun p => l2_expr (snd p)) rest = true -> rest <> [] ->
  forall left s v s', cmp_chain (c_mode c) (eval c fuel esc) left s rest = Ok (v, s') ->
  forall pc cleanup stk escs caps its calls,
    code_at C pc (chain_code compile_expr rest pc cleanup ++ [IJump (cleanup + 2); ISwap; IDiscardTop]) ->
    cleanup = pc + length (chain_code compile_expr rest pc cleanup) + 1 ->
    star (mkVm pc (left :: stk) s esc escs caps its calls)
         (mkVm (cleanup + 2) (v :: stk) s' esc escs caps its calls).
Proof.
  intros IH. induction rest as [|[op r] l' IHr]; intros Hw Hne left s v s' He pc cleanup stk escs caps its calls Hc Hcl; [congruence|].
  cbn [forallb snd] in Hw. apply andb_prop in Hw as [Hr Hl'].
  cbn [cmp_chain] in He. fold (cmp_chain (c_mode c) (eval c fuel esc)) in He.
  destruct (eval c fuel esc s r) as [[y s2]| | |] eqn:Ey; try discriminate. cbn [bind] in He.
  destruct (do_cmp (c_mode c) op left y) as [b| | |] eqn:Ed; try discriminate. cbn [bind] in He.
  cbn [chain_code] in Hc, Hcl. fold (chain_code compile_expr) in Hc, Hcl.
  destruct l' as [|p2 l''].
  - inversion He; subst v s'. clear He.
    rewrite <- app_assoc in Hc.
    eapply star_trans. { eapply (IH r Hr _ _ _ Ey). eapply code_at_app_l; eauto. }
    apply code_at_app_r in Hc.
    eapply star_trans. { eapply emit_compare_sim; eauto. eapply code_at_app_l; eauto. }
    apply code_at_app_r in Hc.
    apply star_one. rewrite (step_at _ _ _ _ _ _ _ _ _ (code_at_head _ _ _ _ Hc)). reflexivity.
  - rewrite <- !app_assoc in Hc.
    eapply star_trans. { eapply (IH r Hr _ _ _ Ey). eapply code_at_app_l; eauto. }
    pose proof (code_at_app_r _ _ _ _ Hc) as Hc2. cbn [app] in Hc2.
    eapply star_step. { rewrite (step_at _ _ _ _ _ _ _ _ _ (code_at_head _ _ _ _ Hc2)). cbn [exec_instr v_stk]. rewrite Ed. reflexivity. }
    cbn [bind next v_pc v_stk v_st v_esc v_escs v_caps v_iters v_calls].
    apply code_at_tail in Hc2.
    pose proof (code_at_head _ _ _ _ Hc2) as Hj. apply code_at_tail in Hc2.
    rewrite !app_length in Hcl. cbn [length] in Hcl.
    destruct b.
    + eapply star_step. { rewrite (step_at _ _ _ _ _ _ _ _ _ Hj). cbn [exec_instr v_stk]. rewrite u_is_true_bool. reflexivity. }
      cbn [bind next v_pc v_stk v_st v_esc v_escs v_caps v_iters v_calls].
      replace (S (S (pc + length (compile_expr r pc)))) with (pc + length (compile_expr r pc) + 2) in * by lia.
      eapply (IHr Hl' ltac:(discriminate) _ _ _ _ He).
      * exact Hc2.
      * lia.
    + inversion He; subst v s'.
      eapply star_step. { rewrite (step_at _ _ _ _ _ _ _ _ _ Hj). cbn [exec_instr v_stk]. rewrite u_is_true_bool. reflexivity. }
      cbn [bind goto v_pc v_stk v_st v_esc v_escs v_caps v_iters v_calls].
      (* the cleanup block *)
      assert (Hk : code_at C cleanup [ISwap; IDiscardTop]).
      { pose proof (code_at_app_r _ _ _ _ Hc2) as H3. apply code_at_tail in H3. eapply code_at_pc; [exact H3|]. lia. }
      eapply star_step. { rewrite (step_at _ _ _ _ _ _ _ _ _ (code_at_head _ _ _ _ Hk)). reflexivity. }
      cbn [next v_pc v_stk v_esc v_escs v_caps v_iters v_calls v_st]. apply code_at_tail in Hk.
      eapply star_step. { rewrite (step_at _ _ _ _ _ _ _ _ _ (code_at_head _ _ _ _ Hk)). reflexivity. }
      cbn [next v_pc v_stk v_esc v_escs v_caps v_iters v_calls v_st].
      eapply star_eq; [constructor|]. f_equal. lia.
Qed.


Lemma map_eval_length {X} (ev : st -> X -> outcome (value * st)) items : forall s vs s',
  map_eval ev s items = Ok (vs, s') -> length vs = length items.
Proof.
  induction items as [|x r IH]; intros s vs s' H; cbn [map_eval] in H.
  - inversion H. reflexivity.
  - fold (map_eval ev) in H. destruct (ev s x) as [[v s1]| | |]; try discriminate. cbn [bind] in H.
    destruct (map_eval ev s1 r) as [[vr s2]| | |] eqn:E; try discriminate. cbn [bind] in H.
    inversion H; subst. cbn [length]. f_equal. eapply IH; eauto.
Qed.

Lemma pop_args x vs stk : pop_n (1 + length vs) (rev vs ++ x :: stk) [] = Some (x :: vs, stk).
Proof.
  pose proof (pop_n_rev (x :: vs) stk []) as H. cbn [length rev] in H. rewrite <- app_assoc in H. cbn [app] in H.
  rewrite app_nil_r in H. exact H.
Qed.

Ltac vmsimp := cbn [bind next goto v_pc v_stk v_st v_esc v_escs v_caps v_iters v_calls].
Ltac step_by H tac :=
  eapply star_step;
  [ rewrite (step_at _ _ _ _ _ _ _ _ _ (code_at_head _ _ _ _ H)); cbn [exec_instr v_stk v_st v_esc]; tac; reflexivity
  | vmsimp ].
Ltac finish := eapply star_eq; [constructor|]; f_equal; rewrite ?app_length; cbn [length]; lia.

Lemma sim_all : forall fuel esc e, l2_expr e = true -> sim_expr fuel esc e.
Proof.
  induction fuel as [|fuel IH]; intros esc e Hw s v s' He; [discriminate|].
  intros base stk escs caps its calls Hc.
  destruct (as_const e) as [v0|] eqn:Hf.
  { rewrite (compile_expr_const e base v0 Hf) in *.
    destruct (fold_inv_all c esc (S fuel) e v0 Hf _ _ _ He) as [-> ->].
    step_by Hc idtac. finish. }
  destruct e; cbn [compile_expr] in Hc |- *; rewrite Hf in Hc |- *; cbn [eval] in He; cbn [l2_expr] in Hw.
  - (* EConst *) unfold as_const in Hf. cbn in Hf. discriminate.
  - (* EVar *)
    destruct (lookup c s x) as [ov s1] eqn:El. inversion He; subst.
    step_by Hc ltac:(rewrite El). finish.
  - (* EList *)
    destruct (map_eval (eval c fuel esc) s items) as [[vs s1]| | |] eqn:Em; try discriminate.
    cbn [bind] in He. inversion He; subst.
    eapply star_trans. { eapply (seq_sim fuel esc items (IH esc) Hw _ _ _ Em). eapply code_at_app_l; eauto. }
    apply code_at_app_r in Hc.
    step_by Hc ltac:(rewrite <- (map_eval_length _ _ _ _ _ Em), (pop_n_rev vs stk []), app_nil_r). finish.
  - (* ENeg *)
    destruct (eval c fuel esc s e) as [[x s1]| | |] eqn:Ea; try discriminate. cbn [bind] in He.
    eapply star_trans. { eapply (IH esc e Hw _ _ _ Ea). eapply code_at_app_l; eauto. }
    apply code_at_app_r in Hc.
    destruct x; try discriminate. inversion He; subst.
    step_by Hc idtac. finish.
  - (* ENot *)
    destruct (eval c fuel esc s e) as [[x s1]| | |] eqn:Ea; try discriminate. cbn [bind] in He.
    eapply star_trans. { eapply (IH esc e Hw _ _ _ Ea). eapply code_at_app_l; eauto. }
    apply code_at_app_r in Hc.
    destruct (u_is_true (c_mode c) x) as [b| | |] eqn:Eb; try discriminate. cbn [bind] in He. inversion He; subst.
    step_by Hc ltac:(rewrite Eb). finish.
  - (* EBin *)
    apply andb_prop in Hw as [Hw1 Hw2].
    destruct (eval c fuel esc s e1) as [[x s1]| | |] eqn:Ea; try discriminate. cbn [bind] in He.
    destruct (eval c fuel esc s1 e2) as [[y s2]| | |] eqn:Eb; try discriminate. cbn [bind] in He.
    eapply star_trans. { eapply (IH esc e1 Hw1 _ _ _ Ea). eapply code_at_app_l; eauto. }
    apply code_at_app_r in Hc.
    eapply star_trans. { eapply (IH esc e2 Hw2 _ _ _ Eb). eapply code_at_app_l; eauto. }
    apply code_at_app_r in Hc.
    match type of He with bind ?g _ = _ => destruct g as [[]| | |] eqn:G; try discriminate end. cbn [bind] in He.
    destruct (do_bin op x y) as [r| | |] eqn:Ed; try discriminate. cbn [bind] in He. inversion He; subst.
    step_by Hc ltac:(rewrite G; cbn [bind]; rewrite Ed). finish.
  - (* ECmp *)
    apply andb_prop in Hw as [Hw Hw3]. apply andb_prop in Hw as [Hw1 Hw2].
    destruct (eval c fuel esc s e) as [[x s1]| | |] eqn:Ea; try discriminate. cbn [bind] in He.
    destruct rest as [|[op b] rest']; [discriminate|].
    destruct rest' as [|p2 rest''].
    + cbn [forallb snd] in Hw3. apply andb_prop in Hw3 as [Hb _].
      cbn [cmp_chain] in He.
      destruct (eval c fuel esc s1 b) as [[y s2]| | |] eqn:Eb; try discriminate. cbn [bind] in He.
      destruct (do_cmp (c_mode c) op x y) as [r| | |] eqn:Ed; try discriminate. cbn [bind] in He. inversion He; subst.
      eapply star_trans. { eapply (IH esc e Hw1 _ _ _ Ea). eapply code_at_app_l; eauto. }
      apply code_at_app_r in Hc.
      eapply star_trans. { eapply (IH esc b Hb _ _ _ Eb). eapply code_at_app_l; eauto. }
      apply code_at_app_r in Hc.
      eapply star_eq. { eapply emit_compare_sim; eauto. }
      f_equal. rewrite !app_length. lia.
    + eapply star_trans. { eapply (IH esc e Hw1 _ _ _ Ea). eapply code_at_app_l; eauto. }
      apply code_at_app_r in Hc.
      set (start := base + length (compile_expr e base)) in *.
      set (rest := (op, b) :: p2 :: rest'') in *.
      set (cleanup := start + length (chain_code compile_expr rest start 0) + 1) in *.
      eapply star_eq.
      { eapply (chain_sim fuel esc rest (IH esc) Hw3 ltac:(discriminate) _ _ _ _ He start cleanup).
        - exact Hc.
        - rewrite (chain_code_length compile_expr rest start cleanup 0). reflexivity. }
      f_equal. rewrite !app_length. cbn [length].
      rewrite (chain_code_length compile_expr rest start cleanup 0). unfold cleanup. lia.
  - (* EAnd *)
    apply andb_prop in Hw as [Hw1 Hw2].
    destruct (eval c fuel esc s e1) as [[x s1]| | |] eqn:Ea; try discriminate. cbn [bind] in He.
    destruct (u_is_true (c_mode c) x) as [t| | |] eqn:Et; try discriminate. cbn [bind] in He.
    eapply star_trans. { eapply (IH esc e1 Hw1 _ _ _ Ea). eapply code_at_app_l; eauto. }
    apply code_at_app_r in Hc. pose proof (code_at_head _ _ _ _ Hc) as Hj. apply code_at_tail in Hc.
    destruct t.
    + eapply star_step. { rewrite (step_at _ _ _ _ _ _ _ _ _ Hj). cbn [exec_instr v_stk v_st]. rewrite Et. reflexivity. }
      vmsimp.
      replace (S (base + length (compile_expr e1 base))) with (base + length (compile_expr e1 base) + 1) in * by lia.
      eapply star_eq. { eapply (IH esc e2 Hw2 _ _ _ He). exact Hc. }
      f_equal. rewrite !app_length. cbn [length]. lia.
    + inversion He; subst.
      eapply star_step. { rewrite (step_at _ _ _ _ _ _ _ _ _ Hj). cbn [exec_instr v_stk v_st]. rewrite Et. reflexivity. }
      vmsimp. finish.
  - (* EOr *)
    apply andb_prop in Hw as [Hw1 Hw2].
    destruct (eval c fuel esc s e1) as [[x s1]| | |] eqn:Ea; try discriminate. cbn [bind] in He.
    destruct (u_is_true (c_mode c) x) as [t| | |] eqn:Et; try discriminate. cbn [bind] in He.
    eapply star_trans. { eapply (IH esc e1 Hw1 _ _ _ Ea). eapply code_at_app_l; eauto. }
    apply code_at_app_r in Hc. pose proof (code_at_head _ _ _ _ Hc) as Hj. apply code_at_tail in Hc.
    destruct t.
    + inversion He; subst.
      eapply star_step. { rewrite (step_at _ _ _ _ _ _ _ _ _ Hj). cbn [exec_instr v_stk v_st]. rewrite Et. reflexivity. }
      vmsimp. finish.
    + eapply star_step. { rewrite (step_at _ _ _ _ _ _ _ _ _ Hj). cbn [exec_instr v_stk v_st]. rewrite Et. reflexivity. }
      vmsimp.
      replace (S (base + length (compile_expr e1 base))) with (base + length (compile_expr e1 base) + 1) in * by lia.
      eapply star_eq. { eapply (IH esc e2 Hw2 _ _ _ He). exact Hc. }
      f_equal. rewrite !app_length. cbn [length]. lia.
  - (* EIf *)
    apply andb_prop in Hw as [Hw Hw3]. apply andb_prop in Hw as [Hw1 Hw2].
    destruct (eval c fuel esc s e1) as [[x s1]| | |] eqn:Ea; try discriminate. cbn [bind] in He.
    destruct (u_is_true (c_mode c) x) as [t| | |] eqn:Et; try discriminate. cbn [bind] in He.
    eapply star_trans. { eapply (IH esc e1 Hw1 _ _ _ Ea). eapply code_at_app_l; eauto. }
    apply code_at_app_r in Hc. pose proof (code_at_head _ _ _ _ Hc) as Hj. apply code_at_tail in Hc.
    replace (S (base + length (compile_expr e1 base))) with (base + length (compile_expr e1 base) + 1) in * by lia.
    destruct t.
    + eapply star_step. { rewrite (step_at _ _ _ _ _ _ _ _ _ Hj). cbn [exec_instr v_stk v_st]. rewrite Et. reflexivity. }
      vmsimp.
      replace (S (base + length (compile_expr e1 base))) with (base + length (compile_expr e1 base) + 1) in * by lia.
      eapply star_trans. { eapply (IH esc e2 Hw2 _ _ _ He). eapply code_at_app_l; eauto. }
      apply code_at_app_r in Hc.
      step_by Hc idtac. finish.
    + eapply star_step. { rewrite (step_at _ _ _ _ _ _ _ _ _ Hj). cbn [exec_instr v_stk v_st]. rewrite Et. reflexivity. }
      vmsimp.
      apply code_at_app_r in Hc. apply code_at_tail in Hc.
      eapply code_at_pc in Hc; [|instantiate (1 := base + length (compile_expr e1 base) + 1 + length (compile_expr e2 (base + length (compile_expr e1 base) + 1)) + 1); lia].
      destruct f as [f|].
      * eapply star_eq. { eapply (IH esc f Hw3 _ _ _ He). exact Hc. }
        f_equal. rewrite !app_length. cbn [length]. lia.
      * inversion He; subst. step_by Hc idtac. finish.
  - (* EItem *)
    apply andb_prop in Hw as [Hw1 Hw2].
    destruct (eval c fuel esc s e1) as [[x s1]| | |] eqn:Ea; try discriminate. cbn [bind] in He.
    destruct (eval c fuel esc s1 e2) as [[k s2]| | |] eqn:Eb; try discriminate. cbn [bind] in He.
    eapply star_trans. { eapply (IH esc e1 Hw1 _ _ _ Ea). eapply code_at_app_l; eauto. }
    apply code_at_app_r in Hc.
    eapply star_trans. { eapply (IH esc e2 Hw2 _ _ _ Eb). eapply code_at_app_l; eauto. }
    apply code_at_app_r in Hc.
    assert (Hg : get_item (c_mode c) x k = Ok v /\ s' = s2).
    { unfold get_item. destruct (match x, k with VList l, VInt z => idx_list l z | _, _ => None end) as [w|].
      - inversion He; auto.
      - destruct (u_handle_undefined (c_mode c) (is_undef x)) as [w| | |]; try discriminate. inversion He; auto. }
    destruct Hg as [Hg ->].
    step_by Hc ltac:(rewrite Hg). finish.
  - (* EAttr *)
    destruct (eval c fuel esc s e) as [[x s1]| | |] eqn:Ea; try discriminate. cbn [bind] in He.
    eapply star_trans. { eapply (IH esc e Hw _ _ _ Ea). eapply code_at_app_l; eauto. }
    apply code_at_app_r in Hc.
    assert (Hg : get_attr (c_mode c) x a = Ok v /\ s' = s1).
    { unfold get_attr. destruct (match x with VLoop i n => loop_attr i n a | _ => None end) as [w|].
      - inversion He; auto.
      - destruct (u_handle_undefined (c_mode c) (is_undef x)) as [w| | |]; try discriminate. inversion He; auto. }
    destruct Hg as [Hg ->].
    step_by Hc ltac:(rewrite Hg). finish.
  - (* EFilter *)
    apply andb_prop in Hw as [Hw1 Hw2].
    destruct (eval c fuel esc s e) as [[x s1]| | |] eqn:Ea; try discriminate. cbn [bind] in He.
    destruct (map_eval (eval c fuel esc) s1 args) as [[vs s2]| | |] eqn:Em; try discriminate. cbn [bind] in He.
    destruct (do_filter (c_mode c) esc f x vs) as [r| | |] eqn:Ed; try discriminate. cbn [bind] in He. inversion He; subst.
    eapply star_trans. { eapply (IH esc e Hw1 _ _ _ Ea). eapply code_at_app_l; eauto. }
    apply code_at_app_r in Hc.
    eapply star_trans. { eapply (seq_sim fuel esc args (IH esc) Hw2 _ _ _ Em). eapply code_at_app_l; eauto. }
    apply code_at_app_r in Hc.
    step_by Hc ltac:(rewrite <- (map_eval_length _ _ _ _ _ Em), pop_args, Ed). finish.
  - (* ETest *)
    apply andb_prop in Hw as [Hw1 Hw2].
    destruct (eval c fuel esc s e) as [[x s1]| | |] eqn:Ea; try discriminate. cbn [bind] in He.
    destruct (map_eval (eval c fuel esc) s1 args) as [[vs s2]| | |] eqn:Em; try discriminate. cbn [bind] in He.
    destruct (do_test t x) as [r| | |] eqn:Ed; try discriminate. cbn [bind] in He. inversion He; subst.
    eapply star_trans. { eapply (IH esc e Hw1 _ _ _ Ea). eapply code_at_app_l; eauto. }
    apply code_at_app_r in Hc.
    eapply star_trans. { eapply (seq_sim fuel esc args (IH esc) Hw2 _ _ _ Em). eapply code_at_app_l; eauto. }
    apply code_at_app_r in Hc.
    step_by Hc ltac:(rewrite <- (map_eval_length _ _ _ _ _ Em), pop_args, Ed).
    apply code_at_tail in Hc.
    destruct negated.
    + step_by Hc ltac:(rewrite u_is_true_bool). finish.
    + finish.
  - discriminate.
Qed.


(* ---- Part 3: statements ---- *)
End Sim.

(* induction principle for statements with their nested bodies *)
Section StmtInd.
Variable P : stmt -> Prop.
Hypothesis Hraw : forall t, P (SRaw t).
Hypothesis Hemit : forall e, P (SEmit e).
Hypothesis Hif : forall arms els, Forall (fun p => Forall P (snd p)) arms ->
  match els with Some b => Forall P b | None => True end -> P (SIf arms els).
Hypothesis Hfor : forall t i f body els r, Forall P body ->
  match els with Some b => Forall P b | None => True end -> P (SFor t i f body els r).
Hypothesis Hset : forall x e, P (SSet x e).
Hypothesis Hsetblock : forall x body f, Forall P body -> P (SSetBlock x body f).
Hypothesis Hwith : forall binds body, Forall P body -> P (SWith binds body).
Hypothesis Hmacro : forall m ps ds body, Forall P body -> P (SMacro m ps ds body).
Hypothesis Hcall : forall m args body, Forall P body -> P (SCallBlock m args body).
Hypothesis Hfb : forall f body, Forall P body -> P (SFilterBlock f body).
Hypothesis Hae : forall v body, Forall P body -> P (SAutoEscape v body).
Hypothesis Hbreak : P SBreak.
Hypothesis Hcont : P SContinue.

Fixpoint stmt_ind' (t : stmt) : P t :=
  let go := fix go (l : list stmt) : Forall P l :=
    match l with [] => Forall_nil P | x :: r => Forall_cons x (stmt_ind' x) (go r) end in
  let goo (o : option (list stmt)) : match o with Some b => Forall P b | None => True end :=
    match o with Some b => go b | None => I end in
  match t with
  | SRaw x => Hraw x
  | SEmit e => Hemit e
  | SIf arms els =>
      Hif arms els
        ((fix ga (a : list (expr * list stmt)) : Forall (fun p => Forall P (snd p)) a :=
            match a with
            | [] => Forall_nil _
            | p :: r => Forall_cons p (match p as p0 return Forall P (snd p0) with (_, b) => go b end) (ga r)
            end) arms)
        (goo els)
  | SFor tg i f body els r => Hfor tg i f body els r (go body) (goo els)
  | SSet x e => Hset x e
  | SSetBlock x body f => Hsetblock x body f (go body)
  | SWith binds body => Hwith binds body (go body)
  | SMacro m ps ds body => Hmacro m ps ds body (go body)
  | SCallBlock m args body => Hcall m args body (go body)
  | SFilterBlock f body => Hfb f body (go body)
  | SAutoEscape v body => Hae v body (go body)
  | SBreak => Hbreak
  | SContinue => Hcont
  end.
End StmtInd.

(* the length of a statement's code does not depend on where `break` jumps to *)
Definition len_indep (t : stmt) : Prop :=
  forall base i e e' p, length (compile_stmt t base (Some (mkL i e p))) = length (compile_stmt t base (Some (mkL i e' p))).

Lemma seq_len_indep l : Forall len_indep l ->
  forall base i e e' p, length (compile_stmts l base (Some (mkL i e p))) = length (compile_stmts l base (Some (mkL i e' p))).
Proof.
  induction 1 as [|x r Hx Hr IH]; intros base i e e' p; [reflexivity|].
  unfold compile_stmts. cbn [seq_code].
  fold (compile_stmts r (base + length (compile_stmt x base (Some (mkL i e p)))) (Some (mkL i e p))).
  fold (compile_stmts r (base + length (compile_stmt x base (Some (mkL i e' p)))) (Some (mkL i e' p))).
  rewrite !app_length. rewrite (Hx base i e e' p). f_equal. apply IH.
Qed.

Lemma if_len_indep els arms : Forall (fun p => Forall len_indep (snd p)) arms ->
  match els with Some b => Forall len_indep b | None => True end ->
  forall base i e e' p,
    length (if_code (fun b pc => compile_stmts b pc (Some (mkL i e p))) els arms base) =
    length (if_code (fun b pc => compile_stmts b pc (Some (mkL i e' p))) els arms base).
Proof.
  intros Ha Hels. induction Ha as [|[cnd body] r Hb Hr IH]; intros base i e e' p.
  - cbn [if_code]. destruct els as [b|]; [apply seq_len_indep; exact Hels|reflexivity].
  - cbn [if_code snd] in *.
    fold (if_code (fun b pc => compile_stmts b pc (Some (mkL i e p))) els).
    fold (if_code (fun b pc => compile_stmts b pc (Some (mkL i e' p))) els).
    pose proof (seq_len_indep body Hb (base + length (compile_expr cnd base) + 1) i e e' p) as Hct.
    destruct r as [|a2 r']; [destruct (nonempty_body els)|]; rewrite ?app_length; cbn [length]; rewrite ?app_length; cbn [length];
      rewrite Hct; try reflexivity; rewrite (IH _ i e e' p); reflexivity.
Qed.

Lemma compile_len_indep : forall t, len_indep t.
Proof.
  apply stmt_ind'; unfold len_indep; intros; cbn [compile_stmt]; try reflexivity.
  - (* SIf *) apply if_len_indep; assumption.
  - (* SFor *)
    destruct els as [[|x b]|]; try reflexivity.
    rewrite ?app_length. cbn [length]. rewrite ?app_length. cbn [length].
    match goal with |- context [seq_code _ (x :: b) ?pos] => pose proof (seq_len_indep (x :: b) H0 pos i0 e e' p) as HL end.
    unfold compile_stmts in HL. lia.
  - (* SSetBlock *) cbn [enter_scope lc_iter lc_end lc_pending]. rewrite ?app_length. cbn [length]. rewrite ?app_length.
    pose proof (seq_len_indep body H (base + 1) i e e' (ClCapture :: p)) as HL. unfold compile_stmts in HL. lia.
  - (* SWith *) cbn [enter_scope lc_iter lc_end lc_pending]. rewrite ?app_length. cbn [length]. rewrite ?app_length.
    match goal with |- context [seq_code _ body ?pos] => pose proof (seq_len_indep body H pos i e e' (ClFrame :: p)) as HL end.
    unfold compile_stmts in HL. lia.
  - (* SFilterBlock *) cbn [enter_scope lc_iter lc_end lc_pending]. rewrite ?app_length. cbn [length]. rewrite ?app_length.
    pose proof (seq_len_indep body H (base + 1) i e e' (ClCapture :: p)) as HL. unfold compile_stmts in HL. lia.
  - (* SAutoEscape *) cbn [enter_scope lc_iter lc_end lc_pending]. rewrite ?app_length. cbn [length]. rewrite ?app_length.
    match goal with |- context [seq_code _ body ?pos] => pose proof (seq_len_indep body H pos i e e' (ClAutoEscape :: p)) as HL end.
    unfold compile_stmts in HL. lia.
  - (* SBreak *) cbn [lc_pending lc_end]. rewrite !app_length. reflexivity.
Qed.

(* the loop bookkeeping of the innermost frame *)
Definition hdl (s : st) : option (option (Z * Z * bool)) :=
  match s_env s with f :: _ => Some (f_loop f) | [] => None end.

Lemma hdl_env a b : s_env a = s_env b -> hdl a = hdl b.
Proof. unfold hdl. intros ->. reflexivity. Qed.

Lemma store_hdl s x v : hdl (store s x v) = hdl s.
Proof. unfold hdl, store. destruct (s_env s) as [|f r] eqn:E; cbn [s_env f_loop]; rewrite ?E; reflexivity. Qed.

Section Hdl.
Variable c : cfg.

Lemma if_arms_hdl fuel esc els inl :
  (forall l, forallb (l2_stmt inl) l = true -> forall s sg s', exec_list c fuel esc s l = Ok (sg, s') -> hdl s' = hdl s) ->
  match els with Some b => forallb (l2_stmt inl) b | None => true end = true ->
  forall arms, forallb (fun p => l2_expr (fst p) && forallb (l2_stmt inl) (snd p)) arms = true ->
  forall s sg s', if_arms (c_mode c) (eval c fuel esc) (exec_list c fuel esc) els s arms = Ok (sg, s') -> hdl s' = hdl s.
Proof.
  intros IHl Hels. induction arms as [|[cnd body] r IH]; intros Hw s sg s' He; cbn [if_arms] in He.
  - destruct els as [b|]; [eapply IHl; eauto|inversion He; reflexivity].
  - cbn [forallb fst snd] in Hw. apply andb_prop in Hw as [Hw Hr]. apply andb_prop in Hw as [_ Hb].
    bstep He p1 E1. destruct p1 as [v s1]. bstep He t Et.
    rewrite <- (hdl_env s1 s (eval_env_proof _ _ _ _ _ _ _ E1)).
    destruct t; [eapply IHl; eauto|eapply IH; eauto].
Qed.

Lemma frag_hdl : forall fuel,
  (forall inl t, l2_stmt inl t = true -> forall esc s sg s', exec c fuel esc s t = Ok (sg, s') -> hdl s' = hdl s) /\
  (forall inl l, forallb (l2_stmt inl) l = true -> forall esc s sg s', exec_list c fuel esc s l = Ok (sg, s') -> hdl s' = hdl s).
Proof.
  induction fuel as [|fuel [IHs IHl]].
  { split; intros; discriminate. }
  split.
  - intros inl t Hw esc s sg s' He.
    destruct t; cbn [l2_stmt] in Hw; try discriminate.
    + cbn [exec] in He. inversion He; reflexivity.
    + cbn [exec] in He. bstep He p1 E1. destruct p1 as [v s1].
      destruct (u_strictish (c_mode c) && is_strict_undef v); try discriminate. inversion He; subst.
      apply hdl_env. cbn [emit s_env]. eapply eval_env_proof; eauto.
    + cbn [exec] in He. apply andb_prop in Hw as [Ha Hels].
      eapply (if_arms_hdl fuel esc els inl); eauto.
    + apply andb_prop in Hw as [Hw Hels]. apply andb_prop in Hw as [Hw Hbody]. apply andb_prop in Hw as [Hi Hflt].
      cbn [exec] in He.
      bstep He p1 E1. destruct p1 as [iv s1]. bstep He items0 E2. bstep He p3 E3. destruct p3 as [items s2].
      bstep He s5 E4.
      assert (H6 : s_env (pop_frame s5) = s_env s).
      { apply (for_scoped_proof c (S fuel) esc s t iter filter body recursive SigNormal).
        cbn [exec]. rewrite E1. cbn [bind]. rewrite E2. cbn [bind]. rewrite E3. cbn [bind]. rewrite E4. cbn [bind]. destruct items; reflexivity. }
      destruct items as [|it0 items]; [destruct els as [eb|]|].
      * rewrite <- (hdl_env _ _ H6). eapply IHl; eauto.
      * inversion He; subst. apply hdl_env, H6.
      * inversion He; subst. apply hdl_env, H6.
    + cbn [exec] in He. bstep He p1 E1. destruct p1 as [v s1]. inversion He; subst.
      rewrite store_hdl. apply hdl_env. eapply eval_env_proof; eauto.
    + cbn [exec] in He.
      bstep He p1 E1. destruct p1 as [[sg1 txt] s1]. bstep E1 p2 E2. destruct p2 as [sg2 s2]. inversion E1; subst. clear E1.
      assert (H2 : hdl (with_out s2 (s_out s)) = hdl s).
      { transitivity (hdl s2); [apply hdl_env; reflexivity|].
        transitivity (hdl (with_out s [])); [eapply IHl; eauto|apply hdl_env; reflexivity]. }
      destruct sg1.
      * bstep He fv Ef. inversion He; subst. rewrite store_hdl. exact H2.
      * inversion He; subst. exact H2.
      * inversion He; subst. exact H2.
    + apply hdl_env. eapply with_scoped_proof; eauto.
    + cbn [exec] in He.
      bstep He p1 E1. destruct p1 as [[sg1 txt] s1]. bstep E1 p2 E2. destruct p2 as [sg2 s2]. inversion E1; subst. clear E1.
      assert (H2 : hdl (with_out s2 (s_out s)) = hdl s).
      { transitivity (hdl s2); [apply hdl_env; reflexivity|].
        transitivity (hdl (with_out s [])); [eapply IHl; eauto|apply hdl_env; reflexivity]. }
      destruct sg1.
      * bstep He fv Ef. inversion He; subst. exact H2.
      * inversion He; subst. exact H2.
      * inversion He; subst. exact H2.
    + cbn [exec] in He. apply andb_prop in Hw as [_ Hb].
      bstep He p1 E1. destruct p1 as [x s1]. bstep He esc' Ee.
      rewrite <- (hdl_env s1 s (eval_env_proof _ _ _ _ _ _ _ E1)). eapply IHl; eauto.
    + cbn [exec] in He. inversion He; reflexivity.
    + cbn [exec] in He. inversion He; reflexivity.
  - intros inl l Hw esc s sg s' He.
    destruct l as [|t r]; cbn [exec_list] in He.
    + inversion He; reflexivity.
    + cbn [forallb] in Hw. apply andb_prop in Hw as [Ht Hr].
      bstep He p1 E1. destruct p1 as [sg1 s1].
      transitivity (hdl s1); [|eapply IHs; eauto].
      destruct sg1; [eapply IHl; eauto|inversion He; reflexivity|inversion He; reflexivity].
Qed.

End Hdl.

Section SimStmtBase.
Variable c : cfg.
Variable C : list instr.
Notation star := (L2.Simulation.star c C).

Ltac vmsimp := cbn [bind next goto v_pc v_stk v_st v_esc v_escs v_caps v_iters v_calls].
Ltac step_by H tac :=
  eapply star_step;
  [ rewrite (step_at c C _ _ _ _ _ _ _ _ _ (code_at_head _ _ _ _ H)); cbn [exec_instr v_stk v_st v_esc v_escs v_caps]; tac; reflexivity
  | vmsimp ].

Lemma exec_list_nil fuel esc s r : exec_list c fuel esc s [] = Ok r -> r = (SigNormal, s).
Proof. destruct fuel; cbn; intros H; inversion H; reflexivity. Qed.

Lemma binds_sim fuel esc binds :
  forallb (fun p => l2_expr (snd p)) binds = true ->
  forall s s', with_binds (eval c fuel esc) s binds = Ok s' ->
  forall base stk escs caps its calls, code_at C base (binds_code binds base) ->
  star (mkVm base stk s esc escs caps its calls)
       (mkVm (base + length (binds_code binds base)) stk s' esc escs caps its calls).
Proof.
  induction binds as [|[x e] r IH]; intros Hw s s' He base stk escs caps its calls Hc.
  - cbn in He. inversion He; subst. cbn. rewrite Nat.add_0_r. constructor.
  - cbn [forallb snd] in Hw. apply andb_prop in Hw as [Hx Hr].
    cbn [with_binds] in He. fold (with_binds (eval c fuel esc)) in He.
    bstep He p1 E1. destruct p1 as [v s1].
    cbn [binds_code] in Hc |- *. fold binds_code in Hc |- *.
    eapply star_trans. { eapply (sim_all c C fuel esc e Hx _ _ _ E1). eapply code_at_app_l; eauto. }
    apply code_at_app_r in Hc.
    step_by Hc idtac. apply code_at_tail in Hc.
    replace (S (base + length (compile_expr e base))) with (base + length (compile_expr e base) + 1) in * by lia.
    eapply star_eq. { eapply (IH Hr _ _ He). exact Hc. }
    f_equal. rewrite app_length. cbn [length]. lia.
Qed.

Lemma do_filter_str_defined md esc f b t v : do_filter md esc f (VStr b t) [] = Ok v -> is_strict_undef v = false.
Proof.
  unfold do_filter, str_input.
  repeat match goal with |- context [if ?x then _ else _] => destruct x end; destruct md; cbn;
    repeat match goal with |- context [match ?x with _ => _ end] => destruct x end;
    intros H; inversion H; try reflexivity.
Qed.

End SimStmtBase.

Section SimStmt.
Variable c : cfg.
Variable C : list instr.
Notation star := (L2.Simulation.star c C).

Ltac vmsimp := cbn [bind next goto v_pc v_stk v_st v_esc v_escs v_caps v_iters v_calls].
Ltac step_by H tac :=
  eapply star_step;
  [ rewrite (step_at c C _ _ _ _ _ _ _ _ _ (code_at_head _ _ _ _ H)); cbn [exec_instr v_stk v_st v_esc v_escs v_caps v_iters]; tac; reflexivity
  | vmsimp ].
Ltac lens := cbn [length app]; rewrite ?app_length; cbn [length app]; rewrite ?app_length; cbn [length app]; rewrite ?app_length; cbn [length]; lia.

Lemma post_endpc sg lc e1 e2 stk s' esc escs caps its calls σ' :
  e1 = e2 \/ sg <> SigNormal ->
  post sg lc e1 stk s' esc escs caps its calls σ' -> post sg lc e2 stk s' esc escs caps its calls σ'.
Proof. intros [->|H]; [auto|]. destruct sg; [congruence|auto|auto]. Qed.

(* trailing steps that only move the pc extend a normal completion; a signal has already left *)
Lemma post_then sg lc e1 e2 stk s' esc escs caps its calls σ' :
  post sg lc e1 stk s' esc escs caps its calls σ' ->
  star (mkVm e1 stk s' esc escs caps its calls) (mkVm e2 stk s' esc escs caps its calls) ->
  exists σ'', star σ' σ'' /\ post sg lc e2 stk s' esc escs caps its calls σ''.
Proof.
  intros Hp Hs. destruct sg; cbn [post] in *.
  - subst. eexists; split; [exact Hs|reflexivity].
  - exists σ'. split; [constructor|exact Hp].
  - exists σ'. split; [constructor|exact Hp].
Qed.

Notation postO := (L2.Simulation.postO C).

Lemma postO_endpc sg lc e1 e2 stk s' esc escs caps its calls σ' :
  e1 = e2 \/ sg <> SigNormal ->
  postO sg lc e1 stk s' esc escs caps its calls σ' -> postO sg lc e2 stk s' esc escs caps its calls σ'.
Proof. intros H [P|O]; [left; eapply post_endpc; eauto|right; exact O]. Qed.

Lemma postO_then sg lc e1 e2 stk s' esc escs caps its calls σ' :
  postO sg lc e1 stk s' esc escs caps its calls σ' ->
  star (mkVm e1 stk s' esc escs caps its calls) (mkVm e2 stk s' esc escs caps its calls) ->
  exists σ'', star σ' σ'' /\ postO sg lc e2 stk s' esc escs caps its calls σ''.
Proof.
  intros [P|O] Hs.
  - destruct (post_then _ _ _ _ _ _ _ _ _ _ _ _ P Hs) as [σ2 [S2 P2]]. exists σ2. split; [exact S2|left; exact P2].
  - exists σ'. split; [constructor|right; exact O].
Qed.

Lemma overflow_step σ : overflow C σ -> step c C σ = Err E_InvalidOperation.
Proof.
  intros [Hn (k & r & Hs & Hk)]. unfold step. rewrite Hn. cbn [exec_instr]. rewrite Hs. cbn [bind do_bin].
  assert (Hf : in_i128b (k + 1) = false).
  { unfold in_i128b, in_i128. apply andb_false_intro2. apply Z.leb_gt. lia. }
  rewrite Hf. reflexivity.
Qed.

Lemma cleanup_sim p : forall pc stk s esc escs caps its calls,
  fits p (length (s_env s)) (length escs) (length caps) ->
  code_at C pc (cleanup_code p) ->
  star (mkVm pc stk s esc escs caps its calls)
       (unwound (pc + length (cleanup_code p)) p stk s esc escs caps its calls).
Proof.
  induction p as [|k p IH]; intros pc stk s esc escs caps its calls Hf Hc.
  - cbn. rewrite Nat.add_0_r. constructor.
  - cbn [cleanup_code flat_map] in Hc |- *. fold (cleanup_code p) in Hc |- *.
    destruct k; cbn [fits] in Hf; destruct Hf as [H1 Hf]; cbn [unwound app] in Hc |- *.
    + destruct (s_env s) as [|f0 r0] eqn:Ee; [cbn in H1; lia|].
      step_by Hc ltac:(rewrite Ee). apply code_at_tail in Hc.
      eapply star_eq. { eapply IH; [|exact Hc]. unfold pop_frame. cbn [s_env]. rewrite Ee. cbn [tl length] in *. replace (length r0) with (S (length r0) - 1) by lia. exact Hf. }
      f_equal. cbn [length]. lia.
    + destruct caps as [|o cs]; [cbn in H1; lia|].
      step_by Hc idtac. apply code_at_tail in Hc. step_by Hc idtac. apply code_at_tail in Hc.
      eapply star_eq. { eapply IH; [|exact Hc]. cbn [with_out s_env length] in *. replace (length cs) with (S (length cs) - 1) by lia. exact Hf. }
      f_equal. cbn [length]. lia.
    + destruct escs as [|e es]; [cbn in H1; lia|].
      step_by Hc idtac. apply code_at_tail in Hc.
      eapply star_eq. { eapply IH; [|exact Hc]. cbn [length] in *. replace (length es) with (S (length es) - 1) by lia. exact Hf. }
      f_equal. cbn [length]. lia.
Qed.

Definition sim_list (fuel : nat) (inl : bool) (l : list stmt) : Prop :=
  forall esc s sg s', exec_list c fuel esc s l = Ok (sg, s') ->
  forall base lc stk escs caps its calls, code_at C base (compile_stmts l base lc) ->
  (inl = true -> lc <> None) -> lc_fits lc (length (s_env s)) (length escs) (length caps) ->
  exists σ', star (mkVm base stk s esc escs caps its calls) σ' /\
             postO sg lc (base + length (compile_stmts l base lc)) stk s' esc escs caps its calls σ'.

Definition sim_stmt (fuel : nat) (inl : bool) (t : stmt) : Prop :=
  forall esc s sg s', exec c fuel esc s t = Ok (sg, s') ->
  forall base lc stk escs caps its calls, code_at C base (compile_stmt t base lc) ->
  (inl = true -> lc <> None) -> lc_fits lc (length (s_env s)) (length escs) (length caps) ->
  exists σ', star (mkVm base stk s esc escs caps its calls) σ' /\
             postO sg lc (base + length (compile_stmt t base lc)) stk s' esc escs caps its calls σ'.

Lemma if_sim2 fuel esc els lc inl :
  (forall l, forallb (l2_stmt inl) l = true -> sim_list fuel inl l) ->
  match els with Some b => forallb (l2_stmt inl) b | None => true end = true ->
  (inl = true -> lc <> None) ->
  forall arms, forallb (fun p => l2_expr (fst p) && forallb (l2_stmt inl) (snd p)) arms = true ->
  forall s sg s', if_arms (c_mode c) (eval c fuel esc) (exec_list c fuel esc) els s arms = Ok (sg, s') ->
  forall base stk escs caps its calls,
    code_at C base (if_code (fun b pc => compile_stmts b pc lc) els arms base) ->
    lc_fits lc (length (s_env s)) (length escs) (length caps) ->
    exists σ', star (mkVm base stk s esc escs caps its calls) σ' /\
      postO sg lc (base + length (if_code (fun b pc => compile_stmts b pc lc) els arms base)) stk s' esc escs caps its calls σ'.
Proof.
  intros IHl Hels Hin. induction arms as [|[cnd body] r IHr]; intros Hw s sg s' He base stk escs caps its calls Hc Hf.
  - cbn [if_arms if_code] in *. destruct els as [b|].
    + apply (IHl b Hels _ _ _ _ He _ _ _ _ _ _ _ Hc Hin Hf).
    + inversion He; subst. eexists; split; [constructor|]. left. cbn [post length]. now rewrite Nat.add_0_r.
  - cbn [forallb fst snd] in Hw. apply andb_prop in Hw as [Hw Hr]. apply andb_prop in Hw as [Hcnd Hbody].
    cbn [if_arms] in He. fold (if_arms (c_mode c) (eval c fuel esc) (exec_list c fuel esc) els) in He.
    bstep He p1 E1. destruct p1 as [v s1]. bstep He t Et.
    cbn [if_code] in Hc |- *. fold (if_code (fun b pc => compile_stmts b pc lc) els) in Hc |- *.
    set (cc := compile_expr cnd base) in *.
    set (ct := compile_stmts body (base + length cc + 1) lc) in *.
    assert (Henv1 : s_env s1 = s_env s) by (eapply eval_env_proof; eauto).
    assert (Hf1 : lc_fits lc (length (s_env s1)) (length escs) (length caps)) by (rewrite Henv1; exact Hf).
    assert (Hcond : forall X, code_at C base (cc ++ X) ->
              star (mkVm base stk s esc escs caps its calls) (mkVm (base + length cc) (v :: stk) s1 esc escs caps its calls)).
    { intros X HX. eapply (sim_all c C fuel esc cnd Hcnd _ _ _ E1). eapply code_at_app_l; eauto. }
    (* the two shapes: with an else part (elif or non-empty else) / without *)
    set (cf := if_code (fun b pc => compile_stmts b pc lc) els r (base + length cc + 1 + length ct + 1)) in *.
    assert (Hshape : (match r, nonempty_body els with [], None => False | _, _ => True end) \/ (r = [] /\ nonempty_body els = None)).
    { destruct r; [destruct (nonempty_body els); [left; exact I|right; auto]|left; exact I]. }
    destruct Hshape as [Hsh|[Hr0 Hne]].
    + assert (Hcode : code_at C base (cc ++ [IJumpIfFalse (base + length cc + 1 + length ct + 1)] ++ ct
                        ++ [IJump (base + length cc + 1 + length ct + 1 + length cf)] ++ cf) /\
                      length (match r, nonempty_body els with
                              | [], None => cc ++ [IJumpIfFalse (base + length cc + 1 + length ct)] ++ ct
                              | _, _ => cc ++ [IJumpIfFalse (base + length cc + 1 + length ct + 1)] ++ ct
                                          ++ [IJump (base + length cc + 1 + length ct + 1 + length cf)] ++ cf end)
                      = length cc + 1 + length ct + 1 + length cf).
      { destruct r; [destruct (nonempty_body els); [|contradiction]|]; (split; [exact Hc|lens]). }
      destruct Hcode as [Hc' Hlen]. rewrite Hlen.
      clear Hc Hlen. rename Hc' into Hc.
      pose proof (Hcond _ Hc) as S1. apply code_at_app_r in Hc.
      pose proof (code_at_head _ _ _ _ Hc) as Hj. apply code_at_tail in Hc.
      replace (S (base + length cc)) with (base + length cc + 1) in * by lia.
      destruct t.
      * destruct (IHl body Hbody _ _ _ _ He (base + length cc + 1) lc stk escs caps its calls ltac:(eapply code_at_app_l; eauto) Hin Hf1) as [σ1 [S2 P2]].
        fold ct in P2. apply code_at_app_r in Hc.
        destruct (postO_then sg lc _ (base + (length cc + 1 + length ct + 1 + length cf)) _ _ _ _ _ _ _ _ P2) as [σ2 [S3 P3]].
        { step_by Hc idtac. eapply star_eq; [constructor|]. f_equal. lia. }
        exists σ2. split; [|exact P3].
        eapply star_trans; [exact S1|].
        eapply star_step. { rewrite (step_at c C _ _ _ _ _ _ _ _ _ Hj). cbn [exec_instr v_stk v_st]. rewrite Et. reflexivity. }
        vmsimp. replace (S (base + length cc)) with (base + length cc + 1) in * by lia.
        eapply star_trans; [exact S2|exact S3].
      * apply code_at_app_r in Hc. apply code_at_tail in Hc.
        eapply code_at_pc in Hc; [|instantiate (1 := base + length cc + 1 + length ct + 1); lia].
        destruct (IHr Hr _ _ _ He _ stk escs caps its calls Hc Hf1) as [σ1 [S2 P2]].
        exists σ1. split.
        -- eapply star_trans; [exact S1|].
           eapply star_step. { rewrite (step_at c C _ _ _ _ _ _ _ _ _ Hj). cbn [exec_instr v_stk v_st]. rewrite Et. reflexivity. }
           vmsimp. exact S2.
        -- eapply postO_endpc; [|exact P2]. left. fold cf. lia.
    + subst r. rewrite Hne in Hc |- *.
      pose proof (Hcond _ Hc) as S1. apply code_at_app_r in Hc.
      pose proof (code_at_head _ _ _ _ Hc) as Hj. apply code_at_tail in Hc.
      replace (S (base + length cc)) with (base + length cc + 1) in * by lia.
      destruct t.
      * destruct (IHl body Hbody _ _ _ _ He (base + length cc + 1) lc stk escs caps its calls Hc Hin Hf1) as [σ1 [S2 P2]].
        exists σ1. split.
        -- eapply star_trans; [exact S1|].
           eapply star_step. { rewrite (step_at c C _ _ _ _ _ _ _ _ _ Hj). cbn [exec_instr v_stk v_st]. rewrite Et. reflexivity. }
           vmsimp. replace (S (base + length cc)) with (base + length cc + 1) in * by lia. exact S2.
        -- fold ct in P2. eapply postO_endpc; [|exact P2]. left. lens.
      * cbn [if_arms] in He.
        assert (Hr0 : (sg, s') = (SigNormal, s1)).
        { destruct els as [[|x b]|]; try discriminate Hne.
          - eapply exec_list_nil; eauto.
          - inversion He; reflexivity. }
        inversion Hr0; subst. eexists. split; [|left; reflexivity].
        eapply star_trans; [exact S1|].
        eapply star_step. { rewrite (step_at c C _ _ _ _ _ _ _ _ _ Hj). cbn [exec_instr v_stk v_st]. rewrite Et. reflexivity. }
        vmsimp. fold ct. eapply star_eq; [constructor|]. f_equal. lens.
Qed.


Lemma post_enter k sg lc e stk s2 esc escs caps its calls σ' X :
  post sg (enter_scope k lc) e stk s2 esc escs caps its calls σ' -> sg <> SigNormal ->
  (forall l pc, unwound pc (k :: lc_pending l) stk s2 esc escs caps its calls = X l pc) ->
  exists l, lc = Some l /\ σ' = X l (match sg with SigBreak => lc_end l | _ => lc_iter l end).
Proof.
  intros Hp Hn HX. destruct sg; [congruence| |]; cbn [post] in Hp; destruct Hp as [l' [Hl ->]];
    destruct lc as [l|]; cbn [enter_scope] in Hl; try discriminate; inversion Hl; subst l'; cbn [lc_end lc_iter lc_pending];
    exists l; (split; [reflexivity|apply HX]).
Qed.

Lemma fits_enter k lc nenv nescs ncaps :
  lc_fits lc nenv nescs ncaps ->
  lc_fits (enter_scope k lc)
    (match k with ClFrame => S nenv | _ => nenv end)
    (match k with ClAutoEscape => S nescs | _ => nescs end)
    (match k with ClCapture => S ncaps | _ => ncaps end).
Proof.
  destruct lc as [l|]; cbn [lc_fits enter_scope lc_pending]; [|auto].
  intros H. destruct k; cbn [fits]; (split; [lia|]); rewrite Nat.sub_succ, Nat.sub_0_r; exact H.
Qed.

Lemma enter_some k lc : lc <> None -> enter_scope k lc <> None.
Proof. destruct lc; cbn; congruence. Qed.


Lemma unwound_jump p : forall pc t stk s esc escs caps its calls, nth_error C pc = Some (IJump t) ->
  step c C (unwound pc p stk s esc escs caps its calls) = Ok (unwound t p stk s esc escs caps its calls).
Proof.
  induction p as [|k p IH]; intros pc t stk s esc escs caps its calls H; cbn [unwound].
  - rewrite (step_at c C _ _ _ _ _ _ _ _ _ H). reflexivity.
  - destruct k; [apply IH; exact H| |].
    + destruct caps; [rewrite (step_at c C _ _ _ _ _ _ _ _ _ H); reflexivity|apply IH; exact H].
    + destruct escs; [rewrite (step_at c C _ _ _ _ _ _ _ _ _ H); reflexivity|apply IH; exact H].
Qed.

Lemma assign_sim tgt s item s3 pc stk esc escs caps its calls :
  bind_target tgt s item = Ok s3 -> code_at C pc (assign_code tgt) ->
  star (mkVm pc (item :: stk) s esc escs caps its calls)
       (mkVm (pc + length (assign_code tgt)) stk s3 esc escs caps its calls).
Proof.
  intros Hb Hc. destruct tgt as [x|x y]; cbn [assign_code bind_target length] in *.
  - inversion Hb; subst. step_by Hc idtac. eapply star_eq; [constructor|]. f_equal. lia.
  - destruct item as [| | | | | |l| | |]; try discriminate. destruct l as [|a [|b [|? ?]]]; try discriminate.
    inversion Hb; subst.
    step_by Hc idtac. apply code_at_tail in Hc. cbn [app]. step_by Hc idtac. apply code_at_tail in Hc.
    step_by Hc idtac. eapply star_eq; [constructor|]. f_equal. lia.
Qed.

(* Interp's state [s] and the VM's state [sv] at the Iterate instruction before iteration [i] *)
Definition head_rel (i n : Z) (s sv : st) : Prop :=
  s_clos sv = s_clos s /\ s_out sv = s_out s /\ s_asks sv = s_asks s /\
  exists f fv e, s_env s = f :: e /\ s_env sv = fv :: e /\ f_closure fv = f_closure f /\
                 f_closure_ctx fv = f_closure_ctx f /\ f_loop fv = Some ((i - 1)%Z, n, true).

(* ... and when the loop is left *)
Definition tail_rel (n : Z) (s5 sv5 : st) : Prop :=
  s_clos sv5 = s_clos s5 /\ s_out sv5 = s_out s5 /\ s_asks sv5 = s_asks s5 /\ tl (s_env sv5) = tl (s_env s5) /\
  exists fv e k, s_env sv5 = fv :: e /\ f_loop fv = Some (k, n, true).

Lemma hdl_some s l : hdl s = Some (Some l) -> exists f e, s_env s = f :: e /\ f_loop f = Some l.
Proof. unfold hdl. destruct (s_env s) as [|f e]; intros H; inversion H. eauto. Qed.

Lemma bind_target_hdl tgt s item s3 : bind_target tgt s item = Ok s3 -> hdl s3 = hdl s.
Proof.
  destruct tgt as [x|x y]; cbn [bind_target]; intros H.
  - inversion H. apply store_hdl.
  - destruct item as [| | | | | |l| | |]; try discriminate. destruct l as [|a [|b [|? ?]]]; try discriminate.
    inversion H. now rewrite !store_hdl.
Qed.

Lemma loop_sim fuel esc tgt body n it loop_end body_at its0 :
  sim_list fuel true body -> forallb (l2_stmt true) body = true ->
  code_at C it ([IIterate loop_end] ++ assign_code tgt ++ compile_stmts body body_at (Some (mkL it loop_end [])) ++ [IJump it]) ->
  body_at = it + 1 + length (assign_code tgt) ->
  loop_end = body_at + length (compile_stmts body body_at (Some (mkL it loop_end []))) + 1 ->
  forall items s i s5, loop_items (exec_list c fuel esc) tgt body n s i items = Ok s5 ->
  forall sv stk escs caps calls, head_rel i n s sv ->
    (exists sv5 rest, star (mkVm it stk sv esc escs caps (items :: its0) calls)
                           (mkVm loop_end stk sv5 esc escs caps (rest :: its0) calls) /\ tail_rel n s5 sv5)
    \/ (exists σo, star (mkVm it stk sv esc escs caps (items :: its0) calls) σo /\ overflow C σo).
Proof.
  intros IHb Hbody Hc Hba Hle.
  pose proof (code_at_head _ _ _ _ Hc) as Hit.
  pose proof (code_at_tail _ _ _ _ Hc) as Hc1.
  pose proof (code_at_app_l _ _ _ _ Hc1) as Hca.
  pose proof (code_at_app_r _ _ _ _ Hc1) as Hc2.
  replace (S it + length (assign_code tgt)) with body_at in Hc2 by lia.
  pose proof (code_at_app_l _ _ _ _ Hc2) as Hcb.
  pose proof (code_at_head _ _ _ _ (code_at_app_r _ _ _ _ Hc2)) as Hj.
  induction items as [|item r IH]; intros s i s5 He sv stk escs caps calls Hh.
  - cbn [loop_items] in He. inversion He; subst s5.
    left. exists sv, []. split.
    + apply star_one. rewrite (step_at c C _ _ _ _ _ _ _ _ _ Hit). reflexivity.
    + destruct Hh as (A & B & D & f & fv & e & E1 & E2 & _ & _ & E5). repeat split; auto.
      * rewrite E1, E2. reflexivity.
      * eauto.
  - destruct Hh as (A & B & D & f & fv & e & E1 & E2 & E3 & E4 & E5).
    cbn [loop_items] in He. fold (loop_items (exec_list c fuel esc) tgt body n) in He. rewrite E1 in He.
    set (s' := with_env s (mkFrame [] (Some (i, n, true)) (f_closure f) (f_closure_ctx f) false :: e)) in *.
    bstep He s3 Eb. bstep He p4 Ex. destruct p4 as [sg s4].
    (* Iterate *)
    assert (S1 : star (mkVm it stk sv esc escs caps ((item :: r) :: its0) calls)
                      (mkVm (S it) (item :: stk) s' esc escs caps (r :: its0) calls)).
    { apply star_one. rewrite (step_at c C _ _ _ _ _ _ _ _ _ Hit). cbn [exec_instr v_iters v_st v_stk v_pc v_esc v_escs v_caps v_calls].
      rewrite E2. cbn [advance_loop]. rewrite E5. unfold s', with_env. rewrite A, B, D, E3, E4.
      replace (i - 1 + 1)%Z with i by lia. reflexivity. }
    pose proof (assign_sim tgt s' item s3 (S it) stk esc escs caps (r :: its0) calls Eb Hca) as S2.
    replace (S it + length (assign_code tgt)) with body_at in S2 by lia.
    assert (Hl3 : hdl s3 = Some (Some (i, n, true))).
    { rewrite (bind_target_hdl _ _ _ _ Eb). reflexivity. }
    assert (Hl4 : hdl s4 = Some (Some (i, n, true))).
    { rewrite <- Hl3. eapply (proj2 (frag_hdl c fuel)); eauto. }
    destruct (IHb _ _ _ _ Ex body_at (Some (mkL it loop_end [])) stk escs caps (r :: its0) calls Hcb ltac:(discriminate) I) as [σ1 [S3 P3]].
    destruct (hdl_some _ _ Hl4) as (f4 & e4 & Ee4 & Ef4).
    assert (Hh4 : head_rel (i + 1) n s4 s4).
    { repeat split; auto. exists f4, f4, e4. repeat split; auto. rewrite Ef4. f_equal. f_equal. f_equal. lia. }
    destruct P3 as [P3|O3];
      [|right; exists σ1; split; [eapply star_trans; [exact S1|]; eapply star_trans; [exact S2|exact S3]|exact O3]].
    destruct sg.
    + (* normal end of the body: Jump back *)
      cbn [post] in P3. subst σ1.
      assert (S34 : star (mkVm it stk sv esc escs caps ((item :: r) :: its0) calls) (mkVm it stk s4 esc escs caps (r :: its0) calls)).
      { eapply star_trans; [exact S1|]. eapply star_trans; [exact S2|]. eapply star_trans; [exact S3|].
        apply star_one. rewrite (step_at c C _ _ _ _ _ _ _ _ _ Hj). reflexivity. }
      destruct (IH _ _ _ He s4 stk escs caps calls Hh4) as [(sv5 & rest & S4 & T)|(σo & S4 & O4)].
      * left. exists sv5, rest. split; [|exact T]. eapply star_trans; [exact S34|exact S4].
      * right. exists σo. split; [eapply star_trans; [exact S34|exact S4]|exact O4].
    + (* break *)
      inversion He; subst s5. cbn [post] in P3. destruct P3 as [l [Hl ->]]. inversion Hl; subst l. cbn [unwound lc_end lc_pending] in *.
      left. exists s4, r. split.
      * eapply star_trans; [exact S1|]. eapply star_trans; [exact S2|exact S3].
      * repeat split; auto. exists f4, e4, i. split; assumption.
    + (* continue *)
      cbn [post] in P3. destruct P3 as [l [Hl ->]]. inversion Hl; subst l. cbn [unwound lc_iter lc_pending] in *.
      assert (S34 : star (mkVm it stk sv esc escs caps ((item :: r) :: its0) calls) (mkVm it stk s4 esc escs caps (r :: its0) calls)).
      { eapply star_trans; [exact S1|]. eapply star_trans; [exact S2|exact S3]. }
      destruct (IH _ _ _ He s4 stk escs caps calls Hh4) as [(sv5 & rest & S4 & T)|(σo & S4 & O4)].
      * left. exists sv5, rest. split; [|exact T]. eapply star_trans; [exact S34|exact S4].
      * right. exists σo. split; [eapply star_trans; [exact S34|exact S4]|exact O4].
Qed.


(* ---- the accumulate loop of a filtered for ---- *)
Lemma store_relab L s x v : s_env s <> [] -> store (relab L s) x v = relab L (store s x v).
Proof.
  intros Hne. unfold relab at 1. destruct (s_env s) as [|f e] eqn:E; [congruence|].
  unfold relab, store. cbn [with_env s_env s_clos s_out s_asks]. rewrite E.
  cbn [s_env with_env f_locals f_loop f_closure f_closure_ctx f_base s_clos s_out s_asks]. reflexivity.
Qed.

Lemma store_env_ne s x v : s_env s <> [] -> s_env (store s x v) <> [].
Proof. unfold store. destruct (s_env s); [congruence|]. cbn [s_env]. discriminate. Qed.

Lemma bind_target_relab L tgt s item s3 : s_env s <> [] ->
  bind_target tgt s item = Ok s3 -> bind_target tgt (relab L s) item = Ok (relab L s3).
Proof.
  intros Hne. destruct tgt as [x|x y]; cbn [bind_target]; intros H.
  - inversion H; subst. now rewrite store_relab.
  - destruct item as [| | | | | |l| | |]; try discriminate. destruct l as [|a [|b [|? ?]]]; try discriminate.
    inversion H; subst. rewrite store_relab by exact Hne. rewrite store_relab by (apply store_env_ne; exact Hne). reflexivity.
Qed.

(* closure fields of the innermost frame *)
Definition topc (s : st) : option (option nat * option nat) :=
  match s_env s with f :: _ => Some (f_closure f, f_closure_ctx f) | [] => None end.
Lemma store_topc s x v : topc (store s x v) = topc s.
Proof. unfold topc, store. destruct (s_env s) as [|f r] eqn:E; cbn [s_env f_closure f_closure_ctx]; rewrite ?E; reflexivity. Qed.
Lemma bind_target_topc tgt s item s3 : bind_target tgt s item = Ok s3 -> topc s3 = topc s.
Proof.
  destruct tgt as [x|x y]; cbn [bind_target]; intros H.
  - inversion H. apply store_topc.
  - destruct item as [| | | | | |l| | |]; try discriminate. destruct l as [|a [|b [|? ?]]]; try discriminate.
    inversion H. now rewrite !store_topc.
Qed.

Lemma lenZ_cons {A} (x : A) l : lenZ (x :: l) = (lenZ l + 1)%Z.
Proof. unfold lenZ. cbn [length]. lia. Qed.
Lemma lenZ_nonneg {A} (l : list A) : (0 <= lenZ l)%Z.
Proof. unfold lenZ. lia. Qed.

Lemma counter_step z : (0 <= z)%Z -> in_i128b (z + 1) = true \/ (i128_max <= z)%Z.
Proof.
  intros Hz. destruct (in_i128b (z + 1)) eqn:E; [left; reflexivity|right].
  unfold in_i128b, in_i128 in E. apply andb_false_iff in E. destruct E as [E|E]; apply Z.leb_gt in E.
  - assert (i128_min <= 0)%Z by (vm_compute; discriminate). lia.
  - lia.
Qed.

(* Interp's state [s] between two items and the VM's [sv] at the Iterate of the accumulate loop: the VM
   keeps ONE loop frame (hidden counters, no loop variable) on top of the scopes the interpreter has *)
Definition frel (i n : Z) (s sv : st) : Prop :=
  s_clos sv = s_clos s /\ s_out sv = s_out s /\ s_asks sv = s_asks s /\
  exists fv, s_env sv = fv :: s_env s /\ f_loop fv = Some ((i - 1)%Z, n, false) /\
             f_closure fv = None /\ f_closure_ctx fv = None.

Lemma filter_sim fuel esc tgt fe it1 jf its0 n :
  l2_expr fe = true ->
  code_at C it1 ([IIterate (jf + 7)] ++ [IDupTop] ++ assign_code tgt ++ compile_expr fe (it1 + 1 + 1 + length (assign_code tgt))
      ++ [IJumpIfFalse (jf + 5); ISwap; ILoadConst (VInt 1); IBinOp OAdd; IJump (jf + 6); IDiscardTop; IJump it1]) ->
  jf = it1 + 1 + 1 + length (assign_code tgt) + length (compile_expr fe (it1 + 1 + 1 + length (assign_code tgt))) ->
  forall items s kept s3, filter_items (c_mode c) (eval c fuel esc) tgt fe s items = Ok (kept, s3) ->
  forall sv acc i stk escs caps calls,
    frel i n s sv ->
    (exists sv3 i3, star (mkVm it1 (VInt (lenZ acc) :: acc ++ stk) sv esc escs caps (items :: its0) calls)
                         (mkVm (jf + 7) (VInt (lenZ acc + lenZ kept) :: rev kept ++ acc ++ stk) sv3 esc escs caps ([] :: its0) calls)
       /\ frel i3 n s3 sv3)
    \/ (exists σo, star (mkVm it1 (VInt (lenZ acc) :: acc ++ stk) sv esc escs caps (items :: its0) calls) σo /\ overflow C σo).
Proof.
  intros Hw Hc Hjf.
  pose proof (code_at_head _ _ _ _ Hc) as Hit.
  pose proof (code_at_tail _ _ _ _ Hc) as Hc1. cbn [app] in Hc1.
  pose proof (code_at_head _ _ _ _ Hc1) as Hdup.
  pose proof (code_at_tail _ _ _ _ Hc1) as Hc2.
  pose proof (code_at_app_l _ _ _ _ Hc2) as Hca.
  pose proof (code_at_app_r _ _ _ _ Hc2) as Hc3.
  replace (S (S it1) + length (assign_code tgt)) with (it1 + 1 + 1 + length (assign_code tgt)) in Hc3 by lia.
  pose proof (code_at_app_l _ _ _ _ Hc3) as Hcf.
  pose proof (code_at_app_r _ _ _ _ Hc3) as Hc4. rewrite <- Hjf in Hc4.
  pose proof (code_at_head _ _ _ _ Hc4) as H0.
  pose proof (code_at_head _ _ _ _ (code_at_tail _ _ _ _ Hc4)) as H1.
  pose proof (code_at_head _ _ _ _ (code_at_tail _ _ _ _ (code_at_tail _ _ _ _ Hc4))) as H2.
  pose proof (code_at_head _ _ _ _ (code_at_tail _ _ _ _ (code_at_tail _ _ _ _ (code_at_tail _ _ _ _ Hc4)))) as H3.
  pose proof (code_at_head _ _ _ _ (code_at_tail _ _ _ _ (code_at_tail _ _ _ _ (code_at_tail _ _ _ _ (code_at_tail _ _ _ _ Hc4))))) as H4.
  pose proof (code_at_head _ _ _ _ (code_at_tail _ _ _ _ (code_at_tail _ _ _ _ (code_at_tail _ _ _ _ (code_at_tail _ _ _ _ (code_at_tail _ _ _ _ Hc4)))))) as H5.
  pose proof (code_at_head _ _ _ _ (code_at_tail _ _ _ _ (code_at_tail _ _ _ _ (code_at_tail _ _ _ _ (code_at_tail _ _ _ _ (code_at_tail _ _ _ _ (code_at_tail _ _ _ _ Hc4))))))) as H6.
  induction items as [|item r IH]; intros s kept s3 He sv acc i stk escs caps calls Hh.
  - cbn [filter_items] in He. inversion He; subst kept s3.
    left. exists sv, i. split; [|exact Hh].
    apply star_one. rewrite (step_at c C _ _ _ _ _ _ _ _ _ Hit). cbn [exec_instr v_iters goto v_st v_stk v_esc v_escs v_caps v_calls].
    cbn [lenZ length rev app]. unfold lenZ. cbn [length]. rewrite Z.add_0_r. reflexivity.
  - destruct Hh as (A & Bq & D & fv & E1 & E2 & E3 & E4).
    cbn [filter_items] in He. fold (filter_items (c_mode c) (eval c fuel esc) tgt fe) in He.
    set (sf := push_frame s (mkFrame [] (Some (0%Z, 0%Z, false)) None None false)) in *.
    bstep He sf1 Eb. bstep He p2 Ee. destruct p2 as [v sf2]. bstep He keep Ek. bstep He p3 Er. destruct p3 as [rest s4].
    set (L := Some (i, n, false)).
    (* Iterate *)
    assert (S1 : star (mkVm it1 (VInt (lenZ acc) :: acc ++ stk) sv esc escs caps ((item :: r) :: its0) calls)
                      (mkVm (S (S it1)) (item :: item :: VInt (lenZ acc) :: acc ++ stk) (relab L sf) esc escs caps (r :: its0) calls)).
    { eapply star_step.
      { rewrite (step_at c C _ _ _ _ _ _ _ _ _ Hit). cbn [exec_instr v_iters v_st v_stk v_pc v_esc v_escs v_caps v_calls].
        rewrite E1. cbn [advance_loop]. rewrite E2. reflexivity. }
      eapply star_eq. { apply star_one. rewrite (step_at c C _ _ _ _ _ _ _ _ _ Hdup). reflexivity. }
      cbn [next v_pc v_stk v_st v_esc v_escs v_caps v_iters v_calls]. f_equal.
      unfold relab, sf, push_frame, with_env, L. cbn [s_env s_clos s_out s_asks f_locals f_closure f_closure_ctx f_base].
      rewrite A, Bq, D, E3, E4. replace (i - 1 + 1)%Z with i by lia. reflexivity. }
    assert (Hsf : s_env sf <> []) by (unfold sf, push_frame; cbn [s_env]; discriminate).
    pose proof (bind_target_relab L tgt sf item sf1 Hsf Eb) as Eb'.
    pose proof (assign_sim tgt _ item _ (S (S it1)) (item :: VInt (lenZ acc) :: acc ++ stk) esc escs caps (r :: its0) calls Eb' Hca) as S2.
    replace (S (S it1) + length (assign_code tgt)) with (it1 + 1 + 1 + length (assign_code tgt)) in S2 by lia.
    assert (Hl1 : hdl sf1 = Some (Some (0%Z, 0%Z, false))) by (rewrite (bind_target_hdl _ _ _ _ Eb); reflexivity).
    assert (Hth : top_hidden sf1).
    { unfold top_hidden. destruct (hdl_some _ _ Hl1) as (f1 & e1 & Ee1 & Ef1). rewrite Ee1, Ef1. reflexivity. }
    destruct (eval_relab c L eq_refl fuel esc fe Hw sf1 v sf2 Hth Ee) as [Ee' Henv2].
    pose proof (sim_all c C fuel esc fe Hw _ _ _ Ee' _ (item :: VInt (lenZ acc) :: acc ++ stk) escs caps (r :: its0) calls Hcf) as S3.
    rewrite <- Hjf in S3.
    (* the relation for the next item *)
    assert (Hc1' : topc sf1 = Some (None, None)) by (rewrite (bind_target_topc _ _ _ _ Eb); reflexivity).
    assert (Hh' : frel (i + 1) n (pop_frame sf2) (relab L sf2)).
    { destruct (relab_fields L sf2) as (R1 & R2 & R3).
      unfold frel. cbn [pop_frame s_clos s_out s_asks s_env]. repeat split; auto.
      rewrite relab_env. unfold topc in Hc1'. rewrite <- Henv2 in Hc1'.
      destruct (s_env sf2) as [|f2 e2]; [discriminate|]. inversion Hc1' as [[Q1 Q2]].
      eexists. split; [reflexivity|]. cbn [tl f_loop f_closure f_closure_ctx]. repeat split; auto.
      unfold L. f_equal. f_equal. f_equal. lia. }
    pose proof (lenZ_nonneg acc) as Hn0.
    destruct keep.
    + (* kept: Swap; LoadConst 1; Add; Jump; Jump *)
      inversion He; subst kept s3.
      assert (S5 : star (mkVm it1 (VInt (lenZ acc) :: acc ++ stk) sv esc escs caps ((item :: r) :: its0) calls)
                        (mkVm (S (S (S jf))) (VInt 1 :: VInt (lenZ acc) :: item :: acc ++ stk) (relab L sf2) esc escs caps (r :: its0) calls)).
      { eapply star_trans; [exact S1|]. eapply star_trans; [exact S2|]. eapply star_trans; [exact S3|].
        eapply star_step. { rewrite (step_at c C _ _ _ _ _ _ _ _ _ H0). cbn [exec_instr v_stk v_st]. rewrite Ek. reflexivity. }
        vmsimp.
        eapply star_step. { rewrite (step_at c C _ _ _ _ _ _ _ _ _ H1). reflexivity. } vmsimp.
        apply star_one. rewrite (step_at c C _ _ _ _ _ _ _ _ _ H2). reflexivity. }
      destruct (counter_step (lenZ acc) Hn0) as [Hr|Hr].
      * destruct (IH _ _ _ Er (relab L sf2) (item :: acc) (i + 1)%Z stk escs caps calls Hh') as [(sv3 & i3 & S4 & F4)|(σo & S4 & O4)].
        -- left. exists sv3, i3. split; [|exact F4].
           eapply star_trans; [exact S5|].
           eapply star_step.
           { rewrite (step_at c C _ _ _ _ _ _ _ _ _ H3). cbn [exec_instr v_stk v_st bind do_bin]. rewrite Hr. reflexivity. }
           vmsimp.
           eapply star_step. { rewrite (step_at c C _ _ _ _ _ _ _ _ _ H4). reflexivity. } vmsimp.
           replace (S (S (S (S (S (S jf)))))) with (jf + 6) in H6 by lia.
           eapply star_step. { rewrite (step_at c C _ _ _ _ _ _ _ _ _ H6). reflexivity. } vmsimp.
           rewrite lenZ_cons in S4. cbn [app] in S4.
           eapply star_eq; [exact S4|]. f_equal.
           rewrite !lenZ_cons. cbn [rev]. rewrite <- !app_assoc. cbn [app]. f_equal. f_equal. lia.
        -- right. exists σo. split; [|exact O4].
           eapply star_trans; [exact S5|].
           eapply star_step.
           { rewrite (step_at c C _ _ _ _ _ _ _ _ _ H3). cbn [exec_instr v_stk v_st bind do_bin]. rewrite Hr. reflexivity. }
           vmsimp.
           eapply star_step. { rewrite (step_at c C _ _ _ _ _ _ _ _ _ H4). reflexivity. } vmsimp.
           replace (S (S (S (S (S (S jf)))))) with (jf + 6) in H6 by lia.
           eapply star_step. { rewrite (step_at c C _ _ _ _ _ _ _ _ _ H6). reflexivity. } vmsimp.
           rewrite lenZ_cons in S4. cbn [app] in S4. exact S4.
      * right. eexists. split; [exact S5|]. split; [exact H3|]. cbn [v_stk]. eauto.
    + (* dropped: DiscardTop; Jump *)
      inversion He; subst kept s3.
      assert (S5 : star (mkVm it1 (VInt (lenZ acc) :: acc ++ stk) sv esc escs caps ((item :: r) :: its0) calls)
                        (mkVm it1 (VInt (lenZ acc) :: acc ++ stk) (relab L sf2) esc escs caps (r :: its0) calls)).
      { eapply star_trans; [exact S1|]. eapply star_trans; [exact S2|]. eapply star_trans; [exact S3|].
        eapply star_step. { rewrite (step_at c C _ _ _ _ _ _ _ _ _ H0). cbn [exec_instr v_stk v_st]. rewrite Ek. reflexivity. }
        vmsimp.
        replace (S (S (S (S (S jf))))) with (jf + 5) in H5 by lia.
        eapply star_step. { rewrite (step_at c C _ _ _ _ _ _ _ _ _ H5). reflexivity. } vmsimp.
        replace (S (jf + 5)) with (jf + 6) by lia.
        replace (S (S (S (S (S (S jf)))))) with (jf + 6) in H6 by lia.
        apply star_one. rewrite (step_at c C _ _ _ _ _ _ _ _ _ H6). reflexivity. }
      destruct (IH _ _ _ Er (relab L sf2) acc (i + 1)%Z stk escs caps calls Hh') as [(sv3 & i3 & S4 & F4)|(σo & S4 & O4)].
      * left. exists sv3, i3. split; [eapply star_trans; [exact S5|exact S4]|exact F4].
      * right. exists σo. split; [eapply star_trans; [exact S5|exact S4]|exact O4].
Qed.

(* compile_for_loop with named positions; [f_pre]: everything up to and including PushLoop(flags) *)
Definition f_flags (rc : bool) : nat := LOOP_FLAG_WITH_LOOP_VAR + (if rc then LOOP_FLAG_RECURSIVE else 0).
Definition f_pre (tgt : target) (iter : expr) (flt : option expr) (rc : bool) (base : nat) : list instr :=
  match flt with
  | None => compile_expr iter base ++ [IPushLoop (f_flags rc)]
  | Some fe =>
      let ci := compile_expr iter (base + 1) in
      let it1 := base + 1 + length ci + 1 in
      let ca := assign_code tgt in
      let cf := compile_expr fe (it1 + 1 + 1 + length ca) in
      let jf := it1 + 1 + 1 + length ca + length cf in
      [ILoadConst (VInt 0)] ++ ci ++ [IPushLoop 0; IIterate (jf + 7)] ++ [IDupTop] ++ ca ++ cf
        ++ [IJumpIfFalse (jf + 5); ISwap; ILoadConst (VInt 1); IBinOp OAdd; IJump (jf + 6); IDiscardTop;
            IJump it1; IPopLoopFrame; IBuildList None; IPushLoop (f_flags rc)]
  end.
Definition f_it tgt iter flt rc (base : nat) : nat := base + length (f_pre tgt iter flt rc base).
Definition f_body_at tgt iter flt rc (base : nat) : nat := f_it tgt iter flt rc base + 1 + length (assign_code tgt).
Definition f_end tgt iter flt rc (body : list stmt) (base : nat) : nat :=
  f_body_at tgt iter flt rc base
  + length (compile_stmts body (f_body_at tgt iter flt rc base) (Some (mkL (f_it tgt iter flt rc base) 0 []))) + 1.

Lemma compile_for_eq tgt iter flt body els rc base lc :
  compile_stmt (SFor tgt iter flt body els rc) base lc =
  f_pre tgt iter flt rc base ++ [IIterate (f_end tgt iter flt rc body base)] ++ assign_code tgt
    ++ compile_stmts body (f_body_at tgt iter flt rc base) (Some (mkL (f_it tgt iter flt rc base) (f_end tgt iter flt rc body base) []))
    ++ match els with
       | None | Some [] => [IJump (f_it tgt iter flt rc base); IPopLoopFrame]
       | Some eb => [IJump (f_it tgt iter flt rc base); IPushDidNotIterate; IPopLoopFrame;
                     IJumpIfFalse (f_end tgt iter flt rc body base + 3 + length (compile_stmts eb (f_end tgt iter flt rc body base + 3) lc))]
                    ++ compile_stmts eb (f_end tgt iter flt rc body base + 3) lc
       end.
Proof.
  cbn [compile_stmt]. unfold f_end, f_body_at, f_it, f_pre, f_flags, compile_stmts.
  destruct flt; destruct els as [[|x b]|]; reflexivity.
Qed.

Lemma st_eta s : mkSt (s_env s) (s_clos s) (s_out s) (s_asks s) = s.
Proof. destruct s; reflexivity. Qed.

Lemma pre_sim fuel esc tgt iter flt rc base s iv s1 items0 items s2 stk escs caps its calls :
  l2_expr iter = true -> match flt with Some fe => l2_expr fe | None => true end = true ->
  eval c fuel esc s iter = Ok (iv, s1) -> loop_items_of (c_mode c) iv = Ok items0 ->
  match flt with
  | None => Ok (items0, s1)
  | Some fe => filter_items (c_mode c) (eval c fuel esc) tgt fe s1 items0
  end = Ok (items, s2) ->
  code_at C base (f_pre tgt iter flt rc base) ->
  star (mkVm base stk s esc escs caps its calls)
       (mkVm (f_it tgt iter flt rc base) stk (push_frame s2 (mkFrame [] (Some ((-1)%Z, lenZ items, true)) None None false))
             esc escs caps (items :: its) calls)
  \/ (exists σo, star (mkVm base stk s esc escs caps its calls) σo /\ overflow C σo).
Proof.
  intros Hiter Hflt E1 E2 E3 Hc. unfold f_it.
  assert (Hodd : Nat.odd (f_flags rc) = true) by (destruct rc; reflexivity).
  destruct flt as [fe|]; cbn [f_pre] in Hc |- *.
  - (* with filter *)
    set (ci := compile_expr iter (base + 1)) in *.
    set (it1 := base + 1 + length ci + 1) in *.
    set (ca := assign_code tgt) in *.
    set (cf := compile_expr fe (it1 + 1 + 1 + length ca)) in *.
    set (jf := it1 + 1 + 1 + length ca + length cf) in *.
    pose proof (code_at_head _ _ _ _ Hc) as H0. apply code_at_tail in Hc.
    replace (S base) with (base + 1) in Hc by lia.
    pose proof (sim_all c C fuel esc iter Hiter _ _ _ E1 (base + 1) (VInt 0 :: stk) escs caps its calls ltac:(eapply code_at_app_l; eauto)) as S1.
    apply code_at_app_r in Hc. fold ci in Hc, S1.
    pose proof (code_at_head _ _ _ _ Hc) as Hpl. apply code_at_tail in Hc.
    replace (S (base + 1 + length ci)) with it1 in Hc by (unfold it1; lia).
    (* the block of the accumulate loop *)
    assert (Hblk : code_at C it1 (([IIterate (jf + 7)] ++ [IDupTop] ++ ca ++ cf
               ++ [IJumpIfFalse (jf + 5); ISwap; ILoadConst (VInt 1); IBinOp OAdd; IJump (jf + 6); IDiscardTop; IJump it1])
               ++ [IPopLoopFrame; IBuildList None; IPushLoop (f_flags rc)])).
    { rewrite <- !app_assoc. cbn [app] in Hc |- *. exact Hc. }
    pose proof (code_at_app_l _ _ _ _ Hblk) as Hloop. apply code_at_app_r in Hblk.
    replace (it1 + length ([IIterate (jf + 7)] ++ [IDupTop] ++ ca ++ cf
               ++ [IJumpIfFalse (jf + 5); ISwap; ILoadConst (VInt 1); IBinOp OAdd; IJump (jf + 6); IDiscardTop; IJump it1]))
      with (jf + 7) in Hblk by (rewrite !app_length; cbn [length]; unfold jf; lia).
    set (n0 := lenZ items0).
    set (svl := push_frame s1 (mkFrame [] (Some ((-1)%Z, n0, false)) None None false)).
    assert (S2 : star (mkVm base stk s esc escs caps its calls) (mkVm it1 (VInt (lenZ (@nil value)) :: [] ++ stk) svl esc escs caps (items0 :: its) calls)).
    { eapply star_step. { rewrite (step_at c C _ _ _ _ _ _ _ _ _ H0). reflexivity. }
      vmsimp. replace (S base) with (base + 1) by lia.
      eapply star_trans; [exact S1|].
      apply star_one. rewrite (step_at c C _ _ _ _ _ _ _ _ _ Hpl). cbn [exec_instr v_stk v_st]. rewrite E2. cbn [bind].
      unfold svl, n0, it1. replace (base + 1 + length ci + 1) with (S (base + 1 + length ci)) by lia. reflexivity. }
    assert (Hfr : frel 0 n0 s1 svl).
    { unfold svl, frel, push_frame. cbn [s_clos s_out s_asks s_env]. repeat split; auto.
      eexists. split; [reflexivity|]. repeat split; reflexivity. }
    destruct (filter_sim fuel esc tgt fe it1 jf its n0 Hflt Hloop eq_refl _ _ _ _ E3 svl [] 0%Z stk escs caps calls Hfr)
      as [(sv3 & i3 & S3 & F3)|(σo & S3 & O3)].
    + left. destruct F3 as (A & Bq & D & fv & E5 & E6 & _ & _).
      eapply star_trans; [exact S2|]. eapply star_trans; [exact S3|].
      cbn [app].
      step_by Hblk ltac:(rewrite E5, E6). apply code_at_tail in Hblk.
      assert (Hp : pop_frame sv3 = s2).
      { unfold pop_frame. rewrite E5, A, Bq, D. cbn [tl]. apply st_eta. }
      rewrite Hp.
      step_by Hblk ltac:(unfold lenZ; rewrite Z.add_0_l, Nat2Z.id, (pop_n_rev items stk []), app_nil_r).
      apply code_at_tail in Hblk.
      step_by Hblk ltac:(cbn [loop_items_of bind]; rewrite Hodd).
      eapply star_eq; [constructor|]. f_equal.
      cbn [length]. rewrite app_length. cbn [length]. rewrite app_length. rewrite app_length. cbn [length].
      unfold jf, it1. lia.
    + right. exists σo. split; [eapply star_trans; [exact S2|exact S3]|exact O3].
  - (* without filter *)
    inversion E3; subst items s2. left.
    eapply star_trans. { eapply (sim_all c C fuel esc iter Hiter _ _ _ E1). eapply code_at_app_l; eauto. }
    apply code_at_app_r in Hc.
    step_by Hc ltac:(rewrite E2; cbn [bind]; rewrite Hodd).
    eapply star_eq; [constructor|]. f_equal. rewrite app_length. cbn [length]. lia.
Qed.

Lemma lenZ_zero {A} (l : list A) : (lenZ l =? 0)%Z = match l with [] => true | _ => false end.
Proof. destruct l; reflexivity. Qed.

Lemma stmts_sim2 : forall fuel,
  (forall inl t, l2_stmt inl t = true -> sim_stmt fuel inl t) /\
  (forall inl l, forallb (l2_stmt inl) l = true -> sim_list fuel inl l).
Proof.
  induction fuel as [|fuel [IHs IHl]].
  { split; intros inl x _ esc s sg s' He; discriminate. }
  split.
  - intros inl t Hw esc s sg s' He base lc stk escs caps its calls Hc Hin Hf.
    destruct t; cbn [l2_stmt] in Hw; try discriminate; cbn [exec] in He.
    + (* SRaw *) cbn [compile_stmt] in Hc |- *. inversion He; subst. eexists; split; [|left; reflexivity]. step_by Hc idtac. eapply star_eq; [constructor|]. f_equal. lens.
    + (* SEmit *) cbn [compile_stmt] in Hc |- *.
      bstep He p1 E1. destruct p1 as [v s1].
      destruct (u_strictish (c_mode c) && is_strict_undef v) eqn:Eu; try discriminate. inversion He; subst.
      eexists; split; [|left; reflexivity].
      eapply star_trans. { eapply (sim_all c C fuel esc e Hw _ _ _ E1). eapply code_at_app_l; eauto. }
      apply code_at_app_r in Hc. step_by Hc ltac:(rewrite Eu). eapply star_eq; [constructor|]. f_equal. lens.
    + (* SIf *) cbn [compile_stmt] in Hc |- *.
      apply andb_prop in Hw as [Harms Hels].
      eapply (if_sim2 fuel esc els lc inl (IHl inl) Hels Hin arms Harms _ _ _ He); eauto.
    + (* SFor *)
      apply andb_prop in Hw as [Hw Hels]. apply andb_prop in Hw as [Hw Hbody]. apply andb_prop in Hw as [Hiter Hflt].
      bstep He p1 E1. destruct p1 as [iv s1]. bstep He items0 E2. bstep He p3 E3. destruct p3 as [items s2]. bstep He s5 E4.
      change (loop_items_of (c_mode c) iv = Ok items0) in E2.
      assert (H6 : s_env (pop_frame s5) = s_env s).
      { apply (for_scoped_proof c (S fuel) esc s t iter filter body recursive SigNormal).
        cbn [exec]. rewrite E1. cbn [bind]. unfold loop_items_of in E2. rewrite E2. cbn [bind]. rewrite E3. cbn [bind].
        rewrite E4. cbn [bind]. destruct items; reflexivity. }
      rewrite compile_for_eq in Hc |- *.
      set (pre := f_pre t iter filter recursive base) in *.
      set (it := f_it t iter filter recursive base) in *. set (body_at := f_body_at t iter filter recursive base) in *.
      set (loop_end := f_end t iter filter recursive body base) in *.
      assert (Hit : it = base + length pre) by reflexivity.
      assert (Hba : body_at = it + 1 + length (assign_code t)) by reflexivity.
      assert (Hlen : loop_end = body_at + length (compile_stmts body body_at (Some (mkL it loop_end []))) + 1).
      { unfold loop_end at 1, f_end. fold body_at. fold it. f_equal. f_equal.
        unfold compile_stmts. apply (seq_len_indep body).
        clear. induction body; constructor; auto using compile_len_indep. }
      set (n := lenZ items) in *.
      set (sv0 := push_frame s2 (mkFrame [] (Some ((-1)%Z, n, true)) None None false)).
      destruct (pre_sim fuel esc t iter filter recursive base s iv s1 items0 items s2 stk escs caps its calls
                  Hiter Hflt E1 E2 E3 ltac:(eapply code_at_app_l; eauto)) as [S12|(σo & S12 & O12)];
        [|exists σo; split; [exact S12|right; exact O12]].
      fold it n sv0 in S12.
      apply code_at_app_r in Hc. rewrite <- Hit in Hc.
      set (TAIL := match els with
                   | None | Some [] => [IJump it; IPopLoopFrame]
                   | Some eb => [IJump it; IPushDidNotIterate; IPopLoopFrame;
                                 IJumpIfFalse (loop_end + 3 + length (compile_stmts eb (loop_end + 3) lc))]
                                ++ compile_stmts eb (loop_end + 3) lc
                   end) in *.
      assert (HT : exists T', TAIL = IJump it :: T') by (unfold TAIL; destruct els as [[|x b]|]; eexists; reflexivity).
      destruct HT as [T' HT].
      assert (Hc3 : code_at C it (([IIterate loop_end] ++ assign_code t ++ compile_stmts body body_at (Some (mkL it loop_end [])) ++ [IJump it]) ++ T')).
      { rewrite HT in Hc. rewrite <- !app_assoc. exact Hc. }
      pose proof (code_at_app_r _ _ _ _ Hc3) as Hct. apply code_at_app_l in Hc3.
      replace (it + length ([IIterate loop_end] ++ assign_code t ++ compile_stmts body body_at (Some (mkL it loop_end [])) ++ [IJump it]))
        with loop_end in Hct by (rewrite !app_length; cbn [length]; lia).
      (* the iterations *)
      assert (Hh0 : head_rel 0 n (push_frame s2 (mkFrame [] (Some (0%Z, n, true)) None None false)) sv0).
      { unfold sv0, push_frame. repeat split; cbn [s_clos s_out s_asks s_env]; auto.
        eexists _, _, _. repeat split; reflexivity. }
      destruct (loop_sim fuel esc t body n it loop_end body_at its (IHl true body Hbody) Hbody Hc3
                  ltac:(reflexivity) Hlen items _ _ _ E4 sv0 stk escs caps calls Hh0) as [(sv5 & rest & S3 & T5)|(σo & S3 & O3)];
        [|exists σo; split; [eapply star_trans; [exact S12|exact S3]|right; exact O3]].
      destruct T5 as (A5 & B5 & D5 & E5 & fv5 & e5 & k5 & Ee5 & Ef5).
      assert (Hpop : pop_frame sv5 = pop_frame s5).
      { unfold pop_frame. rewrite A5, B5, D5, E5. reflexivity. }
      assert (S0 : star (mkVm base stk s esc escs caps its calls) (mkVm loop_end stk sv5 esc escs caps (rest :: its) calls)).
      { eapply star_trans; [exact S12|exact S3]. }
      assert (Hf6 : lc_fits lc (length (s_env (pop_frame s5))) (length escs) (length caps)) by (rewrite H6; exact Hf).
      subst TAIL.
      destruct els as [[|x b]|].
      * (* else present but empty *)
        cbn [app] in HT; injection HT as HT'; subst T'.
        assert (Hres : (sg, s') = (SigNormal, pop_frame s5)).
        { destruct items; [eapply exec_list_nil; eauto|inversion He; reflexivity]. }
        inversion Hres; subst sg s'. eexists; split; [|left; reflexivity].
        eapply star_trans; [exact S0|].
        step_by Hct ltac:(rewrite Ee5, Ef5). rewrite Hpop.
        eapply star_eq; [constructor|]. f_equal.
        rewrite ?app_length. cbn [length]. rewrite ?app_length. cbn [length]. rewrite ?app_length. cbn [length].
        lia.
      * (* else *)
        cbn [app] in HT; injection HT as HT'; subst T'. cbn [app] in Hct.
        set (ce := compile_stmts (x :: b) (loop_end + 3) lc) in *.
        assert (Hce : length ce = length (compile_stmt x (loop_end + 3) lc)
                        + length (compile_stmts b (loop_end + 3 + length (compile_stmt x (loop_end + 3) lc)) lc))
          by (unfold ce, compile_stmts; cbn [seq_code]; rewrite app_length; reflexivity).
        assert (Hcl : current_loop (s_env sv5) = Some (k5, n, true)) by (rewrite Ee5; cbn [current_loop]; rewrite Ef5; reflexivity).
        pose proof (code_at_tail _ _ _ _ Hct) as Hct1. pose proof (code_at_tail _ _ _ _ Hct1) as Hct2.
        pose proof (code_at_tail _ _ _ _ Hct2) as Hct3.
        replace (S (S (S loop_end))) with (loop_end + 3) in Hct3 by lia.
        assert (S4 : star (mkVm loop_end stk sv5 esc escs caps (rest :: its) calls)
                          (mkVm (S (S loop_end)) (VBool (n =? 0)%Z :: stk) (pop_frame s5) esc escs caps its calls)).
        { step_by Hct ltac:(rewrite Hcl). step_by Hct1 ltac:(rewrite Ee5, Ef5). rewrite Hpop. constructor. }
        unfold n in S4. rewrite lenZ_zero in S4.
        destruct items as [|it0 items'].
        -- (* did not iterate: the else body runs *)
           destruct (IHl inl (x :: b) Hels _ _ _ _ He (loop_end + 3) lc stk escs caps its calls Hct3 Hin Hf6) as [σ1 [S5 P5]].
           exists σ1. split.
           ++ eapply star_trans; [exact S0|]. eapply star_trans; [exact S4|].
              eapply star_step; [|exact S5].
              rewrite (step_at c C _ _ _ _ _ _ _ _ _ (code_at_head _ _ _ _ Hct2)). cbn [exec_instr v_stk v_st]. rewrite u_is_true_bool. cbn [bind]. unfold next. cbn [v_pc v_esc v_escs v_caps v_iters v_calls].
              replace (S (S (S loop_end))) with (loop_end + 3) by lia. reflexivity.
           ++ eapply postO_endpc; [|exact P5]. left. fold ce.
              rewrite ?app_length. cbn [length]. rewrite ?app_length. cbn [length]. rewrite ?app_length. cbn [length].
              lia.
        -- inversion He; subst sg s'. eexists; split; [|left; reflexivity].
           eapply star_trans; [exact S0|]. eapply star_trans; [exact S4|].
           eapply star_step.
           { rewrite (step_at c C _ _ _ _ _ _ _ _ _ (code_at_head _ _ _ _ Hct2)). cbn [exec_instr v_stk v_st]. rewrite u_is_true_bool. reflexivity. }
           cbn [bind goto v_pc v_st v_esc v_escs v_caps v_iters v_calls].
           eapply star_eq; [constructor|]. f_equal.
           rewrite ?app_length. cbn [length]. rewrite ?app_length. cbn [length]. rewrite ?app_length. cbn [length].
           lia.
      * (* no else *)
        cbn [app] in HT; injection HT as HT'; subst T'.
        assert (Hres : (sg, s') = (SigNormal, pop_frame s5)) by (destruct items; inversion He; reflexivity).
        inversion Hres; subst sg s'. eexists; split; [|left; reflexivity].
        eapply star_trans; [exact S0|].
        step_by Hct ltac:(rewrite Ee5, Ef5). rewrite Hpop.
        eapply star_eq; [constructor|]. f_equal.
        rewrite ?app_length. cbn [length]. rewrite ?app_length. cbn [length]. rewrite ?app_length. cbn [length].
        lia.
    + (* SSet *) cbn [compile_stmt] in Hc |- *.
      bstep He p1 E1. destruct p1 as [v s1]. inversion He; subst. eexists; split; [|left; reflexivity].
      eapply star_trans. { eapply (sim_all c C fuel esc e Hw _ _ _ E1). eapply code_at_app_l; eauto. }
      apply code_at_app_r in Hc. step_by Hc idtac. eapply star_eq; [constructor|]. f_equal. lens.
    + (* SSetBlock *) cbn [compile_stmt] in Hc |- *.
      bstep He p1 E1. destruct p1 as [[sg1 txt] s1]. bstep E1 p2 E2. destruct p2 as [sg2 s2]. inversion E1; subst. clear E1.
      pose proof (code_at_head _ _ _ _ Hc) as Hb. apply code_at_tail in Hc.
      destruct (IHl inl body Hw _ _ _ _ E2 (base + 1) (enter_scope ClCapture lc) stk escs (s_out s :: caps) its calls
                  ltac:(eapply code_at_app_l; eapply code_at_pc; [exact Hc|lia])
                  ltac:(intros Hi; apply enter_some, Hin, Hi)
                  ltac:(exact (fits_enter ClCapture lc _ _ _ Hf))) as [σ1 [S2 P2]].
      assert (S1 : star (mkVm base stk s esc escs caps its calls) σ1).
      { eapply star_step. { rewrite (step_at c C _ _ _ _ _ _ _ _ _ Hb). reflexivity. }
        vmsimp. replace (S base) with (base + 1) in * by lia. exact S2. }
      destruct P2 as [P2|O2]; [|exists σ1; split; [exact S1|right; exact O2]].
      destruct sg1.
      * cbn [post] in P2. subst σ1.
        bstep He fv Ef. inversion He; subst. eexists; split; [|left; reflexivity].
        eapply star_trans; [exact S1|].
        replace (S base) with (base + 1) in * by lia.
        apply code_at_app_r in Hc. step_by Hc idtac. apply code_at_tail in Hc.
        destruct filter as [f|]; cbn [app] in Hc |- *.
        -- step_by Hc ltac:(cbn [pop_n]; rewrite Ef). apply code_at_tail in Hc. step_by Hc idtac.
           eapply star_eq; [constructor|]. f_equal. unfold compile_stmts. lens.
        -- inversion Ef; subst. step_by Hc idtac.
           eapply star_eq; [constructor|]. f_equal. unfold compile_stmts. lens.
      * inversion He; subst. exists σ1. split; [exact S1|].
        destruct (post_enter ClCapture SigBreak lc _ _ _ _ _ _ _ _ _ (fun l pc => unwound pc (lc_pending l) stk (with_out s2 (s_out s)) esc escs caps its calls) P2 ltac:(discriminate) ltac:(reflexivity)) as [l [-> ->]].
        left. cbn [post]. eauto.
      * inversion He; subst. exists σ1. split; [exact S1|].
        destruct (post_enter ClCapture SigContinue lc _ _ _ _ _ _ _ _ _ (fun l pc => unwound pc (lc_pending l) stk (with_out s2 (s_out s)) esc escs caps its calls) P2 ltac:(discriminate) ltac:(reflexivity)) as [l [-> ->]].
        left. cbn [post]. eauto.
    + (* SWith *) cbn [compile_stmt] in Hc |- *.
      apply andb_prop in Hw as [Hb Hbody].
      bstep He s1 E1. bstep He p2 E2. destruct p2 as [sg2 s2]. inversion He; subst.
      pose proof (code_at_head _ _ _ _ Hc) as Hp. apply code_at_tail in Hc.
      replace (S base) with (base + 1) in * by lia.
      pose proof (binds_sim c C fuel esc binds Hb _ _ E1 (base + 1) stk escs caps its calls ltac:(eapply code_at_app_l; eauto)) as S1.
      apply code_at_app_r in Hc.
      pose proof E1 as R1. apply with_binds_R in R1; [|apply eval_env_proof]. destruct R1 as [_ L1]. cbn [push_frame s_env length] in L1.
      destruct (IHl inl body Hbody _ _ _ _ E2 _ (enter_scope ClFrame lc) stk escs caps its calls ltac:(eapply code_at_app_l; eauto)
                  ltac:(intros Hi; apply enter_some, Hin, Hi)
                  ltac:(rewrite L1; exact (fits_enter ClFrame lc _ _ _ Hf))) as [σ1 [S2 P2]].
      assert (S0 : star (mkVm base stk s esc escs caps its calls) σ1).
      { eapply star_step. { rewrite (step_at c C _ _ _ _ _ _ _ _ _ Hp). reflexivity. }
        vmsimp. replace (S base) with (base + 1) in * by lia.
        eapply star_trans; [exact S1|exact S2]. }
      destruct P2 as [P2|O2]; [|exists σ1; split; [exact S0|right; exact O2]].
      destruct sg.
      * cbn [post] in P2. subst σ1. eexists; split; [|left; reflexivity].
        eapply star_trans; [exact S0|].
        apply code_at_app_r in Hc.
        assert (Hne : s_env s2 <> []).
        { apply exec_list_R in E2. destruct E2 as [_ B]. intros Z. rewrite Z in B. cbn in B. lia. }
        destruct (s_env s2) as [|f0 r0] eqn:Eenv; [congruence|].
        step_by Hc ltac:(rewrite Eenv).
        eapply star_eq; [constructor|]. f_equal. unfold compile_stmts. lens.
      * exists σ1. split; [exact S0|].
        destruct (post_enter ClFrame SigBreak lc _ _ _ _ _ _ _ _ _ (fun l pc => unwound pc (lc_pending l) stk (pop_frame s2) esc escs caps its calls) P2 ltac:(discriminate) ltac:(reflexivity)) as [l [-> ->]].
        left. cbn [post]. eauto.
      * exists σ1. split; [exact S0|].
        destruct (post_enter ClFrame SigContinue lc _ _ _ _ _ _ _ _ _ (fun l pc => unwound pc (lc_pending l) stk (pop_frame s2) esc escs caps its calls) P2 ltac:(discriminate) ltac:(reflexivity)) as [l [-> ->]].
        left. cbn [post]. eauto.
    + (* SFilterBlock *) cbn [compile_stmt] in Hc |- *.
      bstep He p1 E1. destruct p1 as [[sg1 txt] s1]. bstep E1 p2 E2. destruct p2 as [sg2 s2]. inversion E1; subst. clear E1.
      pose proof (code_at_head _ _ _ _ Hc) as Hb. apply code_at_tail in Hc.
      destruct (IHl inl body Hw _ _ _ _ E2 (base + 1) (enter_scope ClCapture lc) stk escs (s_out s :: caps) its calls
                  ltac:(eapply code_at_app_l; eapply code_at_pc; [exact Hc|lia])
                  ltac:(intros Hi; apply enter_some, Hin, Hi)
                  ltac:(exact (fits_enter ClCapture lc _ _ _ Hf))) as [σ1 [S2 P2]].
      assert (S1 : star (mkVm base stk s esc escs caps its calls) σ1).
      { eapply star_step. { rewrite (step_at c C _ _ _ _ _ _ _ _ _ Hb). reflexivity. }
        vmsimp. replace (S base) with (base + 1) in * by lia. exact S2. }
      destruct P2 as [P2|O2]; [|exists σ1; split; [exact S1|right; exact O2]].
      destruct sg1.
      * cbn [post] in P2. subst σ1.
        bstep He fv Ef. inversion He; subst. eexists; split; [|left; reflexivity].
        eapply star_trans; [exact S1|].
        replace (S base) with (base + 1) in * by lia.
        apply code_at_app_r in Hc. step_by Hc idtac. apply code_at_tail in Hc.
        step_by Hc ltac:(cbn [pop_n]; rewrite Ef). apply code_at_tail in Hc.
        step_by Hc ltac:(rewrite (do_filter_str_defined _ _ _ _ _ _ Ef), andb_false_r).
        eapply star_eq; [constructor|]. f_equal. unfold compile_stmts. lens.
      * inversion He; subst. exists σ1. split; [exact S1|].
        destruct (post_enter ClCapture SigBreak lc _ _ _ _ _ _ _ _ _ (fun l pc => unwound pc (lc_pending l) stk (with_out s2 (s_out s)) esc escs caps its calls) P2 ltac:(discriminate) ltac:(reflexivity)) as [l [-> ->]].
        left. cbn [post]. eauto.
      * inversion He; subst. exists σ1. split; [exact S1|].
        destruct (post_enter ClCapture SigContinue lc _ _ _ _ _ _ _ _ _ (fun l pc => unwound pc (lc_pending l) stk (with_out s2 (s_out s)) esc escs caps its calls) P2 ltac:(discriminate) ltac:(reflexivity)) as [l [-> ->]].
        left. cbn [post]. eauto.
    + (* SAutoEscape *) cbn [compile_stmt] in Hc |- *.
      apply andb_prop in Hw as [Hv Hbody].
      bstep He p1 E1. destruct p1 as [x s1]. bstep He esc' Ee.
      change (derive_auto_escape x = Ok esc') in Ee.
      pose proof (sim_all c C fuel esc v Hv _ _ _ E1 base stk escs caps its calls ltac:(eapply code_at_app_l; eauto)) as S1.
      apply code_at_app_r in Hc. pose proof (code_at_head _ _ _ _ Hc) as Hp. apply code_at_tail in Hc.
      replace (S (base + length (compile_expr v base))) with (base + length (compile_expr v base) + 1) in * by lia.
      assert (Henv1 : s_env s1 = s_env s) by (eapply eval_env_proof; eauto).
      destruct (IHl inl body Hbody _ _ _ _ He _ (enter_scope ClAutoEscape lc) stk (esc :: escs) caps its calls ltac:(eapply code_at_app_l; eauto)
                  ltac:(intros Hi; apply enter_some, Hin, Hi)
                  ltac:(rewrite Henv1; exact (fits_enter ClAutoEscape lc _ _ _ Hf))) as [σ1 [S2 P2]].
      assert (S0 : star (mkVm base stk s esc escs caps its calls) σ1).
      { eapply star_trans; [exact S1|].
        eapply star_step. { rewrite (step_at c C _ _ _ _ _ _ _ _ _ Hp). cbn [exec_instr v_stk v_st]. rewrite Ee. reflexivity. }
        vmsimp. replace (S (base + length (compile_expr v base))) with (base + length (compile_expr v base) + 1) in * by lia.
        exact S2. }
      destruct P2 as [P2|O2]; [|exists σ1; split; [exact S0|right; exact O2]].
      destruct sg.
      * cbn [post] in P2. subst σ1. eexists; split; [|left; reflexivity].
        eapply star_trans; [exact S0|].
        apply code_at_app_r in Hc. step_by Hc idtac.
        eapply star_eq; [constructor|]. f_equal. unfold compile_stmts. lens.
      * exists σ1. split; [exact S0|].
        destruct (post_enter ClAutoEscape SigBreak lc _ _ _ _ _ _ _ _ _ (fun l pc => unwound pc (lc_pending l) stk s' esc escs caps its calls) P2 ltac:(discriminate) ltac:(reflexivity)) as [l [-> ->]].
        left. cbn [post]. eauto.
      * exists σ1. split; [exact S0|].
        destruct (post_enter ClAutoEscape SigContinue lc _ _ _ _ _ _ _ _ _ (fun l pc => unwound pc (lc_pending l) stk s' esc escs caps its calls) P2 ltac:(discriminate) ltac:(reflexivity)) as [l [-> ->]].
        left. cbn [post]. eauto.
    + (* SBreak *) cbn [compile_stmt] in Hc |- *.
      inversion He; subst. destruct lc as [l|]; [|exfalso; apply Hin; auto].
      cbn [lc_fits] in Hf.
      exists (unwound (lc_end l) (lc_pending l) stk s' esc escs caps its calls). split; [|left; cbn [post]; eauto].
      pose proof (cleanup_sim (lc_pending l) base stk s' esc escs caps its calls Hf ltac:(eapply code_at_app_l; eauto)) as S1.
      apply code_at_app_r in Hc.
      eapply star_trans; [exact S1|]. apply star_one. apply unwound_jump. eapply code_at_head; eauto.
    + (* SContinue *) cbn [compile_stmt] in Hc |- *.
      inversion He; subst. destruct lc as [l|]; [|exfalso; apply Hin; auto].
      cbn [lc_fits] in Hf.
      exists (unwound (lc_iter l) (lc_pending l) stk s' esc escs caps its calls). split; [|left; cbn [post]; eauto].
      pose proof (cleanup_sim (lc_pending l) base stk s' esc escs caps its calls Hf ltac:(eapply code_at_app_l; eauto)) as S1.
      apply code_at_app_r in Hc.
      eapply star_trans; [exact S1|]. apply star_one. apply unwound_jump. eapply code_at_head; eauto.
  - intros inl l Hw esc s sg s' He base lc stk escs caps its calls Hc Hin Hf.
    destruct l as [|t r]; cbn [exec_list] in He.
    + inversion He; subst. eexists; split; [constructor|]. left. cbn. now rewrite Nat.add_0_r.
    + cbn [forallb] in Hw. apply andb_prop in Hw as [Ht Hr].
      bstep He p1 E1. destruct p1 as [sg1 s1].
      unfold compile_stmts in Hc |- *. cbn [seq_code] in Hc |- *.
      fold (compile_stmts r (base + length (compile_stmt t base lc)) lc) in Hc |- *.
      destruct (IHs inl t Ht _ _ _ _ E1 base lc stk escs caps its calls ltac:(eapply code_at_app_l; eauto) Hin Hf) as [σ1 [S1 P1]].
      apply code_at_app_r in Hc.
      destruct P1 as [P1|O1]; [|exists σ1; split; [exact S1|right; exact O1]].
      destruct sg1.
      * cbn [post] in P1. subst σ1.
        assert (Hf1 : lc_fits lc (length (s_env s1)) (length escs) (length caps)).
        { apply exec_R_proof in E1. destruct E1 as [_ L]. rewrite L. exact Hf. }
        destruct (IHl inl r Hr _ _ _ _ He _ lc stk escs caps its calls Hc Hin Hf1) as [σ2 [S2 P2]].
        exists σ2. split; [eapply star_trans; eauto|].
        eapply postO_endpc; [|exact P2]. left. rewrite app_length. lia.
      * inversion He; subst. exists σ1. split; [exact S1|]. left. eapply post_endpc; [|exact P1]. right. discriminate.
      * inversion He; subst. exists σ1. split; [exact S1|]. left. eapply post_endpc; [|exact P1]. right. discriminate.
Qed.

End SimStmt.

(* ------------------------------------------------------------------------------------------ *)
(* Part 4: whole templates                                                                      *)
(* ------------------------------------------------------------------------------------------ *)
Lemma code_at_whole C : code_at C 0 C.
Proof. exists [], []. split; [now rewrite app_nil_r|reflexivity]. Qed.

(* a sequence of steps that ends at the end of the code is a terminating run of eval_impl's loop *)
Lemma star_run c C σ σ' : L2.Simulation.star c C σ σ' -> v_pc σ' = length C ->
  exists n, run_vm c C n σ = Ok σ'.
Proof.
  induction 1 as [σ|σ1 σ2 σ3 Hs _ IH]; intros Hend.
  - exists 1. cbn [run_vm]. rewrite Hend, Nat.leb_refl. reflexivity.
  - destruct (IH Hend) as [n Hn]. exists (S n). cbn [run_vm].
    assert (Hlt : v_pc σ1 < length C).
    { apply nth_error_Some. unfold step in Hs. destruct (nth_error C (v_pc σ1)); [discriminate|discriminate Hs]. }
    apply Nat.leb_gt in Hlt. rewrite Hlt, Hs. exact Hn.
Qed.

Lemma star_run_err c C σ σ' k : L2.Simulation.star c C σ σ' -> step c C σ' = Err k -> exists n, run_vm c C n σ = Err k.
Proof.
  induction 1 as [σ|σ1 σ2 σ3 Hs _ IH]; intros He.
  - exists 1. cbn [run_vm].
    assert (Hlt : v_pc σ < length C).
    { apply nth_error_Some. unfold step in He. destruct (nth_error C (v_pc σ)); [discriminate|discriminate He]. }
    apply Nat.leb_gt in Hlt. rewrite Hlt, He. reflexivity.
  - destruct (IH He) as [n Hn]. exists (S n). cbn [run_vm].
    assert (Hlt : v_pc σ1 < length C).
    { apply nth_error_Some. unfold step in Hs. destruct (nth_error C (v_pc σ1)); [discriminate|discriminate Hs]. }
    apply Nat.leb_gt in Hlt. rewrite Hlt, Hs. exact Hn.
Qed.

Lemma template_sim c fuel body s :
  forallb (l2_stmt false) body = true -> Interp.run c fuel body = Ok s ->
  (exists n, run_template c n (compile_template body) = Ok s) \/
  (exists σo, L2.Simulation.star c (compile_template body) (init_vm c) σo /\ overflow (compile_template body) σo).
Proof.
  intros Hw Hr. unfold Interp.run in Hr. bstep Hr p E. destruct p as [sg s1]. inversion Hr; subst.
  destruct (proj2 (stmts_sim2 c (compile_template body) fuel) false body Hw _ _ _ _ E 0 None [] [] [] [] []
              (code_at_whole _) ltac:(discriminate) I) as [σ' [S1 [P1|O1]]]; [|right; exists σ'; split; assumption].
  left. destruct sg; cbn [post] in P1; [|destruct P1 as [l [Hl _]]; discriminate|destruct P1 as [l [Hl _]]; discriminate].
  subst σ'. destruct (star_run _ _ _ _ S1 eq_refl) as [n Hn].
  exists n. unfold run_template, init_vm. rewrite Hn. reflexivity.
Qed.

(* what the overflow alternative means for the run: InvalidOperation at the counter of an accumulate loop *)
Lemma overflow_run c C σo : L2.Simulation.star c C (init_vm c) σo -> overflow C σo ->
  exists n, run_template c n C = Err E_InvalidOperation.
Proof.
  intros S O. destruct (star_run_err _ _ _ _ _ S (overflow_step c C σo O)) as [n Hn].
  exists n. unfold run_template. rewrite Hn. reflexivity.
Qed.
