(* C03, bytecode level: the levels combined; whole templates. *)
From MJ Require Import Common.Base Lang.Syntax Lang.Meta Lang.Interp.
From MJ Require Import C04.Model.
From MJ Require Import C03.Proofs.
From MJ Require Import L2.Instr.
From MJ Require Import L2.Compile.
From MJ Require Import L2.Vm.
From MJ Require Import L2.Simulation C03.L2Pos C03.L2Base C03.L2Relab C03.L2Inv C03.L2Hdl C03.L2Expr C03.L2Stmt C03.L2Wf.
Local Open Scope nat_scope.

Section Top.
Variable c : cfg.
Variable C : list instr.
Hypothesis Hcfg : cfg_ok C c.
Hypothesis Hwf : wf_code C.

Lemma sim_levels : forall fuel,
  (forall esc e, l2_expr e = true -> sim_expr c C fuel esc e) /\ sim_call c C fuel /\ sim_stmt c C fuel /\ sim_list c C fuel.
Proof.
  induction fuel as [|fuel (IHe & IHc & IHs & IHl)].
  - split; [|split; [|split]].
    + intros esc e _ s v s' He. discriminate.
    + intros esc s mc cl args kw v s' He. discriminate.
    + intros inl t _ esc s sg s' He. discriminate.
    + intros inl l _ esc s sg s' He. discriminate.
  - destruct (inv_all c C Hcfg Hwf fuel) as (EV & CV & SV & LV).
    destruct (stmt_step c C Hcfg fuel EV CV SV LV IHe IHc IHs IHl) as [Ss Sl].
    split; [|split; [|split]]; auto.
    + exact (expr_step c C Hcfg fuel EV IHe IHc).
    + exact (call_step c C Hwf fuel EV LV IHe IHl).
Qed.

Lemma code_at_whole : code_at C 0 C.
Proof. exists [], []. split; [now rewrite app_nil_r|reflexivity]. Qed.

Lemma star_run σ σ' : L2.Simulation.star c C σ σ' -> v_pc σ' = length C -> exists n, run_vm c C n σ = Ok σ'.
Proof.
  induction 1 as [σ|σ1 σ2 σ3 Hs _ IH]; intros Hend.
  - exists 1. cbn [run_vm]. rewrite Hend, Nat.leb_refl. reflexivity.
  - destruct (IH Hend) as [n Hn]. exists (S n). cbn [run_vm].
    assert (Hlt : v_pc σ1 < length C).
    { apply nth_error_Some. unfold step in Hs. destruct (nth_error C (v_pc σ1)); [discriminate|discriminate Hs]. }
    apply Nat.leb_gt in Hlt. rewrite Hlt, Hs. exact Hn.
Qed.

Lemma star_run_err σ σ' k : L2.Simulation.star c C σ σ' -> step c C σ' = Err k -> exists n, run_vm c C n σ = Err k.
Proof.
  induction 1 as [σ|σ1 σ2 σ3 Hs _ IH]; intros He.
  - exists 1. cbn [run_vm].
    assert (Hlt : v_pc σ < length C).
    { apply nth_error_Some. unfold step in He. destruct (nth_error C (v_pc σ)); [discriminate|discriminate He]. }
    apply Nat.leb_gt in Hlt. rewrite Hlt, He. reflexivity.
  - destruct (IH He) as [n Hn]. exists (S n). cbn [run_vm].
    assert (Hlt : v_pc σ1 < length C).
    { apply nth_error_Some. unfold step in Hs. destruct (nth_error C (v_pc σ1)); [discriminate|discriminate Hs]. }
    apply Nat.leb_gt in Hlt. rewrite Hlt, Hs. exact Hn.
Qed.

Lemma overflow_run σo : L2.Simulation.star c C (init_vm c) σo -> overflow C σo -> exists n, run_template c n C = Err E_InvalidOperation.
Proof.
  intros S O. destruct (star_run_err _ _ _ S (overflow_step c C σo O)) as [n Hn].
  exists n. unfold run_template. rewrite Hn. reflexivity.
Qed.

Lemma init_Inv : Inv C init_state.
Proof. split; cbn; repeat constructor. Qed.
End Top.

(* whole templates; the program is the whole code *)
Lemma template_sim c fuel body s :
  cfg_ok (compile_template body) c -> wf_code (compile_template body) ->
  forallb (l2_stmt false) body = true -> Interp.run c fuel body = Ok s ->
  (exists n, run_template c n (compile_template body) = Ok s) \/
  (exists σo, L2.Simulation.star c (compile_template body) (init_vm c) σo /\ overflow (compile_template body) σo).
Proof.
  intros Hcfg Hwf Hw Hr. unfold Interp.run in Hr. bstep Hr p E. destruct p as [sg s1]. inversion Hr; subst.
  destruct (sim_levels c _ Hcfg Hwf fuel) as (_ & _ & _ & Sl).
  destruct (Sl false body Hw _ _ _ _ E (init_Inv _) 0 None [] [] [] [] [] (code_at_whole _) ltac:(discriminate) I) as [σ' [S1 P1]].
  destruct sg; cbn [post] in P1; [|destruct P1 as [l [Hl _]]; discriminate|destruct P1 as [l [Hl _]]; discriminate].
  subst σ'. destruct (starO_inv _ _ _ _ S1) as [S2|(o & S2 & O)]; [left|right; eauto].
  destruct (star_run _ _ _ _ S2 eq_refl) as [n Hn].
  exists n. unfold run_template, init_vm. rewrite Hn. reflexivity.
Qed.

Lemma data_vok C v : data_value v = true -> vok C v.
Proof.
  revert v. fix IH 1. intros v. destruct v; cbn [data_value]; intros H; try exact I; try discriminate.
  - apply vok_list. induction l as [|x r IHr]; cbn [forallb] in H; constructor; apply andb_prop in H as [H1 H2]; auto.
  - apply vok_map. induction entries as [|[k x] r IHr]; cbn [forallb] in H; constructor.
    + apply andb_prop in H as [H1 H2]. apply andb_prop in H1 as [Hk Hx]. cbn [fst snd]. split; apply IH; assumption.
    + apply andb_prop in H as [H1 H2]. apply IHr. exact H2.
Qed.

(* the theorem for whole templates, with the two side conditions discharged: compiled code is well
   formed, a context of plain data is fine *)
Theorem template_correct c fuel body s :
  forallb (fun p => data_value (snd p)) (c_root c) = true ->
  forallb (l2_stmt false) body = true -> Interp.run c fuel body = Ok s ->
  (exists n, run_template c n (compile_template body) = Ok s) \/
  (exists σo, L2.Simulation.star c (compile_template body) (init_vm c) σo /\ overflow (compile_template body) σo).
Proof.
  intros Hd Hw Hr. eapply template_sim; eauto using wf_compile_template.
  unfold cfg_ok, kvok. apply Forall_forall. intros p Hp. apply data_vok.
  rewrite forallb_forall in Hd. apply Hd, Hp.
Qed.
