(* C03, bytecode level: the compiler model L2/Compile.v and the VM model L2/Vm.v simulate the
   reference interpreter Lang/Interp.v (forward simulation, Ok runs).
   Part 1: a folded constant is what evaluation yields, for ANY fuel (inversion form of C04's
   fold_agrees, which needs fuel >= depth).  Part 2: expressions.  Part 3: statements. *)
From MJ Require Import Common.Base Lang.Syntax Lang.Meta Lang.Interp C04.Model C04.Spec C04.Proofs C03.Proofs
  L2.Instr L2.Compile L2.Vm L2.Simulation.
Local Open Scope nat_scope.

(* ------------------------------------------------------------------------------------------ *)
(* Part 1: as_const e = Some v0 and eval .. e = Ok (v, s') imply v = v0, s' = s                 *)
(* ------------------------------------------------------------------------------------------ *)
Section FoldEval.
Variable c : cfg.
Variable esc : bool.
Let m := c_mode c.

Lemma u_is_true_ok md v b : u_is_true md v = Ok b -> b = truthy v.
Proof. destruct md, v; cbn; intros H; inversion H; reflexivity. Qed.

Definition fold_inv (fuel : nat) (e : expr) : Prop :=
  forall v0, as_const e = Some v0 ->
  forall s v s', eval c fuel esc s e = Ok (v, s') -> v = v0 /\ s' = s.

Lemma const_values_inv fuel items vs :
  const_values items = Some vs ->
  forall s ws s', map_eval (eval c fuel esc) s items = Ok (ws, s') -> ws = vs /\ s' = s.
Proof.
  revert vs. induction items as [|x r IH]; intros vs H s ws s' He.
  - inversion H. cbn in He. inversion He. auto.
  - destruct x; try discriminate. cbn [const_values] in H.
    destruct (const_values r) as [vr|] eqn:E; try discriminate. inversion H; subst.
    cbn [map_eval] in He. destruct fuel as [|fuel']; [discriminate|].
    rewrite eval_const in He. cbn [bind] in He.
    fold (map_eval (eval c (S fuel') esc)) in He.
    destruct (map_eval (eval c (S fuel') esc) s r) as [[ws1 s1]| | |] eqn:Er; try discriminate.
    cbn [bind] in He. inversion He; subst.
    destruct (IH vr eq_refl _ _ _ Er) as [-> ->]. auto.
Qed.

Lemma fold_chain_inv fuel rest :
  (forall p, In p rest -> fold_inv fuel (snd p)) ->
  forall left v0, is_undef left = false -> fold_chain as_const left rest = Some v0 ->
  forall s v s', cmp_chain m (eval c fuel esc) left s rest = Ok (v, s') -> v = v0 /\ s' = s.
Proof.
  induction rest as [|[op r] l' IH]; intros Hop left v0 Hl H s v s' He.
  - inversion H. cbn in He. inversion He. auto.
  - cbn [fold_chain] in H.
    destruct (as_const r) as [right|] eqn:Er; cbn [obind] in H; try discriminate.
    destruct (eval_compare op left right) as [res|] eqn:Ec; cbn [obind] in H; try discriminate.
    pose proof (fold_defined_proof r right Er) as Hr.
    destruct (eval_compare_do_cmp m op left right res Hl Hr Ec) as [b [-> Hd]].
    cbn [cmp_chain] in He.
    destruct (eval c fuel esc s r) as [[y s2]| | |] eqn:Ey; try discriminate. cbn [bind] in He.
    destruct (Hop (op, r) (or_introl eq_refl) right Er _ _ _ Ey) as [-> ->].
    rewrite Hd in He. cbn [bind] in He. cbn [truthy] in H.
    destruct l' as [|p2 l''].
    + inversion He; subst. destruct b; cbn in H; inversion H; auto.
    + destruct b.
      * apply (IH (fun p Hp => Hop p (or_intror Hp)) right v0 Hr H _ _ _ He).
      * inversion H; inversion He; subst; auto.
Qed.

Lemma fold_inv_all : forall fuel e, fold_inv fuel e.
Proof.
  induction fuel as [|fuel IH]; intros e v0 H s v s' He; [discriminate|].
  destruct e; unfold as_const in H; cbn [as_const_gen] in H; fold as_const in H; try discriminate.
  - (* EConst *) rewrite eval_const in He. inversion H; inversion He; subst; auto.
  - (* EList *)
    destruct (const_values items) as [vs|] eqn:E; cbn [omap] in H; try discriminate. inversion H; subst.
    cbn [eval] in He.
    destruct (map_eval (eval c fuel esc) s items) as [[ws s1]| | |] eqn:Em; try discriminate.
    cbn [bind] in He. inversion He; subst.
    destruct (const_values_inv fuel items vs E _ _ _ Em) as [-> ->]. auto.
  - (* ENeg *)
    destruct (as_const e) as [x|] eqn:E; cbn [obind] in H; try discriminate.
    cbn [eval] in He. destruct (eval c fuel esc s e) as [[x' s1]| | |] eqn:Ee; try discriminate.
    cbn [bind] in He. destruct (IH e x E _ _ _ Ee) as [-> ->].
    destruct x; cbn in H; try discriminate. inversion H; inversion He; subst; auto.
  - (* ENot *)
    destruct (as_const e) as [x|] eqn:E; cbn [omap] in H; try discriminate. inversion H; subst.
    cbn [eval] in He. destruct (eval c fuel esc s e) as [[x' s1]| | |] eqn:Ee; try discriminate.
    cbn [bind] in He. destruct (IH e x E _ _ _ Ee) as [-> ->].
    destruct (u_is_true (c_mode c) x) as [b| | |] eqn:Eb; try discriminate. cbn [bind] in He.
    apply u_is_true_ok in Eb. subst. inversion He; auto.
  - (* EBin *)
    destruct (as_const e1) as [x|] eqn:E1; try discriminate.
    destruct (as_const e2) as [y|] eqn:E2; try discriminate.
    apply ok_of_some in H.
    cbn [eval] in He. destruct (eval c fuel esc s e1) as [[x' s1]| | |] eqn:Ee1; try discriminate.
    cbn [bind] in He. destruct (IH e1 x E1 _ _ _ Ee1) as [-> ->].
    destruct (eval c fuel esc s e2) as [[y' s2]| | |] eqn:Ee2; try discriminate.
    cbn [bind] in He. destruct (IH e2 y E2 _ _ _ Ee2) as [-> ->].
    match type of He with bind ?g _ = _ => destruct g as [[]| | |]; try discriminate end.
    cbn [bind] in He. rewrite H in He. cbn [bind] in He. inversion He; auto.
  - (* ECmp *)
    cbn [eval] in He. destruct (eval c fuel esc s e) as [[x' s1]| | |] eqn:Ee; try discriminate.
    cbn [bind] in He.
    destruct rest as [|[op b] rest'].
    + destruct (as_const e) as [x|] eqn:E; cbn [obind fold_chain] in H; try discriminate.
      destruct (IH e x E _ _ _ Ee) as [-> ->]. cbn in He. inversion H; inversion He; subst; auto.
    + destruct rest' as [|p2 rest''].
      * assert (Hshape : exists x y, as_const e = Some x /\ as_const b = Some y /\
                  (match op with
                   | CNotIn => omap (fun v => VBool (negb (truthy v))) (eval_compare CIn x y)
                   | _ => eval_compare op x y end) = Some v0).
        { destruct op; destruct (as_const e) as [x|]; try discriminate;
            destruct (as_const b) as [y|]; try discriminate; exists x, y; repeat split; exact H. }
        destruct Hshape as [x [y [E1 [E2 Hv]]]].
        destruct (IH e x E1 _ _ _ Ee) as [-> ->].
        cbn [cmp_chain] in He.
        destruct (eval c fuel esc s b) as [[y' s2]| | |] eqn:Eb; try discriminate. cbn [bind] in He.
        destruct (IH b y E2 _ _ _ Eb) as [-> ->].
        pose proof (fold_defined_proof e x E1) as Hx. pose proof (fold_defined_proof b y E2) as Hy.
        assert (Hr : exists r, v0 = VBool r /\ do_cmp m op x y = Ok r).
        { destruct op; try solve [eapply eval_compare_do_cmp; eassumption].
          destruct (eval_compare CIn x y) as [w|] eqn:Ew; cbn [omap] in Hv; try discriminate.
          destruct (eval_compare_do_cmp m CIn x y w Hx Hy Ew) as [r [-> Hd']].
          inversion Hv. exists (negb r). split; [reflexivity|].
          unfold do_cmp in *. rewrite (u_not_undef_defined m y Hy), (u_not_undef_defined m x Hx) in *.
          cbn [bind] in *. destruct (contains y x); cbn [bind] in *; try discriminate. inversion Hd'. reflexivity. }
        destruct Hr as [r [-> Hd']]. fold m in He. rewrite Hd' in He. cbn [bind] in He. inversion He; auto.
      * assert (Hshape : exists x, as_const e = Some x /\ fold_chain as_const x ((op, b) :: p2 :: rest'') = Some v0).
        { destruct op; destruct (as_const e) as [x|]; try discriminate; exists x; (split; [reflexivity|exact H]). }
        destruct Hshape as [x [E1 Hc]].
        destruct (IH e x E1 _ _ _ Ee) as [-> ->].
        pose proof (fold_defined_proof e x E1) as Hx.
        eapply fold_chain_inv; [| exact Hx | exact Hc | exact He].
        intros p _. apply IH.
  - (* EAnd *)
    destruct (as_const e1) as [x|] eqn:E1; try discriminate.
    destruct (as_const e2) as [y|] eqn:E2; try discriminate. inversion H; subst.
    cbn [eval] in He. destruct (eval c fuel esc s e1) as [[x' s1]| | |] eqn:Ee1; try discriminate.
    cbn [bind] in He. destruct (IH e1 x E1 _ _ _ Ee1) as [-> ->].
    destruct (u_is_true (c_mode c) x) as [t| | |] eqn:Et; try discriminate. cbn [bind] in He.
    apply u_is_true_ok in Et. subst. unfold fold_and.
    destruct (truthy x).
    + apply (IH e2 y E2 _ _ _ He).
    + inversion He; auto.
  - (* EOr *)
    destruct (as_const e1) as [x|] eqn:E1; try discriminate.
    destruct (as_const e2) as [y|] eqn:E2; try discriminate. inversion H; subst.
    cbn [eval] in He. destruct (eval c fuel esc s e1) as [[x' s1]| | |] eqn:Ee1; try discriminate.
    cbn [bind] in He. destruct (IH e1 x E1 _ _ _ Ee1) as [-> ->].
    destruct (u_is_true (c_mode c) x) as [t| | |] eqn:Et; try discriminate. cbn [bind] in He.
    apply u_is_true_ok in Et. subst. unfold fold_or.
    destruct (truthy x).
    + inversion He; auto.
    + apply (IH e2 y E2 _ _ _ He).
Qed.
End FoldEval.

(* ------------------------------------------------------------------------------------------ *)
(* Part 2 and 3: simulation                                                                     *)
(* ------------------------------------------------------------------------------------------ *)
(* ---- code placement ---- *)

Lemma code_at_app_l C pc a b : code_at C pc (a ++ b) -> code_at C pc a.
Proof. intros (pre & post & -> & <-). exists pre, (b ++ post). now rewrite <- app_assoc. Qed.
Lemma code_at_app_r C pc a b : code_at C pc (a ++ b) -> code_at C (pc + length a) b.
Proof. intros (pre & post & -> & <-). exists (pre ++ a), post. rewrite app_length. split; auto. now rewrite <- !app_assoc. Qed.
Lemma code_at_head C pc i r : code_at C pc (i :: r) -> nth_error C pc = Some i.
Proof. intros (pre & post & -> & <-). rewrite nth_error_app2 by lia. now rewrite Nat.sub_diag. Qed.
Lemma code_at_tail C pc i r : code_at C pc (i :: r) -> code_at C (S pc) r.
Proof. intros H. change (i :: r) with ([i] ++ r) in H. apply code_at_app_r in H. cbn in H. now rewrite Nat.add_1_r in H. Qed.
Lemma code_at_pc C pc pc' code : code_at C pc code -> pc = pc' -> code_at C pc' code.
Proof. intros H <-. exact H. Qed.

Lemma pop_n_rev vs : forall stk acc, pop_n (length vs) (rev vs ++ stk) acc = Some (vs ++ acc, stk).
Proof.
  induction vs as [|v vs IH] using rev_ind; intros stk acc.
  - reflexivity.
  - rewrite rev_app_distr, app_length. cbn [rev length app]. rewrite Nat.add_1_r. cbn [pop_n].
    rewrite IH. now rewrite <- app_assoc.
Qed.

Section Sim.
Variable c : cfg.
Variable C : list instr.

Notation star := (star c C).

Lemma star_trans a b d : star a b -> star b d -> star a d.
Proof. induction 1; auto. intros. econstructor; eauto. Qed.
Lemma star_one a b : step c C a = Ok b -> star a b.
Proof. intros; econstructor; eauto; constructor. Qed.
Lemma star_eq a b b' : star a b -> b = b' -> star a b'.
Proof. intros H <-. exact H. Qed.

Lemma step_at pc stk s esc escs caps its calls i :
  nth_error C pc = Some i ->
  step c C (mkVm pc stk s esc escs caps its calls) = exec_instr c C i (mkVm pc stk s esc escs caps its calls).
Proof. intros H. unfold step. cbn [v_pc]. now rewrite H. Qed.

Definition sim_expr (fuel : nat) (esc : bool) (e : expr) : Prop :=
  forall s v s', eval c fuel esc s e = Ok (v, s') ->
  forall base stk escs caps its calls, code_at C base (compile_expr e base) ->
  star (mkVm base stk s esc escs caps its calls)
       (mkVm (base + length (compile_expr e base)) (v :: stk) s' esc escs caps its calls).

Lemma compile_expr_const e base v : as_const e = Some v -> compile_expr e base = [ILoadConst v].
Proof. intros H. destruct e; cbn [compile_expr]; rewrite H; reflexivity. Qed.

Ltac one_step H :=
  eapply star_step; [rewrite (step_at _ _ _ _ _ _ _ _ _ (code_at_head _ _ _ _ H)); cbn [exec_instr v_pc v_stk v_st v_esc v_escs v_caps v_iters v_calls next goto bind] | ].

(* a list of expressions evaluated left to right ends up on the stack, last on top *)
Lemma seq_sim fuel esc items :
  (forall e, l2_expr e = true -> sim_expr fuel esc e) ->
  forallb l2_expr items = true ->
  forall s vs s', map_eval (eval c fuel esc) s items = Ok (vs, s') ->
  forall base stk escs caps its calls, code_at C base (seq_code compile_expr items base) ->
  star (mkVm base stk s esc escs caps its calls)
       (mkVm (base + length (seq_code compile_expr items base)) (rev vs ++ stk) s' esc escs caps its calls).
Proof.
  intros IH. induction items as [|x r IHr]; intros Hw s vs s' He base stk escs caps its calls Hc.
  - cbn in He. inversion He; subst. cbn. rewrite Nat.add_0_r. constructor.
  - cbn [forallb] in Hw. apply andb_prop in Hw as [Hx Hr].
    cbn [map_eval] in He. fold (map_eval (eval c fuel esc)) in He.
    destruct (eval c fuel esc s x) as [[v s1]| | |] eqn:Ex; try discriminate. cbn [bind] in He.
    destruct (map_eval (eval c fuel esc) s1 r) as [[vr s2]| | |] eqn:Er; try discriminate. cbn [bind] in He.
    inversion He; subst. cbn [seq_code] in Hc |- *. fold (@seq_code expr compile_expr) in Hc |- *.
    eapply star_trans. { eapply (IH x Hx _ _ _ Ex). eapply code_at_app_l; eauto. }
    apply code_at_app_r in Hc.
    eapply star_eq. { eapply (IHr Hr _ _ _ Er). exact Hc. }
    f_equal. { rewrite app_length. lia. } { cbn [rev]. now rewrite <- app_assoc. }
Qed.


Lemma u_is_true_bool md b : u_is_true md (VBool b) = Ok b.
Proof. destruct md; reflexivity. Qed.

Lemma do_cmp_notin md a b : do_cmp md CNotIn a b = bind (do_cmp md CIn a b) (fun r => Ok (negb r)).
Proof.
  unfold do_cmp. destruct (u_not_undef md b); cbn [bind]; try reflexivity.
  destruct (u_not_undef md a); cbn [bind]; try reflexivity.
  destruct (contains b a); reflexivity.
Qed.

Lemma emit_compare_sim op a b r pc stk s esc escs caps its calls :
  do_cmp (c_mode c) op a b = Ok r -> code_at C pc (emit_compare op) ->
  star (mkVm pc (b :: a :: stk) s esc escs caps its calls)
       (mkVm (pc + length (emit_compare op)) (VBool r :: stk) s esc escs caps its calls).
Proof.
  intros Hd Hc.
  destruct op; cbn [emit_compare length] in *;
    try (rewrite Nat.add_1_r; apply star_one; rewrite (step_at _ _ _ _ _ _ _ _ _ (code_at_head _ _ _ _ Hc));
         cbn [exec_instr v_stk]; rewrite Hd; reflexivity).
  rewrite do_cmp_notin in Hd. destruct (do_cmp (c_mode c) CIn a b) as [r0| | |] eqn:E; try discriminate.
  cbn [bind] in Hd. inversion Hd; subst.
  eapply star_step. { rewrite (step_at _ _ _ _ _ _ _ _ _ (code_at_head _ _ _ _ Hc)). cbn [exec_instr v_stk]. rewrite E. reflexivity. }
  apply code_at_tail in Hc. cbn [v_pc].
  eapply star_step. { rewrite (step_at _ _ _ _ _ _ _ _ _ (code_at_head _ _ _ _ Hc)). cbn [exec_instr v_stk]. rewrite u_is_true_bool. reflexivity. }
  cbn [bind next v_pc v_esc v_escs v_caps v_iters v_calls]. eapply star_eq; [constructor|]. f_equal. lia.
Qed.

Lemma chain_code_length ce rest : forall pc cl cl', length (chain_code ce rest pc cl) = length (chain_code ce rest pc cl').
Proof.
  induction rest as [|[op r] l' IH]; intros pc cl cl'; [reflexivity|].
  cbn [chain_code]. destruct l' as [|p2 l'']; [reflexivity|].
  fold (chain_code ce). rewrite !app_length. cbn [length]. rewrite (IH _ cl cl'). reflexivity.
Qed.

Lemma chain_sim fuel esc rest :
  (forall e, l2_expr e = true -> sim_expr fuel esc e) ->
  forallb (fun p => l2_expr (snd p)) rest = true -> rest <> [] ->
  forall left s v s', cmp_chain (c_mode c) (eval c fuel esc) left s rest = Ok (v, s') ->
  forall pc cleanup stk escs caps its calls,
    code_at C pc (chain_code compile_expr rest pc cleanup ++ [IJump (cleanup + 2); ISwap; IDiscardTop]) ->
    cleanup = pc + length (chain_code compile_expr rest pc cleanup) + 1 ->
    star (mkVm pc (left :: stk) s esc escs caps its calls)
         (mkVm (cleanup + 2) (v :: stk) s' esc escs caps its calls).
Proof.
  intros IH. induction rest as [|[op r] l' IHr]; intros Hw Hne left s v s' He pc cleanup stk escs caps its calls Hc Hcl; [congruence|].
  cbn [forallb snd] in Hw. apply andb_prop in Hw as [Hr Hl'].
  cbn [cmp_chain] in He. fold (cmp_chain (c_mode c) (eval c fuel esc)) in He.
  destruct (eval c fuel esc s r) as [[y s2]| | |] eqn:Ey; try discriminate. cbn [bind] in He.
  destruct (do_cmp (c_mode c) op left y) as [b| | |] eqn:Ed; try discriminate. cbn [bind] in He.
  cbn [chain_code] in Hc, Hcl. fold (chain_code compile_expr) in Hc, Hcl.
  destruct l' as [|p2 l''].
  - inversion He; subst v s'. clear He.
    rewrite <- app_assoc in Hc.
    eapply star_trans. { eapply (IH r Hr _ _ _ Ey). eapply code_at_app_l; eauto. }
    apply code_at_app_r in Hc.
    eapply star_trans. { eapply emit_compare_sim; eauto. eapply code_at_app_l; eauto. }
    apply code_at_app_r in Hc.
    apply star_one. rewrite (step_at _ _ _ _ _ _ _ _ _ (code_at_head _ _ _ _ Hc)). reflexivity.
  - rewrite <- !app_assoc in Hc.
    eapply star_trans. { eapply (IH r Hr _ _ _ Ey). eapply code_at_app_l; eauto. }
    pose proof (code_at_app_r _ _ _ _ Hc) as Hc2. cbn [app] in Hc2.
    eapply star_step. { rewrite (step_at _ _ _ _ _ _ _ _ _ (code_at_head _ _ _ _ Hc2)). cbn [exec_instr v_stk]. rewrite Ed. reflexivity. }
    cbn [bind next v_pc v_stk v_st v_esc v_escs v_caps v_iters v_calls].
    apply code_at_tail in Hc2.
    pose proof (code_at_head _ _ _ _ Hc2) as Hj. apply code_at_tail in Hc2.
    rewrite !app_length in Hcl. cbn [length] in Hcl.
    destruct b.
    + eapply star_step. { rewrite (step_at _ _ _ _ _ _ _ _ _ Hj). cbn [exec_instr v_stk]. rewrite u_is_true_bool. reflexivity. }
      cbn [bind next v_pc v_stk v_st v_esc v_escs v_caps v_iters v_calls].
      replace (S (S (pc + length (compile_expr r pc)))) with (pc + length (compile_expr r pc) + 2) in * by lia.
      eapply (IHr Hl' ltac:(discriminate) _ _ _ _ He).
      * exact Hc2.
      * lia.
    + inversion He; subst v s'.
      eapply star_step. { rewrite (step_at _ _ _ _ _ _ _ _ _ Hj). cbn [exec_instr v_stk]. rewrite u_is_true_bool. reflexivity. }
      cbn [bind goto v_pc v_stk v_st v_esc v_escs v_caps v_iters v_calls].
      (* the cleanup block *)
      assert (Hk : code_at C cleanup [ISwap; IDiscardTop]).
      { pose proof (code_at_app_r _ _ _ _ Hc2) as H3. apply code_at_tail in H3. eapply code_at_pc; [exact H3|]. lia. }
      eapply star_step. { rewrite (step_at _ _ _ _ _ _ _ _ _ (code_at_head _ _ _ _ Hk)). reflexivity. }
      cbn [next v_pc v_stk v_esc v_escs v_caps v_iters v_calls v_st]. apply code_at_tail in Hk.
      eapply star_step. { rewrite (step_at _ _ _ _ _ _ _ _ _ (code_at_head _ _ _ _ Hk)). reflexivity. }
      cbn [next v_pc v_stk v_esc v_escs v_caps v_iters v_calls v_st].
      eapply star_eq; [constructor|]. f_equal. lia.
Qed.


Lemma map_eval_length {X} (ev : st -> X -> outcome (value * st)) items : forall s vs s',
  map_eval ev s items = Ok (vs, s') -> length vs = length items.
Proof.
  induction items as [|x r IH]; intros s vs s' H; cbn [map_eval] in H.
  - inversion H. reflexivity.
  - fold (map_eval ev) in H. destruct (ev s x) as [[v s1]| | |]; try discriminate. cbn [bind] in H.
    destruct (map_eval ev s1 r) as [[vr s2]| | |] eqn:E; try discriminate. cbn [bind] in H.
    inversion H; subst. cbn [length]. f_equal. eapply IH; eauto.
Qed.

Lemma pop_args x vs stk : pop_n (1 + length vs) (rev vs ++ x :: stk) [] = Some (x :: vs, stk).
Proof.
  pose proof (pop_n_rev (x :: vs) stk []) as H. cbn [length rev] in H. rewrite <- app_assoc in H. cbn [app] in H.
  rewrite app_nil_r in H. exact H.
Qed.

Ltac vmsimp := cbn [bind next goto v_pc v_stk v_st v_esc v_escs v_caps v_iters v_calls].
Ltac step_by H tac :=
  eapply star_step;
  [ rewrite (step_at _ _ _ _ _ _ _ _ _ (code_at_head _ _ _ _ H)); cbn [exec_instr v_stk v_st v_esc]; tac; reflexivity
  | vmsimp ].
Ltac finish := eapply star_eq; [constructor|]; f_equal; rewrite ?app_length; cbn [length]; lia.

Lemma sim_all : forall fuel esc e, l2_expr e = true -> sim_expr fuel esc e.
Proof.
  induction fuel as [|fuel IH]; intros esc e Hw s v s' He; [discriminate|].
  intros base stk escs caps its calls Hc.
  destruct (as_const e) as [v0|] eqn:Hf.
  { rewrite (compile_expr_const e base v0 Hf) in *.
    destruct (fold_inv_all c esc (S fuel) e v0 Hf _ _ _ He) as [-> ->].
    step_by Hc idtac. finish. }
  destruct e; cbn [compile_expr] in Hc |- *; rewrite Hf in Hc |- *; cbn [eval] in He; cbn [l2_expr] in Hw.
  - (* EConst *) unfold as_const in Hf. cbn in Hf. discriminate.
  - (* EVar *)
    destruct (lookup c s x) as [ov s1] eqn:El. inversion He; subst.
    step_by Hc ltac:(rewrite El). finish.
  - (* EList *)
    destruct (map_eval (eval c fuel esc) s items) as [[vs s1]| | |] eqn:Em; try discriminate.
    cbn [bind] in He. inversion He; subst.
    eapply star_trans. { eapply (seq_sim fuel esc items (IH esc) Hw _ _ _ Em). eapply code_at_app_l; eauto. }
    apply code_at_app_r in Hc.
    step_by Hc ltac:(rewrite <- (map_eval_length _ _ _ _ _ Em), (pop_n_rev vs stk []), app_nil_r). finish.
  - (* ENeg *)
    destruct (eval c fuel esc s e) as [[x s1]| | |] eqn:Ea; try discriminate. cbn [bind] in He.
    eapply star_trans. { eapply (IH esc e Hw _ _ _ Ea). eapply code_at_app_l; eauto. }
    apply code_at_app_r in Hc.
    destruct x; try discriminate. inversion He; subst.
    step_by Hc idtac. finish.
  - (* ENot *)
    destruct (eval c fuel esc s e) as [[x s1]| | |] eqn:Ea; try discriminate. cbn [bind] in He.
    eapply star_trans. { eapply (IH esc e Hw _ _ _ Ea). eapply code_at_app_l; eauto. }
    apply code_at_app_r in Hc.
    destruct (u_is_true (c_mode c) x) as [b| | |] eqn:Eb; try discriminate. cbn [bind] in He. inversion He; subst.
    step_by Hc ltac:(rewrite Eb). finish.
  - (* EBin *)
    apply andb_prop in Hw as [Hw1 Hw2].
    destruct (eval c fuel esc s e1) as [[x s1]| | |] eqn:Ea; try discriminate. cbn [bind] in He.
    destruct (eval c fuel esc s1 e2) as [[y s2]| | |] eqn:Eb; try discriminate. cbn [bind] in He.
    eapply star_trans. { eapply (IH esc e1 Hw1 _ _ _ Ea). eapply code_at_app_l; eauto. }
    apply code_at_app_r in Hc.
    eapply star_trans. { eapply (IH esc e2 Hw2 _ _ _ Eb). eapply code_at_app_l; eauto. }
    apply code_at_app_r in Hc.
    match type of He with bind ?g _ = _ => destruct g as [[]| | |] eqn:G; try discriminate end. cbn [bind] in He.
    destruct (do_bin op x y) as [r| | |] eqn:Ed; try discriminate. cbn [bind] in He. inversion He; subst.
    step_by Hc ltac:(rewrite G; cbn [bind]; rewrite Ed). finish.
  - (* ECmp *)
    apply andb_prop in Hw as [Hw Hw3]. apply andb_prop in Hw as [Hw1 Hw2].
    destruct (eval c fuel esc s e) as [[x s1]| | |] eqn:Ea; try discriminate. cbn [bind] in He.
    destruct rest as [|[op b] rest']; [discriminate|].
    destruct rest' as [|p2 rest''].
    + cbn [forallb snd] in Hw3. apply andb_prop in Hw3 as [Hb _].
      cbn [cmp_chain] in He.
      destruct (eval c fuel esc s1 b) as [[y s2]| | |] eqn:Eb; try discriminate. cbn [bind] in He.
      destruct (do_cmp (c_mode c) op x y) as [r| | |] eqn:Ed; try discriminate. cbn [bind] in He. inversion He; subst.
      eapply star_trans. { eapply (IH esc e Hw1 _ _ _ Ea). eapply code_at_app_l; eauto. }
      apply code_at_app_r in Hc.
      eapply star_trans. { eapply (IH esc b Hb _ _ _ Eb). eapply code_at_app_l; eauto. }
      apply code_at_app_r in Hc.
      eapply star_eq. { eapply emit_compare_sim; eauto. }
      f_equal. rewrite !app_length. lia.
    + eapply star_trans. { eapply (IH esc e Hw1 _ _ _ Ea). eapply code_at_app_l; eauto. }
      apply code_at_app_r in Hc.
      set (start := base + length (compile_expr e base)) in *.
      set (rest := (op, b) :: p2 :: rest'') in *.
      set (cleanup := start + length (chain_code compile_expr rest start 0) + 1) in *.
      eapply star_eq.
      { eapply (chain_sim fuel esc rest (IH esc) Hw3 ltac:(discriminate) _ _ _ _ He start cleanup).
        - exact Hc.
        - rewrite (chain_code_length compile_expr rest start cleanup 0). reflexivity. }
      f_equal. rewrite !app_length. cbn [length].
      rewrite (chain_code_length compile_expr rest start cleanup 0). unfold cleanup. lia.
  - (* EAnd *)
    apply andb_prop in Hw as [Hw1 Hw2].
    destruct (eval c fuel esc s e1) as [[x s1]| | |] eqn:Ea; try discriminate. cbn [bind] in He.
    destruct (u_is_true (c_mode c) x) as [t| | |] eqn:Et; try discriminate. cbn [bind] in He.
    eapply star_trans. { eapply (IH esc e1 Hw1 _ _ _ Ea). eapply code_at_app_l; eauto. }
    apply code_at_app_r in Hc. pose proof (code_at_head _ _ _ _ Hc) as Hj. apply code_at_tail in Hc.
    destruct t.
    + eapply star_step. { rewrite (step_at _ _ _ _ _ _ _ _ _ Hj). cbn [exec_instr v_stk v_st]. rewrite Et. reflexivity. }
      vmsimp.
      replace (S (base + length (compile_expr e1 base))) with (base + length (compile_expr e1 base) + 1) in * by lia.
      eapply star_eq. { eapply (IH esc e2 Hw2 _ _ _ He). exact Hc. }
      f_equal. rewrite !app_length. cbn [length]. lia.
    + inversion He; subst.
      eapply star_step. { rewrite (step_at _ _ _ _ _ _ _ _ _ Hj). cbn [exec_instr v_stk v_st]. rewrite Et. reflexivity. }
      vmsimp. finish.
  - (* EOr *)
    apply andb_prop in Hw as [Hw1 Hw2].
    destruct (eval c fuel esc s e1) as [[x s1]| | |] eqn:Ea; try discriminate. cbn [bind] in He.
    destruct (u_is_true (c_mode c) x) as [t| | |] eqn:Et; try discriminate. cbn [bind] in He.
    eapply star_trans. { eapply (IH esc e1 Hw1 _ _ _ Ea). eapply code_at_app_l; eauto. }
    apply code_at_app_r in Hc. pose proof (code_at_head _ _ _ _ Hc) as Hj. apply code_at_tail in Hc.
    destruct t.
    + inversion He; subst.
      eapply star_step. { rewrite (step_at _ _ _ _ _ _ _ _ _ Hj). cbn [exec_instr v_stk v_st]. rewrite Et. reflexivity. }
      vmsimp. finish.
    + eapply star_step. { rewrite (step_at _ _ _ _ _ _ _ _ _ Hj). cbn [exec_instr v_stk v_st]. rewrite Et. reflexivity. }
      vmsimp.
      replace (S (base + length (compile_expr e1 base))) with (base + length (compile_expr e1 base) + 1) in * by lia.
      eapply star_eq. { eapply (IH esc e2 Hw2 _ _ _ He). exact Hc. }
      f_equal. rewrite !app_length. cbn [length]. lia.
  - (* EIf *)
    apply andb_prop in Hw as [Hw Hw3]. apply andb_prop in Hw as [Hw1 Hw2].
    destruct (eval c fuel esc s e1) as [[x s1]| | |] eqn:Ea; try discriminate. cbn [bind] in He.
    destruct (u_is_true (c_mode c) x) as [t| | |] eqn:Et; try discriminate. cbn [bind] in He.
    eapply star_trans. { eapply (IH esc e1 Hw1 _ _ _ Ea). eapply code_at_app_l; eauto. }
    apply code_at_app_r in Hc. pose proof (code_at_head _ _ _ _ Hc) as Hj. apply code_at_tail in Hc.
    replace (S (base + length (compile_expr e1 base))) with (base + length (compile_expr e1 base) + 1) in * by lia.
    destruct t.
    + eapply star_step. { rewrite (step_at _ _ _ _ _ _ _ _ _ Hj). cbn [exec_instr v_stk v_st]. rewrite Et. reflexivity. }
      vmsimp.
      replace (S (base + length (compile_expr e1 base))) with (base + length (compile_expr e1 base) + 1) in * by lia.
      eapply star_trans. { eapply (IH esc e2 Hw2 _ _ _ He). eapply code_at_app_l; eauto. }
      apply code_at_app_r in Hc.
      step_by Hc idtac. finish.
    + eapply star_step. { rewrite (step_at _ _ _ _ _ _ _ _ _ Hj). cbn [exec_instr v_stk v_st]. rewrite Et. reflexivity. }
      vmsimp.
      apply code_at_app_r in Hc. apply code_at_tail in Hc.
      eapply code_at_pc in Hc; [|instantiate (1 := base + length (compile_expr e1 base) + 1 + length (compile_expr e2 (base + length (compile_expr e1 base) + 1)) + 1); lia].
      destruct f as [f|].
      * eapply star_eq. { eapply (IH esc f Hw3 _ _ _ He). exact Hc. }
        f_equal. rewrite !app_length. cbn [length]. lia.
      * inversion He; subst. step_by Hc idtac. finish.
  - (* EItem *)
    apply andb_prop in Hw as [Hw1 Hw2].
    destruct (eval c fuel esc s e1) as [[x s1]| | |] eqn:Ea; try discriminate. cbn [bind] in He.
    destruct (eval c fuel esc s1 e2) as [[k s2]| | |] eqn:Eb; try discriminate. cbn [bind] in He.
    eapply star_trans. { eapply (IH esc e1 Hw1 _ _ _ Ea). eapply code_at_app_l; eauto. }
    apply code_at_app_r in Hc.
    eapply star_trans. { eapply (IH esc e2 Hw2 _ _ _ Eb). eapply code_at_app_l; eauto. }
    apply code_at_app_r in Hc.
    assert (Hg : get_item (c_mode c) x k = Ok v /\ s' = s2).
    { unfold get_item. destruct (match x, k with VList l, VInt z => idx_list l z | _, _ => None end) as [w|].
      - inversion He; auto.
      - destruct (u_handle_undefined (c_mode c) (is_undef x)) as [w| | |]; try discriminate. inversion He; auto. }
    destruct Hg as [Hg ->].
    step_by Hc ltac:(rewrite Hg). finish.
  - (* EAttr *)
    destruct (eval c fuel esc s e) as [[x s1]| | |] eqn:Ea; try discriminate. cbn [bind] in He.
    eapply star_trans. { eapply (IH esc e Hw _ _ _ Ea). eapply code_at_app_l; eauto. }
    apply code_at_app_r in Hc.
    assert (Hg : get_attr (c_mode c) x a = Ok v /\ s' = s1).
    { unfold get_attr. destruct (match x with VLoop i n => loop_attr i n a | _ => None end) as [w|].
      - inversion He; auto.
      - destruct (u_handle_undefined (c_mode c) (is_undef x)) as [w| | |]; try discriminate. inversion He; auto. }
    destruct Hg as [Hg ->].
    step_by Hc ltac:(rewrite Hg). finish.
  - (* EFilter *)
    apply andb_prop in Hw as [Hw1 Hw2].
    destruct (eval c fuel esc s e) as [[x s1]| | |] eqn:Ea; try discriminate. cbn [bind] in He.
    destruct (map_eval (eval c fuel esc) s1 args) as [[vs s2]| | |] eqn:Em; try discriminate. cbn [bind] in He.
    destruct (do_filter (c_mode c) esc f x vs) as [r| | |] eqn:Ed; try discriminate. cbn [bind] in He. inversion He; subst.
    eapply star_trans. { eapply (IH esc e Hw1 _ _ _ Ea). eapply code_at_app_l; eauto. }
    apply code_at_app_r in Hc.
    eapply star_trans. { eapply (seq_sim fuel esc args (IH esc) Hw2 _ _ _ Em). eapply code_at_app_l; eauto. }
    apply code_at_app_r in Hc.
    step_by Hc ltac:(rewrite <- (map_eval_length _ _ _ _ _ Em), pop_args, Ed). finish.
  - (* ETest *)
    apply andb_prop in Hw as [Hw1 Hw2].
    destruct (eval c fuel esc s e) as [[x s1]| | |] eqn:Ea; try discriminate. cbn [bind] in He.
    destruct (map_eval (eval c fuel esc) s1 args) as [[vs s2]| | |] eqn:Em; try discriminate. cbn [bind] in He.
    destruct (do_test t x) as [r| | |] eqn:Ed; try discriminate. cbn [bind] in He. inversion He; subst.
    eapply star_trans. { eapply (IH esc e Hw1 _ _ _ Ea). eapply code_at_app_l; eauto. }
    apply code_at_app_r in Hc.
    eapply star_trans. { eapply (seq_sim fuel esc args (IH esc) Hw2 _ _ _ Em). eapply code_at_app_l; eauto. }
    apply code_at_app_r in Hc.
    step_by Hc ltac:(rewrite <- (map_eval_length _ _ _ _ _ Em), pop_args, Ed).
    apply code_at_tail in Hc.
    destruct negated.
    + step_by Hc ltac:(rewrite u_is_true_bool). finish.
    + finish.
  - discriminate.
Qed.


(* ---- statements without loops, loop controls, macros and call blocks ---- *)
End Sim.

Section SimStmt.
Variable c : cfg.
Variable C : list instr.
Notation star := (L2.Simulation.star c C).

Ltac vmsimp := cbn [bind next goto v_pc v_stk v_st v_esc v_escs v_caps v_iters v_calls].
Ltac step_by H tac :=
  eapply star_step;
  [ rewrite (step_at c C _ _ _ _ _ _ _ _ _ (code_at_head _ _ _ _ H)); cbn [exec_instr v_stk v_st v_esc v_escs v_caps]; tac; reflexivity
  | vmsimp ].
Ltac finish := eapply star_eq; [constructor|]; f_equal; rewrite ?app_length; cbn [length]; lia.

Definition sim_list (fuel : nat) (l : list stmt) : Prop :=
  forall esc s sg s', exec_list c fuel esc s l = Ok (sg, s') ->
  forall base lc stk escs caps its calls, code_at C base (compile_stmts l base lc) ->
  sg = SigNormal /\
  star (mkVm base stk s esc escs caps its calls)
       (mkVm (base + length (compile_stmts l base lc)) stk s' esc escs caps its calls).

Definition sim_stmt (fuel : nat) (t : stmt) : Prop :=
  forall esc s sg s', exec c fuel esc s t = Ok (sg, s') ->
  forall base lc stk escs caps its calls, code_at C base (compile_stmt t base lc) ->
  sg = SigNormal /\
  star (mkVm base stk s esc escs caps its calls)
       (mkVm (base + length (compile_stmt t base lc)) stk s' esc escs caps its calls).

Lemma exec_list_nil fuel esc s r : exec_list c fuel esc s [] = Ok r -> r = (SigNormal, s).
Proof. destruct fuel; cbn; intros H; inversion H; reflexivity. Qed.

Lemma if_sim fuel esc els lc :
  (forall l, forallb l2_stmt l = true -> sim_list fuel l) ->
  match els with Some b => forallb l2_stmt b | None => true end = true ->
  forall arms, forallb (fun p => l2_expr (fst p) && forallb l2_stmt (snd p)) arms = true ->
  forall s sg s', if_arms (c_mode c) (eval c fuel esc) (exec_list c fuel esc) els s arms = Ok (sg, s') ->
  forall base stk escs caps its calls,
    code_at C base (if_code (fun b pc => compile_stmts b pc lc) els arms base) ->
    sg = SigNormal /\
    star (mkVm base stk s esc escs caps its calls)
         (mkVm (base + length (if_code (fun b pc => compile_stmts b pc lc) els arms base)) stk s' esc escs caps its calls).
Proof.
  intros IHl Hels. induction arms as [|[cnd body] r IHr]; intros Hw s sg s' He base stk escs caps its calls Hc.
  - cbn [if_arms if_code] in *. destruct els as [b|].
    + apply (IHl b Hels _ _ _ _ He _ _ _ _ _ _ _ Hc).
    + inversion He; subst. split; [reflexivity|]. cbn [length]. rewrite Nat.add_0_r. constructor.
  - cbn [forallb fst snd] in Hw. apply andb_prop in Hw as [Hw Hr]. apply andb_prop in Hw as [Hcnd Hbody].
    cbn [if_arms] in He. fold (if_arms (c_mode c) (eval c fuel esc) (exec_list c fuel esc) els) in He.
    bstep He p1 E1. destruct p1 as [v s1]. bstep He t Et.
    cbn [if_code] in Hc |- *. fold (if_code (fun b pc => compile_stmts b pc lc) els) in Hc |- *.
    set (cc := compile_expr cnd base) in *.
    set (ct := compile_stmts body (base + length cc + 1) lc) in *.
    assert (Hcond : forall X, code_at C base (cc ++ X) ->
              star (mkVm base stk s esc escs caps its calls) (mkVm (base + length cc) (v :: stk) s1 esc escs caps its calls)).
    { intros X HX. eapply (sim_all c C fuel esc cnd Hcnd _ _ _ E1). eapply code_at_app_l; eauto. }
    destruct r as [|a2 r'].
    + destruct (nonempty_body els) as [eb|] eqn:Ene.
      * (* else branch *)
        pose proof (Hcond _ Hc) as S1. apply code_at_app_r in Hc.
        pose proof (code_at_head _ _ _ _ Hc) as Hj. apply code_at_tail in Hc.
        replace (S (base + length cc)) with (base + length cc + 1) in * by lia.
        destruct t.
        -- destruct (IHl body Hbody _ _ _ _ He (base + length cc + 1) lc stk escs caps its calls ltac:(eapply code_at_app_l; eauto)) as [-> S2].
           split; [reflexivity|].
           eapply star_trans; [exact S1|].
           eapply star_step. { rewrite (step_at c C _ _ _ _ _ _ _ _ _ Hj). cbn [exec_instr v_stk v_st]. rewrite Et. reflexivity. }
           vmsimp. replace (S (base + length cc)) with (base + length cc + 1) in * by lia.
           eapply star_trans; [exact S2|]. fold ct.
           apply code_at_app_r in Hc. step_by Hc idtac. finish.
        -- apply code_at_app_r in Hc. apply code_at_tail in Hc. fold ct in Hc.
           eapply code_at_pc in Hc; [|instantiate (1 := base + length cc + 1 + length ct + 1); lia].
           destruct (IHr Hr _ _ _ He _ stk escs caps its calls Hc) as [-> S2].
           split; [reflexivity|].
           eapply star_trans; [exact S1|].
           eapply star_step. { rewrite (step_at c C _ _ _ _ _ _ _ _ _ Hj). cbn [exec_instr v_stk v_st]. rewrite Et. reflexivity. }
           vmsimp. eapply star_eq; [exact S2|]. f_equal. rewrite !app_length. cbn [length]. lia.
      * (* no else *)
        pose proof (Hcond _ Hc) as S1. apply code_at_app_r in Hc.
        pose proof (code_at_head _ _ _ _ Hc) as Hj. apply code_at_tail in Hc.
        replace (S (base + length cc)) with (base + length cc + 1) in * by lia.
        destruct t.
        -- destruct (IHl body Hbody _ _ _ _ He (base + length cc + 1) lc stk escs caps its calls Hc) as [-> S2].
           split; [reflexivity|].
           eapply star_trans; [exact S1|].
           eapply star_step. { rewrite (step_at c C _ _ _ _ _ _ _ _ _ Hj). cbn [exec_instr v_stk v_st]. rewrite Et. reflexivity. }
           vmsimp. replace (S (base + length cc)) with (base + length cc + 1) in * by lia.
           eapply star_eq; [exact S2|]. f_equal. fold ct. rewrite !app_length. cbn [length]. lia.
        -- cbn [if_arms] in He.
           assert (Hr0 : (sg, s') = (SigNormal, s1)).
           { destruct els as [[|x b]|]; try discriminate Ene.
             - eapply exec_list_nil; eauto.
             - inversion He; reflexivity. }
           inversion Hr0; subst. split; [reflexivity|].
           eapply star_trans; [exact S1|].
           eapply star_step. { rewrite (step_at c C _ _ _ _ _ _ _ _ _ Hj). cbn [exec_instr v_stk v_st]. rewrite Et. reflexivity. }
           vmsimp. fold ct. finish.
    + (* elif *)
      pose proof (Hcond _ Hc) as S1. apply code_at_app_r in Hc.
      pose proof (code_at_head _ _ _ _ Hc) as Hj. apply code_at_tail in Hc.
      replace (S (base + length cc)) with (base + length cc + 1) in * by lia.
      destruct t.
      -- destruct (IHl body Hbody _ _ _ _ He (base + length cc + 1) lc stk escs caps its calls ltac:(eapply code_at_app_l; eauto)) as [-> S2].
         split; [reflexivity|].
         eapply star_trans; [exact S1|].
         eapply star_step. { rewrite (step_at c C _ _ _ _ _ _ _ _ _ Hj). cbn [exec_instr v_stk v_st]. rewrite Et. reflexivity. }
         vmsimp. replace (S (base + length cc)) with (base + length cc + 1) in * by lia.
         eapply star_trans; [exact S2|]. fold ct.
         apply code_at_app_r in Hc. step_by Hc idtac. finish.
      -- apply code_at_app_r in Hc. apply code_at_tail in Hc. fold ct in Hc.
         eapply code_at_pc in Hc; [|instantiate (1 := base + length cc + 1 + length ct + 1); lia].
         destruct (IHr Hr _ _ _ He _ stk escs caps its calls Hc) as [-> S2].
         split; [reflexivity|].
         eapply star_trans; [exact S1|].
         eapply star_step. { rewrite (step_at c C _ _ _ _ _ _ _ _ _ Hj). cbn [exec_instr v_stk v_st]. rewrite Et. reflexivity. }
         vmsimp. eapply star_eq; [exact S2|]. f_equal. rewrite !app_length. cbn [length]. lia.
Qed.


Lemma binds_sim fuel esc binds :
  forallb (fun p => l2_expr (snd p)) binds = true ->
  forall s s', with_binds (eval c fuel esc) s binds = Ok s' ->
  forall base stk escs caps its calls, code_at C base (binds_code binds base) ->
  star (mkVm base stk s esc escs caps its calls)
       (mkVm (base + length (binds_code binds base)) stk s' esc escs caps its calls).
Proof.
  induction binds as [|[x e] r IH]; intros Hw s s' He base stk escs caps its calls Hc.
  - cbn in He. inversion He; subst. cbn. rewrite Nat.add_0_r. constructor.
  - cbn [forallb snd] in Hw. apply andb_prop in Hw as [Hx Hr].
    cbn [with_binds] in He. fold (with_binds (eval c fuel esc)) in He.
    bstep He p1 E1. destruct p1 as [v s1].
    cbn [binds_code] in Hc |- *. fold binds_code in Hc |- *.
    eapply star_trans. { eapply (sim_all c C fuel esc e Hx _ _ _ E1). eapply code_at_app_l; eauto. }
    apply code_at_app_r in Hc.
    step_by Hc idtac. apply code_at_tail in Hc.
    replace (S (base + length (compile_expr e base))) with (base + length (compile_expr e base) + 1) in * by lia.
    eapply star_eq. { eapply (IH Hr _ _ He). exact Hc. }
    f_equal. rewrite app_length. cbn [length]. lia.
Qed.

Lemma do_filter_str_defined md esc f b t v : do_filter md esc f (VStr b t) [] = Ok v -> is_strict_undef v = false.
Proof.
  unfold do_filter.
  repeat match goal with |- context [if ?x then _ else _] => destruct x end; destruct md; cbn; intros H; inversion H; try reflexivity.
Qed.

Lemma stmts_sim : forall fuel,
  (forall t, l2_stmt t = true -> sim_stmt fuel t) /\ (forall l, forallb l2_stmt l = true -> sim_list fuel l).
Proof.
  induction fuel as [|fuel [IHs IHl]].
  { split; intros x _ esc s sg s' He; discriminate. }
  split.
  - intros t Hw esc s sg s' He base lc stk escs caps its calls Hc.
    destruct t; cbn [l2_stmt] in Hw; try discriminate; cbn [exec] in He; cbn [compile_stmt] in Hc |- *.
    + (* SRaw *) inversion He; subst. split; [reflexivity|]. step_by Hc idtac. finish.
    + (* SEmit *)
      bstep He p1 E1. destruct p1 as [v s1].
      destruct (u_strictish (c_mode c) && is_strict_undef v) eqn:Eu; try discriminate. inversion He; subst.
      split; [reflexivity|].
      eapply star_trans. { eapply (sim_all c C fuel esc e Hw _ _ _ E1). eapply code_at_app_l; eauto. }
      apply code_at_app_r in Hc. step_by Hc ltac:(rewrite Eu). finish.
    + (* SIf *)
      apply andb_prop in Hw as [Harms Hels].
      eapply (if_sim fuel esc els lc IHl Hels arms Harms _ _ _ He). exact Hc.
    + (* SSet *)
      bstep He p1 E1. destruct p1 as [v s1]. inversion He; subst. split; [reflexivity|].
      eapply star_trans. { eapply (sim_all c C fuel esc e Hw _ _ _ E1). eapply code_at_app_l; eauto. }
      apply code_at_app_r in Hc. step_by Hc idtac. finish.
    + (* SSetBlock *)
      bstep He p1 E1. destruct p1 as [[sg1 txt] s1]. bstep E1 p2 E2. destruct p2 as [sg2 s2]. inversion E1; subst. clear E1.
      pose proof (code_at_head _ _ _ _ Hc) as Hb. apply code_at_tail in Hc.
      destruct (IHl body Hw _ _ _ _ E2 (base + 1) (enter_scope ClCapture lc) stk escs (s_out s :: caps) its calls
                  ltac:(eapply code_at_app_l; eapply code_at_pc; [exact Hc|lia])) as [-> S2].
      bstep He fv Ef. inversion He; subst. split; [reflexivity|].
      eapply star_step. { rewrite (step_at c C _ _ _ _ _ _ _ _ _ Hb). reflexivity. }
      vmsimp. replace (S base) with (base + 1) in * by lia.
      eapply star_trans; [exact S2|].
      apply code_at_app_r in Hc. step_by Hc idtac. apply code_at_tail in Hc.
      destruct filter as [f|]; cbn [app] in Hc |- *.
      * step_by Hc ltac:(cbn [pop_n]; rewrite Ef). apply code_at_tail in Hc. step_by Hc idtac.
        eapply star_eq; [constructor|]. f_equal. unfold compile_stmts. cbn [length app]. rewrite ?app_length. cbn [length app]. rewrite ?app_length. cbn [length]. lia.
      * inversion Ef; subst. step_by Hc idtac.
        eapply star_eq; [constructor|]. f_equal. unfold compile_stmts. cbn [length app]. rewrite ?app_length. cbn [length app]. rewrite ?app_length. cbn [length]. lia.
    + (* SWith *)
      apply andb_prop in Hw as [Hb Hbody].
      bstep He s1 E1. bstep He p2 E2. destruct p2 as [sg2 s2]. inversion He; subst.
      pose proof (code_at_head _ _ _ _ Hc) as Hp. apply code_at_tail in Hc.
      replace (S base) with (base + 1) in * by lia.
      pose proof (binds_sim fuel esc binds Hb _ _ E1 (base + 1) stk escs caps its calls ltac:(eapply code_at_app_l; eauto)) as S1.
      apply code_at_app_r in Hc.
      destruct (IHl body Hbody _ _ _ _ E2 _ (enter_scope ClFrame lc) stk escs caps its calls ltac:(eapply code_at_app_l; eauto)) as [-> S2].
      split; [reflexivity|].
      eapply star_step. { rewrite (step_at c C _ _ _ _ _ _ _ _ _ Hp). reflexivity. }
      vmsimp. replace (S base) with (base + 1) in * by lia.
      eapply star_trans; [exact S1|]. eapply star_trans; [exact S2|].
      apply code_at_app_r in Hc.
      assert (Hne : s_env s2 <> []).
      { apply with_binds_R in E1; [|apply eval_env_proof]. apply exec_list_R in E2.
        destruct E1 as [_ A], E2 as [_ B]. cbn [push_frame s_env length] in A.
        intros Z. rewrite Z in B. cbn in B. lia. }
      destruct (s_env s2) as [|f0 r0] eqn:Eenv; [congruence|].
      step_by Hc ltac:(rewrite Eenv).
      eapply star_eq; [constructor|]. f_equal. unfold compile_stmts. cbn [length app]. rewrite ?app_length. cbn [length app]. rewrite ?app_length. cbn [length]. lia.
    + (* SFilterBlock *)
      bstep He p1 E1. destruct p1 as [[sg1 txt] s1]. bstep E1 p2 E2. destruct p2 as [sg2 s2]. inversion E1; subst. clear E1.
      pose proof (code_at_head _ _ _ _ Hc) as Hb. apply code_at_tail in Hc.
      destruct (IHl body Hw _ _ _ _ E2 (base + 1) (enter_scope ClCapture lc) stk escs (s_out s :: caps) its calls
                  ltac:(eapply code_at_app_l; eapply code_at_pc; [exact Hc|lia])) as [-> S2].
      bstep He fv Ef. inversion He; subst. split; [reflexivity|].
      eapply star_step. { rewrite (step_at c C _ _ _ _ _ _ _ _ _ Hb). reflexivity. }
      vmsimp. replace (S base) with (base + 1) in * by lia.
      eapply star_trans; [exact S2|].
      apply code_at_app_r in Hc. step_by Hc idtac. apply code_at_tail in Hc.
      step_by Hc ltac:(cbn [pop_n]; rewrite Ef). apply code_at_tail in Hc.
      step_by Hc ltac:(rewrite (do_filter_str_defined _ _ _ _ _ _ Ef), andb_false_r).
      eapply star_eq; [constructor|]. f_equal. unfold compile_stmts. cbn [length app]. rewrite ?app_length. cbn [length app]. rewrite ?app_length. cbn [length]. lia.
    + (* SAutoEscape *)
      apply andb_prop in Hw as [Hv Hbody].
      bstep He p1 E1. destruct p1 as [x s1]. bstep He esc' Ee.
      change (derive_auto_escape x = Ok esc') in Ee.
      pose proof (sim_all c C fuel esc v Hv _ _ _ E1 base stk escs caps its calls ltac:(eapply code_at_app_l; eauto)) as S1.
      apply code_at_app_r in Hc. pose proof (code_at_head _ _ _ _ Hc) as Hp. apply code_at_tail in Hc.
      replace (S (base + length (compile_expr v base))) with (base + length (compile_expr v base) + 1) in * by lia.
      destruct (IHl body Hbody _ _ _ _ He _ (enter_scope ClAutoEscape lc) stk (esc :: escs) caps its calls ltac:(eapply code_at_app_l; eauto)) as [-> S2].
      split; [reflexivity|].
      eapply star_trans; [exact S1|].
      eapply star_step. { rewrite (step_at c C _ _ _ _ _ _ _ _ _ Hp). cbn [exec_instr v_stk v_st]. rewrite Ee. reflexivity. }
      vmsimp. replace (S (base + length (compile_expr v base))) with (base + length (compile_expr v base) + 1) in * by lia.
      eapply star_trans; [exact S2|].
      apply code_at_app_r in Hc. step_by Hc idtac.
      eapply star_eq; [constructor|]. f_equal. unfold compile_stmts. cbn [length app]. rewrite ?app_length. cbn [length app]. rewrite ?app_length. cbn [length]. lia.
  - intros l Hw esc s sg s' He base lc stk escs caps its calls Hc.
    destruct l as [|t r]; cbn [exec_list] in He.
    + inversion He; subst. split; [reflexivity|]. cbn. rewrite Nat.add_0_r. constructor.
    + cbn [forallb] in Hw. apply andb_prop in Hw as [Ht Hr].
      bstep He p1 E1. destruct p1 as [sg1 s1].
      unfold compile_stmts in Hc |- *. cbn [seq_code] in Hc |- *.
      fold (compile_stmts r (base + length (compile_stmt t base lc)) lc) in Hc |- *.
      destruct (IHs t Ht _ _ _ _ E1 base lc stk escs caps its calls ltac:(eapply code_at_app_l; eauto)) as [-> S1].
      apply code_at_app_r in Hc.
      destruct (IHl r Hr _ _ _ _ He _ lc stk escs caps its calls Hc) as [-> S2].
      split; [reflexivity|].
      eapply star_trans; [exact S1|]. eapply star_eq; [exact S2|]. f_equal. rewrite app_length. lia.
Qed.

End SimStmt.

(* ------------------------------------------------------------------------------------------ *)
(* Part 4: whole templates                                                                      *)
(* ------------------------------------------------------------------------------------------ *)
Lemma code_at_whole C : code_at C 0 C.
Proof. exists [], []. split; [now rewrite app_nil_r|reflexivity]. Qed.

(* a sequence of steps that ends at the end of the code is a terminating run of eval_impl's loop *)
Lemma star_run c C σ σ' : L2.Simulation.star c C σ σ' -> v_pc σ' = length C ->
  exists n, run_vm c C n σ = Ok σ'.
Proof.
  induction 1 as [σ|σ1 σ2 σ3 Hs _ IH]; intros Hend.
  - exists 1. cbn [run_vm]. rewrite Hend, Nat.leb_refl. reflexivity.
  - destruct (IH Hend) as [n Hn]. exists (S n). cbn [run_vm].
    assert (Hlt : v_pc σ1 < length C).
    { apply nth_error_Some. unfold step in Hs. destruct (nth_error C (v_pc σ1)); [discriminate|discriminate Hs]. }
    apply Nat.leb_gt in Hlt. rewrite Hlt, Hs. exact Hn.
Qed.

Lemma template_sim c fuel body s :
  forallb l2_stmt body = true -> Interp.run c fuel body = Ok s ->
  exists n, run_template c n (compile_template body) = Ok s.
Proof.
  intros Hw Hr. unfold Interp.run in Hr. bstep Hr p E. destruct p as [sg s1]. inversion Hr; subst.
  destruct (proj2 (stmts_sim c (compile_template body) fuel) body Hw _ _ _ _ E 0 None [] [] [] [] []
              (code_at_whole _)) as [_ S1].
  destruct (star_run _ _ _ _ S1 eq_refl) as [n Hn].
  exists n. unfold run_template, init_vm. rewrite Hn. reflexivity.
Qed.
