(* C03, bytecode level: evaluation does not depend on the hidden loop counters of a frame that does not
   expose `loop` (the accumulate loop of a filtered for: the interpreter opens a scope per item, the VM
   keeps one loop frame for all items). *)
From MJ Require Import Common.Base Lang.Syntax Lang.Meta Lang.Interp.
From MJ Require Import C03.Proofs.
From MJ Require Import L2.Instr.
From MJ Require Import L2.Compile.
From MJ Require Import L2.Vm.
From MJ Require Import L2.Simulation.
Local Open Scope nat_scope.

(* the innermost frame with other loop bookkeeping *)
Definition relab (L : option (Z * Z * bool)) (s : st) : st :=
  match s_env s with
  | f :: e => with_env s (mkFrame (f_locals f) L (f_closure f) (f_closure_ctx f) (f_base f) :: e)
  | [] => s
  end.

(* bookkeeping that does not expose `loop` *)
Definition hidden (L : option (Z * Z * bool)) : bool :=
  match L with Some (_, _, true) => false | _ => true end.

Definition top_hidden (s : st) : Prop :=
  match s_env s with f :: _ => hidden (f_loop f) = true | [] => True end.

Lemma top_hidden_env a b : s_env a = s_env b -> top_hidden a -> top_hidden b.
Proof. unfold top_hidden. intros ->. auto. Qed.

Lemma relab_env L s : s_env (relab L s) = match s_env s with
  | f :: e => mkFrame (f_locals f) L (f_closure f) (f_closure_ctx f) (f_base f) :: e | [] => [] end.
Proof. unfold relab. destruct (s_env s) eqn:E; cbn [with_env s_env]; auto. Qed.

Lemma relab_fields L s : s_clos (relab L s) = s_clos s /\ s_out (relab L s) = s_out s /\ s_asks (relab L s) = s_asks s.
Proof. unfold relab. destruct (s_env s); auto. Qed.

Section Relab.
Variable c : cfg.
Variable L : option (Z * Z * bool).
Hypothesis HL : hidden L = true.

Lemma load_relab clos f e x : hidden (f_loop f) = true ->
  load c clos (mkFrame (f_locals f) L (f_closure f) (f_closure_ctx f) (f_base f) :: e) x = load c clos (f :: e) x.
Proof.
  intros Hf. cbn [load f_locals f_loop f_closure_ctx f_base].
  destruct (assoc x (f_locals f)); [reflexivity|].
  assert (H1 : match L with Some (i, n, true) => if (x =? N_loop)%Z then Some (VLoop i n) else None | _ => None end = None).
  { destruct L as [[[i n] []]|]; try reflexivity. discriminate HL. }
  assert (H2 : match f_loop f with Some (i, n, true) => if (x =? N_loop)%Z then Some (VLoop i n) else None | _ => None end = None).
  { destruct (f_loop f) as [[[i n] []]|]; try reflexivity. discriminate Hf. }
  rewrite H1, H2. reflexivity.
Qed.

Lemma lookup_relab s x v s1 : top_hidden s -> lookup c s x = (v, s1) -> lookup c (relab L s) x = (v, relab L s1).
Proof.
  unfold lookup, top_hidden, relab. intros Hh. destruct (s_env s) as [|f e] eqn:E.
  - rewrite E. destruct (load c (s_clos s) [] x) as [w a]. intros H; inversion H; subst.
    destruct a; cbn [s_env]; rewrite ?E; reflexivity.
  - cbn [with_env s_env s_clos s_out s_asks]. rewrite (load_relab _ f e x Hh).
    destruct (load c (s_clos s) (f :: e) x) as [w a]. intros H; inversion H; subst.
    destruct a; cbn [s_env s_clos s_out s_asks]; rewrite ?E; reflexivity.
Qed.

Section Comb.
Variable ev : st -> expr -> outcome (value * st).
Variable P : expr -> Prop.
Hypothesis Hev : forall e, P e -> forall s v s', top_hidden s -> ev s e = Ok (v, s') ->
  ev (relab L s) e = Ok (v, relab L s') /\ s_env s' = s_env s.

Lemma map_eval_relab items : Forall P items -> forall s vs s', top_hidden s ->
  map_eval ev s items = Ok (vs, s') -> map_eval ev (relab L s) items = Ok (vs, relab L s') /\ s_env s' = s_env s.
Proof.
  induction 1 as [|x r Hx Hr IH]; intros s vs s' Hh He; cbn [map_eval] in *.
  - inversion He; auto.
  - fold (map_eval ev) in *. bstep He p1 E1. destruct p1 as [v s1]. bstep He p2 E2. destruct p2 as [vr s2]. inversion He; subst.
    destruct (Hev x Hx _ _ _ Hh E1) as [R1 V1]. rewrite R1. cbn [bind].
    destruct (IH _ _ _ (top_hidden_env _ _ (eq_sym V1) Hh) E2) as [R2 V2]. rewrite R2. cbn [bind].
    split; [reflexivity|congruence].
Qed.

Lemma map_eval_pairs_relab pairs : Forall (fun p => P (fst p) /\ P (snd p)) pairs -> forall s kvs s', top_hidden s ->
  map_eval_pairs ev s pairs = Ok (kvs, s') -> map_eval_pairs ev (relab L s) pairs = Ok (kvs, relab L s') /\ s_env s' = s_env s.
Proof.
  induction 1 as [|[k x] r [Hk Hx] Hr IH]; intros s vs s' Hh He; cbn [map_eval_pairs] in *.
  - inversion He; auto.
  - fold (map_eval_pairs ev) in *. cbn [fst snd] in Hk, Hx.
    bstep He p1 E1. destruct p1 as [kv s1]. bstep He p2 E2. destruct p2 as [xv s2]. bstep He p3 E3. destruct p3 as [vr s3].
    inversion He; subst.
    destruct (Hev k Hk _ _ _ Hh E1) as [R1 V1]. rewrite R1. cbn [bind].
    assert (Hh1 : top_hidden s1) by exact (top_hidden_env _ _ (eq_sym V1) Hh).
    destruct (Hev x Hx _ _ _ Hh1 E2) as [R2 V2]. rewrite R2. cbn [bind].
    assert (Hh2 : top_hidden s2) by exact (top_hidden_env _ _ (eq_sym V2) Hh1).
    destruct (IH _ _ _ Hh2 E3) as [R3 V3]. rewrite R3. cbn [bind].
    split; [reflexivity|congruence].
Qed.

Lemma cmp_chain_relab m rest : Forall (fun p => P (snd p)) rest -> forall left s v s', top_hidden s ->
  cmp_chain m ev left s rest = Ok (v, s') -> cmp_chain m ev left (relab L s) rest = Ok (v, relab L s') /\ s_env s' = s_env s.
Proof.
  induction 1 as [|[op r] l' Hr Hl IH]; intros left s v s' Hh He; cbn [cmp_chain] in *.
  - inversion He; auto.
  - fold (cmp_chain m ev) in *. cbn [snd] in Hr.
    bstep He p1 E1. destruct p1 as [y s2]. bstep He b Eb.
    destruct (Hev r Hr _ _ _ Hh E1) as [R1 V1]. rewrite R1. cbn [bind]. rewrite Eb. cbn [bind].
    destruct l' as [|p2 l''].
    + inversion He; subst. auto.
    + destruct b.
      * destruct (IH _ _ _ _ (top_hidden_env _ _ (eq_sym V1) Hh) He) as [R2 V2]. split; [exact R2|congruence].
      * inversion He; subst. auto.
Qed.
Lemma map_eval_kw_relab kw : Forall (fun p => P (snd p)) kw -> forall s kvs s', top_hidden s ->
  map_eval_kw ev s kw = Ok (kvs, s') -> map_eval_kw ev (relab L s) kw = Ok (kvs, relab L s') /\ s_env s' = s_env s.
Proof.
  induction 1 as [|[k x] r Hx Hr IH]; intros s vs s' Hh He; cbn [map_eval_kw] in *.
  - inversion He; auto.
  - fold (map_eval_kw ev) in *. cbn [snd] in Hx. bstep He p1 E1. destruct p1 as [v s1]. bstep He p2 E2. destruct p2 as [vr s2]. inversion He; subst.
    destruct (Hev x Hx _ _ _ Hh E1) as [R1 V1]. rewrite R1. cbn [bind].
    destruct (IH _ _ _ (top_hidden_env _ _ (eq_sym V1) Hh) E2) as [R2 V2]. rewrite R2. cbn [bind].
    split; [reflexivity|congruence].
Qed.
End Comb.

Lemma relab_mk s a b d : relab L (mkSt (s_env s) a b d) = mkSt (s_env (relab L s)) a b d.
Proof. unfold relab. cbn [s_env]. destruct (s_env s) eqn:E; cbn [with_env s_env]; rewrite ?E; reflexivity. Qed.

Lemma call_macro_relab fuel esc s mc cl vs kvs v s' :
  call_macro c fuel esc s mc cl vs kvs = Ok (v, s') ->
  call_macro c fuel esc (relab L s) mc cl vs kvs = Ok (v, relab L s').
Proof.
  destruct fuel as [|fuel]; [discriminate|]. cbn [call_macro].
  destruct (relab_fields L s) as (R1 & R2 & R3). rewrite R1, R2, R3.
  destruct (Nat.ltb (length (m_params mc)) (length vs)); [discriminate|].
  intros H. bstep H bound Eb. rewrite Eb. cbn [bind].
  match type of H with (if ?b then _ else _) = _ => destruct b; [discriminate|] end.
  bstep H s1 E1. rewrite E1. cbn [bind]. bstep H p2 E2. destruct p2 as [sg s2]. rewrite E2. cbn [bind].
  inversion H; subst. f_equal. f_equal. symmetry. apply relab_mk.
Qed.

Lemma forallb_Forall {X} (p : X -> bool) l : forallb p l = true -> Forall (fun x => p x = true) l.
Proof. induction l; cbn; intros H; constructor; apply andb_prop in H as [? ?]; auto. Qed.

Lemma eval_relab : forall fuel esc e, l2_expr e = true -> forall s v s', top_hidden s ->
  eval c fuel esc s e = Ok (v, s') -> eval c fuel esc (relab L s) e = Ok (v, relab L s') /\ s_env s' = s_env s.
Proof.
  induction fuel as [|fuel IH]; intros esc e Hw s v s' Hh He; [discriminate|].
  assert (Henv : s_env s' = s_env s) by (eapply eval_env_proof; eauto).
  split; [|exact Henv].
  assert (IH' : forall e0, l2_expr e0 = true -> forall s0 v0 s0', top_hidden s0 -> eval c fuel esc s0 e0 = Ok (v0, s0') ->
            eval c fuel esc (relab L s0) e0 = Ok (v0, relab L s0') /\ s_env s0' = s_env s0) by (intros; eapply IH; eauto).
  assert (TH : forall s0 e0 v0 s0', top_hidden s0 -> eval c fuel esc s0 e0 = Ok (v0, s0') -> top_hidden s0').
  { intros s0 e0 v0 s0' H0 E0. eapply top_hidden_env; [|exact H0]. symmetry. eapply eval_env_proof; eauto. }
  destruct e; cbn [l2_expr] in Hw; cbn [eval] in He |- *.
  - destruct l; inversion He; reflexivity.
  - destruct (lookup c s x) as [ov s1] eqn:El. inversion He; subst.
    rewrite (lookup_relab _ _ _ _ Hh El). reflexivity.
  - bstep He p1 E1. destruct p1 as [vs s1]. inversion He; subst.
    destruct (map_eval_relab (eval c fuel esc) (fun e => l2_expr e = true) IH' items (forallb_Forall _ _ Hw) _ _ _ Hh E1) as [R _].
    rewrite R. reflexivity.
  - bstep He p1 E1. destruct p1 as [kvs s1]. inversion He; subst.
    assert (Hpairs : Forall (fun p => l2_expr (fst p) = true /\ l2_expr (snd p) = true) pairs).
    { apply forallb_Forall in Hw. eapply Forall_impl; [|exact Hw]. intros p Hp. apply andb_prop in Hp. exact Hp. }
    destruct (map_eval_pairs_relab (eval c fuel esc) (fun e => l2_expr e = true) IH' pairs Hpairs _ _ _ Hh E1) as [R _].
    rewrite R. reflexivity.
  - bstep He p1 E1. destruct p1 as [x s1]. destruct (IH' _ Hw _ _ _ Hh E1) as [R _]. rewrite R. cbn [bind].
    destruct x; try discriminate. inversion He; reflexivity.
  - bstep He p1 E1. destruct p1 as [x s1]. destruct (IH' _ Hw _ _ _ Hh E1) as [R _]. rewrite R. cbn [bind].
    bstep He b Eb. rewrite Eb. cbn [bind]. inversion He; reflexivity.
  - apply andb_prop in Hw as [H1 H2].
    bstep He p1 E1. destruct p1 as [x s1]. bstep He p2 E2. destruct p2 as [y s2].
    destruct (IH' _ H1 _ _ _ Hh E1) as [R1 _]. rewrite R1. cbn [bind].
    destruct (IH' _ H2 _ _ _ (TH _ _ _ _ Hh E1) E2) as [R2 _]. rewrite R2. cbn [bind].
    bstep He u Eu. rewrite Eu. cbn [bind]. bstep He r Er. rewrite Er. cbn [bind]. inversion He; reflexivity.
  - apply andb_prop in Hw as [Hw H3]. apply andb_prop in Hw as [H1 _].
    bstep He p1 E1. destruct p1 as [x s1]. destruct (IH' _ H1 _ _ _ Hh E1) as [R1 _]. rewrite R1. cbn [bind].
    apply (cmp_chain_relab (eval c fuel esc) (fun e => l2_expr e = true) IH' (c_mode c) rest (forallb_Forall _ _ H3) _ _ _ _ (TH _ _ _ _ Hh E1) He).
  - apply andb_prop in Hw as [H1 H2].
    bstep He p1 E1. destruct p1 as [x s1]. destruct (IH' _ H1 _ _ _ Hh E1) as [R1 _]. rewrite R1. cbn [bind].
    bstep He t Et. rewrite Et. cbn [bind]. destruct t.
    + apply (IH' _ H2 _ _ _ (TH _ _ _ _ Hh E1) He).
    + inversion He; reflexivity.
  - apply andb_prop in Hw as [H1 H2].
    bstep He p1 E1. destruct p1 as [x s1]. destruct (IH' _ H1 _ _ _ Hh E1) as [R1 _]. rewrite R1. cbn [bind].
    bstep He t Et. rewrite Et. cbn [bind]. destruct t.
    + inversion He; reflexivity.
    + apply (IH' _ H2 _ _ _ (TH _ _ _ _ Hh E1) He).
  - apply andb_prop in Hw as [Hw H3]. apply andb_prop in Hw as [H1 H2].
    bstep He p1 E1. destruct p1 as [x s1]. destruct (IH' _ H1 _ _ _ Hh E1) as [R1 _]. rewrite R1. cbn [bind].
    bstep He t Et. rewrite Et. cbn [bind]. destruct t.
    + apply (IH' _ H2 _ _ _ (TH _ _ _ _ Hh E1) He).
    + destruct f as [f|]; [apply (IH' _ H3 _ _ _ (TH _ _ _ _ Hh E1) He)|inversion He; reflexivity].
  - apply andb_prop in Hw as [H1 H2].
    bstep He p1 E1. destruct p1 as [x s1]. bstep He p2 E2. destruct p2 as [k s2].
    destruct (IH' _ H1 _ _ _ Hh E1) as [R1 _]. rewrite R1. cbn [bind].
    destruct (IH' _ H2 _ _ _ (TH _ _ _ _ Hh E1) E2) as [R2 _]. rewrite R2. cbn [bind].
    destruct (get_item_opt x k).
    + inversion He; reflexivity.
    + bstep He w Ew. rewrite Ew. cbn [bind]. inversion He; reflexivity.
  - bstep He p1 E1. destruct p1 as [x s1]. destruct (IH' _ Hw _ _ _ Hh E1) as [R1 _]. rewrite R1. cbn [bind].
    destruct (get_attr_opt x a).
    + inversion He; reflexivity.
    + bstep He w Ew. rewrite Ew. cbn [bind]. inversion He; reflexivity.
  - apply andb_prop in Hw as [H1 H2].
    bstep He p1 E1. destruct p1 as [x s1]. bstep He p2 E2. destruct p2 as [vs s2].
    destruct (IH' _ H1 _ _ _ Hh E1) as [R1 _]. rewrite R1. cbn [bind].
    destruct (map_eval_relab (eval c fuel esc) (fun e => l2_expr e = true) IH' args (forallb_Forall _ _ H2) _ _ _ (TH _ _ _ _ Hh E1) E2) as [R2 _].
    rewrite R2. cbn [bind]. bstep He r Er. rewrite Er. cbn [bind]. inversion He; reflexivity.
  - apply andb_prop in Hw as [H1 H2].
    bstep He p1 E1. destruct p1 as [x s1]. bstep He p2 E2. destruct p2 as [vs s2].
    destruct (IH' _ H1 _ _ _ Hh E1) as [R1 _]. rewrite R1. cbn [bind].
    destruct (map_eval_relab (eval c fuel esc) (fun e => l2_expr e = true) IH' args (forallb_Forall _ _ H2) _ _ _ (TH _ _ _ _ Hh E1) E2) as [R2 _].
    rewrite R2. cbn [bind]. bstep He r Er. rewrite Er. cbn [bind]. inversion He; reflexivity.
  - (* ECall *)
    apply andb_prop in Hw as [Hw _]. apply andb_prop in Hw as [H1 H2].
    bstep He p1 E1. destruct p1 as [vs s1]. bstep He p2 E2. destruct p2 as [kvs s2].
    destruct (map_eval_relab (eval c fuel esc) (fun e => l2_expr e = true) IH' args (forallb_Forall _ _ H1) _ _ _ Hh E1) as [R1 V1].
    rewrite R1. cbn [bind].
    assert (Hh1 : top_hidden s1) by (eapply top_hidden_env; [symmetry; exact V1|exact Hh]).
    destruct (map_eval_kw_relab (eval c fuel esc) (fun e => l2_expr e = true) IH' kwargs (forallb_Forall _ _ H2) _ _ _ Hh1 E2) as [R2 V2].
    rewrite R2. cbn [bind].
    assert (Hh2 : top_hidden s2) by (eapply top_hidden_env; [symmetry; exact V2|exact Hh1]).
    destruct (lookup c s2 f) as [fv s3] eqn:El. rewrite (lookup_relab _ _ _ _ Hh2 El).
    destruct fv as [[| | | | | | | |mc cl| |g]|]; try discriminate.
    + apply call_macro_relab. exact He.
    + destruct (g =? N_range)%Z; [|discriminate].
      destruct vs as [|[| | | |k| | | | | |] [|? ?]]; try discriminate. destruct kvs; [|discriminate].
      inversion He; reflexivity.
Qed.

End Relab.
