(* C03, bytecode level: the failing direction of L2Relab - a failing evaluation fails the same way under
   other hidden loop counters. *)
From MJ Require Import Common.Base Lang.Syntax Lang.Meta Lang.Interp.
From MJ Require Import C03.Proofs.
From MJ Require Import L2.Instr L2.Compile L2.Vm L2.Simulation.
From MJ Require Import C03.L2Relab.
Local Open Scope nat_scope.

Section RelabErr.
Variable c : cfg.
Variable L : option (Z * Z * bool).
Hypothesis HL : hidden L = true.

Section Comb.
Variable ev : st -> expr -> outcome (value * st).
Variable P : expr -> Prop.
Hypothesis Hev : forall e, P e -> forall s v s', top_hidden s -> ev s e = Ok (v, s') ->
  ev (relab L s) e = Ok (v, relab L s') /\ s_env s' = s_env s.
Hypothesis Herr : forall e, P e -> forall s k, top_hidden s -> ev s e = Err k -> ev (relab L s) e = Err k.

Lemma map_eval_relab_err items : Forall P items -> forall s k, top_hidden s ->
  map_eval ev s items = Err k -> map_eval ev (relab L s) items = Err k.
Proof.
  induction 1 as [|x r Hx Hr IH]; intros s k Hh He; cbn [map_eval] in *; [discriminate|].
  fold (map_eval ev) in *.
  destruct (ev s x) as [[v s1]| | |] eqn:E1; cbn [bind] in He; try discriminate.
  - destruct (Hev x Hx _ _ _ Hh E1) as [R1 V1]. rewrite R1. cbn [bind].
    destruct (map_eval ev s1 r) as [[vr s2]| | |] eqn:E2; cbn [bind] in He; try discriminate.
    inversion He; subst. rewrite (IH _ _ (top_hidden_env _ _ (eq_sym V1) Hh) E2). reflexivity.
  - inversion He; subst. rewrite (Herr x Hx _ _ Hh E1). reflexivity.
Qed.

Lemma map_eval_kw_relab_err kw : Forall (fun p => P (snd p)) kw -> forall s k, top_hidden s ->
  map_eval_kw ev s kw = Err k -> map_eval_kw ev (relab L s) kw = Err k.
Proof.
  induction 1 as [|[k0 x] r Hx Hr IH]; intros s k Hh He; cbn [map_eval_kw] in *; [discriminate|].
  fold (map_eval_kw ev) in *. cbn [snd] in Hx.
  destruct (ev s x) as [[v s1]| | |] eqn:E1; cbn [bind] in He; try discriminate.
  - destruct (Hev x Hx _ _ _ Hh E1) as [R1 V1]. rewrite R1. cbn [bind].
    destruct (map_eval_kw ev s1 r) as [[vr s2]| | |] eqn:E2; cbn [bind] in He; try discriminate.
    inversion He; subst. rewrite (IH _ _ (top_hidden_env _ _ (eq_sym V1) Hh) E2). reflexivity.
  - inversion He; subst. rewrite (Herr x Hx _ _ Hh E1). reflexivity.
Qed.

Lemma map_eval_pairs_relab_err pairs : Forall (fun p => P (fst p) /\ P (snd p)) pairs -> forall s k, top_hidden s ->
  map_eval_pairs ev s pairs = Err k -> map_eval_pairs ev (relab L s) pairs = Err k.
Proof.
  induction 1 as [|[k0 x] r [Hk Hx] Hr IH]; intros s k Hh He; cbn [map_eval_pairs] in *; [discriminate|].
  fold (map_eval_pairs ev) in *. cbn [fst snd] in Hk, Hx.
  destruct (ev s k0) as [[kv s1]| | |] eqn:E1; cbn [bind] in He; try discriminate.
  2: { inversion He; subst. rewrite (Herr k0 Hk _ _ Hh E1). reflexivity. }
  destruct (Hev k0 Hk _ _ _ Hh E1) as [R1 V1]. rewrite R1. cbn [bind].
  assert (Hh1 : top_hidden s1) by exact (top_hidden_env _ _ (eq_sym V1) Hh).
  destruct (ev s1 x) as [[xv s2]| | |] eqn:E2; cbn [bind] in He; try discriminate.
  2: { inversion He; subst. rewrite (Herr x Hx _ _ Hh1 E2). reflexivity. }
  destruct (Hev x Hx _ _ _ Hh1 E2) as [R2 V2]. rewrite R2. cbn [bind].
  assert (Hh2 : top_hidden s2) by exact (top_hidden_env _ _ (eq_sym V2) Hh1).
  destruct (map_eval_pairs ev s2 r) as [[vr s3]| | |] eqn:E3; cbn [bind] in He; try discriminate.
  inversion He; subst. rewrite (IH _ _ Hh2 E3). reflexivity.
Qed.

Lemma cmp_chain_relab_err m rest : Forall (fun p => P (snd p)) rest -> forall left s k, top_hidden s ->
  cmp_chain m ev left s rest = Err k -> cmp_chain m ev left (relab L s) rest = Err k.
Proof.
  induction 1 as [|[op r] l' Hr Hl IH]; intros left s k Hh He; cbn [cmp_chain] in *; [discriminate|].
  fold (cmp_chain m ev) in *. cbn [snd] in Hr.
  destruct (ev s r) as [[y s2]| | |] eqn:E1; cbn [bind] in He; try discriminate.
  - destruct (Hev r Hr _ _ _ Hh E1) as [R1 V1]. rewrite R1. cbn [bind].
    destruct (do_cmp m op left y) as [b| | |]; cbn [bind] in He |- *; try discriminate; [|exact He].
    destruct l' as [|p2 l'']; [discriminate|]. destruct b; [|discriminate].
    apply (IH _ _ _ (top_hidden_env _ _ (eq_sym V1) Hh) He).
  - inversion He; subst. rewrite (Herr r Hr _ _ Hh E1). reflexivity.
Qed.
End Comb.

Lemma call_macro_relab_err fuel esc s mc cl vs kvs k :
  call_macro c fuel esc s mc cl vs kvs = Err k -> call_macro c fuel esc (relab L s) mc cl vs kvs = Err k.
Proof.
  destruct fuel as [|fuel]; [discriminate|]. cbn [call_macro].
  destruct (relab_fields L s) as (R1 & R2 & R3). rewrite R1, R2, R3.
  destruct (Nat.ltb (length (m_params mc)) (length vs)); [auto|].
  destruct (bind_params kvs (m_params mc) vs) as [bound| | |]; cbn [bind]; auto.
  match goal with |- (if ?b then _ else _) = _ -> _ => destruct b; [auto|] end.
  match goal with |- bind ?x _ = _ -> _ => destruct x as [s1| | |]; cbn [bind]; auto end.
  match goal with |- bind ?x _ = _ -> _ => destruct x as [[sg s2]| | |]; cbn [bind]; auto end.
  discriminate.
Qed.

Lemma eval_relab_err : forall fuel esc e, l2_expr e = true -> forall s k, top_hidden s ->
  eval c fuel esc s e = Err k -> eval c fuel esc (relab L s) e = Err k.
Proof.
  induction fuel as [|fuel IH]; intros esc e Hw s k Hh He; [discriminate|].
  pose proof (fun e0 (H0 : l2_expr e0 = true) => eval_relab c L HL fuel esc e0 H0) as OK.
  pose proof (fun e0 (H0 : l2_expr e0 = true) => IH esc e0 H0) as ER.
  assert (TH : forall s0 e0 v0 s0', top_hidden s0 -> eval c fuel esc s0 e0 = Ok (v0, s0') -> top_hidden s0').
  { intros s0 e0 v0 s0' H0 E0. eapply top_hidden_env; [|exact H0]. symmetry. eapply eval_env_proof; eauto. }
  Ltac sub He Hh H1 x s1 E1 OK ER :=
    match type of He with bind (eval ?c ?fuel ?esc ?s ?e1) _ = _ =>
      destruct (eval c fuel esc s e1) as [[x s1]| | |] eqn:E1; cbn [bind] in He; try discriminate;
      [ let R := fresh "R" in destruct (OK _ H1 _ _ _ Hh E1) as [R _]; rewrite R; cbn [bind]
      | inversion He; subst; rewrite (ER _ H1 _ _ Hh E1); reflexivity ]
    end.
  destruct e; cbn [l2_expr] in Hw; cbn [eval] in He |- *.
  - destruct l; discriminate.
  - destruct (lookup c s x); discriminate.
  - destruct (map_eval (eval c fuel esc) s items) as [[vs s1]| | |] eqn:E1; cbn [bind] in He; try discriminate.
    inversion He; subst.
    rewrite (map_eval_relab_err (eval c fuel esc) (fun e => l2_expr e = true) OK ER items (forallb_Forall _ _ Hw) _ _ Hh E1). reflexivity.
  - destruct (map_eval_pairs (eval c fuel esc) s pairs) as [[kvs s1]| | |] eqn:E1; cbn [bind] in He; try discriminate.
    inversion He; subst.
    assert (Hpairs : Forall (fun p => l2_expr (fst p) = true /\ l2_expr (snd p) = true) pairs).
    { apply forallb_Forall in Hw. eapply Forall_impl; [|exact Hw]. intros p Hp. apply andb_prop in Hp. exact Hp. }
    rewrite (map_eval_pairs_relab_err (eval c fuel esc) (fun e => l2_expr e = true) OK ER pairs Hpairs _ _ Hh E1). reflexivity.
  - sub He Hh Hw x s1 E1 OK ER. destruct x; try discriminate; exact He.
  - sub He Hh Hw x s1 E1 OK ER. destruct (u_is_true (c_mode c) x); cbn [bind] in He |- *; try discriminate. exact He.
  - apply andb_prop in Hw as [H1 H2].
    sub He Hh H1 x s1 E1 OK ER. pose proof (TH _ _ _ _ Hh E1) as Hh1.
    sub He Hh1 H2 y s2 E2 OK ER.
    match type of He with bind ?g _ = _ => destruct g as [[]| | |]; cbn [bind] in He |- *; try discriminate; [|exact He] end.
    destruct (do_bin op x y); cbn [bind] in He |- *; try discriminate. exact He.
  - apply andb_prop in Hw as [Hw H3]. apply andb_prop in Hw as [H1 _].
    sub He Hh H1 x s1 E1 OK ER.
    apply (cmp_chain_relab_err (eval c fuel esc) (fun e => l2_expr e = true) OK ER (c_mode c) rest (forallb_Forall _ _ H3) _ _ _ (TH _ _ _ _ Hh E1) He).
  - apply andb_prop in Hw as [H1 H2].
    sub He Hh H1 x s1 E1 OK ER.
    destruct (u_is_true (c_mode c) x) as [t| | |]; cbn [bind] in He |- *; try discriminate; [|exact He].
    destruct t; [|discriminate]. apply (ER _ H2 _ _ (TH _ _ _ _ Hh E1) He).
  - apply andb_prop in Hw as [H1 H2].
    sub He Hh H1 x s1 E1 OK ER.
    destruct (u_is_true (c_mode c) x) as [t| | |]; cbn [bind] in He |- *; try discriminate; [|exact He].
    destruct t; [discriminate|]. apply (ER _ H2 _ _ (TH _ _ _ _ Hh E1) He).
  - apply andb_prop in Hw as [Hw H3]. apply andb_prop in Hw as [H1 H2].
    sub He Hh H1 x s1 E1 OK ER.
    destruct (u_is_true (c_mode c) x) as [t| | |]; cbn [bind] in He |- *; try discriminate; [|exact He].
    destruct t; [apply (ER _ H2 _ _ (TH _ _ _ _ Hh E1) He)|].
    destruct f as [f|]; [|discriminate]. apply (ER _ H3 _ _ (TH _ _ _ _ Hh E1) He).
  - apply andb_prop in Hw as [H1 H2].
    sub He Hh H1 x s1 E1 OK ER. pose proof (TH _ _ _ _ Hh E1) as Hh1.
    sub He Hh1 H2 y s2 E2 OK ER.
    destruct (get_item_opt x y); [discriminate|].
    destruct (u_handle_undefined (c_mode c) (is_undef x)); cbn [bind] in He |- *; try discriminate. exact He.
  - sub He Hh Hw x s1 E1 OK ER.
    destruct (get_attr_opt x a); [discriminate|].
    destruct (u_handle_undefined (c_mode c) (is_undef x)); cbn [bind] in He |- *; try discriminate. exact He.
  - apply andb_prop in Hw as [H1 H2].
    sub He Hh H1 x s1 E1 OK ER. pose proof (TH _ _ _ _ Hh E1) as Hh1.
    destruct (map_eval (eval c fuel esc) s1 args) as [[vs s2]| | |] eqn:E2; cbn [bind] in He; try discriminate.
    + destruct (map_eval_relab L (eval c fuel esc) (fun e => l2_expr e = true) OK args (forallb_Forall _ _ H2) _ _ _ Hh1 E2) as [R2 _].
      rewrite R2. cbn [bind]. destruct (do_filter (c_mode c) esc f x vs); cbn [bind] in He |- *; try discriminate. exact He.
    + inversion He; subst.
      rewrite (map_eval_relab_err (eval c fuel esc) (fun e => l2_expr e = true) OK ER args (forallb_Forall _ _ H2) _ _ Hh1 E2). reflexivity.
  - apply andb_prop in Hw as [H1 H2].
    sub He Hh H1 x s1 E1 OK ER. pose proof (TH _ _ _ _ Hh E1) as Hh1.
    destruct (map_eval (eval c fuel esc) s1 args) as [[vs s2]| | |] eqn:E2; cbn [bind] in He; try discriminate.
    + destruct (map_eval_relab L (eval c fuel esc) (fun e => l2_expr e = true) OK args (forallb_Forall _ _ H2) _ _ _ Hh1 E2) as [R2 _].
      rewrite R2. cbn [bind]. destruct (do_test t x); cbn [bind] in He |- *; try discriminate. exact He.
    + inversion He; subst.
      rewrite (map_eval_relab_err (eval c fuel esc) (fun e => l2_expr e = true) OK ER args (forallb_Forall _ _ H2) _ _ Hh1 E2). reflexivity.
  - (* ECall *)
    apply andb_prop in Hw as [Hw _]. apply andb_prop in Hw as [H1 H2].
    destruct (map_eval (eval c fuel esc) s args) as [[vs s1]| | |] eqn:E1; cbn [bind] in He; try discriminate.
    2: { inversion He; subst.
         rewrite (map_eval_relab_err (eval c fuel esc) (fun e => l2_expr e = true) OK ER args (forallb_Forall _ _ H1) _ _ Hh E1). reflexivity. }
    destruct (map_eval_relab L (eval c fuel esc) (fun e => l2_expr e = true) OK args (forallb_Forall _ _ H1) _ _ _ Hh E1) as [R1 V1].
    rewrite R1. cbn [bind].
    assert (Hh1 : top_hidden s1) by (eapply top_hidden_env; [symmetry; exact V1|exact Hh]).
    destruct (map_eval_kw (eval c fuel esc) s1 kwargs) as [[kvs s2]| | |] eqn:E2; cbn [bind] in He; try discriminate.
    2: { inversion He; subst.
         rewrite (map_eval_kw_relab_err (eval c fuel esc) (fun e => l2_expr e = true) OK ER kwargs (forallb_Forall _ _ H2) _ _ Hh1 E2). reflexivity. }
    destruct (map_eval_kw_relab L (eval c fuel esc) (fun e => l2_expr e = true) OK kwargs (forallb_Forall _ _ H2) _ _ _ Hh1 E2) as [R2 V2].
    rewrite R2. cbn [bind].
    assert (Hh2 : top_hidden s2) by (eapply top_hidden_env; [symmetry; exact V2|exact Hh1]).
    destruct (lookup c s2 f) as [fv s3] eqn:El. rewrite (lookup_relab c L HL _ _ _ _ Hh2 El).
    destruct fv as [[| | | | | | | |mc cl| |g]|]; try exact He.
    + apply call_macro_relab_err. exact He.
    + destruct (g =? N_range)%Z; [|exact He].
      destruct vs as [|[| | | |n| | | | | |] [|? ?]]; try exact He. destruct kvs; [discriminate|exact He].
Qed.

End RelabErr.
