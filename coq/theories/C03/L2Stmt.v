(* C03, bytecode level: simulation of statements (one fuel level from the previous one). *)
From MJ Require Import Common.Base Lang.Syntax Lang.Meta Lang.Interp.
From MJ Require Import C04.Model.
From MJ Require Import C03.Proofs.
From MJ Require Import L2.Instr.
From MJ Require Import L2.Compile.
From MJ Require Import L2.Vm.
From MJ Require Import L2.Simulation C03.L2Pos C03.L2Base C03.L2Relab C03.L2Inv C03.L2Hdl C03.L2Expr.
Local Open Scope nat_scope.

Section SimStmt.
Variable c : cfg.
Variable C : list instr.
Hypothesis Hcfg : cfg_ok C c.
Hypothesis Hwf : wf_code C.

Notation star := (starO c C).
Notation star_step := (starO_step c C).
Notation star_trans := (C03.L2Base.star_trans c C).
Notation star_one := (C03.L2Base.star_one c C).
Notation star_eq := (C03.L2Base.star_eq c C).
Notation step_at := (C03.L2Base.step_at c C).
Notation Inv := (L2.Simulation.Inv C).
Notation vok := (L2.Simulation.vok C).
Notation kvok := (L2.Simulation.kvok C).
Notation sim_expr := (C03.L2Expr.sim_expr c C).
Notation sim_list := (C03.L2Expr.sim_list c C).
Notation sim_stmt := (C03.L2Expr.sim_stmt c C).

Ltac vmsimp := cbn [bind next goto v_pc v_stk v_st v_esc v_escs v_caps v_iters v_calls].
Ltac step_by H tac :=
  eapply star_step;
  [ rewrite (step_at _ _ _ _ _ _ _ _ _ (code_at_head _ _ _ _ H)); cbn [exec_instr v_stk v_st v_esc v_escs v_caps v_iters]; tac; reflexivity
  | vmsimp ].

Lemma exec_list_nil fuel esc s r : exec_list c fuel esc s [] = Ok r -> r = (SigNormal, s).
Proof. destruct fuel; cbn; intros H; inversion H; reflexivity. Qed.

Lemma assign_sim tgt s item s3 pc stk esc escs caps its calls :
  bind_target tgt s item = Ok s3 -> code_at C pc (assign_code tgt) ->
  star (mkVm pc (item :: stk) s esc escs caps its calls)
       (mkVm (pc + length (assign_code tgt)) stk s3 esc escs caps its calls).
Proof.
  intros Hb Hc. destruct tgt as [x|x y]; cbn [assign_code bind_target length] in *.
  - inversion Hb; subst. step_by Hc idtac. eapply star_eq; [constructor|]. f_equal. lia.
  - destruct (unpack_items item) as [l|] eqn:Eu; [|discriminate]. destruct l as [|a [|b [|? ?]]]; try discriminate.
    inversion Hb; subst.
    step_by Hc ltac:(rewrite Eu). apply code_at_tail in Hc. cbn [app]. step_by Hc idtac. apply code_at_tail in Hc.
    step_by Hc idtac. eapply star_eq; [constructor|]. f_equal. lia.
Qed.

Lemma binds_sim fuel esc binds : eval_inv c C fuel -> (forall esc e, l2_expr e = true -> sim_expr fuel esc e) ->
  forallb (fun p => l2_expr (snd p)) binds = true ->
  forall s s', with_binds (eval c fuel esc) s binds = Ok s' -> Inv s ->
  forall base stk escs caps its calls, code_at C base (binds_code binds base) ->
  star (mkVm base stk s esc escs caps its calls)
       (mkVm (base + length (binds_code binds base)) stk s' esc escs caps its calls).
Proof.
  intros EV IHe. induction binds as [|[x e] r IH]; intros Hw s s' He Hi base stk escs caps its calls Hc.
  - cbn in He. inversion He; subst. cbn. rewrite Nat.add_0_r. constructor.
  - cbn [forallb snd] in Hw. apply andb_prop in Hw as [Hx Hr].
    cbn [with_binds] in He. fold (with_binds (eval c fuel esc)) in He.
    bstep He p1 E1. destruct p1 as [v s1]. bstep He s2 E2.
    destruct (EV esc e Hx _ _ _ Hi E1) as [V1 I1].
    cbn [binds_code] in Hc |- *. fold binds_code in Hc |- *.
    eapply star_trans. { eapply (IHe esc e Hx _ _ _ E1 ltac:(assumption)). eapply code_at_app_l; eauto. }
    apply code_at_app_r in Hc.
    eapply star_trans. { eapply (assign_sim x _ _ _ _ _ _ _ _ _ _ E2). eapply code_at_app_l; eauto. }
    apply code_at_app_r in Hc.
    eapply star_eq. { eapply (IH Hr _ _ He); [eapply bind_target_Inv; eauto|exact Hc]. }
    f_equal. rewrite !app_length. lia.
Qed.

Lemma do_filter_str_defined md esc f b t v : do_filter md esc f (VStr b t) [] = Ok v -> is_strict_undef v = false.
Proof.
  unfold do_filter, str_input.
  repeat match goal with |- context [if ?x then _ else _] => destruct x end; destruct md; cbn;
    repeat match goal with |- context [match ?x with _ => _ end] => destruct x end;
    intros H; inversion H; try reflexivity.
Qed.


Ltac lens := cbn [length app]; rewrite ?app_length; cbn [length app]; rewrite ?app_length; cbn [length app]; rewrite ?app_length; cbn [length]; lia.

Lemma post_endpc sg lc e1 e2 stk s' esc escs caps its calls σ' :
  e1 = e2 \/ sg <> SigNormal ->
  post sg lc e1 stk s' esc escs caps its calls σ' -> post sg lc e2 stk s' esc escs caps its calls σ'.
Proof. intros [->|H]; [auto|]. destruct sg; [congruence|auto|auto]. Qed.

(* trailing steps that only move the pc extend a normal completion; a signal has already left *)
Lemma post_then sg lc e1 e2 stk s' esc escs caps its calls σ' :
  post sg lc e1 stk s' esc escs caps its calls σ' ->
  star (mkVm e1 stk s' esc escs caps its calls) (mkVm e2 stk s' esc escs caps its calls) ->
  exists σ'', star σ' σ'' /\ post sg lc e2 stk s' esc escs caps its calls σ''.
Proof.
  intros Hp Hs. destruct sg; cbn [post] in *.
  - subst. eexists; split; [exact Hs|reflexivity].
  - exists σ'. split; [constructor|exact Hp].
  - exists σ'. split; [constructor|exact Hp].
Qed.

Lemma cleanup_sim p : forall pc stk s esc escs caps its calls,
  fits p (length (s_env s)) (length escs) (length caps) ->
  code_at C pc (cleanup_code p) ->
  star (mkVm pc stk s esc escs caps its calls)
       (unwound (pc + length (cleanup_code p)) p stk s esc escs caps its calls).
Proof.
  induction p as [|k p IH]; intros pc stk s esc escs caps its calls Hf Hc.
  - cbn. rewrite Nat.add_0_r. constructor.
  - cbn [cleanup_code flat_map] in Hc |- *. fold (cleanup_code p) in Hc |- *.
    destruct k; cbn [fits] in Hf; destruct Hf as [H1 Hf]; cbn [unwound app] in Hc |- *.
    + destruct (s_env s) as [|f0 r0] eqn:Ee; [cbn in H1; lia|].
      step_by Hc ltac:(rewrite Ee). apply code_at_tail in Hc.
      eapply star_eq. { eapply IH; [|exact Hc]. unfold pop_frame. cbn [s_env]. rewrite Ee. cbn [tl length] in *. replace (length r0) with (S (length r0) - 1) by lia. exact Hf. }
      f_equal. cbn [length]. lia.
    + destruct caps as [|o cs]; [cbn in H1; lia|].
      step_by Hc idtac. apply code_at_tail in Hc. step_by Hc idtac. apply code_at_tail in Hc.
      eapply star_eq. { eapply IH; [|exact Hc]. cbn [with_out s_env length] in *. replace (length cs) with (S (length cs) - 1) by lia. exact Hf. }
      f_equal. cbn [length]. lia.
    + destruct escs as [|e es]; [cbn in H1; lia|].
      step_by Hc idtac. apply code_at_tail in Hc.
      eapply star_eq. { eapply IH; [|exact Hc]. cbn [length] in *. replace (length es) with (S (length es) - 1) by lia. exact Hf. }
      f_equal. cbn [length]. lia.
Qed.

Lemma if_sim2 fuel esc els lc inl : eval_inv c C fuel -> (forall esc e, l2_expr e = true -> sim_expr fuel esc e) ->
  sim_list fuel ->
  match els with Some b => forallb (l2_stmt inl) b | None => true end = true ->
  (inl = true -> lc <> None) ->
  forall arms, forallb (fun p => l2_expr (fst p) && forallb (l2_stmt inl) (snd p)) arms = true ->
  forall s sg s', if_arms (c_mode c) (eval c fuel esc) (exec_list c fuel esc) els s arms = Ok (sg, s') -> Inv s ->
  forall base stk escs caps its calls,
    code_at C base (if_code (fun b pc => compile_stmts b pc lc) els arms base) ->
    lc_fits lc (length (s_env s)) (length escs) (length caps) ->
    exists σ', star (mkVm base stk s esc escs caps its calls) σ' /\
      post sg lc (base + length (if_code (fun b pc => compile_stmts b pc lc) els arms base)) stk s' esc escs caps its calls σ'.
Proof.
  intros EV IHe IHl Hels Hin. induction arms as [|[cnd body] r IHr]; intros Hw s sg s' He Hi base stk escs caps its calls Hc Hf.
  - cbn [if_arms if_code] in *. destruct els as [b|].
    + apply (IHl inl b Hels _ _ _ _ He Hi _ _ _ _ _ _ _ Hc Hin Hf).
    + inversion He; subst. eexists; split; [constructor|]. cbn [post length]. now rewrite Nat.add_0_r.
  - cbn [forallb fst snd] in Hw. apply andb_prop in Hw as [Hw Hr]. apply andb_prop in Hw as [Hcnd Hbody].
    cbn [if_arms] in He. fold (if_arms (c_mode c) (eval c fuel esc) (exec_list c fuel esc) els) in He.
    bstep He p1 E1. destruct p1 as [v s1]. bstep He t Et.
    destruct (EV esc cnd Hcnd _ _ _ Hi E1) as [_ Hi1].
    cbn [if_code] in Hc |- *. fold (if_code (fun b pc => compile_stmts b pc lc) els) in Hc |- *.
    set (cc := compile_expr cnd base) in *.
    set (ct := compile_stmts body (base + length cc + 1) lc) in *.
    assert (Henv1 : s_env s1 = s_env s) by (eapply eval_env_proof; eauto).
    assert (Hf1 : lc_fits lc (length (s_env s1)) (length escs) (length caps)) by (rewrite Henv1; exact Hf).
    assert (Hcond : forall X, code_at C base (cc ++ X) ->
              star (mkVm base stk s esc escs caps its calls) (mkVm (base + length cc) (v :: stk) s1 esc escs caps its calls)).
    { intros X HX. eapply (IHe esc cnd Hcnd _ _ _ E1 ltac:(assumption)). eapply code_at_app_l; eauto. }
    (* the two shapes: with an else part (elif or non-empty else) / without *)
    set (cf := if_code (fun b pc => compile_stmts b pc lc) els r (base + length cc + 1 + length ct + 1)) in *.
    assert (Hshape : (match r, nonempty_body els with [], None => False | _, _ => True end) \/ (r = [] /\ nonempty_body els = None)).
    { destruct r; [destruct (nonempty_body els); [left; exact I|right; auto]|left; exact I]. }
    destruct Hshape as [Hsh|[Hr0 Hne]].
    + assert (Hcode : code_at C base (cc ++ [IJumpIfFalse (base + length cc + 1 + length ct + 1)] ++ ct
                        ++ [IJump (base + length cc + 1 + length ct + 1 + length cf)] ++ cf) /\
                      length (match r, nonempty_body els with
                              | [], None => cc ++ [IJumpIfFalse (base + length cc + 1 + length ct)] ++ ct
                              | _, _ => cc ++ [IJumpIfFalse (base + length cc + 1 + length ct + 1)] ++ ct
                                          ++ [IJump (base + length cc + 1 + length ct + 1 + length cf)] ++ cf end)
                      = length cc + 1 + length ct + 1 + length cf).
      { destruct r; [destruct (nonempty_body els); [|contradiction]|]; (split; [exact Hc|lens]). }
      destruct Hcode as [Hc' Hlen]. rewrite Hlen.
      clear Hc Hlen. rename Hc' into Hc.
      pose proof (Hcond _ Hc) as S1. apply code_at_app_r in Hc.
      pose proof (code_at_head _ _ _ _ Hc) as Hj. apply code_at_tail in Hc.
      replace (S (base + length cc)) with (base + length cc + 1) in * by lia.
      destruct t.
      * destruct (IHl inl body Hbody _ _ _ _ He Hi1 (base + length cc + 1) lc stk escs caps its calls ltac:(eapply code_at_app_l; eauto) Hin Hf1) as [σ1 [S2 P2]].
        fold ct in P2. apply code_at_app_r in Hc.
        destruct (post_then sg lc _ (base + (length cc + 1 + length ct + 1 + length cf)) _ _ _ _ _ _ _ _ P2) as [σ2 [S3 P3]].
        { step_by Hc idtac. eapply star_eq; [constructor|]. f_equal. lia. }
        exists σ2. split; [|exact P3].
        eapply star_trans; [exact S1|].
        eapply star_step. { rewrite (step_at _ _ _ _ _ _ _ _ _ Hj). cbn [exec_instr v_stk v_st]. rewrite Et. reflexivity. }
        vmsimp. replace (S (base + length cc)) with (base + length cc + 1) in * by lia.
        eapply star_trans; [exact S2|exact S3].
      * apply code_at_app_r in Hc. apply code_at_tail in Hc.
        eapply code_at_pc in Hc; [|instantiate (1 := base + length cc + 1 + length ct + 1); lia].
        destruct (IHr Hr _ _ _ He Hi1 _ stk escs caps its calls Hc Hf1) as [σ1 [S2 P2]].
        exists σ1. split.
        -- eapply star_trans; [exact S1|].
           eapply star_step. { rewrite (step_at _ _ _ _ _ _ _ _ _ Hj). cbn [exec_instr v_stk v_st]. rewrite Et. reflexivity. }
           vmsimp. exact S2.
        -- eapply post_endpc; [|exact P2]. left. fold cf. lia.
    + subst r. rewrite Hne in Hc |- *.
      pose proof (Hcond _ Hc) as S1. apply code_at_app_r in Hc.
      pose proof (code_at_head _ _ _ _ Hc) as Hj. apply code_at_tail in Hc.
      replace (S (base + length cc)) with (base + length cc + 1) in * by lia.
      destruct t.
      * destruct (IHl inl body Hbody _ _ _ _ He Hi1 (base + length cc + 1) lc stk escs caps its calls Hc Hin Hf1) as [σ1 [S2 P2]].
        exists σ1. split.
        -- eapply star_trans; [exact S1|].
           eapply star_step. { rewrite (step_at _ _ _ _ _ _ _ _ _ Hj). cbn [exec_instr v_stk v_st]. rewrite Et. reflexivity. }
           vmsimp. replace (S (base + length cc)) with (base + length cc + 1) in * by lia. exact S2.
        -- fold ct in P2. eapply post_endpc; [|exact P2]. left. lens.
      * cbn [if_arms] in He.
        assert (Hr0 : (sg, s') = (SigNormal, s1)).
        { destruct els as [[|x b]|]; try discriminate Hne.
          - eapply exec_list_nil; eauto.
          - inversion He; reflexivity. }
        inversion Hr0; subst. eexists. split; [|reflexivity].
        eapply star_trans; [exact S1|].
        eapply star_step. { rewrite (step_at _ _ _ _ _ _ _ _ _ Hj). cbn [exec_instr v_stk v_st]. rewrite Et. reflexivity. }
        vmsimp. fold ct. eapply star_eq; [constructor|]. f_equal. lens.
Qed.


Lemma post_enter k sg lc e stk s2 esc escs caps its calls σ' X :
  post sg (enter_scope k lc) e stk s2 esc escs caps its calls σ' -> sg <> SigNormal ->
  (forall l pc, unwound pc (k :: lc_pending l) stk s2 esc escs caps its calls = X l pc) ->
  exists l, lc = Some l /\ σ' = X l (match sg with SigBreak => lc_end l | _ => lc_iter l end).
Proof.
  intros Hp Hn HX. destruct sg; [congruence| |]; cbn [post] in Hp; destruct Hp as [l' [Hl ->]];
    destruct lc as [l|]; cbn [enter_scope] in Hl; try discriminate; inversion Hl; subst l'; cbn [lc_end lc_iter lc_pending];
    exists l; (split; [reflexivity|apply HX]).
Qed.

Lemma fits_enter k lc nenv nescs ncaps :
  lc_fits lc nenv nescs ncaps ->
  lc_fits (enter_scope k lc)
    (match k with ClFrame => S nenv | _ => nenv end)
    (match k with ClAutoEscape => S nescs | _ => nescs end)
    (match k with ClCapture => S ncaps | _ => ncaps end).
Proof.
  destruct lc as [l|]; cbn [lc_fits enter_scope lc_pending]; [|auto].
  intros H. destruct k; cbn [fits]; (split; [lia|]); rewrite Nat.sub_succ, Nat.sub_0_r; exact H.
Qed.

Lemma enter_some k lc : lc <> None -> enter_scope k lc <> None.
Proof. destruct lc; cbn; congruence. Qed.


Lemma unwound_jump p : forall pc t stk s esc escs caps its calls, nth_error C pc = Some (IJump t) ->
  step c C (unwound pc p stk s esc escs caps its calls) = Ok (unwound t p stk s esc escs caps its calls).
Proof.
  induction p as [|k p IH]; intros pc t stk s esc escs caps its calls H; cbn [unwound].
  - rewrite (step_at _ _ _ _ _ _ _ _ _ H). reflexivity.
  - destruct k; [apply IH; exact H| |].
    + destruct caps; [rewrite (step_at _ _ _ _ _ _ _ _ _ H); reflexivity|apply IH; exact H].
    + destruct escs; [rewrite (step_at _ _ _ _ _ _ _ _ _ H); reflexivity|apply IH; exact H].
Qed.

(* Interp's state [s] and the VM's state [sv] at the Iterate instruction before iteration [i] *)
Definition head_rel (i n : Z) (s sv : st) : Prop :=
  s_clos sv = s_clos s /\ s_out sv = s_out s /\ s_asks sv = s_asks s /\
  exists f fv e, s_env s = f :: e /\ s_env sv = fv :: e /\ f_closure fv = f_closure f /\
                 f_closure_ctx fv = f_closure_ctx f /\ f_loop fv = Some ((i - 1)%Z, n, true).

(* ... and when the loop is left *)
Definition tail_rel (n : Z) (s5 sv5 : st) : Prop :=
  s_clos sv5 = s_clos s5 /\ s_out sv5 = s_out s5 /\ s_asks sv5 = s_asks s5 /\ tl (s_env sv5) = tl (s_env s5) /\
  exists fv e k, s_env sv5 = fv :: e /\ f_loop fv = Some (k, n, true).

Lemma hdl_some s l : hdl s = Some (Some l) -> exists f e, s_env s = f :: e /\ f_loop f = Some l.
Proof. unfold hdl. destruct (s_env s) as [|f e]; intros H; inversion H. eauto. Qed.

Lemma loop_sim fuel esc tgt body n it loop_end body_at its0 : list_inv c C fuel ->
  sim_list fuel -> forallb (l2_stmt true) body = true ->
  code_at C it ([IIterate loop_end] ++ assign_code tgt ++ compile_stmts body body_at (Some (mkL it loop_end [])) ++ [IJump it]) ->
  body_at = it + 1 + length (assign_code tgt) ->
  loop_end = body_at + length (compile_stmts body body_at (Some (mkL it loop_end []))) + 1 ->
  forall items s i s5, loop_items (exec_list c fuel esc) tgt body n s i items = Ok s5 -> Inv s -> Forall vok items ->
  forall sv stk escs caps calls, head_rel i n s sv ->
    exists sv5 rest, star (mkVm it stk sv esc escs caps (items :: its0) calls)
                          (mkVm loop_end stk sv5 esc escs caps (rest :: its0) calls) /\ tail_rel n s5 sv5.
Proof.
  intros LV IHb Hbody Hc Hba Hle.
  pose proof (code_at_head _ _ _ _ Hc) as Hit.
  pose proof (code_at_tail _ _ _ _ Hc) as Hc1.
  pose proof (code_at_app_l _ _ _ _ Hc1) as Hca.
  pose proof (code_at_app_r _ _ _ _ Hc1) as Hc2.
  replace (S it + length (assign_code tgt)) with body_at in Hc2 by lia.
  pose proof (code_at_app_l _ _ _ _ Hc2) as Hcb.
  pose proof (code_at_head _ _ _ _ (code_at_app_r _ _ _ _ Hc2)) as Hj.
  induction items as [|item r IH]; intros s i s5 He Hi Hvi sv stk escs caps calls Hh.
  - cbn [loop_items] in He. inversion He; subst s5.
    exists sv, []. split.
    + apply star_one. rewrite (step_at _ _ _ _ _ _ _ _ _ Hit). reflexivity.
    + destruct Hh as (A & Bq & D & f & fv & e & E1 & E2 & _ & _ & E5). repeat split; auto.
      * rewrite E1, E2. reflexivity.
      * eauto.
  - destruct Hh as (A & Bq & D & f & fv & e & E1 & E2 & E3 & E4 & E5).
    cbn [loop_items] in He. fold (loop_items (exec_list c fuel esc) tgt body n) in He. rewrite E1 in He.
    set (s' := with_env s (mkFrame [] (Some (i, n, true)) (f_closure f) (f_closure_ctx f) false :: e)) in *.
    bstep He s3 Eb. bstep He p4 Ex. destruct p4 as [sg s4].
    pose proof (Forall_inv Hvi) as Hvitem. pose proof (Forall_inv_tail Hvi) as Hvr.
    assert (Hi3 : Inv s3).
    { eapply bind_target_Inv; [|exact Hvitem|exact Eb]. unfold s'. eapply reset_Inv; eauto. }
    assert (Hi4 : Inv s4).
    { refine (LV true body Hbody _ _ _ _ _ Hi3 Ex). eexists _, _. exact Hcb. }
    (* Iterate *)
    assert (S1 : star (mkVm it stk sv esc escs caps ((item :: r) :: its0) calls)
                      (mkVm (S it) (item :: stk) s' esc escs caps (r :: its0) calls)).
    { apply star_one. rewrite (step_at _ _ _ _ _ _ _ _ _ Hit). cbn [exec_instr v_iters v_st v_stk v_pc v_esc v_escs v_caps v_calls].
      rewrite E2. cbn [advance_loop]. rewrite E5. unfold s', with_env. rewrite A, Bq, D, E3, E4.
      replace (i - 1 + 1)%Z with i by lia. reflexivity. }
    pose proof (assign_sim tgt s' item s3 (S it) stk esc escs caps (r :: its0) calls Eb Hca) as S2.
    replace (S it + length (assign_code tgt)) with body_at in S2 by lia.
    assert (Hl3 : hdl s3 = Some (Some (i, n, true))).
    { rewrite (bind_target_hdl _ _ _ _ Eb). reflexivity. }
    assert (Hl4 : hdl s4 = Some (Some (i, n, true))).
    { rewrite <- Hl3. eapply (proj2 (frag_hdl c fuel)); eauto. }
    destruct (IHb true body Hbody _ _ _ _ Ex Hi3 body_at (Some (mkL it loop_end [])) stk escs caps (r :: its0) calls Hcb ltac:(discriminate) I) as [σ1 [S3 P3]].
    destruct (hdl_some _ _ Hl4) as (f4 & e4 & Ee4 & Ef4).
    assert (Hh4 : head_rel (i + 1) n s4 s4).
    { repeat split; auto. exists f4, f4, e4. repeat split; auto. rewrite Ef4. f_equal. f_equal. f_equal. lia. }
    destruct sg.
    + (* normal end of the body: Jump back *)
      cbn [post] in P3. subst σ1.
      destruct (IH _ _ _ He Hi4 Hvr s4 stk escs caps calls Hh4) as (sv5 & rest & S4 & T).
      exists sv5, rest. split; [|exact T].
      eapply star_trans; [exact S1|]. eapply star_trans; [exact S2|]. eapply star_trans; [exact S3|].
      eapply star_step; [|exact S4]. rewrite (step_at _ _ _ _ _ _ _ _ _ Hj). reflexivity.
    + (* break *)
      inversion He; subst s5. cbn [post] in P3. destruct P3 as [l [Hl ->]]. inversion Hl; subst l. cbn [unwound lc_end lc_pending] in *.
      exists s4, r. split.
      * eapply star_trans; [exact S1|]. eapply star_trans; [exact S2|exact S3].
      * repeat split; auto. exists f4, e4, i. split; assumption.
    + (* continue *)
      cbn [post] in P3. destruct P3 as [l [Hl ->]]. inversion Hl; subst l. cbn [unwound lc_iter lc_pending] in *.
      destruct (IH _ _ _ He Hi4 Hvr s4 stk escs caps calls Hh4) as (sv5 & rest & S4 & T).
      exists sv5, rest. split; [|exact T].
      eapply star_trans; [exact S1|]. eapply star_trans; [exact S2|]. eapply star_trans; [exact S3|exact S4].
Qed.


(* ---- the accumulate loop of a filtered for ---- *)
Lemma store_relab L s x v : s_env s <> [] -> store (relab L s) x v = relab L (store s x v).
Proof.
  intros Hne. unfold relab at 1. destruct (s_env s) as [|f e] eqn:E; [congruence|].
  unfold relab, store. cbn [with_env s_env s_clos s_out s_asks]. rewrite E.
  cbn [s_env with_env f_locals f_loop f_closure f_closure_ctx f_base s_clos s_out s_asks]. reflexivity.
Qed.

Lemma store_env_ne s x v : s_env s <> [] -> s_env (store s x v) <> [].
Proof. unfold store. destruct (s_env s); [congruence|]. cbn [s_env]. discriminate. Qed.

Lemma bind_target_relab L tgt s item s3 : s_env s <> [] ->
  bind_target tgt s item = Ok s3 -> bind_target tgt (relab L s) item = Ok (relab L s3).
Proof.
  intros Hne. destruct tgt as [x|x y]; cbn [bind_target]; intros H.
  - inversion H; subst. now rewrite store_relab.
  - destruct (unpack_items item) as [[|a [|b [|? ?]]]|]; try discriminate.
    inversion H; subst. rewrite store_relab by exact Hne. rewrite store_relab by (apply store_env_ne; exact Hne). reflexivity.
Qed.

(* closure fields of the innermost frame *)
Definition topc (s : st) : option (option nat * option nat) :=
  match s_env s with f :: _ => Some (f_closure f, f_closure_ctx f) | [] => None end.
Lemma store_topc s x v : topc (store s x v) = topc s.
Proof. unfold topc, store. destruct (s_env s) as [|f r] eqn:E; cbn [s_env f_closure f_closure_ctx]; rewrite ?E; reflexivity. Qed.
Lemma bind_target_topc tgt s item s3 : bind_target tgt s item = Ok s3 -> topc s3 = topc s.
Proof.
  destruct tgt as [x|x y]; cbn [bind_target]; intros H.
  - inversion H. apply store_topc.
  - destruct (unpack_items item) as [[|a [|b [|? ?]]]|]; try discriminate.
    inversion H. now rewrite !store_topc.
Qed.

Lemma lenZ_cons {A} (x : A) l : lenZ (x :: l) = (lenZ l + 1)%Z.
Proof. unfold lenZ. cbn [length]. lia. Qed.
Lemma lenZ_nonneg {A} (l : list A) : (0 <= lenZ l)%Z.
Proof. unfold lenZ. lia. Qed.

Lemma counter_step z : (0 <= z)%Z -> in_i128b (z + 1) = true \/ (i128_max <= z)%Z.
Proof.
  intros Hz. destruct (in_i128b (z + 1)) eqn:E; [left; reflexivity|right].
  unfold in_i128b, in_i128 in E. apply andb_false_iff in E. destruct E as [E|E]; apply Z.leb_gt in E.
  - assert (i128_min <= 0)%Z by (vm_compute; discriminate). lia.
  - lia.
Qed.

(* Interp's state [s] between two items and the VM's [sv] at the Iterate of the accumulate loop: the VM
   keeps ONE loop frame (hidden counters, no loop variable) on top of the scopes the interpreter has *)
Definition frel (i n : Z) (s sv : st) : Prop :=
  s_clos sv = s_clos s /\ s_out sv = s_out s /\ s_asks sv = s_asks s /\
  exists fv, s_env sv = fv :: s_env s /\ f_loop fv = Some ((i - 1)%Z, n, false) /\
             f_closure fv = None /\ f_closure_ctx fv = None.

Lemma filter_sim fuel esc tgt fe it1 jf its0 n : eval_inv c C fuel -> (forall esc e, l2_expr e = true -> sim_expr fuel esc e) ->
  l2_expr fe = true ->
  code_at C it1 ([IIterate (jf + 7)] ++ [IDupTop] ++ assign_code tgt ++ compile_expr fe (it1 + 1 + 1 + length (assign_code tgt))
      ++ [IJumpIfFalse (jf + 5); ISwap; ILoadConst (VInt 1); IBinOp OAdd; IJump (jf + 6); IDiscardTop; IJump it1]) ->
  jf = it1 + 1 + 1 + length (assign_code tgt) + length (compile_expr fe (it1 + 1 + 1 + length (assign_code tgt))) ->
  forall items s kept s3, filter_items (c_mode c) (eval c fuel esc) tgt fe s items = Ok (kept, s3) -> Inv s -> Forall vok items ->
  forall sv acc i stk escs caps calls,
    frel i n s sv ->
    exists sv3 i3, star (mkVm it1 (VInt (lenZ acc) :: acc ++ stk) sv esc escs caps (items :: its0) calls)
                        (mkVm (jf + 7) (VInt (lenZ acc + lenZ kept) :: rev kept ++ acc ++ stk) sv3 esc escs caps ([] :: its0) calls)
      /\ frel i3 n s3 sv3.
Proof.
  intros EV IHe Hw Hc Hjf.
  pose proof (code_at_head _ _ _ _ Hc) as Hit.
  pose proof (code_at_tail _ _ _ _ Hc) as Hc1. cbn [app] in Hc1.
  pose proof (code_at_head _ _ _ _ Hc1) as Hdup.
  pose proof (code_at_tail _ _ _ _ Hc1) as Hc2.
  pose proof (code_at_app_l _ _ _ _ Hc2) as Hca.
  pose proof (code_at_app_r _ _ _ _ Hc2) as Hc3.
  replace (S (S it1) + length (assign_code tgt)) with (it1 + 1 + 1 + length (assign_code tgt)) in Hc3 by lia.
  pose proof (code_at_app_l _ _ _ _ Hc3) as Hcf.
  pose proof (code_at_app_r _ _ _ _ Hc3) as Hc4. rewrite <- Hjf in Hc4.
  pose proof (code_at_head _ _ _ _ Hc4) as H0.
  pose proof (code_at_head _ _ _ _ (code_at_tail _ _ _ _ Hc4)) as H1.
  pose proof (code_at_head _ _ _ _ (code_at_tail _ _ _ _ (code_at_tail _ _ _ _ Hc4))) as H2.
  pose proof (code_at_head _ _ _ _ (code_at_tail _ _ _ _ (code_at_tail _ _ _ _ (code_at_tail _ _ _ _ Hc4)))) as H3.
  pose proof (code_at_head _ _ _ _ (code_at_tail _ _ _ _ (code_at_tail _ _ _ _ (code_at_tail _ _ _ _ (code_at_tail _ _ _ _ Hc4))))) as H4.
  pose proof (code_at_head _ _ _ _ (code_at_tail _ _ _ _ (code_at_tail _ _ _ _ (code_at_tail _ _ _ _ (code_at_tail _ _ _ _ (code_at_tail _ _ _ _ Hc4)))))) as H5.
  pose proof (code_at_head _ _ _ _ (code_at_tail _ _ _ _ (code_at_tail _ _ _ _ (code_at_tail _ _ _ _ (code_at_tail _ _ _ _ (code_at_tail _ _ _ _ (code_at_tail _ _ _ _ Hc4))))))) as H6.
  induction items as [|item r IH]; intros s kept s3 He Hi Hvi sv acc i stk escs caps calls Hh.
  - cbn [filter_items] in He. inversion He; subst kept s3.
    exists sv, i. split; [|exact Hh].
    apply star_one. rewrite (step_at _ _ _ _ _ _ _ _ _ Hit). cbn [exec_instr v_iters goto v_st v_stk v_esc v_escs v_caps v_calls].
    cbn [lenZ length rev app]. unfold lenZ. cbn [length]. rewrite Z.add_0_r. reflexivity.
  - destruct Hh as (A & Bq & D & fv & E1 & E2 & E3 & E4).
    cbn [filter_items] in He. fold (filter_items (c_mode c) (eval c fuel esc) tgt fe) in He.
    set (sf := push_frame s (mkFrame [] (Some (0%Z, 0%Z, false)) None None false)) in *.
    bstep He sf1 Eb. bstep He p2 Ee. destruct p2 as [v sf2]. bstep He keep Ek. bstep He p3 Er. destruct p3 as [rest s4].
    pose proof (Forall_inv Hvi) as Hvitem. pose proof (Forall_inv_tail Hvi) as Hvr.
    assert (Isf1 : Inv sf1).
    { eapply bind_target_Inv; [|exact Hvitem|exact Eb]. apply push_Inv; [exact Hi|constructor]. }
    destruct (EV esc fe Hw _ _ _ Isf1 Ee) as [_ Isf2].
    pose proof (pop_Inv C _ Isf2) as Ipop.
    set (L := Some (i, n, false)).
    (* Iterate *)
    assert (S1 : star (mkVm it1 (VInt (lenZ acc) :: acc ++ stk) sv esc escs caps ((item :: r) :: its0) calls)
                      (mkVm (S (S it1)) (item :: item :: VInt (lenZ acc) :: acc ++ stk) (relab L sf) esc escs caps (r :: its0) calls)).
    { eapply star_step.
      { rewrite (step_at _ _ _ _ _ _ _ _ _ Hit). cbn [exec_instr v_iters v_st v_stk v_pc v_esc v_escs v_caps v_calls].
        rewrite E1. cbn [advance_loop]. rewrite E2. reflexivity. }
      eapply star_eq. { apply star_one. rewrite (step_at _ _ _ _ _ _ _ _ _ Hdup). reflexivity. }
      cbn [next v_pc v_stk v_st v_esc v_escs v_caps v_iters v_calls]. f_equal.
      unfold relab, sf, push_frame, with_env, L. cbn [s_env s_clos s_out s_asks f_locals f_closure f_closure_ctx f_base].
      rewrite A, Bq, D, E3, E4. replace (i - 1 + 1)%Z with i by lia. reflexivity. }
    assert (Hsf : s_env sf <> []) by (unfold sf, push_frame; cbn [s_env]; discriminate).
    pose proof (bind_target_relab L tgt sf item sf1 Hsf Eb) as Eb'.
    pose proof (assign_sim tgt _ item _ (S (S it1)) (item :: VInt (lenZ acc) :: acc ++ stk) esc escs caps (r :: its0) calls Eb' Hca) as S2.
    replace (S (S it1) + length (assign_code tgt)) with (it1 + 1 + 1 + length (assign_code tgt)) in S2 by lia.
    assert (Hl1 : hdl sf1 = Some (Some (0%Z, 0%Z, false))) by (rewrite (bind_target_hdl _ _ _ _ Eb); reflexivity).
    assert (Hth : top_hidden sf1).
    { unfold top_hidden. destruct (hdl_some _ _ Hl1) as (f1 & e1 & Ee1 & Ef1). rewrite Ee1, Ef1. reflexivity. }
    destruct (eval_relab c L eq_refl fuel esc fe Hw sf1 v sf2 Hth Ee) as [Ee' Henv2].
    assert (Irl : Inv (relab L sf1)).
    { destruct (relab_fields L sf1) as (R1 & _ & _). destruct Isf1 as [Ie Ic]. split; [|rewrite R1; exact Ic].
      rewrite relab_env. destruct (s_env sf1) as [|f1 e1]; [constructor|]. inversion Ie; subst. constructor; auto. }
    pose proof (IHe esc fe Hw _ _ _ Ee' Irl _ (item :: VInt (lenZ acc) :: acc ++ stk) escs caps (r :: its0) calls Hcf) as S3.
    rewrite <- Hjf in S3.
    (* the relation for the next item *)
    assert (Hc1' : topc sf1 = Some (None, None)) by (rewrite (bind_target_topc _ _ _ _ Eb); reflexivity).
    assert (Hh' : frel (i + 1) n (pop_frame sf2) (relab L sf2)).
    { destruct (relab_fields L sf2) as (R1 & R2 & R3).
      unfold frel. cbn [pop_frame s_clos s_out s_asks s_env]. repeat split; auto.
      rewrite relab_env. unfold topc in Hc1'. rewrite <- Henv2 in Hc1'.
      destruct (s_env sf2) as [|f2 e2]; [discriminate|]. inversion Hc1' as [[Q1 Q2]].
      eexists. split; [reflexivity|]. cbn [tl f_loop f_closure f_closure_ctx]. repeat split; auto.
      unfold L. f_equal. f_equal. f_equal. lia. }
    pose proof (lenZ_nonneg acc) as Hn0.
    destruct keep.
    + (* kept: Swap; LoadConst 1; Add; Jump; Jump *)
      inversion He; subst kept s3.
      assert (S5 : star (mkVm it1 (VInt (lenZ acc) :: acc ++ stk) sv esc escs caps ((item :: r) :: its0) calls)
                        (mkVm (S (S (S jf))) (VInt 1 :: VInt (lenZ acc) :: item :: acc ++ stk) (relab L sf2) esc escs caps (r :: its0) calls)).
      { eapply star_trans; [exact S1|]. eapply star_trans; [exact S2|]. eapply star_trans; [exact S3|].
        eapply star_step. { rewrite (step_at _ _ _ _ _ _ _ _ _ H0). cbn [exec_instr v_stk v_st]. rewrite Ek. reflexivity. }
        vmsimp.
        eapply star_step. { rewrite (step_at _ _ _ _ _ _ _ _ _ H1). reflexivity. } vmsimp.
        apply star_one. rewrite (step_at _ _ _ _ _ _ _ _ _ H2). reflexivity. }
      destruct (counter_step (lenZ acc) Hn0) as [Hr|Hr].
      * destruct (IH _ _ _ Er Ipop Hvr (relab L sf2) (item :: acc) (i + 1)%Z stk escs caps calls Hh') as (sv3 & i3 & S4 & F4).
        exists sv3, i3. split; [|exact F4].
        eapply star_trans; [exact S5|].
        eapply star_step.
        { rewrite (step_at _ _ _ _ _ _ _ _ _ H3). cbn [exec_instr v_stk v_st bind do_bin]. rewrite Hr. reflexivity. }
        vmsimp.
        eapply star_step. { rewrite (step_at _ _ _ _ _ _ _ _ _ H4). reflexivity. } vmsimp.
        replace (S (S (S (S (S (S jf)))))) with (jf + 6) in H6 by lia.
        eapply star_step. { rewrite (step_at _ _ _ _ _ _ _ _ _ H6). reflexivity. } vmsimp.
        rewrite lenZ_cons in S4. cbn [app] in S4.
        eapply star_eq; [exact S4|]. f_equal.
        rewrite !lenZ_cons. cbn [rev]. rewrite <- !app_assoc. cbn [app]. f_equal. f_equal. lia.
      * (* the counter would overflow: nothing is claimed beyond this point *)
        exists (push_frame s4 (mkFrame [] (Some ((0 - 1)%Z, n, false)) None None false)), 0%Z. split.
        -- eapply star_trans; [exact S5|]. apply starO_ovf. split; [exact H3|]. cbn [v_stk]. eauto.
        -- unfold frel, push_frame. cbn [s_clos s_out s_asks s_env]. repeat split; auto.
           eexists. split; [reflexivity|]. repeat split; reflexivity.
    + (* dropped: DiscardTop; Jump *)
      inversion He; subst kept s3.
      destruct (IH _ _ _ Er Ipop Hvr (relab L sf2) acc (i + 1)%Z stk escs caps calls Hh') as (sv3 & i3 & S4 & F4).
      exists sv3, i3. split; [|exact F4].
      eapply star_trans; [exact S1|]. eapply star_trans; [exact S2|]. eapply star_trans; [exact S3|].
      eapply star_step. { rewrite (step_at _ _ _ _ _ _ _ _ _ H0). cbn [exec_instr v_stk v_st]. rewrite Ek. reflexivity. }
      vmsimp.
      replace (S (S (S (S (S jf))))) with (jf + 5) in H5 by lia.
      eapply star_step. { rewrite (step_at _ _ _ _ _ _ _ _ _ H5). reflexivity. } vmsimp.
      replace (S (jf + 5)) with (jf + 6) by lia.
      replace (S (S (S (S (S (S jf)))))) with (jf + 6) in H6 by lia.
      eapply star_step. { rewrite (step_at _ _ _ _ _ _ _ _ _ H6). reflexivity. } vmsimp.
      exact S4.
Qed.


Lemma st_eta s : mkSt (s_env s) (s_clos s) (s_out s) (s_asks s) = s.
Proof. destruct s; reflexivity. Qed.

Lemma pre_sim fuel esc tgt iter flt rc base s iv s1 items0 items s2 stk escs caps its calls :
  eval_inv c C fuel -> (forall esc e, l2_expr e = true -> sim_expr fuel esc e) ->
  l2_expr iter = true -> match flt with Some fe => l2_expr fe | None => true end = true ->
  eval c fuel esc s iter = Ok (iv, s1) -> loop_items_of (c_mode c) iv = Ok items0 ->
  match flt with
  | None => Ok (items0, s1)
  | Some fe => filter_items (c_mode c) (eval c fuel esc) tgt fe s1 items0
  end = Ok (items, s2) ->
  code_at C base (f_pre tgt iter flt rc base) ->
  Inv s ->
  star (mkVm base stk s esc escs caps its calls)
       (mkVm (f_it tgt iter flt rc base) stk (push_frame s2 (mkFrame [] (Some ((-1)%Z, lenZ items, true)) None None false))
             esc escs caps (items :: its) calls).
Proof.
  intros EV IHe Hiter Hflt E1 E2 E3 Hc Hi. unfold f_it.
  destruct (EV esc iter Hiter _ _ _ Hi E1) as [V1 I1].
  pose proof (items_ok C _ _ _ V1 E2) as V0.
  assert (Hodd : Nat.odd (f_flags rc) = true) by (destruct rc; reflexivity).
  destruct flt as [fe|]; cbn [f_pre] in Hc |- *.
  - (* with filter *)
    set (ci := compile_expr iter (base + 1)) in *.
    set (it1 := base + 1 + length ci + 1) in *.
    set (ca := assign_code tgt) in *.
    set (cf := compile_expr fe (it1 + 1 + 1 + length ca)) in *.
    set (jf := it1 + 1 + 1 + length ca + length cf) in *.
    pose proof (code_at_head _ _ _ _ Hc) as H0. apply code_at_tail in Hc.
    replace (S base) with (base + 1) in Hc by lia.
    pose proof (IHe esc iter Hiter _ _ _ E1 Hi (base + 1) (VInt 0 :: stk) escs caps its calls ltac:(eapply code_at_app_l; eauto)) as S1.
    apply code_at_app_r in Hc. fold ci in Hc, S1.
    pose proof (code_at_head _ _ _ _ Hc) as Hpl. apply code_at_tail in Hc.
    replace (S (base + 1 + length ci)) with it1 in Hc by (unfold it1; lia).
    (* the block of the accumulate loop *)
    assert (Hblk : code_at C it1 (([IIterate (jf + 7)] ++ [IDupTop] ++ ca ++ cf
               ++ [IJumpIfFalse (jf + 5); ISwap; ILoadConst (VInt 1); IBinOp OAdd; IJump (jf + 6); IDiscardTop; IJump it1])
               ++ [IPopLoopFrame; IBuildList None; IPushLoop (f_flags rc)])).
    { rewrite <- !app_assoc. cbn [app] in Hc |- *. exact Hc. }
    pose proof (code_at_app_l _ _ _ _ Hblk) as Hloop. apply code_at_app_r in Hblk.
    replace (it1 + length ([IIterate (jf + 7)] ++ [IDupTop] ++ ca ++ cf
               ++ [IJumpIfFalse (jf + 5); ISwap; ILoadConst (VInt 1); IBinOp OAdd; IJump (jf + 6); IDiscardTop; IJump it1]))
      with (jf + 7) in Hblk by (rewrite !app_length; cbn [length]; unfold jf; lia).
    set (n0 := lenZ items0).
    set (svl := push_frame s1 (mkFrame [] (Some ((-1)%Z, n0, false)) None None false)).
    assert (S2 : star (mkVm base stk s esc escs caps its calls) (mkVm it1 (VInt (lenZ (@nil value)) :: [] ++ stk) svl esc escs caps (items0 :: its) calls)).
    { eapply star_step. { rewrite (step_at _ _ _ _ _ _ _ _ _ H0). reflexivity. }
      vmsimp. replace (S base) with (base + 1) by lia.
      eapply star_trans; [exact S1|].
      apply star_one. rewrite (step_at _ _ _ _ _ _ _ _ _ Hpl). cbn [exec_instr v_stk v_st]. rewrite E2. cbn [bind].
      unfold svl, n0, it1. replace (base + 1 + length ci + 1) with (S (base + 1 + length ci)) by lia. reflexivity. }
    assert (Hfr : frel 0 n0 s1 svl).
    { unfold svl, frel, push_frame. cbn [s_clos s_out s_asks s_env]. repeat split; auto.
      eexists. split; [reflexivity|]. repeat split; reflexivity. }
    destruct (filter_sim fuel esc tgt fe it1 jf its n0 EV IHe Hflt Hloop eq_refl _ _ _ _ E3 I1 V0 svl [] 0%Z stk escs caps calls Hfr)
      as (sv3 & i3 & S3 & F3).
    destruct F3 as (A & Bq & D & fv & E5 & E6 & _ & _).
      eapply star_trans; [exact S2|]. eapply star_trans; [exact S3|].
      cbn [app].
      step_by Hblk ltac:(rewrite E5, E6). apply code_at_tail in Hblk.
      assert (Hp : pop_frame sv3 = s2).
      { unfold pop_frame. rewrite E5, A, Bq, D. cbn [tl]. apply st_eta. }
      rewrite Hp.
      step_by Hblk ltac:(unfold lenZ; rewrite Z.add_0_l, Nat2Z.id, (pop_n_rev items stk []), app_nil_r).
      apply code_at_tail in Hblk.
      step_by Hblk ltac:(cbn [loop_items_of bind]; rewrite Hodd).
      eapply star_eq; [constructor|]. f_equal.
      cbn [length]. rewrite app_length. cbn [length]. rewrite app_length. rewrite app_length. cbn [length].
      unfold jf, it1. lia.
  - (* without filter *)
    inversion E3; subst items s2.
    eapply star_trans. { eapply (IHe esc iter Hiter _ _ _ E1 Hi). eapply code_at_app_l; eauto. }
    apply code_at_app_r in Hc.
    step_by Hc ltac:(rewrite E2; cbn [bind]; rewrite Hodd).
    eapply star_eq; [constructor|]. f_equal. rewrite app_length. cbn [length]. lia.
Qed.



Lemma lenZ_zero {A} (l : list A) : (lenZ l =? 0)%Z = match l with [] => true | _ => false end.
Proof. destruct l; reflexivity. Qed.

(* ---- macro declarations: Jump over the body; Enclose*; GetClosure; LoadConst spec; BuildMacro ---- *)
Lemma enclose1_some s x f r id : s_env s = f :: r -> f_closure f = Some id -> enclose1 c s x = enc_step c id s x.
Proof. intros E F. unfold enclose1, enclose. rewrite E, F. reflexivity. Qed.

Lemma enclose_fold_some id names : forall s, (exists f r, s_env s = f :: r /\ f_closure f = Some id) ->
  fold_left (enclose1 c) names s = fold_left (enc_step c id) names s.
Proof.
  induction names as [|x nr IH]; intros s (f & r & E & F); cbn [fold_left]; [reflexivity|].
  rewrite (enclose1_some s x f r id E F). apply IH. exists f, r. split; [|exact F]. rewrite enc_step_env. exact E.
Qed.

Lemma enclose1_empty s x : s_env s = [] -> enclose1 c s x = s.
Proof. intros E. unfold enclose1, enclose. rewrite E. reflexivity. Qed.

Definition top_closure (s : st) : option nat := match s_env s with f :: _ => f_closure f | [] => None end.

Lemma enclose_vm s names s1 cl : enclose c s names = (s1, cl) ->
  fold_left (enclose1 c) names s = s1 /\ top_closure s1 = cl.
Proof.
  unfold enclose, top_closure. destruct names as [|n0 names'].
  - intros H; inversion H; subst. split; reflexivity.
  - destruct (s_env s) as [|f r] eqn:Ee.
    + intros H; inversion H; subst. split; [|rewrite Ee; reflexivity].
      assert (Hall : forall l, fold_left (enclose1 c) l s1 = s1).
      { induction l as [|x l IHl]; cbn [fold_left]; [reflexivity|]. rewrite (enclose1_empty s1 x Ee). exact IHl. }
      apply Hall.
    + match goal with |- (let '(id, s1) := ?X in _) = _ -> _ => destruct X as [id s0] eqn:E1 end.
      intros H. assert (Hs : s1 = fold_left (enc_step c id) (n0 :: names') s0) by (inversion H; reflexivity).
      assert (Hcl : cl = Some id) by (inversion H; reflexivity). subst cl.
      assert (H0 : exists f0 r0, s_env s0 = f0 :: r0 /\ f_closure f0 = Some id).
      { destruct (f_closure f) as [id'|] eqn:Ef; inversion E1; subst; [exists f, r; auto|].
        eexists _, _. cbn [s_env]. split; [reflexivity|reflexivity]. }
      split.
      * rewrite Hs. cbn [fold_left].
        assert (H1 : enclose1 c s n0 = enc_step c id s0 n0).
        { unfold enclose1, enclose. rewrite Ee. destruct (f_closure f) as [id'|] eqn:Ef; inversion E1; subst; reflexivity. }
        rewrite H1. apply enclose_fold_some. destruct H0 as (f0 & r0 & E0 & F0). exists f0, r0. split; [|exact F0].
        rewrite enc_step_env. exact E0.
      * rewrite Hs, enc_fold_env. destruct H0 as (f0 & r0 & E0 & F0). rewrite E0. exact F0.
Qed.

Lemma enclose_sim names : forall pc stk s esc escs caps its calls, code_at C pc (map IEnclose names) ->
  star (mkVm pc stk s esc escs caps its calls)
       (mkVm (pc + length names) stk (fold_left (enclose1 c) names s) esc escs caps its calls).
Proof.
  induction names as [|x nr IH]; intros pc stk s esc escs caps its calls Hc; cbn [map fold_left length] in *.
  - rewrite Nat.add_0_r. constructor.
  - step_by Hc idtac. apply code_at_tail in Hc.
    eapply star_eq; [eapply IH; exact Hc|]. f_equal. lia.
Qed.

Lemma macro_decl_sim nm ps ds body base s s1 cl stk esc escs caps its calls :
  code_at C base (macro_code (fun b pc => compile_stmts b pc None) nm ps ds body base) ->
  enclose c s (macro_closure ps ds body) = (s1, cl) ->
  star (mkVm base stk s esc escs caps its calls)
       (mkVm (base + length (macro_code (fun b pc => compile_stmts b pc None) nm ps ds body base))
             (VMacro (mkMacro nm ps ds body (uses_caller ps ds body)) cl :: stk) s1 esc escs caps its calls).
Proof.
  intros Hc Ee. destruct (enclose_vm _ _ _ _ Ee) as [Hfold Hcl].
  unfold macro_code in Hc |- *.
  set (cp := params_code ds (rev ps) (base + 1)) in *.
  set (cbody := compile_stmts body (base + 1 + length cp) None) in *.
  set (names := macro_closure ps ds body) in *.
  pose proof (code_at_head _ _ _ _ Hc) as Hj.
  apply code_at_tail in Hc. apply code_at_app_r in Hc. apply code_at_app_r in Hc. apply code_at_tail in Hc.
  eapply code_at_pc in Hc; [|instantiate (1 := base + 1 + length cp + length cbody + 1); lia].
  eapply star_step. { rewrite (step_at _ _ _ _ _ _ _ _ _ Hj). reflexivity. }
  cbn [goto v_st v_esc v_escs v_caps v_iters v_calls].
  eapply star_trans. { eapply enclose_sim. eapply code_at_app_l. exact Hc. }
  apply code_at_app_r in Hc. rewrite map_length in Hc. rewrite Hfold.
  step_by Hc idtac. apply code_at_tail in Hc. step_by Hc idtac. apply code_at_tail in Hc. step_by Hc idtac.
  eapply star_eq; [constructor|]. f_equal.
  - cbn [length app]. rewrite ?app_length. cbn [length]. rewrite ?app_length, ?map_length. cbn [length]. rewrite ?app_length, ?map_length. cbn [length]. lia.
  - f_equal. f_equal. unfold top_closure in Hcl. rewrite <- Hcl.
    destruct (s_env s1) as [|f1 r1]; [reflexivity|]. destruct (f_closure f1); [now rewrite Nat2Z.id|reflexivity].
Qed.

Lemma call_macro_str fuel esc s mc cl args kw v s' : call_macro c fuel esc s mc cl args kw = Ok (v, s') -> exists b t, v = VStr b t.
Proof.
  destruct fuel as [|fuel]; [discriminate|]. cbn [call_macro].
  destruct (Nat.ltb _ _); [discriminate|]. intros H. bstep H bnd Eb.
  match type of H with (if ?b then _ else _) = _ => destruct b; [discriminate|] end.
  bstep H s1 E1. bstep H p2 E2. destruct p2 as [sg s2]. inversion H; eauto.
Qed.

Lemma stmt_step fuel : eval_inv c C fuel -> call_inv c C fuel -> stmt_inv c C fuel -> list_inv c C fuel ->
  (forall esc e, l2_expr e = true -> sim_expr fuel esc e) -> sim_call c C fuel -> sim_stmt fuel -> sim_list fuel ->
  sim_stmt (S fuel) /\ sim_list (S fuel).
Proof.
  intros EV CV SV LV IHe IHcall IHs IHl.
  split.
  - intros inl t Hw esc s sg s' He Hi base lc stk escs caps its calls Hc Hin Hf.
    destruct t; cbn [l2_stmt] in Hw; cbn [exec] in He.
    + (* SRaw *) cbn [compile_stmt] in Hc |- *. inversion He; subst. eexists; split; [|reflexivity]. step_by Hc idtac. eapply star_eq; [constructor|]. f_equal. lens.
    + (* SEmit *) cbn [compile_stmt] in Hc |- *.
      bstep He p1 E1. destruct p1 as [v s1].
      destruct (u_strictish (c_mode c) && is_strict_undef v) eqn:Eu; try discriminate. inversion He; subst.
      eexists; split; [|reflexivity].
      eapply star_trans. { eapply (IHe esc e Hw _ _ _ E1 ltac:(assumption)). eapply code_at_app_l; eauto. }
      apply code_at_app_r in Hc. step_by Hc ltac:(rewrite Eu). eapply star_eq; [constructor|]. f_equal. lens.
    + (* SIf *) cbn [compile_stmt] in Hc |- *.
      apply andb_prop in Hw as [Harms Hels].
      eapply (if_sim2 fuel esc els lc inl EV IHe IHl Hels Hin arms Harms _ _ _ He Hi); eauto.
    + (* SFor *)
      apply andb_prop in Hw as [Hw Hels]. apply andb_prop in Hw as [Hw Hbody]. apply andb_prop in Hw as [Hiter Hflt].
      bstep He p1 E1. destruct p1 as [iv s1]. bstep He items0 E2. bstep He p3 E3. destruct p3 as [items s2]. bstep He s5 E4.
      change (loop_items_of (c_mode c) iv = Ok items0) in E2.
      assert (H6 : s_env (pop_frame s5) = s_env s).
      { apply (for_scoped_proof c (S fuel) esc s t iter filter body recursive SigNormal).
        cbn [exec]. rewrite E1. cbn [bind]. unfold loop_items_of in E2. rewrite E2. cbn [bind]. rewrite E3. cbn [bind].
        rewrite E4. cbn [bind]. destruct items; reflexivity. }
      (* invariants of the intermediate states *)
      destruct (EV esc iter Hiter _ _ _ Hi E1) as [V1 I1].
      pose proof (items_ok C _ _ _ V1 E2) as V0.
      assert (H2 : Forall vok items /\ Inv s2).
      { destruct filter as [fe|].
        - eapply (filter_items_Inv C (eval c fuel esc) (fun e => l2_expr e = true) (EV esc)); eauto.
        - inversion E3; subst. auto. }
      destruct H2 as [V2 I2].
      rewrite compile_for_eq in Hc |- *.
      set (pre := f_pre t iter filter recursive base) in *.
      set (it := f_it t iter filter recursive base) in *. set (body_at := f_body_at t iter filter recursive base) in *.
      set (loop_end := f_end t iter filter recursive body base) in *.
      assert (Hit : it = base + length pre) by reflexivity.
      assert (Hba : body_at = it + 1 + length (assign_code t)) by reflexivity.
      pose proof (f_end_eq t iter filter recursive body base) as Hlen. fold loop_end body_at it in Hlen.
      set (n := lenZ items) in *.
      set (sv0 := push_frame s2 (mkFrame [] (Some ((-1)%Z, n, true)) None None false)).
      pose proof (pre_sim fuel esc t iter filter recursive base s iv s1 items0 items s2 stk escs caps its calls
                  EV IHe Hiter Hflt E1 E2 E3 ltac:(eapply code_at_app_l; eauto) Hi) as S12.
      fold it n sv0 in S12.
      apply code_at_app_r in Hc. rewrite <- Hit in Hc.
      set (TAIL := match els with
                   | None | Some [] => [IJump it; IPopLoopFrame]
                   | Some eb => [IJump it; IPushDidNotIterate; IPopLoopFrame;
                                 IJumpIfFalse (loop_end + 3 + length (compile_stmts eb (loop_end + 3) lc))]
                                ++ compile_stmts eb (loop_end + 3) lc
                   end) in *.
      assert (HT : exists T', TAIL = IJump it :: T') by (unfold TAIL; destruct els as [[|x b]|]; eexists; reflexivity).
      destruct HT as [T' HT].
      assert (Hc3 : code_at C it (([IIterate loop_end] ++ assign_code t ++ compile_stmts body body_at (Some (mkL it loop_end [])) ++ [IJump it]) ++ T')).
      { rewrite HT in Hc. rewrite <- !app_assoc. exact Hc. }
      pose proof (code_at_app_r _ _ _ _ Hc3) as Hct. apply code_at_app_l in Hc3.
      replace (it + length ([IIterate loop_end] ++ assign_code t ++ compile_stmts body body_at (Some (mkL it loop_end [])) ++ [IJump it]))
        with loop_end in Hct by (rewrite !app_length; cbn [length]; lia).
      (* the iterations *)
      assert (Ipush : Inv (push_frame s2 (mkFrame [] (Some (0%Z, n, true)) None None false))) by (apply push_Inv; [auto|constructor]).
      assert (Hh0 : head_rel 0 n (push_frame s2 (mkFrame [] (Some (0%Z, n, true)) None None false)) sv0).
      { unfold sv0, push_frame. repeat split; cbn [s_clos s_out s_asks s_env]; auto.
        eexists _, _, _. repeat split; reflexivity. }
      destruct (loop_sim fuel esc t body n it loop_end body_at its LV IHl Hbody Hc3
                  ltac:(reflexivity) Hlen items _ _ _ E4 Ipush V2 sv0 stk escs caps calls Hh0) as (sv5 & rest & S3 & T5).
      destruct T5 as (A5 & B5 & D5 & E5 & fv5 & e5 & k5 & Ee5 & Ef5).
      assert (I5 : Inv s5).
      { eapply (loop_items_Inv C (exec_list c fuel esc) body); [|exact V2|exact Ipush|exact E4].
        intros s0 sg0 s0' Hi0 He0. refine (LV true body Hbody _ _ _ _ _ Hi0 He0).
        exists body_at, (Some (mkL it loop_end [])). pose proof (code_at_tail _ _ _ _ Hc3) as Q. apply code_at_app_r in Q. apply code_at_app_l in Q.
        eapply code_at_pc; [exact Q|lia]. }
      pose proof (pop_Inv C _ I5) as I6.
      assert (Hpop : pop_frame sv5 = pop_frame s5).
      { unfold pop_frame. rewrite A5, B5, D5, E5. reflexivity. }
      assert (S0 : star (mkVm base stk s esc escs caps its calls) (mkVm loop_end stk sv5 esc escs caps (rest :: its) calls)).
      { eapply star_trans; [exact S12|exact S3]. }
      assert (Hf6 : lc_fits lc (length (s_env (pop_frame s5))) (length escs) (length caps)) by (rewrite H6; exact Hf).
      subst TAIL.
      destruct els as [[|x b]|].
      * (* else present but empty *)
        cbn [app] in HT; injection HT as HT'; subst T'.
        assert (Hres : (sg, s') = (SigNormal, pop_frame s5)).
        { destruct items; [eapply exec_list_nil; eauto|inversion He; reflexivity]. }
        inversion Hres; subst sg s'. eexists; split; [|reflexivity].
        eapply star_trans; [exact S0|].
        step_by Hct ltac:(rewrite Ee5, Ef5). rewrite Hpop.
        eapply star_eq; [constructor|]. f_equal.
        rewrite ?app_length. cbn [length]. rewrite ?app_length. cbn [length]. rewrite ?app_length. cbn [length].
        lia.
      * (* else *)
        cbn [app] in HT; injection HT as HT'; subst T'. cbn [app] in Hct.
        set (ce := compile_stmts (x :: b) (loop_end + 3) lc) in *.
        assert (Hce : length ce = length (compile_stmt x (loop_end + 3) lc)
                        + length (compile_stmts b (loop_end + 3 + length (compile_stmt x (loop_end + 3) lc)) lc))
          by (unfold ce, compile_stmts; cbn [seq_code]; rewrite app_length; reflexivity).
        assert (Hcl : current_loop (s_env sv5) = Some (k5, n, true)) by (rewrite Ee5; cbn [current_loop]; rewrite Ef5; reflexivity).
        pose proof (code_at_tail _ _ _ _ Hct) as Hct1. pose proof (code_at_tail _ _ _ _ Hct1) as Hct2.
        pose proof (code_at_tail _ _ _ _ Hct2) as Hct3.
        replace (S (S (S loop_end))) with (loop_end + 3) in Hct3 by lia.
        assert (S4 : star (mkVm loop_end stk sv5 esc escs caps (rest :: its) calls)
                          (mkVm (S (S loop_end)) (VBool (n =? 0)%Z :: stk) (pop_frame s5) esc escs caps its calls)).
        { step_by Hct ltac:(rewrite Hcl). step_by Hct1 ltac:(rewrite Ee5, Ef5). rewrite Hpop. constructor. }
        unfold n in S4. rewrite lenZ_zero in S4.
        destruct items as [|it0 items'].
        -- (* did not iterate: the else body runs *)
           destruct (IHl inl (x :: b) Hels _ _ _ _ He I6 (loop_end + 3) lc stk escs caps its calls Hct3 Hin Hf6) as [σ1 [S5 P5]].
           exists σ1. split.
           ++ eapply star_trans; [exact S0|]. eapply star_trans; [exact S4|].
              eapply star_step; [|exact S5].
              rewrite (step_at _ _ _ _ _ _ _ _ _ (code_at_head _ _ _ _ Hct2)). cbn [exec_instr v_stk v_st]. rewrite u_is_true_bool. cbn [bind]. unfold next. cbn [v_pc v_esc v_escs v_caps v_iters v_calls].
              replace (S (S (S loop_end))) with (loop_end + 3) by lia. reflexivity.
           ++ eapply post_endpc; [|exact P5]. left. fold ce.
              rewrite ?app_length. cbn [length]. rewrite ?app_length. cbn [length]. rewrite ?app_length. cbn [length].
              lia.
        -- inversion He; subst sg s'. eexists; split; [|reflexivity].
           eapply star_trans; [exact S0|]. eapply star_trans; [exact S4|].
           eapply star_step.
           { rewrite (step_at _ _ _ _ _ _ _ _ _ (code_at_head _ _ _ _ Hct2)). cbn [exec_instr v_stk v_st]. rewrite u_is_true_bool. reflexivity. }
           cbn [bind goto v_pc v_st v_esc v_escs v_caps v_iters v_calls].
           eapply star_eq; [constructor|]. f_equal.
           rewrite ?app_length. cbn [length]. rewrite ?app_length. cbn [length]. rewrite ?app_length. cbn [length].
           lia.
      * (* no else *)
        cbn [app] in HT; injection HT as HT'; subst T'.
        assert (Hres : (sg, s') = (SigNormal, pop_frame s5)) by (destruct items; inversion He; reflexivity).
        inversion Hres; subst sg s'. eexists; split; [|reflexivity].
        eapply star_trans; [exact S0|].
        step_by Hct ltac:(rewrite Ee5, Ef5). rewrite Hpop.
        eapply star_eq; [constructor|]. f_equal.
        rewrite ?app_length. cbn [length]. rewrite ?app_length. cbn [length]. rewrite ?app_length. cbn [length].
        lia.
    + (* SSet *) cbn [compile_stmt] in Hc |- *.
      bstep He p1 E1. destruct p1 as [v s1]. bstep He s2 E2. inversion He; subst. eexists; split; [|reflexivity].
      eapply star_trans. { eapply (IHe esc e Hw _ _ _ E1 ltac:(assumption)). eapply code_at_app_l; eauto. }
      apply code_at_app_r in Hc.
      eapply star_eq. { eapply (assign_sim t _ _ _ _ _ _ _ _ _ _ E2). exact Hc. }
      f_equal. lens.
    + (* SSetBlock *) cbn [compile_stmt] in Hc |- *.
      bstep He p1 E1. destruct p1 as [[sg1 txt] s1]. bstep E1 p2 E2. destruct p2 as [sg2 s2]. inversion E1; subst. clear E1.
      pose proof (code_at_head _ _ _ _ Hc) as Hb. apply code_at_tail in Hc.
      assert (Hi0 : Inv (with_out s [])) by (eapply Inv_same; [| |exact Hi]; reflexivity).
      destruct (IHl inl body Hw _ _ _ _ E2 Hi0 (base + 1) (enter_scope ClCapture lc) stk escs (s_out s :: caps) its calls
                  ltac:(eapply code_at_app_l; eapply code_at_pc; [exact Hc|lia])
                  ltac:(intros Hq; apply enter_some, Hin, Hq)
                  ltac:(exact (fits_enter ClCapture lc _ _ _ Hf))) as [σ1 [S2 P2]].
      assert (S1 : star (mkVm base stk s esc escs caps its calls) σ1).
      { eapply star_step. { rewrite (step_at _ _ _ _ _ _ _ _ _ Hb). reflexivity. }
        vmsimp. replace (S base) with (base + 1) in * by lia. exact S2. }
      destruct sg1.
      * cbn [post] in P2. subst σ1.
        bstep He fv Ef. inversion He; subst. eexists; split; [|reflexivity].
        eapply star_trans; [exact S1|].
        replace (S base) with (base + 1) in * by lia.
        apply code_at_app_r in Hc. step_by Hc idtac. apply code_at_tail in Hc.
        destruct filter as [f|]; cbn [app] in Hc |- *.
        -- step_by Hc ltac:(cbn [pop_n]; rewrite Ef). apply code_at_tail in Hc. step_by Hc idtac.
           eapply star_eq; [constructor|]. f_equal. unfold compile_stmts. lens.
        -- inversion Ef; subst. step_by Hc idtac.
           eapply star_eq; [constructor|]. f_equal. unfold compile_stmts. lens.
      * inversion He; subst. exists σ1. split; [exact S1|].
        destruct (post_enter ClCapture SigBreak lc _ _ _ _ _ _ _ _ _ (fun l pc => unwound pc (lc_pending l) stk (with_out s2 (s_out s)) esc escs caps its calls) P2 ltac:(discriminate) ltac:(reflexivity)) as [l [-> ->]].
        cbn [post]. eauto.
      * inversion He; subst. exists σ1. split; [exact S1|].
        destruct (post_enter ClCapture SigContinue lc _ _ _ _ _ _ _ _ _ (fun l pc => unwound pc (lc_pending l) stk (with_out s2 (s_out s)) esc escs caps its calls) P2 ltac:(discriminate) ltac:(reflexivity)) as [l [-> ->]].
        cbn [post]. eauto.
    + (* SWith *) cbn [compile_stmt] in Hc |- *.
      apply andb_prop in Hw as [Hb Hbody].
      bstep He s1 E1. bstep He p2 E2. destruct p2 as [sg2 s2]. inversion He; subst.
      assert (Hi0 : Inv (push_frame s empty_frame)) by (apply push_Inv; [auto|constructor]).
      assert (Hi1 : Inv s1).
      { refine (with_binds_Inv C (eval c fuel esc) (fun e => l2_expr e = true) (EV esc) binds (forallb_F _ _ Hb) _ _ Hi0 E1). }
      pose proof (code_at_head _ _ _ _ Hc) as Hp. apply code_at_tail in Hc.
      replace (S base) with (base + 1) in * by lia.
      pose proof (binds_sim fuel esc binds EV IHe Hb _ _ E1 Hi0 (base + 1) stk escs caps its calls ltac:(eapply code_at_app_l; eauto)) as S1.
      apply code_at_app_r in Hc.
      pose proof E1 as R1. apply with_binds_R in R1; [|apply eval_env_proof]. destruct R1 as [_ L1]. cbn [push_frame s_env length] in L1.
      destruct (IHl inl body Hbody _ _ _ _ E2 Hi1 _ (enter_scope ClFrame lc) stk escs caps its calls ltac:(eapply code_at_app_l; eauto)
                  ltac:(intros Hq; apply enter_some, Hin, Hq)
                  ltac:(rewrite L1; exact (fits_enter ClFrame lc _ _ _ Hf))) as [σ1 [S2 P2]].
      assert (S0 : star (mkVm base stk s esc escs caps its calls) σ1).
      { eapply star_step. { rewrite (step_at _ _ _ _ _ _ _ _ _ Hp). reflexivity. }
        vmsimp. replace (S base) with (base + 1) in * by lia.
        eapply star_trans; [exact S1|exact S2]. }
      destruct sg.
      * cbn [post] in P2. subst σ1. eexists; split; [|reflexivity].
        eapply star_trans; [exact S0|].
        apply code_at_app_r in Hc.
        assert (Hne : s_env s2 <> []).
        { apply exec_list_R in E2. destruct E2 as [_ Bq]. intros Z. rewrite Z in Bq. cbn in Bq. lia. }
        destruct (s_env s2) as [|f0 r0] eqn:Eenv; [congruence|].
        step_by Hc ltac:(rewrite Eenv).
        eapply star_eq; [constructor|]. f_equal. unfold compile_stmts. lens.
      * exists σ1. split; [exact S0|].
        destruct (post_enter ClFrame SigBreak lc _ _ _ _ _ _ _ _ _ (fun l pc => unwound pc (lc_pending l) stk (pop_frame s2) esc escs caps its calls) P2 ltac:(discriminate) ltac:(reflexivity)) as [l [-> ->]].
        cbn [post]. eauto.
      * exists σ1. split; [exact S0|].
        destruct (post_enter ClFrame SigContinue lc _ _ _ _ _ _ _ _ _ (fun l pc => unwound pc (lc_pending l) stk (pop_frame s2) esc escs caps its calls) P2 ltac:(discriminate) ltac:(reflexivity)) as [l [-> ->]].
        cbn [post]. eauto.
    + (* SMacro *) cbn [compile_stmt] in Hc |- *.
      apply andb_prop in Hw as [Hd Hbody].
      destruct (enclose c s (macro_closure params defaults body)) as [s1 cl] eqn:Ee. inversion He; subst.
      eexists; split; [|reflexivity].
      eapply star_trans. { eapply macro_decl_sim; [eapply code_at_app_l; exact Hc|exact Ee]. }
      apply code_at_app_r in Hc. step_by Hc idtac.
      eapply star_eq; [constructor|]. f_equal. rewrite app_length. cbn [length]. lia.
    + (* SCallBlock *) cbn [compile_stmt] in Hc |- *.
      apply andb_prop in Hw as [Ha Hbody].
      bstep He p1 E1. destruct p1 as [vs s1].
      destruct (map_eval_Inv C (eval c fuel esc) (fun e => l2_expr e = true) (EV esc) args (forallb_F _ _ Ha) _ _ _ Hi E1) as [V1 I1].
      destruct (enclose c s1 (macro_closure [] [] body)) as [s2 cl] eqn:Ee.
      pose proof (enclose_Inv c C Hcfg _ _ _ _ I1 Ee) as I2.
      destruct (lookup c s2 m) as [fv s3] eqn:El. destruct (lookup_ok c C Hcfg _ _ _ _ I2 El) as [Vf I3].
      destruct fv as [[| | | | | | | |mc mcl| |g]|]; try discriminate.
      bstep He p4 E4. destruct p4 as [v s4]. inversion He; subst sg s'. clear He.
      set (cm := mkMacro N_caller [] [] body (uses_caller [] [] body)) in *.
      assert (Vcm : vok (VMacro cm cl)).
      { cbn [L2.Simulation.vok]. repeat split; cbn [m_defaults m_body cm]; auto.
        eapply (placed_callblock C m args body). exists base, lc. cbn [compile_stmt]. exact Hc. }
      pose proof (map_eval_length _ _ _ _ _ E1) as Hlen.
      set (cargs := seq_code compile_expr args base) in *.
      pose proof (seq_sim c C fuel esc args EV (IHe esc) Ha _ _ _ E1 Hi base stk escs caps its calls ltac:(eapply code_at_app_l; eauto)) as S1.
      fold cargs in S1.
      apply code_at_app_r in Hc. pose proof (code_at_head _ _ _ _ Hc) as Hk. apply code_at_tail in Hc.
      replace (S (base + length cargs)) with (base + length cargs + 1) in Hc by lia.
      pose proof (macro_decl_sim N_caller [] [] body (base + length cargs + 1) s1 s2 cl (VInt N_caller :: rev vs ++ stk) esc escs caps its calls
                    ltac:(eapply code_at_app_l; exact Hc) Ee) as S2.
      fold cm in S2. apply code_at_app_r in Hc.
      set (mcd := macro_code (fun b pc => compile_stmts b pc None) N_caller [] [] body (base + length cargs + 1)) in *.
      pose proof (code_at_head _ _ _ _ Hc) as Hbk. apply code_at_tail in Hc.
      pose proof (code_at_head _ _ _ _ Hc) as Hcf. apply code_at_tail in Hc.
      destruct (IHcall esc s3 mc mcl vs [(N_caller, VMacro cm cl)] v s4 E4 I3 Vf V1 ltac:(constructor; [exact Vcm|constructor])
                  (S (base + length cargs + 1 + length mcd)) (rev (vs ++ [kwargs_val [(N_caller, VMacro cm cl)]]) ++ stk) s2 stk escs caps its calls) as [σ1 [Hvm S3]].
      destruct (call_macro_str _ _ _ _ _ _ _ _ _ E4) as (bb & tt & ->).
      eexists; split; [|reflexivity].
      eapply star_trans; [exact S1|].
      eapply star_step. { rewrite (step_at _ _ _ _ _ _ _ _ _ Hk). reflexivity. } vmsimp.
      replace (S (base + length cargs)) with (base + length cargs + 1) by lia.
      eapply star_trans; [exact S2|].
      eapply (star_step _ (mkVm (S (base + length cargs + 1 + length mcd)) (rev (vs ++ [kwargs_val [(N_caller, VMacro cm cl)]]) ++ stk) s2 esc escs caps its calls)).
      { rewrite (step_at _ _ _ _ _ _ _ _ _ Hbk). rewrite rev_app_distr. reflexivity. }
      eapply star_step.
      { rewrite (step_at _ _ _ _ _ _ _ _ _ Hcf). cbn [exec_instr v_stk v_st].
        replace (length args + 1) with (length (vs ++ [kwargs_val [(N_caller, VMacro cm cl)]])) by (rewrite app_length; cbn [length]; lia).
        rewrite (pop_n_rev (vs ++ [kwargs_val [(N_caller, VMacro cm cl)]]) stk []), app_nil_r, split_kwargs_kw, El. exact Hvm. }
      eapply star_trans; [exact S3|].
      step_by Hc ltac:(cbn [is_strict_undef]; rewrite andb_false_r).
      eapply star_eq; [constructor|]. f_equal.
      fold mcd. rewrite ?app_length. cbn [length]. rewrite ?app_length. cbn [length]. lia.
    + (* SFilterBlock *) cbn [compile_stmt] in Hc |- *.
      bstep He p1 E1. destruct p1 as [[sg1 txt] s1]. bstep E1 p2 E2. destruct p2 as [sg2 s2]. inversion E1; subst. clear E1.
      pose proof (code_at_head _ _ _ _ Hc) as Hb. apply code_at_tail in Hc.
      assert (Hi0 : Inv (with_out s [])) by (eapply Inv_same; [| |exact Hi]; reflexivity).
      destruct (IHl inl body Hw _ _ _ _ E2 Hi0 (base + 1) (enter_scope ClCapture lc) stk escs (s_out s :: caps) its calls
                  ltac:(eapply code_at_app_l; eapply code_at_pc; [exact Hc|lia])
                  ltac:(intros Hq; apply enter_some, Hin, Hq)
                  ltac:(exact (fits_enter ClCapture lc _ _ _ Hf))) as [σ1 [S2 P2]].
      assert (S1 : star (mkVm base stk s esc escs caps its calls) σ1).
      { eapply star_step. { rewrite (step_at _ _ _ _ _ _ _ _ _ Hb). reflexivity. }
        vmsimp. replace (S base) with (base + 1) in * by lia. exact S2. }
      destruct sg1.
      * cbn [post] in P2. subst σ1.
        bstep He fv Ef. inversion He; subst. eexists; split; [|reflexivity].
        eapply star_trans; [exact S1|].
        replace (S base) with (base + 1) in * by lia.
        apply code_at_app_r in Hc. step_by Hc idtac. apply code_at_tail in Hc.
        step_by Hc ltac:(cbn [pop_n]; rewrite Ef). apply code_at_tail in Hc.
        step_by Hc ltac:(rewrite (do_filter_str_defined _ _ _ _ _ _ Ef), andb_false_r).
        eapply star_eq; [constructor|]. f_equal. unfold compile_stmts. lens.
      * inversion He; subst. exists σ1. split; [exact S1|].
        destruct (post_enter ClCapture SigBreak lc _ _ _ _ _ _ _ _ _ (fun l pc => unwound pc (lc_pending l) stk (with_out s2 (s_out s)) esc escs caps its calls) P2 ltac:(discriminate) ltac:(reflexivity)) as [l [-> ->]].
        cbn [post]. eauto.
      * inversion He; subst. exists σ1. split; [exact S1|].
        destruct (post_enter ClCapture SigContinue lc _ _ _ _ _ _ _ _ _ (fun l pc => unwound pc (lc_pending l) stk (with_out s2 (s_out s)) esc escs caps its calls) P2 ltac:(discriminate) ltac:(reflexivity)) as [l [-> ->]].
        cbn [post]. eauto.
    + (* SAutoEscape *) cbn [compile_stmt] in Hc |- *.
      apply andb_prop in Hw as [Hv Hbody].
      bstep He p1 E1. destruct p1 as [x s1]. bstep He esc' Ee.
      destruct (EV esc v Hv _ _ _ Hi E1) as [_ Hi1].
      change (derive_auto_escape x = Ok esc') in Ee.
      pose proof (IHe esc v Hv _ _ _ E1 Hi base stk escs caps its calls ltac:(eapply code_at_app_l; eauto)) as S1.
      apply code_at_app_r in Hc. pose proof (code_at_head _ _ _ _ Hc) as Hp. apply code_at_tail in Hc.
      replace (S (base + length (compile_expr v base))) with (base + length (compile_expr v base) + 1) in * by lia.
      assert (Henv1 : s_env s1 = s_env s) by (eapply eval_env_proof; eauto).
      destruct (IHl inl body Hbody _ _ _ _ He Hi1 _ (enter_scope ClAutoEscape lc) stk (esc :: escs) caps its calls ltac:(eapply code_at_app_l; eauto)
                  ltac:(intros Hq; apply enter_some, Hin, Hq)
                  ltac:(rewrite Henv1; exact (fits_enter ClAutoEscape lc _ _ _ Hf))) as [σ1 [S2 P2]].
      assert (S0 : star (mkVm base stk s esc escs caps its calls) σ1).
      { eapply star_trans; [exact S1|].
        eapply star_step. { rewrite (step_at _ _ _ _ _ _ _ _ _ Hp). cbn [exec_instr v_stk v_st]. rewrite Ee. reflexivity. }
        vmsimp. replace (S (base + length (compile_expr v base))) with (base + length (compile_expr v base) + 1) in * by lia.
        exact S2. }
      destruct sg.
      * cbn [post] in P2. subst σ1. eexists; split; [|reflexivity].
        eapply star_trans; [exact S0|].
        apply code_at_app_r in Hc. step_by Hc idtac.
        eapply star_eq; [constructor|]. f_equal. unfold compile_stmts. lens.
      * exists σ1. split; [exact S0|].
        destruct (post_enter ClAutoEscape SigBreak lc _ _ _ _ _ _ _ _ _ (fun l pc => unwound pc (lc_pending l) stk s' esc escs caps its calls) P2 ltac:(discriminate) ltac:(reflexivity)) as [l [-> ->]].
        cbn [post]. eauto.
      * exists σ1. split; [exact S0|].
        destruct (post_enter ClAutoEscape SigContinue lc _ _ _ _ _ _ _ _ _ (fun l pc => unwound pc (lc_pending l) stk s' esc escs caps its calls) P2 ltac:(discriminate) ltac:(reflexivity)) as [l [-> ->]].
        cbn [post]. eauto.
    + (* SBreak *) cbn [compile_stmt] in Hc |- *.
      inversion He; subst. destruct lc as [l|]; [|exfalso; apply Hin; auto].
      cbn [lc_fits] in Hf.
      exists (unwound (lc_end l) (lc_pending l) stk s' esc escs caps its calls). split; [|cbn [post]; eauto].
      pose proof (cleanup_sim (lc_pending l) base stk s' esc escs caps its calls Hf ltac:(eapply code_at_app_l; eauto)) as S1.
      apply code_at_app_r in Hc.
      eapply star_trans; [exact S1|]. apply star_one. apply unwound_jump. eapply code_at_head; eauto.
    + (* SContinue *) cbn [compile_stmt] in Hc |- *.
      inversion He; subst. destruct lc as [l|]; [|exfalso; apply Hin; auto].
      cbn [lc_fits] in Hf.
      exists (unwound (lc_iter l) (lc_pending l) stk s' esc escs caps its calls). split; [|cbn [post]; eauto].
      pose proof (cleanup_sim (lc_pending l) base stk s' esc escs caps its calls Hf ltac:(eapply code_at_app_l; eauto)) as S1.
      apply code_at_app_r in Hc.
      eapply star_trans; [exact S1|]. apply star_one. apply unwound_jump. eapply code_at_head; eauto.
  - intros inl l Hw esc s sg s' He Hi base lc stk escs caps its calls Hc Hin Hf.
    destruct l as [|t r]; cbn [exec_list] in He.
    + inversion He; subst. eexists; split; [constructor|]. cbn. now rewrite Nat.add_0_r.
    + cbn [forallb] in Hw. apply andb_prop in Hw as [Ht Hr].
      bstep He p1 E1. destruct p1 as [sg1 s1].
      unfold compile_stmts in Hc |- *. cbn [seq_code] in Hc |- *.
      fold (compile_stmts r (base + length (compile_stmt t base lc)) lc) in Hc |- *.
      assert (Hi1 : Inv s1).
      { refine (SV inl t Ht _ _ _ _ _ Hi E1). exists base, lc. eapply code_at_app_l; exact Hc. }
      destruct (IHs inl t Ht _ _ _ _ E1 Hi base lc stk escs caps its calls ltac:(eapply code_at_app_l; eauto) Hin Hf) as [σ1 [S1 P1]].
      apply code_at_app_r in Hc.
      destruct sg1.
      * cbn [post] in P1. subst σ1.
        assert (Hf1 : lc_fits lc (length (s_env s1)) (length escs) (length caps)).
        { apply exec_R_proof in E1. destruct E1 as [_ L]. rewrite L. exact Hf. }
        destruct (IHl inl r Hr _ _ _ _ He Hi1 _ lc stk escs caps its calls Hc Hin Hf1) as [σ2 [S2 P2]].
        exists σ2. split; [eapply star_trans; [exact S1|exact S2]|].
        eapply post_endpc; [|exact P2]. left. rewrite app_length. lia.
      * inversion He; subst. exists σ1. split; [exact S1|]. eapply post_endpc; [|exact P1]. right. discriminate.
      * inversion He; subst. exists σ1. split; [exact S1|]. eapply post_endpc; [|exact P1]. right. discriminate.
Qed.

End SimStmt.
