(* C03, bytecode level: every BuildMacro of compiled code points at the code of the macro it builds. *)
From MJ Require Import Common.Base Lang.Syntax Lang.Meta Lang.Interp.
From MJ Require Import C04.Model.
From MJ Require Import L2.Instr.
From MJ Require Import L2.Compile.
From MJ Require Import L2.Vm.
From MJ Require Import L2.Simulation C03.L2Pos C03.L2Base.
Local Open Scope nat_scope.

(* induction principle for expressions with their nested lists *)
Section ExprInd.
Variable P : expr -> Prop.
Hypothesis Hconst : forall l, P (EConst l).
Hypothesis Hvar : forall x, P (EVar x).
Hypothesis Hlist : forall items, Forall P items -> P (EList items).
Hypothesis Hmap : forall pairs, Forall (fun p => P (fst p) /\ P (snd p)) pairs -> P (EMap pairs).
Hypothesis Hneg : forall a, P a -> P (ENeg a).
Hypothesis Hnot : forall a, P a -> P (ENot a).
Hypothesis Hbin : forall op a b, P a -> P b -> P (EBin op a b).
Hypothesis Hcmp : forall a rest, P a -> Forall (fun p => P (snd p)) rest -> P (ECmp a rest).
Hypothesis Hand : forall a b, P a -> P b -> P (EAnd a b).
Hypothesis Hor : forall a b, P a -> P b -> P (EOr a b).
Hypothesis Hif : forall c t f, P c -> P t -> match f with Some x => P x | None => True end -> P (EIf c t f).
Hypothesis Hitem : forall a i, P a -> P i -> P (EItem a i).
Hypothesis Hattr : forall a x, P a -> P (EAttr a x).
Hypothesis Hfilter : forall f a args, P a -> Forall P args -> P (EFilter f a args).
Hypothesis Htest : forall t a args n, P a -> Forall P args -> P (ETest t a args n).
Hypothesis Hcall : forall f args kw, Forall P args -> Forall (fun p => P (snd p)) kw -> P (ECall f args kw).

Fixpoint expr_ind' (e : expr) : P e :=
  let go := fix go (l : list expr) : Forall P l :=
    match l with [] => Forall_nil P | x :: r => Forall_cons x (expr_ind' x) (go r) end in
  let goo (o : option expr) : match o with Some x => P x | None => True end :=
    match o with Some x => expr_ind' x | None => I end in
  match e with
  | EConst l => Hconst l
  | EVar x => Hvar x
  | EList items => Hlist items (go items)
  | EMap pairs =>
      Hmap pairs
        ((fix gm (l : list (expr * expr)) : Forall (fun p => P (fst p) /\ P (snd p)) l :=
            match l with
            | [] => Forall_nil _
            | p :: r => @Forall_cons _ (fun p => P (fst p) /\ P (snd p)) p r
                          (match p as p0 return P (fst p0) /\ P (snd p0) with (k, x) => conj (expr_ind' k) (expr_ind' x) end) (gm r)
            end) pairs)
  | ENeg a => Hneg a (expr_ind' a)
  | ENot a => Hnot a (expr_ind' a)
  | EBin op a b => Hbin op a b (expr_ind' a) (expr_ind' b)
  | ECmp a rest =>
      Hcmp a rest (expr_ind' a)
        ((fix gc (l : list (cmpop * expr)) : Forall (fun p => P (snd p)) l :=
            match l with
            | [] => Forall_nil _
            | p :: r => @Forall_cons _ (fun p => P (snd p)) p r (match p as p0 return P (snd p0) with (_, x) => expr_ind' x end) (gc r)
            end) rest)
  | EAnd a b => Hand a b (expr_ind' a) (expr_ind' b)
  | EOr a b => Hor a b (expr_ind' a) (expr_ind' b)
  | EIf c t f => Hif c t f (expr_ind' c) (expr_ind' t) (goo f)
  | EItem a i => Hitem a i (expr_ind' a) (expr_ind' i)
  | EAttr a x => Hattr a x (expr_ind' a)
  | EFilter f a args => Hfilter f a args (expr_ind' a) (go args)
  | ETest t a args n => Htest t a args n (expr_ind' a) (go args)
  | ECall f args kw =>
      Hcall f args kw (go args)
        ((fix gk (l : list (name * expr)) : Forall (fun p => P (snd p)) l :=
            match l with
            | [] => Forall_nil _
            | p :: r => @Forall_cons _ (fun p => P (snd p)) p r (match p as p0 return P (snd p0) with (_, x) => expr_ind' x end) (gk r)
            end) kw)
  end.
End ExprInd.

(* no expression code builds a macro *)
Definition nob (i : instr) : bool := match i with IBuildMacro _ _ _ => false | _ => true end.
Definition nobl (code : list instr) : Prop := forallb nob code = true.

Lemma nobl_app a b : nobl a -> nobl b -> nobl (a ++ b).
Proof. unfold nobl. intros Ha Hb. rewrite forallb_app, Ha, Hb. reflexivity. Qed.

Lemma nobl_seq (ce : expr -> nat -> list instr) items : Forall (fun e => forall base, nobl (ce e base)) items ->
  forall base, nobl (seq_code ce items base).
Proof. induction 1 as [|x r Hx Hr IH]; intros base; cbn [seq_code]; [reflexivity|]. apply nobl_app; auto. Qed.

Lemma nobl_pairs (ce : expr -> nat -> list instr) pairs :
  Forall (fun p => (forall base, nobl (ce (fst p) base)) /\ (forall base, nobl (ce (snd p) base))) pairs ->
  forall base, nobl (pairs_code ce pairs base).
Proof.
  induction 1 as [|[k x] r [Hk Hx] Hr IH]; intros base; cbn [pairs_code]; [reflexivity|].
  cbn [fst snd] in *. apply nobl_app; [apply Hk|]. apply nobl_app; [apply Hx|apply IH].
Qed.

Lemma nobl_emit op : nobl (emit_compare op).
Proof. destruct op; reflexivity. Qed.

Lemma nobl_chain rest : Forall (fun p => forall base, nobl (compile_expr (snd p) base)) rest ->
  forall pc cl, nobl (chain_code compile_expr rest pc cl).
Proof.
  induction 1 as [|[op r] l' Hr Hl IH]; intros pc cl; cbn [chain_code]; [reflexivity|].
  cbn [snd] in Hr. destruct l'; [apply nobl_app; [apply Hr|apply nobl_emit]|].
  apply nobl_app; [apply Hr|]. apply nobl_app; [reflexivity|apply IH].
Qed.

Lemma nobl_kwargs kw : Forall (fun p => forall base, nobl (compile_expr (snd p) base)) kw ->
  forall pc, nobl (kwargs_code compile_expr kw pc).
Proof.
  induction 1 as [|[k x] r Hx Hr IH]; intros pc; cbn [kwargs_code]; [reflexivity|].
  cbn [snd] in Hx. change (ILoadKey k :: compile_expr x (pc + 1) ++ kwargs_code compile_expr r (pc + 1 + length (compile_expr x (pc + 1))))
    with ([ILoadKey k] ++ compile_expr x (pc + 1) ++ kwargs_code compile_expr r (pc + 1 + length (compile_expr x (pc + 1)))).
  apply nobl_app; [reflexivity|]. apply nobl_app; [apply Hx|apply IH].
Qed.

Lemma nobl_expr : forall e base, nobl (compile_expr e base).
Proof.
  apply (expr_ind' (fun e => forall base, nobl (compile_expr e base))); intros; cbn [compile_expr];
    match goal with |- nobl (match ?X with _ => _ end) => destruct X; [reflexivity|] end;
    repeat first [reflexivity | apply nobl_app | apply nobl_seq; assumption | apply nobl_pairs; assumption | match goal with H : _ |- _ => apply H end].
  - (* ECmp *)
    destruct rest as [|[op b] [|p2 rest']].
    + apply H.
    + inversion H0; subst. cbn [snd] in *. repeat apply nobl_app; auto using nobl_emit.
    + apply nobl_app; [apply H|]. apply nobl_app; [apply nobl_chain; exact H0|reflexivity].
  - (* EIf *) destruct f; repeat apply nobl_app; auto; reflexivity.
  - (* ETest *) destruct n; repeat apply nobl_app; auto; try reflexivity; apply nobl_seq; assumption.
  - (* ECall *)
    destruct kw as [|k0 kr]; [apply nobl_app; [apply nobl_seq; assumption|reflexivity]|].
    destruct (static_kwargs (k0 :: kr)); repeat apply nobl_app; try reflexivity; try (apply nobl_seq; assumption).
    apply nobl_kwargs; assumption.
Qed.

(* ---- every BuildMacro of compiled code points at the code of its macro ---- *)
Lemma nobl_notin code mc off fl : nobl code -> ~ In (IBuildMacro mc off fl) code.
Proof. unfold nobl. intros H Hin. rewrite forallb_forall in H. specialize (H _ Hin). discriminate. Qed.

Lemma nobl_assign t : nobl (assign_code t).
Proof. destruct t; reflexivity. Qed.

Lemma nobl_binds binds : forall pc, nobl (binds_code binds pc).
Proof.
  induction binds as [|[x e] r IH]; intros pc; cbn [binds_code]; [reflexivity|].
  apply nobl_app; [apply nobl_expr|]. apply nobl_app; [apply nobl_assign|apply IH].
Qed.

Lemma nobl_params ds ps : forall pc, nobl (params_code ds ps pc).
Proof.
  induction ps as [|p r IH]; intros pc; cbn [params_code]; [reflexivity|].
  destruct (default_of p ds).
  - apply nobl_app; [reflexivity|]. apply nobl_app; [apply nobl_expr|].
    change (IStoreLocal p :: params_code ds r (pc + 4 + length (compile_expr e (pc + 4)) + 1)) with ([IStoreLocal p] ++ params_code ds r (pc + 4 + length (compile_expr e (pc + 4)) + 1)).
    apply nobl_app; [reflexivity|apply IH].
  - change (IStoreLocal p :: params_code ds r (pc + 1)) with ([IStoreLocal p] ++ params_code ds r (pc + 1)). apply nobl_app; [reflexivity|apply IH].
Qed.

Lemma nobl_cleanup p : nobl (cleanup_code p).
Proof. induction p as [|k p IH]; cbn [cleanup_code flat_map]; [reflexivity|]. apply nobl_app; [destruct k; reflexivity|exact IH]. Qed.

Lemma nobl_pre tgt iter flt rc base : nobl (f_pre tgt iter flt rc base).
Proof.
  unfold f_pre. destruct flt.
  - repeat (apply nobl_app; [first [reflexivity|apply nobl_expr|apply nobl_assign]|]). reflexivity.
  - apply nobl_app; [apply nobl_expr|reflexivity].
Qed.

Definition wfs (t : stmt) : Prop :=
  forall C base lc, code_at C base (compile_stmt t base lc) ->
  forall mc off fl, In (IBuildMacro mc off fl) (compile_stmt t base lc) -> code_at C off (mcode mc off).
Definition wfl (l : list stmt) : Prop :=
  forall C base lc, code_at C base (compile_stmts l base lc) ->
  forall mc off fl, In (IBuildMacro mc off fl) (compile_stmts l base lc) -> code_at C off (mcode mc off).

Lemma wfl_of l : Forall wfs l -> wfl l.
Proof.
  induction 1 as [|t r Ht Hr IH]; intros C base lc Hc mc off fl Hin; [destruct Hin|].
  unfold compile_stmts in Hc, Hin. cbn [seq_code] in Hc, Hin. apply in_app_or in Hin as [Hin|Hin].
  - eapply Ht; [eapply code_at_app_l; exact Hc|exact Hin].
  - eapply IH; [eapply code_at_app_r; exact Hc|exact Hin].
Qed.

Lemma wf_if_code els lc arms : Forall (fun p => wfl (snd p)) arms -> match els with Some b => wfl b | None => True end ->
  forall C base, code_at C base (if_code (fun b pc => compile_stmts b pc lc) els arms base) ->
  forall mc off fl, In (IBuildMacro mc off fl) (if_code (fun b pc => compile_stmts b pc lc) els arms base) -> code_at C off (mcode mc off).
Proof.
  intros Ha He. induction Ha as [|[cnd body] r Hb Hr IH]; intros C base Hc mc off fl Hin; cbn [if_code] in Hc, Hin.
  - destruct els as [b|]; [eapply He; eauto|destruct Hin].
  - fold (if_code (fun b pc => compile_stmts b pc lc) els) in Hc, Hin. cbn [snd] in Hb.
    set (cc := compile_expr cnd base) in *. set (ct := compile_stmts body (base + length cc + 1) lc) in *.
    assert (Hct : forall X, code_at C base (cc ++ [IJumpIfFalse X] ++ ct) \/ (exists Y Z, code_at C base (cc ++ [IJumpIfFalse X] ++ ct ++ Y ++ Z)) ->
              In (IBuildMacro mc off fl) ct -> code_at C off (mcode mc off)).
    { intros X HX Hi. eapply (Hb C (base + length cc + 1) lc); [|exact Hi]. fold ct.
      destruct HX as [HX|(Y & Z & HX)]; apply code_at_app_r in HX; apply code_at_tail in HX;
        (eapply code_at_pc; [|instantiate (1 := S (base + length cc)); lia]); [exact HX|eapply code_at_app_l; exact HX]. }
    destruct r as [|a2 r']; [destruct (nonempty_body els)|].
    all: apply in_app_or in Hin as [Hin|Hin]; [exfalso; eapply nobl_notin; [apply nobl_expr|exact Hin]|].
    all: apply in_app_or in Hin as [Hin|Hin]; [cbn in Hin; destruct Hin as [Hin|[]]; discriminate|].
    + apply in_app_or in Hin as [Hin|Hin]; [eapply Hct; [right; eauto|exact Hin]|].
      apply in_app_or in Hin as [Hin|Hin]; [cbn in Hin; destruct Hin as [Hin|[]]; discriminate|].
      eapply IH; [|exact Hin]. apply code_at_app_r in Hc. apply code_at_tail in Hc. apply code_at_app_r in Hc. apply code_at_tail in Hc.
      eapply code_at_pc; [exact Hc|]. fold ct. lia.
    + eapply Hct; [left; eauto|exact Hin].
    + apply in_app_or in Hin as [Hin|Hin]; [eapply Hct; [right; eauto|exact Hin]|].
      apply in_app_or in Hin as [Hin|Hin]; [cbn in Hin; destruct Hin as [Hin|[]]; discriminate|].
      eapply IH; [|exact Hin]. apply code_at_app_r in Hc. apply code_at_tail in Hc. apply code_at_app_r in Hc. apply code_at_tail in Hc.
      eapply code_at_pc; [exact Hc|]. fold ct. lia.
Qed.

Lemma wf_macro_code body nm ps ds base C X : wfl body ->
  code_at C base (macro_code (fun b pc => compile_stmts b pc None) nm ps ds body base ++ X) ->
  forall mc off fl, In (IBuildMacro mc off fl) (macro_code (fun b pc => compile_stmts b pc None) nm ps ds body base) ->
  code_at C off (mcode mc off).
Proof.
  intros Hb Hc mc off fl Hin. unfold macro_code in Hc, Hin.
  set (cp := params_code ds (rev ps) (base + 1)) in *.
  set (cbody := compile_stmts body (base + 1 + length cp) None) in *.
  rewrite <- !app_assoc in Hc. apply code_at_tail in Hc.
  replace (S base) with (base + 1) in Hc by lia.
  assert (Hm : code_at C (base + 1) (cp ++ cbody ++ [IReturn])).
  { match type of Hc with code_at _ _ (cp ++ cbody ++ [IReturn] ++ ?R) =>
      replace (cp ++ cbody ++ [IReturn] ++ R) with ((cp ++ cbody ++ [IReturn]) ++ R) in Hc by (rewrite <- !app_assoc; reflexivity) end.
    eapply code_at_app_l; exact Hc. }
  apply in_app_or in Hin as [Hin|Hin]; [cbn in Hin; destruct Hin as [Hin|[]]; discriminate|].
  apply in_app_or in Hin as [Hin|Hin]; [exfalso; eapply nobl_notin; [apply nobl_params|exact Hin]|].
  apply in_app_or in Hin as [Hin|Hin].
  { eapply Hb; [|exact Hin]. apply code_at_app_r in Hm. eapply code_at_app_l; exact Hm. }
  apply in_app_or in Hin as [Hin|Hin]; [cbn in Hin; destruct Hin as [Hin|[]]; discriminate|].
  apply in_app_or in Hin as [Hin|Hin]; [apply in_map_iff in Hin as (x & Hx & _); discriminate|].
  cbn in Hin. destruct Hin as [Hin|[Hin|[Hin|[]]]]; try discriminate.
  inversion Hin; subst. unfold mcode. cbn [m_defaults m_params m_body]. exact Hm.
Qed.

Lemma wfs_all : forall t, wfs t.
Proof.
  apply stmt_ind'; unfold wfs.
  - intros t C base lc Hc mc off fl Hin. cbn in Hin. destruct Hin as [Hin|[]]; discriminate.
  - intros e C base lc Hc mc off fl Hin. cbn [compile_stmt] in Hin. apply in_app_or in Hin as [Hin|Hin].
    + exfalso; eapply nobl_notin; [apply nobl_expr|exact Hin].
    + cbn in Hin. destruct Hin as [Hin|[]]; discriminate.
  - (* SIf *) intros arms els Ha He C base lc Hc mc off fl Hin. cbn [compile_stmt] in Hc, Hin.
    eapply (wf_if_code els lc arms); eauto.
    + eapply Forall_impl; [|exact Ha]. intros p Hp. apply wfl_of. exact Hp.
    + destruct els; [apply wfl_of; exact He|exact I].
  - (* SFor *) intros tg iter flt body els rc Hb He C base lc Hc mc off fl Hin.
    rewrite compile_for_eq in Hc, Hin.
    apply in_app_or in Hin as [Hin|Hin]; [exfalso; eapply nobl_notin; [apply nobl_pre|exact Hin]|].
    apply in_app_or in Hin as [Hin|Hin]; [cbn in Hin; destruct Hin as [Hin|[]]; discriminate|].
    apply in_app_or in Hin as [Hin|Hin]; [exfalso; eapply nobl_notin; [apply nobl_assign|exact Hin]|].
    apply code_at_app_r in Hc. apply code_at_tail in Hc. apply code_at_app_r in Hc.
    apply in_app_or in Hin as [Hin|Hin].
    + eapply (wfl_of body Hb); [|exact Hin]. eapply code_at_app_l. eapply code_at_pc; [exact Hc|].
      unfold f_body_at, f_it. lia.
    + apply code_at_app_r in Hc.
      destruct els as [[|x b]|]; try (cbn in Hin; destruct Hin as [Hin|[Hin|[]]]; discriminate).
      apply in_app_or in Hin as [Hin|Hin]; [cbn in Hin; destruct Hin as [Hin|[Hin|[Hin|[Hin|[]]]]]; discriminate|].
      eapply (wfl_of (x :: b) He); [|exact Hin]. apply code_at_app_r in Hc. eapply code_at_pc; [exact Hc|].
      pose proof (f_end_eq tg iter flt rc body base) as Hfe. unfold f_body_at, f_it in *. cbn [length] in *. lia.
  - (* SSet *) intros x e C base lc Hc mc off fl Hin. cbn [compile_stmt] in Hin. apply in_app_or in Hin as [Hin|Hin].
    + exfalso; eapply nobl_notin; [apply nobl_expr|exact Hin].
    + exfalso; eapply nobl_notin; [apply nobl_assign|exact Hin].
  - (* SSetBlock *) intros x body f Hb C base lc Hc mc off fl Hin. cbn [compile_stmt] in Hc, Hin.
    apply in_app_or in Hin as [Hin|Hin]; [cbn in Hin; destruct Hin as [Hin|[]]; discriminate|].
    apply in_app_or in Hin as [Hin|Hin].
    + eapply (wfl_of body Hb); [|exact Hin]. apply code_at_tail in Hc. eapply code_at_app_l. eapply code_at_pc; [exact Hc|lia].
    + exfalso. destruct f; cbn in Hin; intuition discriminate.
  - (* SWith *) intros binds body Hb C base lc Hc mc off fl Hin. cbn [compile_stmt] in Hc, Hin.
    apply in_app_or in Hin as [Hin|Hin]; [cbn in Hin; destruct Hin as [Hin|[]]; discriminate|].
    apply in_app_or in Hin as [Hin|Hin]; [exfalso; eapply nobl_notin; [apply nobl_binds|exact Hin]|].
    apply in_app_or in Hin as [Hin|Hin]; [|cbn in Hin; destruct Hin as [Hin|[]]; discriminate].
    eapply (wfl_of body Hb); [|exact Hin]. apply code_at_tail in Hc. apply code_at_app_r in Hc. eapply code_at_app_l.
    eapply code_at_pc; [exact Hc|lia].
  - (* SMacro *) intros m ps ds body Hb C base lc Hc mc off fl Hin. cbn [compile_stmt] in Hc, Hin.
    apply in_app_or in Hin as [Hin|Hin]; [|cbn in Hin; destruct Hin as [Hin|[]]; discriminate].
    eapply wf_macro_code; [apply wfl_of; exact Hb|exact Hc|exact Hin].
  - (* SCallBlock *) intros m args body Hb C base lc Hc mc off fl Hin. cbn [compile_stmt] in Hc, Hin.
    apply in_app_or in Hin as [Hin|Hin]; [exfalso; eapply nobl_notin; [apply nobl_seq; apply Forall_forall; intros; apply nobl_expr|exact Hin]|].
    apply in_app_or in Hin as [Hin|Hin]; [cbn in Hin; destruct Hin as [Hin|[]]; discriminate|].
    apply in_app_or in Hin as [Hin|Hin]; [|cbn in Hin; intuition discriminate].
    apply code_at_app_r in Hc. apply code_at_tail in Hc.
    eapply wf_macro_code; [apply wfl_of; exact Hb| |exact Hin]. eapply code_at_pc; [exact Hc|lia].
  - (* SFilterBlock *) intros f body Hb C base lc Hc mc off fl Hin. cbn [compile_stmt] in Hc, Hin.
    apply in_app_or in Hin as [Hin|Hin]; [cbn in Hin; destruct Hin as [Hin|[]]; discriminate|].
    apply in_app_or in Hin as [Hin|Hin]; [|cbn in Hin; intuition discriminate].
    eapply (wfl_of body Hb); [|exact Hin]. apply code_at_tail in Hc. eapply code_at_app_l. eapply code_at_pc; [exact Hc|lia].
  - (* SAutoEscape *) intros v body Hb C base lc Hc mc off fl Hin. cbn [compile_stmt] in Hc, Hin.
    apply in_app_or in Hin as [Hin|Hin]; [exfalso; eapply nobl_notin; [apply nobl_expr|exact Hin]|].
    apply in_app_or in Hin as [Hin|Hin]; [cbn in Hin; destruct Hin as [Hin|[]]; discriminate|].
    apply in_app_or in Hin as [Hin|Hin]; [|cbn in Hin; destruct Hin as [Hin|[]]; discriminate].
    eapply (wfl_of body Hb); [|exact Hin]. apply code_at_app_r in Hc. apply code_at_tail in Hc. eapply code_at_app_l.
    eapply code_at_pc; [exact Hc|lia].
  - (* SBreak *) intros C base lc Hc mc off fl Hin. cbn [compile_stmt] in Hin. destruct lc; [|destruct Hin].
    apply in_app_or in Hin as [Hin|Hin]; [exfalso; eapply nobl_notin; [apply nobl_cleanup|exact Hin]|cbn in Hin; destruct Hin as [Hin|[]]; discriminate].
  - (* SContinue *) intros C base lc Hc mc off fl Hin. cbn [compile_stmt] in Hin. destruct lc; [|destruct Hin].
    apply in_app_or in Hin as [Hin|Hin]; [exfalso; eapply nobl_notin; [apply nobl_cleanup|exact Hin]|cbn in Hin; destruct Hin as [Hin|[]]; discriminate].
Qed.

Theorem wf_compile_template body : wf_code (compile_template body).
Proof.
  intros pc mc off fl Hn. apply nth_error_In in Hn.
  assert (Hl : wfl body) by (apply wfl_of; apply Forall_forall; intros; apply wfs_all).
  eapply (Hl (compile_template body) 0 None); [|exact Hn].
  exists [], []. split; [unfold compile_template; now rewrite app_nil_r|reflexivity].
Qed.
