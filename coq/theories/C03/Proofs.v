From MJ Require Import Common.Base Lang.Syntax Lang.Meta Lang.Interp.

Lemma loop_fields_proof i n : 0 <= i < n ->
  loop_attr i n A_index = Some (VInt (i + 1)) /\
  loop_attr i n A_index0 = Some (VInt i) /\
  loop_attr i n A_revindex = Some (VInt (n - i)) /\
  loop_attr i n A_revindex0 = Some (VInt (n - i - 1)) /\
  loop_attr i n A_length = Some (VInt n) /\
  loop_attr i n A_first = Some (VBool (i =? 0)) /\
  loop_attr i n A_last = Some (VBool (i =? n - 1)).
Proof. intros _. repeat split. Qed.
