(* C03 proofs about the reference semantics: loop fields; scoping (which constructs can change
   which part of the variable environment). *)
From MJ Require Import Common.Base Lang.Syntax Lang.Meta Lang.Interp.

Lemma loop_fields_proof i n : 0 <= i < n ->
  loop_attr i n A_index = Some (VInt (i + 1)) /\
  loop_attr i n A_index0 = Some (VInt i) /\
  loop_attr i n A_revindex = Some (VInt (n - i)) /\
  loop_attr i n A_revindex0 = Some (VInt (n - i - 1)) /\
  loop_attr i n A_length = Some (VInt n) /\
  loop_attr i n A_first = Some (VBool (i =? 0)) /\
  loop_attr i n A_last = Some (VBool (i =? n - 1)).
Proof. intros _. repeat split. Qed.

Lemma bind_ok {A B} (o : outcome A) (f : A -> outcome B) r :
  bind o f = Ok r -> exists a, o = Ok a /\ f a = Ok r.
Proof. destruct o; cbn; intros H; try discriminate. eauto. Qed.

(* one inversion step of [bind o f = Ok r], with explicit names *)
Ltac bstep H a Ho := apply bind_ok in H; destruct H as (a & Ho & H); cbv beta in H.

(* [R s s']: only the innermost scope may differ *)
Definition R (s s' : st) : Prop :=
  tl (s_env s') = tl (s_env s) /\ length (s_env s') = length (s_env s).

Lemma R_refl s : R s s. Proof. split; reflexivity. Qed.
Lemma R_trans a b c : R a b -> R b c -> R a c.
Proof. intros [H1 H2] [H3 H4]. split; congruence. Qed.
Lemma R_of_eq s s' : s_env s' = s_env s -> R s s'.
Proof. intros H. split; rewrite H; reflexivity. Qed.

Lemma lookup_env c s x v s' : lookup c s x = (v, s') -> s_env s' = s_env s.
Proof.
  unfold lookup. destruct (load c (s_clos s) (s_env s) x) as [v0 asked].
  intros H. inversion H; subst. destruct asked; reflexivity.
Qed.

Lemma store_R s x v : R s (store s x v).
Proof. unfold store, R. destruct (s_env s) as [|f r] eqn:E; cbn; rewrite ?E; cbn; auto. Qed.

Lemma store_env_cons s x v f r : s_env s = f :: r -> exists f', s_env (store s x v) = f' :: r.
Proof. intros H. unfold store. rewrite H. cbn. eauto. Qed.

Lemma enclose_fold_env c id names : forall s,
  s_env (fold_left (fun s x =>
            match nth_error (s_clos s) id with
            | Some cl =>
                match assoc x cl with
                | Some _ => s
                | None => let '(v, s') := lookup c s x in
                          mkSt (s_env s') (set_nth_clos id (assoc_set x (match v with Some v => v | None => VUndef end)) (s_clos s'))
                               (s_out s') (s_asks s')
                end
            | None => s
            end) names s) = s_env s.
Proof.
  induction names as [|x names IH]; intros s; cbn [fold_left]; [reflexivity|].
  rewrite IH. destruct (nth_error (s_clos s) id) as [cl|]; [|reflexivity].
  destruct (assoc x cl); [reflexivity|].
  destruct (lookup c s x) as [v s'] eqn:E. cbn. eapply lookup_env; eassumption.
Qed.

Lemma enclose_R c s names s' cl : enclose c s names = (s', cl) -> R s s'.
Proof.
  unfold enclose. destruct names as [|n names].
  - intros H. inversion H; subst. apply R_refl.
  - set (nl := n :: names). destruct (s_env s) as [|f r] eqn:Ee.
    + intros H. inversion H; subst. apply R_refl.
    + destruct (f_closure f) as [id|].
      * intros H. apply (f_equal fst) in H. cbn [fst] in H. subst s'.
        apply R_of_eq. apply enclose_fold_env.
      * intros H. apply (f_equal fst) in H. cbn [fst] in H. subst s'.
        unfold R. rewrite enclose_fold_env. cbn [s_env]. rewrite Ee. cbn. auto.
Qed.

Section Combinators.
Variable ev : st -> expr -> outcome (value * st).
Hypothesis Hev : forall s e v s', ev s e = Ok (v, s') -> s_env s' = s_env s.

Lemma map_eval_env : forall l s vs s', map_eval ev s l = Ok (vs, s') -> s_env s' = s_env s.
Proof.
  induction l as [|x r IH]; intros s vs s' H; cbn [map_eval] in H.
  - inversion H; reflexivity.
  - bstep H p1 E1. destruct p1 as [v s1]. bstep H p2 E2. destruct p2 as [vs' s2]. inversion H; subst.
    rewrite (IH _ _ _ E2). eapply Hev; eassumption.
Qed.

Lemma map_eval_kw_env : forall l s vs s', map_eval_kw ev s l = Ok (vs, s') -> s_env s' = s_env s.
Proof.
  induction l as [|[k x] r IH]; intros s vs s' H; cbn [map_eval_kw] in H.
  - inversion H; reflexivity.
  - bstep H p1 E1. destruct p1 as [v s1]. bstep H p2 E2. destruct p2 as [vs' s2]. inversion H; subst.
    rewrite (IH _ _ _ E2). eapply Hev; eassumption.
Qed.

Lemma cmp_chain_env m : forall l left s v s', cmp_chain m ev left s l = Ok (v, s') -> s_env s' = s_env s.
Proof.
  induction l as [|[op r] l IH]; intros left s v s' H; cbn [cmp_chain] in H.
  - inversion H; reflexivity.
  - bstep H p1 E1. destruct p1 as [y s2]. bstep H b E2. destruct l as [|p l'].
    + inversion H; subst. eapply Hev; eassumption.
    + destruct b.
      * rewrite (IH _ _ _ _ H). eapply Hev; eassumption.
      * inversion H; subst. eapply Hev; eassumption.
Qed.

Lemma map_eval_pairs_env : forall l s vs s', map_eval_pairs ev s l = Ok (vs, s') -> s_env s' = s_env s.
Proof.
  induction l as [|[k x] r IH]; intros s vs s' H; cbn [map_eval_pairs] in H.
  - inversion H; reflexivity.
  - bstep H p1 E1. destruct p1 as [kv s1]. bstep H p2 E2. destruct p2 as [xv s2].
    bstep H p3 E3. destruct p3 as [vs' s3]. inversion H; subst.
    rewrite (IH _ _ _ E3). rewrite (Hev _ _ _ _ E2). eapply Hev; eassumption.
Qed.

Lemma bind_target_R tgt s item s' : bind_target tgt s item = Ok s' -> R s s'.
Proof.
  unfold bind_target. destruct tgt as [x|x y].
  - intros H; inversion H; apply store_R.
  - destruct (unpack_items item) as [[|a [|b [|? ?]]]|]; try discriminate.
    intros H; inversion H. eapply R_trans; apply store_R.
Qed.

Lemma with_binds_R : forall l s s', with_binds ev s l = Ok s' -> R s s'.
Proof.
  induction l as [|[x e] r IH]; intros s s' H; cbn [with_binds] in H.
  - inversion H; apply R_refl.
  - bstep H p1 E1. destruct p1 as [v s1]. bstep H s2 E2. eapply R_trans; [|eapply IH; eassumption].
    eapply R_trans; [apply R_of_eq; eapply Hev; eassumption|eapply bind_target_R; eassumption].
Qed.

Lemma filter_items_env m tgt fe : forall l s r s', filter_items m ev tgt fe s l = Ok (r, s') -> s_env s' = s_env s.
Proof.
  induction l as [|item l IH]; intros s r s' H; cbn [filter_items] in H.
  - inversion H; reflexivity.
  - bstep H sf1 E1. bstep H p2 E2. destruct p2 as [v sf2]. bstep H keep E3. bstep H p4 E4. destruct p4 as [rest s3].
    inversion H; subst.
    rewrite (IH _ _ _ E4). unfold pop_frame; cbn [s_env].
    rewrite (Hev _ _ _ _ E2). apply bind_target_R in E1 as [Ht _]. rewrite Ht. reflexivity.
Qed.
End Combinators.

Section Statements.
Variable ex : st -> list stmt -> outcome (signal * st).
Hypothesis Hex : forall s l sg s', ex s l = Ok (sg, s') -> R s s'.
Variable ev : st -> expr -> outcome (value * st).
Hypothesis Hev : forall s e v s', ev s e = Ok (v, s') -> s_env s' = s_env s.

Lemma if_arms_R m els : forall l s sg s', if_arms m ev ex els s l = Ok (sg, s') -> R s s'.
Proof.
  induction l as [|[cnd body] l IH]; intros s sg s' H; cbn [if_arms] in H.
  - destruct els; [eapply Hex; eassumption|inversion H; apply R_refl].
  - bstep H p1 E1. destruct p1 as [v s1]. bstep H b E2.
    eapply R_trans; [apply R_of_eq; eapply Hev; eassumption|].
    destruct b; [eapply Hex; eassumption|eapply IH; eassumption].
Qed.

Lemma loop_items_R tgt body n : forall l s i s', loop_items ex tgt body n s i l = Ok s' -> R s s'.
Proof.
  induction l as [|item l IH]; intros s i s' H; cbn [loop_items] in H.
  - inversion H; apply R_refl.
  - bstep H s3 E1. bstep H p2 E2. destruct p2 as [sg s4].
    assert (R s s4).
    { eapply R_trans; [|eapply R_trans; [eapply bind_target_R; eassumption|eapply Hex; eassumption]].
      unfold R, with_env. destruct (s_env s) as [|f0 e0] eqn:Ee; cbn [s_env tl length]; rewrite ?Ee; cbn [tl length]; auto. }
    destruct sg; try (eapply R_trans; [eassumption|eapply IH; eassumption]).
    inversion H; subst; assumption.
Qed.
End Statements.

(* the four mutually recursive functions, by induction on the fuel *)
Lemma env_all c : forall fuel,
  (forall esc s e v s', eval c fuel esc s e = Ok (v, s') -> s_env s' = s_env s) /\
  (forall esc s mc cl args kw v s', call_macro c fuel esc s mc cl args kw = Ok (v, s') -> s_env s' = s_env s) /\
  (forall esc s t sg s', exec c fuel esc s t = Ok (sg, s') -> R s s') /\
  (forall esc s l sg s', exec_list c fuel esc s l = Ok (sg, s') -> R s s').
Proof.
  induction fuel as [|fuel (IHe & IHm & IHx & IHl)].
  - repeat split; intros; discriminate.
  - assert (He : forall esc s e v s', eval c fuel esc s e = Ok (v, s') -> s_env s' = s_env s) by exact IHe.
    split; [|split; [|split]].
    + (* eval *)
      intros esc s e v s' H. cbn [eval] in H. destruct e.
      * destruct l; inversion H; reflexivity.
      * destruct (lookup c s x) as [v0 s1] eqn:E. inversion H; subst. eapply lookup_env; eassumption.
      * bstep H p1 E1. destruct p1 as [vs s1]. inversion H; subst. eapply map_eval_env; [apply He|eassumption].
      * bstep H p1 E1. destruct p1 as [vs s1]. inversion H; subst. eapply map_eval_pairs_env; [apply He|eassumption].
      * bstep H p1 E1. destruct p1 as [v0 s1]. destruct v0; inversion H; subst. eapply He; eassumption.
      * bstep H p1 E1. destruct p1 as [v0 s1]. bstep H b E2. inversion H; subst. eapply He; eassumption.
      * bstep H p1 E1. destruct p1 as [x s1]. bstep H p2 E2. destruct p2 as [y s2]. bstep H u E3. bstep H r E4.
        inversion H; subst. rewrite (He _ _ _ _ _ E2). eapply He; eassumption.
      * bstep H p1 E1. destruct p1 as [x s1]. rewrite (cmp_chain_env _ (He esc) _ _ _ _ _ _ H). eapply He; eassumption.
      * bstep H p1 E1. destruct p1 as [x s1]. bstep H b E2. destruct b.
        -- rewrite (He _ _ _ _ _ H). eapply He; eassumption.
        -- inversion H; subst. eapply He; eassumption.
      * bstep H p1 E1. destruct p1 as [x s1]. bstep H b E2. destruct b.
        -- inversion H; subst. eapply He; eassumption.
        -- rewrite (He _ _ _ _ _ H). eapply He; eassumption.
      * bstep H p1 E1. destruct p1 as [x s1]. bstep H b E2. destruct b.
        -- rewrite (He _ _ _ _ _ H). eapply He; eassumption.
        -- destruct f as [f|].
           ++ rewrite (He _ _ _ _ _ H). eapply He; eassumption.
           ++ inversion H; subst. eapply He; eassumption.
      * bstep H p1 E1. destruct p1 as [x s1]. bstep H p2 E2. destruct p2 as [k s2].
        assert (H2 : s_env s2 = s_env s) by (rewrite (He _ _ _ _ _ E2); eapply He; eassumption).
        destruct (get_item_opt x k).
        -- inversion H; subst; assumption.
        -- bstep H u E3. inversion H; subst; assumption.
      * bstep H p1 E1. destruct p1 as [x s1].
        assert (H1 : s_env s1 = s_env s) by (eapply He; eassumption).
        destruct (get_attr_opt x a).
        -- inversion H; subst; assumption.
        -- bstep H u E3. inversion H; subst; assumption.
      * bstep H p1 E1. destruct p1 as [x s1]. bstep H p2 E2. destruct p2 as [vs s2]. bstep H r E3. inversion H; subst.
        rewrite (map_eval_env _ (He esc) _ _ _ _ E2). eapply He; eassumption.
      * bstep H p1 E1. destruct p1 as [x s1]. bstep H p2 E2. destruct p2 as [vs s2]. bstep H r E3. inversion H; subst.
        rewrite (map_eval_env _ (He esc) _ _ _ _ E2). eapply He; eassumption.
      * bstep H p1 E1. destruct p1 as [vs s1]. bstep H p2 E2. destruct p2 as [kvs s2].
        destruct (lookup c s2 f) as [fv s3] eqn:El.
        assert (H3 : s_env s3 = s_env s).
        { rewrite (lookup_env _ _ _ _ _ El), (map_eval_kw_env _ (He esc) _ _ _ _ E2). eapply map_eval_env; [apply He|eassumption]. }
        destruct fv as [fv|]; [|discriminate].
        destruct fv; try discriminate.
        -- rewrite (IHm _ _ _ _ _ _ _ _ H). assumption.
        -- destruct (f0 =? N_range); [|discriminate].
           destruct vs as [|v1 vs']; [discriminate|]. destruct v1; try discriminate.
           destruct vs'; [|discriminate]. destruct kvs; [|discriminate].
           inversion H; subst; assumption.
    + (* call_macro: the caller's environment is restored by construction *)
      intros esc s mc cl args kw v s' H. cbn [call_macro] in H.
      destruct (Nat.ltb _ _); [discriminate|]. bstep H bound E1.
      match type of H with context [if ?b then _ else _] => destruct b end; [discriminate|]. bstep H s1 E2. bstep H p3 E3. destruct p3 as [sg s2].
      inversion H; reflexivity.
    + (* exec *)
      intros esc s t sg s' H. cbn [exec] in H. destruct t.
      * inversion H; subst. apply R_of_eq; reflexivity.
      * bstep H p1 E1. destruct p1 as [v s1]. destruct (_ && _); [discriminate|]. inversion H; subst.
        apply R_of_eq. cbn. eapply He; eassumption.
      * eapply if_arms_R; [apply IHl|apply He|eassumption].
      * bstep H p1 E1. destruct p1 as [iv s1]. bstep H items0 E2. bstep H p3 E3. destruct p3 as [items s2].
        assert (H2 : s_env s2 = s_env s).
        { transitivity (s_env s1); [|eapply He; eassumption].
          destruct filter as [fe|]; [eapply filter_items_env; [apply He|eassumption]|inversion E3; reflexivity]. }
        bstep H s5 E4.
        pose proof (loop_items_R _ (IHl esc) _ _ _ _ _ _ _ E4) as [Ht Hl]. cbn [push_frame s_env tl length] in Ht, Hl.
        assert (H6 : s_env (pop_frame s5) = s_env s) by (unfold pop_frame; cbn [s_env]; congruence).
        destruct items as [|i0 items]; [destruct els as [eb|]|].
        -- eapply R_trans; [apply R_of_eq; eassumption|eapply IHl; eassumption].
        -- inversion H; subst. apply R_of_eq; assumption.
        -- inversion H; subst. apply R_of_eq; assumption.
      * bstep H p1 E1. destruct p1 as [v s1]. bstep H s2 E2. inversion H; subst.
        eapply R_trans; [apply R_of_eq; eapply He; eassumption|eapply bind_target_R; eassumption].
      * bstep H p1 E1. destruct p1 as [[sg0 txt] s1]. bstep E1 p2 E2. destruct p2 as [sg1 s1'].
        inversion E1; subst.
        assert (HR : R s (with_out s1' (s_out s))).
        { apply IHl in E2. destruct E2 as [A B]. split; cbn in *; assumption. }
        destruct sg0.
        -- bstep H v E3. inversion H; subst. eapply R_trans; [eassumption|apply store_R].
        -- inversion H; subst; assumption.
        -- inversion H; subst; assumption.
      * bstep H s1 E1. bstep H p2 E2. destruct p2 as [sg0 s2]. inversion H; subst.
        apply with_binds_R in E1; [|apply He]. apply IHl in E2.
        destruct E1 as [A B], E2 as [C D]. cbn [push_frame s_env tl length] in A, B.
        apply R_of_eq. unfold pop_frame; cbn [s_env]. congruence.
      * destruct (enclose c s _) as [s1 cl] eqn:E. inversion H; subst.
        eapply R_trans; [eapply enclose_R; eassumption|apply store_R].
      * bstep H p1 E1. destruct p1 as [vs s1].
        destruct (enclose c s1 _) as [s2 cl] eqn:E.
        destruct (lookup c s2 m) as [fv s3] eqn:El.
        assert (HR : R s s3).
        { eapply R_trans; [apply R_of_eq; eapply map_eval_env; [apply He|eassumption]|].
          eapply R_trans; [eapply enclose_R; eassumption|apply R_of_eq; eapply lookup_env; eassumption]. }
        destruct fv as [fv|]; [|discriminate]. destruct fv; try discriminate.
        bstep H p4 E4. destruct p4 as [v s4]. inversion H; subst.
        eapply R_trans; [eassumption|]. apply R_of_eq. cbn. eapply IHm; eassumption.
      * bstep H p1 E1. destruct p1 as [[sg0 txt] s1]. bstep E1 p2 E2. destruct p2 as [sg1 s1'].
        inversion E1; subst.
        assert (HR : R s (with_out s1' (s_out s))).
        { apply IHl in E2. destruct E2 as [A B]. split; cbn in *; assumption. }
        destruct sg0.
        -- bstep H v E3. inversion H; subst. eapply R_trans; [eassumption|]. apply R_of_eq; reflexivity.
        -- inversion H; subst; assumption.
        -- inversion H; subst; assumption.
      * bstep H p1 E1. destruct p1 as [v0 s1]. bstep H esc' E2.
        eapply R_trans; [apply R_of_eq; eapply He; eassumption|eapply IHl; eassumption].
      * inversion H; apply R_refl.
      * inversion H; apply R_refl.
    + (* exec_list *)
      intros esc s l sg s' H. cbn [exec_list] in H. destruct l as [|t r].
      * inversion H; apply R_refl.
      * bstep H p1 E1. destruct p1 as [sg0 s1]. apply IHx in E1.
        destruct sg0; try (inversion H; subst; assumption).
        eapply R_trans; [eassumption|eapply IHl; eassumption].
Qed.

(* ---- corollaries: which construct can change which scope ---- *)
Lemma eval_env_proof c fuel esc s e v s' : eval c fuel esc s e = Ok (v, s') -> s_env s' = s_env s.
Proof. apply (env_all c fuel). Qed.

Lemma call_macro_env_proof c fuel esc s mc cl args kw v s' :
  call_macro c fuel esc s mc cl args kw = Ok (v, s') -> s_env s' = s_env s.
Proof. apply (env_all c fuel). Qed.

Lemma exec_R_proof c fuel esc s t sg s' : exec c fuel esc s t = Ok (sg, s') ->
  tl (s_env s') = tl (s_env s) /\ length (s_env s') = length (s_env s).
Proof. apply (env_all c fuel). Qed.

Lemma exec_list_R c fuel esc s l sg s' : exec_list c fuel esc s l = Ok (sg, s') -> R s s'.
Proof. apply (env_all c fuel). Qed.

Lemma with_scoped_proof c fuel esc s binds body sg s' :
  exec c fuel esc s (SWith binds body) = Ok (sg, s') -> s_env s' = s_env s.
Proof.
  destruct fuel as [|fuel]; [discriminate|]. intros H. cbn [exec] in H.
  bstep H s1 E1. bstep H p2 E2. destruct p2 as [sg0 s2]. inversion H; subst.
  apply with_binds_R in E1; [|apply eval_env_proof]. apply exec_list_R in E2.
  destruct E1 as [A B], E2 as [C D]. cbn [push_frame s_env tl length] in A, B.
  unfold pop_frame; cbn [s_env]. congruence.
Qed.

Lemma for_scoped_proof c fuel esc s tgt iter flt body rc sg s' :
  exec c fuel esc s (SFor tgt iter flt body None rc) = Ok (sg, s') -> s_env s' = s_env s.
Proof.
  destruct fuel as [|fuel]; [discriminate|]. intros H. cbn [exec] in H.
  bstep H p1 E1. destruct p1 as [iv s1]. bstep H items0 E2. bstep H p3 E3. destruct p3 as [items s2].
  assert (H2 : s_env s2 = s_env s).
  { transitivity (s_env s1); [|eapply eval_env_proof; eassumption].
    destruct flt as [fe|]; [eapply filter_items_env; [apply eval_env_proof|eassumption]|inversion E3; reflexivity]. }
  bstep H s5 E4.
  pose proof (loop_items_R _ (exec_list_R c fuel esc) _ _ _ _ _ _ _ E4) as [Ht Hl]. cbn [push_frame s_env tl length] in Ht, Hl.
  assert (H6 : s_env (pop_frame s5) = s_env s) by (unfold pop_frame; cbn [s_env]; congruence).
  destruct items; inversion H; subst; assumption.
Qed.

Lemma assoc_set_same {A} x (v : A) l : assoc x (assoc_set x v l) = Some v.
Proof.
  induction l as [|[k w] l IH]; cbn; [rewrite Z.eqb_refl; reflexivity|].
  destruct (x =? k) eqn:E; cbn; [rewrite Z.eqb_refl; reflexivity|rewrite E; exact IH].
Qed.

Lemma assoc_set_other {A} x y (v : A) l : x <> y -> assoc x (assoc_set y v l) = assoc x l.
Proof.
  intros Hne. assert (Hxy : (x =? y) = false) by (apply Z.eqb_neq; exact Hne).
  induction l as [|[k w] l IH]; cbn; [rewrite Hxy; reflexivity|].
  destruct (y =? k) eqn:E; cbn.
  - apply Z.eqb_eq in E. subst k. rewrite Hxy. reflexivity.
  - destruct (x =? k); [reflexivity|exact IH].
Qed.

Lemma set_persists_proof c fuel esc s x e sg s' : s_env s <> [] ->
  exec c fuel esc s (SSet (TVar x) e) = Ok (sg, s') ->
  exists v s1 f r, eval c (pred fuel) esc s e = Ok (v, s1) /\ s_env s' = f :: r /\ assoc x (f_locals f) = Some v
                   /\ r = tl (s_env s).
Proof.
  intros Hne H. destruct fuel as [|fuel]; [discriminate|]. cbn [exec] in H.
  bstep H p1 E1. destruct p1 as [v s1]. cbn [bind_target bind] in H. inversion H; subst. cbn [pred].
  pose proof (eval_env_proof _ _ _ _ _ _ _ E1) as He.
  unfold store. destruct (s_env s1) as [|f r] eqn:Ee; [congruence|].
  exists v, s1. eexists. exists r. cbn [s_env f_locals].
  split; [eassumption|]. split; [reflexivity|]. split.
  - apply assoc_set_same.
  - rewrite <- He. reflexivity.
Qed.

(* unpacking assignment: the right-hand side is evaluated completely, in the state before the
   statement, and only then are the two targets bound - to the two items of its value *)
Lemma set_pair_persists_proof c fuel esc s x y e sg s' : s_env s <> [] ->
  exec c fuel esc s (SSet (TPair x y) e) = Ok (sg, s') ->
  exists v s1 a b f r, eval c (pred fuel) esc s e = Ok (v, s1) /\ unpack_items v = Some [a; b] /\
                   s_env s' = f :: r /\ assoc y (f_locals f) = Some b /\ (x <> y -> assoc x (f_locals f) = Some a)
                   /\ r = tl (s_env s).
Proof.
  intros Hne H. destruct fuel as [|fuel]; [discriminate|]. cbn [exec] in H.
  bstep H p1 E1. destruct p1 as [v s1]. bstep H s2 E2. inversion H; subst. cbn [pred].
  pose proof (eval_env_proof _ _ _ _ _ _ _ E1) as He.
  cbn [bind_target] in E2. destruct (unpack_items v) as [[|a [|b [|? ?]]]|] eqn:Eu; try discriminate.
  inversion E2; subst. clear E2.
  unfold store at 1. cbn [s_env]. unfold store. destruct (s_env s1) as [|f r] eqn:Ee; [congruence|].
  cbn [s_env f_locals f_loop f_closure f_closure_ctx f_base].
  exists v, s1, a, b. eexists. exists r. cbn [f_locals].
  split; [eassumption|]. split; [exact Eu|]. split; [reflexivity|]. cbn [f_locals]. split; [apply assoc_set_same|]. split.
  - intros Hxy. rewrite assoc_set_other by exact Hxy. apply assoc_set_same.
  - rewrite <- He. reflexivity.
Qed.



Lemma if_in_place_proof c fuel esc s cnd body els v s1 :
  eval c fuel esc s cnd = Ok (v, s1) -> u_is_true (c_mode c) v = Ok true ->
  exec c (S fuel) esc s (SIf [(cnd, body)] els) = exec_list c fuel esc s1 body.
Proof.
  intros E T.
  change (exec c (S fuel) esc s (SIf [(cnd, body)] els))
    with (if_arms (c_mode c) (eval c fuel esc) (exec_list c fuel esc) els s [(cnd, body)]).
  cbn [if_arms]. rewrite E. cbn [bind]. rewrite T. reflexivity.
Qed.

(* ---- maps: the association list behind VMap (ValueMap = BTreeMap<Value, Value>) ---- *)
Lemma list_ltb_irrefl x : list_ltb x x = false.
Proof. induction x as [|a x IH]; cbn [list_ltb]; [reflexivity|]. rewrite Z.ltb_irrefl. exact IH. Qed.

Lemma value_ltb_irrefl k : value_ltb k k = false.
Proof.
  destruct k; cbn [value_ltb kind_rank]; try apply Z.ltb_irrefl.
  - destruct b; reflexivity.
  - apply list_ltb_irrefl.
Qed.

Lemma key_eqb_refl k : key_eqb k k = true.
Proof. unfold key_eqb. rewrite value_ltb_irrefl. reflexivity. Qed.

(* a key that was just inserted is found, with the inserted value: of duplicate keys in a literal the last wins *)
Lemma map_get_insert_proof k v m : map_get k (map_insert k v m) = Some v.
Proof.
  induction m as [|[k' v'] r IH]; cbn [map_insert map_get].
  - rewrite key_eqb_refl. reflexivity.
  - destruct (value_ltb k k') eqn:E1.
    + cbn [map_get]. rewrite key_eqb_refl. reflexivity.
    + destruct (value_ltb k' k) eqn:E2; cbn [map_get]; unfold key_eqb; rewrite E1, E2; cbn [negb andb]; [exact IH|reflexivity].
Qed.

(* the entries stay in strictly ascending key order (so no two keys are equal in that order) *)
Fixpoint keys_ascending (m : list (value * value)) : Prop :=
  match m with
  | [] => True
  | (k, _) :: r => match r with [] => True | (k', _) :: _ => value_ltb k k' = true end /\ keys_ascending r
  end.

Lemma map_insert_ascending k v m : keys_ascending m -> keys_ascending (map_insert k v m).
Proof.
  induction m as [|[k' v'] r IH]; intros Hm; cbn [map_insert].
  - cbn. auto.
  - destruct (value_ltb k k') eqn:E1.
    + cbn [keys_ascending]. split; [exact E1|exact Hm].
    + destruct (value_ltb k' k) eqn:E2.
      * cbn [keys_ascending] in Hm |- *. destruct Hm as [Hh Hr]. specialize (IH Hr). split; [|exact IH].
        destruct r as [|[k2 v2] r2]; cbn [map_insert].
        -- exact E2.
        -- destruct (value_ltb k k2); [exact E2|]. destruct (value_ltb k2 k); exact Hh.
      * cbn [keys_ascending] in Hm |- *. exact Hm.
Qed.

Lemma map_of_pairs_ascending_proof ps : keys_ascending (map_of_pairs ps).
Proof.
  unfold map_of_pairs. assert (H : keys_ascending []) by exact I. revert H. generalize (@nil (value * value)).
  induction ps as [|[k v] r IH]; intros m Hm; cbn [fold_left]; [exact Hm|]. apply IH. apply map_insert_ascending. exact Hm.
Qed.

(* iterating a map = iterating its keys; `in` looks a key up; truthiness = non-emptiness *)
Lemma map_semantics_proof kvs item :
  contains (VMap kvs) item = Ok (match map_get item kvs with Some _ => true | None => false end) /\
  truthy (VMap kvs) = negb (Nat.eqb (length kvs) 0) /\
  unpack_items (VMap kvs) = Some (map fst kvs) /\
  (forall m, do_filter m false F_length (VMap kvs) [] = Ok (VInt (lenZ kvs))) /\
  (forall m, do_filter m false F_list (VMap kvs) [] = Ok (VList (map fst kvs))).
Proof. repeat split; destruct kvs; reflexivity. Qed.
