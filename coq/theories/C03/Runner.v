(* C03 runner: the reference interpreter on encoded requests.
   output: [0; n; c1..cn] rendered text | [1; code] error | [8] out of gas | [9] undecodable *)
From Coq Require Import String.
From MJ Require Import Common.Base Lang.Syntax Lang.Meta Lang.Interp Lang.Codec.

Definition FUEL := 400%nat.

Definition run (inp : list Z) : list Z :=
  match drequest inp with
  | None => [9]
  | Some (md, esc, ctx, body) =>
      match Interp.run (mkCfg md ctx esc) FUEL body with
      | Ok s => let o := output_of s in 0 :: lenZ o :: o
      | Err c => [1; c]
      | Panic => [2]
      | OutOfGas => [8]
      end
  end.

(* asks + static report, for C18: [0; nasks; asks..; nund; undeclared..] *)
Definition asks (inp : list Z) : list Z :=
  match drequest inp with
  | None => [9]
  | Some (md, esc, ctx, body) =>
      let und := find_undeclared body in
      match Interp.run (mkCfg md ctx esc) FUEL body with
      | Ok s => 0 :: lenZ (s_asks s) :: s_asks s ++ lenZ und :: und
      | Err c => [1; c; lenZ und] ++ und
      | Panic => [2]
      | OutOfGas => [8]
      end
  end.

Open Scope string_scope.
Definition runners : list (string * (list Z -> list Z)) := [ ("c03", run); ("c03-asks", asks) ].
