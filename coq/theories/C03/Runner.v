(* C03 runner: the reference interpreter on encoded requests.
   output: [0; n; c1..cn] rendered text | [1; code] error | [8] out of gas | [9] undecodable *)
From Coq Require Import String.
From MJ Require Import Common.Base Lang.Syntax Lang.Meta Lang.Interp Lang.Codec.
From MJ Require Import C04.Model.
From MJ Require Import L2.Instr.
From MJ Require Import L2.Compile.
From MJ Require Import L2.Vm.

Definition FUEL := 400%nat.

Definition run (inp : list Z) : list Z :=
  match drequest inp with
  | None => [9]
  | Some (md, esc, ctx, body) =>
      match Interp.run (mkCfg md ctx esc) FUEL body with
      | Ok s => let o := output_of s in 0 :: lenZ o :: o
      | Err c => [1; c]
      | Panic => [2]
      | OutOfGas => [8]
      end
  end.

(* asks + static report, for C18: [0; nasks; asks..; nund; undeclared..] *)
Definition asks (inp : list Z) : list Z :=
  match drequest inp with
  | None => [9]
  | Some (md, esc, ctx, body) =>
      let und := find_undeclared body in
      match Interp.run (mkCfg md ctx esc) FUEL body with
      | Ok s => 0 :: lenZ (s_asks s) :: s_asks s ++ lenZ und :: und
      | Err c => [1; c; lenZ und] ++ und
      | Panic => [2]
      | OutOfGas => [8]
      end
  end.

(* ---- c03-compile: the model compiler's instruction stream in a canonical integer encoding ----
   output: [0; n; i1 .. in] with every instruction as [opcode; k; a1 .. ak] | [9] undecodable.
   values: 0 undefined | 7 silent undefined | 1 none | 2 b | 3 z | 4 n c1..cn | 5 n v1..vn | 6 n (k v)1..n | 9 other *)
Fixpoint enc_value (v : value) : list Z :=
  match v with
  | VUndef => [0]
  | VSilent => [7]
  | VNone => [1]
  | VBool b => [2; if b then 1 else 0]
  | VInt z => [3; z]
  | VStr _ s => 4 :: lenZ s :: s
  | VList l => 5 :: lenZ l :: flat_map enc_value l
  | VMap kvs => 6 :: lenZ kvs :: flat_map (fun '(k, x) => enc_value k ++ enc_value x) kvs
  | _ => [9]
  end.

Definition binop_code (op : binop) : Z :=
  match op with OAdd => 0 | OSub => 1 | OMul => 2 | OFloorDiv => 3 | ORem => 4 | OConcat => 5 end.
Definition cmpop_code (op : cmpop) : Z :=
  match op with CEq => 0 | CNe => 1 | CLt => 2 | CLe => 3 | CGt => 4 | CGe => 5 | CIn => 6 | CNotIn => 7 end.

Definition nz (n : nat) : Z := Z.of_nat n.

Definition enc_instr (i : instr) : list Z :=
  let mk (op : Z) (args : list Z) := op :: lenZ args :: args in
  match i with
  | IEmitRaw t => mk 1 t
  | IStoreLocal x => mk 2 [x]
  | ILookup x => mk 3 [x]
  | IGetAttr a => mk 4 [a]
  | IGetItem => mk 5 []
  | ILoadConst v => mk 6 (enc_value v)
  | ILoadKey k => mk 7 [k]
  | ILoadKwargs kv => mk 8 (lenZ kv :: flat_map (fun p => fst p :: enc_value (snd p)) kv)
  | ILoadNames ps => mk 9 ps
  | IBuildKwargs n => mk 10 [nz n]
  | IBuildList None => mk 11 []
  | IBuildList (Some n) => mk 11 [nz n]
  | IUnpackList n => mk 12 [nz n]
  | IBuildMap n => mk 44 [nz n]
  | IBinOp op => mk 13 [binop_code op]
  | INeg => mk 14 []
  | ICompare op => mk 15 [cmpop_code op]
  | INot => mk 16 []
  | ICompareAndPreserve op => mk 17 [cmpop_code op]
  | IApplyFilter f n => mk 18 [f; nz n]
  | IPerformTest t n => mk 19 [t; nz n]
  | IEmit => mk 20 []
  | IPushLoop fl => mk 21 [nz fl]
  | IPushWith => mk 22 []
  | IIterate t => mk 23 [nz t]
  | IPushDidNotIterate => mk 24 []
  | IPopFrame => mk 25 []
  | IPopLoopFrame => mk 26 []
  | IJump t => mk 27 [nz t]
  | IJumpIfFalse t => mk 28 [nz t]
  | IJumpIfFalseOrPop t => mk 29 [nz t]
  | IJumpIfTrueOrPop t => mk 30 [nz t]
  | IPushAutoEscape => mk 31 []
  | IPopAutoEscape => mk 32 []
  | IBeginCapture => mk 33 []
  | IEndCapture => mk 34 []
  | ICallFunction f n => mk 35 [f; nz n]
  | IDupTop => mk 36 []
  | IDiscardTop => mk 37 []
  | ISwap => mk 38 []
  | IBuildMacro mc off fl => mk 39 [m_name mc; nz off; nz fl]
  | IReturn => mk 40 []
  | IIsUndefined => mk 41 []
  | IEnclose x => mk 42 [x]
  | IGetClosure => mk 43 []
  end.

Definition compile (inp : list Z) : list Z :=
  match drequest inp with
  | None => [9]
  | Some (_, _, _, body) =>
      let code := compile_template body in
      0 :: lenZ code :: flat_map enc_instr code
  end.

(* ---- c03-vm: the model VM on the model compiler's stream; same output format as [run] ---- *)
Definition VMFUEL := (500 * 1000)%nat.

Definition run_vm_req (inp : list Z) : list Z :=
  match drequest inp with
  | None => [9]
  | Some (md, esc, ctx, body) =>
      match run_template (mkCfg md ctx esc) VMFUEL (compile_template body) with
      | Ok s => let o := output_of s in 0 :: lenZ o :: o
      | Err c => [1; c]
      | Panic => [2]
      | OutOfGas => [8]
      end
  end.

Open Scope string_scope.
Definition runners : list (string * (list Z -> list Z)) :=
  [ ("c03", run); ("c03-asks", asks); ("c03-compile", compile); ("c03-vm", run_vm_req) ].
