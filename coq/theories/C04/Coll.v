(* C04, collections and call arguments: a model of the parts of compiler/ast.rs, compiler/codegen.rs
   and vm/mod.rs that build lists, tuples, maps and keyword arguments - the literal collections the
   folder turns into one constant (List::as_const, Tuple::as_const, Map::as_const), the static
   keyword-argument collection of compile_call_args, and the run-time constructors BuildList /
   BuildTuple / BuildMap / BuildKwargs / MergeKwargs / UnpackLists of the VM.  The core-fragment
   syntax of Lang/ has no tuples, maps or keyword maps; this file has its own small syntax for
   them (constants, variables, the three collection literals and calls).  No proofs here. *)
From MJ Require Import Common.Base Lang.Syntax.

(* ---- values ---- *)
Inductive cval :=
| CAtom (l : lit)                       (* int / string / bool / none *)
| CUndef
| CList (l : list cval)
| CTuple (l : list cval)
| CMap (m : list (cval * cval))         (* pairs in the iteration order of the map implementation *)
| CKwargs (m : list (cval * cval))      (* Kwargs::wrap(map) *)
| CMacro (id : Z)                       (* the caller macro of a call block *)
| CRes (f : name) (args : list cval).   (* what a call returns: uninterpreted, it records what the callee was given *)

Definition cmap := list (cval * cval).
Definition cstr (s : list Z) : cval := CAtom (LStr s).

(* "caller" *)
Definition caller_key : cval := cstr [99; 97; 108; 108; 101; 114].

(* ---- syntax ---- *)
(* CallArg: Pos(expr) | Kwarg(name, expr) | PosSplat(expr) | KwargSplat(expr) *)
Inductive argk := KPos | KKw (k : list Z) | KPosSplat | KKwSplat.

Inductive cexpr :=
| XConst (l : lit)
| XVar (x : name)
| XList (items : list cexpr)
| XTuple (items : list cexpr)
| XMap (pairs : list (cexpr * cexpr))
(* a call: of a function (no receiver, extra_args = 0) or with a receiver that is compiled first -
   filter, test, method, object call (extra_args = 1); [caller]: the macro of a call block *)
| XCall (recv : option cexpr) (f : name) (args : list (argk * cexpr)) (caller : option Z).

(* ---- instructions (the ones this part of the compiler emits) ---- *)
Inductive cinstr :=
| ILoadConst (v : cval)
| ILookup (x : name)
| IBuildList (n : nat)
| IBuildTuple (n : nat)
| IBuildMap (n : nat)
| IBuildKwargs (n : nat)
| IMergeKwargs (n : nat)
| IUnpackLists (n : nat)
| ICall (f : name) (argc : option nat).   (* CallFunction / ApplyFilter / PerformTest / CallMethod / CallObject *)

Definition omap {A B} (f : A -> B) (o : option A) : option B := match o with Some a => Some (f a) | None => None end.
Definition obind {A B} (o : option A) (f : A -> option B) : option B := match o with Some a => f a | None => None end.

Section WithMap.
(* ValueMap::insert: BTreeMap (default) or IndexMap (feature preserve_order).  Everything below is
   parametric in it; the two implementations are given at the end of the file. *)
Variable ins : cval -> cval -> cmap -> cmap.

Definition ins_all (ps : list (cval * cval)) (m : cmap) : cmap := fold_left (fun m p => ins (fst p) (snd p) m) ps m.

(* ---- the folder on collection literals (ast.rs) ---- *)
(* const_values: every item must be a Const node *)
Fixpoint cconst_values (items : list cexpr) : option (list cval) :=
  match items with
  | [] => Some []
  | XConst l :: r => omap (cons (CAtom l)) (cconst_values r)
  | _ :: _ => None
  end.

(* Map::as_const: all keys and all values Const nodes; rv.insert(key, value) in source order *)
Fixpoint cconst_pairs (pairs : list (cexpr * cexpr)) : option (list (cval * cval)) :=
  match pairs with
  | [] => Some []
  | (XConst k, XConst v) :: r => omap (cons (CAtom k, CAtom v)) (cconst_pairs r)
  | _ :: _ => None
  end.

Definition cas_const (e : cexpr) : option cval :=
  match e with
  | XConst l => Some (CAtom l)
  | XList items => omap CList (cconst_values items)
  | XTuple items => omap CTuple (cconst_values items)
  | XMap pairs => omap (fun ps => CMap (ins_all ps [])) (cconst_pairs pairs)
  | XVar _ | XCall _ _ _ _ => None
  end.

(* ---- codegen.rs::compile_call_args ---- *)
Record cstate := mkCS {
  cs_code : list cinstr;
  cs_pending : nat;          (* pending_args / pending_kwargs *)
  cs_batches : nat           (* num_args_batches / num_kwargs_batches *)
}.

Definition is_const (e : cexpr) : bool := match e with XConst _ => true | _ => false end.

(* the flags computed by the first loop *)
Definition has_kwargs (args : list (argk * cexpr)) (caller : option Z) : bool :=
  (match caller with Some _ => true | None => false end)
  || existsb (fun a => match fst a with KKw _ | KKwSplat => true | _ => false end) args.

Definition static_kwargs (args : list (argk * cexpr)) (caller : option Z) : bool :=
  (match caller with Some _ => false | None => true end)
  && forallb (fun a => match fst a with KKw _ => is_const (snd a) | KKwSplat => false | _ => true end) args.

Section Compile.
(* [static_path = true]: compile_call_args as it is; [false]: the fast path switched off (every
   keyword argument goes through LoadConst key / value / BuildKwargs) - the reference for
   "the static path builds what the dynamic path builds". *)
Variable static_path : bool.
Variable comp : cexpr -> list cinstr.       (* compile_expr, for the operands *)

(* first loop: positional arguments and splats *)
Definition pos_step (st : cstate) (a : argk * cexpr) : cstate :=
  match fst a with
  | KPos => mkCS (cs_code st ++ comp (snd a)) (S (cs_pending st)) (cs_batches st)
  | KPosSplat =>
      let st1 := if Nat.ltb 0 (cs_pending st)
                 then mkCS (cs_code st ++ [IBuildList (cs_pending st)]) 0 (S (cs_batches st))
                 else st in
      mkCS (cs_code st1 ++ comp (snd a)) (cs_pending st1) (S (cs_batches st1))
  | KKw _ | KKwSplat => st
  end.

(* second loop, dynamic path *)
Definition kw_step (st : cstate) (a : argk * cexpr) : cstate :=
  match fst a with
  | KKw k => mkCS (cs_code st ++ [ILoadConst (cstr k)] ++ comp (snd a)) (S (cs_pending st)) (cs_batches st)
  | KKwSplat =>
      let st1 := if Nat.ltb 0 (cs_pending st)
                 then mkCS (cs_code st ++ [IBuildKwargs (cs_pending st)]) 0 (S (cs_batches st))
                 else st in
      mkCS (cs_code st1 ++ comp (snd a)) (cs_pending st1) (S (cs_batches st1))
  | KPos | KPosSplat => st
  end.

(* second loop, static path: collected_kwargs.insert(Value::from(key), c.value) *)
Definition collect_static (args : list (argk * cexpr)) : cmap :=
  fold_left (fun m a => match fst a, snd a with KKw k, XConst c => ins (cstr k) (CAtom c) m | _, _ => m end) args [].

(* the code that leaves the keyword map on the stack (the `if has_kwargs { .. }` block) *)
Definition kwargs_code (args : list (argk * cexpr)) (caller : option Z) : list cinstr :=
  let static := static_path && static_kwargs args caller in
  let collected := if static then collect_static args else [] in
  match collected with
  | _ :: _ => [ILoadConst (CKwargs collected)]
  | [] =>
      let k := if static then mkCS [] 0 0 else fold_left kw_step args (mkCS [] 0 0) in
      let k := match caller with
               | Some id => mkCS (cs_code k ++ [ILoadConst caller_key; ILoadConst (CMacro id)]) (S (cs_pending k)) (cs_batches k)
               | None => k end in
      if Nat.ltb 0 (cs_batches k) then
        (if Nat.ltb 0 (cs_pending k)
         then cs_code k ++ [IBuildKwargs (cs_pending k)] ++ [IMergeKwargs (S (cs_batches k))]
         else cs_code k ++ [IMergeKwargs (cs_batches k)])
      else cs_code k ++ [IBuildKwargs (cs_pending k)]
  end.

Definition compile_call_args (args : list (argk * cexpr)) (extra : nat) (caller : option Z) : list cinstr * option nat :=
  let p := fold_left pos_step args (mkCS [] extra 0) in
  let hk := has_kwargs args caller in
  let code := if hk then cs_code p ++ kwargs_code args caller else cs_code p in
  let pending_args := if hk then S (cs_pending p) else cs_pending p in
  if Nat.ltb 0 (cs_batches p) then
    (if Nat.ltb 0 pending_args
     then (code ++ [IBuildList pending_args] ++ [IUnpackLists (S (cs_batches p))], None)
     else (code ++ [IUnpackLists (cs_batches p)], None))
  else (code, Some pending_args).
End Compile.

(* ---- codegen.rs::compile_expr on this syntax ---- *)
Section CompileExpr.
Variable static_path : bool.
Variable fold : bool.          (* false: the folder switched off (every literal built at run time) *)

Fixpoint ccompile (e : cexpr) {struct e} : list cinstr :=
  match (if fold then cas_const e else match e with XConst l => Some (CAtom l) | _ => None end) with
  | Some v => [ILoadConst v]
  | None =>
    match e with
    | XConst l => [ILoadConst (CAtom l)]
    | XVar x => [ILookup x]
    | XList items => flat_map ccompile items ++ [IBuildList (length items)]
    | XTuple items => flat_map ccompile items ++ [IBuildTuple (length items)]
    | XMap pairs => flat_map (fun p => ccompile (fst p) ++ ccompile (snd p)) pairs ++ [IBuildMap (length pairs)]
    | XCall recv f args caller =>
        let ca := compile_call_args static_path ccompile args (match recv with Some _ => 1 | None => 0 end)%nat caller in
        (match recv with Some r => ccompile r | None => [] end) ++ fst ca ++ [ICall f (snd ca)]
    end
  end.
End CompileExpr.

(* ---- the VM on these instructions (vm/mod.rs); the stack's top is the head of the list;
   None = an error or a panic (pop from an empty stack) ---- *)
Fixpoint pop_n (n : nat) (stk : list cval) : option (list cval * list cval) :=   (* values in pop order *)
  match n with
  | O => Some ([], stk)
  | S n => match stk with
           | v :: r => omap (fun p => (v :: fst p, snd p)) (pop_n n r)
           | [] => None end
  end.

(* Stack::reverse_top *)
Definition reverse_top (n : nat) (stk : list cval) : option (list cval) :=
  if Nat.leb n (length stk) then Some (rev (firstn n stk) ++ skipn n stk) else None.

(* for _ in 0..n { key = pop(); value = pop(); map.insert(key, value) } *)
Fixpoint pop_pairs (n : nat) (stk : list cval) (m : cmap) : option (cmap * list cval) :=
  match n with
  | O => Some (m, stk)
  | S n => match stk with
           | k :: v :: r => pop_pairs n r (ins k v m)
           | _ => None end
  end.

(* Value::try_iter on the values of this model (a map iterates its keys) *)
Definition citer (v : cval) : option (list cval) :=
  match v with
  | CList l | CTuple l => Some l
  | CMap m | CKwargs m => Some (map fst m)
  | _ => None
  end.

(* merge_kwargs: every source must be a map; rv.insert(key, value) for its pairs in its order *)
Fixpoint merge_kwargs (sources : list cval) (m : cmap) : option cmap :=
  match sources with
  | [] => Some m
  | (CMap ps | CKwargs ps) :: r => merge_kwargs r (ins_all ps m)
  | _ :: _ => None
  end.

Fixpoint unpack (lists : list cval) (stk : list cval) (len : Z) : option (list cval * Z) :=
  match lists with
  | [] => Some (stk, len)
  | l :: r => obind (citer l) (fun items => unpack r (rev items ++ stk) (len + lenZ items))
  end.

Definition step (rho : name -> cval) (i : cinstr) (stk : list cval) : option (list cval) :=
  match i with
  | ILoadConst v => Some (v :: stk)
  | ILookup x => Some (rho x :: stk)
  | IBuildList n =>                                   (* push(pop()) n times, v.reverse() *)
      omap (fun p => CList (rev (fst p)) :: snd p) (pop_n n stk)
  | IBuildTuple n =>
      match n with
      | 0%nat => Some (CTuple [] :: stk)
      | 1%nat => match stk with a :: r => Some (CTuple [a] :: r) | _ => None end
      | 2%nat => match stk with second :: first :: r => Some (CTuple [first; second] :: r) | _ => None end
      | _ => omap (fun p => CTuple (rev (fst p)) :: snd p) (pop_n n stk)
      end
  | IBuildMap n =>
      obind (reverse_top (n * 2) stk) (fun stk1 => omap (fun p => CMap (fst p) :: snd p) (pop_pairs n stk1 []))
  | IBuildKwargs n =>
      obind (reverse_top (n * 2) stk) (fun stk1 => omap (fun p => CKwargs (fst p) :: snd p) (pop_pairs n stk1 []))
  | IMergeKwargs n =>                                 (* sources popped, then reversed *)
      obind (pop_n n stk) (fun p => omap (fun m => CKwargs m :: snd p) (merge_kwargs (rev (fst p)) []))
  | IUnpackLists n =>
      obind (pop_n n stk) (fun p => omap (fun q => CAtom (LInt (snd q)) :: fst q) (unpack (rev (fst p)) (snd p) 0))
  | ICall f (Some n) =>
      omap (fun p => CRes f (rev (fst p)) :: snd p) (pop_n n stk)
  | ICall f None =>                                   (* get_call_args(None): the count is on top *)
      match stk with
      | CAtom (LInt z) :: r => if z <? 0 then None else omap (fun p => CRes f (rev (fst p)) :: snd p) (pop_n (Z.to_nat z) r)
      | _ => None
      end
  end.

Fixpoint run (rho : name -> cval) (code : list cinstr) (stk : list cval) : option (list cval) :=
  match code with
  | [] => Some stk
  | i :: r => obind (step rho i stk) (run rho r)
  end.
End WithMap.

(* ---- the two map implementations ---- *)
(* Value::cmp on the keys used here: kind first (none < bool < number < string < sequences), then
   the value; sequences element-wise.  [ccmp] is total on atoms and lists/tuples of atoms. *)
Fixpoint list_cmp_Z (a b : list Z) : comparison :=
  match a, b with
  | [], [] => Eq
  | [], _ :: _ => Lt
  | _ :: _, [] => Gt
  | x :: a, y :: b => match x ?= y with Eq => list_cmp_Z a b | c => c end
  end.

Definition kind_rank (v : cval) : Z :=
  match v with
  | CUndef => 0
  | CAtom LNone => 1
  | CAtom (LBool _) => 2
  | CAtom (LInt _) => 3
  | CAtom (LStr _) => 4
  | CList _ | CTuple _ => 6
  | CMap _ | CKwargs _ => 7
  | _ => 9
  end.

Definition atom_cmp (a b : cval) : comparison :=
  match kind_rank a ?= kind_rank b with
  | Eq =>
      match a, b with
      | CAtom (LBool x), CAtom (LBool y) => (if x then 1 else 0) ?= (if y then 1 else 0)
      | CAtom (LInt x), CAtom (LInt y) => x ?= y
      | CAtom (LStr x), CAtom (LStr y) => list_cmp_Z x y        (* code points: the byte order of UTF-8 *)
      | _, _ => Eq
      end
  | c => c
  end.

(* BTreeMap::insert: sorted by key; an existing key keeps its position (and the old key), the value is replaced *)
Fixpoint ins_btree (k v : cval) (m : cmap) : cmap :=
  match m with
  | [] => [(k, v)]
  | (k', v') :: r =>
      match atom_cmp k k' with
      | Lt => (k, v) :: m
      | Eq => (k', v) :: r
      | Gt => (k', v') :: ins_btree k v r
      end
  end.

(* IndexMap::insert: insertion order; an existing key keeps its position, the value is replaced.
   A key is found through its hash and ==; bool and integer keys hash differently, so on atoms
   "the same key" is: same kind and same value. *)
Definition atom_eqb (a b : cval) : bool :=
  match a, b with
  | CAtom LNone, CAtom LNone => true
  | CAtom (LBool x), CAtom (LBool y) => Bool.eqb x y
  | CAtom (LInt x), CAtom (LInt y) => x =? y
  | CAtom (LStr x), CAtom (LStr y) => match list_cmp_Z x y with Eq => true | _ => false end
  | _, _ => false
  end.

Fixpoint ins_index (k v : cval) (m : cmap) : cmap :=
  match m with
  | [] => [(k, v)]
  | (k', v') :: r => if atom_eqb k k' then (k', v) :: r else (k', v') :: ins_index k v r
  end.
