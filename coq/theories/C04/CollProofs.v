(* C04, collections and call arguments: proofs. *)
From MJ Require Import Common.Base Lang.Syntax C04.Coll C04.CollSpec.

Section P.
Variable ins : cval -> cval -> cmap -> cmap.
Variable rho : name -> cval.
Notation run := (run ins rho).
Notation step := (step ins rho).
Notation ceq := (ceq ins rho).

(* ---- running code ---- *)
Lemma run_app c1 c2 stk : run (c1 ++ c2) stk = obind (run c1 stk) (run c2).
Proof.
  revert stk. induction c1 as [|i r IH]; intros stk; [reflexivity|].
  cbn [app Coll.run]. destruct (step i stk); cbn [obind]; auto.
Qed.

Lemma run_one i stk : run [i] stk = step i stk.
Proof. cbn [Coll.run]. destruct (step i stk); reflexivity. Qed.

Lemma run_loadconst v r stk : run (ILoadConst v :: r) stk = run r (v :: stk).
Proof. reflexivity. Qed.

Lemma ceq_refl c : ceq c c. Proof. intros stk. reflexivity. Qed.
Lemma ceq_sym a b : ceq a b -> ceq b a. Proof. intros H stk. symmetry. apply H. Qed.
Lemma ceq_trans a b c : ceq a b -> ceq b c -> ceq a c. Proof. intros H1 H2 stk. rewrite H1. apply H2. Qed.

Lemma ceq_app a a' b b' : ceq a a' -> ceq b b' -> ceq (a ++ b) (a' ++ b').
Proof. intros H1 H2 stk. rewrite !run_app, H1. destruct (run a' stk); cbn [obind]; auto. Qed.

Lemma ceq_app_l a a' b : ceq a a' -> ceq (a ++ b) (a' ++ b).
Proof. intros H. apply ceq_app; [exact H|apply ceq_refl]. Qed.

Lemma ceq_app_r a b b' : ceq b b' -> ceq (a ++ b) (a ++ b').
Proof. intros H. apply ceq_app; [apply ceq_refl|exact H]. Qed.

(* ---- stack helpers ---- *)
Lemma pop_n_app vs stk : pop_n (length vs) (vs ++ stk) = Some (vs, stk).
Proof. induction vs as [|v r IH]; [reflexivity|]. cbn [length app pop_n]. rewrite IH. reflexivity. Qed.

Definition flat (ps : list (cval * cval)) : list cval := flat_map (fun p => [fst p; snd p]) ps.

Lemma flat_length ps : length (flat ps) = (length ps * 2)%nat.
Proof. induction ps as [|p r IH]; [reflexivity|]. cbn [flat flat_map length app] in *. fold (flat r). rewrite IH. lia. Qed.

Lemma flat_app a b : flat (a ++ b) = flat a ++ flat b.
Proof. unfold flat. apply flat_map_app. Qed.

Lemma pop_pairs_flat ps : forall stk m, pop_pairs ins (length ps) (flat ps ++ stk) m = Some (ins_all ins ps m, stk).
Proof.
  induction ps as [|[k v] r IH]; intros stk m; [reflexivity|].
  cbn [length flat flat_map app pop_pairs fst snd]. fold (flat r). rewrite IH. reflexivity.
Qed.

Lemma reverse_top_rev l stk : reverse_top (length l) (rev l ++ stk) = Some (l ++ stk).
Proof.
  unfold reverse_top. rewrite app_length, rev_length.
  destruct (Nat.leb (length l) (length l + length stk)) eqn:E; [|apply Nat.leb_gt in E; lia].
  rewrite <- (rev_length l) at 1 2.
  rewrite firstn_app, Nat.sub_diag, firstn_all, skipn_app, Nat.sub_diag, skipn_all. cbn [firstn skipn].
  rewrite !app_nil_r, rev_involutive. reflexivity.
Qed.

(* BuildMap / BuildKwargs on a stack where the pairs were pushed in source order *)
Lemma build_map_step ps stk :
  step (IBuildMap (length ps)) (rev (flat ps) ++ stk) = Some (CMap (ins_all ins ps []) :: stk).
Proof.
  cbn [Coll.step]. rewrite <- flat_length, reverse_top_rev. cbn [obind].
  rewrite pop_pairs_flat. reflexivity.
Qed.

Lemma build_kwargs_step ps stk :
  step (IBuildKwargs (length ps)) (rev (flat ps) ++ stk) = Some (CKwargs (ins_all ins ps []) :: stk).
Proof.
  cbn [Coll.step]. rewrite <- flat_length, reverse_top_rev. cbn [obind].
  rewrite pop_pairs_flat. reflexivity.
Qed.

Lemma build_list_step vs stk :
  step (IBuildList (length vs)) (rev vs ++ stk) = Some (CList vs :: stk).
Proof. cbn [Coll.step]. rewrite <- rev_length, pop_n_app. cbn [omap fst snd]. rewrite rev_involutive. reflexivity. Qed.

Lemma build_tuple_step vs stk :
  step (IBuildTuple (length vs)) (rev vs ++ stk) = Some (CTuple vs :: stk).
Proof.
  destruct vs as [|a [|b [|c r]]]; try reflexivity.
  remember (a :: b :: c :: r) as vs eqn:E.
  assert (Hn : exists n, length vs = S (S (S n))) by (subst; cbn; eauto). destruct Hn as [n Hn].
  cbn [Coll.step]. rewrite Hn. rewrite <- Hn, <- rev_length, pop_n_app. cbn [omap fst snd]. rewrite rev_involutive. reflexivity.
Qed.

Lemma run_consts vs stk : run (map ILoadConst vs) stk = Some (rev vs ++ stk).
Proof.
  revert stk. induction vs as [|v r IH]; intros stk; [reflexivity|].
  cbn [map Coll.run Coll.step obind rev]. rewrite IH, <- app_assoc. reflexivity.
Qed.

(* ---- the two loops of compile_call_args respect code equivalence ---- *)
Definition cs_rel (s1 s2 : cstate) : Prop :=
  cs_pending s1 = cs_pending s2 /\ cs_batches s1 = cs_batches s2 /\ ceq (cs_code s1) (cs_code s2).

(* [args2] is [args1] with every argument expression mapped by [g] (kinds unchanged) *)
Definition mapargs (g : cexpr -> cexpr) (args : list (argk * cexpr)) : list (argk * cexpr) :=
  map (fun a => (fst a, g (snd a))) args.

Lemma pos_loop_rel comp1 comp2 g args :
  (forall a, In a args -> ceq (comp1 (snd a)) (comp2 (g (snd a)))) ->
  forall s1 s2, cs_rel s1 s2 ->
  cs_rel (fold_left (pos_step comp1) args s1) (fold_left (pos_step comp2) (mapargs g args) s2).
Proof.
  induction args as [|[k e] r IH]; intros H s1 s2 Hr; [exact Hr|].
  cbn [mapargs map fold_left fst snd]. apply IH; [intros a Ha; apply H; right; exact Ha|].
  destruct Hr as (Hp & Hb & Hc). pose proof (H (k, e) (or_introl eq_refl)) as He. cbn [snd] in He.
  unfold pos_step. cbn [fst snd]. destruct k.
  - repeat split; cbn [cs_pending cs_batches cs_code]; try congruence. apply ceq_app; assumption.
  - exact (conj Hp (conj Hb Hc)).
  - rewrite <- Hp. destruct (Nat.ltb 0 (cs_pending s1)); repeat split; cbn [cs_pending cs_batches cs_code]; try congruence.
    + apply ceq_app; [|assumption]. rewrite Hp. apply ceq_app_l. exact Hc.
    + apply ceq_app; assumption.
  - exact (conj Hp (conj Hb Hc)).
Qed.

Lemma kw_loop_rel comp1 comp2 g args :
  (forall a, In a args -> ceq (comp1 (snd a)) (comp2 (g (snd a)))) ->
  forall s1 s2, cs_rel s1 s2 ->
  cs_rel (fold_left (kw_step comp1) args s1) (fold_left (kw_step comp2) (mapargs g args) s2).
Proof.
  induction args as [|[k e] r IH]; intros H s1 s2 Hr; [exact Hr|].
  cbn [mapargs map fold_left fst snd]. apply IH; [intros a Ha; apply H; right; exact Ha|].
  destruct Hr as (Hp & Hb & Hc). pose proof (H (k, e) (or_introl eq_refl)) as He. cbn [snd] in He.
  unfold kw_step. cbn [fst snd]. destruct k.
  - exact (conj Hp (conj Hb Hc)).
  - repeat split; cbn [cs_pending cs_batches cs_code]; try congruence.
    apply ceq_app; [assumption|]. apply ceq_app_r. exact He.
  - exact (conj Hp (conj Hb Hc)).
  - rewrite <- Hp. destruct (Nat.ltb 0 (cs_pending s1)); repeat split; cbn [cs_pending cs_batches cs_code]; try congruence.
    + apply ceq_app; [|assumption]. rewrite Hp. apply ceq_app_l. exact Hc.
    + apply ceq_app; assumption.
Qed.

Lemma has_kwargs_mapargs g args caller : has_kwargs (mapargs g args) caller = has_kwargs args caller.
Proof.
  unfold has_kwargs. f_equal. induction args as [|[k e] r IH]; [reflexivity|].
  cbn [mapargs map existsb fst snd]. fold (mapargs g r). rewrite IH. reflexivity.
Qed.

(* ---- the static keyword path builds what the dynamic path builds ---- *)
Definition comp_const (comp : cexpr -> list cinstr) : Prop := forall c, ceq (comp (XConst c)) [ILoadConst (CAtom c)].

(* the dynamic loop over arguments that qualify for the static path: it pushes key, value, .. *)
Lemma kw_loop_static comp args :
  comp_const comp -> static_kwargs args None = true ->
  forall st ps, cs_batches st = 0%nat -> cs_pending st = length ps ->
  (forall stk, run (cs_code st) stk = Some (rev (flat ps) ++ stk)) ->
  let st' := fold_left (kw_step comp) args st in
  exists ps', cs_batches st' = 0%nat /\ cs_pending st' = length ps' /\
    (forall stk, run (cs_code st') stk = Some (rev (flat ps') ++ stk)) /\
    fold_left (fun m a => match fst a, snd a with KKw k, XConst c => ins (cstr k) (CAtom c) m | _, _ => m end) args (ins_all ins ps [])
      = ins_all ins ps' [].
Proof.
  intros Hc. induction args as [|[k e] r IH]; intros Hs st ps Hb Hp Hr.
  - exists ps. cbn [fold_left]. auto.
  - unfold static_kwargs in Hs. cbn [andb forallb fst snd] in Hs. apply andb_prop in Hs as [Hk Hrest].
    assert (Hs' : static_kwargs r None = true) by (unfold static_kwargs; exact Hrest).
    cbn [fold_left]. destruct k.
    + (* positional: ignored by this loop *)
      unfold kw_step at 2. cbn [fst]. apply (IH Hs' st ps Hb Hp Hr).
    + (* k = const *)
      destruct e; try discriminate.
      unfold kw_step at 2. cbn [fst snd].
      destruct (IH Hs' (mkCS (cs_code st ++ [ILoadConst (cstr k)] ++ comp (XConst l)) (S (cs_pending st)) (cs_batches st))
                   (ps ++ [(cstr k, CAtom l)])) as [ps' H'].
      * exact Hb.
      * cbn [cs_pending]. rewrite app_length, Hp. cbn. lia.
      * intros stk. cbn [cs_code]. rewrite run_app, Hr. cbn [obind]. rewrite run_app. cbn [Coll.run Coll.step obind].
        rewrite (Hc l). cbn [Coll.run Coll.step obind]. rewrite flat_app, rev_app_distr. reflexivity.
      * exists ps'. destruct H' as (A & B & C & D). repeat split; auto.
        rewrite <- D. unfold ins_all. rewrite fold_left_app. reflexivity.
    + unfold kw_step at 2. cbn [fst]. apply (IH Hs' st ps Hb Hp Hr).
    + discriminate.
Qed.

Lemma collect_static_as_fold args :
  collect_static ins args = fold_left (fun m a => match fst a, snd a with KKw k, XConst c => ins (cstr k) (CAtom c) m | _, _ => m end) args [].
Proof. reflexivity. Qed.

Lemma kwargs_static_switch sp comp args caller :
  comp_const comp -> ceq (kwargs_code ins sp comp args caller) (kwargs_code ins false comp args caller).
Proof.
  intros Hc. destruct sp; [|apply ceq_refl].
  unfold kwargs_code. cbn [andb].
  destruct (static_kwargs args caller) eqn:Hs; [|apply ceq_refl].
  (* static: no caller, every keyword value is a constant *)
  assert (caller = None) as -> by (unfold static_kwargs in Hs; destruct caller; [discriminate|reflexivity]).
  destruct (kw_loop_static comp args Hc Hs (mkCS [] 0 0) [] eq_refl eq_refl (fun stk => eq_refl)) as [ps' (Hb & Hp & Hr & Hm)].
  cbn [ins_all fold_left] in Hm. rewrite <- collect_static_as_fold in Hm.
  set (k := fold_left (kw_step comp) args (mkCS [] 0 0)) in *.
  assert (Hdyn : forall stk, run (cs_code k ++ [IBuildKwargs (cs_pending k)]) stk = Some (CKwargs (collect_static ins args) :: stk)).
  { intros stk. rewrite run_app, Hr. cbn [obind Coll.run]. rewrite Hp, build_kwargs_step. cbn [obind]. rewrite Hm. reflexivity. }
  rewrite Hb. cbn [Nat.ltb Nat.leb].
  intros stk. rewrite Hdyn.
  destruct (collect_static ins args) as [|p0 m0]; reflexivity.
Qed.

Lemma kwargs_dyn_congr comp1 comp2 g args caller :
  (forall a, In a args -> ceq (comp1 (snd a)) (comp2 (g (snd a)))) ->
  ceq (kwargs_code ins false comp1 args caller) (kwargs_code ins false comp2 (mapargs g args) caller).
Proof.
  intros H. unfold kwargs_code. cbn [andb].
  pose proof (kw_loop_rel comp1 comp2 g args H (mkCS [] 0 0) (mkCS [] 0 0) (conj eq_refl (conj eq_refl (ceq_refl _)))) as (Hp & Hb & Hc).
  set (k1 := fold_left (kw_step comp1) args (mkCS [] 0 0)) in *.
  set (k2 := fold_left (kw_step comp2) (mapargs g args) (mkCS [] 0 0)) in *.
  destruct caller as [id|]; cbn [cs_code cs_pending cs_batches]; rewrite <- Hp, <- Hb.
  - destruct (Nat.ltb 0 (cs_batches k1)); cbn [Nat.ltb Nat.leb]; repeat apply ceq_app_l; exact Hc.
  - destruct (Nat.ltb 0 (cs_batches k1)); [destruct (Nat.ltb 0 (cs_pending k1))|]; apply ceq_app_l; exact Hc.
Qed.

(* compile_call_args: any two settings of the static path, any two operand compilers that agree *)
Lemma cca_equiv sp1 sp2 comp1 comp2 g args extra caller :
  comp_const comp1 -> comp_const comp2 ->
  (forall a, In a args -> ceq (comp1 (snd a)) (comp2 (g (snd a)))) ->
  snd (compile_call_args ins sp1 comp1 args extra caller) = snd (compile_call_args ins sp2 comp2 (mapargs g args) extra caller) /\
  ceq (fst (compile_call_args ins sp1 comp1 args extra caller)) (fst (compile_call_args ins sp2 comp2 (mapargs g args) extra caller)).
Proof.
  intros C1 C2 H. unfold compile_call_args. rewrite has_kwargs_mapargs.
  pose proof (pos_loop_rel comp1 comp2 g args H (mkCS [] extra 0) (mkCS [] extra 0) (conj eq_refl (conj eq_refl (ceq_refl _)))) as (Hp & Hb & Hc).
  set (p1 := fold_left (pos_step comp1) args (mkCS [] extra 0)) in *.
  set (p2 := fold_left (pos_step comp2) (mapargs g args) (mkCS [] extra 0)) in *.
  assert (Hk : ceq (kwargs_code ins sp1 comp1 args caller) (kwargs_code ins sp2 comp2 (mapargs g args) caller)).
  { eapply ceq_trans; [apply kwargs_static_switch; exact C1|].
    eapply ceq_trans; [apply (kwargs_dyn_congr comp1 comp2 g); exact H|].
    apply ceq_sym. apply kwargs_static_switch. exact C2. }
  rewrite <- Hp, <- Hb.
  destruct (has_kwargs args caller).
  - destruct (Nat.ltb 0 (cs_batches p1)); cbn [Nat.ltb Nat.leb fst snd]; split; try reflexivity.
    + apply ceq_app_l. apply ceq_app; assumption.
    + apply ceq_app; assumption.
  - destruct (Nat.ltb 0 (cs_batches p1)); [destruct (Nat.ltb 0 (cs_pending p1))|]; cbn [fst snd]; split; try reflexivity;
      try (apply ceq_app_l); exact Hc.
Qed.

(* ---- compile_expr: one unfolding, and the settings compared ---- *)
Definition cstruct (sp : bool) (comp : cexpr -> list cinstr) (e : cexpr) : list cinstr :=
  match e with
  | XConst l => [ILoadConst (CAtom l)]
  | XVar x => [ILookup x]
  | XList items => flat_map comp items ++ [IBuildList (length items)]
  | XTuple items => flat_map comp items ++ [IBuildTuple (length items)]
  | XMap pairs => flat_map (fun p => comp (fst p) ++ comp (snd p)) pairs ++ [IBuildMap (length pairs)]
  | XCall recv f args caller =>
      let ca := compile_call_args ins sp comp args (match recv with Some _ => 1 | None => 0 end)%nat caller in
      (match recv with Some r => comp r | None => [] end) ++ fst ca ++ [ICall f (snd ca)]
  end.

Lemma ccompile_eq sp f e :
  ccompile ins sp f e =
  match (if f then cas_const ins e else match e with XConst l => Some (CAtom l) | _ => None end) with
  | Some v => [ILoadConst v]
  | None => cstruct sp (ccompile ins sp f) e
  end.
Proof. destruct e; reflexivity. Qed.

Lemma comp_const_ccompile sp f : comp_const (ccompile ins sp f).
Proof. intros c. destruct f; apply ceq_refl. Qed.

Lemma cmaxmap_in {X} (f : X -> nat) l x : In x l -> (f x <= cmaxmap f l)%nat.
Proof.
  induction l as [|y r IH]; cbn [cmaxmap In]; [tauto|].
  intros [->|H]; [lia|]. specialize (IH H). lia.
Qed.

Lemma flat_map_ceq {X} (c1 c2 : X -> list cinstr) l :
  (forall x, In x l -> ceq (c1 x) (c2 x)) -> ceq (flat_map c1 l) (flat_map c2 l).
Proof.
  induction l as [|x r IH]; intros H; [apply ceq_refl|].
  cbn [flat_map]. apply ceq_app; [apply H; left; reflexivity|]. apply IH. intros y Hy. apply H. right. exact Hy.
Qed.

Lemma flat_map_map {X Y} (c : Y -> list cinstr) (g : X -> Y) l : flat_map c (map g l) = flat_map (fun x => c (g x)) l.
Proof. induction l as [|x r IH]; [reflexivity|]. cbn [map flat_map]. rewrite IH. reflexivity. Qed.

Lemma mapargs_id args : mapargs (fun e => e) args = args.
Proof. induction args as [|[k e] r IH]; [reflexivity|]. cbn [mapargs map fst snd]. fold (mapargs (fun e => e) r). rewrite IH. reflexivity. Qed.

(* literal collections: the constant of the folder is what the run-time constructor builds *)
Lemma cconst_values_code sp items vs :
  cconst_values items = Some vs ->
  flat_map (ccompile ins sp false) items = map ILoadConst vs /\ length items = length vs.
Proof.
  revert vs. induction items as [|x r IH]; intros vs H.
  - inversion H. auto.
  - destruct x; try discriminate. cbn [cconst_values] in H.
    destruct (cconst_values r) as [vr|] eqn:E; cbn [omap] in H; try discriminate. inversion H; subst.
    destruct (IH vr eq_refl) as [A B]. cbn [flat_map map length]. rewrite A, B. split; reflexivity.
Qed.

Lemma cconst_pairs_code sp pairs ps :
  cconst_pairs pairs = Some ps ->
  flat_map (fun p => ccompile ins sp false (fst p) ++ ccompile ins sp false (snd p)) pairs = map ILoadConst (flat ps)
  /\ length pairs = length ps.
Proof.
  revert ps. induction pairs as [|[k v] r IH]; intros ps H.
  - inversion H. auto.
  - destruct k; try discriminate. destruct v; try discriminate. cbn [cconst_pairs] in H.
    destruct (cconst_pairs r) as [pr|] eqn:E; cbn [omap] in H; try discriminate. inversion H; subst.
    destruct (IH pr eq_refl) as [A B]. cbn [flat_map map length flat fst snd app]. fold (flat pr). rewrite A, B. split; reflexivity.
Qed.

Lemma fold_is_construction sp e v :
  cas_const ins e = Some v -> forall stk, run (ccompile ins sp false e) stk = Some (v :: stk).
Proof.
  intros H stk. rewrite ccompile_eq.
  destruct e; cbn [cas_const] in H; try discriminate.
  - inversion H. reflexivity.
  - destruct (cconst_values items) as [vs|] eqn:E; cbn [omap] in H; try discriminate. inversion H; subst.
    destruct (cconst_values_code sp items vs E) as [A B]. cbn [cstruct]. rewrite A, B, run_app, run_consts.
    cbn [obind Coll.run]. rewrite build_list_step. reflexivity.
  - destruct (cconst_values items) as [vs|] eqn:E; cbn [omap] in H; try discriminate. inversion H; subst.
    destruct (cconst_values_code sp items vs E) as [A B]. cbn [cstruct]. rewrite A, B, run_app, run_consts.
    cbn [obind Coll.run]. rewrite build_tuple_step. reflexivity.
  - destruct (cconst_pairs pairs) as [ps|] eqn:E; cbn [omap] in H; try discriminate. inversion H; subst.
    destruct (cconst_pairs_code sp pairs ps E) as [A B]. cbn [cstruct]. rewrite A, B, run_app, run_consts.
    cbn [obind Coll.run]. rewrite build_map_step. reflexivity.
Qed.

(* the structural code under two settings whose operand compilers agree *)
Lemma cstruct_ceq sp1 sp2 comp1 comp2 g e n :
  comp_const comp1 -> comp_const comp2 ->
  (forall x, (cdepth x <= n)%nat -> ceq (comp1 x) (comp2 (g x))) ->
  (cdepth e <= S n)%nat ->
  (forall l, g (XConst l) = XConst l) ->
  match e with
  | XVar x => True
  | _ => ceq (cstruct sp1 comp1 e)
             (cstruct sp2 comp2 (match e with
                                 | XList items => XList (map g items)
                                 | XTuple items => XTuple (map g items)
                                 | XMap pairs => XMap (map (fun p => (g (fst p), g (snd p))) pairs)
                                 | XCall recv f args caller => XCall (match recv with Some r => Some (g r) | None => None end) f (mapargs g args) caller
                                 | _ => e end))
  end.
Proof.
  intros C1 C2 IH Hd Hg. destruct e; cbn [cdepth] in Hd; try exact I.
  - apply ceq_refl.
  - cbn [cstruct]. rewrite map_length, flat_map_map.
    apply ceq_app_l. apply flat_map_ceq. intros x Hx. apply IH. pose proof (cmaxmap_in cdepth items x Hx). lia.
  - cbn [cstruct]. rewrite map_length, flat_map_map.
    apply ceq_app_l. apply flat_map_ceq. intros x Hx. apply IH. pose proof (cmaxmap_in cdepth items x Hx). lia.
  - cbn [cstruct]. rewrite map_length, flat_map_map. cbn [fst snd].
    apply ceq_app_l. apply flat_map_ceq. intros x Hx.
    pose proof (cmaxmap_in (fun p => Nat.max (cdepth (fst p)) (cdepth (snd p))) pairs x Hx) as Hm. cbn beta in Hm.
    apply ceq_app; apply IH; lia.
  - cbn [cstruct].
    destruct (cca_equiv sp1 sp2 comp1 comp2 g args (match recv with Some _ => 1 | None => 0 end)%nat caller C1 C2) as [Hn Hc].
    { intros a Ha. apply IH. pose proof (cmaxmap_in (fun a => cdepth (snd a)) args a Ha) as Hm. cbn beta in Hm. lia. }
    assert (Hx : (match recv with Some _ => 1 | None => 0 end = match (match recv with Some r => Some (g r) | None => None end) with Some _ => 1 | None => 0 end)%nat)
      by (destruct recv; reflexivity).
    rewrite <- Hx, <- Hn.
    apply ceq_app; [destruct recv as [r|]; [apply IH; lia|apply ceq_refl]|].
    apply ceq_app_l. exact Hc.
Qed.

(* every setting of (static path, folder) against the plain one: everything built at run time *)
Lemma to_plain sp f : forall n e, (cdepth e <= n)%nat -> ceq (ccompile ins sp f e) (ccompile ins false false e).
Proof.
  induction n as [|n IH]; intros e Hd.
  { destruct e; cbn [cdepth] in Hd; lia. }
  assert (Hs : ceq (cstruct sp (ccompile ins sp f) e) (cstruct false (ccompile ins false false) e)).
  { pose proof (cstruct_ceq sp false (ccompile ins sp f) (ccompile ins false false) (fun x => x) e n
                  (comp_const_ccompile sp f) (comp_const_ccompile false false) IH Hd) as H.
    destruct e; try (apply ceq_refl).
    - specialize (H (fun l => eq_refl)). cbn beta iota in H. rewrite map_id in H. exact H.
    - specialize (H (fun l => eq_refl)). cbn beta iota in H. rewrite map_id in H. exact H.
    - specialize (H (fun l => eq_refl)). cbn beta iota in H.
      replace (map (fun p : cexpr * cexpr => (fst p, snd p)) pairs) with pairs in H; [exact H|].
      clear. induction pairs as [|[a b] r IHr]; [reflexivity|]. cbn [map fst snd]. rewrite <- IHr. reflexivity.
    - specialize (H (fun l => eq_refl)). cbn beta iota in H. rewrite mapargs_id in H.
      destruct recv; exact H. }
  rewrite (ccompile_eq sp f e), (ccompile_eq false false e).
  destruct f.
  - destruct (cas_const ins e) as [v|] eqn:E.
    + (* folded *)
      intros stk. pose proof (fold_is_construction false e v E stk) as Hc. rewrite ccompile_eq in Hc.
      cbn [Coll.run Coll.step obind]. symmetry. exact Hc.
    + destruct e; cbn [cas_const] in E; try discriminate; exact Hs.
  - destruct e; exact Hs.
Qed.

Lemma ccompile_settings sp1 f1 sp2 f2 e : ceq (ccompile ins sp1 f1 e) (ccompile ins sp2 f2 e).
Proof.
  eapply ceq_trans; [apply (to_plain sp1 f1 (cdepth e) e (le_n _))|].
  apply ceq_sym. apply (to_plain sp2 f2 (cdepth e) e (le_n _)).
Qed.

(* ---- literal hoisting: on the plain code it only turns LoadConst into Lookup ---- *)
Lemma hoist_plain sigma : cbound rho sigma ->
  forall n e, (cdepth e <= n)%nat -> ceq (ccompile ins false false e) (ccompile ins false false (csubst sigma e)).
Proof.
  intros Hb. induction n as [|n IH]; intros e Hd.
  { destruct e; cbn [cdepth] in Hd; lia. }
  pose proof (cstruct_ceq false false (ccompile ins false false) (ccompile ins false false) (csubst sigma) e n
                (comp_const_ccompile false false) (comp_const_ccompile false false) IH Hd) as H.
  destruct e.
  - apply ceq_refl.
  - cbn [csubst]. destruct (sigma x) as [l|] eqn:Ex; [|apply ceq_refl].
    intros stk. cbn. rewrite (Hb x l Ex). reflexivity.
  - specialize (H (fun l => eq_refl)). rewrite !ccompile_eq. exact H.
  - specialize (H (fun l => eq_refl)). rewrite !ccompile_eq. exact H.
  - specialize (H (fun l => eq_refl)). rewrite !ccompile_eq. exact H.
  - specialize (H (fun l => eq_refl)). rewrite !ccompile_eq. exact H.
Qed.

(* ---- the plain code against the reference semantics [ceval] ---- *)
Notation ceval := (ceval ins rho).
Definition evalarg (a : argk * cexpr) : option (argk * cval) := omap (pair (fst a)) (ceval (snd a)).
Definition good (comp : cexpr -> list cinstr) (e : cexpr) : Prop :=
  forall stk, run (comp e) stk = omap (fun v => v :: stk) (ceval e).

Lemma mapM_length {A B} (f : A -> option B) l vs : mapM f l = Some vs -> length l = length vs.
Proof.
  revert vs. induction l as [|x r IH]; intros vs H; [inversion H; reflexivity|].
  cbn [mapM] in H. destruct (f x); cbn [obind] in H; try discriminate.
  destruct (mapM f r) as [vr|] eqn:E; cbn [omap] in H; try discriminate. inversion H; subst.
  cbn [length]. rewrite (IH vr eq_refl). reflexivity.
Qed.

Lemma run_items comp items :
  (forall x, In x items -> good comp x) ->
  forall stk, run (flat_map comp items) stk = omap (fun vs => rev vs ++ stk) (mapM ceval items).
Proof.
  induction items as [|x r IH]; intros H stk; [reflexivity|].
  cbn [flat_map mapM]. rewrite run_app, (H x (or_introl eq_refl)).
  destruct (ceval x) as [v|]; cbn [omap obind]; [|reflexivity].
  rewrite IH by (intros y Hy; apply H; right; exact Hy).
  destruct (mapM ceval r) as [vs|]; cbn [omap]; [|reflexivity].
  cbn [rev]. rewrite <- app_assoc. reflexivity.
Qed.

Lemma run_pairs comp pairs :
  (forall p, In p pairs -> good comp (fst p) /\ good comp (snd p)) ->
  forall stk, run (flat_map (fun p => comp (fst p) ++ comp (snd p)) pairs) stk =
    omap (fun ps => rev (flat ps) ++ stk)
         (mapM (fun p => obind (ceval (fst p)) (fun k => omap (pair k) (ceval (snd p)))) pairs).
Proof.
  induction pairs as [|[ke ve] r IH]; intros H stk; [reflexivity|].
  cbn [flat_map mapM fst snd]. destruct (H (ke, ve) (or_introl eq_refl)) as [Hk Hv]. cbn [fst snd] in Hk, Hv.
  rewrite !run_app, Hk. destruct (ceval ke) as [k|]; cbn [omap obind]; [|reflexivity].
  rewrite Hv. destruct (ceval ve) as [v|]; cbn [omap obind]; [|reflexivity].
  rewrite IH by (intros y Hy; apply H; right; exact Hy).
  match goal with |- context [mapM ?f r] => destruct (mapM f r) as [ps|] end; cbn [omap]; [|reflexivity].
  cbn [flat flat_map fst snd app rev]. fold (flat ps). rewrite <- !app_assoc. reflexivity.
Qed.

(* the positional loop, abstractly: finished batches and pending values, in source order *)
Definition apos (bp : list cval * list cval) (kv : argk * cval) : list cval * list cval :=
  match fst kv with
  | KPos => (fst bp, snd bp ++ [snd kv])
  | KPosSplat => ((match snd bp with [] => fst bp | _ :: _ => fst bp ++ [CList (snd bp)] end) ++ [snd kv], [])
  | _ => bp
  end.

Lemma pos_loop_prefix comp args : forall st, exists tail, cs_code (fold_left (pos_step comp) args st) = cs_code st ++ tail.
Proof.
  induction args as [|[k e] r IH]; intros st; [exists []; rewrite app_nil_r; reflexivity|].
  cbn [fold_left]. destruct (IH (pos_step comp st (k, e))) as [t Ht]. rewrite Ht.
  unfold pos_step. cbn [fst snd]. destruct k; cbn [cs_code]; try (exists t; reflexivity).
  - eexists. rewrite <- app_assoc. reflexivity.
  - destruct (Nat.ltb 0 (cs_pending st)); cbn [cs_code]; eexists; rewrite <- !app_assoc; reflexivity.
Qed.

Lemma kw_loop_prefix comp args : forall st, exists tail, cs_code (fold_left (kw_step comp) args st) = cs_code st ++ tail.
Proof.
  induction args as [|[k e] r IH]; intros st; [exists []; rewrite app_nil_r; reflexivity|].
  cbn [fold_left]. destruct (IH (kw_step comp st (k, e))) as [t Ht]. rewrite Ht.
  unfold kw_step. cbn [fst snd]. destruct k; cbn [cs_code]; try (exists t; reflexivity).
  - eexists. rewrite <- !app_assoc. reflexivity.
  - destruct (Nat.ltb 0 (cs_pending st)); cbn [cs_code]; eexists; rewrite <- !app_assoc; reflexivity.
Qed.

Lemma pos_loop_run comp stk0 base args :
  (forall a, In a args -> good comp (snd a)) ->
  forall st b p, cs_pending st = length p -> cs_batches st = length b ->
  run (cs_code st) stk0 = Some (rev p ++ rev b ++ base) ->
  match mapM_sel (fun a => is_pos (fst a)) evalarg args with
  | Some pvs =>
      let bp := fold_left apos pvs (b, p) in
      let st' := fold_left (pos_step comp) args st in
      cs_pending st' = length (snd bp) /\ cs_batches st' = length (fst bp) /\
      run (cs_code st') stk0 = Some (rev (snd bp) ++ rev (fst bp) ++ base)
  | None => run (cs_code (fold_left (pos_step comp) args st)) stk0 = None
  end.
Proof.
  induction args as [|[k e] r IH]; intros H st b p Hp Hb Hr.
  - cbn. auto.
  - assert (Hr' : forall a, In a r -> good comp (snd a)) by (intros a Ha; apply H; right; exact Ha).
    pose proof (H (k, e) (or_introl eq_refl)) as He. cbn [snd] in He.
    cbn [mapM_sel fold_left fst]. destruct k; cbn [is_pos].
    + (* positional *)
      unfold evalarg at 1. cbn [fst snd]. destruct (ceval e) as [v|] eqn:Ev; cbn [omap obind].
      * specialize (IH Hr' (pos_step comp st (KPos, e)) b (p ++ [v])).
        unfold pos_step at 1 2 3 in IH. cbn [fst snd cs_pending cs_batches cs_code] in IH.
        assert (H1 : S (cs_pending st) = length (p ++ [v])) by (rewrite app_length; cbn; lia).
        assert (H3 : run (cs_code st ++ comp e) stk0 = Some (rev (p ++ [v]) ++ rev b ++ base)).
        { rewrite run_app, Hr. cbn [obind]. rewrite He, Ev. cbn [omap]. rewrite rev_app_distr. reflexivity. }
        specialize (IH H1 Hb H3).
        destruct (mapM_sel (fun a => is_pos (fst a)) evalarg r) as [pvs|]; cbn [omap]; [|exact IH].
        cbn [fold_left]. unfold apos at 2. cbn [fst snd]. exact IH.
      * destruct (pos_loop_prefix comp r (pos_step comp st (KPos, e))) as [t Ht]. rewrite Ht.
        unfold pos_step. cbn [fst snd cs_code]. rewrite run_app, run_app, Hr. cbn [obind]. rewrite He, Ev. reflexivity.
    + apply (IH Hr' st b p Hp Hb Hr).
    + (* splat *)
      unfold evalarg at 1. cbn [fst snd].
      set (st1 := if Nat.ltb 0 (cs_pending st) then mkCS (cs_code st ++ [IBuildList (cs_pending st)]) 0 (S (cs_batches st)) else st).
      set (b1 := match p with [] => b | _ :: _ => b ++ [CList p] end).
      assert (Hst1 : cs_pending st1 = 0%nat /\ cs_batches st1 = length b1 /\ run (cs_code st1) stk0 = Some (rev b1 ++ base)).
      { subst st1 b1. destruct p as [|p0 pr].
        - cbn [length] in Hp. rewrite Hp. cbn [Nat.ltb Nat.leb]. cbn [rev app] in Hr. auto.
        - assert (Hlt : Nat.ltb 0 (cs_pending st) = true) by (rewrite Hp; reflexivity). rewrite Hlt.
          cbn [cs_pending cs_batches cs_code]. split; [reflexivity|]. split; [rewrite app_length, Hb; cbn [length]; lia|].
          rewrite run_app, Hr. cbn [obind Coll.run]. rewrite Hp, build_list_step. cbn [obind]. rewrite rev_app_distr. reflexivity. }
      destruct Hst1 as (S1 & S2 & S3).
      destruct (ceval e) as [v|] eqn:Ev; cbn [omap obind].
      * specialize (IH Hr' (pos_step comp st (KPosSplat, e)) (b1 ++ [v]) []).
        unfold pos_step at 1 2 3 in IH. cbn [fst snd] in IH. fold st1 in IH. cbn [cs_pending cs_batches cs_code] in IH.
        assert (H2 : S (cs_batches st1) = length (b1 ++ [v])) by (rewrite app_length, S2; cbn; lia).
        assert (H3 : run (cs_code st1 ++ comp e) stk0 = Some (rev [] ++ rev (b1 ++ [v]) ++ base)).
        { rewrite run_app, S3. cbn [obind]. rewrite He, Ev. cbn [omap rev app]. rewrite rev_app_distr. reflexivity. }
        specialize (IH S1 H2 H3).
        destruct (mapM_sel (fun a => is_pos (fst a)) evalarg r) as [pvs|]; cbn [omap]; [|exact IH].
        cbn [fold_left]. unfold apos at 2. cbn [fst snd]. fold b1. exact IH.
      * destruct (pos_loop_prefix comp r (pos_step comp st (KPosSplat, e))) as [t Ht]. rewrite Ht.
        unfold pos_step. cbn [fst snd]. fold st1. cbn [cs_code]. rewrite run_app, run_app, S3. cbn [obind]. rewrite He, Ev. reflexivity.
    + apply (IH Hr' st b p Hp Hb Hr).
Qed.


(* the keyword loop without `**m`: it pushes key, value, key, value, .. *)
Definition topair (kv : argk * cval) : cval * cval :=
  match fst kv with KKw key => (cstr key, snd kv) | _ => (CUndef, snd kv) end.

Lemma kw_loop_run comp stk1 args :
  (forall a, In a args -> good comp (snd a)) ->
  forallb (fun a => not_kwsplat (fst a)) args = true ->
  forall st ps, cs_batches st = 0%nat -> cs_pending st = length ps ->
  run (cs_code st) stk1 = Some (rev (flat ps) ++ stk1) ->
  match mapM_sel (fun a => is_kw (fst a)) evalarg args with
  | Some kvs =>
      let st' := fold_left (kw_step comp) args st in
      let ps' := ps ++ map topair kvs in
      cs_batches st' = 0%nat /\ cs_pending st' = length ps' /\
      run (cs_code st') stk1 = Some (rev (flat ps') ++ stk1) /\
      keywords ins kvs (ins_all ins ps []) = Some (ins_all ins ps' [])
  | None => run (cs_code (fold_left (kw_step comp) args st)) stk1 = None
  end.
Proof.
  induction args as [|[k e] r IH]; intros H Hn st ps Hb Hp Hr.
  - cbn. rewrite app_nil_r. auto.
  - assert (Hr' : forall a, In a r -> good comp (snd a)) by (intros a Ha; apply H; right; exact Ha).
    pose proof (H (k, e) (or_introl eq_refl)) as He. cbn [snd] in He.
    cbn [forallb fst] in Hn. apply andb_prop in Hn as [Hk Hn'].
    cbn [mapM_sel fold_left fst]. destruct k; cbn [is_kw]; try discriminate.
    + apply (IH Hr' Hn' st ps Hb Hp Hr).
    + unfold evalarg at 1. cbn [fst snd]. destruct (ceval e) as [v|] eqn:Ev; cbn [omap obind].
      * specialize (IH Hr' Hn' (kw_step comp st (KKw k, e)) (ps ++ [(cstr k, v)])).
        unfold kw_step at 1 2 3 in IH. cbn [fst snd cs_pending cs_batches cs_code] in IH.
        assert (H1 : S (cs_pending st) = length (ps ++ [(cstr k, v)])) by (rewrite app_length; cbn; lia).
        assert (H3 : run (cs_code st ++ [ILoadConst (cstr k)] ++ comp e) stk1 = Some (rev (flat (ps ++ [(cstr k, v)])) ++ stk1)).
        { rewrite run_app, Hr. cbn [obind]. rewrite run_app. cbn [Coll.run Coll.step obind]. rewrite He, Ev. cbn [omap].
          rewrite flat_app, rev_app_distr. reflexivity. }
        specialize (IH Hb H1 H3).
        destruct (mapM_sel (fun a => is_kw (fst a)) evalarg r) as [kvs|]; cbn [omap]; [|exact IH].
        cbn [map keywords]. unfold topair at 2 4. cbn [fst snd]. rewrite <- app_assoc in IH. cbn [app] in IH.
        destruct IH as (A & B & C & D). repeat split; auto.
        change (topair (KKw k, v)) with (cstr k, v).
        unfold ins_all at 1 in D. rewrite fold_left_app in D. cbn [fold_left fst snd] in D. exact D.
      * destruct (kw_loop_prefix comp r (kw_step comp st (KKw k, e))) as [t Ht]. rewrite Ht.
        unfold kw_step. cbn [fst snd cs_code]. rewrite !run_app, Hr. cbn [obind]. rewrite run_app. cbn [obind Coll.run Coll.step]. rewrite He, Ev. reflexivity.
    + apply (IH Hr' Hn' st ps Hb Hp Hr).
Qed.

Lemma mapM_sel_none {A B} (p : A -> bool) (f : A -> option B) l : existsb p l = false -> mapM_sel p f l = Some [].
Proof.
  induction l as [|x r IH]; intros H; [reflexivity|]. cbn [existsb] in H. apply orb_false_elim in H as [H1 H2].
  cbn [mapM_sel]. rewrite H1. apply IH. exact H2.
Qed.

Lemma mapM_sel_some {A B} (p : A -> bool) (f : A -> option B) l vs : existsb p l = true -> mapM_sel p f l = Some vs -> vs <> [].
Proof.
  revert vs. induction l as [|x r IH]; intros vs H E; [discriminate|]. cbn [existsb] in H. cbn [mapM_sel] in E.
  destruct (p x).
  - destruct (f x); cbn [obind] in E; try discriminate. destruct (mapM_sel p f r); cbn [omap] in E; try discriminate.
    inversion E. discriminate.
  - cbn [orb] in H. apply (IH vs H E).
Qed.

(* the keyword block without `**m` *)
Lemma kwargs_run comp args caller stk1 :
  (forall a, In a args -> good comp (snd a)) ->
  forallb (fun a => not_kwsplat (fst a)) args = true ->
  run (kwargs_code ins false comp args caller) stk1 =
  obind (mapM_sel (fun a => is_kw (fst a)) evalarg args) (fun kvs =>
    omap (fun m => CKwargs (match caller with Some id => ins caller_key (CMacro id) m | None => m end) :: stk1) (keywords ins kvs [])).
Proof.
  intros H Hn. unfold kwargs_code. cbn [andb].
  pose proof (kw_loop_run comp stk1 args H Hn (mkCS [] 0 0) [] eq_refl eq_refl eq_refl) as L.
  destruct (mapM_sel (fun a => is_kw (fst a)) evalarg args) as [kvs|]; cbn [obind].
  - cbn zeta in L. destruct L as (A & B & C & D). cbn [app ins_all fold_left] in *. rewrite D. cbn [omap].
    set (k := fold_left (kw_step comp) args (mkCS [] 0 0)) in *.
    destruct caller as [id|]; cbn [cs_code cs_pending cs_batches]; rewrite A; cbn [Nat.ltb Nat.leb].
    + rewrite run_app, run_app, C. cbn [obind]. rewrite !run_loadconst. cbn [Coll.run obind].
      replace (CMacro id :: caller_key :: rev (flat (map topair kvs)) ++ stk1)
        with (rev (flat (map topair kvs ++ [(caller_key, CMacro id)])) ++ stk1)
        by (rewrite flat_app, rev_app_distr; reflexivity).
      replace (S (cs_pending k)) with (length (map topair kvs ++ [(caller_key, CMacro id)])) by (rewrite app_length, B; cbn; lia).
      rewrite build_kwargs_step. cbn [obind]. unfold ins_all. rewrite fold_left_app. reflexivity.
    + rewrite run_app, C. cbn [obind]. rewrite B, run_one, build_kwargs_step. reflexivity.
  - set (k := fold_left (kw_step comp) args (mkCS [] 0 0)) in *.
    destruct caller as [id|]; cbn [cs_code cs_pending cs_batches];
      repeat match goal with |- context [if ?c then _ else _] => destruct c end;
      rewrite <- ?app_assoc, run_app, L; reflexivity.
Qed.

(* what the callee receives positionally: batches spliced, then the pending values *)
Definition flat_of (bp : list cval * list cval) : option (list cval) :=
  omap (fun its => concat its ++ snd bp) (mapM citer (fst bp)).

Lemma mapM_app {A B} (f : A -> option B) a b :
  mapM f (a ++ b) = obind (mapM f a) (fun x => omap (app x) (mapM f b)).
Proof.
  induction a as [|x r IH]; cbn [app mapM obind].
  - destruct (mapM f b); reflexivity.
  - destruct (f x); cbn [obind]; [|reflexivity]. rewrite IH.
    destruct (mapM f r); cbn [obind omap]; [|reflexivity]. destruct (mapM f b); reflexivity.
Qed.

Lemma flat_of_apos bp kv :
  flat_of (apos bp kv) =
  obind (flat_of bp) (fun l =>
    match fst kv with
    | KPos => Some (l ++ [snd kv])
    | KPosSplat => omap (app l) (citer (snd kv))
    | _ => Some l
    end).
Proof.
  destruct bp as [b p]. destruct kv as [k v]. unfold apos, flat_of. cbn [fst snd].
  destruct k; cbn [fst snd].
  - destruct (mapM citer b); cbn [omap obind]; [rewrite app_assoc|]; reflexivity.
  - destruct (mapM citer b); reflexivity.
  - destruct p as [|p0 pr].
    + rewrite mapM_app. cbn [mapM]. destruct (mapM citer b) as [its|]; cbn [obind omap]; [|reflexivity].
      destruct (citer v) as [iv|]; cbn [obind omap]; [|reflexivity].
      rewrite concat_app. cbn [concat]. rewrite !app_nil_r. reflexivity.
    + rewrite !mapM_app. cbn [mapM citer obind omap]. destruct (mapM citer b) as [its|]; cbn [obind omap]; [|reflexivity].
      destruct (citer v) as [iv|]; cbn [obind omap]; [|reflexivity].
      rewrite !concat_app. cbn [concat]. rewrite !app_nil_r, <- !app_assoc. reflexivity.
  - destruct (mapM citer b); reflexivity.
Qed.

Lemma flat_of_fold pvs : forall bp,
  flat_of (fold_left apos pvs bp) = obind (flat_of bp) (fun l => omap (app l) (positional pvs)).
Proof.
  induction pvs as [|[k v] r IH]; intros bp.
  - cbn [fold_left positional omap]. destruct (flat_of bp); cbn [obind]; [rewrite app_nil_r|]; reflexivity.
  - cbn [fold_left]. rewrite IH, flat_of_apos. cbn [fst snd].
    destruct (flat_of bp) as [l|]; cbn [obind]; [|reflexivity].
    destruct k; cbn [positional obind omap].
    + destruct (positional r); cbn [omap]; [rewrite <- app_assoc|]; reflexivity.
    + reflexivity.
    + destruct (citer v) as [iv|]; cbn [omap obind]; [|reflexivity].
      destruct (positional r); cbn [omap]; [rewrite <- app_assoc|]; reflexivity.
    + reflexivity.
Qed.

Lemma unpack_spec lists : forall stk len,
  unpack lists stk len = omap (fun its => (rev (concat its) ++ stk, len + lenZ (concat its))) (mapM citer lists).
Proof.
  induction lists as [|l r IH]; intros stk len.
  - cbn. rewrite Z.add_0_r. reflexivity.
  - cbn [unpack mapM]. destruct (citer l) as [items|]; cbn [obind]; [|reflexivity].
    rewrite IH. destruct (mapM citer r) as [its|]; cbn [omap]; [|reflexivity].
    cbn [concat]. rewrite rev_app_distr, <- app_assoc. unfold lenZ. rewrite app_length, Nat2Z.inj_add. f_equal. f_equal. lia.
Qed.

(* the end of compile_call_args and the call instruction, from the abstract state of the positional loop *)
Lemma call_tail f b p base :
  let pending := length p in
  let tail :=
    if Nat.ltb 0 (length b) then
      (if Nat.ltb 0 pending then [IBuildList pending; IUnpackLists (S (length b)); ICall f None]
       else [IUnpackLists (length b); ICall f None])
    else [ICall f (Some pending)] in
  run tail (rev p ++ rev b ++ base) = omap (fun args => CRes f args :: base) (flat_of (b, p)).
Proof.
  cbv zeta. unfold flat_of. cbn [fst snd].
  assert (Hcall : forall args, run [ICall f None] (CAtom (LInt (0 + lenZ args)) :: rev args ++ base) = Some (CRes f args :: base)).
  { intros args. cbn [Coll.run Coll.step]. rewrite Z.add_0_l.
    destruct (lenZ args <? 0) eqn:E; [unfold lenZ in E; lia|].
    unfold lenZ. rewrite Nat2Z.id, <- rev_length, pop_n_app. cbn [omap fst snd obind]. rewrite rev_involutive. reflexivity. }
  destruct b as [|b0 br].
  - cbn [length Nat.ltb Nat.leb mapM omap concat app rev]. cbn [Coll.run Coll.step].
    rewrite <- rev_length, pop_n_app. cbn [omap obind fst snd]. rewrite rev_involutive. reflexivity.
  - remember (b0 :: br) as b eqn:Eb.
    assert (Hlt : Nat.ltb 0 (length b) = true) by (subst b; reflexivity). rewrite Hlt.
    destruct p as [|p0 pr].
    + cbn [length Nat.ltb Nat.leb rev app]. cbn [Coll.run Coll.step].
      rewrite <- rev_length, pop_n_app. cbn [obind fst snd]. rewrite rev_involutive, unpack_spec.
      destruct (mapM citer b) as [its|]; cbn [omap obind]; [|reflexivity].
      rewrite app_nil_r. apply Hcall.
    + remember (p0 :: pr) as p eqn:Ep.
      assert (Hlt2 : Nat.ltb 0 (length p) = true) by (subst p; reflexivity). rewrite Hlt2.
      cbn [Coll.run]. rewrite build_list_step. cbn [obind].
      cbn [Coll.step].
      replace (CList p :: rev b ++ base) with (rev (b ++ [CList p]) ++ base) by (rewrite rev_app_distr; reflexivity).
      replace (S (length b)) with (length (rev (b ++ [CList p]))) by (rewrite rev_length, app_length; cbn; lia).
      rewrite pop_n_app. cbn [obind fst snd]. rewrite rev_involutive, unpack_spec, mapM_app. cbn [mapM citer obind omap].
      destruct (mapM citer b) as [its|]; cbn [omap obind]; [|reflexivity].
      rewrite concat_app. cbn [concat]. rewrite app_nil_r. apply Hcall.
Qed.


Lemma flat_of_snoc b p kw : flat_of (b, p ++ kw) = omap (fun l => l ++ kw) (flat_of (b, p)).
Proof. unfold flat_of. cbn [fst snd]. destruct (mapM citer b); cbn [omap]; [rewrite app_assoc|]; reflexivity. Qed.

(* compile_call_args (dynamic keyword path, no `**m`) followed by the call instruction *)
Lemma cca_run comp args caller f rv stk :
  (forall a, In a args -> good comp (snd a)) ->
  forallb (fun a => not_kwsplat (fst a)) args = true ->
  let ca := compile_call_args ins false comp args (length rv) caller in
  run (fst ca ++ [ICall f (snd ca)]) (rev rv ++ stk) =
  obind (mapM_sel (fun a => is_pos (fst a)) evalarg args) (fun pvs =>
  obind (mapM_sel (fun a => is_kw (fst a)) evalarg args) (fun kvs =>
  obind (match kvs, caller with
         | [], None => Some []
         | _, _ => omap (fun m => [CKwargs (match caller with Some id => ins caller_key (CMacro id) m | None => m end)])
                        (keywords ins kvs [])
         end) (fun kw =>
  omap (fun pos => CRes f (rv ++ pos ++ kw) :: stk) (positional pvs)))).
Proof.
  intros H Hn. cbv zeta. unfold compile_call_args.
  pose proof (pos_loop_run comp (rev rv ++ stk) stk args H (mkCS [] (length rv) 0) [] rv eq_refl eq_refl eq_refl) as L.
  set (p := fold_left (pos_step comp) args (mkCS [] (length rv) 0)) in *.
  destruct (mapM_sel (fun a => is_pos (fst a)) evalarg args) as [pvs|]; cbn [obind].
  2: { assert (Hpre : forall tail, run (cs_code p ++ tail) (rev rv ++ stk) = None) by (intros; rewrite run_app, L; reflexivity).
       destruct (has_kwargs args caller);
         repeat match goal with |- context [if ?c then _ else _] => destruct c end;
         cbn [fst snd]; rewrite <- ?app_assoc; apply Hpre. }
  cbv zeta in L. destruct L as (Lp & Lb & Lr).
  set (bp := fold_left apos pvs ([], rv)) in *.
  (* the positional part of the answer *)
  assert (Hflat : flat_of bp = omap (app rv) (positional pvs)).
  { subst bp. rewrite flat_of_fold. reflexivity. }
  destruct (has_kwargs args caller) eqn:Hk.
  - (* a keyword map is passed *)
    pose proof (kwargs_run comp args caller (rev (snd bp) ++ rev (fst bp) ++ stk) H Hn) as K.
    destruct (mapM_sel (fun a => is_kw (fst a)) evalarg args) as [kvs|] eqn:Ekv; cbn [obind] in K |- *.
    2: { repeat match goal with |- context [if ?c then _ else _] => destruct c end;
           cbn [fst snd]; rewrite <- ?app_assoc; rewrite run_app, Lr; cbn [obind]; rewrite run_app, K; reflexivity. }
    assert (Hsel : match kvs, caller with
                   | [], None => Some []
                   | _, _ => omap (fun m => [CKwargs (match caller with Some id => ins caller_key (CMacro id) m | None => m end)]) (keywords ins kvs [])
                   end = omap (fun m => [CKwargs (match caller with Some id => ins caller_key (CMacro id) m | None => m end)]) (keywords ins kvs [])).
    { destruct caller as [id|]; [destruct kvs; reflexivity|].
      unfold has_kwargs in Hk. cbn [orb] in Hk. pose proof (mapM_sel_some (fun a => is_kw (fst a)) evalarg args kvs Hk Ekv). destruct kvs; [congruence|reflexivity]. }
    rewrite Hsel. clear Hsel.
    destruct (keywords ins kvs []) as [m|]; cbn [omap obind] in K |- *.
    2: { repeat match goal with |- context [if ?c then _ else _] => destruct c end;
           cbn [fst snd]; rewrite <- ?app_assoc; rewrite run_app, Lr; cbn [obind]; rewrite run_app, K; reflexivity. }
    set (kwv := CKwargs (match caller with Some id => ins caller_key (CMacro id) m | None => m end)) in *.
    pose proof (call_tail f (fst bp) (snd bp ++ [kwv]) stk) as T. cbv zeta in T.
    rewrite flat_of_snoc in T. replace (fst bp, snd bp) with bp in T by (destruct bp; reflexivity). rewrite Hflat in T.
    rewrite app_length in T. cbn [length] in T. rewrite Nat.add_1_r in T. cbn [Nat.ltb Nat.leb] in T.
    rewrite rev_app_distr in T. cbn [rev app] in T.
    rewrite Lp, Lb. cbn [Nat.ltb Nat.leb].
    destruct (positional pvs) as [pos|]; cbn [omap] in T |- *.
    + destruct (match length (fst bp) with 0%nat => false | S _ => true end);
        cbn [fst snd]; rewrite <- ?app_assoc; cbn [app]; rewrite run_app, Lr; cbn [obind]; rewrite run_app, K; cbn [obind];
        rewrite T, <- app_assoc; reflexivity.
    + destruct (match length (fst bp) with 0%nat => false | S _ => true end);
        cbn [fst snd]; rewrite <- ?app_assoc; cbn [app]; rewrite run_app, Lr; cbn [obind]; rewrite run_app, K; cbn [obind];
        rewrite T; reflexivity.
  - (* no keyword argument at all *)
    unfold has_kwargs in Hk. apply orb_false_elim in Hk as [Hc Hex].
    destruct caller; [discriminate|].
    rewrite (mapM_sel_none (fun a => is_kw (fst a)) evalarg args Hex). cbn [obind].
    pose proof (call_tail f (fst bp) (snd bp) stk) as T. cbv zeta in T.
    replace (fst bp, snd bp) with bp in T by (destruct bp; reflexivity). rewrite Hflat in T.
    rewrite Lp, Lb.
    destruct (positional pvs) as [pos|]; cbn [omap] in T |- *.
    + destruct (Nat.ltb 0 (length (fst bp))); [destruct (Nat.ltb 0 (length (snd bp)))|];
        cbn [fst snd]; rewrite <- ?app_assoc; cbn [app]; rewrite run_app, Lr; cbn [obind]; rewrite T, app_nil_r; reflexivity.
    + destruct (Nat.ltb 0 (length (fst bp))); [destruct (Nat.ltb 0 (length (snd bp)))|];
        cbn [fst snd]; rewrite <- ?app_assoc; cbn [app]; rewrite run_app, Lr; cbn [obind]; rewrite T; reflexivity.
Qed.


(* the plain code computes [ceval] *)
Lemma plain_correct : forall n e, (cdepth e <= n)%nat -> nokwsplat e = true -> good (ccompile ins false false) e.
Proof.
  induction n as [|n IH]; intros e Hd Hk.
  { destruct e; cbn [cdepth] in Hd; lia. }
  intros stk. rewrite ccompile_eq.
  destruct e; cbn [cdepth] in Hd; cbn [nokwsplat] in Hk; cbn [cstruct CollSpec.ceval].
  - reflexivity.
  - reflexivity.
  - (* list *)
    assert (Hi : forall x, In x items -> good (ccompile ins false false) x).
    { intros x Hx. apply IH; [pose proof (cmaxmap_in cdepth items x Hx); lia|].
      rewrite forallb_forall in Hk. apply Hk. exact Hx. }
    rewrite run_app, (run_items _ items Hi).
    destruct (mapM ceval items) as [vs|] eqn:E; cbn [omap obind]; [|reflexivity].
    rewrite (mapM_length _ _ _ E), run_one, build_list_step. reflexivity.
  - (* tuple *)
    assert (Hi : forall x, In x items -> good (ccompile ins false false) x).
    { intros x Hx. apply IH; [pose proof (cmaxmap_in cdepth items x Hx); lia|].
      rewrite forallb_forall in Hk. apply Hk. exact Hx. }
    rewrite run_app, (run_items _ items Hi).
    destruct (mapM ceval items) as [vs|] eqn:E; cbn [omap obind]; [|reflexivity].
    rewrite (mapM_length _ _ _ E), run_one, build_tuple_step. reflexivity.
  - (* map *)
    assert (Hi : forall p, In p pairs -> good (ccompile ins false false) (fst p) /\ good (ccompile ins false false) (snd p)).
    { intros x Hx. rewrite forallb_forall in Hk. specialize (Hk x Hx). apply andb_prop in Hk as [K1 K2].
      pose proof (cmaxmap_in (fun p => Nat.max (cdepth (fst p)) (cdepth (snd p))) pairs x Hx) as Hm. cbn beta in Hm.
      split; apply IH; auto; lia. }
    rewrite run_app, (run_pairs _ pairs Hi).
    match goal with |- context [mapM ?g pairs] => destruct (mapM g pairs) as [ps|] eqn:E end; cbn [omap obind]; [|reflexivity].
    rewrite (mapM_length _ _ _ E), run_one, build_map_step. reflexivity.
  - (* call *)
    apply andb_prop in Hk as [Kr Ka].
    assert (Hargs : forall a, In a args -> good (ccompile ins false false) (snd a)).
    { intros a Ha. rewrite forallb_forall in Ka. specialize (Ka a Ha). apply andb_prop in Ka as [_ K2].
      pose proof (cmaxmap_in (fun a => cdepth (snd a)) args a Ha) as Hm. cbn beta in Hm. apply IH; auto; lia. }
    assert (Hns : forallb (fun a => not_kwsplat (fst a)) args = true).
    { rewrite forallb_forall in *. intros a Ha. specialize (Ka a Ha). apply andb_prop in Ka as [K1 _]. exact K1. }
    destruct recv as [r|].
    + rewrite run_app. rewrite (IH r ltac:(lia) Kr stk).
      destruct (ceval r) as [v|]; cbn [omap obind]; [|reflexivity].
      pose proof (cca_run (ccompile ins false false) args caller f [v] stk Hargs Hns) as C.
      cbv zeta in C. cbn [rev app length] in C. rewrite C. clear C. unfold evalarg.
      match goal with |- obind ?x _ = _ => destruct x as [pvs|] end; cbn [obind omap]; [|reflexivity].
      match goal with |- obind ?x _ = _ => destruct x as [kvs|] end; cbn [obind omap]; [|reflexivity].
      match goal with |- obind ?x _ = _ => destruct x as [kw|] end; cbn [obind omap]; [|reflexivity].
      destruct (positional pvs); reflexivity.
    + cbn [app obind].
      pose proof (cca_run (ccompile ins false false) args caller f [] stk Hargs Hns) as C.
      cbv zeta in C. cbn [rev app length] in C. rewrite C. clear C. unfold evalarg.
      match goal with |- obind ?x _ = _ => destruct x as [pvs|] end; cbn [obind omap]; [|reflexivity].
      match goal with |- obind ?x _ = _ => destruct x as [kvs|] end; cbn [obind omap]; [|reflexivity].
      match goal with |- obind ?x _ = _ => destruct x as [kw|] end; cbn [obind omap]; [|reflexivity].
      destruct (positional pvs); reflexivity.
Qed.

End P.

(* ---- the statements ---- *)
Lemma static_path_equiv_proof : forall ins rho f e, ceq ins rho (ccompile ins true f e) (ccompile ins false f e).
Proof. intros. apply ccompile_settings. Qed.

Lemma fold_path_equiv_proof : forall ins rho sp e, ceq ins rho (ccompile ins sp true e) (ccompile ins sp false e).
Proof. intros. apply ccompile_settings. Qed.

Lemma fold_preserves_kind_proof : forall ins rho sp e v, cas_const ins e = Some v ->
  forall stk, run ins rho (ccompile ins sp false e) stk = Some (v :: stk).
Proof. intros. apply fold_is_construction. assumption. Qed.

Lemma coll_hoist_proof : forall ins rho sigma e, cbound rho sigma ->
  ceq ins rho (ccompile ins true true e) (ccompile ins true true (csubst sigma e)).
Proof.
  intros ins rho sigma e Hb.
  eapply ceq_trans; [apply (ccompile_settings ins rho true true false false)|].
  eapply ceq_trans; [apply (hoist_plain ins rho sigma Hb (cdepth e) e (le_n _))|].
  apply ccompile_settings.
Qed.

(* the real compiler (static keyword path and folder on) computes the reference semantics *)
Lemma ccompile_correct_proof : forall ins rho e, nokwsplat e = true ->
  forall stk, run ins rho (ccompile ins true true e) stk = omap (fun v => v :: stk) (ceval ins rho e).
Proof.
  intros ins rho e Hk stk. rewrite (ccompile_settings ins rho true true false false e stk).
  apply (plain_correct ins rho (cdepth e) e (le_n _) Hk).
Qed.

(* a folded collection literal denotes its constant *)
Lemma cconst_values_ceval ins rho items vs : cconst_values items = Some vs -> mapM (ceval ins rho) items = Some vs.
Proof.
  revert vs. induction items as [|x r IH]; intros vs H; [inversion H; reflexivity|].
  destruct x; try discriminate. cbn [cconst_values] in H.
  destruct (cconst_values r) as [vr|] eqn:E; cbn [omap] in H; try discriminate. inversion H; subst.
  cbn [mapM CollSpec.ceval obind]. rewrite (IH vr eq_refl). reflexivity.
Qed.

Lemma fold_denotes_proof : forall ins rho e v, cas_const ins e = Some v -> ceval ins rho e = Some v.
Proof.
  intros ins rho e v H. destruct e; cbn [cas_const] in H; try discriminate.
  - inversion H. reflexivity.
  - destruct (cconst_values items) as [vs|] eqn:E; cbn [omap] in H; try discriminate. inversion H; subst.
    cbn [CollSpec.ceval]. rewrite (cconst_values_ceval ins rho items vs E). reflexivity.
  - destruct (cconst_values items) as [vs|] eqn:E; cbn [omap] in H; try discriminate. inversion H; subst.
    cbn [CollSpec.ceval]. rewrite (cconst_values_ceval ins rho items vs E). reflexivity.
  - destruct (cconst_pairs pairs) as [ps|] eqn:E; cbn [omap] in H; try discriminate. inversion H; subst.
    cbn [CollSpec.ceval].
    assert (Hp : mapM (fun p => obind (ceval ins rho (fst p)) (fun k => omap (pair k) (ceval ins rho (snd p)))) pairs = Some ps).
    { clear H. revert ps E. induction pairs as [|[k v] r IH]; intros ps E; [inversion E; reflexivity|].
      destruct k; try discriminate. destruct v; try discriminate. cbn [cconst_pairs] in E.
      destruct (cconst_pairs r) as [pr|] eqn:Er; cbn [omap] in E; try discriminate. inversion E; subst.
      cbn [mapM fst snd CollSpec.ceval obind omap]. rewrite (IH pr eq_refl). reflexivity. }
    rewrite Hp. reflexivity.
Qed.

(* the keyword block alone: static collection = dynamic construction *)
Lemma kwargs_static_is_dynamic_proof : forall ins rho comp args caller,
  (forall c, ceq ins rho (comp (XConst c)) [ILoadConst (CAtom c)]) ->
  ceq ins rho (kwargs_code ins true comp args caller) (kwargs_code ins false comp args caller).
Proof. intros. apply kwargs_static_switch. assumption. Qed.
