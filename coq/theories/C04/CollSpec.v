(* C04, collections and call arguments: the vocabulary of the statements (no proofs).
   [ceval]: what a collection literal / a call denotes, written from the documentation: a list
   (tuple) literal is the list (tuple) of its items' values in order; a map literal is the map
   obtained by inserting its pairs from left to right; a call hands the callee the receiver (if
   any), then the positional arguments in order with `*x` spliced in, then - if there is any
   keyword argument - one keyword map built by inserting `k=v` and the pairs of `**m` from left
   to right (and `caller` last, for a call block). *)
From MJ Require Import Common.Base Lang.Syntax C04.Coll.

Definition mapM {A B} (f : A -> option B) : list A -> option (list B) :=
  fix go (l : list A) : option (list B) :=
    match l with
    | [] => Some []
    | x :: r => obind (f x) (fun y => omap (cons y) (go r))
    end.

(* [mapM f] over the elements selected by [p] *)
Definition mapM_sel {A B} (p : A -> bool) (f : A -> option B) : list A -> option (list B) :=
  fix go (l : list A) : option (list B) :=
    match l with
    | [] => Some []
    | x :: r => if p x then obind (f x) (fun y => omap (cons y) (go r)) else go r
    end.

Definition is_pos (a : argk) : bool := match a with KPos | KPosSplat => true | _ => false end.
Definition is_kw (a : argk) : bool := match a with KKw _ | KKwSplat => true | _ => false end.

Section Spec.
Variable ins : cval -> cval -> cmap -> cmap.
Variable rho : name -> cval.

(* the positional arguments, `*x` spliced in *)
Fixpoint positional (avs : list (argk * cval)) : option (list cval) :=
  match avs with
  | [] => Some []
  | (KPos, v) :: r => omap (cons v) (positional r)
  | (KPosSplat, v) :: r => obind (citer v) (fun items => omap (app items) (positional r))
  | _ :: r => positional r
  end.

(* the keyword map, built from left to right *)
Fixpoint keywords (avs : list (argk * cval)) (m : cmap) : option cmap :=
  match avs with
  | [] => Some m
  | (KKw k, v) :: r => keywords r (ins (cstr k) v m)
  | (KKwSplat, (CMap ps | CKwargs ps)) :: r => keywords r (ins_all ins ps m)
  | (KKwSplat, _) :: _ => None
  | _ :: r => keywords r m
  end.

Fixpoint ceval (e : cexpr) {struct e} : option cval :=
  match e with
  | XConst l => Some (CAtom l)
  | XVar x => Some (rho x)
  | XList items => omap CList (mapM ceval items)
  | XTuple items => omap CTuple (mapM ceval items)
  | XMap pairs =>
      omap (fun ps => CMap (ins_all ins ps []))
           (mapM (fun p => obind (ceval (fst p)) (fun k => omap (pair k) (ceval (snd p)))) pairs)
  | XCall recv f args caller =>
      obind (match recv with Some r => omap (fun v => [v]) (ceval r) | None => Some [] end) (fun rv =>
      obind (mapM_sel (fun a => is_pos (fst a)) (fun a => omap (pair (fst a)) (ceval (snd a))) args) (fun pvs =>
      obind (mapM_sel (fun a => is_kw (fst a)) (fun a => omap (pair (fst a)) (ceval (snd a))) args) (fun kvs =>
      obind (match kvs, caller with
             | [], None => Some []
             | _, _ => omap (fun m => [CKwargs (match caller with Some id => ins caller_key (CMacro id) m | None => m end)])
                            (keywords kvs [])
             end) (fun kw =>
      omap (fun pos => CRes f (rv ++ pos ++ kw)) (positional pvs)))))
  end.
End Spec.

(* literal hoisting on this syntax: variables of [sigma] replaced by the literals they stand for *)
Fixpoint csubst (sigma : name -> option lit) (e : cexpr) {struct e} : cexpr :=
  match e with
  | XConst l => XConst l
  | XVar x => match sigma x with Some l => XConst l | None => XVar x end
  | XList items => XList (map (csubst sigma) items)
  | XTuple items => XTuple (map (csubst sigma) items)
  | XMap pairs => XMap (map (fun p => (csubst sigma (fst p), csubst sigma (snd p))) pairs)
  | XCall recv f args caller =>
      XCall (match recv with Some r => Some (csubst sigma r) | None => None end) f
            (map (fun a => (fst a, csubst sigma (snd a))) args) caller
  end.

(* the variables of [sigma] carry the values of their literals *)
Definition cbound (rho : name -> cval) (sigma : name -> option lit) : Prop :=
  forall x l, sigma x = Some l -> rho x = CAtom l.

Definition cmaxmap {X} (f : X -> nat) : list X -> nat :=
  fix go (l : list X) : nat := match l with [] => O | x :: r => Nat.max (f x) (go r) end.

Fixpoint cdepth (e : cexpr) {struct e} : nat :=
  match e with
  | XConst _ | XVar _ => 1
  | XList items | XTuple items => S (cmaxmap cdepth items)
  | XMap pairs => S (cmaxmap (fun p => Nat.max (cdepth (fst p)) (cdepth (snd p))) pairs)
  | XCall recv _ args _ => S (Nat.max (match recv with Some r => cdepth r | None => O end) (cmaxmap (fun a => cdepth (snd a)) args))
  end.

(* no `**m` argument anywhere (the theorem that ties the code to [ceval] excludes it: with `**m`
   the VM builds the keyword map in chunks and merges them, which equals inserting pair by pair
   only for a lawful map implementation; see CollProofs.v) *)
Definition not_kwsplat (k : argk) : bool := match k with KKwSplat => false | _ => true end.
Fixpoint nokwsplat (e : cexpr) {struct e} : bool :=
  match e with
  | XConst _ | XVar _ => true
  | XList items | XTuple items => forallb nokwsplat items
  | XMap pairs => forallb (fun p => nokwsplat (fst p) && nokwsplat (snd p)) pairs
  | XCall recv _ args _ =>
      (match recv with Some r => nokwsplat r | None => true end)
      && forallb (fun a => not_kwsplat (fst a) && nokwsplat (snd a)) args
  end.

(* two pieces of code that do the same to every stack *)
Definition ceq (ins : cval -> cval -> cmap -> cmap) (rho : name -> cval) (c1 c2 : list cinstr) : Prop :=
  forall stk, run ins rho c1 stk = run ins rho c2 stk.
