(* C04 model: the constant folder of compiler/ast.rs (Expr::as_const, eval_binop, eval_compare,
   const_values) on the core-fragment expression syntax.  No proofs in this file.

   The folder calls the very same operator functions as the VM (ops::add .. ops::contains,
   Value::eq / Value::cmp, Value::is_true), which is why the model reuses [do_bin],
   [value_eqb], [value_ltb], [contains] and [truthy] of Lang/Interp.v for them; what it
   re-implements next to the VM - and what this model mirrors line by line - is the glue: which
   nodes fold, `.ok()` turning a failing operation into "do not fold", the chain loop of
   Compare, the short-circuit operators, the rule that list items must be Const nodes.

   How the parser maps the source onto the syntax (parser.rs::parse_compare): a single
   comparison `a < b` is BinOp(Lt) (folded by eval_binop), `a not in b` is Not(BinOp(In)), two or
   more comparisons are a Compare node (folded by the loop over eval_compare).  Here all of them
   are [ECmp a rest], told apart by the length of [rest]. *)
From MJ Require Import Common.Base Lang.Syntax Lang.Meta Lang.Interp.

Definition lit_value (l : lit) : value :=   (* Const.value *)
  match l with
  | LInt z => VInt z
  | LStr t => VStr false t
  | LBool b => VBool b
  | LNone => VNone
  end.

(* Result<T, Error>::ok() *)
Definition ok_of {A} (o : outcome A) : option A := match o with Ok a => Some a | _ => None end.

Definition omap {A B} (f : A -> B) (o : option A) : option B := match o with Some a => Some (f a) | None => None end.
Definition obind {A B} (o : option A) (f : A -> option B) : option B := match o with Some a => f a | None => None end.

(* ops::neg on the fragment's values (the same function the VM's Neg instruction calls) *)
Definition do_neg (v : value) : outcome value :=
  match v with VInt z => Ok (VInt (- z)) | _ => Err E_InvalidOperation end.

(* ast.rs::const_values: every item must be an Expr::Const node (no recursive folding) *)
Fixpoint const_values (items : list expr) : option (list value) :=
  match items with
  | [] => Some []
  | EConst l :: r => omap (cons (lit_value l)) (const_values r)
  | _ :: _ => None
  end.

(* ast.rs::eval_compare (and the comparison arms of eval_binop, which are identical) *)
(* ast.rs::Map::as_const: every key and every value must be an Expr::Const node *)
Fixpoint const_pairs (pairs : list (expr * expr)) : option (list (value * value)) :=
  match pairs with
  | [] => Some []
  | (EConst k, EConst v) :: r => omap (cons (lit_value k, lit_value v)) (const_pairs r)
  | _ :: _ => None
  end.

Definition eval_compare (op : cmpop) (left right : value) : option value :=
  match op with
  | CEq => Some (VBool (value_eqb left right))
  | CNe => Some (VBool (negb (value_eqb left right)))
  | CLt => Some (VBool (value_ltb left right))
  | CLe => Some (VBool (negb (value_ltb right left)))
  | CGt => Some (VBool (value_ltb right left))
  | CGe => Some (VBool (negb (value_ltb left right)))
  | CIn => omap VBool (ok_of (contains right left))
  | CNotIn => omap (fun b => VBool (negb b)) (ok_of (contains right left))     (* .map(|v| !v.is_true()) *)
  end.

(* the loop of as_const over Compare.ops ([f] = the folder itself, for the operands) *)
Definition fold_chain (f : expr -> option value) : value -> list (cmpop * expr) -> option value :=
  fix chain (left : value) (l : list (cmpop * expr)) : option value :=
    match l with
    | [] => Some (VBool true)
    | (op, r) :: l' =>
        obind (f r) (fun right =>                            (* let right = op.expr.as_const()?; *)
        obind (eval_compare op left right) (fun res =>       (* eval_compare(..)? *)
        if truthy res then chain right l' else Some (VBool false)))
    end.

Section Folder.
(* [fixed = false]: ast.rs as found (ScAnd folds to `false` unless both operands are true);
   [fixed = true]: ast.rs after the fix (ScAnd returns the operand the VM would leave on the stack). *)
Variable fixed : bool.

Definition fold_and (l r : value) : value :=
  if fixed then (if truthy l then r else l)
  else (if truthy l && truthy r then r else VBool false).

Definition fold_or (l r : value) : value := if truthy l then l else r.

Fixpoint as_const_gen (e : expr) {struct e} : option value :=
  match e with
  | EConst l => Some (lit_value l)
  | EList items => omap VList (const_values items)
  | EMap pairs => omap (fun kvs => VMap (map_of_pairs kvs)) (const_pairs pairs)      (* rv.insert(key, value) in source order *)
  | ENot a => omap (fun v => VBool (negb (truthy v))) (as_const_gen a)
  | ENeg a => obind (as_const_gen a) (fun v => ok_of (do_neg v))
  | EBin op a b =>
      match as_const_gen a, as_const_gen b with
      | Some x, Some y => ok_of (do_bin op x y)       (* Concat: string_concat never fails, and neither does do_bin OConcat *)
      | _, _ => None
      end
  | EAnd a b =>
      match as_const_gen a, as_const_gen b with
      | Some x, Some y => Some (fold_and x y)
      | _, _ => None
      end
  | EOr a b =>
      match as_const_gen a, as_const_gen b with
      | Some x, Some y => Some (fold_or x y)
      | _, _ => None
      end
  | ECmp a [(CNotIn, b)] =>                             (* Not(BinOp(In, a, b)) *)
      match as_const_gen a, as_const_gen b with
      | Some x, Some y => omap (fun v => VBool (negb (truthy v))) (eval_compare CIn x y)
      | _, _ => None
      end
  | ECmp a [(op, b)] =>                                 (* BinOp(op, a, b) *)
      match as_const_gen a, as_const_gen b with
      | Some x, Some y => eval_compare op x y
      | _, _ => None
      end
  | ECmp a rest =>                                      (* Compare: the loop of as_const *)
      obind (as_const_gen a) (fun x => fold_chain as_const_gen x rest)
  | EVar _ | EIf _ _ _ | EItem _ _ | EAttr _ _ | EFilter _ _ _ | ETest _ _ _ _ | ECall _ _ _ => None
  end.
End Folder.

Definition as_const : expr -> option value := as_const_gen true.
Definition as_const_old : expr -> option value := as_const_gen false.

(* codegen.rs::compile_expr as far as this property is concerned: one LoadConst when the folder
   answers, the run-time instructions of the node otherwise.  Total: nothing here can fail, which
   is the model's form of "a failing constant expression never makes loading fail".
   Not modelled separately, because they add nothing to this decision: the Neg special case of
   compile_expr (a Const operand that negates without error) is already covered by as_const
   answering first for exactly those operands; the static keyword-argument collection of
   compile_call_args (all values Const nodes: one LoadConst of the whole map instead of
   BuildKwargs) builds the same map the VM would - it is exercised on the engine itself by the
   check (literal vs hoisted keyword arguments, duplicate keywords included). *)
Inductive compiled := CLoadConst (v : value) | CRuntime (e : expr).
Definition compile_expr (e : expr) : compiled :=
  match as_const e with Some v => CLoadConst v | None => CRuntime e end.

(* The same decision taken at every level, as compile_expr recurses into the operands of a node
   it could not fold: [fold_sub e] is [e] with every maximal foldable sub-expression replaced by
   the literal of its value ([reify]: what LoadConst pushes, written back as an expression). *)
Definition reify_atom (v : value) : option expr :=
  match v with
  | VInt z => Some (EConst (LInt z))
  | VStr false t => Some (EConst (LStr t))
  | VBool b => Some (EConst (LBool b))
  | VNone => Some (EConst LNone)
  | _ => None
  end.
Fixpoint reify_atoms (vs : list value) : option (list expr) :=
  match vs with
  | [] => Some []
  | v :: r => match reify_atom v, reify_atoms r with Some a, Some l => Some (a :: l) | _, _ => None end
  end.
Definition reify (v : value) : option expr :=
  match v with
  | VList vs => omap EList (reify_atoms vs)
  | _ => reify_atom v
  end.

Definition descend (f : expr -> expr) (e : expr) : expr :=
  match e with
  | EConst _ | EVar _ => e
  | EList items => EList (map f items)
  | EMap pairs => EMap (map (fun p => (f (fst p), f (snd p))) pairs)
  | ENeg a => ENeg (f a)
  | ENot a => ENot (f a)
  | EBin op a b => EBin op (f a) (f b)
  | ECmp a rest => ECmp (f a) (map (fun p => (fst p, f (snd p))) rest)
  | EAnd a b => EAnd (f a) (f b)
  | EOr a b => EOr (f a) (f b)
  | EIf c t e' => EIf (f c) (f t) (match e' with Some x => Some (f x) | None => None end)
  | EItem a i => EItem (f a) (f i)
  | EAttr a x => EAttr (f a) x
  | EFilter n a args => EFilter n (f a) (map f args)
  | ETest n a args ng => ETest n (f a) (map f args) ng
  | ECall n args kwargs => ECall n (map f args) (map (fun p => (fst p, f (snd p))) kwargs)
  end.

Fixpoint fold_sub (e : expr) {struct e} : expr :=
  match obind (as_const e) reify with
  | Some k => k
  | None => descend fold_sub e
  end.

(* what running the compiled expression yields, with the reference evaluator for run-time code *)
Definition run_compiled (c : cfg) (fuel : nat) (esc : bool) (s : st) (k : compiled) : outcome (value * st) :=
  match k with
  | CLoadConst v => Ok (v, s)
  | CRuntime e => eval c fuel esc s e
  end.

