From MJ Require Import Common.Base Lang.Syntax Lang.Meta Lang.Interp C04.Model.
Lemma stub_proof : as_const (EConst LNone) = Some VNone. Proof. reflexivity. Qed.
