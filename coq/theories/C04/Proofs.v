(* C04 proofs: the folder agrees with run-time evaluation (fold_agrees), never folds a failing
   evaluation (fold_defers_errors), compiling is transparent (compile_transparent), and hoisting
   literals into variables bound to the same values changes nothing (hoist_equiv). *)
From MJ Require Import Common.Base Lang.Syntax Lang.Meta Lang.Interp C04.Model C04.Spec.

(* ------------------------------------------------------------------------------------------ *)
(* small facts                                                                                  *)
(* ------------------------------------------------------------------------------------------ *)
Lemma lit_value_spec l : lit_value l = value_of_lit l.
Proof. destruct l; reflexivity. Qed.

Lemma lit_defined l : is_undef (lit_value l) = false.
Proof. destruct l; reflexivity. Qed.

Lemma depth_pos e : (1 <= depth e)%nat.
Proof. destruct e; cbn [depth]; lia. Qed.

Lemma maxmap_in {X} (f : X -> nat) l x : In x l -> (f x <= maxmap f l)%nat.
Proof.
  induction l as [|y r IH]; cbn [maxmap In]; [tauto|].
  intros [->|H]; [lia|]. specialize (IH H). lia.
Qed.

Lemma eval_const c fuel esc s l : eval c (S fuel) esc s (EConst l) = Ok (lit_value l, s).
Proof. destruct l; reflexivity. Qed.

Lemma u_is_true_defined m v : is_undef v = false -> u_is_true m v = Ok (truthy v).
Proof. destruct m, v; cbn; intros; try discriminate; reflexivity. Qed.

Lemma u_not_undef_defined m v : is_undef v = false -> u_not_undef m v = Ok tt.
Proof.
  unfold u_not_undef. destruct v; cbn; intros; try discriminate; rewrite ?andb_false_r; reflexivity.
Qed.

Lemma do_bin_defined op x y v : do_bin op x y = Ok v -> is_undef v = false.
Proof.
  destruct op, x, y; cbn; intros H; try discriminate;
    repeat match type of H with
           | (if ?b then _ else _) = _ => destruct b
           | (let q := _ in _) = _ => cbv zeta in H
           end; try discriminate; inversion H; reflexivity.
Qed.

Lemma do_neg_defined x v : do_neg x = Ok v -> is_undef v = false.
Proof. destruct x; cbn; intros H; try discriminate; inversion H; reflexivity. Qed.

Lemma ok_of_some {A} (o : outcome A) a : ok_of o = Some a -> o = Ok a.
Proof. destruct o; cbn; intros H; try discriminate; inversion H; reflexivity. Qed.

Lemma contains_defined_container y x : is_undef y = false -> forall r, contains y x = Ok r -> True.
Proof. trivial. Qed.

(* eval_compare is the VM's comparison on defined operands *)
Lemma eval_compare_do_cmp m op x y v :
  is_undef x = false -> is_undef y = false -> eval_compare op x y = Some v ->
  exists r, v = VBool r /\ do_cmp m op x y = Ok r.
Proof.
  intros Hx Hy H. unfold do_cmp.
  rewrite (u_not_undef_defined m x Hx), (u_not_undef_defined m y Hy).
  destruct op; cbn [eval_compare] in H; cbn [bind];
    try (inversion H; eexists; split; reflexivity).
  - destruct (contains y x) eqn:E; cbn in H; try discriminate. inversion H. eexists; split; reflexivity.
  - destruct (contains y x) eqn:E; cbn in H; try discriminate. inversion H. eexists; split; reflexivity.
Qed.

(* ------------------------------------------------------------------------------------------ *)
(* fold_agrees                                                                                   *)
(* ------------------------------------------------------------------------------------------ *)
Lemma const_values_eval c fuel esc items vs :
  const_values items = Some vs ->
  forall s, map_eval (eval c (S fuel) esc) s items = Ok (vs, s).
Proof.
  revert vs. induction items as [|x r IH]; intros vs H s.
  - inversion H. reflexivity.
  - destruct x; try discriminate. cbn [const_values] in H.
    destruct (const_values r) as [vr|] eqn:E; try discriminate. inversion H; subst.
    cbn [map_eval]. rewrite eval_const. cbn [bind]. change (map_eval (eval c (S fuel) esc)) with (map_eval (eval c (S fuel) esc)).
    fold (map_eval (eval c (S fuel) esc)). rewrite (IH vr eq_refl). reflexivity.
Qed.

Lemma const_pairs_eval c fuel esc pairs kvs :
  const_pairs pairs = Some kvs ->
  forall s, map_eval_pairs (eval c (S fuel) esc) s pairs = Ok (kvs, s).
Proof.
  revert kvs. induction pairs as [|[k x] r IH]; intros kvs H s.
  - inversion H. reflexivity.
  - cbn [const_pairs] in H. destruct k; try discriminate. destruct x; try discriminate.
    destruct (const_pairs r) as [vr|] eqn:E; cbn [omap] in H; try discriminate. inversion H; subst.
    cbn [map_eval_pairs]. rewrite !eval_const. cbn [bind]. rewrite eval_const. cbn [bind].
    fold (map_eval_pairs (eval c (S fuel) esc)). rewrite (IH vr eq_refl). reflexivity.
Qed.

Section Agree.
Variable c : cfg.
Variable esc : bool.
Let m := c_mode c.

Definition agrees (fuel : nat) (e : expr) : Prop :=
  forall v, as_const e = Some v -> is_undef v = false /\ forall s, eval c fuel esc s e = Ok (v, s).

(* the Compare loop against cmp_chain, given agreement on the operands *)
Lemma chain_agrees fuel rest :
  (forall p, In p rest -> agrees fuel (snd p)) ->
  forall left v, is_undef left = false -> fold_chain as_const left rest = Some v ->
  is_undef v = false /\ forall s, cmp_chain m (eval c fuel esc) left s rest = Ok (v, s).
Proof.
  induction rest as [|[op r] l' IH]; intros Hop left v Hl H.
  - inversion H. split; [reflexivity|]. intros s. reflexivity.
  - cbn [fold_chain] in H.
    destruct (as_const r) as [right|] eqn:Er; cbn [obind] in H; try discriminate.
    destruct (eval_compare op left right) as [res|] eqn:Ec; cbn [obind] in H; try discriminate.
    destruct (Hop (op, r) (or_introl eq_refl) right Er) as [Hr Hev].
    destruct (eval_compare_do_cmp m op left right res Hl Hr Ec) as [b [-> Hd]].
    assert (IH' := IH (fun p Hp => Hop p (or_intror Hp)) right).
    cbn [truthy] in H.
    assert (Hres : is_undef v = false /\ forall s,
              (match l' with
               | [] => Ok (VBool b, s)
               | _ :: _ => if b then cmp_chain m (eval c fuel esc) right s l' else Ok (VBool false, s)
               end) = Ok (v, s)).
    { destruct b.
      - destruct (IH' v Hr H) as [Hv Hc]. split; [exact Hv|]. intros s.
        destruct l'; [|apply Hc]. inversion H. reflexivity.
      - inversion H. split; [reflexivity|]. intros s. destruct l'; reflexivity. }
    destruct Hres as [Hv Hc]. split; [exact Hv|]. intros s.
    cbn [cmp_chain]. rewrite Hev. cbn [bind]. rewrite Hd. cbn [bind]. apply Hc.
Qed.

Lemma agrees_all : forall fuel e, (depth e <= fuel)%nat -> agrees fuel e.
Proof.
  induction fuel as [|fuel IH]; intros e Hd.
  { pose proof (depth_pos e). lia. }
  assert (IHs : forall a, (depth a <= fuel)%nat -> forall x, as_const a = Some x ->
                  is_undef x = false /\ forall s, eval c fuel esc s a = Ok (x, s)).
  { intros a Ha. exact (IH a Ha). }
  intros v H. destruct e; cbn [depth] in Hd; unfold as_const in H; cbn [as_const_gen] in H;
    fold as_const in H; try discriminate.
  - (* EConst *) inversion H; subst. split; [apply lit_defined|]. intros s. apply eval_const.
  - (* EList *)
    destruct (const_values items) as [vs|] eqn:E; cbn [omap] in H; try discriminate. inversion H; subst.
    split; [reflexivity|]. intros s.
    destruct fuel as [|fuel'].
    + destruct items as [|x r]; [inversion E; reflexivity|]. cbn [maxmap] in Hd. pose proof (depth_pos x). lia.
    + cbn [eval]. rewrite (const_values_eval c fuel' esc items vs E). reflexivity.
  - (* EMap *)
    destruct (const_pairs pairs) as [kvs|] eqn:E; cbn [omap] in H; try discriminate. inversion H; subst.
    split; [reflexivity|]. intros s.
    destruct fuel as [|fuel'].
    + destruct pairs as [|[k x] r]; [inversion E; reflexivity|]. cbn [maxmap fst snd] in Hd. pose proof (depth_pos k). lia.
    + cbn [eval]. rewrite (const_pairs_eval c fuel' esc pairs kvs E). reflexivity.
  - (* ENeg *)
    destruct (as_const e) as [x|] eqn:E; cbn [obind] in H; try discriminate.
    apply ok_of_some in H. destruct (IHs e ltac:(lia) x E) as [Hx Hev].
    split; [eapply do_neg_defined; eauto|]. intros s. cbn [eval]. rewrite Hev. cbn [bind].
    destruct x; cbn in H; try discriminate. inversion H. reflexivity.
  - (* ENot *)
    destruct (as_const e) as [x|] eqn:E; cbn [omap] in H; try discriminate. inversion H; subst.
    destruct (IHs e ltac:(lia) x E) as [Hx Hev]. split; [reflexivity|]. intros s.
    cbn [eval]. rewrite Hev. cbn [bind]. fold m. rewrite (u_is_true_defined m x Hx). reflexivity.
  - (* EBin *)
    destruct (as_const e1) as [x|] eqn:E1; try discriminate.
    destruct (as_const e2) as [y|] eqn:E2; try discriminate.
    apply ok_of_some in H.
    destruct (IHs e1 ltac:(lia) x E1) as [Hx Hev1]. destruct (IHs e2 ltac:(lia) y E2) as [Hy Hev2].
    split; [eapply do_bin_defined; eauto|]. intros s.
    cbn [eval]. rewrite Hev1. cbn [bind]. rewrite Hev2. cbn [bind]. fold m.
    rewrite (u_not_undef_defined m x Hx), (u_not_undef_defined m y Hy).
    assert (Hg : match op with OConcat => bind (Ok tt) (fun _ : unit => Ok tt) | _ => Ok tt end = (Ok tt : outcome unit))
      by (destruct op; reflexivity).
    rewrite Hg. cbn [bind]. rewrite H. reflexivity.
  - (* ECmp *)
    destruct rest as [|[op b] rest'].
    + (* no comparison at all *)
      destruct (as_const e) as [x|] eqn:E; cbn [obind fold_chain] in H; try discriminate. inversion H; subst.
      destruct (IHs e ltac:(lia) x E) as [Hx Hev]. split; [reflexivity|]. intros s.
      cbn [eval]. rewrite Hev. reflexivity.
    + cbn [maxmap snd] in Hd.
      destruct rest' as [|p2 rest''].
      * (* one comparison: BinOp / Not(BinOp(In)) *)
        assert (Hshape : exists x y, as_const e = Some x /\ as_const b = Some y /\
                  (match op with
                   | CNotIn => omap (fun v => VBool (negb (truthy v))) (eval_compare CIn x y)
                   | _ => eval_compare op x y end) = Some v).
        { destruct op; destruct (as_const e) as [x|]; try discriminate;
            destruct (as_const b) as [y|]; try discriminate; exists x, y; repeat split; exact H. }
        destruct Hshape as [x [y [E1 [E2 Hv]]]].
        destruct (IHs e ltac:(lia) x E1) as [Hx Hev1]. destruct (IHs b ltac:(lia) y E2) as [Hy Hev2].
        assert (Hr : exists r, v = VBool r /\ do_cmp m op x y = Ok r).
        { destruct op; try solve [eapply eval_compare_do_cmp; eassumption].
          destruct (eval_compare CIn x y) as [w|] eqn:Ew; cbn [omap] in Hv; try discriminate.
          destruct (eval_compare_do_cmp m CIn x y w Hx Hy Ew) as [r [-> Hd']].
          inversion Hv. exists (negb r). split; [reflexivity|].
          unfold do_cmp in *. rewrite (u_not_undef_defined m y Hy), (u_not_undef_defined m x Hx) in *.
          cbn [bind] in *. destruct (contains y x); cbn [bind] in *; try discriminate. inversion Hd'. reflexivity. }
        destruct Hr as [r [-> Hd']]. split; [reflexivity|]. intros s.
        cbn [eval]. rewrite Hev1. cbn [bind cmp_chain]. rewrite Hev2. cbn [bind]. fold m. rewrite Hd'. reflexivity.
      * (* a chain *)
        assert (Hshape : exists x, as_const e = Some x /\ fold_chain as_const x ((op, b) :: p2 :: rest'') = Some v).
        { destruct op; destruct (as_const e) as [x|]; try discriminate; exists x; (split; [reflexivity|exact H]). }
        destruct Hshape as [x [E1 Hc]].
        destruct (IHs e ltac:(lia) x E1) as [Hx Hev1].
        assert (Hops : forall p, In p ((op, b) :: p2 :: rest'') -> agrees fuel (snd p)).
        { intros p Hp. apply IH.
          pose proof (maxmap_in (fun p => depth (snd p)) ((op, b) :: p2 :: rest'') p Hp) as Hm.
          cbn [maxmap snd] in Hm. cbn [maxmap snd] in Hd. lia. }
        destruct (chain_agrees fuel _ Hops x v Hx Hc) as [Hv Hch]. split; [exact Hv|]. intros s.
        cbn [eval]. rewrite Hev1. cbn [bind]. fold m. apply Hch.
  - (* EAnd *)
    destruct (as_const e1) as [x|] eqn:E1; try discriminate.
    destruct (as_const e2) as [y|] eqn:E2; try discriminate. inversion H; subst.
    destruct (IHs e1 ltac:(lia) x E1) as [Hx Hev1]. destruct (IHs e2 ltac:(lia) y E2) as [Hy Hev2].
    unfold fold_and. split; [destruct (truthy x); assumption|]. intros s.
    cbn [eval]. rewrite Hev1. cbn [bind]. fold m. rewrite (u_is_true_defined m x Hx). cbn [bind].
    destruct (truthy x); [apply Hev2|reflexivity].
  - (* EOr *)
    destruct (as_const e1) as [x|] eqn:E1; try discriminate.
    destruct (as_const e2) as [y|] eqn:E2; try discriminate. inversion H; subst.
    destruct (IHs e1 ltac:(lia) x E1) as [Hx Hev1]. destruct (IHs e2 ltac:(lia) y E2) as [Hy Hev2].
    unfold fold_or. split; [destruct (truthy x); assumption|]. intros s.
    cbn [eval]. rewrite Hev1. cbn [bind]. fold m. rewrite (u_is_true_defined m x Hx). cbn [bind].
    destruct (truthy x); [reflexivity|apply Hev2].
Qed.
End Agree.

Lemma fold_agrees_proof : forall e v, as_const e = Some v ->
  forall c fuel esc s, (depth e <= fuel)%nat -> eval c fuel esc s e = Ok (v, s).
Proof. intros e v H c fuel esc s Hd. exact (proj2 (agrees_all c esc fuel e Hd v H) s). Qed.

Lemma fold_defined_proof : forall e v, as_const e = Some v -> is_undef v = false.
Proof. intros e v H. exact (proj1 (agrees_all (mkCfg Lenient [] false) false (depth e) e (le_n _) v H)). Qed.

Lemma fold_defers_errors_proof : forall e c fuel esc s, (depth e <= fuel)%nat ->
  (forall v s', eval c fuel esc s e <> Ok (v, s')) -> as_const e = None.
Proof.
  intros e c fuel esc s Hd Hne. destruct (as_const e) as [v|] eqn:E; [|reflexivity].
  exfalso. exact (Hne v s (fold_agrees_proof e v E c fuel esc s Hd)).
Qed.

Lemma compile_transparent_proof : forall e c fuel esc s, (depth e <= fuel)%nat ->
  run_compiled c fuel esc s (compile_expr e) = eval c fuel esc s e.
Proof.
  intros e c fuel esc s Hd. unfold compile_expr. destruct (as_const e) as [v|] eqn:E; cbn [run_compiled]; [|reflexivity].
  symmetry. apply fold_agrees_proof; assumption.
Qed.

(* ------------------------------------------------------------------------------------------ *)
(* hoisting literals into variables                                                             *)
(* ------------------------------------------------------------------------------------------ *)
Lemma same_refl s : same s s.
Proof. repeat split. Qed.

Lemma same_trans s t u : same s t -> same t u -> same s u.
Proof. intros (A & B & C) (A' & B' & C'). repeat split; congruence. Qed.

Lemma same_sym s t : same s t -> same t s.
Proof. intros (A & B & C). repeat split; congruence. Qed.

Lemma same_step s1 s2 t1 t2 : same s1 s2 -> same s1 t1 -> same s2 t2 -> same t1 t2.
Proof. intros A B C. eapply same_trans; [apply same_sym; exact B|]. eapply same_trans; [exact A|exact C]. Qed.

Lemma bound_same c s t sigma : same s t -> bound c s sigma -> bound c t sigma.
Proof. intros (A & B & _) H x l Hx. rewrite <- A, <- B. exact (H x l Hx). Qed.

Lemma lookup_same c s x : same s (snd (lookup c s x)).
Proof.
  unfold lookup. destruct (load c (s_clos s) (s_env s) x) as [v asked]. destruct asked; repeat split.
Qed.

Lemma lookup_fst c s x : fst (lookup c s x) = fst (load c (s_clos s) (s_env s) x).
Proof. unfold lookup. destruct (load c (s_clos s) (s_env s) x) as [v asked]. reflexivity. Qed.

Lemma res_rel_weaken {A} s1 s2 t1 t2 (r1 r2 : outcome (A * st)) :
  same s1 t1 -> same s2 t2 -> res_rel t1 t2 r1 r2 -> res_rel s1 s2 r1 r2.
Proof.
  intros H1 H2. unfold res_rel. destruct r1 as [[v1 u1]| | |], r2 as [[v2 u2]| | |]; try tauto.
  intros (E & A1 & A2). repeat split; try exact E; eapply same_trans; eauto.
Qed.

Lemma bind_rel {A B} s1 s2 (r1 r2 : outcome (A * st)) (k1 k2 : A * st -> outcome (B * st)) :
  res_rel s1 s2 r1 r2 ->
  (forall v t1 t2, same s1 t1 -> same s2 t2 -> res_rel s1 s2 (k1 (v, t1)) (k2 (v, t2))) ->
  res_rel s1 s2 (bind r1 k1) (bind r2 k2).
Proof.
  intros H K. destruct r1 as [[v1 u1]| | |], r2 as [[v2 u2]| | |]; cbn [res_rel bind] in *; try tauto.
  destruct H as (-> & A1 & A2). apply K; assumption.
Qed.

Lemma bind_pure_rel {A B} s1 s2 (o : outcome A) (k1 k2 : A -> outcome (B * st)) :
  (forall a, res_rel s1 s2 (k1 a) (k2 a)) -> res_rel s1 s2 (bind o k1) (bind o k2).
Proof. intros K. destruct o; cbn [bind res_rel]; auto. Qed.

Lemma res_rel_ok {A} s1 s2 t1 t2 (v : A) : same s1 t1 -> same s2 t2 -> res_rel s1 s2 (Ok (v, t1)) (Ok (v, t2)).
Proof. intros. cbn. auto. Qed.

Lemma res_rel_err {A} s1 s2 k : @res_rel A s1 s2 (Err k) (Err k).
Proof. reflexivity. Qed.

Section Hoist.
Variable c : cfg.
Variable esc : bool.
Variable sigma : name -> option lit.
Variable ok : name -> bool.
Let m := c_mode c.

Definition no_macros (s : st) : Prop := forall f, ok f = true -> not_macro c s f.

Lemma no_macros_same s t : same s t -> no_macros s -> no_macros t.
Proof. intros (A & B & _) H f Hf mc cl. rewrite <- A, <- B. exact (H f Hf mc cl). Qed.

(* the statement for one evaluator call *)
Definition hoist_ok (ev : st -> expr -> outcome (value * st)) (x : expr) : Prop :=
  callsafe ok x = true -> forall s1 s2, same s1 s2 -> bound c s1 sigma -> no_macros s1 ->
  res_rel s1 s2 (ev s1 x) (ev s2 (subst sigma x)).

Lemma map_eval_rel ev items :
  (forall x, In x items -> hoist_ok ev x) -> forallb (callsafe ok) items = true ->
  forall s1 s2, same s1 s2 -> bound c s1 sigma -> no_macros s1 ->
  res_rel s1 s2 (map_eval ev s1 items) (map_eval ev s2 (map (subst sigma) items)).
Proof.
  induction items as [|x r IH]; intros Hev Hp s1 s2 Hs Hb Hn.
  - cbn. auto using same_refl.
  - cbn [forallb] in Hp. apply andb_prop in Hp as [Hpx Hpr]. cbn [map map_eval].
    apply bind_rel; [apply Hev; auto; left; reflexivity|].
    intros v t1 t2 H1 H2. cbn beta iota.
    apply bind_rel.
    + eapply res_rel_weaken; eauto. apply IH; auto.
      * intros y Hy. apply Hev. right. exact Hy.
      * exact (same_step _ _ _ _ Hs H1 H2).
      * eapply bound_same; eauto.
      * eapply no_macros_same; eauto.
    + intros vs u1 u2 A1 A2. cbn beta iota. apply res_rel_ok; assumption.
Qed.

Lemma map_eval_kw_rel ev kw :
  (forall p, In p kw -> hoist_ok ev (snd p)) -> forallb (fun p => callsafe ok (snd p)) kw = true ->
  forall s1 s2, same s1 s2 -> bound c s1 sigma -> no_macros s1 ->
  res_rel s1 s2 (map_eval_kw ev s1 kw) (map_eval_kw ev s2 (map (fun p => (fst p, subst sigma (snd p))) kw)).
Proof.
  induction kw as [|[k x] r IH]; intros Hev Hp s1 s2 Hs Hb Hn.
  - cbn. auto using same_refl.
  - cbn [forallb snd] in Hp. apply andb_prop in Hp as [Hpx Hpr]. cbn [map map_eval_kw fst snd].
    apply bind_rel; [apply (Hev (k, x)); auto; left; reflexivity|].
    intros v t1 t2 H1 H2. cbn beta iota.
    apply bind_rel.
    + eapply res_rel_weaken; eauto. apply IH; auto.
      * intros y Hy. apply Hev. right. exact Hy.
      * exact (same_step _ _ _ _ Hs H1 H2).
      * eapply bound_same; eauto.
      * eapply no_macros_same; eauto.
    + intros vs u1 u2 A1 A2. cbn beta iota. apply res_rel_ok; assumption.
Qed.

Lemma map_eval_pairs_rel ev pairs :
  (forall x, hoist_ok ev x) -> forallb (fun p => callsafe ok (fst p) && callsafe ok (snd p)) pairs = true ->
  forall s1 s2, same s1 s2 -> bound c s1 sigma -> no_macros s1 ->
  res_rel s1 s2 (map_eval_pairs ev s1 pairs) (map_eval_pairs ev s2 (map (fun p => (subst sigma (fst p), subst sigma (snd p))) pairs)).
Proof.
  intros Hev. induction pairs as [|[k x] r IH]; intros Hp s1 s2 Hs Hb Hn.
  - cbn. auto using same_refl.
  - cbn [forallb fst snd] in Hp. apply andb_prop in Hp as [Hpkx Hpr]. apply andb_prop in Hpkx as [Hpk Hpx].
    cbn [map map_eval_pairs fst snd].
    apply bind_rel; [apply Hev; auto|].
    intros kv t1 t2 H1 H2. cbn beta iota.
    apply bind_rel.
    { eapply res_rel_weaken; eauto. apply Hev; auto.
      - exact (same_step _ _ _ _ Hs H1 H2).
      - eapply bound_same; eauto.
      - eapply no_macros_same; eauto. }
    intros xv u1 u2 A1 A2. cbn beta iota.
    apply bind_rel.
    + eapply res_rel_weaken; eauto. apply IH; auto.
      * exact (same_step _ _ _ _ Hs A1 A2).
      * eapply bound_same; eauto.
      * eapply no_macros_same; eauto.
    + intros vs w1 w2 B1 B2. cbn beta iota. apply res_rel_ok; assumption.
Qed.

Lemma cmp_chain_rel ev rest :
  (forall p, In p rest -> hoist_ok ev (snd p)) -> forallb (fun p => callsafe ok (snd p)) rest = true ->
  forall left s1 s2, same s1 s2 -> bound c s1 sigma -> no_macros s1 ->
  res_rel s1 s2 (cmp_chain m ev left s1 rest) (cmp_chain m ev left s2 (map (fun p => (fst p, subst sigma (snd p))) rest)).
Proof.
  induction rest as [|[op r] l' IH]; intros Hev Hp left s1 s2 Hs Hb Hn.
  - cbn. auto using same_refl.
  - cbn [forallb snd] in Hp. apply andb_prop in Hp as [Hpx Hpr]. cbn [map cmp_chain fst snd].
    apply bind_rel; [apply (Hev (op, r)); auto; left; reflexivity|].
    intros y t1 t2 H1 H2. cbn beta iota.
    apply bind_pure_rel. intros b.
    destruct l' as [|p l''].
    + cbn [map]. apply res_rel_ok; assumption.
    + cbn [map]. destruct b; [|apply res_rel_ok; assumption].
      eapply res_rel_weaken; eauto.
      apply (IH (fun q Hq => Hev q (or_intror Hq)) Hpr y).
      * exact (same_step _ _ _ _ Hs H1 H2).
      * eapply bound_same; eauto.
      * eapply no_macros_same; eauto.
Qed.

Lemma hoist_all : forall fuel e, hoist_ok (eval c fuel esc) e.
Proof.
  induction fuel as [|fuel IH]; intros e Hp s1 s2 Hs Hb Hn.
  { cbn. exact I. }
  (* evaluating a sub-expression from later states *)
  assert (IHk : forall a t1 t2, callsafe ok a = true -> same s1 t1 -> same s2 t2 ->
            res_rel s1 s2 (eval c fuel esc t1 a) (eval c fuel esc t2 (subst sigma a))).
  { intros a t1 t2 Ha H1 H2. eapply res_rel_weaken; eauto. apply IH; auto.
    - exact (same_step _ _ _ _ Hs H1 H2).
    - eapply bound_same; eauto.
    - eapply no_macros_same; eauto. }
  assert (IHl : forall args t1 t2, forallb (callsafe ok) args = true -> same s1 t1 -> same s2 t2 ->
            res_rel s1 s2 (map_eval (eval c fuel esc) t1 args) (map_eval (eval c fuel esc) t2 (map (subst sigma) args))).
  { intros args t1 t2 Ha H1 H2. eapply res_rel_weaken; eauto.
    apply map_eval_rel; [intros x _; apply IH | assumption | exact (same_step _ _ _ _ Hs H1 H2) | eapply bound_same; eauto | eapply no_macros_same; eauto]. }
  destruct e; cbn [callsafe] in Hp; cbn [subst].
  - (* EConst *) rewrite !eval_const. apply res_rel_ok; apply same_refl.
  - (* EVar *)
    destruct (sigma x) as [l|] eqn:Ex.
    + rewrite eval_const. cbn [eval].
      pose proof (lookup_same c s1 x) as Hl. pose proof (lookup_fst c s1 x) as Hf.
      destruct (lookup c s1 x) as [v u]. cbn [fst snd] in *.
      rewrite (Hb x l Ex) in Hf. subst v. change (lit_value l) with (value_of_lit l). apply res_rel_ok; [exact Hl|apply same_refl].
    + cbn [eval].
      pose proof (lookup_same c s1 x) as Hl1. pose proof (lookup_fst c s1 x) as Hf1.
      pose proof (lookup_same c s2 x) as Hl2. pose proof (lookup_fst c s2 x) as Hf2.
      destruct (lookup c s1 x) as [v1 u1]. destruct (lookup c s2 x) as [v2 u2]. cbn [fst snd] in *.
      destruct Hs as (A & B & _). rewrite <- A, <- B in Hf2. rewrite <- Hf1 in Hf2. subst v2.
      apply res_rel_ok; assumption.
  - (* EList *)
    cbn [eval]. apply bind_rel; [apply IHl; auto using same_refl|].
    intros vs t1 t2 H1 H2. cbn beta iota. apply res_rel_ok; assumption.
  - (* EMap *)
    cbn [eval]. apply bind_rel; [apply map_eval_pairs_rel; auto|].
    intros vs t1 t2 H1 H2. cbn beta iota. apply res_rel_ok; assumption.
  - (* ENeg *)
    cbn [eval]. apply bind_rel; [apply IHk; auto using same_refl|].
    intros v t1 t2 H1 H2. cbn beta iota. destruct v; try apply res_rel_err. apply res_rel_ok; assumption.
  - (* ENot *)
    cbn [eval]. apply bind_rel; [apply IHk; auto using same_refl|].
    intros v t1 t2 H1 H2. cbn beta iota. apply bind_pure_rel. intros b. apply res_rel_ok; assumption.
  - (* EBin *)
    apply andb_prop in Hp as [Hp1 Hp2].
    cbn [eval]. apply bind_rel; [apply IHk; auto using same_refl|].
    intros x t1 t2 H1 H2. cbn beta iota. apply bind_rel; [apply IHk; auto|].
    intros y u1 u2 A1 A2. cbn beta iota. apply bind_pure_rel. intros _. apply bind_pure_rel. intros r.
    apply res_rel_ok; assumption.
  - (* ECmp *)
    apply andb_prop in Hp as [Hp1 Hp2].
    cbn [eval]. apply bind_rel; [apply IHk; auto using same_refl|].
    intros x t1 t2 H1 H2. cbn beta iota. eapply res_rel_weaken; eauto.
    apply cmp_chain_rel; [intros p _; apply IH | assumption | exact (same_step _ _ _ _ Hs H1 H2) | eapply bound_same; eauto | eapply no_macros_same; eauto].
  - (* EAnd *)
    apply andb_prop in Hp as [Hp1 Hp2].
    cbn [eval]. apply bind_rel; [apply IHk; auto using same_refl|].
    intros x t1 t2 H1 H2. cbn beta iota. apply bind_pure_rel. intros t.
    destruct t; [apply IHk; auto|apply res_rel_ok; assumption].
  - (* EOr *)
    apply andb_prop in Hp as [Hp1 Hp2].
    cbn [eval]. apply bind_rel; [apply IHk; auto using same_refl|].
    intros x t1 t2 H1 H2. cbn beta iota. apply bind_pure_rel. intros t.
    destruct t; [apply res_rel_ok; assumption|apply IHk; auto].
  - (* EIf *)
    apply andb_prop in Hp as [Hp12 Hp3]. apply andb_prop in Hp12 as [Hp1 Hp2].
    cbn [eval]. apply bind_rel; [apply IHk; auto using same_refl|].
    intros x t1 t2 H1 H2. cbn beta iota. apply bind_pure_rel. intros b.
    destruct b; [apply IHk; auto|].
    destruct f as [f|]; [apply IHk; auto|apply res_rel_ok; assumption].
  - (* EItem *)
    apply andb_prop in Hp as [Hp1 Hp2].
    cbn [eval]. apply bind_rel; [apply IHk; auto using same_refl|].
    intros x t1 t2 H1 H2. cbn beta iota. apply bind_rel; [apply IHk; auto|].
    intros k u1 u2 A1 A2. cbn beta iota.
    destruct (get_item_opt x k).
    + apply res_rel_ok; assumption.
    + apply bind_pure_rel. intros v. apply res_rel_ok; assumption.
  - (* EAttr *)
    cbn [eval]. apply bind_rel; [apply IHk; auto using same_refl|].
    intros x t1 t2 H1 H2. cbn beta iota.
    destruct (get_attr_opt x a).
    + apply res_rel_ok; assumption.
    + apply bind_pure_rel. intros v. apply res_rel_ok; assumption.
  - (* EFilter *)
    apply andb_prop in Hp as [Hp1 Hp2].
    cbn [eval]. apply bind_rel; [apply IHk; auto using same_refl|].
    intros x t1 t2 H1 H2. cbn beta iota. apply bind_rel; [apply IHl; auto|].
    intros vs u1 u2 A1 A2. cbn beta iota. apply bind_pure_rel. intros r. apply res_rel_ok; assumption.
  - (* ETest *)
    apply andb_prop in Hp as [Hp1 Hp2].
    cbn [eval]. apply bind_rel; [apply IHk; auto using same_refl|].
    intros x t1 t2 H1 H2. cbn beta iota. apply bind_rel; [apply IHl; auto|].
    intros vs u1 u2 A1 A2. cbn beta iota. apply bind_pure_rel. intros r. apply res_rel_ok; assumption.
  - (* ECall: the callee is not a macro, so no statement runs *)
    apply andb_prop in Hp as [Hp12 Hp3]. apply andb_prop in Hp12 as [Hp1 Hp2].
    cbn [eval]. apply bind_rel; [apply IHl; auto using same_refl|].
    intros vs t1 t2 H1 H2. cbn beta iota.
    apply bind_rel.
    { eapply res_rel_weaken; eauto.
      apply map_eval_kw_rel; [intros p _; apply IH | assumption | exact (same_step _ _ _ _ Hs H1 H2) | eapply bound_same; eauto | eapply no_macros_same; eauto]. }
    intros kvs u1 u2 A1 A2. cbn beta iota.
    pose proof (lookup_same c u1 f) as Hl1. pose proof (lookup_fst c u1 f) as Hf1.
    pose proof (lookup_same c u2 f) as Hl2. pose proof (lookup_fst c u2 f) as Hf2.
    destruct (lookup c u1 f) as [fv1 w1]. destruct (lookup c u2 f) as [fv2 w2]. cbn [fst snd] in *.
    assert (Hu : same u1 u2) by exact (same_step _ _ _ _ Hs A1 A2).
    destruct Hu as (A & B & _). rewrite <- A, <- B in Hf2. rewrite <- Hf1 in Hf2. subst fv2.
    assert (W1 : same s1 w1) by (eapply same_trans; eauto).
    assert (W2 : same s2 w2) by (eapply same_trans; eauto).
    destruct fv1 as [fv|]; [|apply res_rel_err].
    destruct fv as [ | | |bb|zz|sf ss|ll|mm|mc cl|li ln|g]; try apply res_rel_err.
    + (* a macro: excluded *)
      exfalso. destruct A1 as (E1 & E2 & _). apply (Hn f Hp1 mc cl). rewrite E1, E2. symmetry. exact Hf1.
    + destruct (g =? N_range); [|apply res_rel_err].
      destruct vs as [|[] [|]]; try apply res_rel_err.
      destruct kvs; [|apply res_rel_err]. apply res_rel_ok; assumption.
Qed.
End Hoist.

Lemma hoist_calls_proof : forall c sigma ok e esc fuel s1 s2,
  callsafe ok e = true -> (forall f, ok f = true -> not_macro c s1 f) -> same s1 s2 -> bound c s1 sigma ->
  res_rel s1 s2 (eval c fuel esc s1 e) (eval c fuel esc s2 (subst sigma e)).
Proof. intros. apply (hoist_all c esc sigma ok); assumption. Qed.

Lemma hoist_equiv_proof : forall c sigma e esc fuel s1 s2,
  pure e = true -> same s1 s2 -> bound c s1 sigma ->
  res_rel s1 s2 (eval c fuel esc s1 e) (eval c fuel esc s2 (subst sigma e)).
Proof.
  intros c sigma e esc fuel s1 s2 Hp Hs Hb. apply (hoist_calls_proof c sigma (fun _ => false)); auto.
  intros f Hf. discriminate.
Qed.

(* ------------------------------------------------------------------------------------------ *)
(* hoisting does not change the nesting depth                                                   *)
(* ------------------------------------------------------------------------------------------ *)
Lemma maxmap_map_ext {X} (f g : X -> nat) (h : X -> X) l :
  (forall x, In x l -> g (h x) = f x) -> maxmap g (map h l) = maxmap f l.
Proof.
  induction l as [|x r IH]; intros H; cbn [map maxmap]; [reflexivity|].
  rewrite (H x (or_introl eq_refl)), IH; [reflexivity|]. intros y Hy. apply H. right. exact Hy.
Qed.

Lemma depth_subst_bounded sigma : forall n e, (depth e <= n)%nat -> depth (subst sigma e) = depth e.
Proof.
  induction n as [|n IH]; intros e Hd.
  { pose proof (depth_pos e). lia. }
  assert (IHl : forall l, (maxmap depth l <= n)%nat -> maxmap depth (map (subst sigma) l) = maxmap depth l).
  { intros l Hl. apply maxmap_map_ext. intros x Hx. apply IH. pose proof (maxmap_in depth l x Hx). lia. }
  assert (IHp : forall A (l : list (A * expr)), (maxmap (fun p => depth (snd p)) l <= n)%nat ->
            maxmap (fun p => depth (snd p)) (map (fun p => (fst p, subst sigma (snd p))) l) = maxmap (fun p => depth (snd p)) l).
  { intros A l Hl. apply maxmap_map_ext. intros x Hx. cbn [snd]. apply IH.
    pose proof (maxmap_in (fun p => depth (snd p)) l x Hx). cbn beta in *. lia. }
  destruct e; cbn [subst depth] in *; try reflexivity.
  - destruct (sigma x); reflexivity.
  - rewrite IHl by lia. reflexivity.
  - f_equal. apply maxmap_map_ext. intros [k x] Hx. cbn [fst snd].
    pose proof (maxmap_in (fun p => Nat.max (depth (fst p)) (depth (snd p))) pairs (k, x) Hx) as Hm. cbn [fst snd] in Hm.
    rewrite (IH k), (IH x) by lia. reflexivity.
  - rewrite IH by lia. reflexivity.
  - rewrite IH by lia. reflexivity.
  - rewrite (IH e1), (IH e2) by lia. reflexivity.
  - rewrite (IH e), IHp by lia. reflexivity.
  - rewrite (IH e1), (IH e2) by lia. reflexivity.
  - rewrite (IH e1), (IH e2) by lia. reflexivity.
  - rewrite (IH e1), (IH e2) by lia. destruct f as [f|]; [rewrite (IH f) by lia|]; reflexivity.
  - rewrite (IH e1), (IH e2) by lia. reflexivity.
  - rewrite IH by lia. reflexivity.
  - rewrite (IH e), IHl by lia. reflexivity.
  - rewrite (IH e), IHl by lia. reflexivity.
  - rewrite IHl, IHp by lia. reflexivity.
Qed.

Lemma depth_subst sigma e : depth (subst sigma e) = depth e.
Proof. apply (depth_subst_bounded sigma (depth e)). lia. Qed.

(* ------------------------------------------------------------------------------------------ *)
(* the property: compiled literal form vs compiled hoisted form                                 *)
(* ------------------------------------------------------------------------------------------ *)
Lemma literal_variable_equiv_proof : forall c sigma e esc fuel s,
  pure e = true -> bound c s sigma -> (depth e <= fuel)%nat ->
  res_rel s s (run_compiled c fuel esc s (compile_expr e))
              (run_compiled c fuel esc s (compile_expr (subst sigma e))).
Proof.
  intros c sigma e esc fuel s Hp Hb Hd.
  rewrite !compile_transparent_proof by (rewrite ?depth_subst; assumption).
  apply hoist_equiv_proof; auto using same_refl.
Qed.

Lemma bound_single c s x l :
  fst (load c (s_clos s) (s_env s) x) = Some (value_of_lit l) -> bound c s (single x l).
Proof.
  intros H y l' Hy. unfold single in Hy. destruct (y =? x) eqn:E; [|discriminate].
  apply Z.eqb_eq in E. subst y. inversion Hy; subst. exact H.
Qed.

(* a folded literal form against the run-time evaluation of the hoisted form *)
Lemma fold_agrees_hoisted_proof : forall c sigma e v esc fuel s,
  pure e = true -> bound c s sigma -> (depth e <= fuel)%nat ->
  as_const (subst sigma e) = Some v ->
  exists s', eval c fuel esc s e = Ok (v, s') /\ same s s'.
Proof.
  intros c sigma e v esc fuel s Hp Hb Hd H.
  pose proof (hoist_equiv_proof c sigma e esc fuel s s Hp (same_refl s) Hb) as R.
  rewrite (fold_agrees_proof _ v H c fuel esc s) in R by (rewrite depth_subst; assumption).
  destruct (eval c fuel esc s e) as [[v1 t1]| | |]; cbn [res_rel] in R; try tauto.
  destruct R as (-> & A & _). exists t1. split; [reflexivity|exact A].
Qed.

(* a branch that is not taken is neither folded nor evaluated *)
Lemma untaken_branch_proof : forall c fuel esc s F G,
  compile_expr (EIf (EConst (LBool false)) F (Some G)) = CRuntime (EIf (EConst (LBool false)) F (Some G)) /\
  eval c (S (S fuel)) esc s (EIf (EConst (LBool false)) F (Some G)) = eval c (S fuel) esc s G.
Proof.
  intros. split; [reflexivity|].
  change (eval c (S (S fuel)) esc s (EIf (EConst (LBool false)) F (Some G)))
    with (bind (eval c (S fuel) esc s (EConst (LBool false))) (fun '(x, s1) => bind (u_is_true (c_mode c) x) (fun b =>
            if b then eval c (S fuel) esc s1 F else eval c (S fuel) esc s1 G))).
  rewrite eval_const. cbn [bind lit_value]. unfold u_is_true. destruct (c_mode c); reflexivity.
Qed.

(* ------------------------------------------------------------------------------------------ *)
(* folding at every level (compile_expr recursing into the operands it could not fold)          *)
(* ------------------------------------------------------------------------------------------ *)
Lemma bind_ext {A B} (o : outcome A) (k1 k2 : A -> outcome B) :
  (forall a, k1 a = k2 a) -> bind o k1 = bind o k2.
Proof. intros H. destruct o; cbn [bind]; auto. Qed.

Lemma map_eval_ext (ev : st -> expr -> outcome (value * st)) (f : expr -> expr) items :
  (forall x, In x items -> forall s, ev s (f x) = ev s x) ->
  forall s, map_eval ev s (map f items) = map_eval ev s items.
Proof.
  induction items as [|x r IH]; intros H s; [reflexivity|].
  cbn [map map_eval]. rewrite (H x (or_introl eq_refl)). apply bind_ext. intros [v s1].
  rewrite IH; [reflexivity|]. intros y Hy. apply H. right. exact Hy.
Qed.

Lemma map_eval_kw_ext (ev : st -> expr -> outcome (value * st)) (f : expr -> expr) kw :
  (forall p, In p kw -> forall s, ev s (f (snd p)) = ev s (snd p)) ->
  forall s, map_eval_kw ev s (map (fun p => (fst p, f (snd p))) kw) = map_eval_kw ev s kw.
Proof.
  induction kw as [|[k x] r IH]; intros H s; [reflexivity|].
  cbn [map map_eval_kw fst snd]. rewrite (H (k, x) (or_introl eq_refl)). apply bind_ext. intros [v s1].
  rewrite IH; [reflexivity|]. intros y Hy. apply H. right. exact Hy.
Qed.

Lemma map_eval_pairs_ext (ev : st -> expr -> outcome (value * st)) (f : expr -> expr) pairs :
  (forall p, In p pairs -> forall s, ev s (f (fst p)) = ev s (fst p) /\ ev s (f (snd p)) = ev s (snd p)) ->
  forall s, map_eval_pairs ev s (map (fun p => (f (fst p), f (snd p))) pairs) = map_eval_pairs ev s pairs.
Proof.
  induction pairs as [|[k x] r IH]; intros H s; [reflexivity|].
  cbn [map map_eval_pairs fst snd].
  pose proof (fun s0 => proj1 (H (k, x) (or_introl eq_refl) s0)) as Hk.
  pose proof (fun s0 => proj2 (H (k, x) (or_introl eq_refl) s0)) as Hx. cbn [fst snd] in Hk, Hx.
  rewrite Hk. apply bind_ext. intros [kv s1].
  rewrite Hx. apply bind_ext. intros [xv s2].
  rewrite IH; [reflexivity|]. intros y Hy. apply H. right. exact Hy.
Qed.

Lemma cmp_chain_ext m (ev : st -> expr -> outcome (value * st)) (f : expr -> expr) rest :
  (forall p, In p rest -> forall s, ev s (f (snd p)) = ev s (snd p)) ->
  forall left s, cmp_chain m ev left s (map (fun p => (fst p, f (snd p))) rest) = cmp_chain m ev left s rest.
Proof.
  induction rest as [|[op x] r IH]; intros H left s; [reflexivity|].
  cbn [map cmp_chain fst snd]. rewrite (H (op, x) (or_introl eq_refl)). apply bind_ext. intros [y s2].
  apply bind_ext. intros b.
  assert (IH' := IH (fun q Hq => H q (or_intror Hq)) y s2).
  destruct r as [|q r']; [reflexivity|]. cbn [map] in *. destruct b; [exact IH'|reflexivity].
Qed.

Lemma reify_atom_const v k : reify_atom v = Some k -> exists l, k = EConst l /\ lit_value l = v.
Proof.
  destruct v; cbn; intros H; try discriminate.
  - inversion H. exists LNone. auto.
  - inversion H. exists (LBool b). auto.
  - inversion H. exists (LInt z). auto.
  - destruct safe; inversion H. exists (LStr s). auto.
Qed.

Lemma reify_atoms_const_values vs : forall ks, reify_atoms vs = Some ks -> const_values ks = Some vs.
Proof.
  induction vs as [|v r IH]; intros ks H.
  - inversion H. reflexivity.
  - cbn [reify_atoms] in H. destruct (reify_atom v) as [a|] eqn:Ea; try discriminate.
    destruct (reify_atoms r) as [l|] eqn:El; try discriminate. inversion H; subst.
    destruct (reify_atom_const v a Ea) as [lt [-> Hl]]. cbn [const_values]. rewrite (IH l eq_refl). rewrite Hl. reflexivity.
Qed.

(* the literal of a folded value folds back to that value ... *)
Lemma reify_as_const v k : reify v = Some k -> as_const k = Some v.
Proof.
  destruct v; cbn [reify]; intros H;
    try (destruct (reify_atom_const _ _ H) as [l [-> Hl]]; unfold as_const; cbn [as_const_gen]; rewrite Hl; reflexivity).
  destruct (reify_atoms l) as [ks|] eqn:E; cbn [omap] in H; try discriminate. inversion H; subst.
  unfold as_const. cbn [as_const_gen]. rewrite (reify_atoms_const_values l ks E). reflexivity.
Qed.

Lemma reify_atoms_depth vs : forall ks, reify_atoms vs = Some ks -> (maxmap depth ks <= 1)%nat.
Proof.
  induction vs as [|v r IH]; intros ks H.
  - inversion H. cbn. lia.
  - cbn [reify_atoms] in H. destruct (reify_atom v) as [a|] eqn:Ea; try discriminate.
    destruct (reify_atoms r) as [l|] eqn:El; try discriminate. inversion H; subst.
    destruct (reify_atom_const v a Ea) as [lt [-> _]]. cbn [maxmap depth]. specialize (IH l eq_refl). lia.
Qed.

Lemma do_bin_not_list op x y l : do_bin op x y <> Ok (VList l).
Proof.
  destruct op, x, y; cbn; intros H; try discriminate;
    repeat match type of H with
           | (if ?b then _ else _) = _ => destruct b
           | (let q := _ in _) = _ => cbv zeta in H
           end; discriminate.
Qed.

(* ... and is never deeper than the expression it came from *)
Lemma reify_depth e v k : as_const e = Some v -> reify v = Some k -> (depth k <= depth e)%nat.
Proof.
  intros He Hk. pose proof (depth_pos e) as Hpos.
  destruct v; cbn [reify] in Hk;
    try (destruct (reify_atom_const _ _ Hk) as [lt [-> _]]; cbn [depth]; lia).
  destruct (reify_atoms l) as [ks|] eqn:E; cbn [omap] in Hk; try discriminate. inversion Hk; subst.
  cbn [depth]. pose proof (reify_atoms_depth l ks E) as Hm.
  destruct l as [|v0 l'].
  { inversion E. cbn. lia. }
  (* a non-empty list value: the expression has depth at least 2 *)
  assert (2 <= depth e)%nat; [|lia].
  unfold as_const in He.
  destruct e as [lt|x|items|pairs|a|a|op a b|a rest|a b|a b|cnd a b|a b|a x|n a args|n a args ng|n args kw];
    cbn [as_const_gen] in He; try discriminate; cbn [depth];
    try (pose proof (depth_pos a); lia).
  - destruct lt; discriminate.
  - destruct items as [|x r]; [cbn in He; discriminate|]. cbn [maxmap]. pose proof (depth_pos x). lia.
  - destruct (const_pairs pairs); discriminate.
Qed.

Lemma fold_sub_unfold e :
  fold_sub e = match obind (as_const e) reify with Some k => k | None => descend fold_sub e end.
Proof. destruct e; reflexivity. Qed.

Section Deep.
Variable c : cfg.
Variable esc : bool.

Lemma fold_sub_correct : forall fuel e, (depth e <= fuel)%nat ->
  forall s, eval c fuel esc s (fold_sub e) = eval c fuel esc s e.
Proof.
  induction fuel as [|fuel IH]; intros e Hd s.
  { pose proof (depth_pos e). lia. }
  rewrite fold_sub_unfold.
  destruct (obind (as_const e) reify) as [k|] eqn:Ek.
  { (* folded here: one LoadConst *)
    destruct (as_const e) as [v|] eqn:Ev; cbn [obind] in Ek; try discriminate.
    rewrite (fold_agrees_proof e v Ev c (S fuel) esc s Hd).
    apply fold_agrees_proof; [apply reify_as_const; exact Ek|].
    pose proof (reify_depth e v k Ev Ek). lia. }
  clear Ek.
  assert (IHl : forall l, (maxmap depth l <= fuel)%nat -> forall s,
            map_eval (eval c fuel esc) s (map fold_sub l) = map_eval (eval c fuel esc) s l).
  { intros l Hl. apply map_eval_ext. intros x Hx. apply IH. pose proof (maxmap_in depth l x Hx). lia. }
  destruct e; cbn [descend]; cbn [depth] in Hd; try reflexivity.
  - (* EList *) cbn [eval]. rewrite IHl by lia. reflexivity.
  - (* EMap *) cbn [eval]. rewrite map_eval_pairs_ext; [reflexivity|]. intros [k x] Hp s0. cbn [fst snd].
    pose proof (maxmap_in (fun p => Nat.max (depth (fst p)) (depth (snd p))) pairs (k, x) Hp) as Hm. cbn [fst snd] in Hm.
    split; apply IH; lia.
  - (* ENeg *) cbn [eval]. rewrite IH by lia. reflexivity.
  - (* ENot *) cbn [eval]. rewrite IH by lia. reflexivity.
  - (* EBin *) cbn [eval]. rewrite (IH e1) by lia. apply bind_ext. intros [x s1]. rewrite (IH e2) by lia. reflexivity.
  - (* ECmp *) cbn [eval]. rewrite (IH e) by lia. apply bind_ext. intros [x s1].
    apply cmp_chain_ext. intros p Hp. apply IH.
    pose proof (maxmap_in (fun p => depth (snd p)) rest p Hp). cbn beta in *. lia.
  - (* EAnd *) cbn [eval]. rewrite (IH e1) by lia. apply bind_ext. intros [x s1]. apply bind_ext. intros t.
    destruct t; [apply IH; lia|reflexivity].
  - (* EOr *) cbn [eval]. rewrite (IH e1) by lia. apply bind_ext. intros [x s1]. apply bind_ext. intros t.
    destruct t; [reflexivity|apply IH; lia].
  - (* EIf *) cbn [eval]. rewrite (IH e1) by lia. apply bind_ext. intros [x s1]. apply bind_ext. intros b.
    destruct b; [apply IH; lia|]. destruct f as [f|]; [apply IH; lia|reflexivity].
  - (* EItem *) cbn [eval]. rewrite (IH e1) by lia. apply bind_ext. intros [x s1]. rewrite (IH e2) by lia. reflexivity.
  - (* EAttr *) cbn [eval]. rewrite (IH e) by lia. reflexivity.
  - (* EFilter *) cbn [eval]. rewrite (IH e) by lia. apply bind_ext. intros [x s1]. rewrite IHl by lia. reflexivity.
  - (* ETest *) cbn [eval]. rewrite (IH e) by lia. apply bind_ext. intros [x s1]. rewrite IHl by lia. reflexivity.
  - (* ECall *) cbn [eval]. rewrite IHl by lia. apply bind_ext. intros [vs s1].
    rewrite map_eval_kw_ext; [reflexivity|]. intros p Hp. apply IH.
    pose proof (maxmap_in (fun p => depth (snd p)) kwargs p Hp). cbn beta in *. lia.
Qed.
End Deep.

Lemma fold_everywhere_proof : forall e c fuel esc s, (depth e <= fuel)%nat ->
  eval c fuel esc s (fold_sub e) = eval c fuel esc s e.
Proof. intros. apply fold_sub_correct; assumption. Qed.

Lemma literal_variable_equiv_deep_proof : forall c sigma e esc fuel s,
  pure e = true -> bound c s sigma -> (depth e <= fuel)%nat ->
  res_rel s s (eval c fuel esc s (fold_sub e)) (eval c fuel esc s (fold_sub (subst sigma e))).
Proof.
  intros c sigma e esc fuel s Hp Hb Hd.
  rewrite !fold_everywhere_proof by (rewrite ?depth_subst; assumption).
  apply hoist_equiv_proof; auto using same_refl.
Qed.

(* ------------------------------------------------------------------------------------------ *)
(* fold_agrees for EVERY fuel: the evaluation of a folded expression can only be the folded       *)
(* value (state untouched) or the model's own out-of-gas                                         *)
(* ------------------------------------------------------------------------------------------ *)
Definition ok_or_gas {A} (r : outcome A) (a : A) : Prop := r = Ok a \/ r = OutOfGas.

Lemma const_values_eval_any c esc items vs :
  const_values items = Some vs ->
  forall fuel s, ok_or_gas (map_eval (eval c fuel esc) s items) (vs, s).
Proof.
  intros H fuel s. destruct fuel as [|fuel].
  - destruct items as [|x r]; [inversion H; left; reflexivity|]. right. reflexivity.
  - left. apply const_values_eval. exact H.
Qed.

Lemma const_pairs_eval_any c esc pairs kvs :
  const_pairs pairs = Some kvs ->
  forall fuel s, ok_or_gas (map_eval_pairs (eval c fuel esc) s pairs) (kvs, s).
Proof.
  intros H fuel s. destruct fuel as [|fuel].
  - destruct pairs as [|[k x] r]; [inversion H; left; reflexivity|]. right. reflexivity.
  - left. apply const_pairs_eval. exact H.
Qed.

Section AgreeAny.
Variable c : cfg.
Variable esc : bool.
Let m := c_mode c.

Definition agrees_any (fuel : nat) (e : expr) : Prop :=
  forall v, as_const e = Some v -> forall s, ok_or_gas (eval c fuel esc s e) (v, s).

Lemma chain_agrees_any fuel rest :
  (forall p, In p rest -> agrees_any fuel (snd p)) ->
  forall left v, is_undef left = false -> fold_chain as_const left rest = Some v ->
  forall s, ok_or_gas (cmp_chain m (eval c fuel esc) left s rest) (v, s).
Proof.
  induction rest as [|[op r] l' IH]; intros Hop left v Hl H s.
  - inversion H. left. reflexivity.
  - cbn [fold_chain] in H.
    destruct (as_const r) as [right|] eqn:Er; cbn [obind] in H; try discriminate.
    destruct (eval_compare op left right) as [res|] eqn:Ec; cbn [obind] in H; try discriminate.
    pose proof (fold_defined_proof r right Er) as Hr.
    destruct (eval_compare_do_cmp m op left right res Hl Hr Ec) as [b [-> Hd]].
    cbn [truthy] in H. cbn [cmp_chain].
    destruct (Hop (op, r) (or_introl eq_refl) right Er s) as [Hev|Hev]; cbn [snd] in Hev; rewrite Hev;
      [|right; reflexivity].
    cbn [bind]. rewrite Hd. cbn [bind].
    destruct b.
    + destruct l' as [|p l'']; [inversion H; left; reflexivity|].
      apply (IH (fun p Hp => Hop p (or_intror Hp)) right v Hr H).
    + inversion H. left. destruct l'; reflexivity.
Qed.

Lemma agrees_any_all : forall fuel e, agrees_any fuel e.
Proof.
  induction fuel as [|fuel IH]; intros e v H s.
  { right. reflexivity. }
  destruct e; unfold as_const in H; cbn [as_const_gen] in H; fold as_const in H; try discriminate.
  - (* EConst *) inversion H; subst. left. apply eval_const.
  - (* EList *)
    destruct (const_values items) as [vs|] eqn:E; cbn [omap] in H; try discriminate. inversion H; subst.
    cbn [eval]. destruct (const_values_eval_any c esc items vs E fuel s) as [Hm|Hm]; rewrite Hm; [left|right]; reflexivity.
  - (* EMap *)
    destruct (const_pairs pairs) as [kvs|] eqn:E; cbn [omap] in H; try discriminate. inversion H; subst.
    cbn [eval]. destruct (const_pairs_eval_any c esc pairs kvs E fuel s) as [Hm|Hm]; rewrite Hm; [left|right]; reflexivity.
  - (* ENeg *)
    destruct (as_const e) as [x|] eqn:E; cbn [obind] in H; try discriminate. apply ok_of_some in H.
    cbn [eval]. destruct (IH e x E s) as [Hev|Hev]; rewrite Hev; [|right; reflexivity]. cbn [bind].
    destruct x; cbn in H; try discriminate. inversion H. left. reflexivity.
  - (* ENot *)
    destruct (as_const e) as [x|] eqn:E; cbn [omap] in H; try discriminate. inversion H; subst.
    cbn [eval]. destruct (IH e x E s) as [Hev|Hev]; rewrite Hev; [|right; reflexivity]. cbn [bind].
    fold m. rewrite (u_is_true_defined m x (fold_defined_proof e x E)). left. reflexivity.
  - (* EBin *)
    destruct (as_const e1) as [x|] eqn:E1; try discriminate.
    destruct (as_const e2) as [y|] eqn:E2; try discriminate. apply ok_of_some in H.
    cbn [eval]. destruct (IH e1 x E1 s) as [Hev|Hev]; rewrite Hev; [|right; reflexivity]. cbn [bind].
    destruct (IH e2 y E2 s) as [Hev2|Hev2]; rewrite Hev2; [|right; reflexivity]. cbn [bind]. fold m.
    rewrite (u_not_undef_defined m x (fold_defined_proof e1 x E1)), (u_not_undef_defined m y (fold_defined_proof e2 y E2)).
    assert (Hg : match op with OConcat => bind (Ok tt) (fun _ : unit => Ok tt) | _ => Ok tt end = (Ok tt : outcome unit))
      by (destruct op; reflexivity).
    rewrite Hg. cbn [bind]. rewrite H. left. reflexivity.
  - (* ECmp *)
    destruct rest as [|[op b] rest'].
    + destruct (as_const e) as [x|] eqn:E; cbn [obind fold_chain] in H; try discriminate. inversion H; subst.
      cbn [eval]. destruct (IH e x E s) as [Hev|Hev]; rewrite Hev; [left|right]; reflexivity.
    + destruct rest' as [|p2 rest''].
      * assert (Hshape : exists x y, as_const e = Some x /\ as_const b = Some y /\
                  (match op with
                   | CNotIn => omap (fun v => VBool (negb (truthy v))) (eval_compare CIn x y)
                   | _ => eval_compare op x y end) = Some v).
        { destruct op; destruct (as_const e) as [x|]; try discriminate;
            destruct (as_const b) as [y|]; try discriminate; exists x, y; repeat split; exact H. }
        destruct Hshape as [x [y [E1 [E2 Hv]]]].
        pose proof (fold_defined_proof e x E1) as Hx. pose proof (fold_defined_proof b y E2) as Hy.
        assert (Hr : exists r, v = VBool r /\ do_cmp m op x y = Ok r).
        { destruct op; try solve [eapply eval_compare_do_cmp; eassumption].
          destruct (eval_compare CIn x y) as [w|] eqn:Ew; cbn [omap] in Hv; try discriminate.
          destruct (eval_compare_do_cmp m CIn x y w Hx Hy Ew) as [r [-> Hd']].
          inversion Hv. exists (negb r). split; [reflexivity|].
          unfold do_cmp in *. rewrite (u_not_undef_defined m y Hy), (u_not_undef_defined m x Hx) in *.
          cbn [bind] in *. destruct (contains y x); cbn [bind] in *; try discriminate. inversion Hd'. reflexivity. }
        destruct Hr as [r [-> Hd']].
        cbn [eval]. destruct (IH e x E1 s) as [Hev|Hev]; rewrite Hev; [|right; reflexivity]. cbn [bind cmp_chain].
        destruct (IH b y E2 s) as [Hev2|Hev2]; rewrite Hev2; [|right; reflexivity]. cbn [bind]. fold m. rewrite Hd'.
        left. reflexivity.
      * assert (Hshape : exists x, as_const e = Some x /\ fold_chain as_const x ((op, b) :: p2 :: rest'') = Some v).
        { destruct op; destruct (as_const e) as [x|]; try discriminate; exists x; (split; [reflexivity|exact H]). }
        destruct Hshape as [x [E1 Hc]].
        cbn [eval]. destruct (IH e x E1 s) as [Hev|Hev]; rewrite Hev; [|right; reflexivity]. cbn [bind]. fold m.
        apply (chain_agrees_any fuel _ (fun p _ => IH (snd p)) x v (fold_defined_proof e x E1) Hc).
  - (* EAnd *)
    destruct (as_const e1) as [x|] eqn:E1; try discriminate.
    destruct (as_const e2) as [y|] eqn:E2; try discriminate. inversion H; subst.
    cbn [eval]. destruct (IH e1 x E1 s) as [Hev|Hev]; rewrite Hev; [|right; reflexivity]. cbn [bind]. fold m.
    rewrite (u_is_true_defined m x (fold_defined_proof e1 x E1)). cbn [bind]. unfold fold_and.
    destruct (truthy x); [apply (IH e2 y E2 s)|left; reflexivity].
  - (* EOr *)
    destruct (as_const e1) as [x|] eqn:E1; try discriminate.
    destruct (as_const e2) as [y|] eqn:E2; try discriminate. inversion H; subst.
    cbn [eval]. destruct (IH e1 x E1 s) as [Hev|Hev]; rewrite Hev; [|right; reflexivity]. cbn [bind]. fold m.
    rewrite (u_is_true_defined m x (fold_defined_proof e1 x E1)). cbn [bind]. unfold fold_or.
    destruct (truthy x); [left; reflexivity|apply (IH e2 y E2 s)].
Qed.
End AgreeAny.

Lemma fold_agrees_any_fuel_proof : forall e v, as_const e = Some v ->
  forall c fuel esc s, eval c fuel esc s e = Ok (v, s) \/ eval c fuel esc s e = OutOfGas.
Proof. intros e v H c fuel esc s. exact (agrees_any_all c esc fuel e v H s). Qed.

(* the property with calls of non-macro callees, on the compiled forms (top-level and deep folding) *)
Lemma literal_variable_equiv_calls_proof : forall c sigma ok e esc fuel s,
  callsafe ok e = true -> (forall f, ok f = true -> not_macro c s f) -> bound c s sigma -> (depth e <= fuel)%nat ->
  res_rel s s (run_compiled c fuel esc s (compile_expr e)) (run_compiled c fuel esc s (compile_expr (subst sigma e))) /\
  res_rel s s (eval c fuel esc s (fold_sub e)) (eval c fuel esc s (fold_sub (subst sigma e))).
Proof.
  intros c sigma ok e esc fuel s Hp Hn Hb Hd. split.
  - rewrite !compile_transparent_proof by (rewrite ?depth_subst; assumption).
    apply (hoist_calls_proof c sigma ok); auto using same_refl.
  - rewrite !fold_everywhere_proof by (rewrite ?depth_subst; assumption).
    apply (hoist_calls_proof c sigma ok); auto using same_refl.
Qed.
