(* C04 runner: the model folder and the reference evaluator on one encoded expression.
   input : mode nctx (k v).. expr                (encodings of Lang/Codec.v, tools/langenc.py)
   output: fold ++ run   where
     fold = [0]            as_const = None (run-time code is emitted)
          | 1 :: enc v     as_const = Some v (a single LoadConst)
     run  = 0 :: enc v     reference evaluation succeeded with v
          | [1; code]      failed with that ErrorKind
          | [2] panic | [8] out of gas
   enc: 0 undefined | 6 silent undefined | 1 none | 2 b | 3 z | 4 n c1..cn | 5 n v1..vn | 7 other
   [9] = undecodable input. *)
From Coq Require Import String.
From MJ Require Import Common.Base Lang.Syntax Lang.Meta Lang.Interp Lang.Codec C04.Model.

Definition FUEL := 400%nat.

Fixpoint enc_value (v : value) : list Z :=
  match v with
  | VUndef => [0]
  | VSilent => [6]
  | VNone => [1]
  | VBool b => [2; if b then 1 else 0]
  | VInt z => [3; z]
  | VStr _ s => 4 :: lenZ s :: s
  | VList l => 5 :: lenZ l :: flat_map enc_value l
  | _ => [7]
  end.

Definition run_with (folder : expr -> option value) (inp : list Z) : list Z :=
  match inp with
  | md :: nc :: r =>
      match dctx (Z.to_nat nc) r with
      | Some (ctx, r1) =>
          match dexpr EFUEL r1 with
          | Some (e, _) =>
              let c := mkCfg (mode_of md) ctx false in
              (match folder e with None => [0] | Some v => 1 :: enc_value v end) ++
              match eval c FUEL false init_state e with
              | Ok (v, _) => 0 :: enc_value v
              | Err code => [1; code]
              | Panic => [2]
              | OutOfGas => [8]
              end
          | None => [9]
          end
      | None => [9]
      end
  | _ => [9]
  end.

Definition run := run_with as_const.
Definition run_old := run_with as_const_old.

Open Scope string_scope.
Definition runners : list (string * (list Z -> list Z)) := [ ("c04", run); ("c04-old", run_old) ].
