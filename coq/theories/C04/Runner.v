(* C04 runner: the model folder and the reference evaluator on one encoded expression.
   input : mode nctx (k v).. expr                (encodings of Lang/Codec.v, tools/langenc.py)
   output: fold ++ run   where
     fold = [0]            as_const = None (run-time code is emitted)
          | 1 :: enc v     as_const = Some v (a single LoadConst)
     run  = 0 :: enc v     reference evaluation succeeded with v
          | [1; code]      failed with that ErrorKind
          | [2] panic | [8] out of gas
   enc: 0 undefined | 6 silent undefined | 1 none | 2 b | 3 z | 4 n c1..cn | 5 n v1..vn | 7 other
   [9] = undecodable input.
   runner c04-sub: [number of LoadConst; number of Lookup] in the stream of `{{ e }}` according to the recursive folder (count_loads mirrors compile_expr; the look-ups are those left in fold_sub e). *)
From Coq Require Import String.
From MJ Require Import Common.Base Lang.Syntax Lang.Meta Lang.Interp Lang.Codec C04.Model.
From MJ Require C04.Coll C04.CollSpec.

Definition FUEL := 400%nat.

Fixpoint enc_value (v : value) : list Z :=
  match v with
  | VUndef => [0]
  | VSilent => [6]
  | VNone => [1]
  | VBool b => [2; if b then 1 else 0]
  | VInt z => [3; z]
  | VStr _ s => 4 :: lenZ s :: s
  | VList l => 5 :: lenZ l :: flat_map enc_value l
  | VMap kvs => 8 :: lenZ kvs :: flat_map (fun '(k, x) => enc_value k ++ enc_value x) kvs
  | _ => [7]
  end.

Definition run_with (folder : expr -> option value) (inp : list Z) : list Z :=
  match inp with
  | md :: nc :: r =>
      match dctx (Z.to_nat nc) r with
      | Some (ctx, r1) =>
          match dexpr EFUEL r1 with
          | Some (e, _) =>
              let c := mkCfg (mode_of md) ctx false in
              (match folder e with None => [0] | Some v => 1 :: enc_value v end) ++
              match eval c FUEL false init_state e with
              | Ok (v, _) => 0 :: enc_value v
              | Err code => [1; code]
              | Panic => [2]
              | OutOfGas => [8]
              end
          | None => [9]
          end
      | None => [9]
      end
  | _ => [9]
  end.

(* instruction counts the recursive folding predicts for `{{ e }}`: LoadConst and Lookup
   (call-free expressions; [-1; -1] when a call occurs: keyword arguments load constants of their own) *)
Definition sumZ {X} (f : X -> Z) (l : list X) : Z := fold_right (fun x a => f x + a) 0 l.

(* mirrors the recursion of compile_expr: a node that folds is one LoadConst, otherwise its
   operands are compiled (an if-expression without else loads the silent undefined) *)
Fixpoint count_loads (e : expr) {struct e} : Z :=
  match as_const e with
  | Some _ => 1
  | None =>
    match e with
    | EConst _ => 1
    | EVar _ => 0
    | EList items => sumZ count_loads items
    | EMap pairs => sumZ (fun p => count_loads (fst p) + count_loads (snd p)) pairs
    | ENeg a | ENot a | EAttr a _ => count_loads a
    | EBin _ a b | EAnd a b | EOr a b | EItem a b => count_loads a + count_loads b
    | ECmp a rest => count_loads a + sumZ (fun p => count_loads (snd p)) rest
    | EIf c t f => count_loads c + count_loads t + match f with Some f => count_loads f | None => 1 end
    | EFilter _ a args | ETest _ a args _ => count_loads a + sumZ count_loads args
    | ECall _ _ _ => 0
    end
  end.

Fixpoint count_lookups (e : expr) {struct e} : Z :=
  match e with
  | EConst _ => 0
  | EVar _ => 1
  | EList items => sumZ count_lookups items
  | EMap pairs => sumZ (fun p => count_lookups (fst p) + count_lookups (snd p)) pairs
  | ENeg a | ENot a | EAttr a _ => count_lookups a
  | EBin _ a b | EAnd a b | EOr a b | EItem a b => count_lookups a + count_lookups b
  | ECmp a rest => count_lookups a + sumZ (fun p => count_lookups (snd p)) rest
  | EIf c t f => count_lookups c + count_lookups t + match f with Some f => count_lookups f | None => 0 end
  | EFilter _ a args | ETest _ a args _ => count_lookups a + sumZ count_lookups args
  | ECall _ _ _ => 0
  end.

Fixpoint has_call (e : expr) {struct e} : bool :=
  match e with
  | EConst _ | EVar _ => false
  | EList items => existsb has_call items
  | EMap pairs => existsb (fun p => has_call (fst p) || has_call (snd p)) pairs
  | ENeg a | ENot a | EAttr a _ => has_call a
  | EBin _ a b | EAnd a b | EOr a b | EItem a b => has_call a || has_call b
  | ECmp a rest => has_call a || existsb (fun p => has_call (snd p)) rest
  | EIf c t f => has_call c || has_call t || match f with Some f => has_call f | None => false end
  | EFilter _ a args | ETest _ a args _ => has_call a || existsb has_call args
  | ECall _ _ _ => true
  end.

Definition run_sub (inp : list Z) : list Z :=
  match inp with
  | md :: nc :: r =>
      match dctx (Z.to_nat nc) r with
      | Some (_, r1) =>
          match dexpr EFUEL r1 with
          | Some (e, _) => if has_call e then [-1; -1] else [count_loads e; count_lookups (fold_sub e)]
          | None => [9]
          end
      | None => [9]
      end
  | _ => [9]
  end.

Definition run := run_with as_const.
Definition run_old := run_with as_const_old.

(* ---- collections and call arguments (C04/Coll.v), BTreeMap as the map implementation ----
   runner c04-coll.  input: nrho (name value).. expr
     value: 0 undefined | 1 none | 2 b | 3 z | 4 n c.. | 5 n v.. list | 10 n v.. tuple | 11 n (k v).. map (inserted pair by pair)
     expr : 0 z | 1 n c.. | 2 b | 3 none | 4 x | 5 n e.. list | 6 n e.. tuple | 7 n (k v).. map
          | 8 hasrecv [recv] f nargs (kind [n c..] e).. hascaller [id]     kind: 0 positional | 1 keyword (key follows) | 2 *e | 3 **e
   output: ncode code.. nrun run.. ceval..
     code : 1 value (LoadConst) | 2 x (Lookup) | 3 n BuildList | 4 n BuildTuple | 5 n BuildMap | 6 n BuildKwargs
          | 7 n MergeKwargs | 8 n UnpackLists | 9 f a (call; a = argc + 1, 0 = count on the stack)
     run / ceval: 0 value | [1] failed;   value as above plus 12 n (k v).. kwargs | 13 f n v.. call result | 14 id macro *)
Module CollRun.
Import Coll CollSpec.

Fixpoint enc_cval (v : cval) : list Z :=
  let pairs := fix go (m : list (cval * cval)) : list Z := match m with [] => [] | (k, x) :: r => enc_cval k ++ enc_cval x ++ go r end in
  match v with
  | CUndef => [0]
  | CAtom LNone => [1]
  | CAtom (LBool b) => [2; if b then 1 else 0]
  | CAtom (LInt z) => [3; z]
  | CAtom (LStr s) => 4 :: lenZ s :: s
  | CList l => 5 :: lenZ l :: flat_map enc_cval l
  | CTuple l => 10 :: lenZ l :: flat_map enc_cval l
  | CMap m => 11 :: lenZ m :: pairs m
  | CKwargs m => 12 :: lenZ m :: pairs m
  | CRes f args => 13 :: f :: lenZ args :: flat_map enc_cval args
  | CMacro id => [14; id]
  end.

Definition enc_instr (i : cinstr) : list Z :=
  match i with
  | ILoadConst v => 1 :: enc_cval v
  | ILookup x => [2; x]
  | IBuildList n => [3; Z.of_nat n]
  | IBuildTuple n => [4; Z.of_nat n]
  | IBuildMap n => [5; Z.of_nat n]
  | IBuildKwargs n => [6; Z.of_nat n]
  | IMergeKwargs n => [7; Z.of_nat n]
  | IUnpackLists n => [8; Z.of_nat n]
  | ICall f argc => [9; f; match argc with Some n => Z.of_nat n + 1 | None => 0 end]
  end.

Fixpoint dcval (fuel : nat) (l : list Z) {struct fuel} : option (cval * list Z) :=
  match fuel with
  | O => None
  | S fuel =>
    let dlist := fix go (n : nat) (l : list Z) : option (list cval * list Z) :=
      match n with
      | O => Some ([], l)
      | S n => Codec.obind (dcval fuel l) (fun '(v, l1) => Codec.obind (go n l1) (fun '(vs, l2) => Some (v :: vs, l2)))
      end in
    match l with
    | 0 :: r => Some (CUndef, r)
    | 1 :: r => Some (CAtom LNone, r)
    | 2 :: b :: r => Some (CAtom (LBool (negb (b =? 0))), r)
    | 3 :: z :: r => Some (CAtom (LInt z), r)
    | 4 :: n :: r => Codec.obind (take_n (Z.to_nat n) r) (fun '(s, r1) => Some (CAtom (LStr s), r1))
    | 5 :: n :: r => Codec.obind (dlist (Z.to_nat n) r) (fun '(vs, r1) => Some (CList vs, r1))
    | 10 :: n :: r => Codec.obind (dlist (Z.to_nat n) r) (fun '(vs, r1) => Some (CTuple vs, r1))
    | 11 :: n :: r =>
        Codec.obind (dlist (Z.to_nat n * 2)%nat r) (fun '(vs, r1) =>
          Some (CMap ((fix pair (l : list cval) (m : cmap) : cmap :=
                         match l with k :: x :: t => pair t (ins_btree k x m) | _ => m end) vs []), r1))
    | _ => None
    end
  end.

Fixpoint drho (n : nat) (l : list Z) : option (list (name * cval) * list Z) :=
  match n with
  | O => Some ([], l)
  | S n => match l with
           | x :: r => Codec.obind (dcval 20 r) (fun '(v, r1) => Codec.obind (drho n r1) (fun '(kv, r2) => Some ((x, v) :: kv, r2)))
           | [] => None end
  end.

Fixpoint dcexpr (fuel : nat) (l : list Z) {struct fuel} : option (cexpr * list Z) :=
  match fuel with
  | O => None
  | S fuel =>
    let dlist := fix go (n : nat) (l : list Z) : option (list cexpr * list Z) :=
      match n with
      | O => Some ([], l)
      | S n => Codec.obind (dcexpr fuel l) (fun '(e, l1) => Codec.obind (go n l1) (fun '(es, l2) => Some (e :: es, l2)))
      end in
    let dpairs := fix go (n : nat) (l : list Z) : option (list (cexpr * cexpr) * list Z) :=
      match n with
      | O => Some ([], l)
      | S n => Codec.obind (dcexpr fuel l) (fun '(k, l1) => Codec.obind (dcexpr fuel l1) (fun '(v, l2) =>
               Codec.obind (go n l2) (fun '(ps, l3) => Some ((k, v) :: ps, l3))))
      end in
    let dargs := fix go (n : nat) (l : list Z) : option (list (argk * cexpr) * list Z) :=
      match n with
      | O => Some ([], l)
      | S n =>
          Codec.obind (match l with
                       | 0 :: r => Some (KPos, r)
                       | 1 :: k :: r => Codec.obind (take_n (Z.to_nat k) r) (fun '(s, r1) => Some (KKw s, r1))
                       | 2 :: r => Some (KPosSplat, r)
                       | 3 :: r => Some (KKwSplat, r)
                       | _ => None end) (fun '(kind, l1) =>
          Codec.obind (dcexpr fuel l1) (fun '(e, l2) => Codec.obind (go n l2) (fun '(es, l3) => Some ((kind, e) :: es, l3))))
      end in
    match l with
    | 0 :: z :: r => Some (XConst (LInt z), r)
    | 1 :: n :: r => Codec.obind (take_n (Z.to_nat n) r) (fun '(s, r1) => Some (XConst (LStr s), r1))
    | 2 :: b :: r => Some (XConst (LBool (negb (b =? 0))), r)
    | 3 :: r => Some (XConst LNone, r)
    | 4 :: x :: r => Some (XVar x, r)
    | 5 :: n :: r => Codec.obind (dlist (Z.to_nat n) r) (fun '(es, r1) => Some (XList es, r1))
    | 6 :: n :: r => Codec.obind (dlist (Z.to_nat n) r) (fun '(es, r1) => Some (XTuple es, r1))
    | 7 :: n :: r => Codec.obind (dpairs (Z.to_nat n) r) (fun '(ps, r1) => Some (XMap ps, r1))
    | 8 :: hr :: r =>
        Codec.obind (if hr =? 0 then Some (None, r) else Codec.obind (dcexpr fuel r) (fun '(e, r1) => Some (Some e, r1))) (fun '(recv, r1) =>
        match r1 with
        | f :: na :: r2 =>
            Codec.obind (dargs (Z.to_nat na) r2) (fun '(args, r3) =>
            match r3 with
            | 0 :: r4 => Some (XCall recv f args None, r4)
            | _ :: id :: r4 => Some (XCall recv f args (Some id), r4)
            | _ => None
            end)
        | _ => None
        end)
    | _ => None
    end
  end.

Definition rho_of (kv : list (name * cval)) : name -> cval :=
  fun x => match assoc x kv with Some v => v | None => CUndef end.

Definition run_coll (inp : list Z) : list Z :=
  match inp with
  | nr :: r =>
      match drho (Z.to_nat nr) r with
      | Some (kv, r1) =>
          match dcexpr 60 r1 with
          | Some (e, _) =>
              let rho := rho_of kv in
              let code := ccompile ins_btree true true e in
              let ctoks := flat_map enc_instr code in
              let res (o : option cval) := match o with Some v => 0 :: enc_cval v | None => [1] end in
              let rtoks := res (match Coll.run ins_btree rho code [] with Some [v] => Some v | _ => None end) in
              lenZ ctoks :: ctoks ++ lenZ rtoks :: rtoks ++ res (ceval ins_btree rho e)
          | None => [9]
          end
      | None => [9]
      end
  | _ => [9]
  end.
End CollRun.

Open Scope string_scope.
Definition runners : list (string * (list Z -> list Z)) := [ ("c04", run); ("c04-old", run_old); ("c04-sub", run_sub); ("c04-coll", CollRun.run_coll) ].
