(* C04 runner: the model folder and the reference evaluator on one encoded expression.
   input : mode nctx (k v).. expr                (encodings of Lang/Codec.v, tools/langenc.py)
   output: fold ++ run   where
     fold = [0]            as_const = None (run-time code is emitted)
          | 1 :: enc v     as_const = Some v (a single LoadConst)
     run  = 0 :: enc v     reference evaluation succeeded with v
          | [1; code]      failed with that ErrorKind
          | [2] panic | [8] out of gas
   enc: 0 undefined | 6 silent undefined | 1 none | 2 b | 3 z | 4 n c1..cn | 5 n v1..vn | 7 other
   [9] = undecodable input.
   runner c04-sub: [number of LoadConst; number of Lookup] in the stream of `{{ e }}` according to the recursive folder (count_loads mirrors compile_expr; the look-ups are those left in fold_sub e). *)
From Coq Require Import String.
From MJ Require Import Common.Base Lang.Syntax Lang.Meta Lang.Interp Lang.Codec C04.Model.

Definition FUEL := 400%nat.

Fixpoint enc_value (v : value) : list Z :=
  match v with
  | VUndef => [0]
  | VSilent => [6]
  | VNone => [1]
  | VBool b => [2; if b then 1 else 0]
  | VInt z => [3; z]
  | VStr _ s => 4 :: lenZ s :: s
  | VList l => 5 :: lenZ l :: flat_map enc_value l
  | _ => [7]
  end.

Definition run_with (folder : expr -> option value) (inp : list Z) : list Z :=
  match inp with
  | md :: nc :: r =>
      match dctx (Z.to_nat nc) r with
      | Some (ctx, r1) =>
          match dexpr EFUEL r1 with
          | Some (e, _) =>
              let c := mkCfg (mode_of md) ctx false in
              (match folder e with None => [0] | Some v => 1 :: enc_value v end) ++
              match eval c FUEL false init_state e with
              | Ok (v, _) => 0 :: enc_value v
              | Err code => [1; code]
              | Panic => [2]
              | OutOfGas => [8]
              end
          | None => [9]
          end
      | None => [9]
      end
  | _ => [9]
  end.

(* instruction counts the recursive folding predicts for `{{ e }}`: LoadConst and Lookup
   (call-free expressions; [-1; -1] when a call occurs: keyword arguments load constants of their own) *)
Definition sumZ {X} (f : X -> Z) (l : list X) : Z := fold_right (fun x a => f x + a) 0 l.

(* mirrors the recursion of compile_expr: a node that folds is one LoadConst, otherwise its
   operands are compiled (an if-expression without else loads the silent undefined) *)
Fixpoint count_loads (e : expr) {struct e} : Z :=
  match as_const e with
  | Some _ => 1
  | None =>
    match e with
    | EConst _ => 1
    | EVar _ => 0
    | EList items => sumZ count_loads items
    | ENeg a | ENot a | EAttr a _ => count_loads a
    | EBin _ a b | EAnd a b | EOr a b | EItem a b => count_loads a + count_loads b
    | ECmp a rest => count_loads a + sumZ (fun p => count_loads (snd p)) rest
    | EIf c t f => count_loads c + count_loads t + match f with Some f => count_loads f | None => 1 end
    | EFilter _ a args | ETest _ a args _ => count_loads a + sumZ count_loads args
    | ECall _ _ _ => 0
    end
  end.

Fixpoint count_lookups (e : expr) {struct e} : Z :=
  match e with
  | EConst _ => 0
  | EVar _ => 1
  | EList items => sumZ count_lookups items
  | ENeg a | ENot a | EAttr a _ => count_lookups a
  | EBin _ a b | EAnd a b | EOr a b | EItem a b => count_lookups a + count_lookups b
  | ECmp a rest => count_lookups a + sumZ (fun p => count_lookups (snd p)) rest
  | EIf c t f => count_lookups c + count_lookups t + match f with Some f => count_lookups f | None => 0 end
  | EFilter _ a args | ETest _ a args _ => count_lookups a + sumZ count_lookups args
  | ECall _ _ _ => 0
  end.

Fixpoint has_call (e : expr) {struct e} : bool :=
  match e with
  | EConst _ | EVar _ => false
  | EList items => existsb has_call items
  | ENeg a | ENot a | EAttr a _ => has_call a
  | EBin _ a b | EAnd a b | EOr a b | EItem a b => has_call a || has_call b
  | ECmp a rest => has_call a || existsb (fun p => has_call (snd p)) rest
  | EIf c t f => has_call c || has_call t || match f with Some f => has_call f | None => false end
  | EFilter _ a args | ETest _ a args _ => has_call a || existsb has_call args
  | ECall _ _ _ => true
  end.

Definition run_sub (inp : list Z) : list Z :=
  match inp with
  | md :: nc :: r =>
      match dctx (Z.to_nat nc) r with
      | Some (_, r1) =>
          match dexpr EFUEL r1 with
          | Some (e, _) => if has_call e then [-1; -1] else [count_loads e; count_lookups (fold_sub e)]
          | None => [9]
          end
      | None => [9]
      end
  | _ => [9]
  end.

Definition run := run_with as_const.
Definition run_old := run_with as_const_old.

Open Scope string_scope.
Definition runners : list (string * (list Z -> list Z)) := [ ("c04", run); ("c04-old", run_old); ("c04-sub", run_sub) ].
