(* C04 specification vocabulary, written from the property text: what "replacing literals by
   variables bound to the same values" means on the expression syntax, and when two evaluations
   count as the same behaviour.  Run-time evaluation itself is Lang/Interp.v::eval.  No proofs. *)
From MJ Require Import Common.Base Lang.Syntax Lang.Meta Lang.Interp.

Definition value_of_lit (l : lit) : value :=
  match l with
  | LInt z => VInt z
  | LStr t => VStr false t
  | LBool b => VBool b
  | LNone => VNone
  end.

(* [subst sigma e] is [e] with every variable that [sigma] maps to a literal replaced by that
   literal: [e] is the hoisted form E' of the property, [subst sigma e] the literal form E.
   Any set of literal positions can be hoisted this way (one fresh variable per position). *)
Fixpoint subst (sigma : name -> option lit) (e : expr) {struct e} : expr :=
  match e with
  | EConst l => EConst l
  | EVar x => match sigma x with Some l => EConst l | None => EVar x end
  | EList items => EList (map (subst sigma) items)
  | EMap pairs => EMap (map (fun p => (subst sigma (fst p), subst sigma (snd p))) pairs)
  | ENeg a => ENeg (subst sigma a)
  | ENot a => ENot (subst sigma a)
  | EBin op a b => EBin op (subst sigma a) (subst sigma b)
  | ECmp a rest => ECmp (subst sigma a) (map (fun p => (fst p, subst sigma (snd p))) rest)
  | EAnd a b => EAnd (subst sigma a) (subst sigma b)
  | EOr a b => EOr (subst sigma a) (subst sigma b)
  | EIf c t f => EIf (subst sigma c) (subst sigma t) (match f with Some f => Some (subst sigma f) | None => None end)
  | EItem a i => EItem (subst sigma a) (subst sigma i)
  | EAttr a x => EAttr (subst sigma a) x
  | EFilter f a args => EFilter f (subst sigma a) (map (subst sigma) args)
  | ETest t a args ng => ETest t (subst sigma a) (map (subst sigma) args) ng
  | ECall f args kwargs => ECall f (map (subst sigma) args) (map (fun p => (fst p, subst sigma (snd p))) kwargs)
  end.

(* hoisting one literal [l] into the variable [x] *)
Definition single (x : name) (l : lit) : name -> option lit := fun y => if y =? x then Some l else None.

(* the variables of [sigma] are bound, in the scope the expression is evaluated in, to the values
   of the literals they replace *)
Definition bound (c : cfg) (s : st) (sigma : name -> option lit) : Prop :=
  forall x l, sigma x = Some l -> fst (load c (s_clos s) (s_env s) x) = Some (value_of_lit l).

(* expressions whose calls all go to callees accepted by [ok] *)
Fixpoint callsafe (ok : name -> bool) (e : expr) {struct e} : bool :=
  match e with
  | EConst _ | EVar _ => true
  | EList items => forallb (callsafe ok) items
  | EMap pairs => forallb (fun p => callsafe ok (fst p) && callsafe ok (snd p)) pairs
  | ENeg a | ENot a | EAttr a _ => callsafe ok a
  | EBin _ a b | EAnd a b | EOr a b | EItem a b => callsafe ok a && callsafe ok b
  | ECmp a rest => callsafe ok a && forallb (fun p => callsafe ok (snd p)) rest
  | EIf c t f => callsafe ok c && callsafe ok t && match f with Some f => callsafe ok f | None => true end
  | EFilter _ a args | ETest _ a args _ => callsafe ok a && forallb (callsafe ok) args
  | ECall f args kwargs => ok f && forallb (callsafe ok) args && forallb (fun p => callsafe ok (snd p)) kwargs
  end.

(* expressions without calls (a macro call runs statements; everything else touches the state
   only through context look-ups) *)
Definition pure (e : expr) : bool := callsafe (fun _ => false) e.

(* the name [f] does not resolve to a macro in the scope of [s]: a call of [f] is then a call of a
   builtin function (range), or fails (unknown function / not callable) - it runs no statements *)
Definition not_macro (c : cfg) (s : st) (f : name) : Prop :=
  forall mc cl, fst (load c (s_clos s) (s_env s) f) <> Some (VMacro mc cl).

Definition maxmap {X} (f : X -> nat) : list X -> nat :=
  fix go (l : list X) : nat := match l with [] => O | x :: r => Nat.max (f x) (go r) end.

(* nesting depth: fuel [depth e] is "large enough" for an expression without calls *)
Fixpoint depth (e : expr) {struct e} : nat :=
  match e with
  | EConst _ | EVar _ => 1
  | EList items => S (maxmap depth items)
  | EMap pairs => S (maxmap (fun p => Nat.max (depth (fst p)) (depth (snd p))) pairs)
  | ENeg a | ENot a | EAttr a _ => S (depth a)
  | EBin _ a b | EAnd a b | EOr a b | EItem a b => S (Nat.max (depth a) (depth b))
  | ECmp a rest => S (Nat.max (depth a) (maxmap (fun p => depth (snd p)) rest))
  | EIf c t f => S (Nat.max (depth c) (Nat.max (depth t) (match f with Some f => depth f | None => O end)))
  | EFilter _ a args | ETest _ a args _ => S (Nat.max (depth a) (maxmap depth args))
  | ECall _ args kwargs => S (Nat.max (maxmap depth args) (maxmap (fun p => depth (snd p)) kwargs))
  end.

(* two states that differ at most in the instrumentation (the record of context look-ups) *)
Definition same (s t : st) : Prop := s_env s = s_env t /\ s_clos s = s_clos t /\ s_out s = s_out t.

(* same behaviour: same value and success, same error kind; the states stay what they were *)
Definition res_rel {A} (s1 s2 : st) (r1 r2 : outcome (A * st)) : Prop :=
  match r1, r2 with
  | Ok (v1, t1), Ok (v2, t2) => v1 = v2 /\ same s1 t1 /\ same s2 t2
  | Err a, Err b => a = b
  | Panic, Panic => True
  | OutOfGas, OutOfGas => True
  | _, _ => False
  end.
