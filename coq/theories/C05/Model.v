(* C05 model: the abstract "shape" machine over compiled instruction streams.

   An activation of the interpreter (vm/mod.rs::eval_impl) owns: the frames it pushed on the
   context stack (PushWith / PushLoop), the captures it opened on the output
   (BeginCapture), its auto-escape stack, and its operand stack.  The shape records exactly
   that, relative to the activation's entry.  [edges] gives, for one instruction, every
   control-flow successor with the shape it is reached in, or [None] when the instruction
   would discard something that is not there or not its own (Stack::pop().unwrap(),
   pop_frame().unwrap(), current_loop.unwrap(), capture_stack.pop().unwrap(),
   auto_escape_stack.pop().unwrap() in the Rust code).

   Operand slots: [V] one value; [B] a counted bundle (k >= 0 values with their count on top:
   what UnpackLists pushes and what the filtered-loop idiom of codegen.rs accumulates). *)
From MJ Require Import Common.Base.
Local Open Scope nat_scope.

Inductive fk := FWith | FLoop.
Inductive slot := V | B.

Record shape := mkShape { frames : list fk; caps : nat; aes : nat; stk : list slot }.

Inductive instr :=
| IStack (pops pushes : nat)      (* pure operand effect on single values *)
| IConstB                         (* LoadConst(0) used as an empty bundle *)
| IMkB (n : nat)                  (* UnpackLists(n) *)
| IPopB                           (* Call*/ApplyFilter/PerformTest/BuildList/BuildTuple with a dynamic count *)
| ISwap
| IBin                            (* binary operator: 2 -> 1; count + 1 on a bundle *)
| IPushWith | IPopFrame
| IPushLoop                       (* pops the iterable, pushes a loop frame *)
| IPopLoopFrame
| IIterate (t : nat)
| IDidNotIterate
| IJump (t : nat)
| IJumpIfFalse (t : nat)
| IJumpOrPop (t : nat)            (* JumpIfFalseOrPop / JumpIfTrueOrPop *)
| IPushAE | IPopAE
| IBeginCapture | IEndCapture
| IReturn.

Definition fk_eqb (a b : fk) : bool := match a, b with FWith, FWith | FLoop, FLoop => true | _, _ => false end.
Definition slot_eqb (a b : slot) : bool := match a, b with V, V | B, B => true | _, _ => false end.
Fixpoint list_eqb {A} (e : A -> A -> bool) (a b : list A) : bool :=
  match a, b with
  | [], [] => true
  | x :: a, y :: b => e x y && list_eqb e a b
  | _, _ => false
  end.
Definition shape_eqb (a b : shape) : bool :=
  list_eqb fk_eqb (frames a) (frames b) && Nat.eqb (caps a) (caps b) && Nat.eqb (aes a) (aes b)
  && list_eqb slot_eqb (stk a) (stk b).

Definition with_stk (s : shape) (k : list slot) : shape := mkShape (frames s) (caps s) (aes s) k.
Definition with_frames (s : shape) (f : list fk) : shape := mkShape f (caps s) (aes s) (stk s).

(* pops n single values *)
Fixpoint popV (n : nat) (k : list slot) : option (list slot) :=
  match n with
  | O => Some k
  | S n => match k with V :: r => popV n r | _ => None end
  end.
Definition pushV (n : nat) (k : list slot) : list slot := repeat V n ++ k.

Definition has_loop (f : list fk) : bool := existsb (fk_eqb FLoop) f.

(* every successor of instruction [i] at [pc] in shape [s]; None = stuck *)
Definition edges (i : instr) (pc : nat) (s : shape) : option (list (nat * shape)) :=
  let next s' := Some [(S pc, s')] in
  match i with
  | IStack pops pushes =>
      match popV pops (stk s) with Some k => next (with_stk s (pushV pushes k)) | None => None end
  | IConstB => next (with_stk s (B :: stk s))
  | IMkB n => match popV n (stk s) with Some k => next (with_stk s (B :: k)) | None => None end
  | IPopB => match stk s with B :: k => next (with_stk s (V :: k)) | _ => None end
  | ISwap => match stk s with
             | V :: V :: k => next s
             | V :: B :: k => next (with_stk s (B :: k))       (* the value slides under the count *)
             | _ => None end
  | IBin => match stk s with
            | V :: V :: k => next (with_stk s (V :: k))
            | V :: B :: k => next (with_stk s (B :: k))         (* count + 1 *)
            | _ => None end
  | IPushWith => next (with_frames s (FWith :: frames s))
  | IPopFrame => match frames s with FWith :: f => next (with_frames s f) | _ => None end
  | IPushLoop => match stk s with
                 | V :: k => next (mkShape (FLoop :: frames s) (caps s) (aes s) k)
                 | _ => None end
  | IPopLoopFrame => match frames s with FLoop :: f => next (with_frames s f) | _ => None end
  | IIterate t => if has_loop (frames s)
                  then Some [(S pc, with_stk s (V :: stk s)); (t, s)] else None
  | IDidNotIterate => if has_loop (frames s) then next (with_stk s (V :: stk s)) else None
  | IJump t => Some [(t, s)]
  | IJumpIfFalse t => match stk s with V :: k => Some [(S pc, with_stk s k); (t, with_stk s k)] | _ => None end
  | IJumpOrPop t => match stk s with V :: k => Some [(S pc, with_stk s k); (t, s)] | _ => None end
  | IPushAE => match stk s with V :: k => next (mkShape (frames s) (caps s) (S (aes s)) k) | _ => None end
  | IPopAE => match aes s with S a => next (mkShape (frames s) (caps s) a (stk s)) | O => None end
  | IBeginCapture => next (mkShape (frames s) (S (caps s)) (aes s) (stk s))
  | IEndCapture => match caps s with
                   | S c => next (mkShape (frames s) c (aes s) (V :: stk s))
                   | O => None end
  | IReturn => Some []
  end.

(* the shape an activation must be in when it ends (Return, or running off the stream):
   scope, capture and auto-escape depth as at entry.  Operands a construct pushed and left
   behind (`do`, `from .. import` leave one) are tolerated: the property forbids discarding
   what is not one's own, not leaving a surplus value below the live operands. *)
Definition final_ok (s : shape) : bool :=
  match frames s, caps s, aes s with [], O, O => true | _, _, _ => false end.

(* [sub a b]: same frames, captures and auto-escapes, and the operand stack of [a] is the top
   part of the operand stack of [b] (b may hold surplus values underneath) *)
Fixpoint is_prefix (a b : list slot) : bool :=
  match a, b with
  | [], _ => true
  | x :: a, y :: b => slot_eqb x y && is_prefix a b
  | _ :: _, [] => false
  end.
Definition sub (a b : shape) : bool :=
  list_eqb fk_eqb (frames a) (frames b) && Nat.eqb (caps a) (caps b) && Nat.eqb (aes a) (aes b)
  && is_prefix (stk a) (stk b).

(* ---- the checker: one annotated shape per reachable pc ---- *)
Definition ann := list (option shape).

Definition target_ok (C : list instr) (A : ann) (t : nat * shape) : bool :=
  let '(pc', s') := t in
  if Nat.eqb pc' (length C) then final_ok s'
  else match nth_error A pc' with Some (Some st) => sub st s' | _ => false end.

Definition check_at (C : list instr) (A : ann) (pc : nat) : bool :=
  match nth_error C pc, nth_error A pc with
  | Some i, Some (Some s) =>
      match edges i pc s with
      | None => false
      | Some ts => forallb (target_ok C A) ts && (match i with IReturn => final_ok s | _ => true end)
      end
  | Some _, Some None => true        (* not reachable: unconstrained *)
  | _, _ => false
  end.

Definition entry_ok (C : list instr) (A : ann) (e : nat * shape) : bool :=
  let '(pc, s) := e in
  if Nat.eqb pc (length C) then final_ok s
  else match nth_error A pc with Some (Some st) => sub st s | _ => false end.

Definition check_ann (C : list instr) (A : ann) (entries : list (nat * shape)) : bool :=
  Nat.eqb (length A) (length C) && forallb (entry_ok C A) entries && forallb (check_at C A) (seq 0 (length C)).

(* ---- annotation inference (unverified; its result is checked by check_ann) ---- *)
Fixpoint set_nth {A} (n : nat) (x : A) (l : list A) : list A :=
  match l, n with
  | [], _ => []
  | _ :: r, O => x :: r
  | y :: r, S n => y :: set_nth n x r
  end.

Fixpoint infer (gas : nat) (C : list instr) (work : list (nat * shape)) (A : ann) : ann :=
  match gas with
  | O => A
  | S g =>
      match work with
      | [] => A
      | (pc, s) :: w =>
          match nth_error A pc with
          | Some None =>
              let A' := set_nth pc (Some s) A in
              match nth_error C pc with
              | Some i => match edges i pc s with
                          | Some ts => infer g C (ts ++ w) A'
                          | None => infer g C w A'
                          end
              | None => infer g C w A'
              end
          | _ => infer g C w A
          end
      end
  end.

Definition shape0 : shape := mkShape [] O O [].
Definition entry_shape (nargs : nat) : shape := mkShape [] O O (repeat V nargs).

Definition annotate (C : list instr) (entries : list (nat * shape)) : ann :=
  infer (4 * length C + 4 * length entries + 8) C entries (repeat None (length C)).

(* verdict: Some pc = first pc the checker rejects (length C + 1 + k = entry k rejected); None = accepted *)
Fixpoint first_bad (f : nat -> bool) (l : list nat) : option nat :=
  match l with [] => None | x :: r => if f x then first_bad f r else Some x end.

Definition verdict (C : list instr) (entries : list (nat * shape)) : option nat :=
  let A := annotate C entries in
  if check_ann C A entries then None
  else match first_bad (check_at C A) (seq 0 (length C)) with
       | Some pc => Some pc
       | None => Some (length C)
       end.
