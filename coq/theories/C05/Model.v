(* C05 model: the abstract "shape" machine over compiled instruction streams.

   An activation of the interpreter (vm/mod.rs::eval_impl) owns: the frames it pushed on the
   context stack (PushWith / PushLoop), the captures it opened on the output
   (BeginCapture), its auto-escape stack, and its operand stack.  The shape records exactly
   that, relative to the activation's entry.  [edges] gives, for one instruction, every
   control-flow successor with the shape it is reached in, or [None] when the instruction
   would discard something that is not there or not its own (Stack::pop().unwrap(),
   pop_frame().unwrap(), current_loop.unwrap(), capture_stack.pop().unwrap(),
   auto_escape_stack.pop().unwrap() in the Rust code).

   Operand slots: [V] one value; [B] a counted bundle (k >= 0 values with their count on top:
   what UnpackLists pushes and what the filtered-loop idiom of codegen.rs accumulates).

   Recursive loops (`for .. recursive`, `loop(x)`).  The VM re-enters a loop from a call site
   (FastRecurse, or CallFunction whose callee turns out to be a loop object) by jumping to the
   loop's PushLoop with the argument on the operand stack; the new loop frame remembers where
   to go back to ([ret] = (return pc, end_capture)), and PopLoopFrame on such a frame does not
   fall through but returns there (vm/mod.rs, `recurse_loop!` and the PopLoopFrame arm).
   [edges] contains the LOCAL successors of an instruction, where a call is the summary step
   "argument consumed, result (if captured) pushed"; [call_edges] are the additional successors
   of the real, interprocedural machine: the entry of every recursive loop of the stream (the
   loop object is a value: it can be stored and called from anywhere in the stream). *)
From MJ Require Import Common.Base.
Local Open Scope nat_scope.

Inductive fk :=
| FWith
| FLoop (ret : option (nat * bool)).   (* Some (pc, end_capture): frame of a loop entered by a recursion call *)
Inductive slot := V | B.

(* [ext]: this activation has executed LoadBlocks (`extends`): the rest of the template runs with the
   output silenced by a discard capture (counted in [caps]) that the hand-over to the parent
   template ends when the stream is finished *)
Record shape := mkShape { frames : list fk; caps : nat; aes : nat; stk : list slot; ext : bool }.

Inductive instr :=
| IStack (pops pushes : nat)      (* pure operand effect on single values *)
| IConstB                         (* LoadConst(0) used as an empty bundle *)
| IMkB (n : nat)                  (* UnpackLists(n) *)
| IPopB                           (* Call*/ApplyFilter/PerformTest/BuildList/BuildTuple with a dynamic count *)
| ISwap
| IBin                            (* binary operator: 2 -> 1; count + 1 on a bundle *)
| IPushWith | IPopFrame
| IPushLoop (recursive : bool)    (* pops the iterable, pushes a loop frame; LOOP_FLAG_RECURSIVE *)
| IPopLoopFrame (ret_pops : nat)  (* ret_pops: operands the VM pops here when it returns from a recursion call *)
| IIterate (t : nat)
| IDidNotIterate
| IJump (t : nat)
| IJumpIfFalse (t : nat)
| IJumpOrPop (t : nat)            (* JumpIfFalseOrPop / JumpIfTrueOrPop *)
| IPushAE | IPopAE
| IBeginCapture | IEndCapture
| IReturn
| ICall (dyn : bool)              (* CallFunction with one argument (dyn: a counted bundle): the callee may be a loop object *)
| IRecurse                        (* FastRecurse *)
| ILoadBlocks.                    (* pops the parent's name, begins the discard capture; a second one is an error *)

Definition opt_eqb (a b : option (nat * bool)) : bool :=
  match a, b with
  | None, None => true
  | Some (p, c), Some (q, d) => Nat.eqb p q && Bool.eqb c d
  | _, _ => false
  end.
Definition fk_eqb (a b : fk) : bool :=
  match a, b with FWith, FWith => true | FLoop x, FLoop y => opt_eqb x y | _, _ => false end.
Definition slot_eqb (a b : slot) : bool := match a, b with V, V | B, B => true | _, _ => false end.
Fixpoint list_eqb {A} (e : A -> A -> bool) (a b : list A) : bool :=
  match a, b with
  | [], [] => true
  | x :: a, y :: b => e x y && list_eqb e a b
  | _, _ => false
  end.
Definition shape_eqb (a b : shape) : bool :=
  list_eqb fk_eqb (frames a) (frames b) && Nat.eqb (caps a) (caps b) && Nat.eqb (aes a) (aes b)
  && list_eqb slot_eqb (stk a) (stk b) && Bool.eqb (ext a) (ext b).

Definition with_stk (s : shape) (k : list slot) : shape := mkShape (frames s) (caps s) (aes s) k (ext s).
Definition with_frames (s : shape) (f : list fk) : shape := mkShape f (caps s) (aes s) (stk s) (ext s).

(* pops n single values *)
Fixpoint popV (n : nat) (k : list slot) : option (list slot) :=
  match n with
  | O => Some k
  | S n => match k with V :: r => popV n r | _ => None end
  end.
Definition pushV (n : nat) (k : list slot) : list slot := repeat V n ++ k.

Definition is_loop (f : fk) : bool := match f with FLoop _ => true | FWith => false end.
Definition has_loop (f : list fk) : bool := existsb is_loop f.

Definition capn (cap : bool) : nat := if cap then 1 else 0.
Definition capv (cap : bool) : list slot := if cap then [V] else [].

(* every LOCAL successor of instruction [i] at [pc] in shape [s]; None = stuck *)
Definition edges (i : instr) (pc : nat) (s : shape) : option (list (nat * shape)) :=
  let next s' := Some [(S pc, s')] in
  match i with
  | IStack pops pushes =>
      match popV pops (stk s) with Some k => next (with_stk s (pushV pushes k)) | None => None end
  | IConstB => next (with_stk s (B :: stk s))
  | IMkB n => match popV n (stk s) with Some k => next (with_stk s (B :: k)) | None => None end
  | IPopB => match stk s with B :: k => next (with_stk s (V :: k)) | _ => None end
  | ISwap => match stk s with
             | V :: V :: k => next s
             | V :: B :: k => next (with_stk s (B :: k))       (* the value slides under the count *)
             | _ => None end
  | IBin => match stk s with
            | V :: V :: k => next (with_stk s (V :: k))
            | V :: B :: k => next (with_stk s (B :: k))         (* count + 1 *)
            | _ => None end
  | IPushWith => next (with_frames s (FWith :: frames s))
  | IPopFrame => match frames s with FWith :: f => next (with_frames s f) | _ => None end
  | IPushLoop _ => match stk s with
                   | V :: k => next (mkShape (FLoop None :: frames s) (caps s) (aes s) k (ext s))
                   | _ => None end
  | IPopLoopFrame rp =>
      match frames s with
      | FLoop None :: f => next (with_frames s f)
      | FLoop (Some (r, cap)) :: f =>
          (* return from a recursion call: the frame goes, the VM pops [rp] operands, ends the
             capture of a capturing call (its content is the call's value) and continues at r *)
          match popV rp (stk s) with
          | Some k =>
              if cap then match caps s with
                          | S c => Some [(r, mkShape f c (aes s) (V :: k) (ext s))]
                          | O => None end
              else Some [(r, mkShape f (caps s) (aes s) k (ext s))]
          | None => None
          end
      | _ => None
      end
  | IIterate t => if has_loop (frames s)
                  then Some [(S pc, with_stk s (V :: stk s)); (t, s)] else None
  | IDidNotIterate => if has_loop (frames s) then next (with_stk s (V :: stk s)) else None
  | IJump t => Some [(t, s)]
  | IJumpIfFalse t => match stk s with V :: k => Some [(S pc, with_stk s k); (t, with_stk s k)] | _ => None end
  | IJumpOrPop t => match stk s with V :: k => Some [(S pc, with_stk s k); (t, s)] | _ => None end
  | IPushAE => match stk s with V :: k => next (mkShape (frames s) (caps s) (S (aes s)) k (ext s)) | _ => None end
  | IPopAE => match aes s with S a => next (mkShape (frames s) (caps s) a (stk s) (ext s)) | O => None end
  | IBeginCapture => next (mkShape (frames s) (S (caps s)) (aes s) (stk s) (ext s))
  | IEndCapture => match caps s with
                   | S c => next (mkShape (frames s) c (aes s) (V :: stk s) (ext s))
                   | O => None end
  | IReturn => Some []
  (* calls, summarised: the argument is consumed; a capturing call leaves its value *)
  | ICall false => match stk s with V :: k => next (with_stk s (V :: k)) | _ => None end
  | ICall true => match stk s with B :: k => next (with_stk s (V :: k)) | _ => None end
  | IRecurse => match stk s with V :: k => next (with_stk s k) | _ => None end
  | ILoadBlocks => match stk s with
                   | V :: k => if ext s then Some []       (* "tried to extend a second time": the render fails *)
                               else next (mkShape (frames s) (S (caps s)) (aes s) k true)
                   | _ => None end
  end.

(* ---- the interprocedural part ---- *)

(* a call instruction in shape [s]: (does the call capture?, the operand stack below the argument) *)
Definition call_arg (i : instr) (s : shape) : option (bool * list slot) :=
  match i, stk s with
  | ICall false, V :: k => Some (true, k)
  | ICall true, B :: k => Some (true, k)      (* a bundle of dynamic size one *)
  | IRecurse, V :: k => Some (false, k)
  | _, _ => None
  end.

Fixpoint rec_from (pc : nat) (C : list instr) : list nat :=
  match C with
  | [] => []
  | IPushLoop true :: r => pc :: rec_from (S pc) r
  | _ :: r => rec_from (S pc) r
  end.
(* the PushLoop instructions a recursion call can jump to *)
Definition rec_targets (C : list instr) : list nat := rec_from 0 C.

(* shape at the first body instruction of a loop entered by a call: one more loop frame that
   remembers the way back, one more capture for a capturing call, relative to [base] *)
Definition lift (b s : shape) : shape :=
  mkShape (frames s ++ frames b) (caps s + caps b) (aes s + aes b) (stk s ++ stk b) (ext s || ext b).
Definition reg_entry (r : nat) (cap : bool) : shape := mkShape [FLoop (Some (r, cap))] (capn cap) O [] false.
Definition ret_rel (cap : bool) : shape := mkShape [] O O (capv cap) false.

(* the additional successors of a call in the real machine: call + PushLoop of the target
   (the VM jumps to the PushLoop, which takes the argument as iterable and the pending return
   information into the new frame) *)
Definition call_edges (C : list instr) (i : instr) (pc : nat) (s : shape) : list (nat * shape) :=
  match call_arg i s with
  | Some (cap, k) => map (fun p => (S p, lift (with_stk s k) (reg_entry (S pc) cap))) (rec_targets C)
  | None => []
  end.

(* the shape an activation must be in when it ends (Return, or running off the stream):
   scope, capture and auto-escape depth as at entry and no operand left.  After `extends` the
   one discard capture LoadBlocks began is still open: the VM ends it when it hands over to the
   parent template's instructions (eval_impl, `None =>` arm of the instruction fetch), which
   then run in this very activation from the entry state. *)
Definition final_ok (s : shape) : bool :=
  match frames s, aes s, stk s with
  | [], O, [] => Nat.eqb (caps s) (if ext s then 1 else 0)
  | _, _, _ => false
  end.

(* what a program point can rely on whatever path led there: everything but whether `extends`
   has happened (a conditional extends is legal: then one more - discarding - capture is open) *)
Definition core (s : shape) : shape :=
  mkShape (frames s) (caps s - (if ext s then 1 else 0)) (aes s) (stk s) false.

(* ---- the checker: the annotated shapes of every reachable pc, per analysis ---- *)
(* usually one shape per pc; two where a conditional `extends` has or has not happened *)
Definition ann := list (list shape).

(* what is analysed: None = the activation of an entry point of the stream (template body, macro
   body, block); Some (r, cap) = one activation of a recursive loop, called from the site before r *)
Definition mode := option (nat * bool).

Definition in_ann (A : ann) (pc : nat) (s : shape) : bool :=
  match nth_error A pc with Some l => existsb (shape_eqb s) l | None => false end.

Definition target_ok (C : list instr) (A : ann) (m : mode) (t : nat * shape) : bool :=
  let '(pc', s') := t in
  if Nat.eqb pc' (length C) then match m with None => final_ok s' | Some _ => false end
  else in_ann A pc' s'.

(* the instruction returns from a recursion call *)
Definition ret_of (i : instr) (s : shape) : option (nat * bool) :=
  match i, frames s with IPopLoopFrame _, FLoop (Some rc) :: _ => Some rc | _, _ => None end.

Definition check_shape (C : list instr) (A : ann) (m : mode) (pc : nat) (i : instr) (s : shape) : bool :=
  match edges i pc s with
  | None => false
  | Some ts =>
      match ret_of i s with
      | Some rc =>
          (* only the activation's own frame may return, and it must leave exactly the call's result *)
          match m, ts with
          | Some rc', [(_, s')] => opt_eqb (Some rc) (Some rc') && shape_eqb s' (ret_rel (snd rc))
          | _, _ => false
          end
      | None =>
          forallb (target_ok C A m) ts
          && (match i with IReturn => match m with None => final_ok s | Some _ => false end | _ => true end)
      end
  end.

(* all shapes annotated at one pc agree up to `extends` *)
Definition agree (l : list shape) : bool :=
  match l with [] => true | s :: r => forallb (fun s' => shape_eqb (core s) (core s')) r end.

Definition check_at (C : list instr) (A : ann) (m : mode) (pc : nat) : bool :=
  match nth_error C pc, nth_error A pc with
  | Some i, Some l => forallb (check_shape C A m pc i) l && agree l      (* [] = not reachable: unconstrained *)
  | _, _ => false
  end.

Definition check_act (C : list instr) (A : ann) (m : mode) (entries : list (nat * shape)) : bool :=
  Nat.eqb (length A) (length C) && forallb (target_ok C A m) entries && forallb (check_at C A m) (seq 0 (length C)).

(* one entry-point analysis (all calls summarised) *)
Definition check_ann (C : list instr) (A : ann) (entries : list (nat * shape)) : bool := check_act C A None entries.

(* call sites: (return pc, captures?) *)
Fixpoint sites_from (pc : nat) (C : list instr) : list (nat * bool) :=
  match C with
  | [] => []
  | ICall _ :: r => (S pc, true) :: sites_from (S pc) r
  | IRecurse :: r => (S pc, false) :: sites_from (S pc) r
  | _ :: r => sites_from (S pc) r
  end.
Definition call_sites (C : list instr) : list (nat * bool) := sites_from 0 C.

(* one analysis per (recursive loop, call site): the loop's activation on behalf of that site *)
Definition regions (C : list instr) : list (nat * (nat * bool)) := list_prod (rec_targets C) (call_sites C).

Definition check_region (C : list instr) (x : (nat * (nat * bool)) * ann) : bool :=
  let '((p, rc), A) := x in check_act C A (Some rc) [(S p, reg_entry (fst rc) (snd rc))].

(* the combined checker *)
Definition check_rec (C : list instr) (Am : ann) (Ar : list ann) (entries : list (nat * shape)) : bool :=
  check_act C Am None entries && Nat.eqb (length Ar) (length (regions C))
  && forallb (check_region C) (combine (regions C) Ar).

(* ---- annotation inference (unverified; its result is checked) ---- *)
Fixpoint set_nth {A} (n : nat) (x : A) (l : list A) : list A :=
  match l, n with
  | [], _ => []
  | _ :: r, O => x :: r
  | y :: r, S n => y :: set_nth n x r
  end.

Definition MAX_SHAPES : nat := 4.

Fixpoint infer (gas : nat) (C : list instr) (work : list (nat * shape)) (A : ann) : ann :=
  match gas with
  | O => A
  | S g =>
      match work with
      | [] => A
      | (pc, s) :: w =>
          match nth_error A pc with
          | Some l =>
              if existsb (shape_eqb s) l || Nat.leb MAX_SHAPES (length l) then infer g C w A
              else
                let A' := set_nth pc (l ++ [s]) A in
                match nth_error C pc with
                | Some i => match ret_of i s, edges i pc s with
                            | None, Some ts => infer g C (ts ++ w) A'
                            | _, _ => infer g C w A'       (* a return leaves the activation *)
                            end
                | None => infer g C w A'
                end
          | None => infer g C w A
          end
      end
  end.

Definition shape0 : shape := mkShape [] O O [] false.
Definition entry_shape (nargs : nat) : shape := mkShape [] O O (repeat V nargs) false.

Definition annotate (C : list instr) (entries : list (nat * shape)) : ann :=
  infer (24 * length C + 4 * length entries + 8) C entries (repeat [] (length C)).

(* verdict: Some pc = first pc the checker rejects (length C = an entry rejected); None = accepted *)
Fixpoint first_bad (f : nat -> bool) (l : list nat) : option nat :=
  match l with [] => None | x :: r => if f x then first_bad f r else Some x end.

Definition verdict_act (C : list instr) (m : mode) (entries : list (nat * shape)) : option nat :=
  let A := annotate C entries in
  if check_act C A m entries then None
  else match first_bad (check_at C A m) (seq 0 (length C)) with
       | Some pc => Some pc
       | None => Some (length C)
       end.

(* entry-point analysis only (calls summarised) *)
Definition verdict (C : list instr) (entries : list (nat * shape)) : option nat :=
  let A := annotate C entries in
  if check_ann C A entries then None
  else match first_bad (check_at C A None) (seq 0 (length C)) with
       | Some pc => Some pc
       | None => Some (length C)
       end.

Definition region_entries (x : nat * (nat * bool)) : list (nat * shape) :=
  let '(p, rc) := x in [(S p, reg_entry (fst rc) (snd rc))].

Definition annotate_regions (C : list instr) : list ann :=
  map (fun x => annotate C (region_entries x)) (regions C).

(* the combined verdict: None = accepted; Some (k, pc): analysis k rejected at pc, where k = 0 is the
   entry-point analysis and k = j + 1 the j-th region of [regions C] *)
Fixpoint first_bad_region (C : list instr) (k : nat) (l : list (nat * (nat * bool))) : option (nat * nat) :=
  match l with
  | [] => None
  | x :: r => match verdict_act C (Some (snd x)) (region_entries x) with
              | Some pc => Some (k, pc)
              | None => first_bad_region C (S k) r
              end
  end.

Definition verdict_rec (C : list instr) (entries : list (nat * shape)) : option (nat * nat) :=
  if check_rec C (annotate C entries) (annotate_regions C) entries then None
  else match verdict C entries with
       | Some pc => Some (0, pc)
       | None => match first_bad_region C 1 (regions C) with
                 | Some r => Some r
                 | None => Some (0, S (length C))     (* not expected: the parts accept, the whole does not *)
                 end
       end.
