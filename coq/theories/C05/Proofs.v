From MJ Require Import Common.Base C05.Model C05.Spec.
Local Open Scope nat_scope.

Lemma fk_eqb_eq a b : fk_eqb a b = true -> a = b.
Proof. destruct a, b; cbn; congruence. Qed.
Lemma slot_eqb_eq a b : slot_eqb a b = true -> a = b.
Proof. destruct a, b; cbn; congruence. Qed.
Lemma list_eqb_eq {A} (e : A -> A -> bool) (He : forall x y, e x y = true -> x = y) :
  forall a b, list_eqb e a b = true -> a = b.
Proof.
  induction a as [|x a IH]; destruct b as [|y b]; cbn; try congruence.
  intros H. apply andb_prop in H as [H1 H2]. f_equal; auto.
Qed.

Lemma is_prefix_app a : forall b, is_prefix a b = true -> exists extra, b = a ++ extra.
Proof.
  induction a as [|x a IH]; intros b H; cbn in *.
  - exists b; reflexivity.
  - destruct b as [|y b]; [discriminate|]. apply andb_prop in H as [H1 H2].
    apply slot_eqb_eq in H1. subst. destruct (IH b H2) as [extra ->]. exists extra; reflexivity.
Qed.

(* [sub] as a proposition: b = a with surplus operands underneath *)
Definition subP (a b : shape) : Prop :=
  exists extra, b = mkShape (frames a) (caps a) (aes a) (stk a ++ extra).

Lemma sub_subP a b : sub a b = true -> subP a b.
Proof.
  unfold sub. intros H.
  apply andb_prop in H as [H H4]. apply andb_prop in H as [H H3]. apply andb_prop in H as [H1 H2].
  apply (list_eqb_eq _ fk_eqb_eq) in H1. apply Nat.eqb_eq in H2, H3.
  destruct (is_prefix_app _ _ H4) as [extra He]. exists extra.
  destruct a, b; cbn in *. congruence.
Qed.

Lemma subP_refl a : subP a a.
Proof. exists []. rewrite app_nil_r. destruct a; reflexivity. Qed.

Lemma subP_trans a b c : subP a b -> subP b c -> subP a c.
Proof.
  intros [e1 ->] [e2 ->]. cbn. exists (e1 ++ e2). rewrite app_assoc. reflexivity.
Qed.

Lemma subP_scope a b : subP a b -> scope_of b = scope_of a.
Proof. intros [e ->]. reflexivity. Qed.

Lemma subP_final a b : subP a b -> final_ok a = final_ok b.
Proof. intros [e ->]. reflexivity. Qed.

Lemma popV_app n : forall k k' extra, popV n k = Some k' -> popV n (k ++ extra) = Some (k' ++ extra).
Proof.
  induction n as [|n IH]; intros k k' extra H; cbn in *.
  - inversion H; reflexivity.
  - destruct k as [|[|] k]; try discriminate. cbn. apply IH; assumption.
Qed.

(* surplus operands underneath never change what an instruction does *)
Lemma edges_mono i pc s s2 ts : subP s s2 -> edges i pc s = Some ts ->
  exists ts2, edges i pc s2 = Some ts2 /\
    Forall2 (fun t t2 => fst t = fst t2 /\ subP (snd t) (snd t2)) ts ts2.
Proof.
  intros [extra ->] He. destruct s as [f c a k]. cbn [frames caps aes stk] in *.
  assert (R : forall pc' (x : shape) y, subP x y -> Forall2 (fun t t2 : nat * shape => fst t = fst t2 /\ subP (snd t) (snd t2)) [(pc', x)] [(pc', y)]).
  { intros. constructor; [split; [reflexivity|assumption]|constructor]. }
  assert (Q : forall (f' : list fk) c' a' (k' : list slot), subP (mkShape f' c' a' k') (mkShape f' c' a' (k' ++ extra))).
  { intros. exists extra. reflexivity. }
  destruct i; cbn [edges frames caps aes stk with_stk with_frames] in *.
  - (* IStack *) destruct (popV pops k) as [k'|] eqn:E; [|discriminate]. inversion He; subst.
    rewrite (popV_app _ _ _ extra E). eexists; split; [reflexivity|]. apply R.
    unfold pushV. rewrite app_assoc. apply Q.
  - inversion He; subst. eexists; split; [reflexivity|]. apply R. apply (Q f c a (B :: k)).
  - destruct (popV n k) as [k'|] eqn:E; [|discriminate]. inversion He; subst.
    rewrite (popV_app _ _ _ extra E). eexists; split; [reflexivity|]. apply R. apply (Q f c a (B :: k')).
  - destruct k as [|[|] k]; try discriminate. inversion He; subst. cbn. eexists; split; [reflexivity|]. apply R. apply (Q f c a (V :: k)).
  - destruct k as [|[|] [|[|] k]]; try discriminate; inversion He; subst; cbn; eexists; (split; [reflexivity|]); apply R.
    + apply (Q f c a (V :: V :: k)).
    + apply (Q f c a (B :: k)).
  - destruct k as [|[|] [|[|] k]]; try discriminate; inversion He; subst; cbn; eexists; (split; [reflexivity|]); apply R.
    + apply (Q f c a (V :: k)).
    + apply (Q f c a (B :: k)).
  - inversion He; subst. eexists; split; [reflexivity|]. apply R. apply Q.
  - destruct f as [|[|] f]; try discriminate. inversion He; subst. eexists; split; [reflexivity|]. apply R. apply Q.
  - destruct k as [|[|] k]; try discriminate. inversion He; subst. cbn. eexists; split; [reflexivity|]. apply R. apply Q.
  - destruct f as [|[|] f]; try discriminate. inversion He; subst. eexists; split; [reflexivity|]. apply R. apply Q.
  - destruct (has_loop f); [|discriminate]. inversion He; subst. eexists; split; [reflexivity|].
    constructor; [split; [reflexivity|apply (Q f c a (V :: k))]|]. apply R. apply Q.
  - destruct (has_loop f); [|discriminate]. inversion He; subst. eexists; split; [reflexivity|]. apply R. apply (Q f c a (V :: k)).
  - inversion He; subst. eexists; split; [reflexivity|]. apply R. apply Q.
  - destruct k as [|[|] k]; try discriminate. inversion He; subst. cbn. eexists; split; [reflexivity|].
    constructor; [split; [reflexivity|apply Q]|]. apply R. apply Q.
  - destruct k as [|[|] k]; try discriminate. inversion He; subst. cbn. eexists; split; [reflexivity|].
    constructor; [split; [reflexivity|apply Q]|]. apply R. apply (Q f c a (V :: k)).
  - destruct k as [|[|] k]; try discriminate. inversion He; subst. cbn. eexists; split; [reflexivity|]. apply R. apply Q.
  - destruct a as [|a]; try discriminate. inversion He; subst. eexists; split; [reflexivity|]. apply R. apply Q.
  - inversion He; subst. eexists; split; [reflexivity|]. apply R. apply Q.
  - destruct c as [|c]; try discriminate. inversion He; subst. eexists; split; [reflexivity|]. apply R. apply (Q f c a (V :: k)).
  - inversion He; subst. eexists; split; [reflexivity|constructor].
Qed.

Lemma edges_stuck_mono i pc s s2 : subP s s2 -> edges i pc s2 = None -> edges i pc s = None.
Proof.
  intros Hs H2. destruct (edges i pc s) as [ts|] eqn:E; [|reflexivity].
  destruct (edges_mono _ _ _ _ _ Hs E) as (ts2 & H & _). congruence.
Qed.

Lemma Forall2_In_r {X Y} (R : X -> Y -> Prop) l0 l2 t : Forall2 R l0 l2 -> In t l2 -> exists t0, In t0 l0 /\ R t0 t.
Proof.
  induction 1 as [|x y l0 l2 Hxy HF IH]; intros Hin; [destruct Hin|].
  destruct Hin as [<-|Hin].
  - exists x; split; [left; reflexivity|assumption].
  - destruct (IH Hin) as (t0 & H0 & HR). exists t0; split; [right; assumption|assumption].
Qed.

Section Sound.
Variable C : list instr.
Variable A : ann.
Variable entries : list (nat * shape).
Hypothesis Hchk : check_ann C A entries = true.

Let Hlen : length A = length C.
Proof. unfold check_ann in Hchk. apply andb_prop in Hchk as [H _]. apply andb_prop in H as [H _]. now apply Nat.eqb_eq in H. Qed.
Let Hent : forall e, In e entries -> entry_ok C A e = true.
Proof. unfold check_ann in Hchk. apply andb_prop in Hchk as [H _]. apply andb_prop in H as [_ H]. now rewrite forallb_forall in H. Qed.
Let Hall : forall pc, pc < length C -> check_at C A pc = true.
Proof.
  unfold check_ann in Hchk. apply andb_prop in Hchk as [_ H]. rewrite forallb_forall in H.
  intros pc Hpc. apply H. apply in_seq. lia.
Qed.

(* "good" configuration: inside the stream, the annotated shape with surplus operands underneath;
   or at the end in a final shape *)
Definition good (c : nat * shape) : Prop :=
  (fst c < length C /\ exists st, nth_error A (fst c) = Some (Some st) /\ subP st (snd c))
  \/ (fst c = length C /\ final_ok (snd c) = true).

Lemma target_good pc s s2 : target_ok C A (pc, s) = true -> subP s s2 -> good (pc, s2).
Proof.
  unfold target_ok, good. cbn [fst snd]. intros H Hs.
  destruct (Nat.eqb pc (length C)) eqn:E.
  - apply Nat.eqb_eq in E. right. split; [assumption|]. rewrite <- (subP_final _ _ Hs). assumption.
  - apply Nat.eqb_neq in E. destruct (nth_error A pc) as [[st|]|] eqn:En; try discriminate.
    apply sub_subP in H. left. split.
    + assert (pc < length A) by (apply nth_error_Some; congruence). lia.
    + exists st. split; [reflexivity|]. eapply subP_trans; eassumption.
Qed.

Lemma entry_good e : In e entries -> good e.
Proof.
  intros H. specialize (Hent e H). destruct e as [pc s].
  apply (target_good pc s s); [exact Hent|apply subP_refl].
Qed.

Lemma step_good b c : good b -> astep C b c -> good c.
Proof.
  intros Hb Hs. inversion Hs as [pc s i ts t Hi He Hin]; subst.
  destruct Hb as [[Hlt (st & Ha & Hsub)]|[Heq _]]; cbn [fst snd] in *.
  - specialize (Hall pc Hlt). unfold check_at in Hall. rewrite Hi, Ha in Hall.
    destruct (edges i pc st) as [ts0|] eqn:E0; [|discriminate].
    apply andb_prop in Hall as [Hts _]. rewrite forallb_forall in Hts.
    destruct (edges_mono _ _ _ _ _ Hsub E0) as (ts2 & He2 & HF). rewrite He in He2. inversion He2; subst ts2.
    destruct (Forall2_In_r _ _ _ _ HF Hin) as ([p0 s0] & Hin0 & Hpc & Hsb).
    destruct c as [p2 s2]. cbn [fst snd] in *. subst p2.
    eapply target_good; [apply Hts; exact Hin0|assumption].
  - assert (nth_error C pc = None) by (apply nth_error_None; lia). congruence.
Qed.

Lemma star_good e c : In e entries -> astar C e c -> good c.
Proof.
  intros He Hst. induction Hst as [c|a b c Hab IH Hbc].
  - apply entry_good; assumption.
  - eapply step_good; eauto.
Qed.

Lemma good_not_stuck c : good c -> ~ stuck C c.
Proof.
  intros [[Hlt (st & Ha & Hsub)]|[Heq _]] (i & Hi & He).
  - specialize (Hall (fst c) Hlt). unfold check_at in Hall. rewrite Hi, Ha in Hall.
    rewrite (edges_stuck_mono _ _ _ _ Hsub He) in Hall. discriminate.
  - assert (nth_error C (fst c) = None) by (apply nth_error_None; lia). congruence.
Qed.

Lemma good_ends c : good c -> ends C c -> final_ok (snd c) = true.
Proof.
  intros [[Hlt (st & Ha & Hsub)]|[Heq Hf]] [He|He]; try assumption; try lia.
  specialize (Hall (fst c) Hlt). unfold check_at in Hall. rewrite He, Ha in Hall.
  destruct (edges IReturn (fst c) st); [|discriminate].
  apply andb_prop in Hall as [_ H]. rewrite <- (subP_final _ _ Hsub). exact H.
Qed.

Lemma good_unique c c' : good c -> good c' -> fst c' = fst c -> fst c < length C ->
  scope_of (snd c') = scope_of (snd c).
Proof.
  intros [[_ (st & Ha & Hs)]|[Heq _]] [[_ (st' & Ha' & Hs')]|[Heq' _]] Hpc Hlt; try lia.
  rewrite Hpc in Ha'. rewrite Ha in Ha'. inversion Ha'; subst st'.
  rewrite (subP_scope _ _ Hs), (subP_scope _ _ Hs'). reflexivity.
Qed.

Theorem check_ann_sound_proof : balanced C entries.
Proof.
  intros e c He Hst. pose proof (star_good e c He Hst) as Hg.
  split; [apply good_not_stuck; assumption|].
  split; [destruct Hg as [[H _]|[H _]]; lia|].
  split; [apply good_ends; assumption|].
  intros e' c' He' Hst' Hpc Hlt. apply good_unique; auto. eapply star_good; eauto.
Qed.
End Sound.
