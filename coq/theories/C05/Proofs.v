From MJ Require Import Common.Base C05.Model C05.Spec.
Local Open Scope nat_scope.

(* ---- boolean equalities ---- *)
Lemma opt_eqb_eq a b : opt_eqb a b = true -> a = b.
Proof.
  destruct a as [[p c]|], b as [[q d]|]; cbn; try congruence.
  intros H. apply andb_prop in H as [H1 H2]. apply Nat.eqb_eq in H1. apply Bool.eqb_prop in H2. congruence.
Qed.
Lemma fk_eqb_eq a b : fk_eqb a b = true -> a = b.
Proof. destruct a, b; cbn; try congruence. intros H. apply opt_eqb_eq in H. congruence. Qed.
Lemma slot_eqb_eq a b : slot_eqb a b = true -> a = b.
Proof. destruct a, b; cbn; congruence. Qed.
Lemma list_eqb_eq {A} (e : A -> A -> bool) (He : forall x y, e x y = true -> x = y) :
  forall a b, list_eqb e a b = true -> a = b.
Proof.
  induction a as [|x a IH]; destruct b as [|y b]; cbn; try congruence.
  intros H. apply andb_prop in H as [H1 H2]. f_equal; auto.
Qed.
Lemma shape_eqb_eq a b : shape_eqb a b = true -> a = b.
Proof.
  unfold shape_eqb. intros H.
  apply andb_prop in H as [H H5]. apply andb_prop in H as [H H4]. apply andb_prop in H as [H H3]. apply andb_prop in H as [H1 H2].
  apply (list_eqb_eq _ fk_eqb_eq) in H1. apply Nat.eqb_eq in H2, H3. apply (list_eqb_eq _ slot_eqb_eq) in H4.
  apply Bool.eqb_prop in H5.
  destruct a, b; cbn in *. congruence.
Qed.

(* a return edge goes to the pc the frame remembers *)
Lemma edges_ret i pc s rc ts : ret_of i s = Some rc -> edges i pc s = Some ts ->
  exists s', ts = [(fst rc, s')].
Proof.
  unfold ret_of. destruct i; try discriminate. destruct s as [f c a k x]; cbn [frames].
  destruct f as [|[|[[r cap]|]] f]; try discriminate. intros H; inversion H; subst rc. cbn [edges frames caps aes stk ext fst].
  destruct (popV ret_pops k); [|discriminate]. destruct cap.
  - destruct c; [discriminate|]. intros H2; inversion H2. eexists; reflexivity.
  - intros H2; inversion H2. eexists; reflexivity.
Qed.

(* ================= one analysis ================= *)
Section Act.
Variable C : list instr.
Variable A : ann.
Variable m : mode.
Variable entries : list (nat * shape).
Hypothesis Hchk : check_act C A m entries = true.

Lemma Hlen : length A = length C.
Proof. unfold check_act in Hchk. apply andb_prop in Hchk as [H _]. apply andb_prop in H as [H _]. now apply Nat.eqb_eq in H. Qed.
Lemma Hent : forall e, In e entries -> target_ok C A m e = true.
Proof. unfold check_act in Hchk. apply andb_prop in Hchk as [H _]. apply andb_prop in H as [_ H]. now rewrite forallb_forall in H. Qed.
Lemma Hall : forall pc, pc < length C -> check_at C A m pc = true.
Proof.
  unfold check_act in Hchk. apply andb_prop in Hchk as [_ H]. rewrite forallb_forall in H.
  intros pc Hpc. apply H. apply in_seq. lia.
Qed.

(* "good" configuration: inside the stream in one of the annotated shapes; or (entry-point
   analyses only) at the end of the stream in the final shape *)
Definition good (c : nat * shape) : Prop :=
  (fst c < length C /\ in_ann A (fst c) (snd c) = true)
  \/ (m = None /\ fst c = length C /\ final_ok (snd c) = true).

Lemma in_ann_In pc s : in_ann A pc s = true -> exists l, nth_error A pc = Some l /\ In s l.
Proof.
  unfold in_ann. destruct (nth_error A pc) as [l|]; [|discriminate]. intros H.
  apply existsb_exists in H as (x & Hx & He). apply shape_eqb_eq in He. subst x. eauto.
Qed.

Lemma target_good t : target_ok C A m t = true -> good t.
Proof.
  destruct t as [pc s]. unfold target_ok, good. cbn [fst snd]. intros H.
  destruct (Nat.eqb pc (length C)) eqn:E.
  - apply Nat.eqb_eq in E. right. destruct m; [discriminate|]. auto.
  - left. split; [|assumption]. destruct (in_ann_In _ _ H) as (l & Hl & _).
    assert (pc < length A) by (apply nth_error_Some; congruence). pose proof Hlen. lia.
Qed.

Lemma entry_good e : In e entries -> good e.
Proof. intros H. apply target_good. apply Hent. assumption. Qed.

(* what the checker established at a good configuration *)
Lemma good_at pc s i : good (pc, s) -> nth_error C pc = Some i ->
  exists ts, edges i pc s = Some ts /\
    match ret_of i s with
    | Some rc => m = Some rc /\ ts = [(fst rc, ret_rel (snd rc))]
    | None => (forall t, In t ts -> good t) /\ (i = IReturn -> m = None /\ final_ok s = true)
    end.
Proof.
  intros [[Hlt Ha]|[_ [Heq _]]] Hi; cbn [fst snd] in *.
  2:{ assert (nth_error C pc = None) by (apply nth_error_None; lia). congruence. }
  pose proof (Hall pc Hlt) as Hall. unfold check_at in Hall. rewrite Hi in Hall.
  destruct (in_ann_In _ _ Ha) as (l & Hl & Hin). rewrite Hl in Hall.
  apply andb_prop in Hall as [Hall _]. rewrite forallb_forall in Hall. specialize (Hall s Hin).
  unfold check_shape in Hall.
  destruct (edges i pc s) as [ts|] eqn:E; [|discriminate]. exists ts. split; [reflexivity|].
  destruct (ret_of i s) as [rc|] eqn:Er.
  - destruct m as [rc'|]; [|discriminate].
    destruct (edges_ret _ _ _ _ _ Er E) as [s' ->].
    apply andb_prop in Hall as [H1 H2]. apply opt_eqb_eq in H1. apply shape_eqb_eq in H2.
    inversion H1; subst. split; reflexivity.
  - apply andb_prop in Hall as [H1 H2]. rewrite forallb_forall in H1. split.
    + intros t Ht. apply target_good. apply H1. assumption.
    + intros ->. destruct m; [discriminate|]. auto.
Qed.

Lemma good_inside pc s : good (pc, s) -> pc <= length C.
Proof. intros [[H _]|[_ [H _]]]; cbn in *; lia. Qed.

Lemma agree_core l s s' : agree l = true -> In s l -> In s' l -> core s' = core s.
Proof.
  destruct l as [|h r]; [intros _ []|]. cbn [agree]. intros H Hs Hs'. rewrite forallb_forall in H.
  assert (Hh : forall x, In x (h :: r) -> core x = core h).
  { intros x [<-|Hx]; [reflexivity|]. symmetry. apply shape_eqb_eq. apply H. assumption. }
  rewrite (Hh s Hs), (Hh s' Hs'). reflexivity.
Qed.

Lemma good_unique c c' : good c -> good c' -> fst c' = fst c -> fst c < length C -> core (snd c') = core (snd c).
Proof.
  intros [[_ Ha]|[_ [Heq _]]] [[_ Ha']|[_ [Heq' _]]] Hpc Hlt; try lia.
  rewrite Hpc in Ha'.
  destruct (in_ann_In _ _ Ha) as (l & Hl & Hin). destruct (in_ann_In _ _ Ha') as (l' & Hl' & Hin').
  rewrite Hl in Hl'. inversion Hl'; subst l'.
  pose proof (Hall _ Hlt) as H. unfold check_at in H. rewrite Hl in H.
  destruct (nth_error C (fst c)); [|discriminate]. apply andb_prop in H as [_ H].
  eapply agree_core; eassumption.
Qed.
End Act.

(* ================= the summary machine (entry-point analysis) ================= *)
Section Sound.
Variable C : list instr.
Variable A : ann.
Variable entries : list (nat * shape).
Hypothesis Hchk : check_ann C A entries = true.

Lemma step_good b c : good C A None b -> astep C b c -> good C A None c.
Proof.
  intros Hb Hs. inversion Hs as [pc s i ts t Hi He Hin]; subst.
  destruct (good_at C A None entries Hchk pc s i Hb Hi) as (ts' & He' & H).
  rewrite He in He'. inversion He'; subst ts'.
  destruct (ret_of i s); [destruct H; discriminate|]. apply H. assumption.
Qed.

Lemma star_good e c : In e entries -> astar C e c -> good C A None c.
Proof.
  intros He Hst. induction Hst as [c|a b c Hab IH Hbc].
  - eapply entry_good; eassumption.
  - eapply step_good; eauto.
Qed.

Lemma good_not_stuck c : good C A None c -> ~ stuck C c.
Proof.
  intros Hg (i & Hi & He). destruct c as [pc s]. cbn [fst snd] in *.
  destruct (good_at C A None entries Hchk pc s i Hg Hi) as (ts & He' & _). congruence.
Qed.

Lemma good_ends c : good C A None c -> ends C c -> final_ok (snd c) = true.
Proof.
  intros Hg He. destruct c as [pc s]. cbn [fst snd] in *. destruct He as [He|He].
  - destruct Hg as [[Hlt _]|[_ [_ Hf]]]; cbn [fst snd] in *; [lia|assumption].
  - destruct (good_at C A None entries Hchk pc s IReturn Hg He) as (ts & _ & H).
    cbn [ret_of] in H. apply H. reflexivity.
Qed.

Theorem check_ann_sound_proof : balanced C entries.
Proof.
  intros e c He Hst. pose proof (star_good e c He Hst) as Hg.
  split; [apply good_not_stuck; assumption|].
  split; [destruct c; eapply good_inside; eassumption|].
  split; [apply good_ends; assumption|].
  intros e' c' He' Hst' Hpc Hlt. eapply good_unique; eauto. eapply star_good; eauto.
Qed.
End Sound.

(* ================= lifting: an activation on top of its caller ================= *)
Lemma popV_app n : forall k k' extra, popV n k = Some k' -> popV n (k ++ extra) = Some (k' ++ extra).
Proof.
  induction n as [|n IH]; intros k k' extra H; cbn in *.
  - inversion H; reflexivity.
  - destruct k as [|[|] k]; try discriminate. cbn. apply IH; assumption.
Qed.

Lemma has_loop_app f g : has_loop f = true -> has_loop (f ++ g) = true.
Proof. unfold has_loop. rewrite existsb_app. intros ->. reflexivity. Qed.

Definition lift_t (b : shape) (t : nat * shape) : nat * shape := (fst t, lift b (snd t)).
Definition instr_is_loadblocks (i : instr) : bool := match i with ILoadBlocks => true | _ => false end.

(* frames, captures, auto-escape entries and operands of the caller underneath never change
   what an instruction does ... *)
Lemma edges_lift_eq i pc b s ts : i <> ILoadBlocks -> edges i pc s = Some ts ->
  edges i pc (lift b s) = Some (map (lift_t b) ts).
Proof.
  intros Hi. destruct s as [f c a k x], b as [fb cb ab kb xb]. unfold lift, lift_t. cbn [frames caps aes stk ext].
  destruct i; cbn [edges frames caps aes stk ext with_stk with_frames]; intros He.
  - (* IStack *) destruct (popV pops k) as [k'|] eqn:E; [|discriminate]. inversion He; subst.
    rewrite (popV_app _ _ _ kb E). cbn. unfold pushV. rewrite app_assoc. reflexivity.
  - inversion He; subst. reflexivity.
  - destruct (popV n k) as [k'|] eqn:E; [|discriminate]. inversion He; subst.
    rewrite (popV_app _ _ _ kb E). reflexivity.
  - destruct k as [|[|] k]; try discriminate. inversion He; subst. reflexivity.
  - destruct k as [|[|] [|[|] k]]; try discriminate; inversion He; subst; reflexivity.
  - destruct k as [|[|] [|[|] k]]; try discriminate; inversion He; subst; reflexivity.
  - inversion He; subst. reflexivity.
  - destruct f as [|[|] f]; try discriminate. inversion He; subst. reflexivity.
  - destruct k as [|[|] k]; try discriminate. inversion He; subst. reflexivity.
  - (* IPopLoopFrame *)
    destruct f as [|[|[[r cap]|]] f]; try discriminate; cbn [app].
    + destruct (popV ret_pops k) as [k'|] eqn:E; [|discriminate].
      rewrite (popV_app _ _ _ kb E). destruct cap.
      * destruct c as [|c]; [discriminate|]. inversion He; subst. reflexivity.
      * inversion He; subst. reflexivity.
    + inversion He; subst. reflexivity.
  - destruct (has_loop f) eqn:E; [|discriminate]. rewrite (has_loop_app _ fb E). inversion He; subst. reflexivity.
  - destruct (has_loop f) eqn:E; [|discriminate]. rewrite (has_loop_app _ fb E). inversion He; subst. reflexivity.
  - inversion He; subst. reflexivity.
  - destruct k as [|[|] k]; try discriminate. inversion He; subst. reflexivity.
  - destruct k as [|[|] k]; try discriminate. inversion He; subst. reflexivity.
  - destruct k as [|[|] k]; try discriminate. inversion He; subst. reflexivity.
  - destruct a as [|a]; try discriminate. inversion He; subst. reflexivity.
  - inversion He; subst. reflexivity.
  - destruct c as [|c]; try discriminate. inversion He; subst. reflexivity.
  - inversion He; subst. reflexivity.
  - destruct dyn; destruct k as [|[|] k]; try discriminate; inversion He; subst; reflexivity.
  - destruct k as [|[|] k]; try discriminate. inversion He; subst. reflexivity.
  - congruence.
Qed.

(* ... except that a second `extends` fails where a first one goes on: the machine on top of a
   caller has the lifted successors or fewer *)
Lemma edges_lift i pc b s ts : edges i pc s = Some ts ->
  exists ts', edges i pc (lift b s) = Some ts' /\ incl ts' (map (lift_t b) ts).
Proof.
  intros He. destruct (instr_is_loadblocks i) eqn:Hi.
  - destruct i; try discriminate. clear Hi.
    destruct s as [f c a k x], b as [fb cb ab kb xb]. unfold lift, lift_t in *. cbn [edges frames caps aes stk ext] in *.
    destruct k as [|[|] k]; try discriminate. cbn [app]. destruct x; cbn [orb].
    + inversion He; subst. exists []. split; [reflexivity|apply incl_nil_l].
    + inversion He; subst. destruct xb.
      * exists []. split; [reflexivity|apply incl_nil_l].
      * eexists. split; [reflexivity|]. cbn. apply incl_refl.
  - exists (map (lift_t b) ts). split; [|apply incl_refl]. apply edges_lift_eq; [|assumption].
    intros ->. discriminate.
Qed.

Lemma lift_assoc b x e : lift b (lift x e) = lift (lift b x) e.
Proof. unfold lift. cbn [frames caps aes stk ext]. rewrite <- !app_assoc, <- !Nat.add_assoc, <- !orb_assoc. reflexivity. Qed.

(* a defined instruction that is no call has no call argument, also with the caller underneath *)
Lemma call_arg_lift i pc b s ts : edges i pc s = Some ts ->
  call_arg i (lift b s) = match call_arg i s with Some (cap, k) => Some (cap, k ++ stk b) | None => None end.
Proof.
  destruct s as [f c a k x]. unfold call_arg, lift. cbn [frames caps aes stk ext].
  destruct i; try reflexivity; cbn [edges stk].
  - destruct dyn; destruct k as [|[|] k]; try discriminate; reflexivity.
  - destruct k as [|[|] k]; try discriminate; reflexivity.
Qed.

Lemma call_edges_lift C i pc b s ts : edges i pc s = Some ts ->
  call_edges C i pc (lift b s) = map (lift_t b) (call_edges C i pc s).
Proof.
  intros He. unfold call_edges. rewrite (call_arg_lift _ _ b _ _ He).
  destruct (call_arg i s) as [[cap k]|]; [|reflexivity].
  rewrite map_map. apply map_ext. intros p. unfold lift_t. cbn [fst snd]. f_equal.
  rewrite lift_assoc. reflexivity.
Qed.

(* the summary successor of a call: the caller without the argument, plus the call's result *)
Lemma call_summary i pc s cap k : call_arg i s = Some (cap, k) ->
  edges i pc s = Some [(S pc, lift (with_stk s k) (ret_rel cap))].
Proof.
  destruct s as [f c a st x]. unfold call_arg, lift, ret_rel, with_stk. cbn [frames caps aes stk ext].
  destruct i; try discriminate.
  - destruct dyn; destruct st as [|[|] st]; try discriminate; intros H; inversion H; subst; reflexivity.
  - destruct st as [|[|] st]; try discriminate; intros H; inversion H; subst; reflexivity.
Qed.

Lemma sites_from_in C : forall o pc i, nth_error C pc = Some i ->
  forall s cap k, call_arg i s = Some (cap, k) -> In (S (o + pc), cap) (sites_from o C).
Proof.
  induction C as [|j C IH]; intros o pc i Hi s cap k Hc; [destruct pc; discriminate|].
  destruct pc as [|pc].
  - cbn in Hi. inversion Hi; subst j. rewrite Nat.add_0_r.
    unfold call_arg in Hc. destruct i; try discriminate; cbn [sites_from].
    + left. f_equal. destruct dyn; destruct (stk s) as [|[|] ?]; try discriminate; inversion Hc; reflexivity.
    + left. f_equal. destruct (stk s) as [|[|] ?]; try discriminate; inversion Hc; reflexivity.
  - cbn in Hi. specialize (IH (S o) pc i Hi s cap k Hc).
    replace (S (o + S pc)) with (S (S o + pc)) by lia.
    destruct j; cbn [sites_from]; try assumption; right; assumption.
Qed.

Lemma combine_In_l {X Y} (l : list X) : forall (l' : list Y) x, length l' = length l -> In x l ->
  exists y, In (x, y) (combine l l').
Proof.
  induction l as [|a l IH]; intros l' x Hl Hin; [destruct Hin|].
  destruct l' as [|b l']; [discriminate|]. cbn in Hl. destruct Hin as [<-|Hin].
  - exists b. left. reflexivity.
  - destruct (IH l' x ltac:(lia) Hin) as [y Hy]. exists y. right. assumption.
Qed.

(* ================= the real machine ================= *)
Section Rec.
Variable C : list instr.
Variable Am : ann.
Variable Ar : list ann.
Variable entries : list (nat * shape).
Hypothesis Hchk : check_rec C Am Ar entries = true.

Lemma Hmain : check_act C Am None entries = true.
Proof. unfold check_rec in Hchk. apply andb_prop in Hchk as [H _]. apply andb_prop in H as [H _]. exact H. Qed.
Lemma Hnum : length Ar = length (regions C).
Proof. unfold check_rec in Hchk. apply andb_prop in Hchk as [H _]. apply andb_prop in H as [_ H]. now apply Nat.eqb_eq in H. Qed.
Lemma Hreg : forall p rc A, In ((p, rc), A) (combine (regions C) Ar) ->
  check_act C A (Some rc) [(S p, reg_entry (fst rc) (snd rc))] = true.
Proof.
  unfold check_rec in Hchk. apply andb_prop in Hchk as [_ H]. rewrite forallb_forall in H.
  intros p rc A Hin. exact (H _ Hin).
Qed.

(* A reachable configuration is a stack of activations: the entry point's, or a recursive
   loop's activation [rel] on top of a base such that returning into the base is again fine. *)
Inductive inv : nat * shape -> Prop :=
| inv_main c : good C Am None c -> inv c
| inv_reg p rc A pc rel base :
    In ((p, rc), A) (combine (regions C) Ar) ->
    good C A (Some rc) (pc, rel) ->
    inv (fst rc, lift base (ret_rel (snd rc))) ->
    inv (pc, lift base rel).

(* entering a recursive loop from a call site whose summary successor is fine *)
Lemma inv_call i pc s cap k p base :
  nth_error C pc = Some i -> call_arg i s = Some (cap, k) -> In p (rec_targets C) ->
  inv (S pc, lift base (lift (with_stk s k) (ret_rel cap))) ->
  inv (S p, lift base (lift (with_stk s k) (reg_entry (S pc) cap))).
Proof.
  intros Hi Hc Hp Hret.
  assert (Hs : In (S pc, cap) (call_sites C)) by (apply (sites_from_in C 0 pc i Hi s cap k Hc)).
  assert (Hr : In (p, (S pc, cap)) (regions C)) by (apply in_prod; assumption).
  destruct (combine_In_l (regions C) Ar _ Hnum Hr) as [A HA].
  rewrite lift_assoc. eapply (inv_reg p (S pc, cap) A); [exact HA| |].
  - eapply entry_good; [apply (Hreg _ _ _ HA)|left; reflexivity].
  - cbn [fst snd]. rewrite <- lift_assoc. exact Hret.
Qed.

Lemma lift_shape0 s : lift shape0 s = s.
Proof. destruct s. unfold lift, shape0. cbn. rewrite !app_nil_r, !Nat.add_0_r, orb_false_r. reflexivity. Qed.

Lemma step_inv c c' : inv c -> rstep C c c' -> inv c'.
Proof.
  intros Hinv. revert c'. induction Hinv as [c Hg|p rc A pc rel base HA Hg Hret IH]; intros c' Hs.
  - (* entry-point activation *)
    inversion Hs as [pc s i ts t Hi He Hin]; subst.
    destruct (good_at C Am None entries Hmain pc s i Hg Hi) as (ts' & He' & H).
    rewrite He in He'. inversion He'; subst ts'.
    destruct (ret_of i s); [destruct H; discriminate|]. destruct H as [Hts _].
    apply in_app_or in Hin as [Hin|Hin].
    + apply inv_main. apply Hts. assumption.
    + unfold call_edges in Hin. destruct (call_arg i s) as [[cap k]|] eqn:Hc; [|destruct Hin].
      apply in_map_iff in Hin as (q & <- & Hq).
      rewrite <- (lift_shape0 (lift (with_stk s k) (reg_entry (S pc) cap))).
      eapply inv_call; eauto. rewrite lift_shape0. apply inv_main. apply Hts.
      rewrite (call_summary i pc s cap k Hc) in He. inversion He. left. reflexivity.
  - (* activation of a recursive loop on top of [base] *)
    inversion Hs as [pc0 s i ts t Hi He Hin]; subst.
    destruct (good_at C A (Some rc) _ (Hreg _ _ _ HA) pc rel i Hg Hi) as (ts0 & He0 & H).
    destruct (edges_lift _ _ base _ _ He0) as (ts' & He' & Hsub). rewrite He' in He. inversion He; subst ts.
    rewrite (call_edges_lift C _ _ base _ _ He0) in Hin.
    apply in_app_or in Hin as [Hin|Hin].
    + apply Hsub in Hin. apply in_map_iff in Hin as ([pc1 s1] & <- & Hin). unfold lift_t. cbn [fst snd].
      destruct (ret_of i rel) as [rc'|].
      * destruct H as [Hm ->]. inversion Hm; subst rc'. destruct Hin as [Hin|[]]. inversion Hin; subst. exact Hret.
      * destruct H as [Hts _]. eapply inv_reg; [exact HA| |exact Hret]. apply Hts. assumption.
    + apply in_map_iff in Hin as ([pc1 s1] & <- & Hin). unfold lift_t. cbn [fst snd].
      unfold call_edges in Hin. destruct (call_arg i rel) as [[cap k]|] eqn:Hc; [|destruct Hin].
      apply in_map_iff in Hin as (q & Hq1 & Hq). inversion Hq1; subst pc1 s1.
      eapply inv_call; eauto.
      pose proof (call_summary i pc rel cap k Hc) as Hsum. rewrite He0 in Hsum. inversion Hsum; subst ts0.
      assert (Hr : ret_of i rel = None).
      { unfold ret_of. destruct i; try reflexivity. discriminate Hc. }
      rewrite Hr in H. destruct H as [Hts _].
      eapply inv_reg; [exact HA| |exact Hret]. apply Hts. left. reflexivity.
Qed.

Lemma rstar_inv e c : In e entries -> rstar C e c -> inv c.
Proof.
  intros He Hst. induction Hst as [c|a b c Hab IH Hbc].
  - apply inv_main. eapply entry_good; [exact Hmain|assumption].
  - eapply step_inv; eauto.
Qed.

Lemma inv_not_stuck c : inv c -> ~ stuck C c.
Proof.
  intros Hinv (i & Hi & He). destruct Hinv as [[pc s] Hg|p rc A pc rel base HA Hg Hret]; cbn [fst snd] in *.
  - destruct (good_at C Am None entries Hmain pc s i Hg Hi) as (ts & He' & _). congruence.
  - destruct (good_at C A (Some rc) _ (Hreg _ _ _ HA) pc rel i Hg Hi) as (ts & He' & _).
    destruct (edges_lift _ _ base _ _ He') as (ts' & He2 & _). congruence.
Qed.

Lemma inv_inside c : inv c -> fst c <= length C.
Proof.
  intros [[pc s] Hg|p rc A pc rel base HA Hg Hret]; cbn [fst].
  - eapply good_inside; [exact Hmain|eassumption].
  - eapply good_inside; [exact (Hreg _ _ _ HA)|eassumption].
Qed.

Lemma inv_ends c : inv c -> ends C c -> final_ok (snd c) = true.
Proof.
  intros Hinv He. destruct Hinv as [[pc s] Hg|p rc A pc rel base HA Hg Hret]; cbn [fst snd] in *.
  - destruct He as [He|He].
    + destruct Hg as [[Hlt _]|[_ [_ Hf]]]; cbn [fst snd] in *; [lia|assumption].
    + destruct (good_at C Am None entries Hmain pc s IReturn Hg He) as (ts & _ & H). cbn [ret_of] in H. apply H. reflexivity.
  - exfalso. destruct He as [He|He].
    + destruct Hg as [[Hlt _]|[Hm _]]; cbn [fst snd] in *; [lia|discriminate].
    + destruct (good_at C A (Some rc) _ (Hreg _ _ _ HA) pc rel IReturn Hg He) as (ts & _ & H). cbn [ret_of] in H.
      destruct H as [_ H]. destruct (H eq_refl) as [Hm _]. discriminate.
Qed.

Theorem check_rec_sound_proof : rbalanced C entries.
Proof.
  intros e c He Hst. pose proof (rstar_inv e c He Hst) as Hi.
  split; [apply inv_not_stuck; assumption|].
  split; [apply inv_inside; assumption|apply inv_ends; assumption].
Qed.
End Rec.

(* ================= a recursion call gives back exactly what its site expects ================= *)
Definition bottom_is (X : fk) (s : shape) : Prop := exists fr, frames s = fr ++ [X].

Lemma bottom_cons (X Y : fk) (f : list fk) : (exists fr, f = fr ++ [X]) -> exists fr, Y :: f = fr ++ [X].
Proof. intros [fr ->]. exists (Y :: fr). reflexivity. Qed.

Lemma bottom_tail (X Y : fk) (f : list fk) : Y <> X -> (exists fr, Y :: f = fr ++ [X]) -> exists fr, f = fr ++ [X].
Proof.
  intros Hne [fr H]. destruct fr as [|a fr]; cbn in H.
  - inversion H. congruence.
  - inversion H. eauto.
Qed.

(* no instruction but the return touches the frame an activation was entered with *)
Lemma edges_bottom i pc s ts rc : edges i pc s = Some ts -> ret_of i s = None ->
  bottom_is (FLoop (Some rc)) s -> forall t, In t ts -> bottom_is (FLoop (Some rc)) (snd t).
Proof.
  unfold bottom_is. destruct s as [f c a k x]. cbn [frames].
  intros He Hr Hb t Ht.
  destruct i; cbn [edges frames caps aes stk ext with_stk with_frames] in He.
  - destruct (popV pops k); [|discriminate]. inversion He; subst. destruct Ht as [<-|[]]. exact Hb.
  - inversion He; subst. destruct Ht as [<-|[]]. exact Hb.
  - destruct (popV n k); [|discriminate]. inversion He; subst. destruct Ht as [<-|[]]. exact Hb.
  - destruct k as [|[|] k]; try discriminate. inversion He; subst. destruct Ht as [<-|[]]. exact Hb.
  - destruct k as [|[|] [|[|] k]]; try discriminate; inversion He; subst; destruct Ht as [<-|[]]; exact Hb.
  - destruct k as [|[|] [|[|] k]]; try discriminate; inversion He; subst; destruct Ht as [<-|[]]; exact Hb.
  - inversion He; subst. destruct Ht as [<-|[]]. cbn [snd frames]. apply bottom_cons. exact Hb.
  - destruct f as [|[|] f]; try discriminate. inversion He; subst. destruct Ht as [<-|[]]. cbn [snd frames].
    eapply bottom_tail; [|exact Hb]. discriminate.
  - destruct k as [|[|] k]; try discriminate. inversion He; subst. destruct Ht as [<-|[]]. cbn [snd frames]. apply bottom_cons. exact Hb.
  - destruct f as [|[|[rc'|]] f]; try discriminate.   (* the returning frame: excluded by Hr *)
    inversion He; subst. destruct Ht as [<-|[]]. cbn [snd frames]. eapply bottom_tail; [|exact Hb]. discriminate.
  - destruct (has_loop f); [|discriminate]. inversion He; subst. destruct Ht as [<-|[<-|[]]]; exact Hb.
  - destruct (has_loop f); [|discriminate]. inversion He; subst. destruct Ht as [<-|[]]. exact Hb.
  - inversion He; subst. destruct Ht as [<-|[]]. exact Hb.
  - destruct k as [|[|] k]; try discriminate. inversion He; subst. destruct Ht as [<-|[<-|[]]]; exact Hb.
  - destruct k as [|[|] k]; try discriminate. inversion He; subst. destruct Ht as [<-|[<-|[]]]; exact Hb.
  - destruct k as [|[|] k]; try discriminate. inversion He; subst. destruct Ht as [<-|[]]. exact Hb.
  - destruct a as [|a]; try discriminate. inversion He; subst. destruct Ht as [<-|[]]. exact Hb.
  - inversion He; subst. destruct Ht as [<-|[]]. exact Hb.
  - destruct c as [|c]; try discriminate. inversion He; subst. destruct Ht as [<-|[]]. exact Hb.
  - inversion He; subst. destruct Ht.
  - destruct dyn; destruct k as [|[|] k]; try discriminate; inversion He; subst; destruct Ht as [<-|[]]; exact Hb.
  - destruct k as [|[|] k]; try discriminate. inversion He; subst. destruct Ht as [<-|[]]. exact Hb.
  - destruct k as [|[|] k]; try discriminate. destruct x; inversion He; subst; [destruct Ht|]. destruct Ht as [<-|[]]. exact Hb.
Qed.

Section Restore.
Variable C : list instr.
Variable Am : ann.
Variable Ar : list ann.
Variable entries : list (nat * shape).
Hypothesis Hchk : check_rec C Am Ar entries = true.

(* configurations inside the evaluation of ONE call: the activation it started on top of [B]
   (which returns to r), or activations nested in it *)
Inductive inside (B : shape) (r : nat) (cap : bool) : nat * shape -> Prop :=
| in_top p A pc rel :
    In ((p, (r, cap)), A) (combine (regions C) Ar) ->
    good C A (Some (r, cap)) (pc, rel) -> bottom_is (FLoop (Some (r, cap))) rel ->
    inside B r cap (pc, lift B rel)
| in_nested p rc A pc rel base :
    In ((p, rc), A) (combine (regions C) Ar) ->
    good C A (Some rc) (pc, rel) -> bottom_is (FLoop (Some rc)) rel ->
    inside B r cap (fst rc, lift base (ret_rel (snd rc))) ->
    inside B r cap (pc, lift base rel).

Lemma inside_deeper B r cap c : inside B r cap c -> length (frames B) < length (frames (snd c)).
Proof.
  induction 1 as [p A pc rel HA Hg [fr Hb]|p rc A pc rel base HA Hg [fr Hb] Hin IH]; cbn [snd lift frames] in *.
  - rewrite Hb, !app_length. cbn. lia.
  - rewrite Hb, !app_length. cbn in *. lia.
Qed.

Lemma reg_entry_bottom r cap : bottom_is (FLoop (Some (r, cap))) (reg_entry r cap).
Proof. exists []. reflexivity. Qed.

(* a nested call from inside *)
Lemma inside_call B r cap i pc s cp k p base :
  nth_error C pc = Some i -> call_arg i s = Some (cp, k) -> In p (rec_targets C) ->
  inside B r cap (S pc, lift base (lift (with_stk s k) (ret_rel cp))) ->
  inside B r cap (S p, lift base (lift (with_stk s k) (reg_entry (S pc) cp))).
Proof.
  intros Hi Hc Hp Hret.
  assert (Hs : In (S pc, cp) (call_sites C)) by (apply (sites_from_in C 0 pc i Hi s cp k Hc)).
  assert (Hr : In (p, (S pc, cp)) (regions C)) by (apply in_prod; assumption).
  destruct (combine_In_l (regions C) Ar _ (Hnum C Am Ar entries Hchk) Hr) as [A HA].
  rewrite lift_assoc. eapply (in_nested B r cap p (S pc, cp) A); [exact HA| | |].
  - eapply entry_good; [apply (Hreg C Am Ar entries Hchk _ _ _ HA)|left; reflexivity].
  - apply reg_entry_bottom.
  - cbn [fst snd]. rewrite <- lift_assoc. exact Hret.
Qed.

(* one step from inside: still inside, or the call has returned - to its site, with the caller's
   frames, captures, auto-escape entries and operands, plus the call's value *)
Lemma inside_step B r cap c c' : inside B r cap c -> rstep C c c' ->
  inside B r cap c' \/ c' = (r, lift B (ret_rel cap)).
Proof.
  intros Hin. revert c'. induction Hin as [p A pc rel HA Hg Hb|p rc A pc rel base HA Hg Hb Hret IH]; intros c' Hs.
  - inversion Hs as [pc0 s i ts t Hi He Ht]; subst.
    destruct (good_at C A (Some (r, cap)) _ (Hreg C Am Ar entries Hchk _ _ _ HA) pc rel i Hg Hi) as (ts0 & He0 & H).
    destruct (edges_lift _ _ B _ _ He0) as (ts' & He' & Hsub). rewrite He' in He. inversion He; subst ts.
    rewrite (call_edges_lift C _ _ B _ _ He0) in Ht.
    apply in_app_or in Ht as [Ht|Ht].
    + apply Hsub in Ht. apply in_map_iff in Ht as ([pc1 s1] & <- & Ht). unfold lift_t. cbn [fst snd].
      destruct (ret_of i rel) as [rc'|] eqn:Er.
      * destruct H as [Hm ->]. inversion Hm; subst rc'. destruct Ht as [Ht|[]]. inversion Ht; subst. right. reflexivity.
      * destruct H as [Hts _]. left. eapply in_top; [exact HA|apply Hts; assumption|].
        exact (edges_bottom _ _ _ _ _ He0 Er Hb _ Ht).
    + apply in_map_iff in Ht as ([pc1 s1] & <- & Ht). unfold lift_t. cbn [fst snd].
      unfold call_edges in Ht. destruct (call_arg i rel) as [[cp k]|] eqn:Hc; [|destruct Ht].
      apply in_map_iff in Ht as (q & Hq1 & Hq). inversion Hq1; subst pc1 s1.
      left. eapply inside_call; eauto.
      pose proof (call_summary i pc rel cp k Hc) as Hsum. rewrite He0 in Hsum. inversion Hsum; subst ts0.
      assert (Hr : ret_of i rel = None).
      { unfold ret_of. destruct i; try reflexivity. discriminate Hc. }
      rewrite Hr in H. destruct H as [Hts _].
      eapply in_top; [exact HA|apply Hts; left; reflexivity|].
      exact (edges_bottom _ _ _ _ _ He0 Hr Hb _ (or_introl eq_refl)).
  - inversion Hs as [pc0 s i ts t Hi He Ht]; subst.
    destruct (good_at C A (Some rc) _ (Hreg C Am Ar entries Hchk _ _ _ HA) pc rel i Hg Hi) as (ts0 & He0 & H).
    destruct (edges_lift _ _ base _ _ He0) as (ts' & He' & Hsub). rewrite He' in He. inversion He; subst ts.
    rewrite (call_edges_lift C _ _ base _ _ He0) in Ht.
    apply in_app_or in Ht as [Ht|Ht].
    + apply Hsub in Ht. apply in_map_iff in Ht as ([pc1 s1] & <- & Ht). unfold lift_t. cbn [fst snd].
      destruct (ret_of i rel) as [rc'|] eqn:Er.
      * destruct H as [Hm ->]. inversion Hm; subst rc'. destruct Ht as [Ht|[]]. inversion Ht; subst. left. exact Hret.
      * destruct H as [Hts _]. left. eapply in_nested; [exact HA|apply Hts; assumption| |exact Hret].
        exact (edges_bottom _ _ _ _ _ He0 Er Hb _ Ht).
    + apply in_map_iff in Ht as ([pc1 s1] & <- & Ht). unfold lift_t. cbn [fst snd].
      unfold call_edges in Ht. destruct (call_arg i rel) as [[cp k]|] eqn:Hc; [|destruct Ht].
      apply in_map_iff in Ht as (q & Hq1 & Hq). inversion Hq1; subst pc1 s1.
      left. eapply inside_call; eauto.
      pose proof (call_summary i pc rel cp k Hc) as Hsum. rewrite He0 in Hsum. inversion Hsum; subst ts0.
      assert (Hr : ret_of i rel = None).
      { unfold ret_of. destruct i; try reflexivity. discriminate Hc. }
      rewrite Hr in H. destruct H as [Hts _].
      eapply in_nested; [exact HA|apply Hts; left; reflexivity| |exact Hret].
      exact (edges_bottom _ _ _ _ _ He0 Hr Hb _ (or_introl eq_refl)).
Qed.

Lemma above_inside B r cap a c : inside B r cap a -> rstar_above C (length (frames B)) a c -> inside B r cap c.
Proof.
  intros Ha Hst. induction Hst as [c Hc|a b c Hab IH Hbc Hc].
  - assumption.
  - destruct (inside_step B r cap b c (IH Ha) Hbc) as [H|H]; [assumption|].
    subst c. cbn [snd lift frames ret_rel app] in Hc. lia.
Qed.

Theorem rec_call_restores_proof pc s i cap k p u d :
  nth_error C pc = Some i -> call_arg i s = Some (cap, k) -> In p (rec_targets C) ->
  rstar_above C (length (frames s)) (S p, lift (with_stk s k) (reg_entry (S pc) cap)) u ->
  rstep C u d -> length (frames (snd d)) <= length (frames s) ->
  d = (S pc, lift (with_stk s k) (ret_rel cap)).
Proof.
  intros Hi Hc Hp Hst Hstep Hlen.
  assert (Hs : In (S pc, cap) (call_sites C)) by (apply (sites_from_in C 0 pc i Hi s cap k Hc)).
  assert (Hr : In (p, (S pc, cap)) (regions C)) by (apply in_prod; assumption).
  destruct (combine_In_l (regions C) Ar _ (Hnum C Am Ar entries Hchk) Hr) as [A HA].
  assert (H0 : inside (with_stk s k) (S pc) cap (S p, lift (with_stk s k) (reg_entry (S pc) cap))).
  { eapply in_top; [exact HA| |apply reg_entry_bottom].
    eapply entry_good; [apply (Hreg C Am Ar entries Hchk _ _ _ HA)|left; reflexivity]. }
  assert (Hu : inside (with_stk s k) (S pc) cap u) by (eapply above_inside; [exact H0|exact Hst]).
  destruct (inside_step _ _ _ _ _ Hu Hstep) as [H|H]; [|exact H].
  apply inside_deeper in H. cbn [with_stk frames] in H. lia.
Qed.
End Restore.
