(* Executable entry points of the C05 checker in the integer-list protocol.
   input:  nentries (pc nargs)*  ninstr (tag a b)*        output: [1] accepted | [0; pc] rejected at pc *)
From Coq Require Import String.
From MJ Require Import Common.Base C05.Model.

Definition dec_instr (tag a b : Z) : instr :=
  let n := Z.to_nat a in
  match tag with
  | 0 => IStack n (Z.to_nat b)
  | 1 => IConstB
  | 2 => IMkB n
  | 3 => IPopB
  | 4 => ISwap
  | 5 => IBin
  | 6 => IPushWith
  | 7 => IPopFrame
  | 8 => IPushLoop
  | 9 => IPopLoopFrame
  | 10 => IIterate n
  | 11 => IDidNotIterate
  | 12 => IJump n
  | 13 => IJumpIfFalse n
  | 14 => IJumpOrPop n
  | 15 => IPushAE
  | 16 => IPopAE
  | 17 => IBeginCapture
  | 18 => IEndCapture
  | _ => IReturn
  end.

Fixpoint dec_entries (n : nat) (l : list Z) : list (nat * shape) * list Z :=
  match n, l with
  | S n, pc :: nargs :: r => let '(es, rest) := dec_entries n r in ((Z.to_nat pc, entry_shape (Z.to_nat nargs)) :: es, rest)
  | _, _ => ([], l)
  end.

Fixpoint dec_instrs (fuel : nat) (l : list Z) : list instr :=
  match fuel, l with
  | S f, tag :: a :: b :: r => dec_instr tag a b :: dec_instrs f r
  | _, _ => []
  end.

Definition run (inp : list Z) : list Z :=
  match inp with
  | ne :: r =>
      let '(entries, r2) := dec_entries (Z.to_nat ne) r in
      match r2 with
      | ni :: r3 =>
          let C := dec_instrs (Z.to_nat ni) r3 in
          match verdict C entries with
          | None => [1]
          | Some pc => [0; Z.of_nat pc]
          end
      | [] => [9]
      end
  | [] => [9]
  end.

(* the inferred annotation, for comparison with dynamic observations:
   per pc: reachable?, #frames, captures, auto-escapes, operand slots *)
Definition ann_of (inp : list Z) : list Z :=
  match inp with
  | ne :: r =>
      let '(entries, r2) := dec_entries (Z.to_nat ne) r in
      match r2 with
      | ni :: r3 =>
          let C := dec_instrs (Z.to_nat ni) r3 in
          flat_map (fun o => match o with
                             | None => [0; 0; 0; 0; 0]
                             | Some s => [1; Z.of_nat (length (frames s)); Z.of_nat (caps s); Z.of_nat (aes s); Z.of_nat (length (stk s))]
                             end) (annotate C entries)
      | [] => [9]
      end
  | [] => [9]
  end.

Open Scope string_scope.
Definition runners : list (string * (list Z -> list Z)) := [ ("c05", run); ("c05-ann", ann_of) ].
