(* Executable entry points of the C05 checker in the integer-list protocol.
   stream :=  nentries (pc nargs)*  ninstr (tag a b)*
   c05        stream                       -> [1] accepted | [0; k; pc; p; r; cap] rejected: analysis k at pc
                                              (k = 0: entry points; k > 0: activation of the recursive loop whose PushLoop is
                                               at p, called from the site before r, capturing iff cap = 1)
   c05-main   stream                       -> [1] | [0; pc]       entry-point analysis only (calls summarised)
   c05-ann    stream                       -> per pc: #shapes, and of the first: #frames, captures, auto-escapes, operand slots
   c05-stats  stream                       -> [#recursive loops; #call sites; #region analyses]
   c05-trace  stream  ntraces trace..  with trace := nobs (pc stk frames caps aes)..   -> [1; observations] | [0; trace; index; reason; pc; observed pc] (C05/Trace.v)
   c05-rec    template of the recursive-loop family + trees   -> expected output / expected failure (C05/RecLoop.v) *)
From Coq Require Import String.
From MJ Require Import Common.Base C05.Model C05.Trace C05.RecLoop.

Definition dec_instr (tag a b : Z) : instr :=
  let n := Z.to_nat a in
  match tag with
  | 0 => IStack n (Z.to_nat b)
  | 1 => IConstB
  | 2 => IMkB n
  | 3 => IPopB
  | 4 => ISwap
  | 5 => IBin
  | 6 => IPushWith
  | 7 => IPopFrame
  | 8 => IPushLoop (negb (Z.eqb a 0))
  | 9 => IPopLoopFrame n
  | 10 => IIterate n
  | 11 => IDidNotIterate
  | 12 => IJump n
  | 13 => IJumpIfFalse n
  | 14 => IJumpOrPop n
  | 15 => IPushAE
  | 16 => IPopAE
  | 17 => IBeginCapture
  | 18 => IEndCapture
  | 20 => ICall (negb (Z.eqb a 0))
  | 21 => IRecurse
  | 22 => ILoadBlocks
  | _ => IReturn
  end.

Fixpoint dec_entries (n : nat) (l : list Z) : list (nat * shape) * list Z :=
  match n, l with
  | S n, pc :: nargs :: r => let '(es, rest) := dec_entries n r in ((Z.to_nat pc, entry_shape (Z.to_nat nargs)) :: es, rest)
  | _, _ => ([], l)
  end.

Fixpoint dec_instrs (fuel : nat) (l : list Z) : list instr * list Z :=
  match fuel, l with
  | S f, tag :: a :: b :: r => let '(is, rest) := dec_instrs f r in (dec_instr tag a b :: is, rest)
  | _, _ => ([], l)
  end.

(* -> entries, instructions, rest of the input *)
Definition dec_stream (inp : list Z) : option (list (nat * shape) * list instr * list Z) :=
  match inp with
  | ne :: r =>
      let '(entries, r2) := dec_entries (Z.to_nat ne) r in
      match r2 with
      | ni :: r3 => let '(C, rest) := dec_instrs (Z.to_nat ni) r3 in Some (entries, C, rest)
      | [] => None
      end
  | [] => None
  end.

Definition Zb (b : bool) : Z := if b then 1 else 0.

Definition run (inp : list Z) : list Z :=
  match dec_stream inp with
  | Some (entries, C, _) =>
      match verdict_rec C entries with
      | None => [1]
      | Some (k, pc) =>
          match k with
          | O => [0; 0; Z.of_nat pc; 0; 0; 0]
          | S j => match nth_error (regions C) j with
                   | Some (p, (r, cap)) => [0; Z.of_nat k; Z.of_nat pc; Z.of_nat p; Z.of_nat r; Zb cap]
                   | None => [0; Z.of_nat k; Z.of_nat pc; 0; 0; 0]
                   end
          end
      end
  | None => [9]
  end.

Definition run_main (inp : list Z) : list Z :=
  match dec_stream inp with
  | Some (entries, C, _) => match verdict C entries with None => [1] | Some pc => [0; Z.of_nat pc] end
  | None => [9]
  end.

(* the inferred annotation of the entry-point analysis: per pc the number of shapes and the first one *)
Definition ann_of (inp : list Z) : list Z :=
  match dec_stream inp with
  | Some (entries, C, _) =>
      flat_map (fun o => match o with
                         | [] => [0; 0; 0; 0; 0]
                         | s :: r => [Z.of_nat (S (length r)); Z.of_nat (length (frames s)); Z.of_nat (caps s); Z.of_nat (aes s); Z.of_nat (length (stk s))]
                         end) (annotate C entries)
  | None => [9]
  end.

Definition stats (inp : list Z) : list Z :=
  match dec_stream inp with
  | Some (_, C, _) => [Z.of_nat (length (rec_targets C)); Z.of_nat (length (call_sites C)); Z.of_nat (length (regions C))]
  | None => [9]
  end.

Fixpoint dec_obs (n : nat) (l : list Z) : list obs * list Z :=
  match n, l with
  | S n, pc :: k :: f :: c :: a :: r =>
      let '(os, rest) := dec_obs n r in (mkObs (Z.to_nat pc) (Z.to_nat k) (Z.to_nat f) (Z.to_nat c) (Z.to_nat a) :: os, rest)
  | _, _ => ([], l)
  end.

(* all activations that ran on one stream during one render: the first that does not replay is reported *)
Fixpoint traces (fuel : nat) (C : list instr) (entries : list (nat * shape)) (k : Z) (total : Z) (l : list Z) : list Z :=
  match fuel, l with
  | S f, n :: r =>
      let '(os, rest) := dec_obs (Z.to_nat n) r in
      match replay_act C entries os with
      | 1 :: _ => traces f C entries (k + 1) (total + n) rest
      | bad => 0 :: k :: tl bad
      end
  | _, _ => [1; total]
  end.

Definition trace (inp : list Z) : list Z :=
  match dec_stream inp with
  | Some (entries, C, n :: rest) => traces (Z.to_nat n) C entries 0 0 rest
  | _ => [9]
  end.

Open Scope string_scope.
Definition runners : list (string * (list Z -> list Z)) :=
  [ ("c05", run); ("c05-main", run_main); ("c05-ann", ann_of); ("c05-stats", stats); ("c05-trace", trace); ("c05-rec", run_rec) ].
