(* C05 specification: what "every path is balanced" means for an instruction stream. *)
From MJ Require Import Common.Base C05.Model.
Local Open Scope nat_scope.

(* ---- the summary machine: one activation, calls taken as one step ---- *)

(* one abstract step along ANY successor edge (both branch directions, loop exit and back
   edge, break/continue jumps) *)
Inductive astep (C : list instr) : nat * shape -> nat * shape -> Prop :=
| astep_intro pc s i ts t :
    nth_error C pc = Some i -> edges i pc s = Some ts -> In t ts -> astep C (pc, s) t.

Inductive astar (C : list instr) : nat * shape -> nat * shape -> Prop :=
| astar_refl c : astar C c c
| astar_step a b c : astar C a b -> astep C b c -> astar C a c.

(* the instruction at the current pc would discard a frame, capture, auto-escape entry or
   operand that is not there / not of the kind the construct pushed *)
Definition stuck (C : list instr) (c : nat * shape) : Prop :=
  exists i, nth_error C (fst c) = Some i /\ edges i (fst c) (snd c) = None.

(* the activation ends here: end of the stream, or a Return *)
Definition ends (C : list instr) (c : nat * shape) : Prop :=
  fst c = length C \/ nth_error C (fst c) = Some IReturn.

(* The property for one stream and its entry points, calls summarised: from every entry, along
   every path, nothing is discarded that the path did not create, the pc stays inside the
   stream, every end is reached with scope, capture and auto-escape depth as at entry and an
   empty operand stack, and the shape at a program point does not depend on the path taken (so
   text after a construct is written to the same target whatever happened inside it) - up to
   [core]: whether a conditional `extends` has silenced the output. *)
Definition balanced (C : list instr) (entries : list (nat * shape)) : Prop :=
  forall e c, In e entries -> astar C e c ->
    ~ stuck C c /\ fst c <= length C /\ (ends C c -> final_ok (snd c) = true) /\
    (forall e' c', In e' entries -> astar C e' c' -> fst c' = fst c -> fst c < length C ->
       core (snd c') = core (snd c)).

(* ---- the real machine: recursion calls enter the loop, PopLoopFrame returns ---- *)

(* A configuration is a pc and the ABSOLUTE shape of the evaluation: all frames, captures,
   auto-escape entries and operands the activation of eval_impl holds, those of every pending
   recursion call included.  A call instruction has its summary successor (the callee was an
   ordinary function) and, for every recursive loop of the stream, the successor "inside that
   loop, one loop frame deeper, which remembers the return pc and whether to end a capture".
   Returning is a local edge of [edges] (IPopLoopFrame on such a frame).  There is no bound on
   the recursion depth. *)
Inductive rstep (C : list instr) : nat * shape -> nat * shape -> Prop :=
| rstep_intro pc s i ts t :
    nth_error C pc = Some i -> edges i pc s = Some ts -> In t (ts ++ call_edges C i pc s) ->
    rstep C (pc, s) t.

Inductive rstar (C : list instr) : nat * shape -> nat * shape -> Prop :=
| rstar_refl c : rstar C c c
| rstar_step a b c : rstar C a b -> rstep C b c -> rstar C a c.

(* from every entry, along every path of the real machine: never stuck, inside the stream, and
   every end of the evaluation is reached with no frame, capture, auto-escape entry or operand
   left - in particular with no recursion call pending *)
Definition rbalanced (C : list instr) (entries : list (nat * shape)) : Prop :=
  forall e c, In e entries -> rstar C e c ->
    ~ stuck C c /\ fst c <= length C /\ (ends C c -> final_ok (snd c) = true).

(* A recursion call gives back exactly what the call site expects.  [above n] = the frames of
   the caller are untouched below the callee's.  If the real machine takes a call edge from
   [c] and later comes back to the caller's frame depth for the first time at [d], then [d] is
   the summary successor of the call: pc after the call site, the caller's frames, captures and
   auto-escape entries as they were, the argument replaced by the result. *)
Inductive rstar_above (C : list instr) (n : nat) : nat * shape -> nat * shape -> Prop :=
| ra_refl c : n < length (frames (snd c)) -> rstar_above C n c c
| ra_step a b c : rstar_above C n a b -> rstep C b c -> n < length (frames (snd c)) -> rstar_above C n a c.
