(* C05 specification: what "every path is balanced" means for an instruction stream. *)
From MJ Require Import Common.Base C05.Model.
Local Open Scope nat_scope.

(* one abstract step along ANY successor edge (both branch directions, loop exit and back
   edge, break/continue jumps) *)
Inductive astep (C : list instr) : nat * shape -> nat * shape -> Prop :=
| astep_intro pc s i ts t :
    nth_error C pc = Some i -> edges i pc s = Some ts -> In t ts -> astep C (pc, s) t.

Inductive astar (C : list instr) : nat * shape -> nat * shape -> Prop :=
| astar_refl c : astar C c c
| astar_step a b c : astar C a b -> astep C b c -> astar C a c.

(* the instruction at the current pc would discard a frame, capture, auto-escape entry or
   operand that is not there / not of the kind the construct pushed *)
Definition stuck (C : list instr) (c : nat * shape) : Prop :=
  exists i, nth_error C (fst c) = Some i /\ edges i (fst c) (snd c) = None.

(* the activation ends here: end of the stream, or a Return *)
Definition ends (C : list instr) (c : nat * shape) : Prop :=
  fst c = length C \/ nth_error C (fst c) = Some IReturn.

(* what a program point can observe of a shape: scope, capture depth, auto-escape depth *)
Definition scope_of (s : shape) : list fk * nat * nat := (frames s, caps s, aes s).

(* The property for one stream and its entry points: from every entry, along every path,
   nothing is discarded that the path did not create, the pc stays inside the stream, every
   end is reached with scope, capture and auto-escape depth as at entry, and the scope /
   capture / auto-escape state at a program point does not depend on the path taken (so
   text after a construct is written to the same target whatever happened inside it). *)
Definition balanced (C : list instr) (entries : list (nat * shape)) : Prop :=
  forall e c, In e entries -> astar C e c ->
    ~ stuck C c /\ fst c <= length C /\ (ends C c -> final_ok (snd c) = true) /\
    (forall e' c', In e' entries -> astar C e' c' -> fst c' = fst c -> fst c < length C ->
       scope_of (snd c') = scope_of (snd c)).
