(* C05: replay of an OBSERVED run of vm/mod.rs::eval_impl through the abstract machine.

   The observer (feature verif_hooks, __verif::set_shape_observer) reports, before every
   instruction of one activation of eval_impl: pc, operand stack length, context frame depth,
   output capture depth, length of the auto-escape stack.  [replay] walks the real machine of
   C05/Spec.v (rstep = edges + call_edges) along the observed pcs and demands at every step
   that (1) the observed next pc is a successor of the abstract machine, and (2) the observed
   depths, relative to the activation's first observation, are those of the abstract shape.
   No proofs here: this is the executable tie between Model.v and the Rust code.

   Counted bundles: a slot [B] stands for a count plus a dynamic number of values.  [extra]
   is that dynamic surplus, summed over the bundles on the operand stack.  It is read off the
   observation; it must be zero when no bundle is on the stack and may only change at the
   instructions that build or consume bundles - so under a bundle (filtered loops, calls with
   unpacked arguments) the comparison is as exact as without. *)
From MJ Require Import Common.Base C05.Model.
Local Open Scope nat_scope.

Record obs := mkObs { o_pc : nat; o_stk : nat; o_fr : nat; o_cap : nat; o_ae : nat }.

Definition count_B (k : list slot) : nat := length (filter (slot_eqb B) k).

(* the observation agrees with the shape; result: the bundles' dynamic surplus *)
Definition obs_ok (base : obs) (s : shape) (o : obs) : option nat :=
  if Nat.eqb (o_fr o) (o_fr base + length (frames s)) && Nat.eqb (o_cap o) (o_cap base + caps s)
     && Nat.eqb (o_ae o) (o_ae base + aes s) && Nat.leb (o_stk base + length (stk s)) (o_stk o)
  then let extra := o_stk o - (o_stk base + length (stk s)) in
       if Nat.eqb (count_B (stk s)) 0 && negb (Nat.eqb extra 0) then None else Some extra
  else None.

(* how the surplus may change over instruction [i] executed in shape [s] *)
Definition extra_rule (i : instr) (s : shape) (extra extra' : nat) : bool :=
  match i with
  | IMkB _ => Nat.leb extra extra'
  | IPopB | ICall true => Nat.leb extra' extra
  | ISwap => match stk s with V :: B :: _ => Nat.eqb extra' (S extra) | _ => Nat.eqb extra' extra end
  | _ => Nat.eqb extra' extra
  end.

Fixpoint find_succ (base : obs) (i : instr) (s : shape) (extra : nat) (o : obs) (ts : list (nat * shape)) : option (shape * nat) :=
  match ts with
  | [] => None
  | (pc', s') :: r =>
      if Nat.eqb pc' (o_pc o) then
        match obs_ok base s' o with
        | Some e' => if extra_rule i s extra e' then Some (s', e') else find_succ base i s extra o r
        | None => find_succ base i s extra o r
        end
      else find_succ base i s extra o r
  end.

(* the shape the VM is in between a recursion call and the PushLoop it jumped to: the argument
   still on the stack (a bundle's count gone), the capture of a capturing call begun *)
Definition call_inter (i : instr) (s : shape) : option (shape * nat) :=   (* shape, surplus given up *)
  match call_arg i s with
  | Some (cap, k) => Some (mkShape (frames s) (capn cap + caps s) (aes s) (V :: k) (ext s),
                           match i with ICall true => 1 | _ => 0 end)
  | None => None
  end.

Fixpoint find_call (p : nat) (ts : list (nat * shape)) : option shape :=
  match ts with
  | [] => None
  | (pc', s') :: r => if Nat.eqb pc' (S p) then Some s' else find_call p r
  end.

(* result: [1; steps] or [0; index of the offending observation; reason; pc before; observed pc]
   reasons: 1 pc outside the stream, 2 abstract machine stuck where the VM went on,
            3 no abstract successor with the observed pc and depths,
            4 recursion entry: depths at the PushLoop differ, 5 recursion entry: first body instruction differs *)
Definition fail (idx reason pc opc : nat) : list Z :=
  [0%Z; Z.of_nat idx; Z.of_nat reason; Z.of_nat pc; Z.of_nat opc].

Fixpoint replay (C : list instr) (base : obs) (pc : nat) (s : shape) (extra : nat) (idx : nat) (l : list obs) : list Z :=
  match l with
  | [] => [1%Z; Z.of_nat idx]
  | o :: rest =>
      match nth_error C pc with
      | None => fail idx 1 pc (o_pc o)
      | Some i =>
          match edges i pc s with
          | None => fail idx 2 pc (o_pc o)
          | Some ts =>
              match find_succ base i s extra o ts with
              | Some (s', e') => replay C base (o_pc o) s' e' (S idx) rest
              | None =>
                  match find_call (o_pc o) (call_edges C i pc s), call_inter i s with
                  | Some s', Some (si, give) =>
                      match obs_ok base si o with
                      | Some e1 =>
                          if Nat.eqb (e1 + give) extra then
                            match rest with
                            | [] => [1%Z; Z.of_nat (S idx)]
                            | o2 :: rest2 =>
                                if Nat.eqb (o_pc o2) (S (o_pc o)) then
                                  match obs_ok base s' o2 with
                                  | Some e2 => if Nat.eqb e2 e1 then replay C base (o_pc o2) s' e2 (S (S idx)) rest2
                                               else fail (S idx) 5 (o_pc o) (o_pc o2)
                                  | None => fail (S idx) 5 (o_pc o) (o_pc o2)
                                  end
                                else fail (S idx) 5 (o_pc o) (o_pc o2)
                            end
                          else fail idx 4 pc (o_pc o)
                      | None => fail idx 4 pc (o_pc o)
                      end
                  | _, _ => fail idx 3 pc (o_pc o)
                  end
              end
          end
      end
  end.

(* one activation: the first observation fixes the base; it must be at an entry point with
   exactly that entry's arguments on the operand stack *)
Definition replay_act (C : list instr) (entries : list (nat * shape)) (l : list obs) : list Z :=
  match l with
  | [] => [1%Z; 0%Z]
  | o :: rest =>
      match find (fun e => Nat.eqb (fst e) (o_pc o)) entries with
      | Some (_, s0) =>
          let base := mkObs 0 (o_stk o - length (stk s0)) (o_fr o) (o_cap o) (o_ae o) in
          if Nat.leb (length (stk s0)) (o_stk o) then replay C base (o_pc o) s0 0 1 rest
          else fail 0 6 0 (o_pc o)
      | None => fail 0 7 0 (o_pc o)
      end
  end.
