(* C06 -- the template fragment shared by the implementation model (Model.v) and the
   specification (Spec.v): syntax, values, the variable environment.  No proofs here.

   Identifiers (template names, block names, variable names) and text tokens are integers;
   tools/props/C06.py owns the table integer -> string and prints the templates.  A string
   value is a list of tokens ([] = the empty string); a template-name expression that
   evaluates to the one-token string [n] names template n. *)
From MJ Require Import Common.Base.

Definition name := Z.

Inductive nexpr :=
| NLit (n : name)          (* "literal" *)
| NVar (x : name).         (* variable *)

Inductive item :=
| IText (s : Z)                                   (* raw template text *)
| IPrint (x : name)                               (* {{ x }} *)
| ISet (x : name) (s : Z)                         (* {% set x = "s" %}   (s = 0: "") *)
| IIf (x : name) (body : list item)               (* {% if x %}..{% endif %} *)
| IFor (n : nat) (body : list item)               (* {% for i in range(n) %}..{% endfor %} *)
| IBlock (b : name) (req : bool) (body : list item) (* {% block b [required] %}..{% endblock %} *)
| ISuper                                          (* {{ super() }} *)
| ISelf (b : name)                                (* {{ self.b() }} *)
| IExtends (e : nexpr)                            (* {% extends e %} *)
| ICondExtends (x : name) (e : nexpr)             (* {% if x %}{% extends e %}{% endif %} *)
| IInclude (es : list nexpr) (ign : bool)         (* {% include e %} / {% include [e1, ..] %} [ignore missing] *)
| IMacro (f : name) (body : list item)            (* {% macro f(p) %}..{% endmacro %} *)
| ICall (f : name) (arg : Z)                      (* {{ f("arg") }} *)
| IImport (e : nexpr) (m : name)                  (* {% import e as m %} *)
| IFrom (e : nexpr) (xs : list (name * name))     (* {% from e import x1 as y1, .. %} *)
| IPrintAttr (m x : name)                         (* {{ m.x }} *)
| ICallAttr (m f : name) (arg : Z)                (* {{ m.f("arg") }} *)
| IKeys (m : name)                                (* {% for k in m %}{{ k }},{% endfor %} *)
| ISetBlock (x : name) (body : list item).        (* {% set x %}..{% endset %} *)

Inductive value :=
| VUndef
| VStr (s : list Z)
| VMacro (body : list item) (clo : list (name * value))   (* clo: the enclosed variables (closure) *)
| VModule (kvs : list (name * value)) (body : list Z).    (* body: the text the module rendered *)

(* fixed identifiers of the printer *)
Definition v_loop : name := 90.       (* "i" *)
Definition v_param : name := 91.      (* "p" *)
Definition tok_comma : Z := 99.       (* "," *)
Definition tok_num (k : nat) : Z := 100 + Z.of_nat k.   (* decimal numeral of k *)

(* a code no ErrorKind has: the construct is outside the modelled fragment *)
Definition E_Unmodelled := 99.

Fixpoint assoc {A} (k : name) (l : list (name * A)) : option A :=
  match l with
  | [] => None
  | (k', v) :: r => if k =? k' then Some v else assoc k r
  end.

Fixpoint memZ (k : Z) (l : list Z) : bool :=
  match l with [] => false | x :: r => (k =? x) || memZ k r end.

(* locals of one frame: sorted by key, one entry per key (a BTreeMap) *)
Definition frame := list (name * value).
Fixpoint fset (k : name) (v : value) (f : frame) : frame :=
  match f with
  | [] => [(k, v)]
  | (k', v') :: r => if k <? k' then (k, v) :: f
                     else if k =? k' then (k, v) :: r
                     else (k', v') :: fset k v r
  end.

(* the context: the render's root value and the stack of frames, innermost first *)
Record venv := mkVenv { root : frame; frames : list frame }.

Fixpoint lookup_frames (x : name) (fs : list frame) : option value :=
  match fs with
  | [] => None
  | f :: r => match assoc x f with Some v => Some v | None => lookup_frames x r end
  end.
Definition lookup (x : name) (e : venv) : option value :=
  match lookup_frames x (frames e) with Some v => Some v | None => assoc x (root e) end.

(* assignment goes to the innermost frame; None = there is no frame *)
Definition store (x : name) (v : value) (e : venv) : option venv :=
  match frames e with
  | f :: r => Some (mkVenv (root e) (fset x v f :: r))
  | [] => None
  end.

(* keep the [n] outermost frames *)
Definition truncate (n : nat) (e : venv) : venv :=
  mkVenv (root e) (skipn (length (frames e) - n) (frames e)).

Definition truthy (o : option value) : bool :=
  match o with
  | Some (VStr (_ :: _)) | Some (VMacro _ _) | Some (VModule _ _) => true
  | _ => false
  end.

(* what {{ v }} writes *)
Definition printed (o : option value) : outcome (list Z) :=
  match o with
  | None | Some VUndef => Ok []
  | Some (VStr s) => Ok s
  | Some (VModule _ body) => Ok body          (* Module::render: the captured body *)
  | Some (VMacro _ _) => Err E_Unmodelled
  end.

Definition str_of (s : Z) : value := VStr (if s =? 0 then [] else [s]).

(* Enclose: the enclosed names with their values at the declaration of the macro *)
Fixpoint closure_of (xs : list name) (e : venv) : frame :=
  match xs with
  | [] => []
  | x :: r => match lookup x e with
              | Some v => fset x v (closure_of r e)
              | None => closure_of r e
              end
  end.

(* The variables a macro encloses (compiler/meta.rs find_macro_closure / track_walk): every name
   the body looks up before the body itself has assigned it; if / for / block / set-block / macro
   bodies are scopes of their own; the name expressions of include / extends / import are not
   visited.  [sc]: names assigned so far, [out]: the enclosed names in order of discovery. *)
Definition fv_read (x : name) (sc out : list name) : list name * list name :=
  if memZ x sc then (sc, out) else (x :: sc, if memZ x out then out else out ++ [x]).
Fixpoint fv_item (it : item) (sc out : list name) {struct it} : list name * list name :=
  let fv_list := fix go (l : list item) (sc out : list name) : list name * list name :=
    match l with
    | [] => (sc, out)
    | i :: r => let so := fv_item i sc out in go r (fst so) (snd so)
    end in
  match it with
  | IPrint x | ICall x _ | IPrintAttr x _ | ICallAttr x _ _ | IKeys x => fv_read x sc out
  | ISet x _ | IImport _ x => (x :: sc, out)
  | ICondExtends x _ => fv_read x sc out
  | IIf x body => let so := fv_read x sc out in (fst so, snd (fv_list body (fst so) (snd so)))
  | IFor _ body => (sc, snd (fv_list body (v_loop :: sc) out))
  | IBlock _ _ body => (sc, snd (fv_list body sc out))
  | ISetBlock x body => (x :: sc, snd (fv_list body sc out))
  | IMacro f body => (f :: sc, snd (fv_list body (v_param :: sc) out))
  | IFrom _ xs => (map snd xs ++ sc, out)
  | IText _ | ISuper | ISelf _ | IExtends _ | IInclude _ _ => (sc, out)
  end.
Fixpoint fv_items (l : list item) (sc out : list name) : list name * list name :=
  match l with
  | [] => (sc, out)
  | i :: r => let so := fv_item i sc out in fv_items r (fst so) (snd so)
  end.
(* the names a macro body (parameter [v_param]) encloses *)
Definition enclosed (body : list item) : list name := snd (fv_items body [v_param] []).

(* value of a template-name expression *)
Definition eval_name (e : nexpr) (v : venv) : outcome name :=
  match e with
  | NLit n => Ok n
  | NVar x => match lookup x v with
              | Some (VStr []) => Ok 0
              | Some (VStr [n]) => Ok n
              | Some (VStr _) => Err E_Unmodelled
              | _ => Err E_InvalidOperation       (* "template name was not a string" *)
              end
  end.

(* block table of a template: one entry per block tag, nested ones included
   (codegen.rs compile_block; parser.rs rejects a second block of the same name) *)
Definition bdef := (bool * list item)%type.
Fixpoint blocks_of_item (it : item) : list (name * bdef) :=
  match it with
  | IBlock b req body => flat_map blocks_of_item body ++ [(b, (req, body))]
  | IIf _ body | IFor _ body => flat_map blocks_of_item body
  | _ => []
  end.
Definition blocks_of (top : list item) : list (name * bdef) := flat_map blocks_of_item top.

(* the templates of an environment: one that loads, or one that EXISTS but does not load
   (syntax error in its source, failing loader) - looking it up fails with that error *)
Inductive tmpl := TGood (top : list item) | TBad (code : Z).
Definition env := list (name * tmpl).
(* Environment::get_template: Ok None = there is no such template (TemplateNotFound) *)
Definition find_tmpl (E : env) (n : name) : outcome (option (list item)) :=
  match assoc n E with
  | None => Ok None
  | Some (TGood top) => Ok (Some top)
  | Some (TBad c) => Err c
  end.

Definition wrap_err {A} (k : Z) (o : outcome A) : outcome A :=
  match o with
  | Err c => Err (if 100 <=? c then 100 + k else k)
  | x => x
  end.
(* "recursion limit exceeded" (InvalidOperation), marked by +100 so that it can be told apart *)
Definition E_Limit := 100 + E_InvalidOperation.
