(* C06 -- model of the code AS IT IS: how the VM composes templates.
     minijinja/src/vm/mod.rs    eval_impl (LoadBlocks, CallBlock, FastSuper, Include, ExportLocals,
                                the parent_instructions switch at the end of a stream),
                                load_blocks, call_block, perform_super, perform_include, eval_macro
     minijinja/src/vm/state.rs  BlockStack (push/pop/rewind/restore/append_instructions),
                                with_execution_state (BlockState::Keep / Replace / Isolate)
     minijinja/src/vm/context.rs push_frame / incr_depth / check_depth (recursion limit)
     minijinja/src/output.rs    the capture stack (Capture / Discard), is_discarding
     minijinja/src/compiler/codegen.rs  what Block / Extends / Include / Import / FromImport compile to
   The model works on the template tree (Lang.item) instead of the instruction stream; every
   instruction the listed constructs compile to has its counterpart below, in the same order.
   No proofs in this file.

   [quirks] selects the behaviour of the code before the four `fix:` commits of this property
   (known/C06.json); [fixed_code] is the code as it is now. *)
From MJ Require Import Common.Base C06.Lang.

Record quirks := mkQuirks {
  q_incl_block : bool;    (* perform_include passes the includer's current block on *)
  q_incl_loaded : bool;   (* loaded_templates is carried into an include *)
  q_cursor_call : bool;   (* call_block renders the definition under the super() cursor *)
  q_from_scope : bool     (* from-import looks names up through all scopes *)
}.
Definition fixed_code := mkQuirks false false false false.
Definition legacy_code := mkQuirks true true true true.

(* BlockStack: the definitions of one block name, most derived first, and the super() cursor *)
Record bstack := mkBstack { defs : list bdef; depth : nat }.
Definition bmap := list (name * bstack).

Record ist := mkIst {
  blocks : bmap;                      (* State::blocks *)
  loaded : list name;                 (* State::loaded_templates *)
  outs : list (option (list Z));      (* Output: capture stack, innermost first (None = Discard);
                                         the last entry is the render's real output *)
  vars : venv;                        (* Context: root value + frames *)
  outer : Z                           (* Context::outer_stack_depth *)
}.

Definition with_blocks b (s : ist) := mkIst b (loaded s) (outs s) (vars s) (outer s).
Definition with_loaded l (s : ist) := mkIst (blocks s) l (outs s) (vars s) (outer s).
Definition with_outs o (s : ist) := mkIst (blocks s) (loaded s) o (vars s) (outer s).
Definition with_vars v (s : ist) := mkIst (blocks s) (loaded s) (outs s) v (outer s).
Definition with_outer d (s : ist) := mkIst (blocks s) (loaded s) (outs s) (vars s) d.

(* Context::check_depth *)
Definition depth_ok (lim : option Z) (outer : Z) (nframes : nat) : bool :=
  match lim with None => true | Some L => outer + Z.of_nat nframes <=? L end.

(* Context::push_frame *)
Definition push_frame (lim : option Z) (f : frame) (s : ist) : outcome ist :=
  let fs := f :: frames (vars s) in
  if depth_ok lim (outer s) (length fs) then Ok (with_vars (mkVenv (root (vars s)) fs) s)
  else Err E_Limit.

(* Context::pop_frame *)
Definition pop_frame (s : ist) : outcome ist :=
  match frames (vars s) with
  | _ :: r => Ok (with_vars (mkVenv (root (vars s)) r) s)
  | [] => Panic
  end.

Definition top_frame (s : ist) : outcome frame :=
  match frames (vars s) with f :: _ => Ok f | [] => Panic end.

(* Output::write_str *)
Definition emit (t : list Z) (s : ist) : outcome ist :=
  match outs s with
  | Some buf :: r => Ok (with_outs (Some (buf ++ t) :: r) s)
  | None :: _ => Ok s
  | [] => Panic
  end.

(* Output::begin_capture / end_capture: the real output is not a capture *)
Definition begin_capture (c : option (list Z)) (s : ist) : ist := with_outs (c :: outs s) s.
Definition end_capture (s : ist) : outcome (option (list Z) * ist) :=
  match outs s with
  | c :: (_ :: _) as r => Ok (c, with_outs r s)
  | _ => Panic
  end.
Definition is_discarding (s : ist) : bool :=
  match outs s with None :: _ => true | _ => false end.

(* Context::store *)
Definition set_var (x : name) (v : value) (s : ist) : outcome ist :=
  match store x v (vars s) with
  | Some e => Ok (with_vars e s)
  | None => Panic
  end.

(* with_execution_state: restore_stack_depth *)
Definition restore_frames (n : nat) (s : ist) : ist := with_vars (truncate n (vars s)) s.

Fixpoint set_depth (b : name) (d : nat) (m : bmap) : bmap :=
  match m with
  | [] => []
  | (k, bs) :: r => if b =? k then (k, mkBstack (defs bs) d) :: r else (k, bs) :: set_depth b d r
  end.

(* blocks.entry(name).or_default().append_instructions(..) *)
Fixpoint append_def (b : name) (d : bdef) (m : bmap) : bmap :=
  match m with
  | [] => [(b, mkBstack [d] 0)]
  | (k, bs) :: r => if b =? k then (k, mkBstack (defs bs ++ [d]) (depth bs)) :: r else (k, bs) :: append_def b d r
  end.
Fixpoint append_defs (l : list (name * bdef)) (m : bmap) : bmap :=
  match l with
  | [] => m
  | (b, d) :: r => append_defs r (append_def b d m)
  end.

(* prepare_blocks *)
Definition prepare (l : list (name * bdef)) : bmap := append_defs l [].

(* one evaluation of an instruction stream ("eval_impl"):
     TBody      a block / macro / if / for body: nothing in it may extend
     TTemplate  the whole stream of a template, followed by the streams of the templates it extends *)
Inductive task :=
| TBody (cur : option name) (its : list item)
| TTemplate (cur : option name) (top : list item).

Section Step.
Variable Q : quirks.
Variable lim : option Z.           (* Environment::recursion_limit *)
Variable E : env.
Variable call : task -> ist -> outcome ist.

(* call_block *)
Definition call_block (b : name) (s : ist) : outcome ist :=
  match assoc b (blocks s) with
  | None => Err E_UnknownBlock
  | Some bs =>
      match nth_error (defs bs) (depth bs) with
      | None => Panic
      | Some (req, _) =>
          if ((length (defs bs) =? 1)%nat && req)%bool then Err E_InvalidOperation
          else
            let d := if q_cursor_call Q then depth bs else 0%nat in
            match nth_error (defs bs) d with
            | None => Panic
            | Some (_, body) =>
                let nfr := length (frames (vars s)) in
                bind (push_frame lim [] (with_blocks (set_depth b d (blocks s)) s)) (fun s1 =>
                (* charge_depth(BLOCK_RECURSION_COST) while the block runs, decr_depth afterwards *)
                bind (call (TBody (Some b) body) (with_outer (outer s1 + 5) s1)) (fun s2 =>
                Ok (with_blocks (set_depth b (depth bs) (blocks s2)) (restore_frames nfr (with_outer (outer s2 - 5) s2)))))
            end
      end
  end.

(* perform_super *)
Definition perform_super (cur : option name) (s : ist) : outcome ist :=
  match cur with
  | None => Err E_InvalidOperation                      (* cannot super outside of block *)
  | Some b =>
      match assoc b (blocks s) with
      | None => Panic                                   (* state.blocks.get_mut(name).unwrap() *)
      | Some bs =>
          if (S (depth bs) <? length (defs bs))%nat then
            match nth_error (defs bs) (S (depth bs)) with
            | None => Panic
            | Some (_, body) =>
                bind (push_frame lim [] (with_blocks (set_depth b (S (depth bs)) (blocks s)) s)) (fun s1 =>
                let nfr := length (frames (vars s1)) in
                match call (TBody cur body) (with_outer (outer s1 + 5) s1) with
                | Ok s2' =>
                    let s2 := with_outer (outer s2' - 5) s2' in
                    bind (pop_frame (restore_frames nfr s2)) (fun s3 =>
                    Ok (with_blocks (set_depth b (depth bs) (blocks s3)) s3))
                | o => wrap_err E_EvalBlock o
                end)
            end
          else Err E_InvalidOperation                   (* no parent block exists *)
      end
  end.

(* LoadBlocks + load_blocks; [par] = parent_instructions *)
Definition load_blocks (e : nexpr) (par : option (list item)) (s : ist) : outcome (option (list item) * ist) :=
  match par with
  | Some _ => Err E_InvalidOperation                    (* tried to extend a second time *)
  | None =>
      bind (eval_name e (vars s)) (fun n =>
      if memZ n (loaded s) then Err E_InvalidOperation  (* cycle in template inheritance *)
      else bind (find_tmpl E n) (fun o =>
           match o with
           | None => Err E_TemplateNotFound
           | Some ptop =>
               Ok (Some ptop,
                   begin_capture None
                     (with_blocks (append_defs (blocks_of ptop) (blocks s)) (with_loaded (loaded s ++ [n]) s)))
           end))
  end.

(* perform_include: the first template of the list that exists *)
Fixpoint first_existing (v : venv) (es : list nexpr) : outcome (option (list item)) :=
  match es with
  | [] => Ok None
  | e :: r => bind (eval_name e v) (fun n =>
              bind (find_tmpl E n) (fun o =>            (* only TemplateNotFound moves on to the next choice *)
              match o with
              | Some top => Ok (Some top)
              | None => first_existing v r
              end))
  end.

Definition perform_include (cur : option name) (es : list nexpr) (ign : bool) (s : ist) : outcome ist :=
  bind (first_existing (vars s) es) (fun found =>
  match found with
  | Some top =>
      if depth_ok lim (outer s + 10) (length (frames (vars s))) then       (* incr_depth(INCLUDE_RECURSION_COST) *)
        let nfr := length (frames (vars s)) in
        let s1 := with_outer (outer s + 10)
                    (with_loaded (if q_incl_loaded Q then loaded s else [])
                       (with_blocks (prepare (blocks_of top)) s)) in
        match call (TTemplate (if q_incl_block Q then cur else None) top) s1 with
        | Ok s2 => Ok (with_outer (outer s2 - 10)                          (* decr_depth(INCLUDE_RECURSION_COST) *)
                        (with_loaded (loaded s) (with_blocks (blocks s) (restore_frames nfr s2))))
        | o => wrap_err E_BadInclude o
        end
      else Err E_Limit
  | None =>
      match es with
      | _ :: _ => if ign then Ok s else Err E_TemplateNotFound
      | [] => Ok s
      end
  end).

(* Macro::call + eval_macro: own context (root value + closure frame holding the argument),
   own output; blocks and loaded templates are kept and restored (BlockState::Isolate) *)
Definition call_macro (body : list item) (clo : frame) (arg : Z) (s : ist) : outcome ist :=
  let d := outer s + Z.of_nat (length (frames (vars s))) in
  if (depth_ok lim 0 2 && depth_ok lim (d + 4) 2)%bool then
    let s1 := mkIst (blocks s) (loaded s) [Some []]
                (mkVenv (root (vars s)) [[(v_param, str_of arg)]; clo]) (d + 4) in
    bind (call (TBody None body) s1) (fun s2 =>
    match outs s2 with
    | [Some cap] => emit cap s
    | _ => Panic
    end)
  else Err E_Limit.

Definition call_value (o : option value) (arg : Z) (s : ist) : outcome ist :=
  match o with
  | Some (VMacro body clo) => call_macro body clo arg s
  | _ => Err E_InvalidOperation                         (* value is not callable *)
  end.

Fixpoint for_loop (cur : option name) (body : list item) (todo idx : nat) (s : ist) : outcome ist :=
  match todo with
  | O => Ok s
  | S t =>
      match frames (vars s) with
      | _ :: r =>                                   (* next_loop_item: locals.clear(); StoreLocal i *)
          bind (call (TBody cur body) (with_vars (mkVenv (root (vars s)) ([(v_loop, VStr [tok_num idx])] :: r)) s))
               (for_loop cur body t (S idx))
      | [] => Panic
      end
  end.

(* the names a from-import binds, looked up after the include *)
Definition from_value (x : name) (s : ist) : value :=
  let o := if q_from_scope Q then lookup x (vars s)
           else match frames (vars s) with f :: _ => assoc x f | [] => None end in
  match o with Some v => v | None => VUndef end.

Fixpoint store_all (l : list (name * value)) (s : ist) : outcome ist :=
  match l with
  | [] => Ok s
  | (x, v) :: r => bind (set_var x v s) (store_all r)
  end.

Fixpoint emit_keys (kvs : list (name * value)) : list Z :=
  match kvs with [] => [] | (k, _) :: r => k :: tok_comma :: emit_keys r end.

Definition keep (par : option (list item)) (o : outcome ist) : outcome (option (list item) * ist) :=
  bind o (fun s => Ok (par, s)).

(* one statement.  [lvl0]: directly at the top level of a template's stream (the only place where
   the model follows an extends tag); [par]: parent_instructions of this stream *)
Definition istep (lvl0 : bool) (cur : option name) (it : item) (par : option (list item)) (s : ist)
  : outcome (option (list item) * ist) :=
  match it with
  | IText t => keep par (emit [t] s)
  | IPrint x => keep par (bind (printed (lookup x (vars s))) (fun t => emit t s))
  | ISet x t => keep par (set_var x (str_of t) s)
  | IIf x body => keep par (if truthy (lookup x (vars s)) then call (TBody cur body) s else Ok s)
  | IFor n body =>
      keep par (bind (push_frame lim [] s) (fun s1 =>
                bind (for_loop cur body n 0 s1) pop_frame))
  | IBlock b _ _ | ISelf b =>                         (* CallBlock *)
      keep par (match par with
                | None => if is_discarding s then Ok s else call_block b s
                | Some _ => Ok s
                end)
  | ISuper => keep par (perform_super cur s)
  | IExtends e => if lvl0 then load_blocks e par s else Err E_Unmodelled
  | ICondExtends x e =>
      if lvl0 then (if truthy (lookup x (vars s)) then load_blocks e par s else Ok (par, s))
      else Err E_Unmodelled
  | IInclude es ign => keep par (perform_include cur es ign s)
  | IMacro f body =>                                  (* Enclose.. BuildMacro StoreLocal *)
      keep par (set_var f (VMacro body (closure_of (enclosed body) (vars s))) s)
  | ICall f arg =>
      keep par (match lookup f (vars s) with
                | None => Err E_UnknownFunction
                | o => call_value o arg s
                end)
  | IImport e m =>
      (* BeginCapture(Capture) PushWith <e> Include(false) EndCapture ExportLocals PopFrame StoreLocal *)
      keep par (bind (push_frame lim [] (begin_capture (Some []) s)) (fun s1 =>
                bind (perform_include cur [e] false s1) (fun s2 =>
                bind (end_capture s2) (fun cs =>
                let s3 := snd cs in
                bind (top_frame s3) (fun exports =>
                bind (pop_frame s3) (fun s4 =>
                set_var m (VModule exports (match fst cs with Some t => t | None => [] end)) s4))))))
  | IFrom e xs =>
      (* BeginCapture(Discard) PushWith <e> Include(false) <names> PopFrame StoreLocal.. EndCapture *)
      keep par (bind (push_frame lim [] (begin_capture None s)) (fun s1 =>
                bind (perform_include cur [e] false s1) (fun s2 =>
                let vals := map (fun xa => (snd xa, from_value (fst xa) s2)) xs in
                bind (pop_frame s2) (fun s3 =>
                bind (store_all (rev vals) s3) (fun s4 =>
                bind (end_capture s4) (fun '(_, s5) => Ok s5))))))
  | IPrintAttr m x =>
      keep par (match lookup m (vars s) with
                | None | Some VUndef => Err E_UndefinedError
                | Some (VModule kvs _) => bind (printed (assoc x kvs)) (fun t => emit t s)
                | Some (VStr _) => Ok s
                | Some (VMacro _ _) => Err E_Unmodelled
                end)
  | ICallAttr m f arg =>
      keep par (match lookup m (vars s) with
                | Some (VModule kvs _) =>
                    match assoc f kvs with
                    | None => Err E_UnknownMethod
                    | o => call_value o arg s
                    end
                | _ => Err E_Unmodelled
                end)
  | IKeys m =>
      keep par (match lookup m (vars s) with
                | None | Some VUndef => bind (push_frame lim [] s) (fun _ => Ok s)
                | Some (VModule kvs _) => bind (push_frame lim [] s) (fun _ => emit (emit_keys kvs) s)
                | Some _ => Err E_Unmodelled
                end)
  | ISetBlock x body =>
      (* BeginCapture(Capture) <body> EndCapture StoreLocal: the body runs in the same stream *)
      keep par (bind (call (TBody cur body) (begin_capture (Some []) s)) (fun s2 =>
                bind (end_capture s2) (fun cs =>
                set_var x (match fst cs with Some t => VStr t | None => VUndef end) (snd cs))))
  end.

Fixpoint ilist (lvl0 : bool) (cur : option name) (its : list item) (par : option (list item)) (s : ist)
  : outcome (option (list item) * ist) :=
  match its with
  | [] => Ok (par, s)
  | it :: r => bind (istep lvl0 cur it par s) (fun ps => ilist lvl0 cur r (fst ps) (snd ps))
  end.
End Step.

(* the evaluation, by call depth: one unit of [fuel] per nested stream *)
Fixpoint icall (Q : quirks) (lim : option Z) (E : env) (fuel : nat) (t : task) (s : ist) : outcome ist :=
  match fuel with
  | O => OutOfGas
  | S f =>
      match t with
      | TBody cur its => bind (ilist Q lim E (icall Q lim E f) false cur its None s) (fun ps => Ok (snd ps))
      | TTemplate cur top =>
          bind (ilist Q lim E (icall Q lim E f) true cur top None s) (fun ps =>
          match fst ps with
          | None => Ok (snd ps)
          | Some ptop =>
              (* end of the stream with parent instructions stashed away: end_capture, pc = 0 *)
              bind (end_capture (snd ps)) (fun cs => icall Q lim E f (TTemplate cur ptop) (snd cs))
          end)
      end
  end.

(* Template::render *)
Definition render (Q : quirks) (lim : option Z) (fuel : nat) (E : env) (main : name) (ctx : frame) : outcome (list Z) :=
  match find_tmpl E main with
  | Err c => Err c
  | Panic => Panic
  | OutOfGas => OutOfGas
  | Ok None => Err E_TemplateNotFound
  | Ok (Some top) =>
      if depth_ok lim 0 1 then
        match icall Q lim E fuel (TTemplate None top)
                (mkIst (prepare (blocks_of top)) [] [Some []] (mkVenv ctx [[]]) 0) with
        | Ok s => match outs s with [Some o] => Ok o | _ => Panic end
        | Err c => Err c
        | Panic => Panic
        | OutOfGas => OutOfGas
        end
      else Err E_Limit
  end.
